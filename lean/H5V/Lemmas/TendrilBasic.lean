import H5V.Model.Tendril
/-!
Helper layer for C11 / C12: the partial-correctness combinator `Sat`, the well-formedness
invariant `WF heap ts` over the list `ts` of all live tendril values, the ledger monitor, and the
effect of every heap primitive.
-/
namespace H5V.Lemmas.Tendril
open H5V.Model.Tendril

/-! ## `Sat`: result is `ok` satisfying `Q`, or a panic; never undefined behaviour -/

def Sat {α : Type} (x : M α) (Q : α → Prop) : Prop :=
  match x with
  | .ok a => Q a
  | .error (.panic _) => True
  | .error (.ub _) => False

theorem Sat.ok {α} {a : α} {Q : α → Prop} (h : Q a) : Sat (.ok a : M α) Q := h
theorem Sat.pure {α} {a : α} {Q : α → Prop} (h : Q a) : Sat (pure a : M α) Q := h
theorem Sat.panic {α} {s : String} {Q : α → Prop} : Sat (.error (.panic s) : M α) Q := trivial

theorem Sat.bind {α β} {x : M α} {f : α → M β} {P : α → Prop} {Q : β → Prop}
    (hx : Sat x P) (hf : ∀ a, P a → Sat (f a) Q) : Sat (x >>= f) Q := by
  cases x with
  | ok a => exact hf a hx
  | error e => cases e with
    | panic s => trivial
    | ub s => exact hx.elim

theorem Sat.mono {α} {x : M α} {P Q : α → Prop} (hx : Sat x P) (h : ∀ a, P a → Q a) : Sat x Q := by
  cases x with
  | ok a => exact h a hx
  | error e => cases e with
    | panic s => trivial
    | ub s => exact hx.elim

theorem Sat.of_ok {α} {x : M α} {Q : α → Prop} {a : α} (hx : Sat x Q) (h : x = .ok a) : Q a := by
  subst h; exact hx

theorem Sat.not_ub {α} {x : M α} {Q : α → Prop} (hx : Sat x Q) (s : String) : x ≠ .error (.ub s) := by
  intro h; subst h; exact hx

/-- total variant: `ok` and `Q` -/
def SatT {α : Type} (x : M α) (Q : α → Prop) : Prop := ∃ a, x = .ok a ∧ Q a

theorem SatT.sat {α} {x : M α} {Q : α → Prop} (h : SatT x Q) : Sat x Q := by
  obtain ⟨a, rfl, hq⟩ := h; exact hq

theorem SatT.ok {α} {a : α} {Q : α → Prop} (h : Q a) : SatT (.ok a : M α) Q := ⟨a, rfl, h⟩

theorem SatT.bind {α β} {x : M α} {f : α → M β} {P : α → Prop} {Q : β → Prop}
    (hx : SatT x P) (hf : ∀ a, P a → SatT (f a) Q) : SatT (x >>= f) Q := by
  obtain ⟨a, rfl, hp⟩ := hx
  exact hf a hp

theorem SatT.mono {α} {x : M α} {P Q : α → Prop} (hx : SatT x P) (h : ∀ a, P a → Q a) : SatT x Q := by
  obtain ⟨a, rfl, hp⟩ := hx; exact ⟨a, rfl, h a hp⟩

/-! ## well-formedness -/

def refs (ts : List T) (id : Nat) : Nat := ts.countP (fun t => t.bufId? == some id)

@[simp] theorem refs_nil (id : Nat) : refs [] id = 0 := rfl

theorem refs_cons (t : T) (ts : List T) (id : Nat) :
    refs (t :: ts) id = refs ts id + (if t.bufId? = some id then 1 else 0) := by
  simp [refs, List.countP_cons]

theorem refs_perm {ts ts' : List T} (h : ts.Perm ts') (id : Nat) : refs ts id = refs ts' id :=
  h.countP_eq _

theorem refs_pos_of_mem {ts : List T} {t : T} {id : Nat} (hm : t ∈ ts) (hid : t.bufId? = some id) :
    0 < refs ts id := by
  unfold refs
  exact List.countP_pos_iff.mpr ⟨t, hm, by simp [hid]⟩

/-- what a tendril value needs from the heap -/
def TWF (h : Heap) : T → Prop
  | .inline bs => bs.length ≤ 8
  | .owned id len cap => ∃ b, h.bufs[id]? = some b ∧ b.live = true ∧ b.cap = cap ∧ len ≤ b.data.length
  | .shared id off len =>
    ∃ b, h.bufs[id]? = some b ∧ b.live = true ∧ b.hdrCap = b.cap ∧ off + len ≤ b.data.length

def BufOK (b : Buf) : Prop := b.data.length ≤ b.cap ∧ 16 ≤ b.cap ∧ b.cap ≤ 4294967295

/-! ### the ledger monitor: an independent replay of the allocation trace -/

/-- monitor state: capacity and liveness per buffer id -/
abbrev Mon := List (Nat × Bool)

def Mon.step (m : Mon) : Event → Option Mon
  | .alloc id cap => if id = m.length then some (m ++ [(cap, true)]) else none
  | .free id cap => match m[id]? with
    | some (c, true) => if c = cap then some (m.set id (c, false)) else none
    | _ => none
  | .write id lo hi => match m[id]? with
    | some (c, true) => if lo ≤ hi ∧ hi ≤ c then some m else none
    | _ => none
  | .incref id _ => match m[id]? with
    | some (_, true) => some m
    | _ => none
  | .decref id _ => match m[id]? with
    | some (_, true) => some m
    | _ => none

/-- replay of a trace (newest event first) from the empty ledger; `none` = the monitor rejects:
double free, free / write / refcount access of a dead or unknown buffer, dealloc with a wrong
size, write outside the capacity, reuse of an id -/
def Mon.run : List Event → Option Mon
  | [] => some []
  | e :: tr => (Mon.run tr).bind (fun m => m.step e)

def proj (h : Heap) : Mon := h.bufs.map (fun b => (b.cap, b.live))

structure WF (h : Heap) (ts : List T) : Prop where
  twf : ∀ t ∈ ts, TWF h t
  bufs : ∀ (id : Nat) (b : Buf), h.bufs[id]? = some b → BufOK b
  live : ∀ (id : Nat) (b : Buf), h.bufs[id]? = some b → b.live = true →
    b.refcount = refs ts id ∧ 0 < refs ts id
  dead : ∀ (id : Nat) (b : Buf), h.bufs[id]? = some b → b.live = false → refs ts id = 0
  excl : ∀ (id len cap : Nat), T.owned id len cap ∈ ts → refs ts id = 1
  ledger : Mon.run h.trace = some (proj h)

theorem WF.perm {h : Heap} {ts ts' : List T} (hp : ts.Perm ts') (w : WF h ts) : WF h ts' where
  twf t ht := w.twf t (hp.mem_iff.mpr ht)
  bufs := w.bufs
  live id b hb hl := by rw [← refs_perm hp]; exact w.live id b hb hl
  dead id b hb hl := by rw [← refs_perm hp]; exact w.dead id b hb hl
  excl id len cap hm := by rw [← refs_perm hp]; exact w.excl id len cap (hp.mem_iff.mpr hm)
  ledger := w.ledger

theorem WF.empty : WF Heap.empty [] where
  twf := by simp
  bufs := by simp [Heap.empty]
  live := by simp [Heap.empty]
  dead := by simp [Heap.empty]
  excl := by simp
  ledger := rfl

/-- the buffer ids mentioned by well-formed tendrils exist -/
theorem TWF.lt {h : Heap} {t : T} {id : Nat} (w : TWF h t) (hid : t.bufId? = some id) :
    id < h.bufs.length := by
  cases t with
  | inline bs => simp [T.bufId?] at hid
  | owned i len cap =>
    simp [T.bufId?] at hid; subst hid
    obtain ⟨b, hb, _⟩ := w
    exact (List.getElem?_eq_some_iff.mp hb).1
  | shared i off len =>
    simp [T.bufId?] at hid; subst hid
    obtain ⟨b, hb, _⟩ := w
    exact (List.getElem?_eq_some_iff.mp hb).1

/-- no tendril refers to an id beyond the heap -/
theorem WF.refs_fresh {h : Heap} {ts : List T} (w : WF h ts) {id : Nat} (hid : h.bufs.length ≤ id) :
    refs ts id = 0 := by
  unfold refs
  rw [List.countP_eq_zero]
  intro t ht
  simp only [beq_iff_eq]
  intro hb
  have := (w.twf t ht).lt hb
  omega

end H5V.Lemmas.Tendril
