import H5V.Lemmas.XmlTokCleanRun
/-!
C15 — what a character reference can deliver: never a NUL (a CR is possible: `&#13;`).
`CRI cr`: a recorded named match has a non-zero first code point (the sub-tokenizer records a match
only when the table's first code point is non-zero).
-/
namespace H5V.Model.XmlTok

def CRI (cr : CharRefSt) : Prop := ∀ c1 c2, cr.nameMatch = some (c1, c2) → c1 ≠ 0

theorem c1_entries_nonzero : ∀ i ∈ List.range 32,
    (match Gen.C1.table[i]? with
     | some (some r) => decide (r ≠ 0)
     | _ => true) = true := by decide

theorem ofNat_NN (n : Nat) (hv : isValidScalar n = true) (h0 : n ≠ 0) : NN (Char.ofNat n) := by
  have hv' : n.isValidChar := by
    simp [isValidScalar] at hv
    rcases hv with h | h
    · left; omega
    · right; omega
  have e := toNat_ofNat_valid n hv'
  intro e2
  rw [e2] at e
  simp only [Char.reduceToNat] at e
  omega

theorem finishNumeric_nn (o : Opts) (m : Mach) (cr : CharRefSt) :
    ∀ ch, (finishNumeric o m cr).2 = .ok ch → NN ch := by
  unfold finishNumeric
  dsimp only
  split
  · intro ch h; cases h; decide
  · rename_i h1
    split
    · intro ch h; cases h; decide
    · rename_i h2
      have hne : cr.num ≠ 0 := by
        simp only [Bool.or_eq_true, decide_eq_true_eq, Bool.and_eq_true, not_or, not_and] at h2
        exact h2.1
      split
      · rename_i h3
        have hi : cr.num - 0x80 ∈ List.range 32 := by
          simp only [Bool.and_eq_true, decide_eq_true_eq] at h3; simp; omega
        have hv := c1_entries_nonzero (cr.num - 0x80) hi
        split
        · rename_i r heq
          simp [heq] at hv
          intro ch h
          dsimp only at h
          split at h
          · cases h; exact ofNat_NN _ (by assumption) hv
          · cases h
        · intro ch h
          dsimp only at h
          split at h
          · cases h; exact ofNat_NN _ (by assumption) hne
          · cases h
        · intro ch h; cases h
      · split
        · intro ch h
          dsimp only at h
          split at h
          · cases h; exact ofNat_NN _ (by assumption) hne
          · cases h
        · split <;>
          · intro ch h
            dsimp only at h
            split at h
            · cases h; exact ofNat_NN _ (by assumption) hne
            · cases h
/-- result of a sub-tokenizer step: the registers keep `CRI`, delivered characters are not NUL -/
def CRRes.NNok (r : CRRes) : Prop :=
  match r with
  | .error _ => True
  | .ok (_, _, cr1, st) => CRI cr1 ∧ ∀ chars, st = .done chars → AllS NN chars

theorem unconsumeNumeric_nn (m : Mach) (inp : Str) {cr : CharRefSt} (hc : CRI cr) :
    (unconsumeNumeric m inp cr).NNok := by
  simp only [unconsumeNumeric, CRRes.NNok]
  exact ⟨hc, fun chars h => by cases h; exact AllS_nil _⟩

theorem finishNumericStatus_nn (o : Opts) (m : Mach) (inp : Str) {cr : CharRefSt} (hc : CRI cr) :
    (finishNumericStatus o m inp cr).NNok := by
  unfold finishNumericStatus
  have := finishNumeric_nn o m cr
  split
  · rename_i heq
    rw [heq] at this
    exact ⟨hc, fun chars h => by cases h; exact AllS_single (this _ rfl)⟩
  · trivial

theorem unconsumeName_nn (m : Mach) (inp : Str) {cr : CharRefSt} (hc : CRI cr) :
    (unconsumeName m inp cr).NNok := by
  unfold unconsumeName
  split
  · trivial
  · exact ⟨hc, fun chars h => by cases h; exact AllS_nil _⟩

theorem namedDecision_nn (m : Mach) (cr : CharRefSt) (nb : Str) (c1 c2 : Nat) (h1 : c1 ≠ 0) (m1 : Mach)
    (chars : Str) (hd : namedDecision m cr nb c1 c2 = .ok (m1, some chars)) : AllS NN chars := by
  unfold namedDecision at hd
  dsimp only at hd
  repeat' split at hd
  all_goals
    first
      | (simp at hd; done)
      | (rename_i hv hc2
         have hv' : isValidScalar c1 = true ∧ isValidScalar c2 = true := by simpa using hv
         simp only [Except.ok.injEq, Prod.mk.injEq, Option.some.injEq] at hd
         obtain ⟨_, hd⟩ := hd
         subst hd
         first
           | exact AllS_single (ofNat_NN _ hv'.1 h1)
           | exact AllS_cons (ofNat_NN _ hv'.1 h1) (AllS_single (ofNat_NN _ hv'.2 hc2)))

theorem finishNamed_nn (o : Opts) (m : Mach) (inp : Str) {cr : CharRefSt} (hc : CRI cr) (ec : Option Char) :
    (finishNamed o m inp cr ec).NNok := by
  unfold finishNamed
  split
  · trivial
  · split
    · dsimp only
      repeat' split
      all_goals
        first
          | exact ⟨hc, fun chars h => by cases h⟩
          | exact unconsumeName_nn _ _ hc
    · rename_i c1 c2 hm
      split
      · trivial
      · exact unconsumeName_nn _ _ hc
      · rename_i hd
        exact ⟨hc, fun chars h => by cases h; exact namedDecision_nn _ _ _ _ _ (hc c1 c2 hm) _ _ hd⟩

/-- close a leaf of the case analysis of `crStep` / `crEofOnce` -/
macro "nn_leaf" o:ident hc:ident : tactic =>
  `(tactic| first
      | trivial
      | (refine finishNamed_nn $o _ _ ?_ _; exact $hc)
      | (refine unconsumeName_nn _ _ ?_; exact $hc)
      | (refine unconsumeNumeric_nn _ _ ?_; exact $hc)
      | (refine finishNumericStatus_nn $o _ _ ?_; exact $hc)
      | (refine ⟨?_, ?_⟩
         · first
             | exact $hc
             | (intro c1 c2 h
                simp only [Option.some.injEq] at h
                subst h
                assumption)
         · intro chars h
           first
             | (cases h; done)
             | (cases h; exact AllS_nil _)))

/-- **what one step of the sub-tokenizer delivers contains no NUL** -/
theorem crStep_nn (o : Opts) (m : Mach) (inp : Str) {cr : CharRefSt} (hc : CRI cr) :
    (crStep o m inp cr).NNok := by
  unfold crStep
  cases hst : cr.state with
  | named =>
    simp only
    generalize getChar o m inp = r
    obtain ⟨c, m2, i2⟩ := r
    cases c with
    | none => nn_leaf o hc
    | some c =>
      simp only
      repeat' split
      all_goals nn_leaf o hc
  | bogusName =>
    simp only
    generalize getChar o m inp = r
    obtain ⟨c, m2, i2⟩ := r
    cases c with
    | none => nn_leaf o hc
    | some c =>
      simp only
      repeat' split
      all_goals nn_leaf o hc
  | begin =>
    simp only
    repeat' split
    all_goals nn_leaf o hc
  | octothorpe =>
    simp only
    repeat' split
    all_goals nn_leaf o hc
  | numeric base =>
    simp only
    repeat' split
    all_goals nn_leaf o hc
  | numericSemicolon =>
    simp only
    repeat' split
    all_goals nn_leaf o hc

/-- the local `once` of `end_of_file` -/
theorem crEofOnce_nn (o : Opts) (m : Mach) (inp : Str) {cr : CharRefSt} (hc : CRI cr) :
    (crEofOnce o m inp cr).NNok := by
  unfold crEofOnce
  repeat' split
  all_goals nn_leaf o hc

/-! ### the invariant that holds for **all** inputs: `CInv NN` plus `CRI` of a pending reference -/

/-- a pending character reference has consistent match registers -/
def CRIm (m : Mach) : Prop := ∀ cr, m.charRef = some cr → CRI cr

theorem CRIm.of_none {m : Mach} (h : m.charRef = none) : CRIm m := by
  intro cr hcr; rw [h] at hcr; cases hcr

theorem CRI.fresh (a : Option Char) : CRI { addnlAllowed := a } := by
  intro c1 c2 h; simp at h

theorem stepCharRef_crim (o : Opts) (m : Mach) (inp : Str) (cr : CharRefSt) (hc : CRI cr) :
    ∀ m', (stepCharRef o m inp cr).mach? = some m' → CRIm m' := by
  intro m' h
  unfold stepCharRef at h
  have hn := crStep_nn o m inp hc
  cases hcs : crStep o m inp cr with
  | error x => rw [hcs] at h; simp [R.mach?] at h
  | ok v =>
    obtain ⟨m1, i1, cr1, st⟩ := v
    rw [hcs] at h hn
    cases st with
    | stuck =>
      simp only [R.mach?, Option.some.injEq] at h; subst h
      intro cr' h'
      simp only [setCharRef_charRef, Option.some.injEq] at h'; subst h'
      exact hn.1
    | progress =>
      simp only [R.mach?, Option.some.injEq] at h; subst h
      intro cr' h'
      simp only [setCharRef_charRef, Option.some.injEq] at h'; subst h'
      exact hn.1
    | done chars =>
      have := ofSig_mach _ _ _ h
      subst this
      exact CRIm.of_none (by simp)

/-- `CRIm` is preserved by every step (outside the sub-tokenizer a reference is at most started,
with empty registers) -/
theorem step_crim (o : Opts) (m : Mach) (inp : Str) (hs : CRIm m) :
    ∀ m', (step o m inp).mach? = some m' → CRIm m' := by
  cases hcr : m.charRef with
  | some cr =>
    rw [step_kind_charRef o m inp cr hcr]
    exact stepCharRef_crim o m inp cr (hs cr hcr)
  | none =>
    cases hrk : readKind m.state with
    | getChar =>
      rw [step_getChar o m inp hcr hrk]
      cases hgc : getChar o m inp with
      | mk c r =>
        obtain ⟨m1, i1⟩ := r
        obtain ⟨_, _, g3, g4⟩ := getChar_fields o m m1 inp i1 c hgc
        cases c with
        | none =>
          intro m' h
          simp only [contChar, R.mach?, Option.some.injEq] at h; subst h
          exact CRIm.of_none (by rw [g4, hcr])
        | some c =>
          intro m' h
          have := ofSig_mach _ _ _ h
          subst this
          exact CRIm.of_none (by rw [transChar_charRef, g4, hcr])
    | popExcept =>
      rw [step_popExcept o m inp hcr hrk]
      cases hgc : popExceptFrom o (setOf m.state) m inp with
      | mk c r =>
        obtain ⟨m1, i1⟩ := r
        obtain ⟨_, _, g3, g4⟩ := popExceptFrom_fields o _ m m1 inp i1 c hgc
        cases c with
        | none =>
          intro m' h
          simp only [contSet, R.mach?, Option.some.injEq] at h; subst h
          exact CRIm.of_none (by rw [g4, hcr])
        | some c =>
          obtain ⟨_, hcase⟩ := transSet_charRef m1 c (by rw [g4, hcr]) (by rw [g3]; exact hrk)
          intro m' h
          have := ofSig_mach _ _ _ h
          subst this
          rcases hcase with hn | ⟨⟨a, hsome⟩, _, _⟩
          · exact CRIm.of_none hn
          · intro cr' h'
            rw [hsome] at h'
            simp only [Option.some.injEq] at h'
            subst h'
            exact CRI.fresh _
    | eatMd =>
      rw [step_kind_md o m inp hcr hrk]
      obtain ⟨_, h2⟩ := stepMd_charRef o m inp
      exact fun m' h => CRIm.of_none (by rw [h2 m' h, hcr])
    | eatAdn =>
      rw [step_kind_adn o m inp hcr hrk]
      obtain ⟨_, h2⟩ := stepAdn_charRef o m inp (readKind_adn hrk)
      exact fun m' h => CRIm.of_none (by rw [h2 m' h, hcr])

/-- **the invariant of every run**: no NUL anywhere and no CR outside the two places a character
reference delivers into (attribute values, character tokens); a pending reconsume re-delivers a
preprocessed character; a pending reference has consistent match registers -/
def NInv (m : Mach) : Prop := CInv NN m ∧ CRIm m

/-- the machine of a step result satisfies `NInv` -/
def RN : R → Prop
  | .cont m _ => NInv m
  | .suspend m _ => NInv m
  | .panic _ => True

theorem step_ninv (o : Opts) {m : Mach} (h : NInv m) (inp : Str) : RN (step o m inp) := by
  have h1 := step_RInv (P := NN) o h.1 inp (fun cr hcr m1 i1 cr1 chars hc => by
    have := crStep_nn o m inp (h.2 cr hcr)
    rw [hc] at this
    exact this.2 chars rfl)
  have h2 := step_crim o m inp h.2
  cases hs : step o m inp with
  | cont m' i' => rw [hs] at h1 h2; exact ⟨h1, h2 m' rfl⟩
  | suspend m' i' => rw [hs] at h1 h2; exact ⟨h1, h2 m' rfl⟩
  | panic e => trivial

theorem run_ninv (o : Opts) (fuel : Nat) {m : Mach} (h : NInv m) (inp : Str) (m' : Mach) (i' : Str)
    (hr : run o fuel m inp = .done m' i') : NInv m' := by
  induction fuel generalizing m inp with
  | zero => simp [run] at hr
  | succ f ih =>
    have hs := step_ninv o h inp
    simp only [run] at hr
    cases hst : step o m inp with
    | cont m1 i1 => rw [hst] at hr hs; exact ih hs i1 hr
    | suspend m1 i1 =>
      rw [hst] at hr hs
      simp only [RunRes.done.injEq] at hr
      obtain ⟨e1, _⟩ := hr; subst e1
      exact hs
    | panic e => rw [hst] at hr; simp at hr

theorem NInv_setDiscardBom {m : Mach} (h : NInv m) (b : Bool) : NInv (m.setDiscardBom b) :=
  ⟨CInv_setDiscardBom h.1 b, fun cr hcr => h.2 cr (by simpa using hcr)⟩
theorem NInv_setAtEof {m : Mach} (h : NInv m) (b : Bool) : NInv (m.setAtEof b) :=
  ⟨CInv_setAtEof h.1 b, fun cr hcr => h.2 cr (by simpa using hcr)⟩

theorem feedBom_ninv {m : Mach} (h : NInv m) (inp : Str) : NInv (feedBom m inp).1 := by
  unfold feedBom
  split
  · exact h
  · split
    · exact NInv_setDiscardBom h false
    · exact h

/-- `XmlTokenizer::feed` preserves the invariant -/
theorem feed_ninv (o : Opts) {m : Mach} (h : NInv m) (inp chunk : Str) (m' : Mach) (i' : Str)
    (hf : feed o m inp chunk = .done m' i') : NInv m' := by
  unfold feed at hf
  dsimp only at hf
  split at hf
  · simp only [RunRes.done.injEq] at hf
    obtain ⟨e1, _⟩ := hf; subst e1; exact h
  · exact run_ninv o _ (feedBom_ninv h _) _ m' i' hf

theorem crEofOnce_good {P : Char → Prop} (o : Opts) {m : Mach} (h : CInv P m) (inp : Str) (cr : CharRefSt) :
    (crEofOnce o m inp cr).Good P := by
  unfold crEofOnce
  repeat' split
  all_goals
    first
      | exact h
      | exact unconsumeNumeric_good h _ _
      | exact finishNumericStatus_good o (CInv_emitErr h _) _ _
      | exact finishNamed_good o h _ _ _
      | exact unconsumeName_good h _ _
      | exact CInv_emitErr (unconsume_cinv h _ _) _

/-- the char-ref tokenizer's `end_of_file` -/
theorem crEof_ninv (o : Opts) {m : Mach} (h : CInv NN m) (inp : Str) {cr : CharRefSt} (hc : CRI cr)
    (m1 : Mach) (i1 chars : Str) (he : crEof o m inp cr = .ok (m1, i1, chars)) :
    CInv NN m1 ∧ AllS NN chars := by
  rw [crEof_eq] at he
  have g1 := crEofOnce_good o h inp cr
  have n1 := crEofOnce_nn o m inp hc
  cases h1 : crEofOnce o m inp cr with
  | error e => rw [h1] at he; simp at he
  | ok v =>
    obtain ⟨m2, i2, cr2, st⟩ := v
    rw [h1] at he g1 n1
    cases st with
    | stuck => simp at he
    | done cs =>
      simp only [Except.ok.injEq, Prod.mk.injEq] at he
      obtain ⟨e1, _, e3⟩ := he; subst e1 e3
      exact ⟨g1, n1.2 _ rfl⟩
    | progress =>
      simp only at he
      have g2 := crEofOnce_good o (P := NN) g1 i2 cr2
      have n2 := crEofOnce_nn o m2 i2 n1.1
      cases h2 : crEofOnce o m2 i2 cr2 with
      | error e => rw [h2] at he; simp at he
      | ok v2 =>
        obtain ⟨m3, i3, cr3, st3⟩ := v2
        rw [h2] at he g2 n2
        cases st3 with
        | stuck => simp at he
        | progress => simp at he
        | done cs =>
          simp only [Except.ok.injEq, Prod.mk.injEq] at he
          obtain ⟨e1, _, e3⟩ := he; subst e1 e3
          exact ⟨g2, n2.2 _ rfl⟩

theorem finishPre_ninv (o : Opts) {m : Mach} (h : NInv m) (m1 : Mach) (i1 : Str)
    (hf : finishPre o m = .ok (m1, i1)) : NInv m1 := by
  unfold finishPre at hf
  cases hcr : m.charRef with
  | none =>
    rw [hcr] at hf
    simp only [Except.ok.injEq, Prod.mk.injEq] at hf
    obtain ⟨e1, _⟩ := hf; subst e1; exact h
  | some cr =>
    rw [hcr] at hf
    simp only at hf
    cases he : crEof o m [] cr with
    | error e => rw [he] at hf; simp at hf
    | ok v =>
      obtain ⟨m2, i2, chars⟩ := v
      rw [he] at hf
      simp only at hf
      obtain ⟨g1, g2⟩ := crEof_ninv o h.1 [] (h.2 cr hcr) m2 i2 chars he
      have hp := processCharRef_cinv (CInv_setCharRef g1 none) g2
      have hc := processCharRef_charRef (m2.setCharRef none) chars
      cases hpc : processCharRef (m2.setCharRef none) chars with
      | mk m3 sig =>
        rw [hpc] at hf hp hc
        cases sig with
        | cont =>
          simp only [Except.ok.injEq, Prod.mk.injEq] at hf
          obtain ⟨e1, _⟩ := hf; subst e1
          exact ⟨hp, CRIm.of_none (by simpa using hc)⟩
        | panic e => simp at hf

/-- **`XmlTokenizer::end`** delivers clean tokens as well -/
theorem finish_clean (o : Opts) {m : Mach} (h : NInv m) (mf : Mach) (hf : finish o m = .ok mf) :
    CleanP NN mf := by
  rw [finish_eq] at hf
  cases hp : finishPre o m with
  | error e => rw [hp] at hf; simp at hf
  | ok v =>
    obtain ⟨m1, i1⟩ := v
    rw [hp] at hf
    simp only at hf
    have h1 := NInv_setAtEof (finishPre_ninv o h m1 i1 hp) true
    cases hr : run o (fuelFor (m1.setAtEof true) i1) (m1.setAtEof true) i1 with
    | done m2 i2 =>
      rw [hr] at hf
      simp only at hf
      exact eofLoop_clean o 8 (run_ninv o _ h1 i1 m2 i2 hr).1.1 mf hf
    | panic e => rw [hr] at hf; simp at hf
    | outOfFuel => rw [hr] at hf; simp at hf

/-- every machine the driver starts from satisfies the invariant -/
theorem ninv_initial (st : State) (b : Bool) : NInv { state := st, discardBom := b } :=
  ⟨⟨⟨AllS_nil _, (fun _ h => nomatch h), AllS_nil _, AllS_nil _, AllS_nil _, Doctype_clean_empty, AllS_nil _,
      AllS_nil _, (fun _ h => nomatch h)⟩, fun h => by cases h⟩, CRIm.of_none rfl⟩


end H5V.Model.XmlTok
