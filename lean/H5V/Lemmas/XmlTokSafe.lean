import H5V.Lemmas.XmlTokRuns
import H5V.Props.C14
/-!
No-panic invariant of the XML tokenizer model (`H5V.Model.XmlTok`): every `assert!`/`unwrap`/`expect`/
`panic!`/slice index/`from_u32(..).unwrap()` site of `xml5ever/src/tokenizer/mod.rs` and
`char_ref/mod.rs` that the model represents as `.panic`/`.error` is unreachable from a machine that
satisfies `Safe` (port of `H5V.Lemmas.HtmlTokSafe`).

* `CRSafe`, `crStateOk`, `Safe` — the invariant;
* `crStep_safe` — the character-reference sub-tokenizer (`discard_char`'s `assert!(c.is_some())`, the
  `name_buf` `expect`s, `name_len > 0`, the slice indices and `from_u32(c).unwrap()` of `finish_named`
  via the kernel-checked table fact `C14_rows_wellformed`, `conv` and the `C1_REPLACEMENTS` index of
  `finish_numeric`);
* `transChar_no_panic`, `transSet_charRef`, `processCharRef_no_panic` — the tables;
* `step_safe`, `run_safe`, `run_drains`, `feed_safe`, `feed_drains`;
* `finishPre_ok`, `eofLoop_ok`, `finish_safe_partial`, `finish_eof_last` — `XmlTokenizer::end`.
-/
namespace H5V.Model.XmlTok

/-- the sub-tokenizer's registers are consistent -/
structure CRSafe (cr : CharRefSt) : Prop where
  named : (cr.state = .named ∨ cr.state = .bogusName) → cr.nameBuf ≠ none
  matchState : cr.nameMatch ≠ none → cr.state = .named
  matched : ∀ c1 c2, cr.nameMatch = some (c1, c2) →
    ∃ nb, cr.nameBuf = some nb ∧ 0 < cr.nameLen ∧ cr.nameLen ≤ nb.length ∧
      isValidScalar c1 = true ∧ isValidScalar c2 = true

/-- a character reference is only ever in progress in a state that can take its result -/
def crStateOk (s : State) : Prop := s = .data ∨ ∃ k, s = .tagAttrValue k

structure Safe (m : Mach) : Prop where
  crState : ∀ cr, m.charRef = some cr → crStateOk m.state
  crRegs : ∀ cr, m.charRef = some cr → CRSafe cr

theorem c1_entries_valid : ∀ i ∈ List.range 32,
    (match Gen.C1.table[i]? with
     | some (some r) => isValidScalar r
     | some none => true
     | none => false) = true := by decide

theorem finishNumeric_ok (o : Opts) (m : Mach) (cr : CharRefSt) :
    ∃ c, (finishNumeric o m cr).2 = .ok c := by
  unfold finishNumeric
  dsimp only
  split
  · exact ⟨_, rfl⟩
  · rename_i h1
    split
    · exact ⟨_, rfl⟩
    · rename_i h2
      have hle : cr.num ≤ 0x10FFFF := by
        simp only [Bool.or_eq_true, decide_eq_true_eq, not_or] at h1; omega
      have hvalid : isValidScalar cr.num = true := by
        simp only [Bool.or_eq_true, decide_eq_true_eq, Bool.and_eq_true, not_or, not_and] at h2
        unfold isValidScalar; simp; omega
      split
      · rename_i h3
        have hi : cr.num - 0x80 ∈ List.range 32 := by
          simp only [Bool.and_eq_true, decide_eq_true_eq] at h3; simp; omega
        have hv := c1_entries_valid (cr.num - 0x80) hi
        split
        · rename_i r heq; simp [heq] at hv; simp [hv]
        · simp
        · rename_i heq; simp [heq] at hv
      · split
        · simp
        · split <;> simp

theorem finishNumericStatus_ok (o : Opts) (m : Mach) (inp : Str) (cr : CharRefSt) :
    ∃ m1 c, finishNumericStatus o m inp cr = .ok (m1, inp, cr, .done [c]) := by
  obtain ⟨c, hc⟩ := finishNumeric_ok o m cr
  unfold finishNumericStatus
  cases hf : finishNumeric o m cr with
  | mk m1 r =>
    rw [hf] at hc
    simp only at hc
    subst hc
    exact ⟨m1, c, rfl⟩

theorem isValidScalar_eq (n : Nat) : isValidScalar n = H5V.Model.HtmlTok.isValidScalar n := rfl

theorem bucket_letter (c : Nat) (r : Gen.Entities.Row) (hr : r ∈ Gen.Entities.bucket c) :
    c ∈ Gen.Entities.firstLetters := by
  by_cases h : c ∈ Gen.Entities.firstLetters
  · exact h
  · exfalso
    have hb : Gen.Entities.bucket c = [] := by
      simp only [Gen.Entities.firstLetters, List.mem_cons, List.not_mem_nil, or_false, not_or] at h
      unfold Gen.Entities.bucket
      simp [h]
    rw [hb] at hr
    exact absurd hr List.not_mem_nil

/-- a full match found by the walk carries Unicode scalar values -/
theorem entityLookup_valid (nb : Str) (mt : Nat × Nat) (h : entityLookup nb = some mt) (h0 : mt.1 ≠ 0) :
    isValidScalar mt.1 = true ∧ isValidScalar mt.2 = true := by
  unfold entityLookup entityLookupN at h
  cases hk : nb.map Char.toNat with
  | nil => rw [hk] at h; simp at h; rw [← h] at h0; simp at h0
  | cons c rest =>
    rw [hk] at h
    simp only at h
    split at h
    · rename_i r hfind
      simp only [Option.some.injEq] at h
      have hmem := List.mem_of_find?_eq_some hfind
      have hc := bucket_letter c r hmem
      have := H5V.Props.C14.C14_rows_wellformed c hc r hmem
      rw [← h]
      exact ⟨this.2.2.1, this.2.2.2⟩
    · split at h
      · simp only [Option.some.injEq] at h; rw [← h] at h0; simp at h0
      · simp at h

theorem namedDecision_ok (m : Mach) (cr : CharRefSt) (nb : Str) (c1 c2 : Nat)
    (h1 : 0 < cr.nameLen) (h2 : cr.nameLen ≤ nb.length)
    (hv : isValidScalar c1 = true ∧ isValidScalar c2 = true) :
    ∃ r, namedDecision m cr nb c1 c2 = .ok r := by
  unfold namedDecision
  dsimp only
  have hne : cr.nameLen ≠ 0 := by omega
  simp only [hne, ↓reduceIte]
  have hidx : cr.nameLen - 1 < nb.length := by omega
  rw [List.getElem?_eq_getElem hidx]
  simp only [hv.1, hv.2, Bool.and_self, Bool.not_true, Bool.false_eq_true, ↓reduceIte]
  (repeat' split) <;> exact ⟨_, rfl⟩


theorem finishNamed_ok (o : Opts) (m : Mach) (inp : Str) (cr : CharRefSt) (ec : Option Char)
    (hs : CRSafe cr) (hnb : cr.nameBuf ≠ none) :
    ∃ r, finishNamed o m inp cr ec = .ok r := by
  unfold finishNamed
  cases hb : cr.nameBuf with
  | none => exact absurd hb hnb
  | some nb =>
    dsimp only
    cases hm : cr.nameMatch with
    | none =>
      dsimp only
      unfold unconsumeName
      simp only [hb]
      (repeat' split) <;> exact ⟨_, rfl⟩
    | some mt =>
      obtain ⟨c1, c2⟩ := mt
      obtain ⟨nb', hnb', h1, h2, hv1, hv2⟩ := hs.matched c1 c2 hm
      rw [hb] at hnb'
      simp only [Option.some.injEq] at hnb'
      subst hnb'
      obtain ⟨r, hr⟩ := namedDecision_ok m cr nb c1 c2 h1 h2 ⟨hv1, hv2⟩
      dsimp only
      rw [hr]
      obtain ⟨m1, v⟩ := r
      cases v with
      | none => simp only [unconsumeName, hb]; exact ⟨_, rfl⟩
      | some v => exact ⟨_, rfl⟩


theorem unconsumeName_done (m : Mach) (inp : Str) (cr : CharRefSt) (m1 : Mach) (i1 : Str) (cr1 : CharRefSt)
    (st : CRStatus) (h : unconsumeName m inp cr = .ok (m1, i1, cr1, st)) : st = .done [] := by
  unfold unconsumeName at h
  split at h
  · simp at h
  · simp only [Except.ok.injEq, Prod.mk.injEq] at h
    exact h.2.2.2.symm

/-- `finish_named` either finishes the reference, or (no match yet, alphanumeric end character)
switches to the bogus-name state keeping the name buffer, still without a match -/
theorem finishNamed_progress (o : Opts) (m : Mach) (inp : Str) (cr : CharRefSt) (ec : Option Char)
    (m1 : Mach) (i1 : Str) (cr1 : CharRefSt) (st : CRStatus)
    (h : finishNamed o m inp cr ec = .ok (m1, i1, cr1, st)) :
    (∃ chars, st = .done chars) ∨
      (cr1.nameBuf = cr.nameBuf ∧ cr1.nameMatch = none ∧ ∃ c, ec = some c) := by
  unfold finishNamed at h
  cases hb : cr.nameBuf with
  | none => simp [hb] at h
  | some nb =>
    simp only [hb] at h
    cases hm : cr.nameMatch with
    | none =>
      simp only [hm] at h
      cases ec with
      | none =>
        simp only [Bool.false_eq_true, ↓reduceIte] at h
        exact Or.inl ⟨_, unconsumeName_done _ _ _ _ _ _ _ h⟩
      | some c =>
        simp only at h
        split at h
        · simp only [Except.ok.injEq, Prod.mk.injEq] at h
          obtain ⟨_, _, h3, h4⟩ := h
          right
          subst h3
          exact ⟨rfl, rfl, c, rfl⟩
        · exact Or.inl ⟨_, unconsumeName_done _ _ _ _ _ _ _ h⟩
    | some mt =>
      obtain ⟨c1, c2⟩ := mt
      simp only [hm] at h
      split at h
      · simp at h
      · exact Or.inl ⟨_, unconsumeName_done _ _ _ _ _ _ _ h⟩
      · simp only [Except.ok.injEq, Prod.mk.injEq] at h
        exact Or.inl ⟨_, h.2.2.2.symm⟩

theorem CRSafe.with_nameBuf {cr : CharRefSt} (hs : CRSafe cr) (nb : Str) (c : Char)
    (hb : cr.nameBuf = some nb) : CRSafe { cr with nameBuf := some (nb ++ [c]) } where
  named := fun _ => by simp
  matchState := fun h => hs.matchState h
  matched := fun c1 c2 hm => by
    obtain ⟨nb', hnb', h1, h2, hv⟩ := hs.matched c1 c2 hm
    rw [hb] at hnb'; simp only [Option.some.injEq] at hnb'; subst hnb'
    exact ⟨nb ++ [c], rfl, h1, by simp; omega, hv⟩


theorem CRSafe.of_nomatch {cr : CharRefSt} (h1 : cr.nameMatch = none)
    (h2 : (cr.state = .named ∨ cr.state = .bogusName) → cr.nameBuf ≠ none) : CRSafe cr :=
  ⟨h2, fun h => absurd h1 h, fun c1 c2 hm => by rw [h1] at hm; cases hm⟩

/-- a char-ref step from consistent registers never panics, and leaves consistent registers
unless it finishes the reference -/
theorem crStep_safe (o : Opts) (m : Mach) (inp : Str) (cr : CharRefSt) (hs : CRSafe cr) :
    ∃ m1 i1 cr1 st, crStep o m inp cr = .ok (m1, i1, cr1, st) ∧ ((∀ chars, st ≠ .done chars) → CRSafe cr1) := by
  have hnomatch : cr.state ≠ .named → cr.nameMatch = none := by
    intro hne
    cases hm : cr.nameMatch with
    | none => rfl
    | some v => exact absurd (hs.matchState (by simp [hm])) hne
  unfold crStep
  cases hst : cr.state with
  | begin =>
    have hnm := hnomatch (by rw [hst]; simp)
    simp only
    cases hpk : peek m inp with
    | none => exact ⟨_, _, _, _, rfl, fun _ => hs⟩
    | some c =>
      simp only
      by_cases hws : (c = '\t' || c = '\n' || c = '\x0c' || c = ' ' || c = '<' || c = '&') = true
      · simp only [hws, ↓reduceIte]
        exact ⟨_, _, _, _, rfl, fun h => absurd rfl (h [])⟩
      · simp only [hws, Bool.false_eq_true, ↓reduceIte]
        by_cases hadd : some c = cr.addnlAllowed
        · simp only [hadd, ↓reduceIte]
          exact ⟨_, _, _, _, rfl, fun h => absurd rfl (h [])⟩
        · simp only [hadd, ↓reduceIte]
          by_cases hh : c = '#'
          · obtain ⟨m', i', hd1, _⟩ := discardChar_ok o m inp c hpk (by rw [hh]; decide)
            simp only [hh, ↓reduceIte]
            rw [hh] at hpk
            rw [hd1]
            exact ⟨_, _, _, _, rfl, fun _ => CRSafe.of_nomatch hnm (fun h => by simp at h)⟩
          · simp only [hh, ↓reduceIte]
            exact ⟨_, _, _, _, rfl, fun _ => CRSafe.of_nomatch hnm (fun _ => by simp)⟩
  | octothorpe =>
    have hnm := hnomatch (by rw [hst]; simp)
    simp only
    cases hpk : peek m inp with
    | none => exact ⟨_, _, _, _, rfl, fun _ => hs⟩
    | some c =>
      simp only
      by_cases hx : (c = 'x' || c = 'X') = true
      · obtain ⟨m', i', hd1, _⟩ := discardChar_ok o m inp c hpk (by
          intro hc; subst hc; simp at hx)
        simp only [hx, ↓reduceIte, hd1]
        exact ⟨_, _, _, _, rfl, fun _ => CRSafe.of_nomatch hnm (fun h => by simp at h)⟩
      · simp only [hx, Bool.false_eq_true, ↓reduceIte]
        exact ⟨_, _, _, _, rfl, fun _ => CRSafe.of_nomatch hnm (fun h => by simp at h)⟩
  | numeric base =>
    have hnm := hnomatch (by rw [hst]; simp)
    simp only
    cases hpk : peek m inp with
    | none => exact ⟨_, _, _, _, rfl, fun _ => hs⟩
    | some c =>
      simp only
      cases hd : toDigit c base with
      | some n =>
        obtain ⟨m', i', hd1, _⟩ := discardChar_ok o m inp c hpk (by
          intro hc; subst hc; simp [toDigit] at hd)
        simp only [hd1]
        exact ⟨_, _, _, _, rfl, fun _ => CRSafe.of_nomatch hnm (fun h => by simp at h)⟩
      | none =>
        simp only
        split
        · exact ⟨_, _, _, _, rfl, fun h => absurd rfl (h [])⟩
        · exact ⟨_, _, _, _, rfl, fun _ => CRSafe.of_nomatch hnm (fun h => by simp at h)⟩
  | numericSemicolon =>
    simp only
    cases hpk : peek m inp with
    | none => exact ⟨_, _, _, _, rfl, fun _ => hs⟩
    | some c =>
      simp only
      by_cases hsc : c = ';'
      · obtain ⟨m', i', hd1, _⟩ := discardChar_ok o m inp c hpk (by rw [hsc]; decide)
        simp only [hsc, ↓reduceIte, hd1]
        obtain ⟨m1, c', h'⟩ := finishNumericStatus_ok o m' i' cr
        exact ⟨_, _, _, _, h', fun h => absurd rfl (h [c'])⟩
      · simp only [hsc, ↓reduceIte]
        obtain ⟨m1, c', h'⟩ := finishNumericStatus_ok o
          (emitErr m "Semicolon missing after numeric character reference") inp cr
        exact ⟨_, _, _, _, h', fun h => absurd rfl (h [c'])⟩
  | named =>
    simp only
    cases hg : getChar o m inp with
    | mk c r =>
      obtain ⟨m2, i2⟩ := r
      cases c with
      | none => exact ⟨_, _, _, _, rfl, fun _ => hs⟩
      | some c =>
        simp only
        cases hb : cr.nameBuf with
        | none => exact absurd hb (hs.named (Or.inl hst))
        | some nb =>
          simp only
          have hs' := hs.with_nameBuf nb c hb
          rw [hst] at hs'
          cases hl : entityLookup (nb ++ [c]) with
          | none =>
            simp only
            obtain ⟨r, hr⟩ := finishNamed_ok o m2 i2 _ (some c) hs' (by simp)
            obtain ⟨m1, i1, cr1, st⟩ := r
            refine ⟨m1, i1, cr1, st, hr, fun hnd => ?_⟩
            rcases finishNamed_progress o _ _ _ _ m1 i1 cr1 st hr with ⟨chars, hd⟩ | ⟨hnb1, hnm1, _⟩
            · exact absurd hd (hnd chars)
            · exact CRSafe.of_nomatch hnm1 (fun _ => by rw [hnb1]; simp)
          | some mt =>
            simp only
            split
            · rename_i h0
              have hv := entityLookup_valid (nb ++ [c]) mt hl h0
              refine ⟨_, _, _, _, rfl, fun _ => ⟨fun _ => by simp, fun _ => rfl, fun c1 c2 hm => ?_⟩⟩
              simp only [Option.some.injEq] at hm
              subst hm
              exact ⟨nb ++ [c], rfl, by simp, by simp, hv⟩
            · exact ⟨_, _, _, _, rfl, fun _ => hs'⟩
  | bogusName =>
    simp only
    cases hg : getChar o m inp with
    | mk c r =>
      obtain ⟨m2, i2⟩ := r
      cases c with
      | none => exact ⟨_, _, _, _, rfl, fun _ => hs⟩
      | some c =>
        simp only
        cases hb : cr.nameBuf with
        | none => exact absurd hb (hs.named (Or.inr hst))
        | some nb =>
          simp only
          split
          · have hs' := hs.with_nameBuf nb c hb
            rw [hst] at hs'
            exact ⟨_, _, _, _, rfl, fun _ => hs'⟩
          · simp only [unconsumeName]
            exact ⟨_, _, _, _, rfl, fun h => absurd rfl (h [])⟩


/-! ### the tables never panic when called from `step` -/

theorem transChar_no_panic (o : Opts) (m : Mach) (c : Char) (e : String)
    (hk : readKind m.state = .getChar ∨ m.state = .afterDoctypeName) :
    (transChar o m c).2 ≠ .panic e := by
  unfold transChar
  split <;> (repeat' split) <;> simp_all [readKind]

theorem transChar_charRef (o : Opts) (m : Mach) (c : Char) : (transChar o m c).1.charRef = m.charRef := by
  table_fields

/-- `transSet` either leaves `char_ref_tokenizer` alone or starts a fresh one, in a state that can
take its result and without changing the state; it never panics from a `pop_except_from` state -/
theorem transSet_charRef (m : Mach) (r : SetRes) (hcr : m.charRef = none)
    (hk : readKind m.state = .popExcept) :
    (∀ e, (transSet m r).2 ≠ .panic e) ∧
    ((transSet m r).1.charRef = none ∨
      ((∃ a, (transSet m r).1.charRef = some { addnlAllowed := a }) ∧
        crStateOk m.state ∧ (transSet m r).1.state = m.state)) := by
  cases hs : m.state with
  | data => cases r <;> simp only [transSet, hs] <;> (repeat' split) <;> simp_all [crStateOk]
  | tagAttrValue k =>
    cases k <;> cases r <;> simp only [transSet, hs] <;> (repeat' split) <;> simp_all [crStateOk]
  | _ => simp [hs, readKind] at hk


/-! ### `step` never panics and preserves `Safe` -/

theorem Safe.of_none {m : Mach} (h : m.charRef = none) : Safe m :=
  ⟨fun cr hcr => by rw [h] at hcr; simp at hcr, fun cr hcr => by rw [h] at hcr; simp at hcr⟩

theorem CRSafe.fresh (a : Option Char) : CRSafe { addnlAllowed := a } :=
  ⟨fun h => by simp at h, fun h => by simp at h, fun c1 c2 h => by simp at h⟩

theorem ofSig_panic (ms : Mach × Sig) (inp : Str) (e : String) (h : ofSig ms inp = .panic e) :
    ms.2 = .panic e := by
  unfold ofSig at h; split at h <;> simp_all

theorem processCharRef_no_panic (m : Mach) (chars : Str) (h : crStateOk m.state) (e : String) :
    (processCharRef m chars).2 ≠ .panic e := by
  unfold processCharRef
  dsimp only
  rcases h with h | ⟨k, h⟩ <;> simp [h]

theorem stepCharRef_safe (o : Opts) (m : Mach) (inp : Str) (cr : CharRefSt) (hs : Safe m)
    (hcr : m.charRef = some cr) :
    (∀ e, stepCharRef o m inp cr ≠ .panic e) ∧
    (∀ m', (stepCharRef o m inp cr).mach? = some m' → Safe m') := by
  obtain ⟨m1, i1, cr1, st, hc, hsafe⟩ := crStep_safe o m inp cr (hs.crRegs cr hcr)
  have hw : Pres m1 m := by
    have := crStep_pres o m inp cr
    rw [hc] at this; exact this
  have hst : crStateOk m1.state := by rw [hw.2.2]; exact hs.crState cr hcr
  unfold stepCharRef
  rw [hc]
  cases st with
  | stuck =>
    refine ⟨fun e => by simp, fun m' h => ?_⟩
    simp only [R.mach?, Option.some.injEq] at h; subst h
    exact ⟨fun cr' h' => by simpa using hst, fun cr' h' => by
      simp only [setCharRef_charRef, Option.some.injEq] at h'; subst h'; exact hsafe (by simp)⟩
  | progress =>
    refine ⟨fun e => by simp, fun m' h => ?_⟩
    simp only [R.mach?, Option.some.injEq] at h; subst h
    exact ⟨fun cr' h' => by simpa using hst, fun cr' h' => by
      simp only [setCharRef_charRef, Option.some.injEq] at h'; subst h'; exact hsafe (by simp)⟩
  | done chars =>
    refine ⟨fun e h => ?_, fun m' h => ?_⟩
    · have h' : ofSig ((processCharRef m1 chars).1.setCharRef none, (processCharRef m1 chars).2) i1 = .panic e := h
      exact processCharRef_no_panic m1 chars hst e
        (ofSig_panic ((processCharRef m1 chars).1.setCharRef none, (processCharRef m1 chars).2) i1 e h')
    · have := ofSig_mach _ _ _ h
      subst this
      exact Safe.of_none (by simp)

theorem stepMd_charRef (o : Opts) (m : Mach) (inp : Str) :
    (∀ e, stepMd o m inp ≠ .panic e) ∧
    (∀ m', (stepMd o m inp).mach? = some m' → m'.charRef = m.charRef) := by
  unfold stepMd
  cases h1 : eat o m inp kwDashDash with
  | mk b1 r1 =>
    obtain ⟨m1, i1⟩ := r1
    have f1 := (eat_fields o m m1 inp i1 _ b1 h1).2.1
    cases h2 : eat o m1 i1 kwCdata with
    | mk b2 r2 =>
      obtain ⟨m2, i2⟩ := r2
      have f2 := (eat_fields o m1 m2 i1 i2 _ b2 h2).2.1
      cases h3 : eat o m2 i2 kwDoctype with
      | mk b3 r3 =>
        obtain ⟨m3, i3⟩ := r3
        have f3 := (eat_fields o m2 m3 i2 i3 _ b3 h3).2.1
        constructor
        · intro e
          repeat' split
          all_goals simp
        · intro m' h
          repeat' split at h
          all_goals
            (simp only [R.mach?, Option.some.injEq] at h
             subst h
             simp_all)

theorem stepAdn_charRef (o : Opts) (m : Mach) (inp : Str) (hs : m.state = .afterDoctypeName) :
    (∀ e, stepAdn o m inp ≠ .panic e) ∧
    (∀ m', (stepAdn o m inp).mach? = some m' → m'.charRef = m.charRef) := by
  unfold stepAdn
  cases h1 : eat o m inp kwPublic with
  | mk b1 r1 =>
    obtain ⟨m1, i1⟩ := r1
    have f1 := eat_fields o m m1 inp i1 _ b1 h1
    cases b1 with
    | none => exact ⟨fun e => by simp, fun m' h => by simp only [R.mach?, Option.some.injEq] at h; rw [← h, f1.2.1]⟩
    | some b1 =>
      cases b1 with
      | true => exact ⟨fun e => by simp, fun m' h => by simp only [R.mach?, Option.some.injEq] at h; rw [← h]; simp [f1.2.1]⟩
      | false =>
        dsimp only
        cases h2 : eat o m1 i1 kwSystem with
        | mk b2 r2 =>
          obtain ⟨m2, i2⟩ := r2
          have f2 := eat_fields o m1 m2 i1 i2 _ b2 h2
          cases b2 with
          | none => exact ⟨fun e => by simp, fun m' h => by simp only [R.mach?, Option.some.injEq] at h; rw [← h, f2.2.1, f1.2.1]⟩
          | some b2 =>
            cases b2 with
            | true => exact ⟨fun e => by simp, fun m' h => by simp only [R.mach?, Option.some.injEq] at h; rw [← h]; simp [f2.2.1, f1.2.1]⟩
            | false =>
              dsimp only
              cases hgc : getChar o m2 i2 with
              | mk c3 r3 =>
                obtain ⟨m3, i3⟩ := r3
                have g := getChar_fields o m2 m3 i2 i3 c3 hgc
                cases c3 with
                | none =>
                  refine ⟨fun e => by simp, fun m' h => ?_⟩
                  simp only [R.mach?, Option.some.injEq] at h
                  subst h
                  rw [g.2.2.2, f2.2.1, f1.2.1]
                | some c3 =>
                  refine ⟨fun e h => ?_, fun m' h => ?_⟩
                  · exact transChar_no_panic o m3 c3 e (Or.inr (by rw [g.2.2.1, f2.1, f1.1, hs])) (ofSig_panic _ _ e h)
                  · have := ofSig_mach _ _ _ h
                    subst this
                    rw [transChar_charRef, g.2.2.2, f2.2.1, f1.2.1]

theorem step_safe (o : Opts) (m : Mach) (inp : Str) (hs : Safe m) :
    (∀ e, step o m inp ≠ .panic e) ∧ (∀ m', (step o m inp).mach? = some m' → Safe m') := by
  cases hcr : m.charRef with
  | some cr =>
    rw [step_kind_charRef o m inp cr hcr]
    exact stepCharRef_safe o m inp cr hs hcr
  | none =>
    cases hrk : readKind m.state with
    | getChar =>
      rw [step_getChar o m inp hcr hrk]
      cases hgc : getChar o m inp with
      | mk c r =>
        obtain ⟨m1, i1⟩ := r
        obtain ⟨_, _, g3, g4⟩ := getChar_fields o m m1 inp i1 c hgc
        cases c with
        | none =>
          refine ⟨fun e => by simp [contChar], fun m' h => ?_⟩
          simp only [contChar, R.mach?, Option.some.injEq] at h; subst h
          exact Safe.of_none (by rw [g4, hcr])
        | some c =>
          refine ⟨fun e h => ?_, fun m' h => ?_⟩
          · exact transChar_no_panic o m1 c e (Or.inl (by rw [g3]; exact hrk)) (ofSig_panic _ _ e h)
          · have := ofSig_mach _ _ _ h
            subst this
            exact Safe.of_none (by rw [transChar_charRef, g4, hcr])
    | popExcept =>
      rw [step_popExcept o m inp hcr hrk]
      cases hgc : popExceptFrom o (setOf m.state) m inp with
      | mk c r =>
        obtain ⟨m1, i1⟩ := r
        obtain ⟨_, _, g3, g4⟩ := popExceptFrom_fields o _ m m1 inp i1 c hgc
        cases c with
        | none =>
          refine ⟨fun e => by simp [contSet], fun m' h => ?_⟩
          simp only [contSet, R.mach?, Option.some.injEq] at h; subst h
          exact Safe.of_none (by rw [g4, hcr])
        | some c =>
          obtain ⟨hnp, hcase⟩ := transSet_charRef m1 c (by rw [g4, hcr]) (by rw [g3]; exact hrk)
          refine ⟨fun e h => hnp e (ofSig_panic _ _ e h), fun m' h => ?_⟩
          have := ofSig_mach _ _ _ h
          subst this
          rcases hcase with hn | ⟨⟨a, hsome⟩, hok, hst⟩
          · exact Safe.of_none hn
          · exact ⟨fun cr' h' => by rw [hst]; exact hok, fun cr' h' => by
              rw [hsome] at h'; simp only [Option.some.injEq] at h'; subst h'; exact CRSafe.fresh _⟩
    | eatMd =>
      rw [step_kind_md o m inp hcr hrk]
      obtain ⟨h1, h2⟩ := stepMd_charRef o m inp
      exact ⟨h1, fun m' h => Safe.of_none (by rw [h2 m' h, hcr])⟩
    | eatAdn =>
      rw [step_kind_adn o m inp hcr hrk]
      obtain ⟨h1, h2⟩ := stepAdn_charRef o m inp (readKind_adn hrk)
      exact ⟨h1, fun m' h => Safe.of_none (by rw [h2 m' h, hcr])⟩


/-- the required shape: a step from a `Safe` machine is `.cont` or `.suspend`, into a `Safe` machine -/
theorem step_safe' (o : Opts) (m : Mach) (inp : Str) (hs : Safe m) :
    (∀ e, step o m inp ≠ .panic e) ∧
    (∀ m' inp', step o m inp = .cont m' inp' ∨ step o m inp = .suspend m' inp' → Safe m') := by
  obtain ⟨h1, h2⟩ := step_safe o m inp hs
  refine ⟨h1, fun m' inp' h => ?_⟩
  rcases h with h | h <;> exact h2 m' (by rw [h]; rfl)

/-! ### `run`, `feed` -/

/-- the executable loop never stops for a panic, and the machine it suspends in is `Safe` -/
theorem run_safe (o : Opts) (fuel : Nat) (m : Mach) (inp : Str) (hs : Safe m) :
    (∀ e, run o fuel m inp ≠ .panic e) ∧ (∀ m' inp', run o fuel m inp = .done m' inp' → Safe m') := by
  induction fuel generalizing m inp with
  | zero => simp [run]
  | succ f ih =>
    obtain ⟨h1, h2⟩ := step_safe o m inp hs
    simp only [run]
    cases hst : step o m inp with
    | cont m1 i1 => exact ih m1 i1 (h2 m1 (by rw [hst]; rfl))
    | suspend m1 i1 =>
      refine ⟨fun e => by simp, fun m' inp' h => ?_⟩
      simp only [RunRes.done.injEq] at h
      obtain ⟨h, _⟩ := h; subst h
      exact h2 m1 (by rw [hst]; rfl)
    | panic e => exact absurd hst (h1 e)

/-- when the loop answers "need more input" the queue is empty (and the look-ahead invariant holds) -/
theorem run_drains (o : Opts) (fuel : Nat) (m m' : Mach) (inp inp' : Str) (hg : Good m)
    (hat : m.atEof = false) (h : run o fuel m inp = .done m' inp') :
    inp' = [] ∧ Good m' ∧ m'.atEof = false := by
  induction fuel generalizing m inp with
  | zero => simp [run] at h
  | succ f ih =>
    simp only [run] at h
    cases hst : step o m inp with
    | cont m1 i1 =>
      rw [hst] at h
      obtain ⟨hg1, hat1⟩ := step_good o m inp m1 hg hat (by rw [hst]; rfl)
      exact ih m1 i1 hg1 hat1 h
    | suspend m1 i1 =>
      rw [hst] at h
      simp only [RunRes.done.injEq] at h
      obtain ⟨h1, h2⟩ := h; subst h1 h2
      obtain ⟨hi, _, hg1, hat1⟩ := step_resume o m m1 inp i1 [] hg hat hst
      exact ⟨hi, hg1, hat1⟩
    | panic e => rw [hst] at h; simp at h

theorem feedBom_safe (m : Mach) (inp : Str) (hs : Safe m) : Safe (feedBom m inp).1 := by
  cases inp with
  | nil => exact hs
  | cons c rest =>
    simp only [feedBom]
    split
    · exact ⟨fun cr h => by simpa using hs.crState cr (by simpa using h),
        fun cr h => hs.crRegs cr (by simpa using h)⟩
    · exact hs

theorem feedBom_good_atEof (m : Mach) (c : Str) (hg : Good m) (hat : m.atEof = false) :
    Good (feedBom m c).1 ∧ (feedBom m c).1.atEof = false := by
  cases c with
  | nil => exact ⟨hg, hat⟩
  | cons x xs =>
    simp only [feedBom]
    split
    · refine ⟨?_, by simpa using hat⟩
      rcases hg with h | ⟨h1, h2, h3⟩
      · exact Or.inl (by simpa using h)
      · exact Or.inr ⟨by simpa using h1, by simpa using h2, by simpa using h3⟩
    · exact ⟨hg, hat⟩

theorem feed_safe (o : Opts) (m : Mach) (inp chunk : Str) (hs : Safe m) :
    (∀ e, feed o m inp chunk ≠ .panic e) ∧ (∀ m' inp', feed o m inp chunk = .done m' inp' → Safe m') := by
  unfold feed
  dsimp only
  split
  · refine ⟨fun e => by simp, fun m' inp' h => ?_⟩
    simp only [RunRes.done.injEq] at h
    rw [← h.1]; exact hs
  · exact run_safe o _ _ _ (feedBom_safe m _ hs)

theorem feed_drains (o : Opts) (m m' : Mach) (inp chunk inp' : Str) (hg : Good m) (hat : m.atEof = false)
    (h : feed o m inp chunk = .done m' inp') : inp' = [] ∧ Good m' ∧ m'.atEof = false := by
  unfold feed at h
  dsimp only at h
  split at h
  · simp only [RunRes.done.injEq] at h
    obtain ⟨h1, h2⟩ := h; subst h1 h2
    exact ⟨rfl, hg, hat⟩
  · obtain ⟨hg1, hat1⟩ := feedBom_good_atEof m (inp ++ chunk) hg hat
    exact run_drains o _ _ _ _ _ hg1 hat1 h


/-! ### `end()` -/

/-- one round of the char-ref tokenizer's `end_of_file` (the local `once` of `crEof`) -/
def crEofOnce (o : Opts) (m : Mach) (inp : Str) (cr : CharRefSt) : CRRes :=
  match cr.state with
  | .begin => .ok (m, inp, cr, .done [])
  | .numeric _ =>
    if !cr.seenDigit then unconsumeNumeric m inp cr
    else finishNumericStatus o (emitErr m "EOF in numeric character reference") inp cr
  | .numericSemicolon =>
    finishNumericStatus o (emitErr m "EOF in numeric character reference") inp cr
  | .named => finishNamed o m inp cr none
  | .bogusName => unconsumeName m inp cr
  | .octothorpe =>
    let mi := unconsume m inp ['#']
    .ok (emitErr mi.1 "EOF after '#' in character reference", mi.2, cr, .done [])

theorem crEof_eq (o : Opts) (m : Mach) (inp : Str) (cr : CharRefSt) :
    crEof o m inp cr =
      match crEofOnce o m inp cr with
      | .error e => .error e
      | .ok (m, inp, _, .done chars) => .ok (m, inp, chars)
      | .ok (_, _, _, .stuck) => .error "end_of_file: unexpected Stuck"
      | .ok (m, inp, cr, .progress) =>
        match crEofOnce o m inp cr with
        | .error e => .error e
        | .ok (m, inp, _, .done chars) => .ok (m, inp, chars)
        | .ok (_, _, _, _) => .error "end_of_file: does not terminate" := rfl

/-- from consistent registers the first round of `end_of_file` already finishes the reference,
without panic and without touching the tokenizer state -/
theorem crEofOnce_ok (o : Opts) (m : Mach) (inp : Str) (cr : CharRefSt) (hs : CRSafe cr) :
    ∃ m1 i1 cr1 chars, crEofOnce o m inp cr = .ok (m1, i1, cr1, .done chars) ∧ Pres m1 m := by
  unfold crEofOnce
  cases hst : cr.state with
  | begin => exact ⟨_, _, _, _, rfl, Pres.refl _⟩
  | octothorpe =>
    exact ⟨_, _, _, _, rfl, Pres.trans (emitErr_pres _ _) (unconsume_pres _ _ _)⟩
  | numeric base =>
    simp only
    split
    · have hp := unconsumeNumeric_pres m inp cr
      exact ⟨_, _, _, _, rfl, hp⟩
    · obtain ⟨m1, c, h⟩ := finishNumericStatus_ok o (emitErr m "EOF in numeric character reference") inp cr
      have hp := finishNumericStatus_pres o (emitErr m "EOF in numeric character reference") inp cr
      rw [h] at hp
      exact ⟨_, _, _, _, h, Pres.trans hp (emitErr_pres _ _)⟩
  | numericSemicolon =>
    simp only
    obtain ⟨m1, c, h⟩ := finishNumericStatus_ok o (emitErr m "EOF in numeric character reference") inp cr
    have hp := finishNumericStatus_pres o (emitErr m "EOF in numeric character reference") inp cr
    rw [h] at hp
    exact ⟨_, _, _, _, h, Pres.trans hp (emitErr_pres _ _)⟩
  | named =>
    simp only
    obtain ⟨r, hr⟩ := finishNamed_ok o m inp cr none hs (hs.named (Or.inl hst))
    obtain ⟨m1, i1, cr1, st⟩ := r
    have hp := finishNamed_pres o m inp cr none
    rw [hr] at hp
    rcases finishNamed_progress o m inp cr none m1 i1 cr1 st hr with ⟨chars, hd⟩ | ⟨_, _, c, hc⟩
    · subst hd; exact ⟨_, _, _, _, hr, hp⟩
    · cases hc
  | bogusName =>
    simp only
    cases hb : cr.nameBuf with
    | none => exact absurd hb (hs.named (Or.inr hst))
    | some nb =>
      simp only [unconsumeName, hb]
      exact ⟨_, _, _, _, rfl, unconsume_pres _ _ _⟩

theorem crEof_ok (o : Opts) (m : Mach) (inp : Str) (cr : CharRefSt) (hs : CRSafe cr) :
    ∃ m1 i1 chars, crEof o m inp cr = .ok (m1, i1, chars) ∧ Pres m1 m := by
  obtain ⟨m1, i1, cr1, chars, h, hp⟩ := crEofOnce_ok o m inp cr hs
  rw [crEof_eq, h]
  exact ⟨m1, i1, chars, rfl, hp⟩

/-- the first half of `end()`: a pending character reference is finished -/
def finishPre (o : Opts) (m : Mach) : Except String (Mach × Str) :=
  match m.charRef with
  | none => .ok (m, [])
  | some cr =>
    match crEof o m [] cr with
    | .error e => .error e
    | .ok (m, inp, chars) =>
      match processCharRef (m.setCharRef none) chars with
      | (m, .cont) => .ok (m, inp)
      | (_, .panic e) => .error e

theorem finish_eq (o : Opts) (m : Mach) :
    finish o m =
      match finishPre o m with
      | .error e => .error e
      | .ok (m, inp) =>
        match run o (fuelFor (m.setAtEof true) inp) (m.setAtEof true) inp with
        | .done m _ => eofLoop o 8 m
        | .panic e => .error e
        | .outOfFuel => .error "run out of fuel" := rfl

theorem processCharRef_charRef (m : Mach) (chars : Str) : (processCharRef m chars).1.charRef = m.charRef := by
  unfold processCharRef
  dsimp only
  split
  · exact (foldl_emitChar_pres _ _).2
  · exact (foldl_emitChar_pres _ _).2
  · exact (foldl_pushValue_pres _ _).2
  · rfl

theorem finishPre_ok (o : Opts) (m : Mach) (hs : Safe m) :
    ∃ m1 i1, finishPre o m = .ok (m1, i1) ∧ m1.charRef = none := by
  unfold finishPre
  cases hcr : m.charRef with
  | none => exact ⟨m, [], rfl, hcr⟩
  | some cr =>
    simp only
    obtain ⟨m1, i1, chars, h, hp⟩ := crEof_ok o m [] cr (hs.crRegs cr hcr)
    rw [h]
    simp only
    have hst : crStateOk (m1.setCharRef none).state := by
      rw [setCharRef_state, hp.2.2]; exact hs.crState cr hcr
    have hnp := processCharRef_no_panic (m1.setCharRef none) chars hst
    have hc := processCharRef_charRef (m1.setCharRef none) chars
    cases hpc : processCharRef (m1.setCharRef none) chars with
    | mk m2 sig =>
      rw [hpc] at hnp hc
      cases sig with
      | cont => exact ⟨m2, i1, rfl, by simpa using hc⟩
      | panic e => exact absurd rfl (hnp e)

/-- distance of a state from the end of the `eof_step` loop -/
def eofRank : State → Nat
  | .data | .commentStartDash | .comment | .commentEndDash | .commentEnd | .commentEndBang => 0
  | .tagEmpty | .pi | .piTargetAfter | .piAfter | .markupDecl => 2
  | _ => 1

theorem transEof_rank (o : Opts) (m : Mach) :
    match (transEof o m).2 with
    | .done => True
    | .cont => eofRank (transEof o m).1.state < eofRank m.state
    | .panic _ => False := by
  cases hs : m.state <;> simp [transEof, hs, eofRank]

/-- the `eof_step` loop ends within `rank + 1 ≤ 3` rounds: the model's fuel (8) is never exhausted -/
theorem eofLoop_ok (o : Opts) (fuel : Nat) (m : Mach) (h : eofRank m.state < fuel) :
    ∃ m', eofLoop o fuel m = .ok m' := by
  induction fuel generalizing m with
  | zero => omega
  | succ f ih =>
    have hr := transEof_rank o m
    unfold eofLoop
    cases ht : transEof o m with
    | mk m1 sig =>
      rw [ht] at hr
      cases sig with
      | done => exact ⟨m1, rfl⟩
      | panic e => exact hr.elim
      | cont =>
        simp only at hr ⊢
        exact ih m1 (by omega)

theorem eofRank_le (s : State) : eofRank s ≤ 2 := by
  cases s <;> simp [eofRank]

/-- the `eof_step` loop ends by delivering EOF -/
theorem eofLoop_eof_last (o : Opts) (fuel : Nat) (m m' : Mach) (h : eofLoop o fuel m = .ok m') :
    ∃ rest, m'.out = Token.eof :: rest := by
  induction fuel generalizing m with
  | zero => simp [eofLoop] at h
  | succ n ih =>
    unfold eofLoop at h
    cases ht : transEof o m with
    | mk m1 sig =>
      rw [ht] at h
      cases sig with
      | cont => exact ih m1 h
      | panic e => simp at h
      | done =>
        simp only [Except.ok.injEq] at h
        subst h
        unfold transEof at ht
        repeat' split at ht
        all_goals
          first
            | (simp only [Prod.mk.injEq] at ht
               obtain ⟨h1, h2⟩ := ht
               first
                 | (simp at h2; done)
                 | (subst h1; exact ⟨_, rfl⟩))

/-- `end()` from a `Safe` machine: the only error the model can report is exhaustion of the fuel of
the `run` loop — every panic branch is excluded, and the `eof_step` loop's fuel is sufficient -/
theorem finish_safe_partial (o : Opts) (m : Mach) (hs : Safe m) (e : String)
    (h : finish o m = .error e) : e = "run out of fuel" := by
  rw [finish_eq] at h
  obtain ⟨m1, i1, hpre, hcr⟩ := finishPre_ok o m hs
  rw [hpre] at h
  simp only at h
  have hs1 : Safe (m1.setAtEof true) := Safe.of_none (by simpa using hcr)
  obtain ⟨hnp, _⟩ := run_safe o (fuelFor (m1.setAtEof true) i1) (m1.setAtEof true) i1 hs1
  cases hr : run o (fuelFor (m1.setAtEof true) i1) (m1.setAtEof true) i1 with
  | done m2 i2 =>
    rw [hr] at h
    simp only at h
    obtain ⟨m3, h3⟩ := eofLoop_ok o 8 m2 (by have := eofRank_le m2.state; omega)
    rw [h3] at h; cases h
  | panic e' => exact absurd hr (hnp e')
  | outOfFuel =>
    rw [hr] at h
    simp only [Except.error.injEq] at h
    exact h.symm

/-- when `end()` succeeds the last token delivered is EOF -/
theorem finish_eof_last (o : Opts) (m m' : Mach) (h : finish o m = .ok m') :
    ∃ rest, m'.out = Token.eof :: rest := by
  rw [finish_eq] at h
  split at h
  · cases h
  · split at h
    · exact eofLoop_eof_last o 8 _ m' h
    · cases h
    · cases h

end H5V.Model.XmlTok

