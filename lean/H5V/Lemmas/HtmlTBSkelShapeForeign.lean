import H5V.Lemmas.HtmlTBSkelShapeTable3
/-!
C06, second invariant layer, part 31: the rules for foreign content.
-/
namespace H5V.Props.C06
open H5V.Model.Dom hiding Str
open H5V.Model.HtmlTB hiding Str
open H5V.Lemmas.Dom
set_option synthInstance.maxSize 4096
set_option synthInstance.maxHeartbeats 400000

/-- the answer `true` of `is_foreign`: the current node is not an HTML element -/
theorem isForeign_cur {tok : Token} {s s0 : State} (hl : Late s) (e : isForeign tok s = .ok (true, s0)) :
    QS s s0 ∧ ∃ t, s.openElems.getLast? = some t ∧ ((nm s.dom t).ns == nsHtml) = false := by
  refine ⟨IsQ.q _ _ _ e, ?_⟩
  unfold isForeign at e
  rcases ite_run e with ⟨_, e⟩ | ⟨_, e⟩
  · obtain ⟨h, _⟩ := pure_ok.mp e; cases h
  rw [getS_bind] at e
  rcases ite_run e with ⟨_, e⟩ | ⟨_, e⟩
  · obtain ⟨h, _⟩ := pure_ok.mp e; cases h
  obtain ⟨cur, s1, e1, e2⟩ := bind_ok.mp e
  have hcur : s1 = s ∧ s.openElems.getLast? = some cur := by
    unfold adjustedCurrentNode at e1
    rw [getS_bind] at e1
    rw [hl.st.ctx] at e1
    rcases ite_run e1 with ⟨_, e1⟩ | ⟨_, e1⟩
    · exact currentNode_sem e1
    · exact currentNode_sem e1
  obtain ⟨rfl, hlast⟩ := hcur
  obtain ⟨n, s2, e3, e4⟩ := bind_ok.mp e2
  obtain ⟨q2, rfl, _⟩ := elemName_sem e3
  rcases ite_run e4 with ⟨_, e4⟩ | ⟨hns, e4⟩
  · obtain ⟨h, _⟩ := pure_ok.mp e4; cases h
  · exact ⟨cur, hlast, by simpa using hns⟩

/-- where foreign elements can be the current node: the body phase.  The state is `Big m0`, and any
state that is `Big m0` with the same mode fields satisfies the invariant -/
theorem Good.foreign_ctx {r t : Id} {s : State} (hg : Good r s) (hl : s.openElems.getLast? = some t)
    (hns : ((nm s.dom t).ns == nsHtml) = false) :
    ∃ m0 ph, Big m0 r ph s ∧
      ∀ s' : State, Big m0 r ph s' → s'.mode = s.mode → s'.origMode = s.origMode → Good r s' := by
  obtain ⟨up, ph, hs, _⟩ := id hg
  have hc := hs.core
  have hf := hs.fits
  -- the current node is an HTML element: impossible
  have html_last : ∀ y, s.openElems.getLast? = some y → (nm s.dom y).ns = nsHtml → False := by
    intro y hy hn
    rw [hl] at hy; cases hy
    rw [hn] at hns; simp at hns
  have hroot : (nm s.dom r).ns = nsHtml := by rw [hc.root_name]; rfl
  have lastOf : ∀ (u0 : List Id) (z : Id), up = u0 ++ [z] → s.openElems.getLast? = some z := by
    intro u0 z h0
    rw [hc.stack, h0, show r :: (u0 ++ [z]) = (r :: u0) ++ [z] from rfl, List.getLast?_append]; simp
  have lastNil : up = [] → s.openElems.getLast? = some r := by
    intro h0; rw [hc.stack, h0]; rfl
  unfold FitsM at hf
  cases hm : s.mode <;> rw [hm] at hf
  case initial => exact absurd hf id
  case beforeHtml => exact absurd hf id
  case beforeHead => exact absurd (html_last r (lastNil hf.1) hroot) id
  case inHead =>
    obtain ⟨h, hh, hu, rfl⟩ := hf
    have hhn : nm s.dom h = hN "head" := by
      obtain ⟨h', e1, _, e3⟩ := hc.elems; rw [hh] at e1; cases e1; exact e3
    exact absurd (html_last h (lastOf [] h hu) (by rw [hhn]; rfl)) id
  case inHeadNoscript =>
    obtain ⟨h, x, hh, hu, _, hxn⟩ := hf
    exact absurd (html_last x (lastOf [h] x hu) (by rw [hxn]; rfl)) id
  case afterHead => exact absurd (html_last r (lastNil hf.1) hroot) id
  case text =>
    obtain ⟨om, up0, x, _, hu, _, _, _, _, hxns⟩ := hf
    exact absurd (html_last x (lastOf up0 x hu) hxns) id
  case inFrameset =>
    obtain ⟨fs, up', hu, _, hall⟩ := hf
    rcases nil_or_concat up with h0 | ⟨u0, z, h0⟩
    · rw [h0] at hu; cases hu
    · exact absurd (html_last z (lastOf u0 z h0) (by rw [hall z (by rw [h0]; simp)]; rfl)) id
  case afterFrameset => exact absurd (html_last r (lastNil hf.1) hroot) id
  case afterAfterFrameset =>
    rcases nil_or_concat up with h0 | ⟨u0, z, h0⟩
    · exact absurd (html_last r (lastNil h0) hroot) id
    · have := hf.2 z (by rw [h0]; simp)
      obtain ⟨a, _, heq⟩ := htmlIn_eq this
      exact absurd (html_last z (lastOf u0 z h0) (by rw [heq]; rfl)) id
  case inTableText =>
    obtain ⟨om, ho, h3, hfit⟩ := hf
    have hbl : isBL om = true := isT3.bl h3
    obtain ⟨hbb, hneed⟩ := bl_of_fits hbl hfit
    refine ⟨om, ph, ⟨up, hc, hbb, hneed, FPok.triv _ _⟩, fun s' hb' hm' ho' => ?_⟩
    obtain ⟨up2, hc2, hbb2, hn2, _⟩ := hb'
    refine Good.mk' (up := up2) (ph := ph) ⟨hc2, ?_⟩
    unfold FitsM
    rw [hm']
    exact ⟨om, by rw [ho', ho], h3, fits_of_bl hbl hbb2 hn2⟩
  case afterBody =>
    obtain ⟨b, _, hs', hb⟩ := hg.ab (by rw [hm]; rfl)
    obtain ⟨up2, ph2, hs2, _⟩ := id hg
    exact ⟨.inBody, .pb b, hb, fun s' hb' hm' _ => good_of_big_pb hb' (Or.inl (by rw [hm']; rfl))⟩
  case afterAfterBody =>
    obtain ⟨b, _, hs', hb⟩ := hg.ab (by rw [hm]; rfl)
    exact ⟨.inBody, .pb b, hb, fun s' hb' hm' _ => good_of_big_pb hb' (Or.inl (by rw [hm']; rfl))⟩
  all_goals
    (obtain ⟨ph', hb⟩ := hg.big hm rfl
     exact ⟨_, ph', hb, fun s' hb' hm' _ => hb'.good hm' rfl⟩)


theorem keepName_of_foreign {n : EName} (h : (n.ns == nsHtml) = false) : keepName n = false := by
  cases n with
  | mk ns loc => exact keepName_foreign h

theorem appendText_res {text : Str} {s s' : State} {res : ProcessResult} (e : appendText text s = .ok (res, s')) :
    res = .done := by
  unfold appendText at e
  obtain ⟨_, _, _, e2⟩ := bind_ok.mp e
  exact (pure_ok.mp e2).1.symm

theorem appendComment_res {text : Str} {s s' : State} {res : ProcessResult}
    (e : appendComment text s = .ok (res, s')) : res = .done := by
  unfold appendComment at e
  obtain ⟨_, _, _, e2⟩ := bind_ok.mp e
  obtain ⟨_, _, _, e3⟩ := bind_ok.mp e2
  exact (pure_ok.mp e3).1.symm

/-- `unexpected_start_tag_in_foreign_content`: foreign elements are popped, the token goes to the
rules of the current insertion mode -/
theorem unexpectedStart_good (MO : ∀ m, isLate m = true → ModeOk m) {tag : Tag} {r : Id} {s s' : State} {m0 : Mode}
    {ph : Phase} {res : ProcessResult} (hb : Big m0 r ph s)
    (rebuild : ∀ s' : State, Big m0 r ph s' → s'.mode = s.mode → s'.origMode = s.origMode → Good r s')
    (e : unexpectedStartTagInForeignContent tag s = .ok (res, s')) : Out r s' res := by
  unfold unexpectedStartTagInForeignContent at e
  obtain ⟨_, s1, e1, e2⟩ := bind_ok.mp e
  have q1 := (qs_unexpected e1).1
  rw [getS_bind] at e2
  obtain ⟨_, s2, e3, e4⟩ := bind_ok.mp e2
  rw [getS_bind] at e4
  obtain ⟨popped, p, hp⟩ := popToIntegrationPointLoop_sem _ _ _ _ e3
  have hb2 : Big m0 r ph s2 := (hb.qs q1).pop p (fun x hx => keepName_of_foreign (by
    have := hp x hx
    cases hq : ((nm s1.dom x).ns == nsHtml) with
    | false => rfl
    | true => exact absurd (by simpa using hq) this))
  have hg2 : Good r s2 := rebuild s2 hb2 (by rw [p.rest]; exact q1.mode) (by rw [p.rest, q1.rest])
  exact MO s2.mode hg2.late.ml.mode (.tag tag) inferInstance r s2 res s' hg2 rfl e4

/-- the end-tag loop of the foreign-content rules -/
theorem foreignEndTagLoop_good (MO : ∀ m, isLate m = true → ModeOk m) {tag : Tag} {r : Id} {m0 : Mode} {ph : Phase}
    {s0 : State}
    (rebuild : ∀ s' : State, Big m0 r ph s' → s'.mode = s0.mode → s'.origMode = s0.origMode → Good r s') :
    ∀ (idx : Nat) (first : Bool) (s s' : State) (res : ProcessResult), Big m0 r ph s → QS s0 s →
      (∀ j y, idx < j → s.openElems[j]? = some y → ((nm s.dom y).ns == nsHtml) = false) →
      (first = true → ∀ y, s.openElems[idx]? = some y → ((nm s.dom y).ns == nsHtml) = false) →
      foreignEndTagLoop tag idx first s = .ok (res, s') → Out r s' res
  | 0, first, s, s', res, hb, q0, _, _, e => by
    unfold foreignEndTagLoop at e
    rw [getS_bind] at e
    cases hget : s.openElems[0]? with
    | none =>
      rw [hget] at e; dsimp only at e
      obtain ⟨_, _, h1, _⟩ := bind_ok.mp e
      exact absurd h1 panicAt_ok
    | some node =>
      rw [hget] at e; dsimp only at e
      obtain ⟨nd, s1, e1, e2⟩ := bind_ok.mp e
      obtain ⟨rfl, rfl⟩ := pure_ok.mp e1
      obtain ⟨n, s2, e3, e4⟩ := bind_ok.mp e2
      obtain ⟨q2, rfl, _⟩ := elemName_sem e3
      have hg2 : Good r s2 := rebuild s2 (hb.qs q2) (q2.mode.trans q0.mode) (by rw [q2.rest, q0.rest])
      rcases ite_run e4 with ⟨h1, e4⟩ | ⟨h1, e4⟩
      · rw [getS_bind] at e4
        exact MO s2.mode hg2.late.ml.mode (.tag tag) inferInstance r s2 res s' hg2 rfl e4
      · obtain ⟨rfl, rfl⟩ := pure_ok.mp e4
        exact hg2
  | idx + 1, first, s, s', res, hb, q0, habove, hfirst, e => by
    unfold foreignEndTagLoop at e
    rw [getS_bind] at e
    cases hget : s.openElems[idx + 1]? with
    | none =>
      rw [hget] at e; dsimp only at e
      obtain ⟨_, _, h1, _⟩ := bind_ok.mp e
      exact absurd h1 panicAt_ok
    | some node =>
      rw [hget] at e; dsimp only at e
      obtain ⟨nd, s1, e1, e2⟩ := bind_ok.mp e
      obtain ⟨rfl, rfl⟩ := pure_ok.mp e1
      obtain ⟨n, s2, e3, e4⟩ := bind_ok.mp e2
      obtain ⟨q2, rfl, _⟩ := elemName_sem e3
      have hg2 : Good r s2 := rebuild s2 (hb.qs q2) (q2.mode.trans q0.mode) (by rw [q2.rest, q0.rest])
      rcases ite_run e4 with ⟨h1, e4⟩ | ⟨h1, e4⟩
      · rw [getS_bind] at e4
        exact MO s2.mode hg2.late.ml.mode (.tag tag) inferInstance r s2 res s' hg2 rfl e4
      -- the node is not an HTML element
      have hnf : ((nm s.dom node).ns == nsHtml) = false := by
        cases hf : first with
        | true => exact hfirst hf node hget
        | false =>
          cases hq : ((nm s.dom node).ns == nsHtml) with
          | false => rfl
          | true => exfalso; apply h1; rw [hf, hq]; rfl
      rcases ite_run e4 with ⟨h2, e4⟩ | ⟨h2, e4⟩
      · obtain ⟨_, s3, e5, e6⟩ := bind_ok.mp e4
        obtain ⟨rfl, rfl⟩ := pure_ok.mp e6
        obtain ⟨_, rfl⟩ := modS_ok.mp e5
        -- everything from index idx + 1 on is removed
        have p : PR s2 { s2 with openElems := s2.openElems.take (idx + 1) } (s2.openElems.drop (idx + 1)) :=
          ⟨rfl, (List.take_append_drop _ _).symm, rfl⟩
        have hb3 := (hb.qs q2).pop p (fun x hx => keepName_of_foreign (by
          obtain ⟨j, hj⟩ := List.getElem?_of_mem hx
          rw [List.getElem?_drop] at hj
          rw [q2.openElems] at hj
          rw [q2.nm]
          cases j with
          | zero =>
            have : s.openElems[idx + 1]? = some x := by simpa using hj
            rw [hget] at this; cases this; exact hnf
          | succ j' => exact habove (idx + 1 + (j' + 1)) x (by omega) hj))
        exact rebuild _ hb3 (q2.mode.trans q0.mode) (by show s2.origMode = _; rw [q2.rest, q0.rest])
      · -- one step down
        have cont : ∀ s3 : State, QS s2 s3 → foreignEndTagLoop tag idx false s3 = .ok (res, s') → Out r s' res := by
          intro s3 q3 e5
          have q13 := q2.trans q3
          refine foreignEndTagLoop_good MO rebuild idx false s3 s' res (hb.qs q13) (q0.trans q13) ?_ ?_ e5
          · intro j y hj hy
            rw [q13.openElems] at hy
            rw [q13.nm]
            by_cases hj' : j = idx + 1
            · subst hj'; rw [hget] at hy; cases hy; exact hnf
            · exact habove j y (by omega) hy
          · intro h; cases h
        rcases ite_run e4 with ⟨_, e4⟩ | ⟨_, e4⟩
        · obtain ⟨_, s3, e5, e6⟩ := bind_ok.mp e4
          exact cont s3 (qs_unexpected e5).1 e6
        · exact cont s2 (QS.refl _) e4


/-- `foreign_start_tag`: an element in the namespace of the current node is inserted -/
theorem foreignStartTag_good {tag : Tag} {r t : Id} {s s' : State} {m0 : Mode} {ph : Phase} {res : ProcessResult}
    (hb : Big m0 r ph s)
    (rebuild : ∀ s' : State, Big m0 r ph s' → s'.mode = s.mode → s'.origMode = s.origMode → Good r s')
    (hl : s.openElems.getLast? = some t) (hns : ((nm s.dom t).ns == nsHtml) = false)
    (e : foreignStartTag tag s = .ok (res, s')) : Out r s' res := by
  obtain ⟨_, hc, _⟩ := id hb
  unfold foreignStartTag at e
  obtain ⟨cur, s1, e1, e2⟩ := bind_ok.mp e
  have hcur : s1 = s ∧ s.openElems.getLast? = some cur := by
    unfold adjustedCurrentNode at e1
    rw [getS_bind] at e1
    rw [hc.late.st.ctx] at e1
    rcases ite_run e1 with ⟨_, e1⟩ | ⟨_, e1⟩
    · exact currentNode_sem e1
    · exact currentNode_sem e1
  obtain ⟨rfl, hlast⟩ := hcur
  rw [hl] at hlast; cases hlast
  obtain ⟨n, s2, e3, e4⟩ := bind_ok.mp e2
  obtain ⟨q2, rfl, _⟩ := elemName_sem e3
  haveI : ForeignNs (nm s1.dom t).ns := ⟨hns⟩
  have hb2 := hb.qs q2
  rcases ite_run e4 with ⟨_, e4⟩ | ⟨_, e4⟩
  · obtain ⟨el, s3, e5, e6⟩ := bind_ok.mp e4
    obtain ⟨rfl, rfl⟩ := pure_ok.mp e6
    obtain ⟨g1, g2, g3⟩ := (inferInstance : PB (insertElement false (nm s1.dom t).ns _ _ _)).p _ _ _ _ _ _ hb2 e5
    exact rebuild _ g1 (g2.trans q2.mode) (g3.trans (by rw [q2.rest]))
  · obtain ⟨el, s3, e5, e6⟩ := bind_ok.mp e4
    obtain ⟨rfl, rfl⟩ := pure_ok.mp e6
    obtain ⟨g1, g2, g3⟩ := (inferInstance : PB (insertElement true (nm s1.dom t).ns _ _ _)).p _ _ _ _ _ _ hb2 e5
    exact rebuild _ g1 (g2.trans q2.mode) (g3.trans (by rw [q2.rest]))

/-- **the rules for foreign content** -/
theorem foreignOk (MO : ∀ m, isLate m = true → ModeOk m) : ForeignOk := by
  intro tok ht r s s0 res s' hg e1 e2
  obtain ⟨q, t, hl, hns⟩ := isForeign_cur hg.late e1
  have hg0 := hg.qs q
  have hl0 : s0.openElems.getLast? = some t := by rw [q.openElems]; exact hl
  have hns0 : ((nm s0.dom t).ns == nsHtml) = false := by rw [q.nm]; exact hns
  obtain ⟨m0, ph, hb, rebuild⟩ := hg0.foreign_ctx hl0 hns0
  unfold stepForeign at e2
  cases tok with
  | nullChar =>
    dsimp only at e2
    obtain ⟨_, s1, e3, e4⟩ := bind_ok.mp e2
    have q1 := (qs_unexpected e3).1
    haveI : NE ['�'] := ⟨by intro h; cases h⟩
    obtain ⟨g1, g2, g3⟩ := (inferInstance : PB (appendText ['�'])).p _ _ _ _ _ _ (hb.qs q1) e4
    rw [appendText_res e4]
    exact rebuild _ g1 (g2.trans q1.mode) (g3.trans (by rw [q1.rest]))
  | chars st text =>
    dsimp only at e2
    haveI : NE text := ⟨ht.ne _ _ rfl⟩
    rcases ite_run e2 with ⟨_, e2⟩ | ⟨_, e2⟩
    · obtain ⟨_, s1, e3, e4⟩ := bind_ok.mp e2
      have h1 := (inferInstance : PB (setFramesetOk false)).p _ _ _ _ _ _ hb e3
      obtain ⟨g1, g2, g3⟩ := (inferInstance : PB (appendText text)).p _ _ _ _ _ _ h1.1 e4
      rw [appendText_res e4]
      exact rebuild _ g1 (g2.trans h1.2.1) (g3.trans h1.2.2)
    · obtain ⟨g1, g2, g3⟩ := (inferInstance : PB (appendText text)).p _ _ _ _ _ _ hb e2
      rw [appendText_res e2]
      exact rebuild _ g1 g2 g3
  | comment c =>
    dsimp only at e2
    obtain ⟨g1, g2, g3⟩ := (inferInstance : PB (appendComment c)).p _ _ _ _ _ _ hb e2
    rw [appendComment_res e2]
    exact rebuild _ g1 g2 g3
  | eof => dsimp only at e2; exact absurd e2 panicAt_ok
  | tag tag =>
    dsimp only at e2
    rcases ite_run e2 with ⟨_, e2⟩ | ⟨_, e2⟩
    · exact unexpectedStart_good MO hb rebuild e2
    rcases ite_run e2 with ⟨_, e2⟩ | ⟨_, e2⟩
    · rcases ite_run e2 with ⟨_, e2⟩ | ⟨_, e2⟩
      · exact unexpectedStart_good MO hb rebuild e2
      · exact foreignStartTag_good hb rebuild hl0 hns0 e2
    rcases ite_run e2 with ⟨_, e2⟩ | ⟨_, e2⟩
    · exact foreignStartTag_good hb rebuild hl0 hns0 e2
    · rw [getS_bind] at e2
      rcases ite_run e2 with ⟨_, e2⟩ | ⟨hlen, e2⟩
      · exact absurd e2 panicAt_ok
      · refine foreignEndTagLoop_good MO rebuild _ true s0 s' res hb (QS.refl _) ?_ ?_ e2
        · intro j y hj hy
          exfalso
          have : j < s0.openElems.length := by
            rcases Nat.lt_or_ge j s0.openElems.length with h | h
            · exact h
            · rw [List.getElem?_eq_none h] at hy; cases hy
          omega
        · intro _ y hy
          have hlast : s0.openElems.getLast? = some y := by
            rw [List.getLast?_eq_getElem?]; exact hy
          rw [hl0] at hlast; cases hlast
          exact hns0

end H5V.Props.C06
