import H5V.Lemmas.HtmlTBReachActions2
/-!
C18, tree-builder side, part 4: the adoption agency algorithm passes only known handles to the sink.
-/
namespace H5V.Props.C18
open H5V.Model.Dom (Id QualName Attr NodeOrText SinkOp Output ElementFlags QuirksMode Dom)
open H5V.Model.HtmlTB
open H5V.Lemmas.TBM

set_option maxHeartbeats 1600000 in
theorem pv_aaInner (fmt fb : Id) (idx : Nat) : ∀ (c : List Id) (cnt : Nat) (last : Id) (bm : Bookmark),
    fmt ∈ c → fb ∈ c → last ∈ c → (∀ x ∈ bmH bm, x ∈ c) → PV c (aaInner fmt fb idx cnt last bm) aaH := by
  induction idx with
  | zero => intro c cnt last bm _ _ _ _; unfold aaInner; pv_walk
  | succ idx ih =>
    intro c cnt last bm hf hb hl hbm
    unfold aaInner; pv_walk
    all_goals (apply ih <;> mem_tac)
macro_rules | `(tactic| pv_leaf) => `(tactic| (with_reducible apply pv_aaInner) <;> mem_tac)

set_option maxHeartbeats 1600000 in
theorem pv_aaOuterStep {c : List Id} (subject : Str) : PV c (aaOuterStep subject) nil := by
  unfold aaOuterStep; pv_walk
macro_rules | `(tactic| pv_leaf) => `(tactic| with_reducible exact pv_aaOuterStep _)

theorem pv_aaOuter (subject : Str) : ∀ (c : List Id) (n : Nat), PV c (aaOuter subject n) nil
  | c, 0 => by unfold aaOuter; pv_walk
  | c, n + 1 => by
    have ih := fun c' => pv_aaOuter subject c' n
    unfold aaOuter; pv_walk
macro_rules | `(tactic| pv_leaf) => `(tactic| with_reducible exact pv_aaOuter _ _ _)

theorem pv_adoptionAgency {c : List Id} (subject : Str) : PV c (adoptionAgency subject) nil := by
  unfold adoptionAgency; pv_walk
macro_rules | `(tactic| pv_leaf) => `(tactic| with_reducible exact pv_adoptionAgency _)

theorem pv_findAInAF : ∀ (c : List Id) (l : List (Nat × Id × Tag)), (∀ p ∈ l, p.2.1 ∈ c) →
    PV c (findAInAF l) Option.toList
  | c, [], _ => by unfold findAInAF; pv_walk
  | c, (i, n, t) :: rest, hl => by
    have ih := fun c' => pv_findAInAF c' rest
    have hn : n ∈ c := hl (i, n, t) List.mem_cons_self
    have hr : ∀ p ∈ rest, p.2.1 ∈ c := fun p hp => hl p (List.mem_cons_of_mem _ hp)
    unfold findAInAF; pv_walk
    all_goals (apply ih; intro p hp; have := hr p hp; mem_tac)

/-- every element of the list of active formatting elements up to the last marker is held -/
theorem afEndToMarker_held {s : State} : ∀ p ∈ afEndToMarker s.activeFormatting, p.2.1 ∈ held s := by
  intro p hp
  obtain ⟨i, h, t⟩ := p
  have hf : (afEndToMarker s.activeFormatting).find? (fun q => q == (i, h, t)) = some (i, h, t) := by
    rcases hq : (afEndToMarker s.activeFormatting).find? (fun q => q == (i, h, t)) with _ | q
    · have := List.find?_eq_none.mp hq (i, h, t) hp
      simp at this
    · have := List.find?_some hq
      simp only [beq_iff_eq] at this
      rw [this]
  exact find_afEndToMarker_held hf

theorem pv_handleMisnestedATags {c : List Id} : PV c handleMisnestedATags nil := by
  unfold handleMisnestedATags
  refine PV.getS_bind fun s => PV.at ?_ s
  refine PV.bind (pv_findAInAF _ _ (fun p hp => List.mem_append_left _ (afEndToMarker_held p hp))) fun o => ?_
  pv_walk
macro_rules | `(tactic| pv_leaf) => `(tactic| with_reducible exact pv_handleMisnestedATags)

end H5V.Props.C18
