import H5V.Lemmas.HtmlTBSkelRun
/-!
C06, second invariant layer, part 1: element names, and what the stack-inspecting queries of the
tree-builder model answer (`elem_name`, `html_elem_named`, `current_node…`, `in_scope`, …) as pure
functions of the names of the open elements.  `QS s s'`: a query changed nothing but the trace (and
the parse-error / quirks fields of the arena).
-/
namespace H5V.Props.C06
open H5V.Model.Dom hiding Str
open H5V.Model.HtmlTB hiding Str
open H5V.Lemmas.Dom

/-- the expanded name the sink reports for an element (a dummy for other nodes) -/
def nm (d : Dom) (x : Id) : EName :=
  match d.dataOf x with
  | some (.element n _ _ _) => ⟨n.ns, n.loc⟩
  | _ => ⟨[], []⟩

/-- is `x` the HTML element `name` -/
def isH (d : Dom) (x : Id) (name : String) : Prop := nm d x = ⟨nsHtml, name.toList⟩

theorem nm_of_nodes {d d' : Dom} (h : d'.nodes = d.nodes) (x : Id) : nm d' x = nm d x := by
  unfold nm Dom.dataOf; rw [h]

theorem nm_chg {d d' : Dom} (h : Chg d d') {x : Id} (hx : d.isElement x = true) : nm d' x = nm d x := by
  have hlt := lt_of_isElement hx
  have hs := (h.data x hlt).skel
  unfold nm
  unfold Dom.isElement at hx
  cases h1 : d.dataOf x with
  | none => simp [h1] at hx
  | some v =>
    cases h2 : d'.dataOf x with
    | none => simp [h1, h2] at hs
    | some v' =>
      simp only [h1, h2, Option.map_some, Option.some.injEq] at hs
      cases v <;> simp [h1] at hx
      cases v' <;> simp [skelT] at hs
      simp [hs.1]

theorem elemName_eq_nm {d : Dom} {x : Id} {r : Str × Str} (h : d.elemName x = .ok r) : nm d x = ⟨r.1, r.2⟩ := by
  unfold Dom.elemName at h
  simp only [bind, Except.bind] at h
  cases hg : d.get x with
  | error e => simp [hg] at h
  | ok n =>
    simp only [hg] at h
    unfold nm
    rw [dataOf_of_node (get_ok.mp hg)]
    cases hd : n.data <;> simp [hd, throw, throwThe, MonadExceptOf.throw] at h ⊢
    subst h
    exact ⟨rfl, rfl⟩

/-- a query: only the trace and the error / quirks fields changed -/
structure QS (s s' : State) : Prop where
  nodes : s'.dom.nodes = s.dom.nodes
  rest : s' = { s with dom := s'.dom, traceRev := s'.traceRev }

theorem QS.refl (s : State) : QS s s := ⟨rfl, rfl⟩
theorem QS.trans {a b c : State} (h1 : QS a b) (h2 : QS b c) : QS a c :=
  ⟨h2.nodes.trans h1.nodes, by rw [h2.rest, h1.rest]⟩

theorem QS.openElems {s s' : State} (h : QS s s') : s'.openElems = s.openElems := by rw [h.rest]
theorem QS.mode {s s' : State} (h : QS s s') : s'.mode = s.mode := by rw [h.rest]
theorem QS.af {s s' : State} (h : QS s s') : s'.activeFormatting = s.activeFormatting := by rw [h.rest]
theorem QS.nm {s s' : State} (h : QS s s') (x : Id) : nm s'.dom x = nm s.dom x := nm_of_nodes h.nodes x
theorem QS.same3 {s s' : State} (h : QS s s') : Same3 s s' :=
  ⟨h.nodes, by rw [h.rest], by rw [h.rest], by rw [h.rest], by rw [h.rest], by rw [h.rest], by rw [h.rest],
   by rw [h.rest], by rw [h.rest]⟩

theorem qs_sink {op : SinkOp} [hq : QuietOp op] {s s' : State} {out : Output} (e : sink op s = .ok (out, s')) :
    QS s s' := by
  obtain ⟨d, hd, rfl⟩ := sink_ok.mp e
  exact ⟨hq.h _ _ _ hd, rfl⟩

theorem qs_sinkUnit {op : SinkOp} [QuietOp op] {s s' : State} {u : Unit} (e : sinkUnit op s = .ok (u, s')) : QS s s' := by
  obtain ⟨out, e⟩ := sinkUnit_ok.mp e
  exact qs_sink e

theorem qs_parseError {m : String} {s s' : State} {u : Unit} (e : parseError m s = .ok (u, s')) : QS s s' :=
  qs_sinkUnit e

theorem qs_unexpected {s s' : State} {r : ProcessResult} (e : unexpected s = .ok (r, s')) : QS s s' ∧ r = .done := by
  unfold unexpected at e
  obtain ⟨u, s1, e1, e2⟩ := bind_ok.mp e
  obtain ⟨rfl, rfl⟩ := pure_ok.mp e2
  exact ⟨qs_parseError e1, rfl⟩

/-! ### single-element queries -/

theorem elemName_sem {s s' : State} {h : Id} {n : EName} (e : elemName h s = .ok (n, s')) :
    QS s s' ∧ n = nm s.dom h ∧ s.dom.isElement h = true := by
  have e' := elemName_ok.mp e
  refine ⟨qs_sink e', ?_, elemName_run_isElement e⟩
  obtain ⟨d, hd, _⟩ := sink_ok.mp e'
  have hd' : s.dom.applyV Dom.cloneVariant Dom.beforeSiblingVariant (.elemName h) = .ok (d, .name n.ns n.loc) := hd
  simp only [Dom.applyV, bind, Except.bind] at hd'
  cases he : s.dom.elemName h with
  | error er => simp [he] at hd'
  | ok r =>
    simp [he] at hd'
    rw [elemName_eq_nm he]
    cases n; simp_all

theorem htmlElemNamedS_sem {s s' : State} {h : Id} {name : Str} {b : Bool} (e : htmlElemNamedS h name s = .ok (b, s')) :
    QS s s' ∧ b = ((nm s.dom h).ns == nsHtml && (nm s.dom h).loc == name) ∧ s.dom.isElement h = true := by
  unfold htmlElemNamedS at e
  obtain ⟨n, s1, e1, e2⟩ := bind_ok.mp e
  obtain ⟨q, rfl, hel⟩ := elemName_sem e1
  obtain ⟨rfl, rfl⟩ := pure_ok.mp e2
  exact ⟨q, rfl, hel⟩

theorem htmlElemNamed_sem {s s' : State} {h : Id} {name : String} {b : Bool} (e : htmlElemNamed h name s = .ok (b, s')) :
    QS s s' ∧ b = ((nm s.dom h).ns == nsHtml && (nm s.dom h).loc == name.toList) ∧ s.dom.isElement h = true :=
  htmlElemNamedS_sem e

theorem elemIn_sem {s s' : State} {h : Id} {set : EName → Bool} {b : Bool} (e : elemIn h set s = .ok (b, s')) :
    QS s s' ∧ b = set (nm s.dom h) := by
  unfold elemIn at e
  obtain ⟨n, s1, e1, e2⟩ := bind_ok.mp e
  obtain ⟨q, rfl, _⟩ := elemName_sem e1
  obtain ⟨rfl, rfl⟩ := pure_ok.mp e2
  exact ⟨q, rfl⟩

theorem currentNode_sem {s s' : State} {h : Id} (e : currentNode s = .ok (h, s')) :
    s' = s ∧ s.openElems.getLast? = some h := by
  unfold currentNode at e
  rw [getS_bind] at e
  cases hl : s.openElems.getLast? with
  | none => simp only [hl] at e; exact absurd e panicAt_ok
  | some x =>
    simp only [hl] at e
    obtain ⟨rfl, rfl⟩ := pure_ok.mp e
    exact ⟨rfl, rfl⟩

theorem currentNodeIn_sem {s s' : State} {set : EName → Bool} {b : Bool} (e : currentNodeIn set s = .ok (b, s')) :
    QS s s' ∧ ∃ h, s.openElems.getLast? = some h ∧ b = set (nm s.dom h) := by
  unfold currentNodeIn at e
  obtain ⟨h, s1, e1, e2⟩ := bind_ok.mp e
  obtain ⟨rfl, hl⟩ := currentNode_sem e1
  obtain ⟨n, s2, e3, e4⟩ := bind_ok.mp e2
  obtain ⟨q, rfl, _⟩ := elemName_sem e3
  obtain ⟨rfl, rfl⟩ := pure_ok.mp e4
  exact ⟨q, h, hl, rfl⟩

theorem currentNodeNamedS_sem {s s' : State} {name : Str} {b : Bool} (e : currentNodeNamedS name s = .ok (b, s')) :
    QS s s' ∧ ∃ h, s.openElems.getLast? = some h ∧
      b = ((nm s.dom h).ns == nsHtml && (nm s.dom h).loc == name) := by
  unfold currentNodeNamedS at e
  obtain ⟨h, s1, e1, e2⟩ := bind_ok.mp e
  obtain ⟨rfl, hl⟩ := currentNode_sem e1
  obtain ⟨q, hb, _⟩ := htmlElemNamedS_sem e2
  exact ⟨q, h, hl, hb⟩

theorem currentNodeNamed_sem {s s' : State} {name : String} {b : Bool} (e : currentNodeNamed name s = .ok (b, s')) :
    QS s s' ∧ ∃ h, s.openElems.getLast? = some h ∧
      b = ((nm s.dom h).ns == nsHtml && (nm s.dom h).loc == name.toList) :=
  currentNodeNamedS_sem e

theorem sameNode_sem {s s' : State} {x y : Id} {b : Bool} (e : sameNode x y s = .ok (b, s')) :
    QS s s' ∧ b = (x == y) := by
  unfold sameNode at e
  have e' := sinkBool_ok.mp e
  refine ⟨qs_sink e', ?_⟩
  obtain ⟨d, hd, _⟩ := sink_ok.mp e'
  have hd' : s.dom.applyV Dom.cloneVariant Dom.beforeSiblingVariant (.sameNode x y) = .ok (d, .bool b) := hd
  simp [Dom.applyV, Dom.sameNode] at hd'
  exact hd'.2.symm

/-! ### list queries -/

def isHS (n : EName) (name : Str) : Bool := n.ns == nsHtml && n.loc == name

/-- `in_scope`: the answer `true` means a match with no scope boundary (and no match) above it -/
theorem inScopeLoop_sem (scope : EName → Bool) (pred : Id → M Bool) (p : Id → Bool) (s0 : State)
    (hp : ∀ n s b s', QS s0 s → pred n s = .ok (b, s') → QS s s' ∧ b = p n) :
    ∀ (l : List Id) (s s' : State) (b : Bool), QS s0 s → inScopeLoop scope pred l s = .ok (b, s') →
      QS s s' ∧ (b = true → ∃ pre x post, l = pre ++ x :: post ∧ p x = true ∧
        ∀ y ∈ pre, p y = false ∧ scope (nm s0.dom y) = false)
  | [], s, s', b, _, e => by
    unfold inScopeLoop at e
    obtain ⟨rfl, rfl⟩ := pure_ok.mp e
    exact ⟨QS.refl _, fun h => by cases h⟩
  | x :: rest, s, s', b, q0, e => by
    unfold inScopeLoop at e
    obtain ⟨b1, s1, e1, e2⟩ := bind_ok.mp e
    obtain ⟨q1, hb1⟩ := hp x s b1 s1 q0 e1
    by_cases h1 : b1 = true
    · simp only [h1, if_true] at e2
      obtain ⟨rfl, rfl⟩ := pure_ok.mp e2
      exact ⟨q1, fun _ => ⟨[], x, rest, rfl, by rw [← hb1]; exact h1, by intro y hy; cases hy⟩⟩
    · simp only [h1] at e2
      obtain ⟨n, s2, e3, e4⟩ := bind_ok.mp e2
      obtain ⟨q2, hn, _⟩ := elemName_sem e3
      have hn0 : n = nm s0.dom x := by rw [hn, (q0.trans q1).nm]
      by_cases h2 : scope n = true
      · simp only [h2, if_true] at e4
        obtain ⟨rfl, rfl⟩ := pure_ok.mp e4
        exact ⟨q1.trans q2, fun h => by cases h⟩
      · simp only [h2] at e4
        obtain ⟨q3, hr⟩ := inScopeLoop_sem scope pred p s0 hp rest s2 s' b ((q0.trans q1).trans q2) e4
        refine ⟨(q1.trans q2).trans q3, fun hb => ?_⟩
        obtain ⟨pre, y, post, hl, hy, hpre⟩ := hr hb
        refine ⟨x :: pre, y, post, by rw [hl]; rfl, hy, ?_⟩
        intro z hz
        simp only [List.mem_cons] at hz
        rcases hz with rfl | hz
        · exact ⟨by rw [← hb1]; simpa using h1, by rw [← hn0]; simpa using h2⟩
        · exact hpre z hz

theorem anyHtmlElemNamed_sem (name : String) : ∀ (l : List Id) (s s' : State) (b : Bool),
    anyHtmlElemNamed name l s = .ok (b, s') →
      QS s s' ∧ (b = true ↔ ∃ x ∈ l, isHS (nm s.dom x) name.toList = true)
  | [], s, s', b, e => by
    unfold anyHtmlElemNamed at e
    obtain ⟨rfl, rfl⟩ := pure_ok.mp e
    exact ⟨QS.refl _, by simp⟩
  | x :: rest, s, s', b, e => by
    unfold anyHtmlElemNamed at e
    obtain ⟨b1, s1, e1, e2⟩ := bind_ok.mp e
    obtain ⟨q1, hb1, _⟩ := htmlElemNamed_sem e1
    by_cases h1 : b1 = true
    · simp only [h1, if_true] at e2
      obtain ⟨rfl, rfl⟩ := pure_ok.mp e2
      refine ⟨q1, ?_⟩
      simp only [true_iff]
      exact ⟨x, by simp, by unfold isHS; rw [← hb1]; exact h1⟩
    · simp only [h1] at e2
      obtain ⟨q2, hr⟩ := anyHtmlElemNamed_sem name rest s1 s' b e2
      refine ⟨q1.trans q2, ?_⟩
      rw [hr]
      constructor
      · rintro ⟨y, hy, hn⟩; exact ⟨y, List.mem_cons_of_mem _ hy, by rw [← q1.nm]; exact hn⟩
      · rintro ⟨y, hy, hn⟩
        simp only [List.mem_cons] at hy
        rcases hy with rfl | hy
        · exfalso; apply h1; rw [hb1]; exact hn
        · exact ⟨y, hy, by rw [q1.nm]; exact hn⟩

theorem inHtmlElemNamed_sem {name : String} {s s' : State} {b : Bool} (e : inHtmlElemNamed name s = .ok (b, s')) :
    QS s s' ∧ (b = true ↔ ∃ x ∈ s.openElems, isHS (nm s.dom x) name.toList = true) := by
  unfold inHtmlElemNamed at e
  rw [getS_bind] at e
  exact anyHtmlElemNamed_sem name _ _ _ _ e

/-- `rposition(|n| same_node(n, x))` on a reversed list `l` whose length is `len` -/
theorem rpositionLoop_same_sem (x : Id) (flip : Bool) : ∀ (l : List Id) (len : Nat) (s s' : State) (r : Option Nat),
    rpositionLoop (fun n => if flip then sameNode x n else sameNode n x) l len s = .ok (r, s') →
      QS s s' ∧ (∀ i, r = some i → ∃ pre post, l = pre ++ x :: post ∧ x ∉ pre ∧ i = len - 1 - pre.length) ∧
        (r = none → x ∉ l)
  | [], len, s, s', r, e => by
    unfold rpositionLoop at e
    obtain ⟨rfl, rfl⟩ := pure_ok.mp e
    exact ⟨QS.refl _, ⟨(by intro i h; cases h), (by intro _ h; cases h)⟩⟩
  | y :: rest, len, s, s', r, e => by
    unfold rpositionLoop at e
    obtain ⟨b1, s1, e1, e2⟩ := bind_ok.mp e
    have hq : QS s s1 ∧ b1 = (y == x) := by
      cases flip with
      | true => simp only [if_true] at e1; obtain ⟨q, hb⟩ := sameNode_sem e1; exact ⟨q, by rw [hb]; exact Bool.beq_comm⟩
      | false => simp only [Bool.false_eq_true, if_false] at e1; exact sameNode_sem e1
    obtain ⟨q1, hb1⟩ := hq
    by_cases h1 : b1 = true
    · simp only [h1, if_true] at e2
      obtain ⟨rfl, rfl⟩ := pure_ok.mp e2
      have hyx : y = x := by rw [hb1] at h1; simpa using h1
      subst hyx
      exact ⟨q1, ⟨(by intro i hi; cases hi; exact ⟨[], rest, rfl, by simp, by simp⟩), (by intro h; cases h)⟩⟩
    · simp only [h1] at e2
      have hyx : y ≠ x := by rw [hb1] at h1; simpa using h1
      obtain ⟨q2, hr1, hr2⟩ := rpositionLoop_same_sem x flip rest (len - 1) s1 s' r e2
      refine ⟨q1.trans q2, ?_, ?_⟩
      · intro i hi
        obtain ⟨pre, post, hl, hpre, hidx⟩ := hr1 i hi
        refine ⟨y :: pre, post, by rw [hl]; rfl, ?_, ?_⟩
        · simp only [List.mem_cons, not_or]; exact ⟨Ne.symm hyx, hpre⟩
        · simp only [List.length_cons]; omega
      · intro hn
        simp only [List.mem_cons, not_or]
        exact ⟨Ne.symm hyx, hr2 hn⟩

theorem getElem?_of_reverse_split {l : List Id} {pre post : List Id} {x : Id} (h : l.reverse = pre ++ x :: post) :
    l[l.length - 1 - pre.length]? = some x ∧ l = post.reverse ++ x :: pre.reverse := by
  have hl : l = post.reverse ++ x :: pre.reverse := by
    have := congrArg List.reverse h
    simp only [List.reverse_reverse, List.reverse_append, List.reverse_cons, List.append_assoc] at this
    rw [this]; simp
  refine ⟨?_, hl⟩
  have hlen : l.length = post.length + 1 + pre.length := by rw [hl]; simp; omega
  have hidx : l.length - 1 - pre.length = post.reverse.length := by rw [hlen]; simp
  rw [hidx, hl, List.getElem?_append_right (Nat.le_refl _)]
  simp

/-- `open_elems.iter().rposition(|n| same_node(n, x))`: the index of the topmost occurrence of `x` -/
theorem rposition_same_sem {x : Id} {flip : Bool} {s s' : State} {r : Option Nat}
    (e : rposition (fun n => if flip then sameNode x n else sameNode n x) s = .ok (r, s')) :
    QS s s' ∧ (∀ i, r = some i → s.openElems[i]? = some x ∧ x ∉ s.openElems.drop (i + 1)) ∧
      (r = none → x ∉ s.openElems) := by
  unfold rposition at e
  rw [getS_bind] at e
  obtain ⟨q, h1, h2⟩ := rpositionLoop_same_sem x flip _ _ _ _ _ e
  refine ⟨q, ?_, fun hn => by have := h2 hn; simpa using this⟩
  intro i hi
  obtain ⟨pre, post, hl, hpre, hidx⟩ := h1 i hi
  obtain ⟨hget, hsplit⟩ := getElem?_of_reverse_split hl
  refine ⟨by rw [hidx]; exact hget, ?_⟩
  have hlen : s.openElems.length = post.length + 1 + pre.length := by rw [hsplit]; simp; omega
  have hi' : i + 1 = post.reverse.length + 1 := by simp; omega
  rw [hsplit, hi']
  have : post.reverse ++ x :: pre.reverse = (post.reverse ++ [x]) ++ pre.reverse := by simp
  rw [this, List.drop_left' (by simp)]
  simpa using hpre

/-! ### the class of pure queries -/

/-- `m` changes nothing but the trace / error fields -/
class IsQ {α : Type} (m : M α) : Prop where
  q : ∀ s a s', m s = .ok (a, s') → QS s s'

theorem IsQ.bind {α β : Type} {m : M α} {f : α → M β} (h1 : IsQ m) (h2 : ∀ a, IsQ (f a)) : IsQ (m >>= f) :=
  ⟨fun s b s'' e => by
    obtain ⟨a, s', e1, e2⟩ := bind_ok.mp e
    exact (h1.q _ _ _ e1).trans ((h2 a).q _ _ _ e2)⟩
theorem IsQ.pure {α : Type} (a : α) : IsQ (pure a : M α) :=
  ⟨fun s b s' e => by obtain ⟨_, rfl⟩ := pure_ok.mp e; exact QS.refl _⟩
theorem IsQ.ite {α : Type} {c : Prop} [Decidable c] {a b : M α} (h1 : IsQ a) (h2 : IsQ b) : IsQ (if c then a else b) := by
  by_cases hc : c
  · simp only [hc, if_true]; exact h1
  · simp only [hc, if_false]; exact h2
theorem IsQ.throw {α : Type} (e : String) : IsQ (throw e : M α) := ⟨fun _ _ _ h => absurd h throw_ok⟩

instance {α β : Type} (m : M α) (f : α → M β) [h1 : IsQ m] [h2 : ∀ a, IsQ (f a)] : IsQ (m >>= f) := IsQ.bind h1 h2
instance {α : Type} (a : α) : IsQ (pure a : M α) := IsQ.pure a
instance {α : Type} (c : Prop) [Decidable c] (a b : M α) [h1 : IsQ a] [h2 : IsQ b] : IsQ (if c then a else b) := IsQ.ite h1 h2
instance {α : Type} (e : String) : IsQ (throw e : M α) := IsQ.throw e
instance {α : Type} (c f t : String) : IsQ (panicAt c f t : M α) := IsQ.throw _
instance {α : Type} (w : String) : IsQ (fuelOut w : M α) := IsQ.throw _
instance : IsQ getS := ⟨fun s a s' e => by obtain ⟨_, rfl⟩ := getS_ok.mp e; exact QS.refl _⟩
instance (op : SinkOp) [QuietOp op] : IsQ (sink op) := ⟨fun _ _ _ e => qs_sink e⟩
instance (op : SinkOp) [QuietOp op] : IsQ (sinkUnit op) := ⟨fun _ _ _ e => qs_sinkUnit e⟩
instance (op : SinkOp) [QuietOp op] : IsQ (sinkNode op) :=
  ⟨fun _ _ _ e => qs_sink (sinkNode_ok.mp e)⟩
instance (op : SinkOp) [QuietOp op] : IsQ (sinkBool op) :=
  ⟨fun _ _ _ e => qs_sink (sinkBool_ok.mp e)⟩
instance (m : String) : IsQ (parseError m) := ⟨fun _ _ _ e => qs_parseError e⟩
instance : IsQ unexpected := ⟨fun _ _ _ e => (qs_unexpected e).1⟩
instance (h : Id) : IsQ (elemName h) := ⟨fun _ _ _ e => (elemName_sem e).1⟩
instance (a b : Id) : IsQ (sameNode a b) := ⟨fun _ _ _ e => (sameNode_sem e).1⟩

syntax "q_walk" : tactic
macro_rules
  | `(tactic| q_walk) => `(tactic|
    repeat' (first
      | exact inferInstance
      | with_reducible apply IsQ.bind
      | with_reducible apply IsQ.ite
      | intro _
      | split
      | dsimp only))

instance (h : Id) (n : Str) : IsQ (htmlElemNamedS h n) := by unfold htmlElemNamedS; q_walk
instance (h : Id) (n : String) : IsQ (htmlElemNamed h n) := by unfold htmlElemNamed; infer_instance
instance (h : Id) (set : EName → Bool) : IsQ (elemIn h set) := by unfold elemIn; q_walk
instance : IsQ currentNode := by unfold currentNode; q_walk
instance : IsQ adjustedCurrentNode := by unfold adjustedCurrentNode; q_walk
instance (set : EName → Bool) : IsQ (currentNodeIn set) := by unfold currentNodeIn; q_walk
instance (n : Str) : IsQ (currentNodeNamedS n) := by unfold currentNodeNamedS; q_walk
instance (n : String) : IsQ (currentNodeNamed n) := by unfold currentNodeNamed; infer_instance
instance : IsQ htmlElem := by unfold htmlElem; q_walk
instance : IsQ htmlElemFn := by unfold htmlElemFn; q_walk
instance : IsQ isFragment := by unfold isFragment; q_walk
instance : IsQ pendingTableTextEmpty := by unfold pendingTableTextEmpty; q_walk

theorem isQ_fosterLoop : ∀ (l : List Id), IsQ (fosterLoop l)
  | [] => by unfold fosterLoop; q_walk
  | e :: rest => by haveI := isQ_fosterLoop rest; unfold fosterLoop; q_walk
instance (l : List Id) : IsQ (fosterLoop l) := isQ_fosterLoop l
instance (o : Option Id) : IsQ (appropriatePlaceForInsertion o) := by unfold appropriatePlaceForInsertion; q_walk

theorem isQ_anyHtmlElemNamed (n : String) : ∀ (l : List Id), IsQ (anyHtmlElemNamed n l)
  | [] => by unfold anyHtmlElemNamed; q_walk
  | e :: rest => by haveI := isQ_anyHtmlElemNamed n rest; unfold anyHtmlElemNamed; q_walk
instance (n : String) (l : List Id) : IsQ (anyHtmlElemNamed n l) := isQ_anyHtmlElemNamed n l
instance (n : String) : IsQ (inHtmlElemNamed n) := by unfold inHtmlElemNamed; q_walk

theorem isQ_inScopeLoop (scope : EName → Bool) (pred : Id → M Bool) (hp : ∀ n, IsQ (pred n)) :
    ∀ (l : List Id), IsQ (inScopeLoop scope pred l)
  | [] => by unfold inScopeLoop; q_walk
  | e :: rest => by haveI := isQ_inScopeLoop scope pred hp rest; unfold inScopeLoop; q_walk
instance (scope : EName → Bool) (pred : Id → M Bool) [hp : ∀ n, IsQ (pred n)] (l : List Id) :
    IsQ (inScopeLoop scope pred l) := isQ_inScopeLoop scope pred hp l
instance (scope : EName → Bool) (pred : Id → M Bool) [∀ n, IsQ (pred n)] : IsQ (inScope scope pred) := by
  unfold inScope; q_walk
instance (scope : EName → Bool) (n : Str) : IsQ (inScopeNamedS scope n) := by unfold inScopeNamedS; infer_instance
instance (scope : EName → Bool) (n : String) : IsQ (inScopeNamed scope n) := by unfold inScopeNamed; infer_instance

theorem isQ_checkBodyEndLoop : ∀ (l : List Id), IsQ (checkBodyEndLoop l)
  | [] => by unfold checkBodyEndLoop; q_walk
  | e :: rest => by haveI := isQ_checkBodyEndLoop rest; unfold checkBodyEndLoop; q_walk
instance (l : List Id) : IsQ (checkBodyEndLoop l) := isQ_checkBodyEndLoop l
instance : IsQ checkBodyEnd := by unfold checkBodyEnd; q_walk
instance : IsQ bodyElem := by unfold bodyElem; q_walk

theorem isQ_rpositionLoop (p : Id → M Bool) (hp : ∀ n, IsQ (p n)) : ∀ (l : List Id) (len : Nat), IsQ (rpositionLoop p l len)
  | [], _ => by unfold rpositionLoop; q_walk
  | e :: rest, len => by haveI := fun k => isQ_rpositionLoop p hp rest k; unfold rpositionLoop; q_walk
instance (p : Id → M Bool) [hp : ∀ n, IsQ (p n)] (l : List Id) (len : Nat) : IsQ (rpositionLoop p l len) :=
  isQ_rpositionLoop p hp l len
instance (p : Id → M Bool) [∀ n, IsQ (p n)] : IsQ (rposition p) := by unfold rposition; q_walk

theorem isQ_positionInAFLoop (e : Id) : ∀ (l : List FormatEntry) (i : Nat), IsQ (positionInAFLoop e l i)
  | [], _ => by unfold positionInAFLoop; q_walk
  | .marker :: rest, i => by unfold positionInAFLoop; exact isQ_positionInAFLoop e rest (i + 1)
  | .element h t :: rest, i => by haveI := fun k => isQ_positionInAFLoop e rest k; unfold positionInAFLoop; q_walk
instance (e : Id) (l : List FormatEntry) (i : Nat) : IsQ (positionInAFLoop e l i) := isQ_positionInAFLoop e l i
instance (e : Id) : IsQ (positionInActiveFormatting e) := by unfold positionInActiveFormatting; q_walk

theorem isQ_anySameNodeRev (n : Id) : ∀ (l : List Id), IsQ (anySameNodeRev n l)
  | [] => by unfold anySameNodeRev; q_walk
  | e :: rest => by haveI := isQ_anySameNodeRev n rest; unfold anySameNodeRev; q_walk
instance (n : Id) (l : List Id) : IsQ (anySameNodeRev n l) := isQ_anySameNodeRev n l
instance (e : FormatEntry) : IsQ (isMarkerOrOpen e) := by cases e <;> (unfold isMarkerOrOpen; q_walk)

theorem isQ_reconstructRewind : ∀ (i : Nat), IsQ (reconstructRewind i)
  | 0 => by unfold reconstructRewind; q_walk
  | n + 1 => by haveI := isQ_reconstructRewind n; unfold reconstructRewind; q_walk
instance (i : Nat) : IsQ (reconstructRewind i) := isQ_reconstructRewind i

theorem isQ_endTagSearch (name : Str) : ∀ (l : List Id) (len : Nat), IsQ (endTagSearch name l len)
  | [], _ => by unfold endTagSearch; q_walk
  | e :: rest, len => by haveI := fun k => isQ_endTagSearch name rest k; unfold endTagSearch; q_walk
instance (name : Str) (l : List Id) (len : Nat) : IsQ (endTagSearch name l len) := isQ_endTagSearch name l len

theorem isQ_findFurthestBlock : ∀ (l : List Id) (i : Nat), IsQ (findFurthestBlock l i)
  | [], _ => by unfold findFurthestBlock; q_walk
  | e :: rest, i => by haveI := fun k => isQ_findFurthestBlock rest k; unfold findFurthestBlock; q_walk
instance (l : List Id) (i : Nat) : IsQ (findFurthestBlock l i) := isQ_findFurthestBlock l i

theorem isQ_positionSameNode (x : Id) : ∀ (l : List Id) (i : Nat), IsQ (positionSameNode x l i)
  | [], _ => by unfold positionSameNode; q_walk
  | e :: rest, i => by haveI := fun k => isQ_positionSameNode x rest k; unfold positionSameNode; q_walk
instance (x : Id) (l : List Id) (i : Nat) : IsQ (positionSameNode x l i) := isQ_positionSameNode x l i

theorem isQ_findAInAF : ∀ (l : List (Nat × Id × Tag)), IsQ (findAInAF l)
  | [] => by unfold findAInAF; q_walk
  | (_, n, _) :: rest => by haveI := isQ_findAInAF rest; unfold findAInAF; q_walk
instance (l : List (Nat × Id × Tag)) : IsQ (findAInAF l) := isQ_findAInAF l

theorem isQ_resetLoop : ∀ (l : List Id) (len : Nat), IsQ (resetLoop l len)
  | [], _ => by unfold resetLoop; q_walk
  | e :: rest, len => by haveI := fun k => isQ_resetLoop rest k; unfold resetLoop; q_walk
instance (l : List Id) (len : Nat) : IsQ (resetLoop l len) := isQ_resetLoop l len
instance : IsQ resetInsertionMode := by unfold resetInsertionMode; q_walk
instance (t : Token) : IsQ (isForeign t) := by unfold isForeign; q_walk
instance (tag : Tag) : IsQ (shouldAttachDeclarativeShadow tag) := by unfold shouldAttachDeclarativeShadow; q_walk
instance (content : Str) : IsQ (extractEncoding content) := by unfold extractEncoding; q_walk

theorem isQ_listCloseSearch (list : Bool) : ∀ (l : List Id), IsQ (listCloseSearch list l)
  | [] => by unfold listCloseSearch; q_walk
  | e :: rest => by haveI := isQ_listCloseSearch list rest; unfold listCloseSearch; q_walk
instance (list : Bool) (l : List Id) : IsQ (listCloseSearch list l) := isQ_listCloseSearch list l
theorem isQ_findOption : ∀ (l : List Id), IsQ (findOption l)
  | [] => by unfold findOption; q_walk
  | e :: rest => by haveI := isQ_findOption rest; unfold findOption; q_walk
instance (l : List Id) : IsQ (findOption l) := isQ_findOption l
theorem isQ_anySameNode (x : Id) : ∀ (l : List Id), IsQ (anySameNode x l)
  | [] => by unfold anySameNode; q_walk
  | e :: rest => by haveI := isQ_anySameNode x rest; unfold anySameNode; q_walk
instance (x : Id) (l : List Id) : IsQ (anySameNode x l) := isQ_anySameNode x l
instance (site : String) : IsQ (contextIsSelect site) := by unfold contextIsSelect; q_walk

end H5V.Props.C06
