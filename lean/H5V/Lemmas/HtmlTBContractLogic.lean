import H5V.Lemmas.HtmlTBContractBase
/-!
# TreeSink contract for the HTML tree builder, part 2: the state-independent judgements

* `CP d0 c m R` — "growing" code: from every state satisfying the base invariant `CB d0` in which the
  handles of the context `c` are elements, `m` fails at most with `Esc`, or ends in a state
  satisfying `CB d0`, related to the start by `GrowRel`, in which the handles `R a` (a function of the
  result) are elements.  Closed under bind / if / getS; leaves: sink calls whose contract is a fact
  about context handles, state updates, and the composite insertion helpers.
* `CPS d0 c m R` — the same with the stack-order invariant `SAnc` in pre- and postcondition and no
  `GrowRel` (the adoption agency, `<frameset>`, the selectedcontent mirror); `cp_toCPS`.
* `cp_walk` / `cps_walk` — walk a `do` block structurally; leaves via the extensible macro `cp_leaf`.
-/
namespace H5V.Lemmas.TBC
open H5V.Model.HtmlTB
open H5V.Model.Dom (Id QualName Attr NodeOrText SinkOp Output ElementFlags QuirksMode Dom NodeData Node Contract)
open H5V.Lemmas.Dom (Anc WF Kinds)
open H5V.Props.C20 (Inv Run)
open H5V.Lemmas.TBSafe (IsEl nm sigOf Ext apply_ext tmplName fmtNames nm_ext sigOf_ext IsEl.ext sigOf_lt)

variable {d0 : Dom}

/-! ### contexts of handles -/

def CtxOk (c : List Id) (s : State) : Prop := ∀ h ∈ c, IsEl s.dom h

theorem CtxOk.ext {c : List Id} {s s' : State} (h : CtxOk c s) (he : Ext s.dom s'.dom) : CtxOk c s' :=
  fun x hx => (h x hx).ext he

theorem CtxOk.app {a b : List Id} {s : State} (ha : CtxOk a s) (hb : CtxOk b s) : CtxOk (a ++ b) s := by
  intro x hx
  rcases List.mem_append.mp hx with h | h
  · exact ha x h
  · exact hb x h

theorem CtxOk.sub {a b : List Id} {s : State} (hb : CtxOk b s) (h : ∀ x ∈ a, x ∈ b) : CtxOk a s :=
  fun x hx => hb x (h x hx)

theorem CtxOk.nil (s : State) : CtxOk [] s := fun _ h => by cases h

/-- the handles of active formatting entries -/
def afIds : List FormatEntry → List Id
  | [] => []
  | .marker :: rest => afIds rest
  | .element h _ :: rest => h :: afIds rest

theorem mem_afIds {h : Id} : ∀ {l : List FormatEntry}, h ∈ afIds l ↔ ∃ t, FormatEntry.element h t ∈ l := by
  intro l
  induction l with
  | nil => simp [afIds]
  | cons e rest ih =>
    cases e with
    | marker => simp [afIds, ih]
    | element h' t' =>
      simp only [afIds, List.mem_cons, ih]
      constructor
      · rintro (rfl | ⟨t, ht⟩)
        · exact ⟨t', Or.inl rfl⟩
        · exact ⟨t, Or.inr ht⟩
      · rintro ⟨t, ht | ht⟩
        · cases ht; exact Or.inl rfl
        · exact Or.inr ⟨t, ht⟩

/-- every handle stored in the builder state -/
def stH (s : State) : List Id :=
  s.openElems ++ afIds s.activeFormatting ++ s.headElem.toList ++ s.formElem.toList ++ s.contextElem.toList

theorem ctxOk_stH {s : State} (h : HL s) : CtxOk (stH s) s := by
  intro x hx
  simp only [stH, List.mem_append, Option.mem_toList] at hx
  rcases hx with (((hx | hx) | hx) | hx) | hx
  · exact h.open_el x hx
  · obtain ⟨t, ht⟩ := mem_afIds.mp hx; exact (h.af x t ht).1
  · exact h.head x hx
  · exact h.form x hx
  · exact h.ctx x hx

/-! ### the judgements -/

def CP (d0 : Dom) (c : List Id) {α : Type} (m : M α) (R : α → List Id) : Prop :=
  ∀ s, CB d0 s → CtxOk c s → SatC m s (fun a s' => CB d0 s' ∧ GrowRel s s' ∧ CtxOk (R a) s')

def CPS (d0 : Dom) (c : List Id) {α : Type} (m : M α) (R : α → List Id) : Prop :=
  ∀ s, CB d0 s → SAnc s.dom s.openElems → CtxOk c s →
    SatC m s (fun a s' => CB d0 s' ∧ SAnc s'.dom s'.openElems ∧ Ext s.dom s'.dom ∧ CtxOk (R a) s')

theorem HL.lt {s : State} (h : HL s) : ∀ x ∈ s.openElems, x < s.dom.size := by
  intro x hx
  obtain ⟨y, hy⟩ := h.open_el x hx
  exact sigOf_lt hy

theorem cp_toCPS {c : List Id} {α : Type} {m : M α} {R : α → List Id} (h : CP d0 c m R) : CPS d0 c m R := by
  intro s hcb hsa hc
  refine (h s hcb hc).mono ?_
  rintro a s' ⟨hcb', hg, hr⟩
  exact ⟨hcb', hsa.grow hcb.d.inv.wf hcb.h.lt hg, hg.ext, hr⟩

/-! ### structural rules, `CP` -/

theorem cp_bind {c : List Id} {α β : Type} {m : M α} {f : α → M β} {R : α → List Id} {R' : β → List Id}
    (h1 : CP d0 c m R) (h2 : ∀ a, CP d0 (R a ++ c) (f a) R') : CP d0 c (m >>= f) R' := by
  intro s hcb hc
  refine (h1 s hcb hc).bind ?_
  rintro a s1 ⟨hcb1, hg1, hr1⟩
  refine (h2 a s1 hcb1 (hr1.app (hc.ext hg1.ext))).mono ?_
  rintro b s2 ⟨hcb2, hg2, hr2⟩
  exact ⟨hcb2, hg1.trans hg2, hr2⟩

theorem cp_pure {c : List Id} {α : Type} (a : α) {R : α → List Id} (h : ∀ x ∈ R a, x ∈ c) :
    CP d0 c (Pure.pure a : M α) R :=
  fun s hcb hc => satc_pure ⟨hcb, GrowRel.refl s, hc.sub h⟩

theorem cp_pure_nil {c : List Id} {α : Type} (a : α) : CP d0 c (Pure.pure a : M α) (fun _ => []) :=
  cp_pure a (fun _ h => by cases h)

theorem cp_ite {c : List Id} {α : Type} {p : Prop} [Decidable p] {a b : M α} {R : α → List Id}
    (h1 : p → CP d0 c a R) (h2 : ¬p → CP d0 c b R) : CP d0 c (if p then a else b) R := by
  by_cases hp : p
  · rw [if_pos hp]; exact h1 hp
  · rw [if_neg hp]; exact h2 hp

theorem cp_weaken {c : List Id} {α : Type} {m : M α} {R R' : α → List Id} (h : CP d0 c m R)
    (hr : ∀ a x, x ∈ R' a → x ∈ R a ∨ x ∈ c) : CP d0 c m R' := by
  intro s hcb hc
  refine (h s hcb hc).mono ?_
  rintro a s' ⟨hcb', hg, hr'⟩
  refine ⟨hcb', hg, ?_⟩
  intro x hx
  rcases hr a x hx with h1 | h1
  · exact hr' x h1
  · exact (hc x h1).ext hg.ext

theorem cp_drop {c : List Id} {α : Type} {m : M α} {R : α → List Id} (h : CP d0 c m R) :
    CP d0 c m (fun _ => []) := cp_weaken h (fun _ _ h => by cases h)

theorem cp_ctx_mono {c c' : List Id} {α : Type} {m : M α} {R : α → List Id} (h : CP d0 c m R)
    (hs : ∀ x ∈ c, x ∈ c') : CP d0 c' m R :=
  fun s hcb hc => h s hcb (hc.sub hs)

/-- the judgement at one state (for code that writes back a state it has read: `set { s with … }`) -/
def CPat (d0 : Dom) (s : State) (c : List Id) {α : Type} (m : M α) (R : α → List Id) : Prop :=
  CB d0 s → CtxOk c s → SatC m s (fun a s' => CB d0 s' ∧ GrowRel s s' ∧ CtxOk (R a) s')

theorem cp_at {c : List Id} {α : Type} {m : M α} {R : α → List Id} (h : CP d0 c m R) (s : State) :
    CPat d0 s c m R := h s

theorem cp_getS_bind_at {c : List Id} {β : Type} {f : State → M β} {R : β → List Id}
    (h : ∀ s0, CPat d0 s0 (stH s0 ++ c) (f s0) R) : CP d0 c (getS >>= f) R := by
  intro s hcb hc
  refine satc_getS_bind ?_
  exact h s hcb ((ctxOk_stH hcb.h).app hc)

/-- `set s1; k` at a known state: continue from `s1` -/
theorem cpat_set_bind {s s1 : State} {c : List Id} {β : Type} {k : Unit → M β} {R : β → List Id}
    (h1 : CB d0 s → CB d0 s1 ∧ GrowRel s s1) (hk : CP d0 c (k ()) R) :
    CPat d0 s c ((set s1 : M Unit) >>= k) R := by
  intro hcb hc
  refine satc_set_bind ?_
  obtain ⟨hcb1, hg1⟩ := h1 hcb
  refine (hk s1 hcb1 (hc.ext hg1.ext)).mono ?_
  rintro b s2 ⟨hcb2, hg2, hr2⟩
  exact ⟨hcb2, hg1.trans hg2, hr2⟩

/-- after `getS`, the handles stored in the state are known elements -/
theorem cp_getS_bind {c : List Id} {β : Type} {f : State → M β} {R : β → List Id}
    (h : ∀ s0, CP d0 (stH s0 ++ c) (f s0) R) : CP d0 c (getS >>= f) R := by
  intro s hcb hc
  refine satc_getS_bind ?_
  exact h s s hcb ((ctxOk_stH hcb.h).app hc)

theorem cp_throw {c : List Id} {α : Type} {e : String} {R : α → List Id} (h : Esc e) :
    CP d0 c (throw e : M α) R := fun _ _ _ => satc_throw h

theorem cp_panicAt {c : List Id} {α : Type} {cls site text : String} {R : α → List Id}
    (h : TBSafe.infixL "@sink: ".toList (cls ++ "@" ++ site ++ ": " ++ text).toList = false := by decide) :
    CP d0 c (panicAt cls site text : M α) R := fun _ _ _ => satc_panicAt h

theorem cp_fuelOut {c : List Id} {α : Type} {what : String} {R : α → List Id}
    (h : TBSafe.infixL "@sink: ".toList ("model-fuel@model: " ++ what).toList = false := by decide) :
    CP d0 c (fuelOut what : M α) R := fun _ _ _ => satc_fuelOut h

/-! ### structural rules, `CPS` -/

theorem cps_bind {c : List Id} {α β : Type} {m : M α} {f : α → M β} {R : α → List Id} {R' : β → List Id}
    (h1 : CPS d0 c m R) (h2 : ∀ a, CPS d0 (R a ++ c) (f a) R') : CPS d0 c (m >>= f) R' := by
  intro s hcb hsa hc
  refine (h1 s hcb hsa hc).bind ?_
  rintro a s1 ⟨hcb1, hsa1, he1, hr1⟩
  refine (h2 a s1 hcb1 hsa1 (hr1.app (hc.ext he1))).mono ?_
  rintro b s2 ⟨hcb2, hsa2, he2, hr2⟩
  exact ⟨hcb2, hsa2, he1.trans he2, hr2⟩

theorem cps_ite {c : List Id} {α : Type} {p : Prop} [Decidable p] {a b : M α} {R : α → List Id}
    (h1 : p → CPS d0 c a R) (h2 : ¬p → CPS d0 c b R) : CPS d0 c (if p then a else b) R := by
  by_cases hp : p
  · rw [if_pos hp]; exact h1 hp
  · rw [if_neg hp]; exact h2 hp

theorem cps_weaken {c : List Id} {α : Type} {m : M α} {R R' : α → List Id} (h : CPS d0 c m R)
    (hr : ∀ a x, x ∈ R' a → x ∈ R a ∨ x ∈ c) : CPS d0 c m R' := by
  intro s hcb hsa hc
  refine (h s hcb hsa hc).mono ?_
  rintro a s' ⟨hcb', hsa', he, hr'⟩
  refine ⟨hcb', hsa', he, ?_⟩
  intro x hx
  rcases hr a x hx with h1 | h1
  · exact hr' x h1
  · exact (hc x h1).ext he

theorem cps_drop {c : List Id} {α : Type} {m : M α} {R : α → List Id} (h : CPS d0 c m R) :
    CPS d0 c m (fun _ => []) := cps_weaken h (fun _ _ h => by cases h)

theorem cps_ctx_mono {c c' : List Id} {α : Type} {m : M α} {R : α → List Id} (h : CPS d0 c m R)
    (hs : ∀ x ∈ c, x ∈ c') : CPS d0 c' m R :=
  fun s hcb hsa hc => h s hcb hsa (hc.sub hs)

theorem cps_getS_bind {c : List Id} {β : Type} {f : State → M β} {R : β → List Id}
    (h : ∀ s0, CPS d0 (stH s0 ++ c) (f s0) R) : CPS d0 c (getS >>= f) R := by
  intro s hcb hsa hc
  refine satc_getS_bind ?_
  exact h s s hcb hsa ((ctxOk_stH hcb.h).app hc)

/-! ### leaves: sink calls that do not touch the tree -/

/-- the sink calls after which every old node has the same parent, and new nodes have none -/
def nonTree : SinkOp → Bool
  | .append _ _ => false
  | .appendBasedOnParentNode _ _ _ => false
  | .appendBeforeSibling _ _ => false
  | .appendDoctypeToDocument _ _ _ => false
  | .removeFromParent _ => false
  | .reparentChildren _ _ => false
  | .maybeCloneAnOptionIntoSelectedcontent _ => false
  | _ => true

open H5V.Lemmas.Dom in
theorem parents_of_nonTree {d d' : Dom} {op : SinkOp} {out : Output} (hnt : nonTree op = true)
    (h : d.apply op = .ok (d', out)) :
    d.size ≤ d'.size ∧ (∀ x, x < d.size → d'.parentOf x = d.parentOf x) ∧
    (∀ x, d.size ≤ x → d'.parentOf x = none) := by
  have same : ∀ {dd : Dom}, dd.nodes = d.nodes →
      d.size ≤ dd.size ∧ (∀ x, x < d.size → dd.parentOf x = d.parentOf x) ∧
      (∀ x, d.size ≤ x → dd.parentOf x = none) := by
    intro dd hn
    have hs : dd.size = d.size := by simp [Dom.size, hn]
    refine ⟨Nat.le_of_eq hs.symm, fun x _ => by simp [Dom.parentOf, hn], fun x hx => ?_⟩
    exact parentOf_none_of_ge (by rw [hs]; exact hx)
  have alloc1 : ∀ (data : NodeData),
      d.size ≤ (d.alloc data).1.size ∧ (∀ x, x < d.size → (d.alloc data).1.parentOf x = d.parentOf x) ∧
      (∀ x, d.size ≤ x → (d.alloc data).1.parentOf x = none) := by
    intro data
    refine ⟨by simp, fun x _ => parentOf_alloc d data x, fun x hx => ?_⟩
    rw [parentOf_alloc]; exact parentOf_none_of_ge hx
  unfold Dom.apply Dom.cloneVariant Dom.beforeSiblingVariant at h
  cases op <;> simp only [nonTree] at hnt <;> try (cases hnt)
  · simp [Dom.applyV] at h; rw [← h.1]; exact same rfl
  · simp [Dom.applyV] at h; rw [← h.1]; exact same rfl
  · rename_i t
    simp only [Dom.applyV, bind, Except.bind] at h
    cases he : d.elemName t with
    | error e => simp [he] at h
    | ok r => simp [he] at h; rw [← h.1]; exact same rfl
  · rename_i name attrs flags
    simp [Dom.applyV] at h; rw [← h.1]
    unfold Dom.createElement
    split
    · have a1 := alloc1 .document
      have hs1 : (d.alloc NodeData.document).1.size = d.size + 1 := by simp
      refine ⟨by simp; omega, fun x hx => ?_, fun x hx => ?_⟩
      · rw [parentOf_alloc, parentOf_alloc]
      · rw [parentOf_alloc, parentOf_alloc]; exact parentOf_none_of_ge hx
    · exact alloc1 _
  · simp [Dom.applyV, Dom.createComment] at h; rw [← h.1]; exact alloc1 _
  · simp [Dom.applyV, Dom.createPi] at h; rw [← h.1]; exact alloc1 _
  · simp [Dom.applyV] at h; rw [← h.1]; exact same rfl
  · simp [Dom.applyV] at h; rw [← h.1]; exact same rfl
  · rename_i t
    simp only [Dom.applyV, bind, Except.bind] at h
    cases he : d.getTemplateContents t with
    | error e => simp [he] at h
    | ok r => simp [he] at h; rw [← h.1]; exact same rfl
  · simp [Dom.applyV] at h; rw [← h.1]; exact same rfl
  · simp [Dom.applyV] at h; rw [← h.1]; exact same rfl
  · rename_i t a
    simp only [Dom.applyV, bind, Except.bind] at h
    cases he : d.addAttrsIfMissing t a with
    | error e => simp [he] at h
    | ok r =>
      simp [he] at h; rw [← h.1]
      obtain ⟨name, existing, tc, ip, _, hsh, _, hs⟩ := addAttrsIfMissing_ok he
      refine ⟨Nat.le_of_eq hs.symm, fun x _ => hsh.parent x, fun x hx => ?_⟩
      exact parentOf_none_of_ge (by rw [hs]; exact hx)
  · simp [Dom.applyV] at h; rw [← h.1]; exact same rfl
  · rename_i t
    simp only [Dom.applyV, bind, Except.bind] at h
    cases he : d.isMathmlAnnotationXmlIntegrationPoint t with
    | error e => simp [he] at h
    | ok r => simp [he] at h; rw [← h.1]; exact same rfl
  · simp [Dom.applyV] at h; rw [← h.1]; exact same rfl
  · simp [Dom.applyV] at h; rw [← h.1]; exact same rfl
  · simp [Dom.applyV] at h; rw [← h.1]; exact same rfl

/-- handles and modes survive a change of the sink only -/
theorem CB.of_dom {s : State} (h : CB d0 s) {d' : Dom} {t : List (SinkOp × Output)}
    (hd : DomI d0 { s with dom := d', traceRev := t }) (he : Ext s.dom d') (hk : KExt s.dom d') :
    CB d0 { s with dom := d', traceRev := t } where
  d := hd
  h := ⟨h.h.docH, isDoc_kext hk h.h.doc0, fun x hx => (h.h.open_el x hx).ext he,
    fun x hx => (h.h.open_tc x hx).ext he hk (h.h.open_el x hx),
    fun x t hx => by
      obtain ⟨h1, h2, h3, h4⟩ := h.h.af x t hx
      exact ⟨h1.ext he, by rw [nm_ext he h1]; exact h2, h3, h4⟩,
    fun x hx => (h.h.head x hx).ext he, fun x hx => (h.h.form x hx).ext he,
    fun x hx => (h.h.ctx x hx).ext he,
    fun x hx => (h.h.headTc x hx).ext he hk (h.h.head x hx)⟩
  l := ⟨h.l.mode, h.l.orig, h.l.tm⟩

theorem GrowRel.of_nonTree {s : State} {op : SinkOp} {d' : Dom} {out : Output} (hnt : nonTree op = true)
    (ha : s.dom.apply op = .ok (d', out)) :
    GrowRel s { s with dom := d', traceRev := (op, out) :: s.traceRev } := by
  obtain ⟨h1, h2, h3⟩ := parents_of_nonTree hnt ha
  refine ⟨apply_ext ha, apply_kext ha, h1, h2, fun x p hx hp => ?_, ⟨s.openElems, [], by simp, List.Sublist.refl _, by simp, List.Pairwise.nil⟩⟩
  have : ({ s with dom := d', traceRev := (op, out) :: s.traceRev } : State).dom.parentOf x = none := h3 x hx
  rw [this] at hp; cases hp

/-- **a sink call that does not touch the tree, inside the contract** -/
theorem satc_sink_nt {op : SinkOp} {s : State} (hcb : CB d0 s) (hnt : nonTree op = true)
    (hc : Contract s.dom op) :
    SatC (sink op) s (fun out s' => CB d0 s' ∧ GrowRel s s' ∧ s.dom.apply op = .ok (s'.dom, out)) := by
  refine satc_sink hcb.d hc ?_
  intro d' out ha hd
  exact ⟨hcb.of_dom hd (apply_ext ha) (apply_kext ha), GrowRel.of_nonTree hnt ha, ha⟩

theorem isElement_of_isEl {d : Dom} {h : Id} (hi : IsEl d h) : d.isElement h = true := by
  obtain ⟨x, hx⟩ := hi
  unfold sigOf at hx
  unfold Dom.isElement
  cases hd : d.dataOf h with
  | none => rw [hd] at hx; cases hx
  | some v =>
    rw [hd] at hx
    cases v <;> simp [TBSafe.sigData] at hx ⊢

theorem lt_of_isEl {d : Dom} {h : Id} (hi : IsEl d h) : h < d.size := by
  obtain ⟨x, hx⟩ := hi; exact sigOf_lt hx

/-- a tree-neutral sink call whose contract follows from the context, result ignored -/
theorem cp_sinkUnit_nt {c : List Id} {op : SinkOp} (hnt : nonTree op = true)
    (hc : ∀ s, CB d0 s → CtxOk c s → Contract s.dom op) : CP d0 c (sinkUnit op) (fun _ => []) := by
  intro s hcb hctx
  unfold sinkUnit
  refine (satc_sink_nt hcb hnt (hc s hcb hctx)).bind ?_
  rintro out s' ⟨h1, h2, _⟩
  exact satc_pure ⟨h1, h2, CtxOk.nil _⟩

theorem cp_sink_nt {c : List Id} {op : SinkOp} (hnt : nonTree op = true)
    (hc : ∀ s, CB d0 s → CtxOk c s → Contract s.dom op) : CP d0 c (sink op) (fun _ => []) := by
  intro s hcb hctx
  refine (satc_sink_nt hcb hnt (hc s hcb hctx)).mono ?_
  rintro out s' ⟨h1, h2, _⟩
  exact ⟨h1, h2, CtxOk.nil _⟩

/-! ### leaves: state updates -/

/-- an update of builder fields only -/
theorem cp_modS {c : List Id} {f : State → State}
    (h : ∀ s, CB d0 s → CtxOk c s → CB d0 (f s) ∧ GrowRel s (f s)) : CP d0 c (modS f) (fun _ => []) :=
  fun s hcb hc => satc_modS ⟨(h s hcb hc).1, (h s hcb hc).2, CtxOk.nil _⟩

theorem GrowRel.of_sublist {s s' : State} (hd : s'.dom = s.dom) (hs : s'.openElems.Sublist s.openElems) :
    GrowRel s s' := by
  refine ⟨by rw [hd]; exact Ext.refl _, by rw [hd]; exact KExt.refl _, by rw [hd]; exact Nat.le_refl _,
    fun x _ => by rw [hd], fun x p hx hp => ?_, ⟨s'.openElems, [], by simp, hs, by simp, List.Pairwise.nil⟩⟩
  rw [hd, H5V.Lemmas.Dom.parentOf_none_of_ge hx] at hp; cases hp

/-- a builder-field update that keeps the sink, shrinks the stack and the list of active formatting
elements, keeps or clears the pointers, and keeps the modes late -/
theorem CB.of_shrink {s s' : State} (h : CB d0 s) (hd : s'.dom = s.dom) (ht : s'.traceRev = s.traceRev)
    (hdoc : s'.docHandle = s.docHandle)
    (ho : ∀ x ∈ s'.openElems, x ∈ s.openElems)
    (ha : ∀ e ∈ s'.activeFormatting, e ∈ s.activeFormatting)
    (hh : ∀ x, s'.headElem = some x → s.headElem = some x)
    (hf : ∀ x, s'.formElem = some x → s.formElem = some x)
    (hc : ∀ x, s'.contextElem = some x → s.contextElem = some x)
    (hl : LateS s') : CB d0 s' where
  d := ⟨by rw [hd]; exact h.d.inv, by rw [hd, ht]; exact h.d.run⟩
  h := ⟨hdoc.trans h.h.docH, by rw [hd]; exact h.h.doc0, fun x hx => by rw [hd]; exact h.h.open_el x (ho x hx),
    fun x hx => by rw [hd]; exact h.h.open_tc x (ho x hx),
    fun x t hx => by rw [hd]; exact h.h.af x t (ha _ hx),
    fun x hx => by rw [hd]; exact h.h.head x (hh x hx), fun x hx => by rw [hd]; exact h.h.form x (hf x hx),
    fun x hx => by rw [hd]; exact h.h.ctx x (hc x hx), fun x hx => by rw [hd]; exact h.h.headTc x (hh x hx)⟩
  l := hl

/-! ### the walker -/

/-- membership goals about contexts -/
syntax "ctx_mem" : tactic
macro_rules
  | `(tactic| ctx_mem) => `(tactic|
    first
      | assumption
      | (simp only [stH, List.mem_append, List.mem_cons, List.mem_singleton, List.not_mem_nil, List.nil_append,
          List.append_nil, Option.mem_toList, or_false, false_or, true_or, or_true]; done)
      | (simp [stH, *]; done))

/-- leaves of the walk (extended by `macro_rules` as lemmas become available) -/
syntax "cp_leaf" : tactic
macro_rules
  | `(tactic| cp_leaf) => `(tactic|
    first
      | with_reducible exact cp_pure_nil _
      | exact cp_panicAt
      | exact cp_fuelOut
      | with_reducible exact cp_pure _ (by intro x hx; first | (cases hx; done) | (simp only [List.mem_singleton, List.mem_cons, List.not_mem_nil, or_false] at hx; subst hx; ctx_mem)))

syntax "cp_step" : tactic
macro_rules
  | `(tactic| cp_step) => `(tactic|
    first
      | cp_leaf
      | with_reducible apply cp_getS_bind
      | with_reducible apply cp_bind
      | with_reducible apply cp_ite
      | with_reducible intro _
      | dsimp only)

syntax "cp_walk" : tactic
macro_rules
  | `(tactic| cp_walk) => `(tactic| repeat' cp_step)

end H5V.Lemmas.TBC
