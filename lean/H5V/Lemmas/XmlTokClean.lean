import H5V.Lemmas.XmlTokOptE
/-!
C15, "no raw CR / NUL reaches the sink" — definitions, the `go!` helpers and the three transition
tables of the XML tokenizer model.

`QC c` ("preprocessed character"): `c` is neither U+000D nor U+0000 — what `get_preprocessed_char`
delivers and what a raw `NotFromSet` run may contain (every `small_char_set!` contains both).

`CleanP P m`: every buffer of the machine that is filled from input characters (tag name, attribute
names, comment, PI target / data, doctype name / ids) and every such part of an emitted token
consists of `QC` characters; the two places a *character reference* can deliver into — attribute
values and character tokens — consist of `P` characters.  `P` is a parameter with `QC c → P c`
(`Allow P`): `P = QC` is "completely clean", `P = NN` ("not NUL") is what holds for all inputs
(`&#13;` legitimately produces a CR, nothing produces a NUL).

`temp_buf` is not tracked: it holds raw look-ahead that is pushed back to the input, never to a token.
Parse-error tokens are diagnostics, not document content, and are not constrained.
-/
namespace H5V.Model.XmlTok

/-- neither CR nor NUL -/
def QC (c : Char) : Prop := c ≠ '\r' ∧ c ≠ '\x00'
instance (c : Char) : Decidable (QC c) := by unfold QC; infer_instance

/-- not NUL -/
def NN (c : Char) : Prop := c ≠ '\x00'
instance (c : Char) : Decidable (NN c) := by unfold NN; infer_instance

/-- admissible predicates for the places a character reference delivers into -/
class Allow (P : Char → Prop) : Prop where
  of_qc : ∀ c, QC c → P c
  fffd : P '�'

instance : Allow QC := ⟨fun _ h => h, by decide⟩
instance : Allow NN := ⟨fun _ h => h.2, by decide⟩

/-- all characters of a string satisfy `P` -/
def AllS (P : Char → Prop) (s : Str) : Prop := ∀ c ∈ s, P c
instance (P : Char → Prop) [DecidablePred P] (s : Str) : Decidable (AllS P s) := by
  unfold AllS; infer_instance

theorem AllS_nil (P : Char → Prop) : AllS P [] := fun _ h => nomatch h
theorem AllS_single {P : Char → Prop} {c : Char} (h : P c) : AllS P [c] := by
  intro x hx; simp only [List.mem_singleton] at hx; subst hx; exact h
theorem AllS_append {P : Char → Prop} {s t : Str} (hs : AllS P s) (ht : AllS P t) : AllS P (s ++ t) := by
  intro x hx; rcases List.mem_append.1 hx with h | h
  · exact hs x h
  · exact ht x h
theorem AllS_snoc {P : Char → Prop} {s : Str} {c : Char} (hs : AllS P s) (hc : P c) : AllS P (s ++ [c]) :=
  AllS_append hs (AllS_single hc)
theorem AllS_cons {P : Char → Prop} {s : Str} {c : Char} (hc : P c) (hs : AllS P s) : AllS P (c :: s) := by
  intro x hx; rcases List.mem_cons.1 hx with h | h
  · subst h; exact hc
  · exact hs x h
theorem AllS_mono {P Q : Char → Prop} (hpq : ∀ c, P c → Q c) {s : Str} (hs : AllS P s) : AllS Q s :=
  fun c hc => hpq c (hs c hc)
theorem AllS_allow {P : Char → Prop} [Allow P] {s : Str} (hs : AllS QC s) : AllS P s :=
  AllS_mono Allow.of_qc hs
theorem AllS_take {P : Char → Prop} {s : Str} (hs : AllS P s) (n : Nat) : AllS P (s.take n) :=
  fun c hc => hs c (List.mem_of_mem_take hc)
theorem AllS_drop {P : Char → Prop} {s : Str} (hs : AllS P s) (n : Nat) : AllS P (s.drop n) :=
  fun c hc => hs c (List.mem_of_mem_drop hc)

/-- an optional string of `QC` characters -/
def OptS (o : Option Str) : Prop := ∀ s, o = some s → AllS QC s

theorem OptS_none : OptS none := fun _ h => nomatch h
theorem OptS_some {s : Str} (h : AllS QC s) : OptS (some s) := by
  intro t ht; cases ht; exact h

def QName.Clean (q : QName) : Prop := OptS q.pfx ∧ AllS QC q.loc
def Attr.Clean (P : Char → Prop) (a : Attr) : Prop := a.name.Clean ∧ AllS P a.value
def Tag.Clean (P : Char → Prop) (t : Tag) : Prop := t.name.Clean ∧ ∀ a ∈ t.attrs, a.Clean P
def Doctype.Clean (d : Doctype) : Prop := OptS d.name ∧ OptS d.publicId ∧ OptS d.systemId

/-- what a delivered token may contain (`P` in attribute values and character tokens, `QC` elsewhere;
parse errors are diagnostics and unconstrained) -/
def Token.Clean (P : Char → Prop) : Token → Prop
  | .doctype d => d.Clean
  | .tag t => t.Clean P
  | .pi t d => AllS QC t ∧ AllS QC d
  | .comment s => AllS QC s
  | .chars s => AllS P s
  | .eof => True
  | .error _ => True

/-- the token log -/
def OutClean (P : Char → Prop) (out : Out) : Prop := ∀ t ∈ out, t.Clean P

structure CleanP (P : Char → Prop) (m : Mach) : Prop where
  tagName : AllS QC m.tagName
  tagAttrs : ∀ a ∈ m.tagAttrs, a.Clean P
  attrName : AllS QC m.attrName
  attrValue : AllS P m.attrValue
  comment : AllS QC m.comment
  doctype : m.doctype.Clean
  piTarget : AllS QC m.piTarget
  piData : AllS QC m.piData
  out : OutClean P m.out

theorem char_le_iff (a b : Char) : a ≤ b ↔ a.toNat ≤ b.toNat := by
  rw [Char.le_def, UInt32.le_iff_toNat_le]; rfl

theorem toNat_ofNat_valid (k : Nat) (h : k.isValidChar) : (Char.ofNat k).toNat = k := by
  simp [Char.ofNat, h, Char.toNat, Char.ofNatAux]

theorem QC_lower {c : Char} (h : QC c) : QC (toAsciiLower c) := by
  unfold toAsciiLower
  split
  · rename_i h1
    simp only [char_le_iff, Char.reduceToNat] at h1
    have hv : (c.toNat + 32).isValidChar := by
      left; omega
    have e := toNat_ofNat_valid _ hv
    constructor
    · intro e2; rw [e2] at e; simp only [Char.reduceToNat] at e; omega
    · intro e2; rw [e2] at e; simp only [Char.reduceToNat] at e; omega
  · exact h

theorem processQName_clean {name : Str} (h : AllS QC name) : (processQName name).Clean := by
  unfold processQName
  dsimp only
  split
  · exact ⟨OptS_none, h⟩
  · exact ⟨OptS_some (AllS_take h _), AllS_drop h _⟩

/-! ### one lemma per `go!` shorthand -/

section helpers
variable {P : Char → Prop} {m : Mach}

/-- helpers that do not touch a tracked field -/
macro "cl_same" h:ident : tactic =>
  `(tactic| exact ⟨($h).tagName, ($h).tagAttrs, ($h).attrName, ($h).attrValue, ($h).comment, ($h).doctype,
      ($h).piTarget, ($h).piData, ($h).out⟩)

theorem CleanP_to (h : CleanP P m) (s : State) : CleanP P (to s m) := by cl_same h
theorem CleanP_reconsumeTo (h : CleanP P m) (s : State) : CleanP P (reconsumeTo s m) := by cl_same h
theorem CleanP_setEmptyTag (h : CleanP P m) : CleanP P (setEmptyTag m) := by cl_same h
theorem CleanP_consumeCharRef (h : CleanP P m) (x : Option Char) : CleanP P (consumeCharRef x m) := by cl_same h
theorem CleanP_setIgnoreLf (h : CleanP P m) (x : Bool) : CleanP P (m.setIgnoreLf x) := by cl_same h
theorem CleanP_setReconsume (h : CleanP P m) (x : Bool) : CleanP P (m.setReconsume x) := by cl_same h
theorem CleanP_setTempBuf (h : CleanP P m) (x : Str) : CleanP P (m.setTempBuf x) := by cl_same h
theorem CleanP_setCharRef (h : CleanP P m) (x : Option CharRefSt) : CleanP P (m.setCharRef x) := by cl_same h
theorem CleanP_setAtEof (h : CleanP P m) (x : Bool) : CleanP P (m.setAtEof x) := by cl_same h
theorem CleanP_setDiscardBom (h : CleanP P m) (x : Bool) : CleanP P (m.setDiscardBom x) := by cl_same h
theorem CleanP_setCurrentChar (h : CleanP P m) (x : Char) : CleanP P (m.setCurrentChar x) := by cl_same h
theorem CleanP_setTagKind (h : CleanP P m) (k : TagKind) : CleanP P { m with tagKind := k } := by cl_same h

theorem OutClean_cons {t : Token} {out : Out} (ht : t.Clean P) (h : OutClean P out) : OutClean P (t :: out) := by
  intro x hx; rcases List.mem_cons.1 hx with e | e
  · subst e; exact ht
  · exact h x e

theorem CleanP_emit (h : CleanP P m) {t : Token} (ht : t.Clean P) : CleanP P (emit m t) :=
  ⟨h.tagName, h.tagAttrs, h.attrName, h.attrValue, h.comment, h.doctype, h.piTarget, h.piData,
    OutClean_cons ht h.out⟩
theorem CleanP_emitE (h : CleanP P m) (s : Str) : CleanP P (emit m (.error s)) := CleanP_emit h trivial
theorem CleanP_emitErr (h : CleanP P m) (s : String) : CleanP P (emitErr m s) := CleanP_emit h trivial
theorem CleanP_badChar (h : CleanP P m) (o : Opts) : CleanP P (badChar o m) := by
  unfold badChar; split
  · exact CleanP_emitE h _
  · exact CleanP_emitErr h _
theorem CleanP_badEof (h : CleanP P m) (o : Opts) : CleanP P (badEof o m) := by
  unfold badEof; split <;> exact CleanP_emitErr h _
theorem CleanP_nameErr (h : CleanP P m) (o : Opts) (nb : Str) : CleanP P (nameErr o m nb) := by
  unfold nameErr; split
  · exact CleanP_emitE h _
  · exact CleanP_emitErr h _

theorem P_nulfold [Allow P] {c : Char} (hc : P c) : P (if c = '\x00' then '�' else c) := by
  split
  · exact Allow.fffd
  · exact hc

/-- `emit_char` of any `P` character (NUL is replaced there as well) -/
theorem CleanP_emitChar' [Allow P] (h : CleanP P m) {c : Char} (hc : P c) : CleanP P (emitChar m c) :=
  CleanP_emit h (AllS_single (P_nulfold hc))
theorem CleanP_emitChar [Allow P] (h : CleanP P m) {c : Char} (hc : QC c) : CleanP P (emitChar m c) :=
  CleanP_emitChar' h (Allow.of_qc c hc)
theorem CleanP_emitChars [Allow P] (h : CleanP P m) {s : Str} (hs : AllS QC s) : CleanP P (emitChars m s) :=
  CleanP_emit h (AllS_allow hs : AllS P s)

theorem CleanP_discardTag (h : CleanP P m) : CleanP P (discardTag m) :=
  ⟨AllS_nil _, (fun _ hh => nomatch hh), h.attrName, h.attrValue, h.comment, h.doctype, h.piTarget, h.piData, h.out⟩
theorem CleanP_createTag (h : CleanP P m) (k : TagKind) {c : Char} (hc : QC c) : CleanP P (createTag k c m) :=
  ⟨AllS_snoc (AllS_nil _) hc, (fun _ hh => nomatch hh), h.attrName, h.attrValue, h.comment, h.doctype,
    h.piTarget, h.piData, h.out⟩
theorem CleanP_createPi (h : CleanP P m) {c : Char} (hc : QC c) : CleanP P (createPi c m) :=
  ⟨h.tagName, h.tagAttrs, h.attrName, h.attrValue, h.comment, h.doctype, AllS_single hc, AllS_nil _, h.out⟩
theorem CleanP_pushTag (h : CleanP P m) {c : Char} (hc : QC c) : CleanP P (pushTag c m) :=
  ⟨AllS_snoc h.tagName hc, h.tagAttrs, h.attrName, h.attrValue, h.comment, h.doctype, h.piTarget, h.piData, h.out⟩
theorem CleanP_pushPiTarget (h : CleanP P m) {c : Char} (hc : QC c) : CleanP P (pushPiTarget c m) :=
  ⟨h.tagName, h.tagAttrs, h.attrName, h.attrValue, h.comment, h.doctype, AllS_snoc h.piTarget hc, h.piData, h.out⟩
theorem CleanP_pushPiData (h : CleanP P m) {c : Char} (hc : QC c) : CleanP P (pushPiData c m) :=
  ⟨h.tagName, h.tagAttrs, h.attrName, h.attrValue, h.comment, h.doctype, h.piTarget, AllS_snoc h.piData hc, h.out⟩
theorem CleanP_pushName (h : CleanP P m) {c : Char} (hc : QC c) : CleanP P (pushName c m) :=
  ⟨h.tagName, h.tagAttrs, AllS_snoc h.attrName hc, h.attrValue, h.comment, h.doctype, h.piTarget, h.piData, h.out⟩
/-- `push_value` of any `P` character -/
theorem CleanP_pushValue' (h : CleanP P m) {c : Char} (hc : P c) : CleanP P (pushValue c m) :=
  ⟨h.tagName, h.tagAttrs, h.attrName, AllS_snoc h.attrValue hc, h.comment, h.doctype, h.piTarget, h.piData, h.out⟩
theorem CleanP_pushValue [Allow P] (h : CleanP P m) {c : Char} (hc : QC c) : CleanP P (pushValue c m) :=
  CleanP_pushValue' h (Allow.of_qc c hc)
theorem CleanP_appendValue [Allow P] (h : CleanP P m) {s : Str} (hs : AllS QC s) : CleanP P (appendValue s m) :=
  ⟨h.tagName, h.tagAttrs, h.attrName, AllS_append h.attrValue (AllS_allow hs), h.comment, h.doctype, h.piTarget,
    h.piData, h.out⟩
theorem CleanP_pushComment (h : CleanP P m) {c : Char} (hc : QC c) : CleanP P (pushComment c m) :=
  ⟨h.tagName, h.tagAttrs, h.attrName, h.attrValue, AllS_snoc h.comment hc, h.doctype, h.piTarget, h.piData, h.out⟩
theorem CleanP_appendComment (h : CleanP P m) {s : String} (hs : AllS QC s.toList) : CleanP P (appendComment s m) :=
  ⟨h.tagName, h.tagAttrs, h.attrName, h.attrValue, AllS_append h.comment hs, h.doctype, h.piTarget, h.piData, h.out⟩
theorem CleanP_clearComment (h : CleanP P m) : CleanP P (clearComment m) :=
  ⟨h.tagName, h.tagAttrs, h.attrName, h.attrValue, AllS_nil _, h.doctype, h.piTarget, h.piData, h.out⟩
theorem CleanP_emitComment (h : CleanP P m) : CleanP P (emitComment m) :=
  ⟨h.tagName, h.tagAttrs, h.attrName, h.attrValue, AllS_nil _, h.doctype, h.piTarget, h.piData,
    OutClean_cons (t := .comment m.comment) h.comment h.out⟩

theorem Doctype_clean_empty : ({} : Doctype).Clean := ⟨OptS_none, OptS_none, OptS_none⟩
theorem OptS_optPush {o : Option Str} (h : OptS o) {c : Char} (hc : QC c) : OptS (optPush o c) := by
  unfold optPush
  cases o with
  | none => exact OptS_some (AllS_single hc)
  | some s => exact OptS_some (AllS_snoc (h s rfl) hc)

theorem CleanP_createDoctype (h : CleanP P m) : CleanP P (createDoctype m) :=
  ⟨h.tagName, h.tagAttrs, h.attrName, h.attrValue, h.comment, Doctype_clean_empty, h.piTarget, h.piData, h.out⟩
theorem CleanP_pushDoctypeName (h : CleanP P m) {c : Char} (hc : QC c) : CleanP P (pushDoctypeName c m) :=
  ⟨h.tagName, h.tagAttrs, h.attrName, h.attrValue, h.comment,
    ⟨OptS_optPush h.doctype.1 hc, h.doctype.2.1, h.doctype.2.2⟩, h.piTarget, h.piData, h.out⟩
theorem CleanP_pushDoctypeId (h : CleanP P m) (k : DoctypeKind) {c : Char} (hc : QC c) :
    CleanP P (pushDoctypeId k c m) := by
  cases k
  · exact ⟨h.tagName, h.tagAttrs, h.attrName, h.attrValue, h.comment,
      ⟨h.doctype.1, OptS_optPush h.doctype.2.1 hc, h.doctype.2.2⟩, h.piTarget, h.piData, h.out⟩
  · exact ⟨h.tagName, h.tagAttrs, h.attrName, h.attrValue, h.comment,
      ⟨h.doctype.1, h.doctype.2.1, OptS_optPush h.doctype.2.2 hc⟩, h.piTarget, h.piData, h.out⟩
theorem CleanP_clearDoctypeId (h : CleanP P m) (k : DoctypeKind) : CleanP P (clearDoctypeId k m) := by
  cases k
  · exact ⟨h.tagName, h.tagAttrs, h.attrName, h.attrValue, h.comment,
      ⟨h.doctype.1, OptS_some (AllS_nil _), h.doctype.2.2⟩, h.piTarget, h.piData, h.out⟩
  · exact ⟨h.tagName, h.tagAttrs, h.attrName, h.attrValue, h.comment,
      ⟨h.doctype.1, h.doctype.2.1, OptS_some (AllS_nil _)⟩, h.piTarget, h.piData, h.out⟩
theorem CleanP_emitDoctype (h : CleanP P m) : CleanP P (emitDoctype m) :=
  ⟨h.tagName, h.tagAttrs, h.attrName, h.attrValue, h.comment, Doctype_clean_empty, h.piTarget, h.piData,
    OutClean_cons (t := .doctype m.doctype) h.doctype h.out⟩
theorem CleanP_emitPi (h : CleanP P m) : CleanP P (emitPi m) :=
  ⟨h.tagName, h.tagAttrs, h.attrName, h.attrValue, h.comment, h.doctype, AllS_nil _, AllS_nil _,
    OutClean_cons (t := .pi m.piTarget m.piData) ⟨h.piTarget, h.piData⟩ h.out⟩

theorem CleanP_finishAttribute (h : CleanP P m) : CleanP P (finishAttribute m) := by
  unfold finishAttribute
  dsimp only
  have ha : (⟨processQName m.attrName, m.attrValue⟩ : Attr).Clean P :=
    ⟨processQName_clean h.attrName, h.attrValue⟩
  repeat' split
  · exact h
  · exact ⟨h.tagName, h.tagAttrs, AllS_nil _, AllS_nil _, h.comment, h.doctype, h.piTarget, h.piData,
      OutClean_cons (t := .error _) trivial h.out⟩
  · refine ⟨h.tagName, ?_, AllS_nil _, AllS_nil _, h.comment, h.doctype, h.piTarget, h.piData, h.out⟩
    intro a hm
    rcases List.mem_cons.1 hm with e | e
    · subst e; exact ha
    · exact h.tagAttrs a e
  · refine ⟨h.tagName, ?_, AllS_nil _, AllS_nil _, h.comment, h.doctype, h.piTarget, h.piData, h.out⟩
    intro a hm
    rcases List.mem_append.1 hm with e | e
    · exact h.tagAttrs a e
    · simp only [List.mem_singleton] at e; subst e; exact ha

theorem CleanP_createAttr (h : CleanP P m) {c : Char} (hc : QC c) : CleanP P (createAttr c m) := by
  have h1 := CleanP_finishAttribute h
  unfold createAttr
  dsimp only
  generalize finishAttribute m = x at h1
  exact ⟨h1.tagName, h1.tagAttrs, AllS_snoc h1.attrName hc, h1.attrValue, h1.comment, h1.doctype, h1.piTarget,
    h1.piData, h1.out⟩

theorem CleanP_emitCurrentTag (h : CleanP P m) : CleanP P (emitCurrentTag m) := by
  have h1 := CleanP_finishAttribute h
  unfold emitCurrentTag
  dsimp only
  generalize finishAttribute m = x at h1
  have hq := processQName_clean h1.tagName
  have ht : ∀ k, (Token.tag { kind := k, name := processQName x.tagName, attrs := x.tagAttrs }).Clean P :=
    fun _ => ⟨hq, h1.tagAttrs⟩
  repeat' split
  all_goals
    first
    | exact ⟨AllS_nil _, (fun _ hh => nomatch hh), h1.attrName, h1.attrValue, h1.comment, h1.doctype, h1.piTarget,
        h1.piData, OutClean_cons (ht _) h1.out⟩
    | exact ⟨AllS_nil _, (fun _ hh => nomatch hh), h1.attrName, h1.attrValue, h1.comment, h1.doctype, h1.piTarget,
        h1.piData, OutClean_cons (ht _) (OutClean_cons (t := .error _) trivial h1.out)⟩

theorem CleanP_emitTag (h : CleanP P m) (s : State) : CleanP P (emitTag s m) := by
  unfold emitTag; exact CleanP_emitCurrentTag (CleanP_to h s)
theorem CleanP_emitShortTag (h : CleanP P m) (s : State) : CleanP P (emitShortTag s m) := by
  unfold emitShortTag; dsimp only; apply CleanP_emitCurrentTag
  exact ⟨AllS_nil _, h.tagAttrs, h.attrName, h.attrValue, h.comment, h.doctype, h.piTarget, h.piData, h.out⟩
theorem CleanP_emitEmptyTag (h : CleanP P m) (s : State) : CleanP P (emitEmptyTag s m) := by
  unfold emitEmptyTag; dsimp only; apply CleanP_emitCurrentTag; cl_same h
theorem CleanP_emitStartTag (h : CleanP P m) (s : State) : CleanP P (emitStartTag s m) := by
  unfold emitStartTag; dsimp only; apply CleanP_emitCurrentTag; cl_same h

end helpers

/-- close a table arm by chaining the helper lemmas; side conditions are `QC` of the character read,
of its lower-case form, or of a literal -/
macro "cl_chain" : tactic =>
  `(tactic| (repeat' (first
      | assumption
      | with_reducible apply CleanP_emitTag | with_reducible apply CleanP_emitShortTag
      | with_reducible apply CleanP_emitEmptyTag | with_reducible apply CleanP_emitStartTag
      | with_reducible apply CleanP_to | with_reducible apply CleanP_reconsumeTo
      | with_reducible apply CleanP_createTag | with_reducible apply CleanP_createPi
      | with_reducible apply CleanP_pushTag | with_reducible apply CleanP_pushPiTarget
      | with_reducible apply CleanP_pushPiData | with_reducible apply CleanP_setEmptyTag
      | with_reducible apply CleanP_createAttr | with_reducible apply CleanP_pushName
      | with_reducible apply CleanP_pushValue | with_reducible apply CleanP_appendValue
      | with_reducible apply CleanP_pushComment | with_reducible apply CleanP_appendComment
      | with_reducible apply CleanP_clearComment | with_reducible apply CleanP_createDoctype
      | with_reducible apply CleanP_pushDoctypeName | with_reducible apply CleanP_pushDoctypeId
      | with_reducible apply CleanP_clearDoctypeId | with_reducible apply CleanP_consumeCharRef
      | with_reducible apply CleanP_emitChar | with_reducible apply CleanP_emitChars
      | with_reducible apply CleanP_badChar | with_reducible apply CleanP_badEof
      | with_reducible apply CleanP_emitErr
      | with_reducible apply CleanP_emitComment | with_reducible apply CleanP_emitDoctype
      | with_reducible apply CleanP_emitPi
      | with_reducible apply CleanP_emit
      | with_reducible apply QC_lower
      | exact trivial
      | decide)))

/-! ### the transition tables -/

/-- what `pop_except_from` hands to the table -/
def SetRes.Clean : SetRes → Prop
  | .fromSet c => QC c
  | .notFromSet b => AllS QC b

/-- the `get_char!` table: fed a preprocessed character it keeps the machine clean -/
theorem transChar_clean {P : Char → Prop} [Allow P] (o : Opts) {m : Mach} (h : CleanP P m) {c : Char}
    (hc : QC c) : CleanP P (transChar o m c).1 := by
  unfold transChar
  split <;> (repeat' split) <;> (try dsimp only) <;> cl_chain

/-- the `pop_except_from` table -/
theorem transSet_clean {P : Char → Prop} [Allow P] {m : Mach} (h : CleanP P m) {r : SetRes}
    (hr : r.Clean) : CleanP P (transSet m r).1 := by
  cases r with
  | fromSet c =>
    have hc : QC c := hr
    unfold transSet
    split <;> (repeat' split) <;> (try dsimp only) <;> (try injections) <;>
      (try subst_vars) <;> cl_chain
  | notFromSet b =>
    have hb : AllS QC b := hr
    unfold transSet
    split <;> (repeat' split) <;> (try dsimp only) <;> (try injections) <;>
      (try subst_vars) <;> cl_chain

/-- the `eof_step` table -/
theorem transEof_clean {P : Char → Prop} [Allow P] (o : Opts) {m : Mach} (h : CleanP P m) :
    CleanP P (transEof o m).1 := by
  unfold transEof
  split <;> (try dsimp only) <;> cl_chain

end H5V.Model.XmlTok
