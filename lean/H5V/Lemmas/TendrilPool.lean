import H5V.Lemmas.TendrilOps
/-!
From one tendril with an arbitrary `rest` to the pool machine: focusing on a slot, the abstract
pool, `store`, and the byte-list specification `Spec.step` of every operation.
-/
namespace H5V.Lemmas.Tendril
open H5V.Model.Tendril

/-- the live tendril values of a pool -/
def liveTs : List (Option T) → List T
  | [] => []
  | none :: r => liveTs r
  | some t :: r => t :: liveTs r

/-- the live tendrils of all slots but `i` -/
def others (pool : List (Option T)) (i : Nat) : List T := liveTs (pool.eraseIdx i)

def StWF (st : St) : Prop := WF st.heap (liveTs st.pool)

/-- the abstract pool: what each slot denotes -/
def absPool (st : St) : List (Option (List UInt8)) := st.pool.map (Option.map (abs st.heap))

theorem mem_liveTs {pool : List (Option T)} {u : T} : u ∈ liveTs pool ↔ ∃ j : Nat, pool[j]? = some (some u) := by
  induction pool with
  | nil => simp [liveTs]
  | cons x r ih =>
    cases x with
    | none =>
      simp only [liveTs, ih]
      constructor
      · rintro ⟨j, hj⟩; exact ⟨j + 1, by simpa using hj⟩
      · rintro ⟨j, hj⟩
        cases j with
        | zero => simp at hj
        | succ j => exact ⟨j, by simpa using hj⟩
    | some t =>
      simp only [liveTs, List.mem_cons, ih]
      constructor
      · rintro (rfl | ⟨j, hj⟩)
        · exact ⟨0, by simp⟩
        · exact ⟨j + 1, by simpa using hj⟩
      · rintro ⟨j, hj⟩
        cases j with
        | zero => left; simpa using hj.symm
        | succ j => right; exact ⟨j, by simpa using hj⟩

theorem focus {pool : List (Option T)} {i : Nat} {t : T} (h : pool[i]? = some (some t)) :
    (liveTs pool).Perm (t :: others pool i) := by
  induction pool generalizing i with
  | nil => simp at h
  | cons x r ih =>
    cases i with
    | zero =>
      simp at h; subst h
      simp [liveTs, others]
    | succ k =>
      simp at h
      have := ih h
      cases x with
      | none => simpa [liveTs, others] using this
      | some y =>
        simp only [liveTs, others, List.eraseIdx_cons_succ]
        exact (List.Perm.cons y this).trans (List.Perm.swap ..)

theorem focus_none {pool : List (Option T)} {i : Nat} (h : pool[i]? = some none) :
    liveTs pool = others pool i := by
  induction pool generalizing i with
  | nil => simp at h
  | cons x r ih =>
    cases i with
    | zero => simp at h; subst h; simp [liveTs, others]
    | succ k =>
      simp at h
      have := ih h
      cases x with
      | none => simpa [liveTs, others] using this
      | some y => simp only [liveTs, others, List.eraseIdx_cons_succ]; rw [this]; rfl

theorem others_set {pool : List (Option T)} {i : Nat} (x : Option T) :
    others (pool.set i x) i = others pool i := by
  simp only [others]
  congr 1
  induction pool generalizing i with
  | nil => simp
  | cons y r ih =>
    cases i with
    | zero => simp
    | succ k => simp [ih]

theorem liveTs_set_some {pool : List (Option T)} {i : Nat} (t : T) (hi : i < pool.length) :
    (liveTs (pool.set i (some t))).Perm (t :: others pool i) := by
  have : (pool.set i (some t))[i]? = some (some t) := by simp [hi]
  have := focus this
  rwa [others_set] at this

theorem liveTs_set_none {pool : List (Option T)} {i : Nat} (hi : i < pool.length) :
    liveTs (pool.set i none) = others pool i := by
  have : (pool.set i (none : Option T))[i]? = some none := by simp [hi]
  have := focus_none this
  rwa [others_set] at this

theorem others_mem {pool : List (Option T)} {i j : Nat} {u : T} (hj : j ≠ i)
    (h : pool[j]? = some (some u)) : u ∈ others pool i := by
  simp only [others, mem_liveTs]
  by_cases hlt : j < i
  · exact ⟨j, by rw [List.getElem?_eraseIdx_of_lt hlt]; exact h⟩
  · have : i < j := by omega
    refine ⟨j - 1, ?_⟩
    rw [List.getElem?_eraseIdx_of_ge (by omega)]
    have : j - 1 + 1 = j := by omega
    rw [this]; exact h

theorem absPool_getElem? (st : St) (i : Nat) :
    (absPool st)[i]? = (st.pool[i]?).map (Option.map (abs st.heap)) := by
  simp [absPool]

theorem absPool_length (st : St) : (absPool st).length = st.pool.length := by simp [absPool]

/-- the abstract pool after replacing slot `i`, when all other tendrils keep their meaning -/
theorem absPool_set {st : St} {i : Nat} {h' : Heap} (x : Option T)
    (hfr : ∀ u ∈ others st.pool i, abs h' u = abs st.heap u) :
    absPool ⟨h', st.pool.set i x⟩ = (absPool st).set i (x.map (abs h')) := by
  apply List.ext_getElem?
  intro j
  by_cases hj : j = i
  · subst hj
    by_cases hlt : j < st.pool.length
    · simp [absPool, hlt]
    · simp [absPool, hlt]
  · rw [List.getElem?_set_ne (Ne.symm hj)]
    simp only [absPool, List.getElem?_map, List.getElem?_set_ne (Ne.symm hj)]
    cases hp : st.pool[j]? with
    | none => rfl
    | some o =>
      cases o with
      | none => rfl
      | some u => simp [hfr u (others_mem hj hp)]

/-- same heap meaning for all slots -/
theorem absPool_heap {st : St} {h' : Heap} (hfr : ∀ u ∈ liveTs st.pool, abs h' u = abs st.heap u) :
    absPool ⟨h', st.pool⟩ = absPool st := by
  apply List.ext_getElem?
  intro j
  simp only [absPool, List.getElem?_map]
  cases hp : st.pool[j]? with
  | none => rfl
  | some o =>
    cases o with
    | none => rfl
    | some u => simp [hfr u (mem_liveTs.mpr ⟨j, hp⟩)]

/-- the workhorse: an operation turned the tendril of slot `i` into `t'` -/
theorem slot_update {st : St} {i : Nat} {t t' : T} {h' : Heap} (hi : st.pool[i]? = some (some t))
    (w' : WF h' (t' :: others st.pool i)) (hfr : ∀ u ∈ others st.pool i, abs h' u = abs st.heap u) :
    StWF ⟨h', st.pool.set i (some t')⟩ ∧
      absPool ⟨h', st.pool.set i (some t')⟩ = (absPool st).set i (some (abs h' t')) := by
  have hlt : i < st.pool.length := (List.getElem?_eq_some_iff.mp hi).1
  exact ⟨w'.perm (liveTs_set_some t' hlt).symm, absPool_set (some t') hfr⟩

/-- `pool[j] = Some(s)` for a value `s` that exists next to the pool -/
theorem store_spec {st : St} {j : Nat} {s : T} (hj : j < st.pool.length)
    (w : WF st.heap (s :: liveTs st.pool)) :
    SatT (store st j s) (fun st' => StWF st' ∧
      absPool st' = (absPool st).set j (some (abs st.heap s))) := by
  unfold store
  cases hp : st.pool[j]? with
  | none =>
    have := List.getElem?_eq_none_iff.mp hp
    omega
  | some o =>
    cases o with
    | none =>
      simp only []
      refine SatT.ok ⟨?_, ?_⟩
      · apply WF.perm _ w
        rw [focus_none hp]
        exact (liveTs_set_some s hj).symm
      · exact absPool_set (some s) (fun _ _ => rfl)
    | some old =>
      simp only []
      have w1 : WF st.heap (old :: s :: others st.pool j) :=
        w.perm ((List.Perm.cons s (focus hp)).trans (List.Perm.swap ..))
      apply (dropT_spec w1).bind
      rintro h1 ⟨w2, hab⟩
      refine SatT.ok ⟨w2.perm (liveTs_set_some s hj).symm, ?_⟩
      rw [absPool_set (some s) (fun u _ => hab u)]
      simp [hab s]

end H5V.Lemmas.Tendril
