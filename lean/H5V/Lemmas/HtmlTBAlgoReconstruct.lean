import H5V.Lemmas.HtmlTBAlgoPlace
/-!
(j) insert an HTML element against `Spec.TreeAlgo2.insertForeignElement`, and (l) reconstruct the
active formatting elements.
-/
namespace H5V.Lemmas.HtmlTBAlgo
open H5V.Model.HtmlTB
open H5V.Model.Dom (Id SinkOp Output Dom QualName Attr NodeOrText ElementFlags NodeData)
open H5V.Lemmas.Dom
open H5V.Lemmas.HtmlTBSpec (NamesOk toName)
open H5V.Spec.TreeAlgo2
open H5V.Spec.TreeAlgo (Name)

/-- the stack starts with an element of the special category that is not a `table` (in the standard
it starts with `html`) -/
def HeadOk (d : Dom) (l : List Id) : Prop :=
  ∃ h0, l.head? = some h0 ∧ (elemOf d h0).name.isHtml "table" = false ∧ isSpecial (elemOf d h0) = true

theorem elemOf_stable {d d' : Dom} (hs : Stable d d') {h : Id} (he : d.isElement h = true) : elemOf d' h = elemOf d h := by
  unfold elemOf; rw [nameOf_stable hs he]

/-- `HeadOk` only depends on the first entry and its name -/
theorem HeadOk.transfer {d d' : Dom} {l l' : List Id} (h : HeadOk d l) (hok : ElemsOk d l) (hs : Stable d d')
    (hl : l'.head? = l.head?) : HeadOk d' l' := by
  obtain ⟨h0, hh, hn, hsp⟩ := h
  refine ⟨h0, by rw [hl]; exact hh, ?_, ?_⟩
  · rw [elemOf_stable hs (hok h0 (List.mem_of_head? hh))]; exact hn
  · rw [elemOf_stable hs (hok h0 (List.mem_of_head? hh))]; exact hsp

theorem absStack_ids (d : Dom) (l : List Id) : (absStack d l).map (·.id) = l := by
  unfold absStack
  induction l with
  | nil => rfl
  | cons a r ih => simp only [List.map_cons, ih]; rfl

theorem absStack_head? (d : Dom) (l : List Id) : (absStack d l).head? = l.head?.map (elemOf d) := by
  simp [absStack]

theorem insertForeignElement_abs (s : State) (ns : Str) (tag : Tag) (place : Place Id)
    (hplace : appropriatePlace (absStack s.dom s.openElems) s.fosterParenting none = some place)
    (elem : Id) (rest : List Id) (log0 : List (Edit Id Tag)) :
    Spec.TreeAlgo2.insertForeignElement tagCtx (absState s (elem :: rest) log0) tag ns false
      = some ({ absState s rest (log0 ++ insertEdits s ns tag place elem) with
                  stack := absStack s.dom s.openElems ++ [⟨elem, ⟨ns, tag.name⟩⟩] }, ⟨elem, ⟨ns, tag.name⟩⟩) := by
  unfold Spec.TreeAlgo2.insertForeignElement
  simp only [absState, hplace, Option.bind_some, PState.newNode, Option.map_some, insertEdits]
  cases s.formElem with
  | none => simp [associatesWithForm, tagCtx]
  | some f =>
    by_cases h : associatesWithForm ⟨ns, tag.name⟩ (tagCtx.tokHasFormAttr tag) true
        ((absStack s.dom s.openElems).any fun e => e.name.isHtml "template") = true
    · simp [h, tagCtx]
    · simp [h, tagCtx]

/-- **(j)** `insert_element` is "insert a foreign element" (with *onlyAddToElementStack* false), followed by
a pop when `pushIt` is false -/
theorem tot_insertElement_spec (s : State) (pushIt : Bool) (ns : Str) (tag : Tag) (hok : ElemsOk s.dom s.openElems)
    (hhead : HeadOk s.dom s.openElems) :
    Tot (insertElement pushIt ns tag.name tag.attrs tag.hadDup) s (fun elem s' calls =>
      s' = { s with openElems := if pushIt then s.openElems ++ [elem] else s.openElems,
                    dom := s'.dom, traceRev := s'.traceRev } ∧
      s.dom.size ≤ elem ∧ s'.dom.isElement elem = true ∧ nameOf s'.dom elem = ⟨ns, tag.name⟩ ∧
      ∃ L, (∀ tc, TcOk s.dom tc → edits calls = L.map (editCall tc)) ∧
        ∀ rest log0, Spec.TreeAlgo2.insertForeignElement tagCtx (absState s (elem :: rest) log0) tag ns false
          = some ({ absState s rest (log0 ++ L) with
                      stack := absStack s.dom s.openElems ++ [⟨elem, ⟨ns, tag.name⟩⟩] }, ⟨elem, ⟨ns, tag.name⟩⟩)) := by
  obtain ⟨h0, hh0, hnt, _⟩ := hhead
  obtain ⟨place, hplace, hnodes⟩ := appropriatePlace_some (absStack s.dom s.openElems) s.fosterParenting none
    (elemOf s.dom h0) (by rw [absStack_head?, hh0]; rfl) hnt
  refine tot_conseq (tot_insertElement s pushIt ns tag hok place hplace) fun elem s' calls _ ⟨h1, h2, h3, h4, h5⟩ => ?_
  refine ⟨h1, h2, h3, h4, insertEdits s ns tag place elem, ?_, fun rest log0 => insertForeignElement_abs s ns tag place hplace elem rest log0⟩
  intro tc htc
  rw [h5]
  have hip : ipOf tc place = ipOf (tcOf s.dom) place := by
    refine ipOf_congr htc fun x hx => ?_
    rcases hnodes x hx with hm | ⟨t, ht, _⟩
    · rw [absStack_ids] at hm; exact hok x hm
    · cases ht
  apply List.map_congr_left
  intro e he
  simp only [insertEdits, List.mem_append, List.mem_cons, List.mem_nil_iff, or_false] at he
  rcases he with (rfl | he) | rfl
  · rfl
  · split at he
    · simp only [Option.mem_toList, Option.map_eq_some_iff] at he
      obtain ⟨f, _, rfl⟩ := he
      simp only [editCall, hip]
    · cases he
  · simp only [editCall, hip]

/-! ### (l) reconstruct the active formatting elements -/

theorem tot_anySameNodeRev (node : Id) : ∀ (l : List Id) (s : State),
    Tot (anySameNodeRev node l) s (QueryQ s (l.any fun n => n == node)) := by
  intro l
  induction l with
  | nil => intro s; exact tot_pure ⟨rfl, SameTB.refl _, rfl⟩
  | cons n rest ih =>
    intro s
    unfold anySameNodeRev
    refine tot_query_query (tot_sameNode s n node) fun s1 c1 _ _ => ?_
    by_cases h : (n == node) = true
    · simp only [h, if_true, List.any_cons, Bool.true_or]; exact tot_pure ⟨rfl, SameTB.refl _, rfl⟩
    · simp only [h, Bool.false_eq_true, if_false, List.any_cons, Bool.false_or]; exact ih s1

theorem markerOrOpen_abs (d : Dom) (l : List Id) (e : FormatEntry) :
    markerOrOpen (absStack d l) (absEntry e) = (match e with | .marker => true | .element n _ => l.reverse.any fun x => x == n) := by
  cases e with
  | marker => rfl
  | element n t =>
    simp only [absEntry, markerOrOpen, absStack, List.any_map, List.any_reverse]
    rfl

theorem tot_isMarkerOrOpen (s : State) (e : FormatEntry) :
    Tot (isMarkerOrOpen e) s (QueryQ s (markerOrOpen (absStack s.dom s.openElems) (absEntry e))) := by
  rw [markerOrOpen_abs]
  cases e with
  | marker => exact tot_pure ⟨rfl, SameTB.refl _, rfl⟩
  | element n t =>
    unfold isMarkerOrOpen
    refine tot_getS_bind ?_
    exact tot_anySameNodeRev n s.openElems.reverse s

theorem absList_getElem? (af : List FormatEntry) (i : Nat) : (absList af)[i]? = (af[i]?).map absEntry := by
  simp [absList]

theorem tot_reconstructRewind (d0 : Dom) (stack : List Id) (af : List FormatEntry) :
    ∀ (i : Nat) (s : State), i ≤ af.length → s.openElems = stack → s.activeFormatting = af →
      Tot (H5V.Model.HtmlTB.reconstructRewind i) s (QueryQ s (Spec.TreeAlgo2.reconstructRewind (absStack d0 stack) (absList af) i)) := by
  intro i
  induction i with
  | zero => intro s _ _ _; exact tot_pure ⟨rfl, SameTB.refl _, rfl⟩
  | succ i ih =>
    intro s hi hst haf
    unfold H5V.Model.HtmlTB.reconstructRewind
    refine tot_getS_bind ?_
    rw [haf]
    have hlt : i < af.length := by omega
    rw [List.getElem?_eq_getElem hlt]
    simp only []
    refine tot_query_query (tot_isMarkerOrOpen s af[i]) fun s1 c1 _ hs1 => ?_
    unfold Spec.TreeAlgo2.reconstructRewind
    rw [absList_getElem?, List.getElem?_eq_getElem hlt]
    simp only [Option.map_some, Option.any_some]
    have e : markerOrOpen (absStack s.dom s.openElems) (absEntry af[i]) = markerOrOpen (absStack d0 stack) (absEntry af[i]) := by
      rw [markerOrOpen_abs, markerOrOpen_abs, hst]
    rw [e]
    by_cases h : markerOrOpen (absStack d0 stack) (absEntry af[i]) = true
    · simp only [h, if_true]; exact tot_pure ⟨rfl, SameTB.refl _, rfl⟩
    · simp only [h, Bool.false_eq_true, if_false]
      exact ih s1 (by omega) (hs1.openElems.trans hst) (hs1.activeFormatting.trans haf)

/-! `reconstructCreate`, cut into chunks -/

def rcAfterSet (fuel entryIndex : Nat) : M Unit := do
  let len := (← getS).activeFormatting.length
  if len == 0 then panicAt "sub-overflow" "mod.rs:1032" "len() - 1"
  else if entryIndex == len - 1 then pure ()
  else H5V.Model.HtmlTB.reconstructCreate fuel (entryIndex + 1)

def rcAfterTag (fuel entryIndex : Nat) (tag : Tag) : M Unit := do
  let newElement ← insertElement true nsHtml tag.name tag.attrs tag.hadDup
  let af := (← getS).activeFormatting
  if entryIndex < af.length then setAF (af.set entryIndex (.element newElement tag))
  else panicAt "index-oob" "mod.rs:1027" "active_formatting[entry_index] ="
  rcAfterSet fuel entryIndex

theorem reconstructCreate_succ (fuel entryIndex : Nat) :
    H5V.Model.HtmlTB.reconstructCreate (fuel + 1) entryIndex = (do
      let tag ← match (← getS).activeFormatting[entryIndex]? with
        | some (.element _ t) => pure t
        | some .marker => panicAt "marker-in-reconstruct" "mod.rs:1012" "Found marker during formatting element reconstruction"
        | none => panicAt "index-oob" "mod.rs:1009" "active_formatting[entry_index]"
      rcAfterTag fuel entryIndex tag) := rfl

theorem nsHtml_eq : Spec.TreeAlgo.nsHtml = nsHtml := rfl

/-- only the stack, the list, the sink and the trace differ -/
def SameButStackList (s s' : State) : Prop :=
  s' = { s with openElems := s'.openElems, activeFormatting := s'.activeFormatting, dom := s'.dom, traceRev := s'.traceRev }

theorem absList_set (af : List FormatEntry) (i : Nat) (e : FormatEntry) :
    absList (af.set i e) = (absList af).set i (absEntry e) := by
  simp [absList, List.map_set]

theorem HeadOk.append {d d' : Dom} {l : List Id} (h : HeadOk d l) (hok : ElemsOk d l) (hs : Stable d d') (x : Id) :
    HeadOk d' (l ++ [x]) := by
  refine h.transfer hok hs ?_
  obtain ⟨h0, hh, _⟩ := h
  cases l with
  | nil => simp at hh
  | cons a r => rfl

/-- the create loop of `reconstruct_active_formatting_elements` is steps 8–10 (and 7) -/
theorem tot_reconstructCreate : ∀ (n fuel i : Nat) (s : State), n + 1 ≤ fuel + 1 → 0 < n →
    i + n = s.activeFormatting.length →
    (∀ j, i ≤ j → j < s.activeFormatting.length → ∃ h t, s.activeFormatting[j]? = some (.element h t)) →
    ElemsOk s.dom s.openElems → HeadOk s.dom s.openElems →
    Tot (H5V.Model.HtmlTB.reconstructCreate fuel i) s (fun _ s' calls => ∃ ids L,
      (∀ tc, TcOk s'.dom tc → edits calls = L.map (editCall tc)) ∧
      (∀ rest log0, Spec.TreeAlgo2.reconstructCreate tagCtx n i (absState s (ids ++ rest) log0)
          = some (absState s' rest (log0 ++ L))) ∧
      SameButStackList s s' ∧ ElemsOk s'.dom s'.openElems ∧ HeadOk s'.dom s'.openElems ∧
      (∀ x ∈ ids, s.dom.size ≤ x) ∧ ids.length = n) := by
  intro n
  induction n with
  | zero => intro fuel i s _ h0; omega
  | succ n ih =>
    intro fuel i s hfuel _ hlen hent hok hhead
    obtain ⟨fuel, rfl⟩ : ∃ f, fuel = f + 1 := ⟨fuel - 1, by omega⟩
    rw [reconstructCreate_succ]
    refine tot_getS_bind ?_
    have hi : i < s.activeFormatting.length := by omega
    obtain ⟨h, t, hit⟩ := hent i (Nat.le_refl _) hi
    rw [hit]
    refine tot_bind (tot_pure ?_)
    unfold rcAfterTag
    refine tot_bind (tot_conseq (tot_insertElement_spec s true nsHtml t hok hhead) fun elem s1 c1 he1 ⟨hs1, hfresh, hel, hnm, L1, hL1, hspec1⟩ => ?_)
    simp only [if_true] at hs1
    refine tot_getS_bind ?_
    have haf1 : s1.activeFormatting = s.activeFormatting := by rw [hs1]
    have hopen1 : s1.openElems = s.openElems ++ [elem] := by rw [hs1]
    rw [haf1]
    simp only [hi, if_true]
    unfold setAF
    refine tot_bind (tot_modS rfl rfl ?_)
    -- the state after the replacement
    generalize hs2 : ({ s1 with activeFormatting := s.activeFormatting.set i (.element elem t) } : State) = s2
    have hdom2 : s2.dom = s1.dom := by rw [← hs2]
    have haf2 : s2.activeFormatting = s.activeFormatting.set i (.element elem t) := by rw [← hs2]
    have hopen2 : s2.openElems = s.openElems ++ [elem] := by rw [← hs2]; exact hopen1
    have hst1 : Stable s.dom s1.dom := he1.stable
    have hok2 : ElemsOk s2.dom s2.openElems := by
      rw [hdom2, hopen2]
      intro x hx
      rcases List.mem_append.mp hx with h1 | h1
      · exact isElement_stable hst1 (hok x h1)
      · simp at h1; subst h1; exact hel
    have hhead2 : HeadOk s2.dom s2.openElems := by
      rw [hdom2, hopen2]; exact hhead.append hok hst1 elem
    have hS2 : SameButStackList s s2 := by
      unfold SameButStackList; rw [← hs2, hs1]
    -- the spec's step
    have hstack2 : absStack s1.dom (s.openElems ++ [elem]) = absStack s.dom s.openElems ++ [⟨elem, ⟨nsHtml, t.name⟩⟩] := by
      simp only [absStack, List.map_append, List.map_cons, List.map_nil]
      congr 1
      · exact absStack_stable hok hst1
      · simp only [elemOf, hnm]; rfl
    have hf2 : s2.fosterParenting = s.fosterParenting := by rw [← hs2, hs1]
    have hfm2 : s2.formElem = s.formElem := by rw [← hs2, hs1]
    have hstep : ∀ rest log0, ∃ X : PState Id Tag,
        Spec.TreeAlgo2.insertHtmlElement tagCtx (absState s (elem :: rest) log0) t = some (X, ⟨elem, ⟨nsHtml, t.name⟩⟩) ∧
        ({ X with list := X.list.set i (.element elem t) } : PState Id Tag) = absState s2 rest (log0 ++ L1) ∧
        X.list.length = s.activeFormatting.length := by
      intro rest log0
      refine ⟨{ absState s rest (log0 ++ L1) with stack := absStack s.dom s.openElems ++ [⟨elem, ⟨nsHtml, t.name⟩⟩] }, ?_, ?_, ?_⟩
      · unfold Spec.TreeAlgo2.insertHtmlElement
        rw [nsHtml_eq]; exact hspec1 rest log0
      · simp only [absState, haf2, hopen2, hdom2, absList_set, absEntry, hstack2, hf2, hfm2]
      · simp [absState, absList]
    have hlist_i : ∀ rest log0, (absState s (elem :: rest) log0).list[i]? = some (.element h t) := by
      intro rest log0
      simp only [absState, absList_getElem?, hit, Option.map_some, absEntry]
    have hlen2 : s2.activeFormatting.length = s.activeFormatting.length := by rw [haf2]; simp
    unfold rcAfterSet
    refine tot_getS_bind ?_
    rw [hlen2]
    have hne : (s.activeFormatting.length == 0) = false := by
      rw [beq_eq_false_iff_ne]; omega
    simp only [hne, Bool.false_eq_true, if_false]
    by_cases hlast : (i == s.activeFormatting.length - 1) = true
    · simp only [hlast, if_true]
      have hn0 : n = 0 := by
        have := beq_iff_eq.mp hlast; omega
      subst hn0
      refine tot_pure ⟨[elem], L1, ?_, ?_, hS2, hok2, hhead2, ?_, rfl⟩
      · intro tc htc
        have : TcOk s.dom tc := by
          refine TcOk.of_stable ?_ hst1
          rw [← hdom2]; exact htc
        simpa using hL1 tc this
      · intro rest log0
        obtain ⟨X, hX1, hX2, hX3⟩ := hstep rest log0
        have hlenX : ¬ (i + 1 < (X.list.set i (Entry.element elem t)).length) := by
          rw [List.length_set, hX3]; omega
        simp only [List.singleton_append, Spec.TreeAlgo2.reconstructCreate, hlist_i, hX1, Option.bind_some, hX2, hlenX, if_false]
      · intro x hx; simp at hx; subst hx; exact hfresh
    · simp only [hlast, Bool.false_eq_true, if_false]
      have hne1 : i ≠ s.activeFormatting.length - 1 := by
        intro h; rw [h] at hlast; simp at hlast
      have hn1 : 0 < n := by omega
      refine tot_conseq (ih fuel (i + 1) s2 (by omega) hn1 (by rw [hlen2]; omega) ?_ hok2 hhead2)
        fun _ s3 c3 he3 ⟨ids', L2, hL2, hspec2, hS3, hok3, hhead3, hfresh3, hlen3⟩ => ?_
      · intro j hj hjl
        rw [haf2]
        rw [hlen2] at hjl
        obtain ⟨h', t', hjt⟩ := hent j (by omega) hjl
        refine ⟨h', t', ?_⟩
        rw [List.getElem?_set_ne (by omega)]; exact hjt
      · have hst3 : Stable s.dom s3.dom := by
          refine hst1.trans ?_
          rw [← hdom2]; exact he3.stable
        refine ⟨elem :: ids', L1 ++ L2, ?_, ?_, ?_, hok3, hhead3, ?_, by simp [hlen3]⟩
        · intro tc htc
          simp only [List.nil_append]
          rw [edits_append, hL1 tc (htc.of_stable hst3), hL2 tc htc, List.map_append]
        · intro rest log0
          obtain ⟨X, hX1, hX2, hX3⟩ := hstep (ids' ++ rest) log0
          have hlenX : i + 1 < (X.list.set i (Entry.element elem t)).length := by
            rw [List.length_set, hX3]; omega
          have := hspec2 rest (log0 ++ L1)
          simp only [List.cons_append, Spec.TreeAlgo2.reconstructCreate, hlist_i, hX1, Option.bind_some, hX2, hlenX, if_true]
          rw [this, List.append_assoc]
        · unfold SameButStackList at hS2 hS3 ⊢
          rw [hS3, hS2]
        · intro x hx
          rcases List.mem_cons.mp hx with rfl | hx
          · exact hfresh
          · exact Nat.le_trans (by rw [hdom2]; exact hst1.size) (hfresh3 x hx)

theorem absState_sameTB {s s' : State} (h : SameTB s s') (hs : Stable s.dom s'.dom) (hok : ElemsOk s.dom s.openElems)
    (supply : List Id) (log : List (Edit Id Tag)) : absState s' supply log = absState s supply log := by
  simp only [absState, h.openElems, h.activeFormatting, h.fosterParenting, h.formElem, absStack_stable hok hs]

/-- what the rewinding finds: a position `r ≤ i` such that none of the entries `r … i-1` is a marker or open -/
theorem rewind_spec {N T : Type} [DecidableEq N] (stack : List (Elem N)) (list : List (Entry N T)) :
    ∀ i, Spec.TreeAlgo2.reconstructRewind stack list i ≤ i ∧
      ∀ j, Spec.TreeAlgo2.reconstructRewind stack list i ≤ j → j < i → (list[j]?).any (markerOrOpen stack) = false := by
  intro i
  induction i with
  | zero => exact ⟨Nat.le_refl _, fun j _ hj => by omega⟩
  | succ i ih =>
    unfold Spec.TreeAlgo2.reconstructRewind
    by_cases h : (list[i]?).any (markerOrOpen stack) = true
    · simp only [h, if_true]
      exact ⟨Nat.le_refl _, fun j h1 h2 => by omega⟩
    · simp only [h, Bool.false_eq_true, if_false]
      refine ⟨Nat.le_succ_of_le ih.1, fun j h1 h2 => ?_⟩
      by_cases hj : j = i
      · subst hj; simpa using h
      · exact ih.2 j h1 (by omega)

theorem not_markerOrOpen_element (d : Dom) (l : List Id) (e : FormatEntry)
    (h : markerOrOpen (absStack d l) (absEntry e) = false) : ∃ x t, e = .element x t := by
  cases e with
  | marker => simp [absEntry, markerOrOpen] at h
  | element x t => exact ⟨x, t, rfl⟩

/-- **(l)** `reconstruct_active_formatting_elements` is the standard's "reconstruct the active
formatting elements" -/
theorem tot_reconstruct (s : State) (hok : ElemsOk s.dom s.openElems) (hhead : HeadOk s.dom s.openElems) :
    Tot H5V.Model.HtmlTB.reconstructActiveFormattingElements s (fun _ s' calls => ∃ ids L,
      (∀ tc, TcOk s'.dom tc → edits calls = L.map (editCall tc)) ∧
      (∀ rest log0, Spec.TreeAlgo2.reconstructActiveFormattingElements tagCtx (absState s (ids ++ rest) log0)
          = some (absState s' rest (log0 ++ L))) ∧
      SameButStackList s s' ∧ ElemsOk s'.dom s'.openElems ∧ HeadOk s'.dom s'.openElems ∧
      (∀ x ∈ ids, s.dom.size ≤ x)) := by
  have htriv : ∀ (s1 : State) (c1 : List Call), Ext s c1 s1 → SameTB s s1 → edits c1 = [] →
      (∀ rest log0, Spec.TreeAlgo2.reconstructActiveFormattingElements tagCtx (absState s rest log0) = some (absState s rest log0)) →
      ∃ ids L, (∀ tc, TcOk s1.dom tc → edits c1 = L.map (editCall tc)) ∧
        (∀ rest log0, Spec.TreeAlgo2.reconstructActiveFormattingElements tagCtx (absState s (ids ++ rest) log0)
          = some (absState s1 rest (log0 ++ L))) ∧
        SameButStackList s s1 ∧ ElemsOk s1.dom s1.openElems ∧ HeadOk s1.dom s1.openElems ∧
        (∀ x ∈ ids, s.dom.size ≤ x) := by
    intro s1 c1 he1 hs1 hc1 hspec
    refine ⟨[], [], fun _ _ => by simp [hc1], ?_, ?_, ?_, ?_, fun _ h => by cases h⟩
    · intro rest log0
      simp only [List.nil_append, List.append_nil]
      rw [hspec, absState_sameTB hs1 he1.stable hok]
    · unfold SameButStackList; unfold SameTB at hs1; rw [hs1]
    · rw [hs1.openElems]; exact hok.stable he1.stable
    · exact hhead.transfer hok he1.stable (by rw [hs1.openElems])
  unfold H5V.Model.HtmlTB.reconstructActiveFormattingElements
  refine tot_getS_bind ?_
  cases hlast : s.activeFormatting.getLast? with
  | none =>
    simp only [hlast]
    refine tot_pure (htriv s [] (Ext.refl _) (SameTB.refl _) rfl ?_)
    intro rest log0
    unfold Spec.TreeAlgo2.reconstructActiveFormattingElements
    simp [absState, absList, hlast]
  | some last =>
    simp only [hlast]
    have hlast' : ∀ rest log0, (absState s rest log0).list.getLast? = some (absEntry last) := by
      intro rest log0; simp [absState, absList, hlast]
    refine tot_bind (tot_conseq (tot_isMarkerOrOpen s last) fun b s1 c1 he1 ⟨hb, hs1, hc1⟩ => ?_)
    subst hb
    by_cases hmo : markerOrOpen (absStack s.dom s.openElems) (absEntry last) = true
    · simp only [hmo, if_true]
      refine tot_pure ?_
      simp only [List.append_nil]
      refine htriv s1 c1 he1 hs1 hc1 ?_
      intro rest log0
      unfold Spec.TreeAlgo2.reconstructActiveFormattingElements
      rw [hlast']
      simp only [absState] at hmo ⊢
      simp [hmo]
    · have hmo' : markerOrOpen (absStack s.dom s.openElems) (absEntry last) = false := by simpa using hmo
      simp only [hmo', Bool.false_eq_true, if_false]
      -- the rewinding
      have hlen : 0 < s.activeFormatting.length := by
        cases hl : s.activeFormatting with
        | nil => simp [hl] at hlast
        | cons a r => simp
      refine tot_bind (tot_conseq (tot_reconstructRewind s.dom s.openElems s.activeFormatting (s.activeFormatting.length - 1) s1
        (by omega) hs1.openElems hs1.activeFormatting) fun start s2 c2 he2 ⟨hstart, hs2, hc2⟩ => ?_)
      subst hstart
      generalize hst : Spec.TreeAlgo2.reconstructRewind (absStack s.dom s.openElems) (absList s.activeFormatting)
        (s.activeFormatting.length - 1) = start
      obtain ⟨hle, hbetween⟩ := rewind_spec (absStack s.dom s.openElems) (absList s.activeFormatting) (s.activeFormatting.length - 1)
      rw [hst] at hle hbetween
      have hS2 : SameTB s s2 := hs1.trans hs2
      have hE2 : Ext s (c1 ++ c2) s2 := he1.trans he2
      have hst2 : Stable s.dom s2.dom := hE2.stable
      have hok2 : ElemsOk s2.dom s2.openElems := by rw [hS2.openElems]; exact hok.stable hst2
      have hhead2 : HeadOk s2.dom s2.openElems := hhead.transfer hok hst2 (by rw [hS2.openElems])
      -- the last entry
      have hlastIdx : s.activeFormatting[s.activeFormatting.length - 1]? = some last := by
        rw [List.getLast?_eq_getElem?] at hlast; exact hlast
      have hent : ∀ j, start ≤ j → j < s2.activeFormatting.length → ∃ h t, s2.activeFormatting[j]? = some (.element h t) := by
        intro j hj hjl
        rw [hS2.activeFormatting] at hjl ⊢
        obtain ⟨e, hjv⟩ : ∃ e, s.activeFormatting[j]? = some e := ⟨_, List.getElem?_eq_getElem hjl⟩
        have hnot : markerOrOpen (absStack s.dom s.openElems) (absEntry e) = false := by
          by_cases hjlast : j = s.activeFormatting.length - 1
          · subst hjlast
            rw [hlastIdx] at hjv
            cases hjv; exact hmo'
          · have := hbetween j hj (by omega)
            rw [absList_getElem?, hjv] at this
            simpa using this
        obtain ⟨x, t, hx⟩ := not_markerOrOpen_element _ _ _ hnot
        exact ⟨x, t, by rw [hjv, hx]⟩
      refine tot_conseq (tot_reconstructCreate (s.activeFormatting.length - start) (s.activeFormatting.length + 1) start s2
        (by omega) (by omega) (by rw [hS2.activeFormatting]; omega) hent hok2 hhead2)
        fun _ s3 c3 he3 ⟨ids, L, hL, hspec, hS3, hok3, hhead3, hfresh, _⟩ => ?_
      refine ⟨ids, L, ?_, ?_, ?_, hok3, hhead3, fun x hx => Nat.le_trans hst2.size (hfresh x hx)⟩
      · intro tc htc
        rw [edits_append, edits_append, hc1, hc2, hL tc htc]; rfl
      · intro rest log0
        unfold Spec.TreeAlgo2.reconstructActiveFormattingElements
        rw [hlast']
        have e1 : (absState s (ids ++ rest) log0).stack = absStack s.dom s.openElems := rfl
        have e2 : (absState s (ids ++ rest) log0).list = absList s.activeFormatting := rfl
        have e3 : (absList s.activeFormatting).length = s.activeFormatting.length := by simp [absList]
        simp only [e1, e2, e3, hmo', Bool.false_eq_true, if_false, hst]
        rw [← absState_sameTB hS2 hst2 hok]
        exact hspec rest log0
      · unfold SameButStackList at hS3 ⊢
        unfold SameTB at hS2
        rw [hS3, hS2]

/-! ### which entries are re-created -/
section Suffix
variable {N T : Type} [DecidableEq N]

/-- number of entries directly before position `i` that are neither markers nor open -/
def trailing (stack : List (Elem N)) (list : List (Entry N T)) (i : Nat) : Nat :=
  ((list.take i).reverse.takeWhile fun e => !markerOrOpen stack e).length

theorem trailing_le (stack : List (Elem N)) (list : List (Entry N T)) (i : Nat) : trailing stack list i ≤ i := by
  unfold trailing
  have h1 : ((list.take i).reverse.takeWhile fun e => !markerOrOpen stack e).length ≤ (list.take i).reverse.length :=
    (List.takeWhile_sublist _).length_le
  have h2 : (list.take i).reverse.length ≤ i := by simp [List.length_take]; omega
  omega

theorem trailing_succ (stack : List (Elem N)) (list : List (Entry N T)) (i : Nat) (hi : i < list.length) :
    trailing stack list (i + 1) = if (list[i]?).any (markerOrOpen stack) then 0 else trailing stack list i + 1 := by
  unfold trailing
  have : list.take (i + 1) = list.take i ++ [list[i]] := by
    rw [List.take_add_one, List.getElem?_eq_getElem hi]; rfl
  rw [this, List.reverse_append, List.getElem?_eq_getElem hi]
  simp only [List.reverse_cons, List.reverse_nil, List.nil_append, List.singleton_append, List.takeWhile_cons, Option.any_some]
  by_cases hm : markerOrOpen stack list[i] = true
  · simp [hm]
  · have hm' : markerOrOpen stack list[i] = false := by simpa using hm
    simp [hm']

theorem rewind_eq (stack : List (Elem N)) (list : List (Entry N T)) : ∀ i, i ≤ list.length →
    Spec.TreeAlgo2.reconstructRewind stack list i = i - trailing stack list i := by
  intro i
  induction i with
  | zero => intro _; simp [Spec.TreeAlgo2.reconstructRewind]
  | succ i ih =>
    intro hi
    unfold Spec.TreeAlgo2.reconstructRewind
    rw [trailing_succ stack list i (by omega)]
    by_cases h : (list[i]?).any (markerOrOpen stack) = true
    · simp [h]
    · simp only [h, Bool.false_eq_true, if_false]
      rw [ih (by omega)]
      have := trailing_le stack list i
      omega

/-- the entries re-created by "reconstruct the active formatting elements" are exactly the longest
suffix of the list without markers and open elements -/
theorem reconstruct_suffix (stack : List (Elem N)) (list : List (Entry N T)) (last : Entry N T)
    (hl : list.getLast? = some last) (hm : markerOrOpen stack last = false) :
    list.length - Spec.TreeAlgo2.reconstructRewind stack list (list.length - 1) = reconstructSuffixLength stack list := by
  have hlen : 0 < list.length := by
    cases list with
    | nil => simp at hl
    | cons a r => simp
  have hidx : list[list.length - 1]? = some last := by rw [← List.getLast?_eq_getElem?]; exact hl
  rw [rewind_eq stack list _ (by omega)]
  have h1 := trailing_succ stack list (list.length - 1) (by omega)
  rw [hidx] at h1
  simp only [Option.any_some, hm, Bool.false_eq_true, if_false] at h1
  have h2 : list.length - 1 + 1 = list.length := by omega
  rw [h2] at h1
  have h3 : trailing stack list list.length = reconstructSuffixLength stack list := by
    unfold trailing reconstructSuffixLength; rw [List.take_length]
  have := trailing_le stack list (list.length - 1)
  rw [← h3, h1]; omega
end Suffix

end H5V.Lemmas.HtmlTBAlgo
