import H5V.Model.BufferQueue
/-!
Byte-level model of `BufferQueue::eat` (`markup5ever/util/buffer_queue.rs`) and the lemmas that
bridge it to the character-level model `H5V.Model.BQ.eatGo` / `eat`.

* `eatLoop` / `commit` / `eatBytes`: the Rust function transcribed literally over byte buffers
  (`List (List UInt8)`), with the two index variables `buffers_exhausted`, `consumed_from_last`
  as natural numbers and every panic site explicit.
* the UTF-8 encoding is core's `String.utf8EncodeChar` (the function that defines the bytes of a
  Lean `String`); the facts used about it are proved here from its definition.
* `goB`: the same loop written structurally on the remaining byte queue; `loop_goB` relates the two.
* `StepAgree`: what one character of the pattern needs from a byte comparator / char comparator
  pair; `goB_enc` is the simulation for any such pair; the two comparator pairs html5ever uses are
  shown to satisfy it for *every* pattern character (not only ASCII ones).
-/
namespace H5V.Lemmas.BQBytes
open H5V.Model.BQ

/-! ## UTF-8 encoding of buffers and queues -/

/-- the bytes of a character buffer: concatenation of core's `String.utf8EncodeChar` -/
def encBuf (b : List Char) : List UInt8 := b.flatMap String.utf8EncodeChar

/-- the byte queue of a character queue, buffer by buffer -/
def encBufs (bufs : List Buf) : List (List UInt8) := bufs.map encBuf

/-- `encBuf` is literally core's `List.utf8Encode` (the bytes of `String.ofList b`). -/
theorem encBuf_toByteArray (b : List Char) : (encBuf b).toByteArray = b.utf8Encode := rfl

@[simp] theorem encBuf_nil : encBuf [] = [] := rfl
@[simp] theorem encBuf_cons (c : Char) (cs : List Char) :
    encBuf (c :: cs) = String.utf8EncodeChar c ++ encBuf cs := by
  simp [encBuf]
@[simp] theorem encBufs_nil : encBufs [] = [] := rfl
@[simp] theorem encBufs_cons (b : Buf) (bs : List Buf) : encBufs (b :: bs) = encBuf b :: encBufs bs := rfl

/-! ## the byte-level model -/

/-- a UTF-8 continuation byte `0x80..0xBF` -/
def isCont (b : UInt8) : Bool := decide (0x80 ≤ b.toNat) && decide (b.toNat ≤ 0xBF)

/-- `str::is_char_boundary` on the bytes: position 0, the end, or a byte that is not a continuation
byte.  For `n ≠ 0` this is what `Tendril::<UTF8>::try_pop_front(n)` checks (`n ≤ len`, and the
remaining suffix is empty or starts with a whole character). -/
def isCharBoundary (buf : List UInt8) (n : Nat) : Bool :=
  n == 0 || n == buf.length ||
    (match buf[n]? with
     | some b => !isCont b
     | none => false)

/-- where the byte-level `eat` can panic -/
inductive PanicSite where
  /-- `buf.as_bytes()[consumed_from_last]` out of bounds (an empty buffer in the queue) -/
  | index
  /-- `assert_eq!(consumed_from_last, 0)` when no buffer is left -/
  | assertZero
  /-- `buf.pop_front(consumed_from_last)` not at a character boundary of the buffer -/
  | popFront
deriving DecidableEq, Repr

/-- outcome of the `for pattern_byte in pat.bytes()` loop -/
inductive LoopR where
  | needMore
  | mismatch
  | panicIndex
  | done (buffersExhausted consumedFromLast : Nat)
deriving DecidableEq, Repr

/-- the loop of `BufferQueue::eat`, literally: `be` = `buffers_exhausted`,
`cfl` = `consumed_from_last` -/
def eatLoop (eq : UInt8 → UInt8 → Bool) (bufs : List (List UInt8)) : List UInt8 → Nat → Nat → LoopR
  | [], be, cfl => .done be cfl
  | pb :: ps, be, cfl =>
    match bufs[be]? with
    | none => .needMore                       -- `buffers_exhausted >= self.buffers.len()`
    | some buf =>
      match buf[cfl]? with
      | none => .panicIndex                   -- `buf.as_bytes()[consumed_from_last]`
      | some b =>
        if !eq b pb then .mismatch
        else if cfl + 1 ≥ buf.length then eatLoop eq bufs ps (be + 1) 0
        else eatLoop eq bufs ps be (cfl + 1)

/-- result of the byte-level `eat`: the verdict with the queue afterwards, or a panic -/
inductive EatBR where
  | ok (verdict : Option Bool) (queue : List (List UInt8))
  | panic (site : PanicSite)
deriving DecidableEq, Repr

/-- "We have a match. Commit changes to the BufferQueue.": pop `be` buffers, then
`pop_front(cfl)` on the new front buffer (or `assert_eq!(cfl, 0)` if there is none) -/
def commit (bufs : List (List UInt8)) (be cfl : Nat) : EatBR :=
  match bufs.drop be with
  | [] => if cfl = 0 then .ok (some true) [] else .panic .assertZero
  | buf :: rest =>
    if isCharBoundary buf cfl then .ok (some true) (buf.drop cfl :: rest) else .panic .popFront

/-- **byte-level `BufferQueue::eat`** -/
def eatBytes (pat : List UInt8) (eq : UInt8 → UInt8 → Bool) (bufs : List (List UInt8)) : EatBR :=
  match eatLoop eq bufs pat 0 0 with
  | .needMore => .ok none bufs
  | .mismatch => .ok (some false) bufs
  | .panicIndex => .panic .index
  | .done be cfl => commit bufs be cfl

/-! ### the comparators html5ever passes -/

/-- `|&a, &b| a == b` -/
def byteEq (a b : UInt8) : Bool := a == b

/-- `u8::to_ascii_lowercase`: `*self | ((self.is_ascii_uppercase() as u8) * 0x20)` -/
def byteLower (b : UInt8) : UInt8 :=
  if 0x41 ≤ b ∧ b ≤ 0x5A then b ||| 0x20 else b

/-- `u8::eq_ignore_ascii_case` -/
def byteEqCi (a b : UInt8) : Bool := byteLower a == byteLower b

/-- the byte comparator for the driver's flag `ci` -/
def byteEqOf (ci : Bool) : UInt8 → UInt8 → Bool := if ci then byteEqCi else byteEq

/-! ## the loop, structurally -/

inductive GoR where
  | needMore
  | mismatch
  | matched (rest : List (List UInt8))
  | panic
deriving DecidableEq, Repr

/-- the queue after one byte of its front buffer `x :: cs` was consumed -/
def adv {α : Type} (cs : List α) (rest : List (List α)) : List (List α) :=
  if cs.isEmpty then rest else cs :: rest

/-- `eatGo` over bytes: the argument is the remaining queue -/
def goB (eq : UInt8 → UInt8 → Bool) : List UInt8 → List (List UInt8) → GoR
  | [], bufs => .matched bufs
  | _ :: _, [] => .needMore
  | _ :: _, [] :: _ => .panic
  | p :: ps, (c :: cs) :: rest => if !eq c p then .mismatch else goB eq ps (adv cs rest)

/-- the remaining queue seen from the index pair -/
def view (bufs : List (List UInt8)) (be cfl : Nat) : List (List UInt8) :=
  match bufs.drop be with
  | [] => []
  | b :: r => b.drop cfl :: r

/-- agreement of the structural loop with the indexed one -/
def Agrees (bufs : List (List UInt8)) : GoR → LoopR → Prop
  | .needMore, r => r = .needMore
  | .mismatch, r => r = .mismatch
  | .panic, r => r = .panicIndex
  | .matched rest, r => ∃ be cfl, r = .done be cfl ∧ view bufs be cfl = rest ∧
      (be < bufs.length ∨ cfl = 0)

theorem view_zero (bufs : List (List UInt8)) (be : Nat) : view bufs be 0 = bufs.drop be := by
  unfold view
  cases h : bufs.drop be <;> simp

theorem loop_goB (eq : UInt8 → UInt8 → Bool) (bufs : List (List UInt8)) (pat : List UInt8) :
    ∀ be cfl, (be < bufs.length ∨ cfl = 0) →
      Agrees bufs (goB eq pat (view bufs be cfl)) (eatLoop eq bufs pat be cfl) := by
  induction pat with
  | nil =>
    intro be cfl hinv
    simp only [goB, eatLoop, Agrees]
    exact ⟨be, cfl, rfl, rfl, hinv⟩
  | cons pb ps ih =>
    intro be cfl hinv
    unfold view
    cases hd : bufs.drop be with
    | nil =>
      have hlen : bufs.length ≤ be := List.drop_eq_nil_iff.mp hd
      simp [goB, eatLoop, Agrees, List.getElem?_eq_none hlen]
    | cons b r =>
      have hb : bufs[be]? = some b := by
        have := List.head?_drop (l := bufs) (i := be)
        rw [hd] at this; simpa using this.symm
      have hlt : be < bufs.length := by
        rcases Nat.lt_or_ge be bufs.length with h | h
        · exact h
        · rw [List.drop_eq_nil_iff.mpr h] at hd; cases hd
      have hr : bufs.drop (be + 1) = r := by
        have := List.tail_drop (l := bufs) (i := be)
        rw [hd] at this; simpa using this.symm
      show Agrees bufs (goB eq (pb :: ps) (b.drop cfl :: r)) _
      cases hc : b.drop cfl with
      | nil =>
        have hlen : b.length ≤ cfl := List.drop_eq_nil_iff.mp hc
        simp [goB, eatLoop, Agrees, hb, List.getElem?_eq_none hlen]
      | cons x cs =>
        have hx : b[cfl]? = some x := by
          have := List.head?_drop (l := b) (i := cfl)
          rw [hc] at this; simpa using this.symm
        have hcs : b.drop (cfl + 1) = cs := by
          have := List.tail_drop (l := b) (i := cfl)
          rw [hc] at this; simpa using this.symm
        have hl : b.length - cfl = cs.length + 1 := by
          have := congrArg List.length hc
          simpa using this
        simp only [goB, eatLoop, hb, hx]
        by_cases he : eq x pb = true
        · simp only [he, Bool.not_true, Bool.false_eq_true, ↓reduceIte]
          by_cases hemp : cs = []
          · subst hemp
            have hge : cfl + 1 ≥ b.length := by simp at hl; omega
            have hv : view bufs (be + 1) 0 = r := by rw [view_zero, hr]
            have := ih (be + 1) 0 (Or.inr rfl)
            rw [hv] at this
            simpa [adv, hge] using this
          · have hlt' : ¬ (cfl + 1 ≥ b.length) := by
              have : cs.length ≠ 0 := by simpa using hemp
              omega
            have hv : view bufs be (cfl + 1) = cs :: r := by
              unfold view; rw [hd]; simp [hcs]
            have := ih be (cfl + 1) (Or.inl hlt)
            rw [hv] at this
            have hemp' : cs.isEmpty = false := by cases cs <;> simp_all
            simpa [adv, hemp', hlt'] using this
        · have he' : eq x pb = false := by simpa using he
          simp [he', Agrees]

/-! ## facts about core's UTF-8 encoding of a character -/

theorem char_toNat_lt (c : Char) : c.val.toNat < 0x110000 := by
  have := c.valid
  simp only [UInt32.isValidChar, Nat.isValidChar] at this
  omega

/-- the four shapes of core's `String.utf8EncodeChar` -/
theorem enc_cases (c : Char) :
    (c.val.toNat < 0x80 ∧ String.utf8EncodeChar c = [UInt8.ofNat c.val.toNat]) ∨
    (0x80 ≤ c.val.toNat ∧ c.val.toNat < 0x800 ∧ String.utf8EncodeChar c =
      [UInt8.ofNat (c.val.toNat / 64 + 0xC0), UInt8.ofNat (c.val.toNat % 64 + 0x80)]) ∨
    (0x800 ≤ c.val.toNat ∧ c.val.toNat < 0x10000 ∧ String.utf8EncodeChar c =
      [UInt8.ofNat (c.val.toNat / 4096 + 0xE0), UInt8.ofNat (c.val.toNat / 64 % 64 + 0x80),
       UInt8.ofNat (c.val.toNat % 64 + 0x80)]) ∨
    (0x10000 ≤ c.val.toNat ∧ c.val.toNat < 0x110000 ∧ String.utf8EncodeChar c =
      [UInt8.ofNat (c.val.toNat / 262144 + 0xF0), UInt8.ofNat (c.val.toNat / 4096 % 64 + 0x80),
       UInt8.ofNat (c.val.toNat / 64 % 64 + 0x80), UInt8.ofNat (c.val.toNat % 64 + 0x80)]) := by
  have hlt := char_toNat_lt c
  generalize hn : c.val.toNat = n at *
  unfold String.utf8EncodeChar
  simp only [hn]
  by_cases h1 : n ≤ 0x7f
  · left; exact ⟨by omega, by simp [h1]⟩
  · by_cases h2 : n ≤ 0x7ff
    · right; left
      refine ⟨by omega, by omega, ?_⟩
      have : n / 64 % 0x20 = n / 64 := Nat.mod_eq_of_lt (by omega)
      simp [h1, h2, this]
    · by_cases h3 : n ≤ 0xffff
      · right; right; left
        refine ⟨by omega, by omega, ?_⟩
        have : n / 4096 % 0x10 = n / 4096 := Nat.mod_eq_of_lt (by omega)
        simp [h1, h2, h3, this]
      · right; right; right
        refine ⟨by omega, by omega, ?_⟩
        have : n / 262144 % 0x08 = n / 262144 := Nat.mod_eq_of_lt (by omega)
        simp [h1, h2, h3, this]

theorem ofNat_eq_iff {a b : Nat} (ha : a < 256) (hb : b < 256) : UInt8.ofNat a = UInt8.ofNat b ↔ a = b := by
  constructor
  · intro h
    have := congrArg UInt8.toNat h
    simp only [UInt8.toNat_ofNat'] at this
    omega
  · rintro rfl; rfl

theorem toNat_ofNat_lt {a : Nat} (ha : a < 256) : (UInt8.ofNat a).toNat = a := by
  simp only [UInt8.toNat_ofNat']; omega

/-- two byte strings that differ at some position inside both -/
def Diverge (a b : List UInt8) : Prop :=
  ∃ l x l1 y l2, a = l ++ x :: l1 ∧ b = l ++ y :: l2 ∧ x ≠ y

theorem diverge_head {x y : UInt8} (l1 l2 : List UInt8) (h : x ≠ y) : Diverge (x :: l1) (y :: l2) :=
  ⟨[], x, l1, y, l2, rfl, rfl, h⟩

theorem diverge_of_ne : ∀ (a b : List UInt8), a.length = b.length → a ≠ b → Diverge a b
  | [], [], _, h => absurd rfl h
  | [], _ :: _, h, _ => by simp at h
  | _ :: _, [], h, _ => by simp at h
  | x :: a, y :: b, hl, hne => by
    by_cases hxy : x = y
    · subst hxy
      have hl' : a.length = b.length := by simpa using hl
      have hne' : a ≠ b := fun h => hne (by rw [h])
      obtain ⟨l, u, l1, v, l2, h1, h2, h3⟩ := diverge_of_ne a b hl' hne'
      exact ⟨x :: l, u, l1, v, l2, by simp [h1], by simp [h2], h3⟩
    · exact diverge_head a b hxy

theorem char_eq_of_toNat {c p : Char} (h : c.val.toNat = p.val.toNat) : c = p :=
  Char.ext (UInt32.toNat_inj.mp h)

/-- UTF-8 is a prefix code: the encodings of two different characters differ at a position
inside both. -/
theorem enc_diverge {c p : Char} (hne : c ≠ p) :
    Diverge (String.utf8EncodeChar p) (String.utf8EncodeChar c) := by
  have hn : c.val.toNat ≠ p.val.toNat := fun h => hne (char_eq_of_toNat h)
  rcases enc_cases c with ⟨c1, ec⟩ | ⟨c1, c2, ec⟩ | ⟨c1, c2, ec⟩ | ⟨c1, c2, ec⟩ <;>
  rcases enc_cases p with ⟨p1, ep⟩ | ⟨p1, p2, ep⟩ | ⟨p1, p2, ep⟩ | ⟨p1, p2, ep⟩ <;>
  rw [ec, ep] <;>
  first
  | (apply diverge_head
     intro h
     rw [ofNat_eq_iff (by omega) (by omega)] at h
     omega)
  | (refine diverge_of_ne _ _ (by simp) ?_
     intro h
     simp only [List.cons.injEq, and_true] at h
     repeat rw [ofNat_eq_iff (by omega) (by omega)] at h
     omega)

/-- an ASCII character is the single byte of its code -/
theorem enc_ascii {c : Char} (h : c.val.toNat < 128) :
    String.utf8EncodeChar c = [UInt8.ofNat c.val.toNat] := by
  rcases enc_cases c with ⟨_, e⟩ | ⟨h1, _, _⟩ | ⟨h1, _, _⟩ | ⟨h1, _, _⟩
  · exact e
  all_goals omega

/-- a non-ASCII character is a lead byte `≥ 0xC0` followed by at least one byte, all of the
following bytes being continuation bytes -/
theorem enc_nonascii {c : Char} (h : 128 ≤ c.val.toNat) :
    ∃ b0 b1 rest, String.utf8EncodeChar c = b0 :: b1 :: rest ∧ 0xC0 ≤ b0.toNat ∧
      ∀ b ∈ b1 :: rest, isCont b = true := by
  rcases enc_cases c with ⟨h1, _⟩ | ⟨h1, h2, e⟩ | ⟨h1, h2, e⟩ | ⟨h1, h2, e⟩
  · omega
  all_goals
    refine ⟨_, _, _, e, ?_, ?_⟩
    · simp only [UInt8.toNat_ofNat']; omega
    · intro b hb
      simp only [List.mem_cons, List.not_mem_nil, or_false] at hb
      rcases hb with rfl | rfl | rfl | rfl <;>
        (simp only [isCont, UInt8.toNat_ofNat', Bool.and_eq_true, decide_eq_true_eq]; omega)

/-- every byte of a non-ASCII character is `≥ 0x80` -/
theorem enc_nonascii_bytes {c : Char} (h : 128 ≤ c.val.toNat) :
    ∀ b ∈ String.utf8EncodeChar c, 128 ≤ b.toNat := by
  obtain ⟨b0, b1, rest, e, h0, hr⟩ := enc_nonascii h
  intro b hb
  rw [e] at hb
  rcases List.mem_cons.mp hb with rfl | hb
  · omega
  · have := hr b hb
    simp only [isCont, Bool.and_eq_true, decide_eq_true_eq] at this
    omega

theorem isCont_false_of_lt {b : UInt8} (h : b.toNat < 0x80) : isCont b = false := by
  simp only [isCont, Bool.and_eq_false_iff, decide_eq_false_iff_not]; omega

theorem isCont_false_of_ge {b : UInt8} (h : 0xC0 ≤ b.toNat) : isCont b = false := by
  simp only [isCont, Bool.and_eq_false_iff, decide_eq_false_iff_not]; omega

/-- the first byte of any character is not a continuation byte -/
theorem enc_head (c : Char) :
    ∃ b0 rest, String.utf8EncodeChar c = b0 :: rest ∧ isCont b0 = false := by
  by_cases h : c.val.toNat < 128
  · refine ⟨_, _, enc_ascii h, isCont_false_of_lt ?_⟩
    simp only [UInt8.toNat_ofNat']; omega
  · obtain ⟨b0, b1, rest, e, h0, _⟩ := enc_nonascii (Nat.le_of_not_lt h)
    exact ⟨b0, b1 :: rest, e, isCont_false_of_ge h0⟩

theorem enc_ne_nil (c : Char) : String.utf8EncodeChar c ≠ [] := by
  obtain ⟨b0, rest, e, _⟩ := enc_head c
  rw [e]; simp

theorem encBuf_eq_nil {b : List Char} : encBuf b = [] ↔ b = [] := by
  cases b with
  | nil => simp
  | cons c cs => simp

/-! ## the structural loop on encoded queues -/

theorem goB_cons_cons (eq : UInt8 → UInt8 → Bool) (p c : UInt8) (ps cs : List UInt8)
    (rest : List (List UInt8)) :
    goB eq (p :: ps) ((c :: cs) :: rest) = if eq c p then goB eq ps (adv cs rest) else .mismatch := by
  simp only [goB]
  cases eq c p <;> simp

theorem adv_append_ne {α : Type} {l : List α} (h : l ≠ []) (tail : List α) (R : List (List α)) :
    adv (l ++ tail) R = (l ++ tail) :: R := by
  unfold adv
  cases l with
  | nil => exact absurd rfl h
  | cons x xs => simp

/-- the pattern starts with the same (reflexively comparable) non-empty byte string as the front
buffer: all of it is consumed -/
theorem goB_append_same (eq : UInt8 → UInt8 → Bool) :
    ∀ (l : List UInt8), l ≠ [] → (∀ x ∈ l, eq x x = true) → ∀ (ps tail : List UInt8)
      (R : List (List UInt8)),
      goB eq (l ++ ps) ((l ++ tail) :: R) = goB eq ps (adv tail R)
  | [], h, _, _, _, _ => absurd rfl h
  | [x], _, hr, ps, tail, R => by
    simp [goB_cons_cons, hr x (by simp)]
  | x :: y :: l, _, hr, ps, tail, R => by
    have ih := goB_append_same eq (y :: l) (by simp) (fun z hz => hr z (by simp [hz])) ps tail R
    rw [List.cons_append, List.cons_append (as := y :: l), goB_cons_cons, hr x (by simp),
      if_pos rfl, adv_append_ne (by simp)]
    exact ih

/-- pattern and front buffer share a prefix and then differ: mismatch -/
theorem goB_append_diff (eq : UInt8 → UInt8 → Bool) (x y : UInt8) (hxy : eq y x = false) :
    ∀ (l : List UInt8), (∀ z ∈ l, eq z z = true) → ∀ (l1 l2 : List UInt8) (R : List (List UInt8)),
      goB eq (l ++ x :: l1) ((l ++ y :: l2) :: R) = .mismatch
  | [], _, l1, l2, R => by simp [goB_cons_cons, hxy]
  | z :: l, hr, l1, l2, R => by
    have ih := goB_append_diff eq x y hxy l (fun w hw => hr w (by simp [hw])) l1 l2 R
    rw [List.cons_append, List.cons_append, goB_cons_cons, hr z (by simp), if_pos rfl]
    cases l with
    | nil => simpa [adv] using ih
    | cons w l' => simpa [adv] using ih

/-- what one pattern character needs from a (byte comparator, char comparator) pair: comparing the
encoding of `p` against a front buffer that starts with the encoding of `c` consumes exactly that
encoding if `ceq c p`, and is a mismatch otherwise -/
def StepAgree (beq : UInt8 → UInt8 → Bool) (ceq : Char → Char → Bool) (P : Char → Prop) : Prop :=
  ∀ c p, P p → ∀ (ps tail : List UInt8) (R : List (List UInt8)),
    goB beq (String.utf8EncodeChar p ++ ps) ((String.utf8EncodeChar c ++ tail) :: R) =
      if ceq c p then goB beq ps (adv tail R) else .mismatch

/-- "no empty buffer" on the bare list (`QInv q` is `NoEmpty q.bufs`) -/
def NoEmpty (bufs : List Buf) : Prop := ∀ b ∈ bufs, b ≠ []

theorem qinv_iff (q : Queue) : QInv q ↔ NoEmpty q.bufs := Iff.rfl

theorem noEmpty_adv {cs : List Char} {rest : List Buf} (h : NoEmpty rest) : NoEmpty (adv cs rest) := by
  unfold adv
  cases cs with
  | nil => simpa using h
  | cons c cs' =>
    intro b hb
    simp at hb
    rcases hb with rfl | hb
    · simp
    · exact h b hb

theorem eatGo_cons_cons (eq : Char → Char → Bool) (p c : Char) (ps cs : List Char) (rest : List Buf) :
    eatGo eq (p :: ps) ((c :: cs) :: rest) = if eq c p then eatGo eq ps (adv cs rest) else .mismatch := by
  cases cs <;> cases h : eq c p <;> simp [eatGo, adv, h]

theorem encBufs_adv (cs : List Char) (rest : List Buf) :
    adv (encBuf cs) (encBufs rest) = encBufs (adv cs rest) := by
  unfold adv
  cases cs with
  | nil => simp
  | cons c cs' =>
    have : (String.utf8EncodeChar c ++ encBuf cs').isEmpty = false := by
      obtain ⟨b0, r, e, _⟩ := enc_head c
      rw [e]; simp
    simp [this]

/-- the char-level verdict, carried over to bytes -/
def encR : EatR → GoR
  | .needMore => .needMore
  | .mismatch => .mismatch
  | .matched rest => .matched (encBufs rest)
  | .panic => .panic

/-- on a queue without empty buffers the char-level loop does not panic, and the committed queue
has no empty buffer either -/
theorem eatGo_ok (eq : Char → Char → Bool) (pat : List Char) :
    ∀ bufs, NoEmpty bufs → eatGo eq pat bufs ≠ .panic ∧
      ∀ rest, eatGo eq pat bufs = .matched rest → NoEmpty rest := by
  induction pat with
  | nil =>
    intro bufs h
    simp only [eatGo]
    exact ⟨by simp, fun rest hr => by cases hr; exact h⟩
  | cons p ps ih =>
    intro bufs h
    match bufs, h with
    | [], _ => simp [eatGo]
    | [] :: rest, h => exact absurd rfl (h [] (by simp))
    | (c :: cs) :: rest, h =>
      have hr : NoEmpty rest := fun b hb => h b (by simp [hb])
      rw [eatGo_cons_cons]
      by_cases hcp : eq c p = true
      · rw [if_pos hcp]; exact ih _ (noEmpty_adv hr)
      · rw [if_neg hcp]; simp

/-- **simulation**: the structural byte loop on the encoded queue and pattern computes the
encoding of what the char-level loop computes -/
theorem goB_enc (beq : UInt8 → UInt8 → Bool) (ceq : Char → Char → Bool) (P : Char → Prop)
    (hA : StepAgree beq ceq P) (pat : List Char) :
    ∀ bufs, (∀ p ∈ pat, P p) → NoEmpty bufs →
      goB beq (encBuf pat) (encBufs bufs) = encR (eatGo ceq pat bufs) := by
  induction pat with
  | nil => intro bufs _ _; simp [goB, eatGo, encR]
  | cons p ps ih =>
    intro bufs hp h
    have hps : ∀ q ∈ ps, P q := fun q hq => hp q (by simp [hq])
    match bufs, h with
    | [], _ =>
      obtain ⟨b0, r, e, _⟩ := enc_head p
      simp [goB, eatGo, encR, e]
    | [] :: rest, h => exact absurd rfl (h [] (by simp))
    | (c :: cs) :: rest, h =>
      have hr : NoEmpty rest := fun b hb => h b (by simp [hb])
      rw [eatGo_cons_cons, encBuf_cons, encBufs_cons, encBuf_cons, hA c p (hp p (by simp))]
      by_cases hcp : ceq c p = true
      · rw [if_pos hcp, if_pos hcp, encBufs_adv]
        exact ih _ hps (noEmpty_adv hr)
      · rw [if_neg hcp, if_neg hcp]; rfl

/-! ## assembly: `eatBytes` on an encoded queue -/

/-- the byte-level result that corresponds to a char-level loop result -/
def encEat (bufs : List Buf) : EatR → EatBR
  | .needMore => .ok none (encBufs bufs)
  | .mismatch => .ok (some false) (encBufs bufs)
  | .matched rest => .ok (some true) (encBufs rest)
  | .panic => .panic .index

theorem isCharBoundary_of_drop {b : List UInt8} {n : Nat} {x : UInt8} {xs : List UInt8}
    (h : b.drop n = x :: xs) (hx : isCont x = false) : isCharBoundary b n = true := by
  have hx' : b[n]? = some x := by
    have := List.head?_drop (l := b) (i := n)
    rw [h] at this; simpa using this.symm
  simp [isCharBoundary, hx', hx]

/-- **the literal byte loop = the char-level loop**, for any comparator pair with `StepAgree` -/
theorem eatBytes_enc (beq : UInt8 → UInt8 → Bool) (ceq : Char → Char → Bool) (P : Char → Prop)
    (hA : StepAgree beq ceq P) (pat : List Char) (bufs : List Buf)
    (hp : ∀ p ∈ pat, P p) (h : NoEmpty bufs) :
    eatBytes (encBuf pat) beq (encBufs bufs) = encEat bufs (eatGo ceq pat bufs) := by
  have hsim := goB_enc beq ceq P hA pat bufs hp h
  have hloop := loop_goB beq (encBufs bufs) (encBuf pat) 0 0 (Or.inr rfl)
  rw [view_zero, List.drop_zero, hsim] at hloop
  obtain ⟨hnp, hinv⟩ := eatGo_ok ceq pat bufs h
  unfold eatBytes
  cases hg : eatGo ceq pat bufs with
  | needMore => rw [hg] at hloop; simp only [encR, Agrees] at hloop; rw [hloop]; rfl
  | mismatch => rw [hg] at hloop; simp only [encR, Agrees] at hloop; rw [hloop]; rfl
  | panic => exact absurd hg hnp
  | matched rest =>
    rw [hg] at hloop
    simp only [encR, Agrees] at hloop
    obtain ⟨be, cfl, hl, hv, hi⟩ := hloop
    have hne : NoEmpty rest := hinv rest hg
    rw [hl]
    simp only [encEat, commit]
    unfold view at hv
    cases hd : (encBufs bufs).drop be with
    | nil =>
      rw [hd] at hv
      have hlen : (encBufs bufs).length ≤ be := List.drop_eq_nil_iff.mp hd
      have h0 : cfl = 0 := by
        rcases hi with hi | hi
        · omega
        · exact hi
      simp [h0, ← hv]
    | cons b r =>
      rw [hd] at hv
      simp only at hv
      -- the committed front buffer is the encoding of a non-empty char buffer
      match rest, hv, hne with
      | [], hv, _ => simp at hv
      | cur :: rest', hv, hne =>
        have hcur : cur ≠ [] := hne cur (by simp)
        simp only [encBufs_cons, List.cons.injEq] at hv
        obtain ⟨hv1, hv2⟩ := hv
        match cur, hcur, hv1 with
        | [], hcur, _ => exact absurd rfl hcur
        | c :: cs, _, hv1 =>
          obtain ⟨b0, r0, e0, hb0⟩ := enc_head c
          have hdrop : b.drop cfl = b0 :: (r0 ++ encBuf cs) := by
            rw [hv1, encBuf_cons, e0]; rfl
          dsimp only
          rw [isCharBoundary_of_drop hdrop hb0, if_pos rfl, hv1, hv2]
          rfl

/-! ## the two comparator pairs -/

/-- ASCII lower-casing on code points / byte values -/
def lowerNat (n : Nat) : Nat := if 65 ≤ n ∧ n ≤ 90 then n + 32 else n

theorem toLower_toNat (c : Char) : c.toLower.val.toNat = lowerNat c.val.toNat := by
  unfold Char.toLower lowerNat
  split
  · rename_i h
    have h1 : 65 ≤ c.val.toNat := by
      have := UInt32.le_iff_toNat_le.mp h.1; simpa using this
    have h2 : c.val.toNat ≤ 90 := by
      have := UInt32.le_iff_toNat_le.mp h.2; simpa using this
    rw [if_pos ⟨h1, h2⟩]
    show (c.val + ('a'.val - 'A'.val)).toNat = _
    rw [UInt32.toNat_add]
    have : ('a'.val - 'A'.val).toNat = 32 := by decide
    rw [this]; omega
  · rename_i h
    have : ¬ (65 ≤ c.val.toNat ∧ c.val.toNat ≤ 90) := by
      intro ⟨h1, h2⟩
      apply h
      constructor
      · apply UInt32.le_iff_toNat_le.mpr; simpa using h1
      · apply UInt32.le_iff_toNat_le.mpr; simpa using h2
    rw [if_neg this]

theorem or32 (n : Nat) (h1 : 65 ≤ n) (h2 : n ≤ 90) : n ||| 32 = n + 32 := by
  have : n = 65 ∨ n = 66 ∨ n = 67 ∨ n = 68 ∨ n = 69 ∨ n = 70 ∨ n = 71 ∨ n = 72 ∨ n = 73 ∨ n = 74 ∨
      n = 75 ∨ n = 76 ∨ n = 77 ∨ n = 78 ∨ n = 79 ∨ n = 80 ∨ n = 81 ∨ n = 82 ∨ n = 83 ∨ n = 84 ∨
      n = 85 ∨ n = 86 ∨ n = 87 ∨ n = 88 ∨ n = 89 ∨ n = 90 := by omega
  rcases this with h | h | h | h | h | h | h | h | h | h | h | h | h | h | h | h | h | h | h | h |
    h | h | h | h | h | h <;> subst h <;> rfl


theorem byteLower_toNat (b : UInt8) : (byteLower b).toNat = lowerNat b.toNat := by
  unfold byteLower lowerNat
  have hb := b.toNat_lt
  by_cases h : 0x41 ≤ b ∧ b ≤ 0x5A
  · have h1 : 65 ≤ b.toNat := by have := UInt8.le_iff_toNat_le.mp h.1; simpa using this
    have h2 : b.toNat ≤ 90 := by have := UInt8.le_iff_toNat_le.mp h.2; simpa using this
    rw [if_pos h, if_pos ⟨h1, h2⟩, UInt8.toNat_or]
    exact or32 _ h1 h2
  · have : ¬ (65 ≤ b.toNat ∧ b.toNat ≤ 90) := by
      intro ⟨h1, h2⟩
      exact h ⟨UInt8.le_iff_toNat_le.mpr (by simpa using h1), UInt8.le_iff_toNat_le.mpr (by simpa using h2)⟩
    rw [if_neg h, if_neg this]

theorem byteEq_iff {a b : UInt8} : byteEq a b = true ↔ a = b := by simp [byteEq]

theorem byteEqCi_eq (a b : UInt8) : byteEqCi a b = decide (lowerNat a.toNat = lowerNat b.toNat) := by
  unfold byteEqCi
  rw [← byteLower_toNat, ← byteLower_toNat]
  by_cases h : byteLower a = byteLower b
  · simp [h]
  · have : ¬ (byteLower a).toNat = (byteLower b).toNat := fun h' => h (UInt8.toNat_inj.mp h')
    rw [beq_eq_false_iff_ne.mpr h, decide_eq_false this]

theorem ceqCi_eq (c p : Char) :
    (c.toLower == p.toLower) = decide (lowerNat c.val.toNat = lowerNat p.val.toNat) := by
  rw [← toLower_toNat, ← toLower_toNat]
  by_cases h : c.toLower = p.toLower
  · simp [h]
  · have : ¬ c.toLower.val.toNat = p.toLower.val.toNat := fun h' => h (char_eq_of_toNat h')
    rw [beq_eq_false_iff_ne.mpr h, decide_eq_false this]

/-- plain byte equality against plain character equality: every pattern character is fine -/
theorem stepAgree_exact : StepAgree byteEq (fun a b => a == b) (fun _ => True) := by
  intro c p _ ps tail R
  by_cases hcp : c = p
  · subst hcp
    simp only [beq_self_eq_true, if_true]
    exact goB_append_same byteEq _ (enc_ne_nil c) (fun x _ => by simp [byteEq]) ps tail R
  · have hf : (c == p) = false := by simpa using hcp
    simp only [hf, Bool.false_eq_true, if_false]
    obtain ⟨l, x, l1, y, l2, e1, e2, hxy⟩ := enc_diverge hcp
    rw [e1, e2, List.append_assoc, List.append_assoc, List.cons_append, List.cons_append]
    refine goB_append_diff byteEq x y ?_ l (fun z _ => by simp [byteEq]) _ _ R
    simpa [byteEq] using fun h => hxy h.symm

/-- `u8::eq_ignore_ascii_case` against `Char.toLower`-equality: every pattern character is fine -/
theorem stepAgree_ci :
    StepAgree byteEqCi (fun a b => a.toLower == b.toLower) (fun _ => True) := by
  intro c p _ ps tail R
  simp only [ceqCi_eq, decide_eq_true_eq]
  by_cases hc : c.val.toNat < 128
  · by_cases hp : p.val.toNat < 128
    · -- both ASCII: one byte each
      rw [enc_ascii hc, enc_ascii hp]
      simp only [List.cons_append, List.nil_append, goB_cons_cons, byteEqCi_eq, UInt8.toNat_ofNat', decide_eq_true_eq]
      have h1 : c.val.toNat % 2 ^ 8 = c.val.toNat := Nat.mod_eq_of_lt (by omega)
      have h2 : p.val.toNat % 2 ^ 8 = p.val.toNat := Nat.mod_eq_of_lt (by omega)
      rw [h1, h2]
    · -- ASCII buffer character, non-ASCII pattern character
      obtain ⟨b0, b1, rest, e, h0, _⟩ := enc_nonascii (Nat.le_of_not_lt hp)
      rw [enc_ascii hc, e]
      simp only [List.cons_append, List.nil_append, goB_cons_cons, byteEqCi_eq, UInt8.toNat_ofNat', decide_eq_true_eq]
      have hne : ¬ lowerNat (c.val.toNat % 2 ^ 8) = lowerNat b0.toNat := by
        unfold lowerNat; split <;> split <;> omega
      have hne' : ¬ lowerNat c.val.toNat = lowerNat p.val.toNat := by
        unfold lowerNat; split <;> split <;> omega
      rw [if_neg hne, if_neg hne']
  · have hc' : 128 ≤ c.val.toNat := Nat.le_of_not_lt hc
    by_cases hp : p.val.toNat < 128
    · -- non-ASCII buffer character, ASCII pattern character
      obtain ⟨b0, b1, rest, e, h0, _⟩ := enc_nonascii hc'
      rw [enc_ascii hp, e]
      simp only [List.cons_append, List.nil_append, goB_cons_cons, byteEqCi_eq, UInt8.toNat_ofNat', decide_eq_true_eq]
      have hne : ¬ lowerNat b0.toNat = lowerNat (p.val.toNat % 2 ^ 8) := by
        unfold lowerNat; split <;> split <;> omega
      have hne' : ¬ lowerNat c.val.toNat = lowerNat p.val.toNat := by
        unfold lowerNat; split <;> split <;> omega
      rw [if_neg hne, if_neg hne']
    · -- both non-ASCII: lowering is the identity on the characters and on all their bytes
      have hp' : 128 ≤ p.val.toNat := Nat.le_of_not_lt hp
      have hl : (lowerNat c.val.toNat = lowerNat p.val.toNat) ↔ c = p := by
        constructor
        · intro h
          apply char_eq_of_toNat
          revert h; unfold lowerNat; split <;> split <;> omega
        · rintro rfl; rfl
      by_cases hcp : c = p
      · subst hcp
        simp only [if_true]
        exact goB_append_same byteEqCi _ (enc_ne_nil c) (fun x _ => by simp [byteEqCi]) ps tail R
      · rw [if_neg (fun h => hcp (hl.mp h))]
        obtain ⟨l, x, l1, y, l2, e1, e2, hxy⟩ := enc_diverge hcp
        have hx : 128 ≤ x.toNat := enc_nonascii_bytes hp' x (by rw [e1]; simp)
        have hy : 128 ≤ y.toNat := enc_nonascii_bytes hc' y (by rw [e2]; simp)
        rw [e1, e2, List.append_assoc, List.append_assoc, List.cons_append, List.cons_append]
        refine goB_append_diff byteEqCi x y ?_ l (fun z _ => by simp [byteEqCi]) _ _ R
        rw [byteEqCi_eq]
        have : ¬ lowerNat y.toNat = lowerNat x.toNat := by
          intro h
          apply hxy
          apply UInt8.toNat_inj.mp
          revert h; unfold lowerNat; split <;> split <;> omega
        simp [this]

end H5V.Lemmas.BQBytes
