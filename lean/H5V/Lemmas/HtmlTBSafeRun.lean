import H5V.Lemmas.HtmlTBSafeRules0
import H5V.Lemmas.HtmlTBSafeTable
/-!
# Tree-builder safety, part 11: foreign content, `process_to_completion`, `process_token`, `end`

Everything here is parameterised by `AllSpec` (every rule, run in its own mode, re-establishes the
invariant); `H5V.Props.C04TB` instantiates it.
-/
namespace H5V.Lemmas.TBSafe
open H5V.Model.HtmlTB
open H5V.Model.Dom (Id QualName Attr NodeOrText SinkOp Output ElementFlags QuirksMode Dom NodeData Node)

variable {al : Allow}

/-! ### the foreign-content dispatcher is off in the modes that are not body-like -/

/-- the adjusted current node exists and is not an HTML element -/
def ForeignTop (s : State) : Prop := ∃ c, adjNode s = some c ∧ (nm s.dom c).ns ≠ nsHtml

theorem adjNode_top {s : State} {t : Id} (hl : s.openElems.getLast? = some t) (h2 : 2 ≤ s.openElems.length) :
    adjNode s = some t := by
  unfold adjNode
  rw [hl]
  have : (s.openElems.length == 1) = false := by
    cases h : s.openElems.length == 1 with
    | false => rfl
    | true => simp at h; omega
  simp [this]

theorem bodyLike_of_foreign {s : State} (ht : TI s) (hf : ForeignTop s) : bodyLike s.mode = true := by
  obtain ⟨c, hc, hns⟩ := hf
  have hstack := ht.s.stack
  cases hm : s.mode <;> try rfl
  · -- initial
    rw [hm] at hstack
    have : s.openElems = [] := hstack
    unfold adjNode at hc; rw [this] at hc; cases hc
  · rw [hm] at hstack
    have : s.openElems = [] := hstack
    unfold adjNode at hc; rw [this] at hc; cases hc
  · -- inHeadNoscript
    rw [hm] at hstack
    obtain ⟨⟨x, hx, _⟩, t, hl, hns'⟩ := hstack
    have h2 : 2 ≤ s.openElems.length := by
      have h1 : 0 < s.openElems.dropLast.length := List.length_pos_of_mem hx
      rw [List.length_dropLast] at h1; omega
    rw [adjNode_top hl h2] at hc; cases hc
    exact absurd hns' hns
  · -- text
    rw [hm] at hstack
    obtain ⟨t, hl, hns'⟩ := hstack
    obtain ⟨om, _, _, h2, _, _⟩ := ht.s.text hm
    rw [adjNode_top hl h2] at hc; cases hc
    exact absurd hns' hns

theorem bodyLike_ne_text {m : Mode} (h : bodyLike m = true) : m ≠ .text := by
  rintro rfl; revert h; decide

/-! ### `step_foreign` -/

theorem sat_foreignStartTag {tag : Tag} {s : State} (ht : TI s) (hf : ForeignTop s) :
    Sat (foreignStartTag tag) s (StepPost (.tag tag)) := by
  have hbl := bodyLike_of_foreign ht hf
  have hpre : preRoot s.mode = false := by
    cases hm : s.mode <;> simp [bodyLike, hm, preRoot] at hbl ⊢
  have hr := ht.rooted hpre
  obtain ⟨c, hc, hns⟩ := hf
  obtain ⟨top, hl⟩ := getLast?_of_ne_nil (PlaceOk.of_hinv ht.h hr).ne
  unfold foreignStartTag
  refine (sat_adjustedCurrentNode' hl).bind ?_
  rintro cur s0 ⟨rfl, hadj⟩
  rw [hc] at hadj; cases hadj
  refine (sat_elemName (adjNode_el ht.h hc)).bind ?_
  rintro n s1 ⟨rfl, hq1⟩
  dsimp only
  have ht1 : TI s1 := ht.of_qf hq1
  have hr1 : Rooted s1.dom s1.openElems := ht1.rooted (by rw [hq1.mode]; exact hpre)
  have hnew : ∀ name, NewOk ⟨(nm s0.dom c).ns, name⟩ := by
    intro name
    constructor
    · intro h; simp only [tmplName, EName.mk.injEq] at h; exact hns h.1
    · intro h; simp only [headName, EName.mk.injEq] at h; exact hns h.1
  have hfin : ∀ {pushIt : Bool} {name : Str} {r : Id} {res : ProcessResult} {s2 : State},
      Inserted s1 s2 r (nm s0.dom c).ns name pushIt → nextMode res s2.mode = s2.mode → ResOk (.tag tag) res →
      StepPost (.tag tag) res s2 := by
    intro pushIt name r res s2 hins hn hro
    have hb : BStep s1 s2 := BStep.of_inserted ht1.h hr1 hins (hnew name)
    exact StepPost.of_bstep ht1 (by rw [hq1.mode]; exact hbl) hb (Keeps.of_inserted hins) hn hro
  have hins : ∀ (tag' : Tag), Sat (if tag'.selfClosing = true then do
        let _ ← insertElement false (nm s0.dom c).ns tag'.name tag'.attrs tag'.hadDup
        pure ProcessResult.doneAckSelfClosing
      else do
        let _ ← insertElement true (nm s0.dom c).ns tag'.name tag'.attrs tag'.hadDup
        pure ProcessResult.done) s1 (StepPost (Token.tag tag)) := by
    intro tag'
    split
    · refine (sat_insertElement (PlaceOk.of_hinv ht1.h hr1)).bind ?_
      intro r s2 hins
      refine sat_pure ?_
      exact hfin hins rfl trivial
    · refine (sat_insertElement (PlaceOk.of_hinv ht1.h hr1)).bind ?_
      intro r s2 hins
      refine sat_pure ?_
      exact hfin hins rfl trivial
  exact hins _

theorem keeps_html_of_pops {s s' : State} {pre post : List Id} (heq : s.openElems = pre ++ post)
    (ho : s'.openElems = pre) (hp : ∀ y ∈ post, (nm s.dom y).ns ≠ nsHtml) :
    Keeps (fun n => n.ns == nsHtml) s s' :=
  Keeps.of_pops heq ho (fun y hy => by simpa using hp y hy)

theorem sat_unexpectedStartTagInForeignContent (hall : AllSpec) {tag : Tag} {s : State} (ht : TI s)
    (hbl : bodyLike s.mode = true) :
    Sat (unexpectedStartTagInForeignContent tag) s (StepPost (.tag tag)) := by
  have hpre : preRoot s.mode = false := by
    cases hm : s.mode <;> simp [bodyLike, hm, preRoot] at hbl ⊢
  unfold unexpectedStartTagInForeignContent
  refine sat_unexpected.bind ?_
  rintro _ s1 ⟨-, hq1⟩
  have ht1 : TI s1 := ht.of_qf hq1
  have hpre1 : preRoot s1.mode = false := by rw [hq1.mode]; exact hpre
  have hr1 := ht1.rooted hpre1
  refine sat_getS_bind ?_
  obtain ⟨r, rest, hl, hn⟩ := hr1
  obtain ⟨pre, post, x, heq, hx, hpx, hpost⟩ :=
    split_last_sat (p := fun h => (nm s1.dom h).ns == nsHtml) (l := s1.openElems)
      ⟨r, by rw [hl]; exact List.mem_cons_self, by rw [hn]; rfl⟩
  refine (sat_popToIntegrationPointLoop _ s1 pre post x ht1.h.open_el heq hx (by simpa using hpx)
    (by rw [heq]; simp; omega)).bind ?_
  rintro _ s2 ⟨post1, post2, hp, st⟩
  have hne : pre ++ post1 ≠ [] := by
    intro e
    have : pre = [] := (List.append_eq_nil_iff.mp e).1
    rw [this] at hx; cases hx
  have heq2 : s1.openElems = (pre ++ post1) ++ post2 := by rw [heq, hp]; simp
  have hb : BStep s1 s2 := BStep.of_st ht1.h ⟨r, rest, hl, hn⟩ heq2 hne st
  have hk : Keeps (fun n => n.ns == nsHtml) s1 s2 :=
    keeps_html_of_pops heq2 st.openElems (fun y hy => by
      have := hpost y (by rw [hp]; exact List.mem_append_right _ hy)
      simpa using this)
  have ht2 : TI s2 := ⟨hb.hinv, by
    rw [hb.mode]
    exact ht1.s.of_bstep ht1.h hb (by rw [hq1.mode]; exact hbl) (Keeps.of_html hk)⟩
  refine sat_getS_bind ?_
  exact hall (.tag tag) s2 ht2 (fun h => absurd h (bodyLike_ne_text (by rw [hb.mode, hq1.mode]; exact hbl)))

theorem sat_foreignEndTagLoop (hall : AllSpec) {tag : Tag} : ∀ (n : Nat) (first : Bool) (s : State), TI s →
    bodyLike s.mode = true → n < s.openElems.length →
    (∀ i x, n < i → s.openElems[i]? = some x → (nm s.dom x).ns ≠ nsHtml) →
    (first = true → ∀ x, s.openElems[n]? = some x → 1 ≤ n → (nm s.dom x).ns ≠ nsHtml) →
    Sat (foreignEndTagLoop tag n first) s (StepPost (.tag tag)) := by
  intro n
  induction n with
  | zero =>
    intro first s ht hbl hlt _ _
    unfold foreignEndTagLoop
    refine sat_getS_bind ?_
    have hget : s.openElems[0]? = some s.openElems[0] := List.getElem?_eq_getElem hlt
    rw [hget]
    dsimp only
    refine Sat.bind (Q := fun nd s1 => s.openElems[0] = nd ∧ s = s1) (sat_pure ⟨rfl, rfl⟩) ?_
    rintro node s0 ⟨rfl, rfl⟩
    have hmem : s.openElems[0] ∈ s.openElems := List.getElem_mem hlt
    refine (sat_elemName (ht.h.open_el _ hmem)).bind ?_
    rintro nn s1 ⟨rfl, hq1⟩
    have ht1 : TI s1 := ht.of_qf hq1
    by_cases h1 : (!first && (nm s.dom s.openElems[0]).ns == nsHtml) = true
    · rw [if_pos h1]
      refine sat_getS_bind ?_
      exact hall (.tag tag) s1 ht1 (fun h => absurd h (bodyLike_ne_text (by rw [hq1.mode]; exact hbl)))
    · rw [if_neg h1]
      refine sat_pure ?_
      exact StepPost.of_qf ht hq1 rfl trivial
  | succ n ih =>
    intro first s ht hbl hlt habove hfirst
    have hpre : preRoot s.mode = false := by
      cases hm : s.mode <;> simp [bodyLike, hm, preRoot] at hbl ⊢
    unfold foreignEndTagLoop
    refine sat_getS_bind ?_
    have hget : s.openElems[n + 1]? = some s.openElems[n + 1] := List.getElem?_eq_getElem hlt
    rw [hget]
    dsimp only
    refine Sat.bind (Q := fun nd s1 => s.openElems[n + 1] = nd ∧ s = s1) (sat_pure ⟨rfl, rfl⟩) ?_
    rintro node s0 ⟨rfl, rfl⟩
    have hmem : s.openElems[n + 1] ∈ s.openElems := List.getElem_mem hlt
    have hel := ht.h.open_el _ hmem
    refine (sat_elemName hel).bind ?_
    rintro nn s1 ⟨rfl, hq1⟩
    have ht1 : TI s1 := ht.of_qf hq1
    by_cases h1 : (!first && (nm s.dom s.openElems[n + 1]).ns == nsHtml) = true
    · rw [if_pos h1]
      refine sat_getS_bind ?_
      exact hall (.tag tag) s1 ht1 (fun h => absurd h (bodyLike_ne_text (by rw [hq1.mode]; exact hbl)))
    rw [if_neg h1]
    have hnode : (nm s.dom s.openElems[n + 1]).ns ≠ nsHtml := by
      cases first with
      | true => exact hfirst rfl _ hget (by omega)
      | false =>
        intro hh
        apply h1
        simp [hh]
    by_cases h2 : eqIgnoreAsciiCase (nm s.dom s.openElems[n + 1]).loc tag.name = true
    · rw [if_pos h2]
      refine sat_modS_bind ?_
      refine sat_pure ?_
      -- the stack is cut at index `n + 1`
      have hr1 := ht1.rooted (by rw [hq1.mode]; exact hpre)
      have heq : s1.openElems = s1.openElems.take (n + 1) ++ s1.openElems.drop (n + 1) :=
        (List.take_append_drop _ _).symm
      have hne : s1.openElems.take (n + 1) ≠ [] := by
        obtain ⟨r, rest, hl, _⟩ := hr1
        rw [hl]; simp
      have st : St s1 { s1 with openElems := s1.openElems.take (n + 1) } (s1.openElems.take (n + 1)) :=
        ⟨(Fr.refl s1).withOpen _, rfl, rfl⟩
      have hb : BStep s1 { s1 with openElems := s1.openElems.take (n + 1) } := BStep.of_st ht1.h hr1 heq hne st
      have hk : Keeps (fun nn => nn.ns == nsHtml) s1 { s1 with openElems := s1.openElems.take (n + 1) } := by
        refine keeps_html_of_pops heq rfl ?_
        intro y hy
        obtain ⟨i, hiy⟩ := List.mem_iff_getElem?.mp hy
        rw [List.getElem?_drop] at hiy
        rw [hq1.openElems] at hiy
        have hyel : y ∈ s.openElems := List.mem_of_getElem? hiy
        rw [nm_ext hq1.ext (ht.h.open_el y hyel)]
        by_cases hi0 : i = 0
        · subst hi0
          simp only [Nat.add_zero] at hiy
          rw [hget] at hiy; cases hiy
          exact hnode
        · exact habove (n + 1 + i) y (by omega) hiy
      exact StepPost.of_bstep ht1 (by rw [hq1.mode]; exact hbl) hb (Keeps.of_html hk) rfl trivial
    rw [if_neg h2]
    have hcont : ∀ s2, QF s1 s2 → Sat (foreignEndTagLoop tag n false) s2 (StepPost (.tag tag)) := by
      intro s2 hq2
      have hq := hq1.trans hq2
      refine ih false s2 (ht.of_qf hq) (by rw [hq.mode]; exact hbl) (by rw [hq.openElems]; omega) ?_
        (fun h => by cases h)
      intro i x hi hx
      rw [hq.openElems] at hx
      have hxel : x ∈ s.openElems := List.mem_of_getElem? hx
      rw [nm_ext hq.ext (ht.h.open_el x hxel)]
      by_cases hi1 : i = n + 1
      · subst hi1
        rw [hget] at hx; cases hx
        exact hnode
      · exact habove i x (by omega) hx
    split
    · refine sat_unexpected.bind ?_
      rintro _ s2 ⟨-, hq2⟩
      exact hcont s2 hq2
    · exact hcont s1 (QF.refl _)

theorem sat_stepForeign (hall : AllSpec) {tok : Token} {s : State} (ht : TI s) (hf : ForeignTop s)
    (hne : tok ≠ .eof) : Sat (stepForeign tok) s (StepPost tok) := by
  have hbl := bodyLike_of_foreign ht hf
  have hpre : preRoot s.mode = false := by
    cases hm : s.mode <;> simp [bodyLike, hm, preRoot] at hbl ⊢
  have hplace := ht.place hpre
  unfold stepForeign
  cases tok with
  | eof => exact absurd rfl hne
  | nullChar =>
    dsimp only
    refine sat_unexpected.bind ?_
    rintro _ s1 ⟨-, hq1⟩
    refine (sat_appendText (hplace.of_qf hq1)).mono ?_
    rintro res s2 ⟨rfl, hq2⟩
    exact StepPost.of_qf ht (hq1.trans hq2) rfl trivial
  | chars st text =>
    dsimp only
    have hfin : ∀ s1, Same s s1 → PlaceOk s1 none → Sat (appendText text) s1 (StepPost (.chars st text)) := by
      intro s1 hs hp1
      refine (sat_appendText hp1).mono ?_
      rintro res s2 ⟨rfl, hq2⟩
      exact StepPost.of_same ht (hs.trans hq2.same) rfl trivial
    split
    · refine sat_setFramesetOk.bind ?_
      intro _ s1 hs
      refine hfin s1 hs (PlaceOk.of_hinv (ht.h.of_same hs) ?_)
      rw [hs.openElems]; exact (ht.rooted hpre).ext hs.fr.ext ht.h.open_el
    · exact hfin s (Same.refl s) hplace
  | comment text =>
    dsimp only
    refine (sat_appendComment hplace).mono ?_
    rintro res s2 ⟨rfl, hq2⟩
    exact StepPost.of_qf ht hq2 rfl trivial
  | tag tag =>
    dsimp only
    by_cases h1 : (tag.isStart foreignBreakoutStart || tag.isEnd ["br", "p"]) = true
    · rw [if_pos h1]; exact sat_unexpectedStartTagInForeignContent hall ht hbl
    rw [if_neg h1]
    by_cases h2 : tag.isStart ["font"] = true
    · rw [if_pos h2]
      split
      · exact sat_unexpectedStartTagInForeignContent hall ht hbl
      · exact sat_foreignStartTag ht hf
    rw [if_neg h2]
    by_cases h3 : (tag.kind == .startTag) = true
    · rw [if_pos h3]; exact sat_foreignStartTag ht hf
    rw [if_neg h3]
    refine sat_getS_bind ?_
    have hr := ht.rooted hpre
    have hlen : 0 < s.openElems.length := by
      obtain ⟨r, rest, hl, _⟩ := hr; rw [hl]; simp
    have hz : (s.openElems.length == 0) = false := by
      cases h : s.openElems.length == 0 with
      | false => rfl
      | true => have := beq_iff_eq.mp h; omega
    rw [hz]
    simp only [Bool.false_eq_true, if_false]
    refine sat_foreignEndTagLoop hall (s.openElems.length - 1) true s ht hbl (by omega) ?_ ?_
    · intro i x hi hx
      have : s.openElems.length ≤ i := by omega
      rw [List.getElem?_eq_none this] at hx; cases hx
    · intro _ x hx h1n
      obtain ⟨c, hc, hns⟩ := hf
      have hl : s.openElems.getLast? = some x := by rw [List.getLast?_eq_getElem?]; exact hx
      rw [adjNode_top hl (by omega)] at hc; cases hc
      exact hns

/-! ### `process_to_completion` -/

/-- `more_tokens` is non-empty only while a run of characters is being split -/
def MoreOk (tok : Token) (more : List Token) : Prop :=
  more = [] ∨ (isCharsTok tok = true ∧ ∀ t ∈ more, isCharsTok t = true)

/-- the protocol condition of `AllSpec` for the current state and token -/
def Prot [al : Allow] (s : State) (tok : Token) : Prop := s.mode = .text → al.text ∨ textTok tok = true

theorem textTok_of_chars {t : Token} (h : isCharsTok t = true) : textTok t = true := by
  cases t <;> first | rfl | (simp [isCharsTok] at h)

theorem isForeign_eof : isForeign .eof = pure false := by
  unfold isForeign; rfl

/-- the `match result with …` of `process_to_completion` -/
def ptcCont (fuel : Nat) (token : Token) (more : List Token) (result : ProcessResult) : M SinkResult := do
    let shouldAck : Bool := match token with
      | .tag t => t.selfClosing && t.kind == .startTag
      | _ => false
    match result with
    | .done =>
      if shouldAck then parseError "Unacknowledged self-closing tag"
      match more with
      | [] => pure .continue_
      | t :: rest => processToCompletion fuel t rest
    | .doneAckSelfClosing =>
      match more with
      | [] => pure .continue_
      | t :: rest => processToCompletion fuel t rest
    | .reprocess m t =>
      setMode m
      processToCompletion fuel t more
    | .reprocessForeign t => processToCompletion fuel t more
    | .splitWhitespace buf =>
      match popFrontCharRun buf with
      | none => pure .continue_
      | some (first, isWs, rest) =>
        let status := if isWs then SplitStatus.whitespace else .notWhitespace
        let more := if rest.length > 0 then more ++ [.chars .notSplit rest] else more
        processToCompletion fuel (.chars status first) more
    | .script node =>
      if !more.isEmpty then panicAt "assert" "mod.rs:393" "assert!(more_tokens.is_empty())"
      pure (.script node)
    | .toPlaintext =>
      if !more.isEmpty then panicAt "assert" "mod.rs:397" "assert!(more_tokens.is_empty())"
      pure .plaintext
    | .toRawData k =>
      if !more.isEmpty then panicAt "assert" "mod.rs:401" "assert!(more_tokens.is_empty())"
      pure (.rawData k)
    | .encodingIndicator e => pure (.encodingIndicator e)

/-- the next token of the queue -/
def ptcNext (fuel : Nat) (more : List Token) : M SinkResult :=
  match more with
  | [] => pure .continue_
  | t :: rest => processToCompletion fuel t rest

theorem processToCompletion_succ (fuel : Nat) (token : Token) (more : List Token) :
    processToCompletion (fuel + 1) token more =
      (do
        let result ← do
          if ← isForeign token then stepForeign token
          else step (← getS).mode token
        ptcCont fuel token more result) := rfl

theorem moreOk_nil_of_not_chars {tok : Token} {more : List Token} (h : MoreOk tok more)
    (hc : isCharsTok tok = false) : more = [] := by
  rcases h with h | ⟨h, _⟩
  · exact h
  · rw [hc] at h; cases h

theorem sat_ptcCont {fuel : Nat} {tok : Token} {more : List Token}
    (ih : ∀ tok more s, TI s → MoreOk tok more → Prot s tok →
      Sat (processToCompletion fuel tok more) s (fun _ s' => TI s'))
    {result : ProcessResult} {s1 : State} (hp : StepPost tok result s1) (hmo : MoreOk tok more) :
    Sat (ptcCont fuel tok more result) s1 (fun _ s' => TI s') := by
  have hnext : ∀ s2, TI s2 → Sat (ptcNext fuel more) s2 (fun _ s' => TI s') := by
    intro s2 ht2
    unfold ptcNext
    cases hmore : more with
    | nil => exact sat_pure ht2
    | cons t rest =>
      dsimp only
      have hall : ∀ x ∈ t :: rest, isCharsTok x = true := by
        rcases hmo with h | ⟨_, h⟩
        · rw [hmore] at h; cases h
        · rw [hmore] at h; exact h
      exact ih t rest s2 ht2
        (Or.inr ⟨hall t List.mem_cons_self, fun x hx => hall x (List.mem_cons_of_mem _ hx)⟩)
        (fun _ => Or.inr (textTok_of_chars (hall t List.mem_cons_self)))
  unfold ptcCont
  dsimp only
  cases result with
  | done =>
    dsimp only
    have ht1 : TI s1 := ⟨hp.h, hp.s⟩
    have hack : ∀ (c : Bool), Sat (if c = true then do
          parseError "Unacknowledged self-closing tag"
          ptcNext fuel more
        else ptcNext fuel more) s1 (fun _ s' => TI s') := by
      intro c
      split
      · exact sat_parseError.bind (fun _ s2 hq => hnext s2 (ht1.of_qf hq))
      · exact hnext s1 ht1
    exact hack _
  | doneAckSelfClosing => exact hnext s1 ⟨hp.h, hp.s⟩
  | reprocess m t =>
    dsimp only
    refine sat_setMode.bind ?_
    rintro _ s2 rfl
    have : t = tok := hp.r.1
    subst this
    exact ih t more _ ⟨hp.h.withMode m, hp.s.withMode m⟩ hmo (fun h => absurd h hp.r.2)
  | reprocessForeign t =>
    exact absurd hp.r id
  | splitWhitespace buf =>
    dsimp only
    cases hpf : popFrontCharRun buf with
    | none => exact sat_pure ⟨hp.h, hp.s⟩
    | some x =>
      obtain ⟨first, isWs, rest⟩ := x
      dsimp only
      refine ih _ _ s1 ⟨hp.h, hp.s⟩ ?_ (fun _ => Or.inr rfl)
      refine Or.inr ⟨rfl, ?_⟩
      intro t ht
      have hall : ∀ t ∈ more, isCharsTok t = true := by
        rcases hmo with h | ⟨_, h⟩
        · rw [h]; simp
        · exact h
      split at ht
      · rcases List.mem_append.mp ht with h | h
        · exact hall t h
        · rw [List.mem_singleton.mp h]; rfl
      · exact hall t ht
  | script node =>
    dsimp only
    have hm : more = [] := moreOk_nil_of_not_chars hmo hp.r
    subst hm
    exact sat_pure ⟨hp.h, hp.s⟩
  | toPlaintext =>
    dsimp only
    have hm : more = [] := moreOk_nil_of_not_chars hmo hp.r
    subst hm
    exact sat_pure ⟨hp.h, hp.s⟩
  | toRawData k =>
    dsimp only
    have hm : more = [] := moreOk_nil_of_not_chars hmo hp.r
    subst hm
    exact sat_pure ⟨hp.h, hp.s⟩
  | encodingIndicator e => exact sat_pure ⟨hp.h, hp.s⟩

theorem sat_processToCompletion (hall : AllSpec) (hfuel : al.fuel) :
    ∀ (fuel : Nat) (tok : Token) (more : List Token) (s : State),
    TI s → MoreOk tok more → Prot s tok → Sat (processToCompletion fuel tok more) s (fun _ s' => TI s') := by
  intro fuel
  induction fuel with
  | zero =>
    intro tok more s _ _ _
    unfold processToCompletion
    exact sat_throw (Benign.ptcFuel hfuel)
  | succ fuel ih =>
    intro tok more s ht hmo hprot
    rw [processToCompletion_succ]
    dsimp only
    by_cases heof : tok = .eof
    · subst heof
      rw [isForeign_eof]
      refine Sat.bind (Q := fun b s1 => b = false ∧ s = s1) (sat_pure ⟨rfl, rfl⟩) ?_
      rintro b s1 ⟨rfl, rfl⟩
      simp only [Bool.false_eq_true, if_false]
      refine sat_getS_bind ?_
      exact Sat.bind (hall .eof s ht (fun _ => Or.inr rfl)) (fun result s1 hp => sat_ptcCont ih hp hmo)
    · refine (sat_isForeign ht.h).bind ?_
      rintro b s1 ⟨hq, hb⟩
      have ht1 : TI s1 := ht.of_qf hq
      split
      · rename_i hbt
        obtain ⟨c, hc, hns⟩ := hb hbt
        have hf1 : ForeignTop s1 := by
          refine ⟨c, ?_, ?_⟩
          · unfold adjNode at hc ⊢
            rw [hq.openElems, hq.contextElem]; exact hc
          · rw [nm_ext hq.ext (adjNode_el ht.h hc)]; exact hns
        exact Sat.bind (sat_stepForeign hall ht1 hf1 heof) (fun result s2 hp => sat_ptcCont ih hp hmo)
      · refine sat_getS_bind ?_
        exact Sat.bind (hall tok s1 ht1 (by rw [hq.mode]; exact hprot))
          (fun result s2 hp => sat_ptcCont ih hp hmo)

/-! ### `process_token`, `end` -/

theorem sat_ite_jp {β : Type} {c : Prop} [Decidable c] {a : M PUnit} {k : PUnit → M β} {s : State}
    {Q : State → Prop} {R : β → State → Prop} (ha : c → Sat a s (fun _ s1 => Q s1)) (hn : ¬c → Q s)
    (hk : ∀ s1, Q s1 → Sat (k PUnit.unit) s1 R) : Sat (if c then a >>= k else k PUnit.unit) s R := by
  split
  · rename_i hc; exact (ha hc).bind (fun _ s1 h => hk s1 h)
  · rename_i hc; exact hk s (hn hc)

/-- the end of `process_token`: run the token (if any) to completion -/
def ptFinish (tbToken : Option Token) : M SinkResult :=
  match tbToken with
  | none => pure .continue_
  | some t => do processToCompletion (ptcFuel (← getS) t) t []

/-- the tokens a token source may send while the builder is in Text mode (the tokenizer protocol) -/
def okTextTok : TokToken → Bool
  | .tag t => t.kind == .endTag
  | .comment _ => false
  | .nullChar => false
  | _ => true

theorem sat_ptFinish (hall : AllSpec) (hfuel : al.fuel) {tb : Option Token} {s : State} (ht : TI s)
    (hprot : ∀ t, tb = some t → Prot s t) : Sat (ptFinish tb) s (fun _ s' => TI s') := by
  unfold ptFinish
  cases tb with
  | none => exact sat_pure ht
  | some t =>
    dsimp only
    refine sat_getS_bind ?_
    exact sat_processToCompletion hall hfuel _ t [] s ht (Or.inl rfl) (hprot t rfl)

theorem textTok_charsToken {b : Bool} {x : Str} {t : Token} (h : charsToken b x = some t) : textTok t = true := by
  unfold charsToken at h
  split at h
  · cases h
  · cases h; rfl

theorem sat_processToken (hall : AllSpec) (hfuel : al.fuel) {token : TokToken} {line : Nat} {s : State}
    (ht : TI s) (hprot : s.mode = .text → al.text ∨ okTextTok token = true) :
    Sat (processToken token line) s (fun _ s' => TI s') := by
  unfold processToken
  refine sat_getS_bind ?_
  dsimp only
  refine sat_ite_jp (Q := fun s1 => TI s1 ∧ s1.mode = s.mode)
    (fun _ => (sat_sinkUnit_total ⟨_, _, apply_setLine _ _⟩).mono (fun _ s1 hq => ⟨ht.of_qf hq, hq.mode⟩))
    (fun _ => ⟨ht, rfl⟩) ?_
  rintro s1 ⟨ht1, hm1⟩
  refine sat_getS_bind ?_
  refine sat_modS_bind ?_
  have ht2 : TI { s1 with ignoreLf := false } := ht1.withIgnoreLf false
  have hfin : ∀ (tb : Option Token) (s3 : State), TI s3 → (∀ t, tb = some t → Prot s3 t) →
      Sat (ptFinish tb) s3 (fun _ s' => TI s') :=
    fun tb s3 h3 hp3 => sat_ptFinish hall hfuel h3 hp3
  have hprot2 : ∀ t, (textTok t = true ∨ (okTextTok token = true → textTok t = true)) →
      Prot { s1 with ignoreLf := false } t := by
    intro t h hmt
    have hmt' : s.mode = .text := by rw [← hm1]; exact hmt
    rcases hprot hmt' with h1 | h1
    · exact Or.inl h1
    · rcases h with h | h
      · exact Or.inr h
      · exact Or.inr (h h1)
  cases token with
  | parseError e =>
    dsimp only
    refine (sat_sinkUnit_total ⟨_, _, apply_parseError _ _⟩).bind ?_
    intro _ s3 hq3
    refine sat_modS_bind ?_
    refine Sat.bind (Q := fun tb s4 => tb = none ∧ TI s4) (sat_pure ⟨rfl, (ht2.of_qf hq3).withIgnoreLf _⟩) ?_
    rintro tb s4 ⟨rfl, ht4⟩
    exact hfin none s4 ht4 (fun t h => by cases h)
  | doctype dt =>
    dsimp only
    refine sat_getS_bind ?_
    by_cases hmi : ({ s1 with ignoreLf := false } : State).mode = .initial
    · have hmi' : (({ s1 with ignoreLf := false } : State).mode == Mode.initial) = true := by
        rw [hmi]; rfl
      rw [if_pos hmi']
      refine sat_getS_bind ?_
      dsimp only
      have hS : ∀ s5, Same { s1 with ignoreLf := false } s5 →
          TI ({ s5 with mode := .beforeHtml } : State) := by
        intro s5 hs
        have ht5 : TI s5 := ht2.of_same hs
        have hm5 : s5.mode = .initial := by rw [hs.fr.mode]; exact hmi
        have hs5' : SInv .initial s5 := by rw [← hm5]; exact ht5.s
        refine ⟨ht5.h.withMode _, ?_⟩
        show SInv .beforeHtml { s5 with mode := .beforeHtml }
        refine SInv.withMode ?_ _
        exact ⟨(fun h => by cases h), hs5'.stack, (fun h => by cases h), hs5'.headIn, (fun h => by cases h),
          (fun h => by cases h), (fun _ => hs5'.pending (by decide)), hs5'.tmpl, hs5'.tmodes⟩
      refine sat_ite_jp (Q := fun s3 => Same { s1 with ignoreLf := false } s3)
        (fun _ => sat_parseError.mono (fun _ _ h => h.same)) (fun _ => Same.refl _) ?_
      intro s3 hs3
      refine sat_getS_bind ?_
      refine sat_ite_jp (Q := fun s4 => Same { s1 with ignoreLf := false } s4)
        (fun _ => (sat_sinkUnit_mut (op := SinkOp.appendDoctypeToDocument _ _ _) trivial).mono
          (fun _ _ h => hs3.trans h.same)) (fun _ => hs3) ?_
      intro s4 hs4
      refine sat_setQuirksMode.bind ?_
      intro _ s5 hs5
      refine sat_setMode.bind ?_
      rintro _ s6 rfl
      refine Sat.bind (Q := fun tb s7 => tb = none ∧ TI s7) (sat_pure ⟨rfl, hS s5 (hs4.trans hs5)⟩) ?_
      rintro tb s7 ⟨rfl, ht7⟩
      exact hfin none s7 ht7 (fun t h => by cases h)
    · have hmi' : (({ s1 with ignoreLf := false } : State).mode == Mode.initial) = false := by
        cases hm : ({ s1 with ignoreLf := false } : State).mode <;> first | rfl | exact absurd hm hmi
      rw [hmi']
      simp only [Bool.false_eq_true, if_false]
      refine sat_getS_bind ?_
      have hrest : ∀ s3, TI s3 → Sat (parseError "DOCTYPE in body" >>= fun _ =>
          (pure none : M (Option Token)) >>= fun tb => ptFinish tb) s3 (fun _ s' => TI s') := by
        intro s3 ht3
        refine sat_parseError.bind ?_
        intro _ s4 hq4
        refine Sat.bind (Q := fun tb s5 => tb = none ∧ TI s5) (sat_pure ⟨rfl, ht3.of_qf hq4⟩) ?_
        rintro tb s5 ⟨rfl, ht5⟩
        exact hfin none s5 ht5 (fun t h => by cases h)
      by_cases hmt : ({ s1 with ignoreLf := false } : State).mode = .inTableText
      · have hmt' : (({ s1 with ignoreLf := false } : State).mode == Mode.inTableText) = true := by
          rw [hmt]; rfl
        rw [if_pos hmt']
        refine (sat_flushPendingTableText ht2 hmt).bind ?_
        rintro m s3 ⟨hi3, hs3⟩
        refine sat_setMode.bind ?_
        rintro _ s4 rfl
        exact hrest _ ⟨hi3.withMode m, hs3.withMode m⟩
      · have hmt' : (({ s1 with ignoreLf := false } : State).mode == Mode.inTableText) = false := by
          cases hm : ({ s1 with ignoreLf := false } : State).mode <;> first | rfl | exact absurd hm hmt
        rw [hmt']
        simp only [Bool.false_eq_true, if_false]
        exact hrest _ ht2
  | tag t =>
    refine Sat.bind (Q := fun tb s4 => tb = some (.tag t) ∧ s4 = { s1 with ignoreLf := false }) (sat_pure ⟨rfl, rfl⟩) ?_
    rintro tb s4 ⟨rfl, rfl⟩
    exact hfin (some (.tag t)) _ ht2 (fun t' h => by cases h; exact hprot2 _ (Or.inr (fun h => h)))
  | comment c =>
    refine Sat.bind (Q := fun tb s4 => tb = some (.comment c) ∧ s4 = { s1 with ignoreLf := false }) (sat_pure ⟨rfl, rfl⟩) ?_
    rintro tb s4 ⟨rfl, rfl⟩
    exact hfin (some (.comment c)) _ ht2 (fun t' h => by cases h; exact hprot2 _ (Or.inr (fun h => by cases h)))
  | nullChar =>
    refine Sat.bind (Q := fun tb s4 => tb = some .nullChar ∧ s4 = { s1 with ignoreLf := false }) (sat_pure ⟨rfl, rfl⟩) ?_
    rintro tb s4 ⟨rfl, rfl⟩
    exact hfin (some .nullChar) _ ht2 (fun t' h => by cases h; exact hprot2 _ (Or.inr (fun h => by cases h)))
  | eof =>
    refine Sat.bind (Q := fun tb s4 => tb = some .eof ∧ s4 = { s1 with ignoreLf := false }) (sat_pure ⟨rfl, rfl⟩) ?_
    rintro tb s4 ⟨rfl, rfl⟩
    exact hfin (some .eof) _ ht2 (fun t' h => by cases h; exact hprot2 _ (Or.inl rfl))
  | chars x =>
    refine Sat.bind (Q := fun tb s4 => tb = charsToken s1.ignoreLf x ∧ s4 = { s1 with ignoreLf := false })
      (sat_pure ⟨rfl, rfl⟩) ?_
    rintro tb s4 ⟨rfl, rfl⟩
    exact hfin _ _ ht2 (fun t' h => hprot2 _ (Or.inl (textTok_charsToken h)))

/-- a token list keeps the tokenizer protocol: whenever the builder is in Text mode, the next token is
a character token, an end tag, EOF (or a parse error / doctype, which the builder does not dispatch) -/
def Respects : State → List (TokToken × Nat) → Prop
  | _, [] => True
  | s, (t, line) :: rest =>
    (s.mode = .text → okTextTok t = true) ∧
    ∀ r s', (processToken t line).run s = .ok (r, s') → Respects s' rest

theorem sat_with_run {α : Type} {m : M α} {s : State} {Q : α → State → Prop} (h : Sat m s Q) :
    Sat m s (fun a s' => Q a s' ∧ m.run s = .ok (a, s')) := by
  unfold Sat at h ⊢
  show match m s with | .ok (a, s') => Q a s' ∧ m s = .ok (a, s') | .error e => Benign e
  cases hr : m s with
  | error e => rw [hr] at h; exact h
  | ok r => obtain ⟨a, s'⟩ := r; rw [hr] at h; exact ⟨h, rfl⟩

theorem sat_processTokens (hall : AllSpec) (hfuel : al.fuel) :
    ∀ (toks : List (TokToken × Nat)) (acc : List SinkResult) (s : State),
    TI s → (al.text ∨ Respects s toks) → Sat (processTokens toks acc) s (fun _ s' => TI s') := by
  intro toks
  induction toks with
  | nil => intro acc s ht _; exact sat_pure ht
  | cons t rest ih =>
    intro acc s ht hresp
    obtain ⟨tk, line⟩ := t
    unfold processTokens
    have hprot : s.mode = .text → al.text ∨ okTextTok tk = true := by
      intro hm
      rcases hresp with h | h
      · exact Or.inl h
      · exact Or.inr (h.1 hm)
    have h1 := sat_processToken (line := line) hall hfuel ht hprot
    -- keep the run equation for `Respects`
    have h2 := sat_with_run h1
    refine h2.bind ?_
    rintro r s1 ⟨ht1, hrun⟩
    refine ih _ s1 ht1 ?_
    rcases hresp with h | h
    · exact Or.inl h
    · exact Or.inr (h.2 r s1 hrun)

theorem sat_endLoop : ∀ (l : List Id) (s : State), Sat (endLoop l) s (fun _ _ => True) := by
  intro l
  induction l with
  | nil => intro s; exact sat_pure trivial
  | cons e rest ih =>
    intro s
    unfold endLoop
    refine (sat_sinkUnit_total ⟨_, _, apply_pop _ _⟩).bind ?_
    intro _ s1 _
    exact ih s1

/-- `TreeSink::end` never fails, from any state -/
theorem sat_finishTB {s : State} : Sat finishTB s (fun _ _ => True) := by
  unfold finishTB
  refine sat_getS_bind ?_
  refine sat_modS_bind ?_
  exact sat_endLoop _ _

end H5V.Lemmas.TBSafe
