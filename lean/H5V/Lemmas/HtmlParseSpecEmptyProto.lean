import H5V.Lemmas.HtmlParseSpecCdataFam
import H5V.Lemmas.HtmlParseSpecIgnoreLf
import H5V.Lemmas.HtmlParseSpecTextProto
import H5V.Lemmas.HtmlParseSpecAgree3
/-!
Capstone, part: **`EmptyOk` is a FACT about the joint run** (`parse_hist_empty`).

The tokenizer delivers an EMPTY character token for `<![CDATA[]]>` (and for U+0000 / end of input inside an empty
CDATA section).  `process_token` clears the tree builder's `ignore_lf` flag before it drops such a token, so the
model and the standard (which has no token there) would disagree on a following LF — if the flag could be set at
that moment.  It cannot:
* tokenizer side (`H5V.Lemmas.HtmlParseSpecCdataFam`): empty character tokens only come from the CDATA-section
  family of states, which is only entered when the sink said "CDATA allowed", and from which only character tokens,
  U+0000 tokens and parse errors are delivered;
* tree-builder side (`H5V.Lemmas.HtmlParseSpecIgnoreLf`): while `ignore_lf` is set the CDATA question is answered
  "no" (the adjusted current node is the `pre` / `listing` / `textarea` element just inserted), and character tokens,
  U+0000 tokens and parse errors do not set the flag;
* the joint invariant: tokenizer in the CDATA family ⇒ `ignore_lf` clear.
-/
namespace H5V.Lemmas.ParseSpec
open H5V.Model.HtmlTB
open H5V.Lemmas.TBSafe (TI)
open H5V.Model.HtmlTB.Joint (JState absorb polOf conv convTag toSinkRes)
open H5V.Lemmas.JointChunk
open H5V.Model.HtmlTok (Mach Out step clr)

/-- what is known of the tree builder between two tokens -/
structure TbInv (s : State) : Prop where
  ign : IgnQ s

theorem TbInv.step {s s' : State} {t : TokToken} {l : Nat} {r : SinkResult} (h : TbInv s)
    (hr : (processToken t l).run s = .ok (r, s')) : TbInv s' :=
  ⟨processToken_ignQ t l s s' r h.ign hr⟩

/-- tokens that keep a clear flag clear: characters, U+0000, parse errors, EOF (pause markers are not tokens) -/
def PlainTok : TTk → Prop
  | .chars _ => True | .nullChar => True | .error _ => True | .eof => True | .pause _ => True
  | _ => False

theorem conv_emptyChars {tok : TTk} (h : conv tok = some (TokToken.chars [])) : isEmptyChars tok = true := by
  cases tok <;> simp [conv] at h
  subst h; rfl

/-- a delivery without empty character tokens, or of plain tokens with the flag clear -/
theorem absorb_emptyOk : ∀ (toks : List (TTk × Nat)) (j j' : JState), absorb toks j = .ok j' → TbInv j.tb →
    ((∀ p ∈ toks, isEmptyChars p.1 = false) ∨ (j.tb.ignoreLf = false ∧ ∀ p ∈ toks, PlainTok p.1)) →
    EmptyOk j.tb (convAll toks) ∧ TbInv j'.tb ∧
      ((j.tb.ignoreLf = false ∧ ∀ p ∈ toks, PlainTok p.1) → j'.tb.ignoreLf = false)
  | [], j, j', h, hi, _ => by cases h; exact ⟨trivial, hi, fun h => h.1⟩
  | (t, line) :: rest, j, j', h, hi, hH => by
    rw [absorb_cons] at h
    rw [convAll_cons]
    cases hc : conv t with
    | none =>
      rw [hc] at h
      obtain ⟨a, b, c⟩ := absorb_emptyOk rest j j' h hi
        (hH.imp (fun h1 p hp => h1 p (by simp [hp])) (fun h2 => ⟨h2.1, fun p hp => h2.2 p (by simp [hp])⟩))
      exact ⟨a, b, fun h2 => c ⟨h2.1, fun p hp => h2.2 p (by simp [hp])⟩⟩
    | some tt =>
      rw [hc] at h
      simp only at h
      cases hp : (processToken tt line).run j.tb with
      | error e => rw [hp] at h; cases h
      | ok v =>
        obtain ⟨r, tb⟩ := v
        rw [hp] at h
        simp only at h
        by_cases hcnd : (!isTagT tt && r != .continue_) = true
        · rw [if_pos hcnd] at h; cases h
        · rw [if_neg hcnd] at h
          have hi1 := hi.step hp
          -- a plain token keeps a clear flag clear
          have hkeep : (j.tb.ignoreLf = false ∧ PlainTok t) → tb.ignoreLf = false := by
            rintro ⟨hlf, hpl⟩
            refine processToken_ignoreLf_clear tt line j.tb tb r hp hlf ?_
            cases t <;> simp [PlainTok] at hpl <;> simp [conv] at hc <;> subst hc
            · exact Or.inl ⟨_, rfl⟩
            · exact Or.inr (Or.inl rfl)
            · exact Or.inr (Or.inr (Or.inr (Or.inl rfl)))
            · exact Or.inr (Or.inr (Or.inl ⟨_, rfl⟩))
          obtain ⟨a, b, c⟩ := absorb_emptyOk rest _ j' h hi1
            (by
              rcases hH with h1 | h2
              · exact Or.inl (fun p hp => h1 p (by simp [hp]))
              · exact Or.inr ⟨hkeep ⟨h2.1, h2.2 (t, line) (by simp)⟩, fun p hp => h2.2 p (by simp [hp])⟩)
          refine ⟨?_, b, fun h2 => c ⟨hkeep ⟨h2.1, h2.2 (t, line) (by simp)⟩, fun p hp => h2.2 p (by simp [hp])⟩⟩
          show EmptyOk j.tb ((tt, line) :: convAll rest)
          refine ⟨fun he => ?_, fun r' s' hr' => ?_⟩
          · rcases hH with h1 | h2
            · have := h1 (t, line) (by simp)
              rw [he] at hc
              rw [conv_emptyChars hc] at this
              cases this
            · exact h2.1
          · rw [hp] at hr'
            cases hr'
            exact a

/-- the invariant of the joint loop: the registers of the tokenizer, the tree builder, and "CDATA family ⇒ flag clear" -/
structure EInv (m : Mach) (j : JState) : Prop where
  tmp : TmpInv m
  tb : TbInv j.tb
  cd : CdataFam m.state = true → j.tb.ignoreLf = false

theorem tbCdata_ignQ {j : JState} (hq : IgnQ j.tb) (h : tbCdata j = true) : j.tb.ignoreLf = false := by
  cases hlf : j.tb.ignoreLf with
  | false => rfl
  | true =>
    unfold tbCdata at h
    cases hr : adjustedCurrentNodeForeign.run j.tb with
    | error e => rw [hr] at h; cases h
    | ok v =>
      obtain ⟨b, s1⟩ := v
      rw [hr] at h
      simp only at h
      have := hq hlf b s1 hr
      rw [this] at h
      cases h

theorem joint_step_empty {o : TOpts} {m : Mach} {inp : H5V.Model.HtmlTok.Str} {j j1 : JState} (hm : m.out = [])
    {m1 : Mach} {i1 : H5V.Model.HtmlTok.Str} (hs : (step o (polOf j) m inp).pair? = some (m1, i1))
    (ha : absorb m1.out.reverse j = .ok j1) (hI : EInv m j) :
    EmptyOk j.tb (convAll m1.out.reverse) ∧ EInv (clr m1) j1 := by
  have htmp1 : TmpInv (clr m1) := step_tmpInv o (polOf j) m inp hI.tmp m1 i1 hs
  by_cases hc : CdataFam m.state = true
  · obtain ⟨new, hnew, hk⟩ := step_cdata o (polOf j) m inp hc m1 i1 hs
    rw [hm, List.append_nil] at hnew
    have hpl : ∀ p ∈ m1.out.reverse, PlainTok p.1 := by
      intro p hp
      have := hk p (by rw [← hnew]; exact List.mem_reverse.mp hp)
      rcases this with ⟨x, e⟩ | e | ⟨x, e⟩ <;> rw [e] <;> trivial
    obtain ⟨a, b, c⟩ := absorb_emptyOk _ j j1 ha hI.tb (Or.inr ⟨hI.cd hc, hpl⟩)
    exact ⟨a, htmp1, b, fun _ => c ⟨hI.cd hc, hpl⟩⟩
  · have hc' : CdataFam m.state = false := by
      cases h : CdataFam m.state
      · rfl
      · exact absurd h hc
    obtain ⟨new, hnew, hne, hent⟩ := step_notCdata o (polOf j) m inp hc' hI.tmp m1 i1 hs
    rw [hm, List.append_nil] at hnew
    obtain ⟨a, b, _⟩ := absorb_emptyOk _ j j1 ha hI.tb
      (Or.inl (fun p hp => hne p (by rw [← hnew]; exact List.mem_reverse.mp hp)))
    refine ⟨a, htmp1, b, fun hc1 => ?_⟩
    -- the family was entered: the sink allowed CDATA, nothing was delivered
    obtain ⟨hok, hnil⟩ := hent hc1
    rw [hnil] at hnew
    rw [hnew] at ha
    have hj : j1 = j := by
      have : absorb [] j = .ok j1 := ha
      cases this; rfl
    subst hj
    rw [hm, polOf_cdataOk] at hok
    have hok' : tbCdata j1 = true := hok
    exact tbCdata_ignQ hI.tb.ign hok'

theorem jruns_empty {o : TOpts} {m : Mach} {inp : H5V.Model.HtmlTok.Str} {j : JState} {m' : Mach} {j' : JState} {D : Out}
    (h : JRunsD o m inp j m' j' D) :
    m.out = [] → EInv m j → EmptyOk j.tb (convAll D.reverse) ∧ EInv m' j' := by
  induction h with
  | @susp m inp j m1 j1 hs ha =>
    intro hm hI
    have hs' : (step o (polOf j) m inp).pair? = some (m1, []) := by rw [hs]; rfl
    rw [convAll_stepOut hs']
    exact joint_step_empty hm hs' ha hI
  | @scriptEnd m inp j m1 j1 hs ha =>
    intro hm hI
    have hs' : (step o (polOf j) m inp).pair? = some (m1, []) := by rw [hs]; rfl
    rw [convAll_stepOut hs']
    exact joint_step_empty hm hs' ha hI
  | @indicatorEnd m inp j m1 j1 hs ha =>
    intro hm hI
    have hs' : (step o (polOf j) m inp).pair? = some (m1, []) := by rw [hs]; rfl
    rw [convAll_stepOut hs']
    exact joint_step_empty hm hs' ha hI
  | @cont m inp j m1 i1 j1 m' j' D hs ha _ ih =>
    intro hm hI
    have hs' : (step o (polOf j) m inp).pair? = some (m1, i1) := by rw [hs]; rfl
    obtain ⟨a1, a2⟩ := joint_step_empty hm hs' ha hI
    obtain ⟨b1, b2⟩ := ih rfl a2
    rw [List.reverse_append, convAll_append, convAll_stepOut hs']
    exact ⟨emptyOk_append _ _ _ a1 (fun s' hs'' => by rw [hs''.det (absorb_tbRuns _ _ _ ha)]; exact b1), b2⟩
  | @script m inp j m1 i1 j1 m' j' D hs ha _ _ ih =>
    intro hm hI
    have hs' : (step o (polOf j) m inp).pair? = some (m1, i1) := by rw [hs]; rfl
    obtain ⟨a1, a2⟩ := joint_step_empty hm hs' ha hI
    obtain ⟨b1, b2⟩ := ih rfl a2
    rw [List.reverse_append, convAll_append, convAll_stepOut hs']
    exact ⟨emptyOk_append _ _ _ a1 (fun s' hs'' => by rw [hs''.det (absorb_tbRuns _ _ _ ha)]; exact b1), b2⟩
  | @indicator m inp j m1 i1 j1 m' j' D hs ha _ _ ih =>
    intro hm hI
    have hs' : (step o (polOf j) m inp).pair? = some (m1, i1) := by rw [hs]; rfl
    obtain ⟨a1, a2⟩ := joint_step_empty hm hs' ha hI
    obtain ⟨b1, b2⟩ := ih rfl a2
    rw [List.reverse_append, convAll_append, convAll_stepOut hs']
    exact ⟨emptyOk_append _ _ _ a1 (fun s' hs'' => by rw [hs''.det (absorb_tbRuns _ _ _ ha)]; exact b1), b2⟩
where
  emptyOk_append : ∀ (p q : List (TokToken × Nat)) (s : State), EmptyOk s p →
      (∀ s', TbRuns s p s' → EmptyOk s' q) → EmptyOk s (p ++ q)
    | [], _, s, _, h => h s (TbRuns.nil s)
    | (_, _) :: p, q, _, hp, h =>
      ⟨hp.1, fun r s1 hr => emptyOk_append p q s1 (hp.2 r s1 hr) (fun s' hrun => h s' (TbRuns.cons hr hrun))⟩

theorem emptyOk_append' : ∀ (p q : List (TokToken × Nat)) (s : State), EmptyOk s p →
    (∀ s', TbRuns s p s' → EmptyOk s' q) → EmptyOk s (p ++ q)
  | [], _, s, _, h => h s (TbRuns.nil s)
  | (_, _) :: p, q, _, hp, h =>
    ⟨hp.1, fun r s1 hr => emptyOk_append' p q s1 (hp.2 r s1 hr) (fun s' hrun => h s' (TbRuns.cons hr hrun))⟩

/-! ### `Parser::finish` -/

theorem finish_empty {o : TOpts} {m : Mach} {j jf : JState} {Dp : Out} {m1 : Mach} {inp : H5V.Model.HtmlTok.Str}
    {j1 : JState} {D2 : Out} {m2 : Mach} {j2 : JState} {m3 : Mach} {j3 : JState}
    (d : FinishData o m j jf Dp m1 inp j1 D2 m2 j2 m3 j3) (hm : m.out = []) (hI : EInv m j) :
    EmptyOk j.tb (convAll (m3.out ++ (D2 ++ Dp)).reverse) := by
  -- the flush of a pending character reference
  have hpro : EmptyOk j.tb (convAll Dp.reverse) ∧ m1.out = [] ∧ EInv (m1.setAtEof true) j1 ∧
      TbRuns j.tb (convAll Dp.reverse) j1.tb := by
    rcases d.pro with ⟨_, rfl, rfl, _, rfl⟩ | ⟨cr, ma, chars, mb, hcr, hce, hpc, rfl, rfl, hab⟩
    · exact ⟨trivial, hm, ⟨hI.tmp, hI.tb, hI.cd⟩, TbRuns.nil _⟩
    · have hr := absorb_tbRuns _ _ _ hab
      obtain ⟨new, hnew, hne, hst, htb⟩ := crEof_processCharRef_nonEmpty o m cr ma inp chars mb .cont hce hpc
      rw [hm, List.append_nil] at hnew
      have htmp : TmpInv ((clr mb).setAtEof true) := by
        intro ⟨k, hk⟩
        have hk' : mb.state = .rawEndTagName k := hk
        show mb.tempBuf ≠ []
        rw [htb]
        exact hI.tmp ⟨k, by rw [← hst]; exact hk'⟩
      by_cases hc : CdataFam m.state = true
      · obtain ⟨new', hnew', hk, _, _⟩ := crEof_processCharRef_out o m cr ma inp chars mb .cont hce hpc
        rw [hm, List.append_nil] at hnew'
        have hpl : ∀ p ∈ mb.out.reverse, PlainTok p.1 := by
          intro p hp
          have := hk p (by rw [← hnew']; exact List.mem_reverse.mp hp)
          rcases this with ⟨x, e⟩ | ⟨x, e⟩ | e <;> rw [e] <;> trivial
        obtain ⟨a, b, c⟩ := absorb_emptyOk _ j j1 hab hI.tb (Or.inr ⟨hI.cd hc, hpl⟩)
        exact ⟨a, rfl, ⟨htmp, b, fun _ => c ⟨hI.cd hc, hpl⟩⟩, hr⟩
      · obtain ⟨a, b, _⟩ := absorb_emptyOk _ j j1 hab hI.tb
          (Or.inl (fun p hp => hne p (by rw [← hnew]; exact List.mem_reverse.mp hp)))
        refine ⟨a, rfl, ⟨htmp, b, fun hc1 => ?_⟩, hr⟩
        have : CdataFam mb.state = true := hc1
        rw [hst] at this
        exact absurd this hc
  obtain ⟨p1, p2, p3, p4⟩ := hpro
  -- the final run
  obtain ⟨r1, r2⟩ := jruns_empty d.run (by show m1.out = []; exact p2) p3
  have r5 : TbRuns j1.tb (convAll D2.reverse) j2.tb :=
    (jruns_text_runs d.run (by show m1.out = []; exact p2))
  -- `eof_step`
  have hm2 : m2.out = [] := (d.hist (j0 := j) hm [] rfl).2.2.2.1
  have heof : EmptyOk j2.tb (convAll m3.out.reverse) := by
    by_cases hc : CdataFam m2.state = true
    · obtain ⟨new, hnew, hk⟩ := eofLoop_cdata o 8 m2 m3 hc d.eof
      rw [hm2, List.append_nil] at hnew
      have hpl : ∀ p ∈ m3.out.reverse, PlainTok p.1 := by
        intro p hp
        have := hk p (by rw [← hnew]; exact List.mem_reverse.mp hp)
        rcases this with ⟨x, e⟩ | ⟨x, e⟩ | e <;> rw [e] <;> trivial
      exact (absorb_emptyOk _ j2 j3 d.abs r2.tb (Or.inr ⟨r2.cd hc, hpl⟩)).1
    · have hc' : CdataFam m2.state = false := by
        cases h : CdataFam m2.state
        · rfl
        · exact absurd h hc
      obtain ⟨new, hnew, hne⟩ := eofLoop_notCdata o 8 m2 m3 hc' r2.tmp d.eof
      rw [hm2, List.append_nil] at hnew
      exact (absorb_emptyOk _ j2 j3 d.abs r2.tb
        (Or.inl (fun p hp => hne p (by rw [← hnew]; exact List.mem_reverse.mp hp)))).1
  rw [List.reverse_append, List.reverse_append, convAll_append, convAll_append]
  refine emptyOk_append' _ _ _ (emptyOk_append' _ _ _ p1 (fun s' hs' => ?_)) (fun s' hs' => ?_)
  · rw [hs'.det p4]; exact r1
  · rw [hs'.det (p4.append r5)]; exact heof

/-! ### the whole parse -/

/-- **`EmptyOk` holds along every successful joint parse of a document** -/
theorem parse_hist_empty {o : TOpts} {N : Nat} {m0 : Mach} {j0 : JState} {s : H5V.Model.HtmlTok.Str} {jf : JState}
    (hs : H5V.Props.C03.Start m0) (h : H5V.Props.C03.parseChunks o N m0 j0 [s] = .ok jf) (hI : EInv m0 j0) :
    ∃ Hf j3, ParseHist o m0 j0 s jf Hf j3 ∧ EmptyOk j0.tb (convAll Hf.reverse) := by
  obtain ⟨m1, j1, D1, Dp, mx, inp, jx, D2, m2, j2, m3, j3, hfeedJ, d, ph⟩ := parse_hist' hs h
  refine ⟨_, _, ph, ?_⟩
  have hm0 : m0.out = [] := hs.out
  have hfeed : EmptyOk j0.tb (convAll D1.reverse) ∧ m1.out = [] ∧ EInv m1 j1 ∧ TbRuns j0.tb (convAll D1.reverse) j1.tb := by
    rcases hfeedJ with ⟨_, rfl, rfl, rfl⟩ | ⟨hne, hr⟩
    · exact ⟨trivial, hm0, hI, TbRuns.nil _⟩
    · have hb : (H5V.Model.HtmlTok.feedBom m0 s).1.out = [] := by
        rcases H5V.Props.C03.feedBom_fst m0 s with e | e <;> rw [e] <;> exact hm0
      have hIb : EInv (H5V.Model.HtmlTok.feedBom m0 s).1 j0 := by
        rcases H5V.Props.C03.feedBom_fst m0 s with e | e <;> rw [e]
        · exact hI
        · exact ⟨hI.tmp, hI.tb, hI.cd⟩
      obtain ⟨a1, a2⟩ := jruns_empty hr hb hIb
      exact ⟨a1, (jruns_star (j0 := j0) hr hb [] rfl).2.1, a2, jruns_text_runs hr hb⟩
  obtain ⟨f1, f2, f3, f4⟩ := hfeed
  have hfin := finish_empty d f2 f3
  have e : (m3.out ++ (D2 ++ (Dp ++ D1))).reverse = D1.reverse ++ (m3.out ++ (D2 ++ Dp)).reverse := by
    simp [List.reverse_append, List.append_assoc]
  rw [e, convAll_append]
  refine emptyOk_append' _ _ _ f1 (fun s' hs' => ?_)
  rw [hs'.det f4]
  exact hfin

end H5V.Lemmas.ParseSpec
