import H5V.Lemmas.HtmlTBSafeBody3
/-!
# Tree-builder safety: the `InBody` rules (`stepInBody`) reach no panic site and re-establish the invariant

`stepInBody_spec`: `BodySpec`, given the specifications of the delegates (`InHead` rules, the EOF arm of
`InTemplate`, "any other end tag", the adoption agency, `handle_misnested_a_tags`).
The arms are proved in HtmlTBSafeBody2/3 (namespace `IB`); here the `if … else if …` chain is walked.
-/
set_option linter.unusedVariables false
namespace H5V.Lemmas.TBSafe
open H5V.Model.HtmlTB
open H5V.Model.Dom (Id QualName Attr NodeOrText SinkOp Output ElementFlags QuirksMode Dom NodeData Node)

variable {al : Allow}

namespace IB

theorem newOk_start {tag : Tag} {l : List String} (h : tag.isStart l = true)
    (hd : ∀ x ∈ l, x ∉ ["template", "head"] := by decide) : NewOk ⟨nsHtml, tag.name⟩ :=
  newOk_of_in hd (isStart_name h).2

theorem newOk_end {tag : Tag} {l : List String} (h : tag.isEnd l = true)
    (hd : ∀ x ∈ l, x ∉ ["template", "head"] := by decide) : NewOk ⟨nsHtml, tag.name⟩ :=
  newOk_of_in hd (isEnd_name h).2

theorem start_sub {tag : Tag} {l l2 : List String} (h : tag.isStart l = true)
    (hs : ∀ x ∈ l, x ∈ l2 := by decide) : isOneOf tag.name l2 = true := isOneOf_sub hs (isStart_name h).2

theorem end_sub {tag : Tag} {l l2 : List String} (h : tag.isEnd l = true)
    (hs : ∀ x ∈ l, x ∈ l2 := by decide) : isOneOf tag.name l2 = true := isOneOf_sub hs (isEnd_name h).2

theorem end_disj {tag : Tag} {l l2 : List String} (h : tag.isEnd l = true)
    (hd : ∀ x ∈ l, x ∉ l2 := by decide) : isOneOf tag.name l2 = false := isOneOf_disj hd (isEnd_name h).2

/-- the tag tokens -/
theorem stepInBody_tag (hh : HeadSpec) (het : EndTagSpec) (haa : AgencySpec) (hmis : MisnestedSpec)
    {tag : Tag} {s : State} (c : Ctx s) (htd : s.mode = .inCell → isTagEnd (.tag tag) ["td", "th"] = false) :
    Sat (stepInBody (.tag tag)) s
      (fun res s' => StepPost (.tag tag) res s' ∧ (isCharsTok (.tag tag) = true → res = .done)) := by
  have hi := c.hi
  have hr := c.hr
  unfold stepInBody
  dsimp only
  by_cases h1 : tag.isStart ["html"] = true
  · rw [if_pos h1]
    exact fin_tag c ((sat_inBodyHtml hi hr).mono (fun r s' h => ⟨Or.inl h.1, BK.of_qf hi hr h.2⟩))
  rw [if_neg h1]
  by_cases h2 : (tag.isStart ["base", "basefont", "bgsound", "link", "meta", "noframes", "script", "style", "template", "title"] || tag.isEnd ["template"]) = true
  · rw [if_pos h2]
    exact fin_post (hh (.tag tag) s c.ti c.origOk (Or.inr h2))
  rw [if_neg h2]
  by_cases h3 : tag.isStart ["body"] = true
  · rw [if_pos h3]
    exact fin_tag c (arm_body hi hr)
  rw [if_neg h3]
  by_cases h4 : tag.isStart ["frameset"] = true
  · rw [if_pos h4]
    exact fin_post (arm_frameset c (newOk_start h4))
  rw [if_neg h4]
  by_cases h5 : tag.isEnd ["body"] = true
  · rw [if_pos h5]
    exact fin_post (arm_endBody c)
  rw [if_neg h5]
  by_cases h6 : tag.isEnd ["html"] = true
  · rw [if_pos h6]
    exact fin_post (arm_endHtml c)
  rw [if_neg h6]
  by_cases h7 : tag.isStart ["address", "article", "aside", "blockquote", "center", "details", "dialog", "dir", "div", "dl", "fieldset", "figcaption", "figure", "footer", "header", "hgroup", "main", "nav", "ol", "p", "search", "section", "summary", "ul"] = true
  · rw [if_pos h7]
    exact fin_tag c (arm_block hi hr (newOk_start h7) plain_done)
  rw [if_neg h7]
  by_cases h8 : tag.isStart ["menu"] = true
  · rw [if_pos h8]
    exact fin_tag c (arm_block hi hr (newOk_start h8) plain_done)
  rw [if_neg h8]
  by_cases h9 : tag.isStart ["h1", "h2", "h3", "h4", "h5", "h6"] = true
  · rw [if_pos h9]
    exact fin_tag c (arm_heading hi hr (newOk_start h9))
  rw [if_neg h9]
  by_cases h10 : tag.isStart ["pre", "listing"] = true
  · rw [if_pos h10]
    exact fin_tag c (arm_pre hi hr (newOk_start h10))
  rw [if_neg h10]
  by_cases h11 : tag.isStart ["form"] = true
  · rw [if_pos h11]
    exact fin_tag c (arm_form hi hr (isOneOf_single (isStart_name h11).2))
  rw [if_neg h11]
  by_cases h12 : tag.isStart ["li", "dd", "dt"] = true
  · rw [if_pos h12]
    exact fin_tag c (arm_li hi hr (newOk_start h12))
  rw [if_neg h12]
  by_cases h13 : tag.isStart ["plaintext"] = true
  · rw [if_pos h13]
    exact fin_tag c (arm_block hi hr (newOk_start h13) (Or.inr (Or.inr rfl)))
  rw [if_neg h13]
  by_cases h14 : tag.isStart ["button"] = true
  · rw [if_pos h14]
    exact fin_tag c (arm_button hi hr (newOk_start h14))
  rw [if_neg h14]
  by_cases h15 : tag.isEnd ["address", "article", "aside", "blockquote", "button", "center", "details", "dialog", "dir", "div", "dl", "fieldset", "figcaption", "figure", "footer", "header", "hgroup", "listing", "main", "menu", "nav", "ol", "pre", "search", "section", "select", "summary", "ul"] = true
  · rw [if_pos h15]
    exact fin_tag c (arm_endBlock (name := tag.name) hi hr (end_disj h15) (end_disj h15))
  rw [if_neg h15]
  by_cases h16 : tag.isEnd ["form"] = true
  · rw [if_pos h16]
    exact fin_tag c (arm_endForm hi hr)
  rw [if_neg h16]
  by_cases h17 : tag.isEnd ["option"] = true
  · rw [if_pos h17]
    exact fin_tag c (arm_endOption het hi hr (isOneOf_single (isEnd_name h17).2))
  rw [if_neg h17]
  by_cases h18 : tag.isEnd ["p"] = true
  · rw [if_pos h18]
    exact fin_tag c (arm_endP hi hr)
  rw [if_neg h18]
  by_cases h19 : tag.isEnd ["li", "dd", "dt"] = true
  · rw [if_pos h19]
    exact fin_tag c (arm_endLi hi hr (end_disj h19))
  rw [if_neg h19]
  by_cases h20 : tag.isEnd ["h1", "h2", "h3", "h4", "h5", "h6"] = true
  · rw [if_pos h20]
    exact fin_tag c (arm_endHeading hi hr)
  rw [if_neg h20]
  by_cases h21 : tag.isStart ["a"] = true
  · rw [if_pos h21]
    exact fin_tag c (arm_a hmis hi hr (start_sub h21))
  rw [if_neg h21]
  by_cases h22 : tag.isStart ["b", "big", "code", "em", "font", "i", "s", "small", "strike", "strong", "tt", "u"] = true
  · rw [if_pos h22]
    exact fin_tag c (arm_fmt hi hr (start_sub h22))
  rw [if_neg h22]
  by_cases h23 : tag.isStart ["nobr"] = true
  · rw [if_pos h23]
    exact fin_tag c (arm_nobr haa hi hr (start_sub h23))
  rw [if_neg h23]
  by_cases h24 : tag.isEnd ["a", "b", "big", "code", "em", "font", "i", "nobr", "s", "small", "strike", "strong", "tt", "u"] = true
  · rw [if_pos h24]
    exact fin_tag c (arm_endFmt haa hi hr (end_sub h24))
  rw [if_neg h24]
  by_cases h25 : tag.isStart ["applet", "marquee", "object"] = true
  · rw [if_pos h25]
    exact fin_tag c (arm_applet hi hr (newOk_start h25))
  rw [if_neg h25]
  by_cases h26 : tag.isEnd ["applet", "marquee", "object"] = true
  · rw [if_pos h26]
    exact fin_tag c (arm_endApplet (name := tag.name) hi hr (end_disj h26) (end_disj h26))
  rw [if_neg h26]
  by_cases h27 : tag.isStart ["table"] = true
  · rw [if_pos h27]
    exact fin_post (arm_table c (newOk_start h27))
  rw [if_neg h27]
  by_cases h28 : tag.isEnd ["br"] = true
  · rw [if_pos h28]
    exact fin_tag c (arm_unexpectedVoid (tag := { tag with kind := .startTag, attrs := [] }) hi hr (newOk_end (tag := tag) h28))
  rw [if_neg h28]
  by_cases h29 : tag.isStart ["area", "br", "embed", "img", "keygen", "wbr"] = true
  · rw [if_pos h29]
    exact fin_tag c (arm_void hi hr (newOk_start h29))
  rw [if_neg h29]
  by_cases h30 : tag.isStart ["input"] = true
  · rw [if_pos h30]
    exact fin_tag c (arm_input hi hr (newOk_start h30))
  rw [if_neg h30]
  by_cases h31 : tag.isStart ["param", "source", "track"] = true
  · rw [if_pos h31]
    exact fin_tag c (arm_param hi hr (newOk_start h31))
  rw [if_neg h31]
  by_cases h32 : tag.isStart ["hr"] = true
  · rw [if_pos h32]
    exact fin_tag c (arm_hr hi hr (newOk_start h32))
  rw [if_neg h32]
  by_cases h33 : tag.isStart ["image"] = true
  · rw [if_pos h33]
    exact fin_tag c (arm_unexpectedVoid (tag := { tag with name := "img".toList }) hi hr (newOk_mk (name := "img".toList) (by decide)))
  rw [if_neg h33]
  by_cases h34 : tag.isStart ["textarea"] = true
  · rw [if_pos h34]
    exact fin_post (arm_textarea c (newOk_start h34))
  rw [if_neg h34]
  by_cases h35 : tag.isStart ["xmp"] = true
  · rw [if_pos h35]
    exact fin_post (arm_xmp c (newOk_start h35))
  rw [if_neg h35]
  by_cases h36 : tag.isStart ["iframe"] = true
  · rw [if_pos h36]
    exact fin_post (arm_iframe c (newOk_start h36))
  rw [if_neg h36]
  by_cases h37 : tag.isStart ["noembed"] = true
  · rw [if_pos h37]
    exact fin_post (rawData_post c (newOk_start h37))
  rw [if_neg h37]
  by_cases h38 : tag.isStart ["select"] = true
  · rw [if_pos h38]
    exact fin_tag c (arm_select hi hr (newOk_start h38))
  rw [if_neg h38]
  by_cases h39 : tag.isStart ["option"] = true
  · rw [if_pos h39]
    exact fin_tag c (arm_option hi hr (newOk_start h39))
  rw [if_neg h39]
  by_cases h40 : tag.isStart ["optgroup"] = true
  · rw [if_pos h40]
    exact fin_tag c (arm_optgroup hi hr (newOk_start h40))
  rw [if_neg h40]
  by_cases h41 : tag.isStart ["rb", "rtc"] = true
  · rw [if_pos h41]
    exact fin_tag c (arm_rb hi hr (newOk_start h41))
  rw [if_neg h41]
  by_cases h42 : tag.isStart ["rp", "rt"] = true
  · rw [if_pos h42]
    exact fin_tag c (arm_rp hi hr (newOk_start h42))
  rw [if_neg h42]
  by_cases h43 : tag.isStart ["math"] = true
  · rw [if_pos h43]
    exact fin_tag c (arm_foreign hi hr (by decide))
  rw [if_neg h43]
  by_cases h44 : tag.isStart ["svg"] = true
  · rw [if_pos h44]
    exact fin_tag c (arm_foreign hi hr (by decide))
  rw [if_neg h44]
  by_cases h45 : tag.isStart ["caption", "col", "colgroup", "frame", "head", "tbody", "td", "tfoot", "th", "thead", "tr"] = true
  · rw [if_pos h45]
    exact fin_tag c (arm_unexpected hi hr)
  rw [if_neg h45]
  by_cases hk : (tag.kind == H5V.Model.HtmlTok.TagKind.startTag) = true
  · rw [if_pos hk]
    have hk' : tag.kind = .startTag := beq_iff_eq.mp hk
    have e1 := isStart_false hk' (fun h => h2 (by rw [h]; rfl))
    have e2 := isStart_false hk' h45
    exact arm_otherStart c (newOk_mk (isOneOf_append (l1 := ["template"]) (l2 := ["head"])
      (isOneOf_not_sub (by decide) e1) (isOneOf_not_sub (by decide) e2)))
  rw [if_neg hk]
  have hk' : tag.kind = .endTag := by
    cases hkk : tag.kind with
    | startTag => rw [hkk] at hk; exact absurd rfl hk
    | endTag => rfl
  refine fin_post (arm_otherEnd het c ?_ ?_)
  · intro e
    have := isEnd_false hk' h6
    rw [e] at this
    revert this; decide
  · intro hm
    have := htd hm
    exact isEnd_false hk' (by rw [show tag.isEnd ["td", "th"] = false from this]; simp)

end IB

theorem stepInBody_spec (hh : HeadSpec) (hte : TemplateEofSpec) (het : EndTagSpec) (haa : AgencySpec)
    (hmis : MisnestedSpec) : BodySpec := by
  intro tok s ht hm hnh htt htd
  have hi := ht.h
  have hr := ht.rooted (IB.preRoot_of_bodyLike hm)
  cases tok with
  | tag tag =>
    exact IB.stepInBody_tag hh het haa hmis ⟨ht, hm, hnh, fun h => by have := htt h; cases this⟩ htd
  | comment text =>
    show Sat (appendComment text) s _
    exact (IB.arm_comment hi hr).mono (fun r s' h =>
      ⟨IB.stepPost_of_bk ht hm hnh h.2 h.1 (fun hc => by cases hc), fun hc => by cases hc⟩)
  | chars st text =>
    show Sat (do
      reconstructActiveFormattingElements
      if anyNotWhitespace text then setFramesetOk false
      appendText text) s _
    refine (IB.arm_chars hi hr).mono ?_
    rintro r s' ⟨rfl, hb⟩
    exact ⟨IB.stepPost_of_bk ht hm hnh hb IB.plain_done (fun _ => rfl), fun _ => rfl⟩
  | nullChar =>
    show Sat unexpected s _
    exact (IB.bk_unexpected_done hi hr).mono (fun r s' h =>
      ⟨IB.stepPost_of_bk ht hm hnh h.2 h.1 (fun hc => by cases hc), fun hc => by cases hc⟩)
  | eof =>
    have hntt : s.mode ≠ .inTableText := fun h => by have := htt h; cases this
    have c : IB.Ctx s := ⟨ht, hm, hnh, hntt⟩
    show Sat (do
      if !(← getS).templateModes.isEmpty then inTemplateEof
      else
        checkBodyEnd
        pure .done) s _
    refine sat_getS_bind ?_
    split
    · exact (hte s ht c.origOk).mono (fun r s' h => ⟨h, fun hc => by cases hc⟩)
    · refine (sat_checkBodyEnd hi.open_el).bind ?_
      intro _ s1 hq
      refine sat_pure ?_
      exact ⟨StepPost.of_qf ht hq rfl trivial, fun hc => by cases hc⟩

end H5V.Lemmas.TBSafe
