import H5V.Model.HtmlTB
import H5V.Lemmas.HtmlTBMetaBase
import H5V.Lemmas.HtmlTBSafeRun
/-!
The "ignore the next line feed" flag of the HTML tree builder (`TreeBuilder::ignore_lf`).

* `processToken_contextElem` — `process_token` never changes the context element;
* `processToken_ignoreLf_clear` — only a tag token can *set* the flag (a parse error puts a set flag back);
* `processToken_ignS` / `processToken_ignQ` — when the flag is set after `process_token`, the current node
  is the HTML element (`pre` / `listing` / `textarea`) the start tag has just inserted, it is the adjusted
  current node (the stack has at least two entries), hence
  `adjusted_current_node_present_but_not_in_html_namespace` answers "no".

Machinery (all in the sub-namespace `IgnLf`):
* `Fl m` — the frame judgement: `m` leaves `ignore_lf` and `context_elem` alone (everything but the three
  start-tag arms of "in body" and `process_token` itself);
* `Sf m` — the strong frame: `m` also leaves the stack of open elements alone and only extends the DOM
  (`TBSafe.Ext`: element names are stable);
* `HL tok m` — for a rule `m` handed the token `tok`: the context element is kept, only `tok` is
  re-processed, and either the flag is untouched or `tok` is a tag, the flag is set, the answer is `Done` /
  `ToRawData` and the current node is the HTML element just pushed on a non-empty stack (`TopHtml`);
* `Okl m s Q` — partial correctness of one run, for `insert_element`, the loop of `process_to_completion`
  and `process_token`.
-/
namespace H5V.Lemmas.ParseSpec.IgnLf
open H5V.Model.Dom (Id QualName Attr NodeOrText SinkOp Output ElementFlags QuirksMode Dom)
open H5V.Model.HtmlTB
open H5V.Model.HtmlTok (RawKind)
open H5V.Lemmas.TBM
open H5V.Lemmas.TBSafe (Ext sigOf apply_ext ptcCont ptcNext processToCompletion_succ ptFinish)

/-! ## the frame -/

/-- the two components the helper algorithms never touch -/
def frL (s : State) : Bool × Option Id := (s.ignoreLf, s.contextElem)

theorem frL_eq {s s' : State} (h : frL s' = frL s) : s'.ignoreLf = s.ignoreLf ∧ s'.contextElem = s.contextElem := by
  simpa only [frL, Prod.mk.injEq] using h

structure FlAt {α : Type} (s : State) (m : M α) : Prop where
  h : ∀ a s', m s = .ok (a, s') → frL s' = frL s

/-- `m` leaves `ignore_lf` and `context_elem` alone -/
class Fl {α : Type} (m : M α) : Prop where
  h : ∀ s, FlAt s m

theorem fl_run {α : Type} {m : M α} (h : Fl m) {s s' : State} {a : α} (e : m s = .ok (a, s')) :
    frL s' = frL s := (h.h s).h a s' e

instance fl_pure {α : Type} (a : α) : Fl (pure a : M α) :=
  ⟨fun _ => ⟨fun _ _ e => by obtain ⟨_, rfl⟩ := pure_ok.mp e; rfl⟩⟩
instance fl_throw {α : Type} (e : String) : Fl (throw e : M α) := ⟨fun _ => ⟨fun _ _ h => absurd h throw_ok⟩⟩
instance fl_panicAt {α : Type} (c f t : String) : Fl (panicAt c f t : M α) :=
  ⟨fun _ => ⟨fun _ _ h => absurd h throw_ok⟩⟩
instance fl_fuelOut {α : Type} (w : String) : Fl (fuelOut w : M α) := ⟨fun _ => ⟨fun _ _ h => absurd h throw_ok⟩⟩
instance fl_getS : Fl getS := ⟨fun _ => ⟨fun _ _ e => by obtain ⟨_, rfl⟩ := getS_ok.mp e; rfl⟩⟩
instance fl_sink (op : SinkOp) : Fl (sink op) :=
  ⟨fun _ => ⟨fun _ _ e => by obtain ⟨d, _, rfl⟩ := sink_ok.mp e; rfl⟩⟩

theorem fl_modS {g : State → State} (h : ∀ s, frL (g s) = frL s) : Fl (modS g) :=
  ⟨fun s => ⟨fun _ _ e => by rw [modS_ok.mp e]; exact h s⟩⟩

theorem fl_bind {α β : Type} {m : M α} {f : α → M β} (h1 : Fl m) (h2 : ∀ a, Fl (f a)) : Fl (m >>= f) :=
  ⟨fun s => ⟨fun b s'' e => by
    obtain ⟨a, s', e1, e2⟩ := bind_ok.mp e
    exact (fl_run (h2 a) e2).trans (fl_run h1 e1)⟩⟩

theorem fl_getS_bind {β : Type} {f : State → M β} (h : ∀ s, FlAt s (f s)) : Fl (getS >>= f) :=
  ⟨fun s => ⟨fun b s'' e => by
    obtain ⟨a, s', e1, e2⟩ := bind_ok.mp e
    obtain ⟨rfl, rfl⟩ := getS_ok.mp e1
    exact (h _).h b s'' e2⟩⟩

theorem flAt_of {α : Type} {m : M α} (h : Fl m) (s : State) : FlAt s m := h.h s

theorem flAt_set_bind {β : Type} {x s : State} {k : Unit → M β} (hx : frL x = frL s) (h : ∀ u, Fl (k u)) :
    FlAt s (set x >>= k) :=
  ⟨fun b s'' e => by
    obtain ⟨u, s', e1, e2⟩ := bind_ok.mp e
    rw [set_ok.mp e1] at e2
    exact (fl_run (h u) e2).trans hx⟩

theorem flAt_set {x s : State} (hx : frL x = frL s) : FlAt s (set x : M Unit) :=
  ⟨fun _ _ e => by rw [set_ok.mp e]; exact hx⟩

theorem fl_ite {α : Type} {c : Prop} [Decidable c] {a b : M α} (ha : Fl a) (hb : Fl b) :
    Fl (if c then a else b) := by
  split
  · exact ha
  · exact hb

theorem flAt_ite {α : Type} {s : State} {c : Prop} [Decidable c] {a b : M α} (ha : FlAt s a) (hb : FlAt s b) :
    FlAt s (if c then a else b) := by
  split
  · exact ha
  · exact hb

/-- one step of the walk over a helper algorithm -/
syntax "ilf_fl_step" : tactic
macro_rules
  | `(tactic| ilf_fl_step) => `(tactic|
    first
      | exact inferInstance
      | with_reducible assumption
      | exact fl_modS (fun _ => rfl)
      | (with_reducible refine fl_getS_bind ?_)
      | (with_reducible refine fl_bind ?_ ?_)
      | (with_reducible refine flAt_set_bind rfl ?_)
      | (with_reducible exact flAt_set rfl)
      | intro _
      | (with_reducible refine fl_ite ?_ ?_)
      | (with_reducible refine flAt_ite ?_ ?_)
      | split
      | (with_reducible refine flAt_of ?_ _)
      | dsimp only)

syntax "ilf_fl" : tactic
macro_rules
  | `(tactic| ilf_fl) => `(tactic| repeat' ilf_fl_step)

instance (op : SinkOp) : Fl (sinkUnit op) := by unfold sinkUnit; ilf_fl
instance (op : SinkOp) : Fl (sinkNode op) := by unfold sinkNode; ilf_fl
instance (op : SinkOp) : Fl (sinkBool op) := by unfold sinkBool; ilf_fl
instance (msg : String) : Fl (parseError msg) := by unfold parseError; ilf_fl
instance (h : Id) : Fl (elemName h) := by unfold elemName; ilf_fl
instance (x y : Id) : Fl (sameNode x y) := by unfold sameNode; ilf_fl
instance (h : Id) (n : Str) : Fl (htmlElemNamedS h n) := by unfold htmlElemNamedS; ilf_fl
instance (h : Id) (n : String) : Fl (htmlElemNamed h n) := by unfold htmlElemNamed; ilf_fl
instance (h : Id) (set : EName → Bool) : Fl (elemIn h set) := by unfold elemIn; ilf_fl
instance : Fl currentNode := by unfold currentNode; ilf_fl
instance : Fl adjustedCurrentNode := by unfold adjustedCurrentNode; ilf_fl
instance (set : EName → Bool) : Fl (currentNodeIn set) := by unfold currentNodeIn; ilf_fl
instance (n : Str) : Fl (currentNodeNamedS n) := by unfold currentNodeNamedS; ilf_fl
instance (n : String) : Fl (currentNodeNamed n) := by unfold currentNodeNamed; ilf_fl
instance : Fl htmlElem := by unfold htmlElem; ilf_fl
instance : Fl htmlElemFn := by unfold htmlElemFn; ilf_fl
instance : Fl isFragment := by unfold isFragment; ilf_fl
instance (h : Id) : Fl (push h) := by unfold push; ilf_fl
instance : Fl pop := by unfold pop; ilf_fl
instance : Fl popSilently := by unfold popSilently; ilf_fl
instance (m : Mode) : Fl (setMode m) := by unfold setMode; ilf_fl
instance (b : Bool) : Fl (setFramesetOk b) := by unfold setFramesetOk; ilf_fl
instance : Fl pushMarker := by unfold pushMarker; ilf_fl
instance : Fl unexpected := by unfold unexpected; ilf_fl
instance (q : QuirksMode) : Fl (setQuirksMode q) := by unfold setQuirksMode; ilf_fl
instance (k : RawKind) : Fl (toRawTextMode k) := by unfold toRawTextMode; ilf_fl
instance (n : QualName) (a : List Attr) (d : Bool) : Fl (createElementWithFlags n a d) := by
  unfold createElementWithFlags; ilf_fl

theorem fl_fosterLoop : ∀ l, Fl (fosterLoop l)
  | [] => by unfold fosterLoop; ilf_fl
  | _ :: rest => by
    have ih := fl_fosterLoop rest
    unfold fosterLoop; ilf_fl
instance (l : List Id) : Fl (fosterLoop l) := fl_fosterLoop l
instance (o : Option Id) : Fl (appropriatePlaceForInsertion o) := by unfold appropriatePlaceForInsertion; ilf_fl
instance (p : InsertionPoint) (c : NodeOrText) : Fl (insertAt p c) := by unfold insertAt; ilf_fl
instance (c : NodeOrText) (o : Option Id) : Fl (insertAppropriately c o) := by unfold insertAppropriately; ilf_fl
theorem fl_anyHtmlElemNamed (n : String) : ∀ l, Fl (anyHtmlElemNamed n l)
  | [] => by unfold anyHtmlElemNamed; ilf_fl
  | _ :: rest => by
    have ih := fl_anyHtmlElemNamed n rest
    unfold anyHtmlElemNamed; ilf_fl
instance (n : String) (l : List Id) : Fl (anyHtmlElemNamed n l) := fl_anyHtmlElemNamed n l
instance (n : String) : Fl (inHtmlElemNamed n) := by unfold inHtmlElemNamed; ilf_fl
instance (p : Bool) (ns n : Str) (a : List Attr) (d : Bool) : Fl (insertElement p ns n a d) := by
  unfold insertElement; ilf_fl
instance (tag : Tag) : Fl (insertElementFor tag) := by unfold insertElementFor; ilf_fl
instance (tag : Tag) : Fl (insertAndPopElementFor tag) := by unfold insertAndPopElementFor; ilf_fl
instance (n : String) : Fl (insertPhantom n) := by unfold insertPhantom; ilf_fl
instance (tag : Tag) (ns : Str) (b : Bool) : Fl (insertForeignElement tag ns b) := by
  unfold insertForeignElement; ilf_fl
instance (a : List Attr) : Fl (createRoot a) := by unfold createRoot; ilf_fl
instance (t : Str) : Fl (appendText t) := by unfold appendText; ilf_fl
instance (t : Str) : Fl (appendComment t) := by unfold appendComment; ilf_fl
instance (t : Str) : Fl (appendCommentToDoc t) := by unfold appendCommentToDoc; ilf_fl
instance (t : Str) : Fl (appendCommentToHtml t) := by unfold appendCommentToHtml; ilf_fl
instance (tag : Tag) (k : RawKind) : Fl (parseRawData tag k) := by unfold parseRawData; ilf_fl

theorem fl_inScopeLoop (scope : EName → Bool) (pred : Id → M Bool) (hp : ∀ h, Fl (pred h)) :
    ∀ l, Fl (inScopeLoop scope pred l)
  | [] => by unfold inScopeLoop; ilf_fl
  | _ :: rest => by
    have ih := fl_inScopeLoop scope pred hp rest
    unfold inScopeLoop; ilf_fl
theorem fl_inScope (scope : EName → Bool) (pred : Id → M Bool) (hp : ∀ h, Fl (pred h)) : Fl (inScope scope pred) := by
  have := fl_inScopeLoop scope pred hp
  unfold inScope; ilf_fl
instance (scope : EName → Bool) (n : Str) : Fl (inScopeNamedS scope n) := by
  unfold inScopeNamedS; exact fl_inScope _ _ (fun _ => inferInstance)
instance (scope : EName → Bool) (n : String) : Fl (inScopeNamed scope n) := by unfold inScopeNamed; ilf_fl
instance (scope : EName → Bool) (x : Id) : Fl (inScope scope (fun n => sameNode n x)) :=
  fl_inScope _ _ (fun _ => inferInstance)
instance (scope : EName → Bool) (x : Id) : Fl (inScope scope (fun n => sameNode x n)) :=
  fl_inScope _ _ (fun _ => inferInstance)
instance (scope : EName → Bool) (set : EName → Bool) : Fl (inScope scope (fun n => elemIn n set)) :=
  fl_inScope _ _ (fun _ => inferInstance)

theorem fl_generateImpliedEndTagsLoop (set : EName → Bool) : ∀ n, Fl (generateImpliedEndTagsLoop set n)
  | 0 => by unfold generateImpliedEndTagsLoop; ilf_fl
  | n + 1 => by
    have ih := fl_generateImpliedEndTagsLoop set n
    unfold generateImpliedEndTagsLoop; ilf_fl
instance (set : EName → Bool) (n : Nat) : Fl (generateImpliedEndTagsLoop set n) := fl_generateImpliedEndTagsLoop set n
instance (set : EName → Bool) : Fl (generateImpliedEndTags set) := by unfold generateImpliedEndTags; ilf_fl
instance (e : Str) : Fl (generateImpliedEndExcept e) := by unfold generateImpliedEndExcept; ilf_fl
theorem fl_popUntilCurrentLoop (set : EName → Bool) : ∀ n, Fl (popUntilCurrentLoop set n)
  | 0 => by unfold popUntilCurrentLoop; ilf_fl
  | n + 1 => by
    have ih := fl_popUntilCurrentLoop set n
    unfold popUntilCurrentLoop; ilf_fl
instance (set : EName → Bool) (n : Nat) : Fl (popUntilCurrentLoop set n) := fl_popUntilCurrentLoop set n
instance (set : EName → Bool) : Fl (popUntilCurrent set) := by unfold popUntilCurrent; ilf_fl
theorem fl_popUntilLoop (pred : EName → Bool) : ∀ f n, Fl (popUntilLoop pred f n)
  | 0, _ => by unfold popUntilLoop; ilf_fl
  | f + 1, n => by
    have ih := fl_popUntilLoop pred f (n + 1)
    unfold popUntilLoop; ilf_fl
instance (pred : EName → Bool) (f n : Nat) : Fl (popUntilLoop pred f n) := fl_popUntilLoop pred f n
instance (pred : EName → Bool) : Fl (popUntil pred) := by unfold popUntil; ilf_fl
instance (n : Str) : Fl (popUntilNamedS n) := by unfold popUntilNamedS; ilf_fl
instance (n : String) : Fl (popUntilNamed n) := by unfold popUntilNamed; ilf_fl
instance (n : Str) : Fl (expectToCloseS n) := by unfold expectToCloseS; ilf_fl
instance (n : String) : Fl (expectToClose n) := by unfold expectToClose; ilf_fl
instance : Fl closePElement := by unfold closePElement; ilf_fl
instance : Fl closePElementInButtonScope := by unfold closePElementInButtonScope; ilf_fl
theorem fl_checkBodyEndLoop : ∀ l, Fl (checkBodyEndLoop l)
  | [] => by unfold checkBodyEndLoop; ilf_fl
  | _ :: rest => by
    have ih := fl_checkBodyEndLoop rest
    unfold checkBodyEndLoop; ilf_fl
instance (l : List Id) : Fl (checkBodyEndLoop l) := fl_checkBodyEndLoop l
instance : Fl checkBodyEnd := by unfold checkBodyEnd; ilf_fl
instance : Fl bodyElem := by unfold bodyElem; ilf_fl
theorem fl_rpositionLoop (p : Id → M Bool) (hp : ∀ h, Fl (p h)) : ∀ l n, Fl (rpositionLoop p l n)
  | [], _ => by unfold rpositionLoop; ilf_fl
  | _ :: rest, n => by
    have ih := fl_rpositionLoop p hp rest (n - 1)
    unfold rpositionLoop; ilf_fl
theorem fl_rposition (p : Id → M Bool) (hp : ∀ h, Fl (p h)) : Fl (rposition p) := by
  have := fl_rpositionLoop p hp
  unfold rposition; ilf_fl
instance (x : Id) : Fl (rposition (fun n => sameNode x n)) := fl_rposition _ (fun _ => inferInstance)
instance (x : Id) : Fl (rposition (fun n => sameNode n x)) := fl_rposition _ (fun _ => inferInstance)
instance (e : Id) : Fl (removeFromStack e) := by unfold removeFromStack; ilf_fl

theorem fl_positionInAFLoop (e : Id) : ∀ l i, Fl (positionInAFLoop e l i)
  | [], _ => by unfold positionInAFLoop; ilf_fl
  | .marker :: rest, i => by
    have ih := fl_positionInAFLoop e rest (i + 1)
    unfold positionInAFLoop; ilf_fl
  | .element _ _ :: rest, i => by
    have ih := fl_positionInAFLoop e rest (i + 1)
    unfold positionInAFLoop; ilf_fl
instance (e : Id) (l : List FormatEntry) (i : Nat) : Fl (positionInAFLoop e l i) := fl_positionInAFLoop e l i
instance (e : Id) : Fl (positionInActiveFormatting e) := by unfold positionInActiveFormatting; ilf_fl
instance (af : List FormatEntry) : Fl (setAF af) := by unfold setAF; ilf_fl
instance (i : Nat) (site : String) : Fl (afRemove i site) := by unfold afRemove; ilf_fl
theorem fl_anySameNodeRev (x : Id) : ∀ l, Fl (anySameNodeRev x l)
  | [] => by unfold anySameNodeRev; ilf_fl
  | _ :: rest => by
    have ih := fl_anySameNodeRev x rest
    unfold anySameNodeRev; ilf_fl
instance (x : Id) (l : List Id) : Fl (anySameNodeRev x l) := fl_anySameNodeRev x l
instance (e : FormatEntry) : Fl (isMarkerOrOpen e) := by cases e <;> (unfold isMarkerOrOpen; ilf_fl)
theorem fl_reconstructRewind : ∀ n, Fl (reconstructRewind n)
  | 0 => by unfold reconstructRewind; ilf_fl
  | n + 1 => by
    have ih := fl_reconstructRewind n
    unfold reconstructRewind; ilf_fl
instance (n : Nat) : Fl (reconstructRewind n) := fl_reconstructRewind n
theorem fl_reconstructCreate : ∀ f i, Fl (reconstructCreate f i)
  | 0, _ => by unfold reconstructCreate; ilf_fl
  | f + 1, i => by
    have ih := fl_reconstructCreate f (i + 1)
    unfold reconstructCreate; ilf_fl
instance (f i : Nat) : Fl (reconstructCreate f i) := fl_reconstructCreate f i
instance : Fl reconstructActiveFormattingElements := by unfold reconstructActiveFormattingElements; ilf_fl
instance (tag : Tag) : Fl (createFormattingElementFor tag) := by unfold createFormattingElementFor; ilf_fl
instance : Fl clearActiveFormattingToMarker := by unfold clearActiveFormattingToMarker; ilf_fl

theorem fl_endTagSearch (n : Str) : ∀ l k, Fl (endTagSearch n l k)
  | [], _ => by unfold endTagSearch; ilf_fl
  | _ :: rest, k => by
    have ih := fl_endTagSearch n rest (k - 1)
    unfold endTagSearch; ilf_fl
instance (n : Str) (l : List Id) (k : Nat) : Fl (endTagSearch n l k) := fl_endTagSearch n l k
instance (tag : Tag) : Fl (processEndTagInBody tag) := by unfold processEndTagInBody; ilf_fl
theorem fl_findFurthestBlock : ∀ l i, Fl (findFurthestBlock l i)
  | [], _ => by unfold findFurthestBlock; ilf_fl
  | _ :: rest, i => by
    have ih := fl_findFurthestBlock rest (i + 1)
    unfold findFurthestBlock; ilf_fl
instance (l : List Id) (i : Nat) : Fl (findFurthestBlock l i) := fl_findFurthestBlock l i
theorem fl_positionSameNode (x : Id) : ∀ l i, Fl (positionSameNode x l i)
  | [], _ => by unfold positionSameNode; ilf_fl
  | _ :: rest, i => by
    have ih := fl_positionSameNode x rest (i + 1)
    unfold positionSameNode; ilf_fl
instance (x : Id) (l : List Id) (i : Nat) : Fl (positionSameNode x l i) := fl_positionSameNode x l i
theorem fl_aaInner (fe fb : Id) : ∀ n c l b, Fl (aaInner fe fb n c l b)
  | 0, _, _, _ => by unfold aaInner; ilf_fl
  | n + 1, c, l, b => by
    have ih := fl_aaInner fe fb n
    unfold aaInner; ilf_fl
instance (fe fb : Id) (n c : Nat) (l : Id) (b : Bookmark) : Fl (aaInner fe fb n c l b) := fl_aaInner fe fb n c l b
instance (subject : Str) : Fl (aaOuterStep subject) := by unfold aaOuterStep; ilf_fl
theorem fl_aaOuter (subject : Str) : ∀ n, Fl (aaOuter subject n)
  | 0 => by unfold aaOuter; ilf_fl
  | n + 1 => by
    have ih := fl_aaOuter subject n
    unfold aaOuter; ilf_fl
instance (subject : Str) (n : Nat) : Fl (aaOuter subject n) := fl_aaOuter subject n
instance (subject : Str) : Fl (adoptionAgency subject) := by unfold adoptionAgency; ilf_fl
theorem fl_findAInAF : ∀ l, Fl (findAInAF l)
  | [] => by unfold findAInAF; ilf_fl
  | (_, _, _) :: rest => by
    have ih := fl_findAInAF rest
    unfold findAInAF; ilf_fl
instance (l : List (Nat × Id × Tag)) : Fl (findAInAF l) := fl_findAInAF l
instance : Fl handleMisnestedATags := by unfold handleMisnestedATags; ilf_fl
theorem fl_resetLoop : ∀ l n, Fl (resetLoop l n)
  | [], _ => by unfold resetLoop; ilf_fl
  | _ :: rest, n => by
    have ih := fl_resetLoop rest (n - 1)
    unfold resetLoop; ilf_fl
instance (l : List Id) (n : Nat) : Fl (resetLoop l n) := fl_resetLoop l n
instance : Fl resetInsertionMode := by unfold resetInsertionMode; ilf_fl
instance : Fl closeTheCell := by unfold closeTheCell; ilf_fl
instance (tag : Tag) (ns : Str) : Fl (enterForeign tag ns) := by unfold enterForeign; ilf_fl
instance (tag : Tag) : Fl (foreignStartTag tag) := by unfold foreignStartTag; ilf_fl
instance (tok : Token) : Fl (isForeign tok) := by unfold isForeign; ilf_fl
theorem fl_popToIntegrationPointLoop : ∀ n, Fl (popToIntegrationPointLoop n)
  | 0 => by unfold popToIntegrationPointLoop; ilf_fl
  | n + 1 => by
    have ih := fl_popToIntegrationPointLoop n
    unfold popToIntegrationPointLoop; ilf_fl
instance (n : Nat) : Fl (popToIntegrationPointLoop n) := fl_popToIntegrationPointLoop n
instance : Fl pendingTableTextEmpty := by unfold pendingTableTextEmpty; ilf_fl
instance (c : Str) : Fl (extractEncoding c) := by unfold extractEncoding; ilf_fl
instance (tag : Tag) : Fl (shouldAttachDeclarativeShadow tag) := by unfold shouldAttachDeclarativeShadow; ilf_fl
theorem fl_listCloseSearch (b : Bool) : ∀ l, Fl (listCloseSearch b l)
  | [] => by unfold listCloseSearch; ilf_fl
  | _ :: rest => by
    have ih := fl_listCloseSearch b rest
    unfold listCloseSearch; ilf_fl
instance (b : Bool) (l : List Id) : Fl (listCloseSearch b l) := fl_listCloseSearch b l
theorem fl_findOption : ∀ l, Fl (findOption l)
  | [] => by unfold findOption; ilf_fl
  | _ :: rest => by
    have ih := fl_findOption rest
    unfold findOption; ilf_fl
instance (l : List Id) : Fl (findOption l) := fl_findOption l
theorem fl_anySameNode (x : Id) : ∀ l, Fl (anySameNode x l)
  | [] => by unfold anySameNode; ilf_fl
  | _ :: rest => by
    have ih := fl_anySameNode x rest
    unfold anySameNode; ilf_fl
instance (x : Id) (l : List Id) : Fl (anySameNode x l) := fl_anySameNode x l
instance (site : String) : Fl (contextIsSelect site) := by unfold contextIsSelect; ilf_fl
instance (site : String) : Fl (popTr site) := by unfold popTr; ilf_fl
instance (tag : Tag) : Fl (inBodyHtml tag) := by unfold inBodyHtml; ilf_fl
instance (tag : Tag) : Fl (inBodyVoid tag) := by unfold inBodyVoid; ilf_fl
instance (m : Mode) : Fl (setTemplateMode m) := by unfold setTemplateMode; ilf_fl
instance : Fl inTemplateEof := by unfold inTemplateEof; ilf_fl
theorem fl_flushPendingPlain : ∀ l, Fl (flushPendingPlain l)
  | [] => by unfold flushPendingPlain; ilf_fl
  | (_, _) :: rest => by
    have ih := fl_flushPendingPlain rest
    unfold flushPendingPlain; ilf_fl
instance (l : List (SplitStatus × Str)) : Fl (flushPendingPlain l) := fl_flushPendingPlain l
instance (tok : Token) : Fl (stepInHead tok) := by unfold stepInHead; ilf_fl

/-! ## the strong frame: the stack of open elements is kept, the DOM only grows -/

structure FrS (s s' : State) : Prop where
  lf : s'.ignoreLf = s.ignoreLf
  ctx : s'.contextElem = s.contextElem
  stack : s'.openElems = s.openElems
  ext : Ext s.dom s'.dom

theorem FrS.refl (s : State) : FrS s s := ⟨rfl, rfl, rfl, Ext.refl _⟩

theorem FrS.trans {a b c : State} (h1 : FrS a b) (h2 : FrS b c) : FrS a c :=
  ⟨h2.lf.trans h1.lf, h2.ctx.trans h1.ctx, h2.stack.trans h1.stack, h1.ext.trans h2.ext⟩

theorem FrS.frL {s s' : State} (h : FrS s s') : frL s' = frL s := by
  unfold IgnLf.frL; rw [h.lf, h.ctx]

structure SfAt {α : Type} (s : State) (m : M α) : Prop where
  h : ∀ a s', m s = .ok (a, s') → FrS s s'

/-- `m` leaves `ignore_lf`, `context_elem` and the stack of open elements alone and only extends the DOM -/
class Sf {α : Type} (m : M α) : Prop where
  h : ∀ s, SfAt s m

theorem sf_run {α : Type} {m : M α} (h : Sf m) {s s' : State} {a : α} (e : m s = .ok (a, s')) :
    FrS s s' := (h.h s).h a s' e

theorem fl_of_sf {α : Type} {m : M α} (h : Sf m) : Fl m := ⟨fun _ => ⟨fun _ _ e => (sf_run h e).frL⟩⟩

instance sf_pure {α : Type} (a : α) : Sf (pure a : M α) :=
  ⟨fun _ => ⟨fun _ _ e => by obtain ⟨_, rfl⟩ := pure_ok.mp e; exact FrS.refl _⟩⟩
instance sf_throw {α : Type} (e : String) : Sf (throw e : M α) := ⟨fun _ => ⟨fun _ _ h => absurd h throw_ok⟩⟩
instance sf_panicAt {α : Type} (c f t : String) : Sf (panicAt c f t : M α) :=
  ⟨fun _ => ⟨fun _ _ h => absurd h throw_ok⟩⟩
instance sf_fuelOut {α : Type} (w : String) : Sf (fuelOut w : M α) := ⟨fun _ => ⟨fun _ _ h => absurd h throw_ok⟩⟩
instance sf_getS : Sf getS := ⟨fun _ => ⟨fun _ _ e => by obtain ⟨_, rfl⟩ := getS_ok.mp e; exact FrS.refl _⟩⟩
instance sf_sink (op : SinkOp) : Sf (sink op) :=
  ⟨fun _ => ⟨fun _ _ e => by obtain ⟨d, hd, rfl⟩ := sink_ok.mp e; exact ⟨rfl, rfl, rfl, apply_ext hd⟩⟩⟩

theorem sf_modS {g : State → State} (h : ∀ s, FrS s (g s)) : Sf (modS g) :=
  ⟨fun s => ⟨fun _ _ e => by rw [modS_ok.mp e]; exact h s⟩⟩

theorem sf_bind {α β : Type} {m : M α} {f : α → M β} (h1 : Sf m) (h2 : ∀ a, Sf (f a)) : Sf (m >>= f) :=
  ⟨fun s => ⟨fun b s'' e => by
    obtain ⟨a, s', e1, e2⟩ := bind_ok.mp e
    exact (sf_run h1 e1).trans (sf_run (h2 a) e2)⟩⟩

theorem sf_getS_bind {β : Type} {f : State → M β} (h : ∀ s, SfAt s (f s)) : Sf (getS >>= f) :=
  ⟨fun s => ⟨fun b s'' e => by
    obtain ⟨a, s', e1, e2⟩ := bind_ok.mp e
    obtain ⟨rfl, rfl⟩ := getS_ok.mp e1
    exact (h _).h b s'' e2⟩⟩

theorem sfAt_of {α : Type} {m : M α} (h : Sf m) (s : State) : SfAt s m := h.h s

theorem sf_ite {α : Type} {c : Prop} [Decidable c] {a b : M α} (ha : Sf a) (hb : Sf b) :
    Sf (if c then a else b) := by
  split
  · exact ha
  · exact hb

theorem sfAt_ite {α : Type} {s : State} {c : Prop} [Decidable c] {a b : M α} (ha : SfAt s a) (hb : SfAt s b) :
    SfAt s (if c then a else b) := by
  split
  · exact ha
  · exact hb

syntax "ilf_sf_step" : tactic
macro_rules
  | `(tactic| ilf_sf_step) => `(tactic|
    first
      | exact inferInstance
      | with_reducible assumption
      | exact sf_modS (fun _ => ⟨rfl, rfl, rfl, Ext.refl _⟩)
      | (with_reducible refine sf_getS_bind ?_)
      | (with_reducible refine sf_bind ?_ ?_)
      | intro _
      | (with_reducible refine sf_ite ?_ ?_)
      | (with_reducible refine sfAt_ite ?_ ?_)
      | split
      | (with_reducible refine sfAt_of ?_ _)
      | dsimp only)

syntax "ilf_sf" : tactic
macro_rules
  | `(tactic| ilf_sf) => `(tactic| repeat' ilf_sf_step)

instance (op : SinkOp) : Sf (sinkUnit op) := by unfold sinkUnit; ilf_sf
instance (op : SinkOp) : Sf (sinkNode op) := by unfold sinkNode; ilf_sf
instance (op : SinkOp) : Sf (sinkBool op) := by unfold sinkBool; ilf_sf
instance (msg : String) : Sf (parseError msg) := by unfold parseError; ilf_sf
instance (h : Id) : Sf (elemName h) := by unfold elemName; ilf_sf
instance (h : Id) (n : Str) : Sf (htmlElemNamedS h n) := by unfold htmlElemNamedS; ilf_sf
instance (h : Id) (n : String) : Sf (htmlElemNamed h n) := by unfold htmlElemNamed; ilf_sf
instance (h : Id) (set : EName → Bool) : Sf (elemIn h set) := by unfold elemIn; ilf_sf
instance : Sf currentNode := by unfold currentNode; ilf_sf
instance : Sf htmlElem := by unfold htmlElem; ilf_sf
instance (b : Bool) : Sf (setFramesetOk b) := by unfold setFramesetOk; ilf_sf
instance : Sf unexpected := by unfold unexpected; ilf_sf
instance (k : RawKind) : Sf (toRawTextMode k) := by unfold toRawTextMode; ilf_sf
instance (n : QualName) (a : List Attr) (d : Bool) : Sf (createElementWithFlags n a d) := by
  unfold createElementWithFlags; ilf_sf
theorem sf_fosterLoop : ∀ l, Sf (fosterLoop l)
  | [] => by unfold fosterLoop; ilf_sf
  | _ :: rest => by
    have ih := sf_fosterLoop rest
    unfold fosterLoop; ilf_sf
instance (l : List Id) : Sf (fosterLoop l) := sf_fosterLoop l
instance (o : Option Id) : Sf (appropriatePlaceForInsertion o) := by unfold appropriatePlaceForInsertion; ilf_sf
instance (p : InsertionPoint) (c : NodeOrText) : Sf (insertAt p c) := by unfold insertAt; ilf_sf
theorem sf_anyHtmlElemNamed (n : String) : ∀ l, Sf (anyHtmlElemNamed n l)
  | [] => by unfold anyHtmlElemNamed; ilf_sf
  | _ :: rest => by
    have ih := sf_anyHtmlElemNamed n rest
    unfold anyHtmlElemNamed; ilf_sf
instance (n : String) (l : List Id) : Sf (anyHtmlElemNamed n l) := sf_anyHtmlElemNamed n l
instance (n : String) : Sf (inHtmlElemNamed n) := by unfold inHtmlElemNamed; ilf_sf

/-! ## element names -/

theorem elemName_sig {d : Dom} {h : Id} {ns loc : Str} :
    d.elemName h = .ok (ns, loc) ↔ ∃ x, sigOf d h = some x ∧ x.1.ns = ns ∧ x.1.loc = loc := by
  unfold Dom.elemName Dom.get sigOf Dom.dataOf
  cases hn : d.nodes[h]? with
  | none => simp [bind, Except.bind]
  | some n =>
    cases hd : n.data <;>
      simp [bind, Except.bind, hd, H5V.Lemmas.TBSafe.sigData, throw, throwThe, MonadExceptOf.throw]

theorem elemName_ext {d d' : Dom} {h : Id} {ns loc : Str} (he : Ext d d') (hn : d.elemName h = .ok (ns, loc)) :
    d'.elemName h = .ok (ns, loc) := by
  obtain ⟨x, hx, h1, h2⟩ := elemName_sig.mp hn
  exact elemName_sig.mpr ⟨x, he h x hx, h1, h2⟩

theorem apply_elemName_ok {d d' : Dom} {h : Id} {out : Output} :
    d.apply (.elemName h) = .ok (d', out) ↔ ∃ ns loc, d.elemName h = .ok (ns, loc) ∧ d' = d ∧ out = .name ns loc := by
  unfold Dom.apply Dom.applyV
  cases hn : d.elemName h with
  | error e => simp [bind, Except.bind, hn]
  | ok p =>
    obtain ⟨ns, loc⟩ := p
    simp only [bind, Except.bind, hn, Except.ok.injEq, Prod.mk.injEq]
    constructor
    · rintro ⟨rfl, rfl⟩; exact ⟨ns, loc, ⟨rfl, rfl⟩, rfl, rfl⟩
    · rintro ⟨ns', loc', ⟨rfl, rfl⟩, rfl, rfl⟩; exact ⟨rfl, rfl⟩

/-- the current node is an HTML element, and it is the adjusted current node (the stack has at least
two entries, so the context element of a fragment parse is not consulted) -/
def TopHtml (s : State) : Prop :=
  ∃ top loc, s.openElems.getLast? = some top ∧ s.dom.elemName top = .ok (nsHtml, loc) ∧ 2 ≤ s.openElems.length

theorem TopHtml.of_frS {s s' : State} (h : TopHtml s) (f : FrS s s') : TopHtml s' := by
  obtain ⟨top, loc, h1, h2, h3⟩ := h
  exact ⟨top, loc, by rw [f.stack]; exact h1, elemName_ext f.ext h2, by rw [f.stack]; exact h3⟩

/-- **the syntactic invariant**: when the "ignore the next LF" flag is set, the current node is an HTML
element on a stack of at least two entries -/
def IgnS (s : State) : Prop := s.ignoreLf = true → TopHtml s

/-! ## partial correctness of one run -/

def Okl {α : Type} (m : M α) (s : State) (Q : α → State → Prop) : Prop := ∀ a s', m s = .ok (a, s') → Q a s'

theorem okl_pure {α : Type} {a : α} {s : State} {Q : α → State → Prop} (h : Q a s) : Okl (pure a : M α) s Q :=
  fun _ _ e => by obtain ⟨rfl, rfl⟩ := pure_ok.mp e; exact h

theorem okl_throw {α : Type} {e : String} {s : State} {Q : α → State → Prop} : Okl (throw e : M α) s Q :=
  fun _ _ h => absurd h throw_ok

theorem okl_panicAt {α : Type} {c f t : String} {s : State} {Q : α → State → Prop} : Okl (panicAt c f t : M α) s Q :=
  fun _ _ h => absurd h throw_ok

theorem okl_fuelOut {α : Type} {w : String} {s : State} {Q : α → State → Prop} : Okl (fuelOut w : M α) s Q :=
  fun _ _ h => absurd h throw_ok

theorem okl_bind {α β : Type} {m : M α} {f : α → M β} {s : State} {P : α → State → Prop} {Q : β → State → Prop}
    (h1 : Okl m s P) (h2 : ∀ a s1, P a s1 → Okl (f a) s1 Q) : Okl (m >>= f) s Q :=
  fun b s'' e => by
    obtain ⟨a, s', e1, e2⟩ := bind_ok.mp e
    exact h2 a s' (h1 a s' e1) b s'' e2

theorem okl_mono {α : Type} {m : M α} {s : State} {P Q : α → State → Prop} (h : Okl m s P)
    (hpq : ∀ a s', P a s' → Q a s') : Okl m s Q := fun a s' e => hpq a s' (h a s' e)

theorem okl_getS_bind {β : Type} {f : State → M β} {s : State} {Q : β → State → Prop} (h : Okl (f s) s Q) :
    Okl (getS >>= f) s Q :=
  fun b s'' e => by
    obtain ⟨a, s', e1, e2⟩ := bind_ok.mp e
    obtain ⟨rfl, rfl⟩ := getS_ok.mp e1
    exact h b s'' e2

theorem okl_modS_bind {β : Type} {g : State → State} {k : Unit → M β} {s : State} {Q : β → State → Prop}
    (h : Okl (k ()) (g s) Q) : Okl (modS g >>= k) s Q :=
  fun b s'' e => by
    obtain ⟨u, s', e1, e2⟩ := bind_ok.mp e
    rw [modS_ok.mp e1] at e2
    exact h b s'' e2

theorem okl_fl {α : Type} (m : M α) [h : Fl m] (s : State) : Okl m s (fun _ s' => frL s' = frL s) :=
  fun _ _ e => fl_run h e

theorem okl_fl_bind {α β : Type} {m : M α} [h : Fl m] {f : α → M β} {s : State} {Q : β → State → Prop}
    (h2 : ∀ a s1, frL s1 = frL s → Okl (f a) s1 Q) : Okl (m >>= f) s Q :=
  okl_bind (okl_fl m s) h2

theorem okl_sf {α : Type} (m : M α) [h : Sf m] (s : State) : Okl m s (fun _ s' => FrS s s') :=
  fun _ _ e => sf_run h e

theorem okl_sf_bind {α β : Type} {m : M α} [h : Sf m] {f : α → M β} {s : State} {Q : β → State → Prop}
    (h2 : ∀ a s1, FrS s s1 → Okl (f a) s1 Q) : Okl (m >>= f) s Q :=
  okl_bind (okl_sf m s) h2

theorem okl_sf_bind' {α β : Type} {m : M α} (h : Sf m) {f : α → M β} {s : State} {Q : β → State → Prop}
    (h2 : ∀ a s1, FrS s s1 → Okl (f a) s1 Q) : Okl (m >>= f) s Q :=
  okl_bind (fun _ _ e => sf_run h e) h2

theorem okl_panicAt_bind {α β : Type} {c f t : String} {k : α → M β} {s : State} {Q : β → State → Prop} :
    Okl (panicAt c f t >>= k) s Q :=
  okl_bind (P := fun _ _ => False) okl_panicAt (fun _ _ h => False.elim h)

theorem okl_pure_bind {α β : Type} {a : α} {f : α → M β} {s : State} {Q : β → State → Prop} (h : Okl (f a) s Q) :
    Okl ((pure a : M α) >>= f) s Q :=
  okl_bind (P := fun b s1 => b = a ∧ s1 = s) (okl_pure ⟨rfl, rfl⟩) (fun _ _ ⟨h1, h2⟩ => h1 ▸ h2 ▸ h)

theorem okl_ite_jp {β : Type} {c : Prop} [Decidable c] {a : M PUnit} {k : PUnit → M β} {s : State}
    {P : State → Prop} {R : β → State → Prop} (ha : c → Okl a s (fun _ s1 => P s1)) (hn : ¬ c → P s)
    (hk : ∀ s1, P s1 → Okl (k PUnit.unit) s1 R) : Okl (if c then a >>= k else k PUnit.unit) s R := by
  split
  · rename_i hc; exact okl_bind (ha hc) (fun _ s1 h => hk s1 h)
  · rename_i hc; exact hk s (hn hc)

/-! ## `insert_element` pushes an element with the requested name on a non-empty stack -/

/-- `appropriate_place_for_insertion(None)` consults the current node first: the stack is not empty -/
theorem appropriatePlace_nonempty {s s' : State} {ip : InsertionPoint}
    (e : appropriatePlaceForInsertion none s = .ok (ip, s')) : s.openElems ≠ [] := by
  intro h0
  unfold appropriatePlaceForInsertion at e
  obtain ⟨a, s1, e1, _⟩ := bind_ok.mp e
  unfold currentNode at e1
  obtain ⟨s0, s2, e2, e3⟩ := bind_ok.mp e1
  obtain ⟨rfl, rfl⟩ := getS_ok.mp e2
  rw [h0] at e3
  exact absurd e3 throw_ok

/-- `create_element` answers a node that carries the requested name -/
theorem okl_createElementWithFlags (name : QualName) (attrs : List Attr) (hadDup : Bool) (s : State) :
    Okl (createElementWithFlags name attrs hadDup) s
      (fun r s' => FrS s s' ∧ s'.dom.elemName r = .ok (name.ns, name.loc)) := by
  intro r s' e
  refine ⟨sf_run inferInstance e, ?_⟩
  unfold createElementWithFlags at e
  obtain ⟨d, hd, rfl⟩ := sink_ok.mp (sinkNode_ok.mp e)
  rw [H5V.Lemmas.TBSafe.apply_createElement] at hd
  cases hd
  obtain ⟨_, tc, hs, _⟩ := H5V.Lemmas.TBSafe.createElement_spec s.dom name attrs
    { template := name.ns == nsHtml && isName name.loc "template",
      mathmlIP := (if name.ns == nsMathml && isName name.loc "annotation-xml" then
        attrs.any (fun a => a.name.ns == [] && isName a.name.loc "encoding" &&
          (eqIgnoreAsciiCase a.value "text/html".toList ||
           eqIgnoreAsciiCase a.value "application/xhtml+xml".toList)) else false),
      hadDuplicateAttributes := hadDup }
  exact elemName_sig.mpr ⟨_, hs, rfl, rfl⟩

/-- what `insert_element(Push, ns, name, …)` guarantees -/
structure Pushed (ns : Str) (s : State) (r : Id) (s' : State) : Prop where
  fl : frL s' = frL s
  ne : s.openElems ≠ []
  stack : s'.openElems = s.openElems ++ [r]
  name : ∃ loc, s'.dom.elemName r = .ok (ns, loc)

theorem okl_insertElement_push (ns name : Str) (attrs : List Attr) (hadDup : Bool) (s : State) :
    Okl (insertElement true ns name attrs hadDup) s (Pushed ns s) := by
  unfold insertElement
  refine okl_bind (P := fun _ s1 => FrS s s1 ∧ s.openElems ≠ [])
    (fun ip s1 e => ⟨sf_run inferInstance e, appropriatePlace_nonempty e⟩) ?_
  rintro ip s1 ⟨f1, hne⟩
  dsimp only
  refine okl_getS_bind ?_
  -- the insertion itself, from a state with the frame of `s`
  have hjp : ∀ (elem : Id) (s4 : State), FrS s s4 → s4.dom.elemName elem = .ok (ns, name) →
      Okl (do
        insertAt ip (NodeOrText.node elem)
        if true = true then do
            push elem
            pure elem
          else pure elem) s4 (Pushed ns s) := by
    intro elem s4 f4 hn4
    refine okl_sf_bind ?_
    intro _ s5 f5
    rw [if_pos rfl]
    unfold push
    refine okl_modS_bind ?_
    refine okl_pure ⟨?_, hne, ?_, name, ?_⟩
    · exact (f4.trans f5).frL
    · show s5.openElems ++ [elem] = s.openElems ++ [elem]
      rw [(f4.trans f5).stack]
    · exact elemName_ext f5.ext hn4
  have htail : ∀ (fa : Bool) (s2 : State), FrS s s2 →
      Okl (do
        let elem ← createElementWithFlags { pfx := none, ns := ns, loc := name } attrs hadDup
        if fa = true then do
            let __do_lift ← getS
            match __do_lift.formElem with
              | some form => do
                sinkUnit (SinkOp.associateWithForm elem form ip.nodes.fst ip.nodes.snd)
                insertAt ip (NodeOrText.node elem)
                if true = true then do
                    push elem
                    pure elem
                  else pure elem
              | none => do
                panicAt "unwrap-none" "mod.rs:1401" "form_elem unwrap"
                insertAt ip (NodeOrText.node elem)
                if true = true then do
                    push elem
                    pure elem
                  else pure elem
          else do
            insertAt ip (NodeOrText.node elem)
            if true = true then do
                push elem
                pure elem
              else pure elem) s2 (Pushed ns s) := by
    intro fa s2 f2
    refine okl_bind (okl_createElementWithFlags _ _ _ s2) ?_
    rintro elem s3 ⟨f3, hn3⟩
    split
    · refine okl_getS_bind ?_
      split
      · refine okl_sf_bind ?_
        intro _ s4 f4
        exact hjp elem s4 ((f2.trans f3).trans f4) (elemName_ext f4.ext hn3)
      · exact okl_panicAt_bind
    · exact hjp elem s3 (f2.trans f3) hn3
  split
  · refine okl_sf_bind ?_
    intro b s2 f2
    split
    · exact okl_pure_bind (htail false s2 (f1.trans f2))
    · exact okl_pure_bind (htail _ s2 (f1.trans f2))
  · exact okl_pure_bind (htail false s1 f1)

theorem okl_insertElementFor (tag : Tag) (s : State) : Okl (insertElementFor tag) s (Pushed nsHtml s) := by
  unfold insertElementFor
  exact okl_insertElement_push _ _ _ _ s

/-- the state after the push has the new HTML element on top of at least one other element -/
theorem Pushed.topHtml {s s' : State} {r : Id} (h : Pushed nsHtml s r s') : TopHtml s' := by
  obtain ⟨loc, hn⟩ := h.name
  refine ⟨r, loc, by rw [h.stack]; simp, hn, ?_⟩
  rw [h.stack, List.length_append]
  have : 0 < s.openElems.length := List.length_pos_iff.mpr h.ne
  simp only [List.length_cons, List.length_nil]
  omega

/-! ## `HL`: the rules -/

def isTagTok : Token → Bool
  | .tag _ => true
  | _ => false

/-- an answer that does not re-process -/
def Plain : ProcessResult → Bool
  | .reprocess _ _ => false
  | .reprocessForeign _ => false
  | _ => true

/-- the answers of the arms that set the flag -/
def Fin (a : ProcessResult) : Prop := a = .done ∨ ∃ k, a = .toRawData k

/-- what a rule that was handed `tok` guarantees -/
structure RQ (tok : Token) (s : State) (a : ProcessResult) (s' : State) : Prop where
  ctx : s'.contextElem = s.contextElem
  rep : ∀ m t, a = .reprocess m t → t = tok
  repf : ∀ t, a = .reprocessForeign t → t = tok
  lf : s'.ignoreLf = s.ignoreLf ∨ (isTagTok tok = true ∧ s'.ignoreLf = true ∧ TopHtml s' ∧ Fin a)

theorem RQ.of_fl_left {tok : Token} {s s1 s' : State} {a : ProcessResult} (h : RQ tok s1 a s')
    (hf : frL s1 = frL s) : RQ tok s a s' :=
  ⟨h.ctx.trans (frL_eq hf).2, h.rep, h.repf, by rw [← (frL_eq hf).1]; exact h.lf⟩

theorem RQ.of_fl_right {tok : Token} {s s1 s' : State} {a : ProcessResult} (h : RQ tok s a s1)
    (h0 : s1.ignoreLf = s.ignoreLf) (hf : frL s' = frL s1) : RQ tok s a s' :=
  ⟨(frL_eq hf).2.trans h.ctx, h.rep, h.repf, Or.inl ((frL_eq hf).1.trans h0)⟩

theorem RQ.of_sf_right {tok : Token} {s s1 s' : State} {a : ProcessResult} (h : RQ tok s a s1)
    (hf : FrS s1 s') : RQ tok s a s' :=
  ⟨hf.ctx.trans h.ctx, h.rep, h.repf, by
    rcases h.lf with h1 | ⟨h1, h2, h3, h4⟩
    · exact Or.inl (hf.lf.trans h1)
    · exact Or.inr ⟨h1, hf.lf.trans h2, h3.of_frS hf, h4⟩⟩

theorem RQ.plain {tok : Token} {s : State} {a : ProcessResult} (h : Plain a = true) : RQ tok s a s :=
  ⟨rfl, fun m t e => (by rw [e] at h; cases h), fun t e => (by rw [e] at h; cases h), Or.inl rfl⟩

structure HLAt (s : State) (tok : Token) (m : M ProcessResult) : Prop where
  h : ∀ a s', m s = .ok (a, s') → RQ tok s a s'

class HL (tok : Token) (m : M ProcessResult) : Prop where
  h : ∀ s, HLAt s tok m

theorem hl_run {tok : Token} {m : M ProcessResult} (h : HL tok m) {s s' : State} {a : ProcessResult}
    (e : m s = .ok (a, s')) : RQ tok s a s' := (h.h s).h a s' e

theorem hl_pure_plain {tok : Token} {a : ProcessResult} (h : Plain a = true) : HL tok (pure a) :=
  ⟨fun _ => ⟨fun _ _ e => by obtain ⟨rfl, rfl⟩ := pure_ok.mp e; exact RQ.plain h⟩⟩

theorem hl_pure_rep {tok : Token} {m : Mode} : HL tok (pure (.reprocess m tok)) :=
  ⟨fun _ => ⟨fun _ _ e => by
    obtain ⟨rfl, rfl⟩ := pure_ok.mp e
    exact ⟨rfl, fun _ _ e => (by cases e; rfl), fun _ e => (by cases e), Or.inl rfl⟩⟩⟩

instance hl_throw {tok : Token} (e : String) : HL tok (throw e) := ⟨fun _ => ⟨fun _ _ h => absurd h throw_ok⟩⟩
instance hl_panicAt {tok : Token} (c f t : String) : HL tok (panicAt c f t) :=
  ⟨fun _ => ⟨fun _ _ h => absurd h throw_ok⟩⟩
instance hl_fuelOut {tok : Token} (w : String) : HL tok (fuelOut w) := ⟨fun _ => ⟨fun _ _ h => absurd h throw_ok⟩⟩

theorem hl_bind {α : Type} {tok : Token} {m : M α} {f : α → M ProcessResult} (h1 : Fl m) (h2 : ∀ a, HL tok (f a)) :
    HL tok (m >>= f) :=
  ⟨fun s => ⟨fun b s'' e => by
    obtain ⟨a, s', e1, e2⟩ := bind_ok.mp e
    exact (hl_run (h2 a) e2).of_fl_left (fl_run h1 e1)⟩⟩

theorem hl_getS_bind {tok : Token} {f : State → M ProcessResult} (h : ∀ s, HLAt s tok (f s)) : HL tok (getS >>= f) :=
  ⟨fun s => ⟨fun b s'' e => by
    obtain ⟨a, s', e1, e2⟩ := bind_ok.mp e
    obtain ⟨rfl, rfl⟩ := getS_ok.mp e1
    exact (h _).h b s'' e2⟩⟩

theorem hlAt_of {tok : Token} {m : M ProcessResult} (h : HL tok m) (s : State) : HLAt s tok m := h.h s

theorem hlAt_set_bind {tok : Token} {x s : State} {k : Unit → M ProcessResult} (hx : frL x = frL s)
    (h : ∀ u, HL tok (k u)) : HLAt s tok (set x >>= k) :=
  ⟨fun b s'' e => by
    obtain ⟨u, s', e1, e2⟩ := bind_ok.mp e
    rw [set_ok.mp e1] at e2
    exact (hl_run (h u) e2).of_fl_left hx⟩

theorem hl_ite {tok : Token} {c : Prop} [Decidable c] {a b : M ProcessResult} (ha : HL tok a) (hb : HL tok b) :
    HL tok (if c then a else b) := by
  split
  · exact ha
  · exact hb

theorem hlAt_ite {tok : Token} {s : State} {c : Prop} [Decidable c] {a b : M ProcessResult} (ha : HLAt s tok a)
    (hb : HLAt s tok b) : HLAt s tok (if c then a else b) := by
  split
  · exact ha
  · exact hb

/-- a rule that keeps the frame is a frame-keeping computation … -/
theorem hl_of_fl_plain {tok : Token} {m : M ProcessResult} (h : Fl m)
    (hp : ∀ s a s', m s = .ok (a, s') → Plain a = true) : HL tok m :=
  ⟨fun s => ⟨fun a s' e => by
    have hf := frL_eq (fl_run h e)
    have hpl := hp s a s' e
    exact ⟨hf.2, fun m t e => (by rw [e] at hpl; cases hpl), fun t e => (by rw [e] at hpl; cases hpl), Or.inl hf.1⟩⟩⟩

/-- … and a rule that was handed something else than a tag keeps the frame -/
theorem fl_of_hl {tok : Token} {m : M ProcessResult} (h : HL tok m) (ht : isTagTok tok = false) : Fl m :=
  ⟨fun s => ⟨fun a s' e => by
    have hq := hl_run h e
    unfold frL
    rw [hq.ctx]
    rcases hq.lf with h1 | ⟨h1, _⟩
    · rw [h1]
    · rw [ht] at h1; cases h1⟩⟩

/-- `m` answers `a` and keeps the frame -/
structure FlRet {α : Type} (a : α) (m : M α) : Prop where
  h : ∀ s b s', m s = .ok (b, s') → b = a ∧ frL s' = frL s

theorem flRet_pure {α : Type} (a : α) : FlRet a (pure a : M α) :=
  ⟨fun _ _ _ e => by obtain ⟨rfl, rfl⟩ := pure_ok.mp e; exact ⟨rfl, rfl⟩⟩

theorem flRet_bind {α β : Type} {b : β} {m : M α} {f : α → M β} (h1 : Fl m) (h2 : ∀ a, FlRet b (f a)) :
    FlRet b (m >>= f) :=
  ⟨fun s c s'' e => by
    obtain ⟨a, s', e1, e2⟩ := bind_ok.mp e
    obtain ⟨r, f2⟩ := (h2 a).h s' c s'' e2
    exact ⟨r, f2.trans (fl_run h1 e1)⟩⟩

/-- `m` answers `a` and keeps the strong frame -/
structure SfRet {α : Type} (a : α) (m : M α) : Prop where
  h : ∀ s b s', m s = .ok (b, s') → b = a ∧ FrS s s'

theorem sfRet_pure {α : Type} (a : α) : SfRet a (pure a : M α) :=
  ⟨fun _ _ _ e => by obtain ⟨rfl, rfl⟩ := pure_ok.mp e; exact ⟨rfl, FrS.refl _⟩⟩

theorem sfRet_bind {α β : Type} {b : β} {m : M α} {f : α → M β} (h1 : Sf m) (h2 : ∀ a, SfRet b (f a)) :
    SfRet b (m >>= f) :=
  ⟨fun s c s'' e => by
    obtain ⟨a, s', e1, e2⟩ := bind_ok.mp e
    obtain ⟨r, f2⟩ := (h2 a).h s' c s'' e2
    exact ⟨r, (sf_run h1 e1).trans f2⟩⟩

/-- a frame-keeping rule whose answer is handed on after some frame-keeping clean-up (the clean-up may
touch the stack: the rule has not set the flag) -/
theorem hl_ret_fl {tok : Token} {m : M ProcessResult} {f : ProcessResult → M ProcessResult} (h0 : Fl m)
    (h1 : HL tok m) (h2 : ∀ a, FlRet a (f a)) : HL tok (m >>= f) :=
  ⟨fun s => ⟨fun b s'' e => by
    obtain ⟨a, s', e1, e2⟩ := bind_ok.mp e
    obtain ⟨rfl, f2⟩ := (h2 a).h s' b s'' e2
    exact (hl_run h1 e1).of_fl_right (frL_eq (fl_run h0 e1)).1 f2⟩⟩

/-- a rule whose answer is handed on after a clean-up that keeps the stack and the element names -/
theorem hl_ret_sf {tok : Token} {m : M ProcessResult} {f : ProcessResult → M ProcessResult}
    (h1 : HL tok m) (h2 : ∀ a, SfRet a (f a)) : HL tok (m >>= f) :=
  ⟨fun s => ⟨fun b s'' e => by
    obtain ⟨a, s', e1, e2⟩ := bind_ok.mp e
    obtain ⟨rfl, f2⟩ := (h2 a).h s' b s'' e2
    exact (hl_run h1 e1).of_sf_right f2⟩⟩

/-- one step of the walk over a rule -/
syntax "ilf_step" : tactic
macro_rules
  | `(tactic| ilf_step) => `(tactic|
    first
      | exact inferInstance
      | with_reducible assumption
      | exact fl_modS (fun _ => rfl)
      | exact sf_modS (fun _ => ⟨rfl, rfl, rfl, Ext.refl _⟩)
      | exact hl_pure_plain rfl
      | exact hl_pure_rep
      | (with_reducible exact flRet_pure _)
      | (with_reducible exact sfRet_pure _)
      | (with_reducible refine hl_getS_bind ?_)
      | (with_reducible refine fl_getS_bind ?_)
      | (with_reducible refine hl_bind ?_ ?_)
      | (with_reducible refine flRet_bind ?_ ?_)
      | (with_reducible refine sfRet_bind ?_ ?_)
      | (with_reducible refine fl_bind ?_ ?_)
      | (with_reducible refine hlAt_set_bind rfl ?_)
      | (with_reducible refine flAt_set_bind rfl ?_)
      | (with_reducible exact flAt_set rfl)
      | intro _
      | (with_reducible refine hl_ite ?_ ?_)
      | (with_reducible refine hlAt_ite ?_ ?_)
      | (with_reducible refine fl_ite ?_ ?_)
      | (with_reducible refine flAt_ite ?_ ?_)
      | split
      | (with_reducible refine hlAt_of ?_ _)
      | (with_reducible refine flAt_of ?_ _)
      | dsimp only)

syntax "ilf_walk" : tactic
macro_rules
  | `(tactic| ilf_walk) => `(tactic| repeat' ilf_step)

/-! ### the three arms that set the flag -/

/-- the `<pre>` / `<listing>` arm of "in body", after `close_p_element_in_button_scope` -/
theorem hl_preArm (tag : Tag) : HL (.tag tag) (do
    let _ ← insertElementFor tag
    modS fun s => { s with ignoreLf := true }
    setFramesetOk false
    pure ProcessResult.done) :=
  ⟨fun s => ⟨fun a s' e => by
    obtain ⟨r, s1, e1, e2⟩ := bind_ok.mp e
    have hp := okl_insertElementFor tag s r s1 e1
    obtain ⟨u, s2, e3, e4⟩ := bind_ok.mp e2
    rw [modS_ok.mp e3] at e4
    obtain ⟨u', s3, e5, e6⟩ := bind_ok.mp e4
    obtain ⟨rfl, rfl⟩ := pure_ok.mp e6
    have f3 : FrS { s1 with ignoreLf := true } s3 := sf_run inferInstance e5
    have ht : TopHtml ({ s1 with ignoreLf := true } : State) := hp.topHtml
    exact ⟨f3.ctx.trans (frL_eq hp.fl).2, fun _ _ e => (by cases e), fun _ e => (by cases e),
      Or.inr ⟨rfl, f3.lf, ht.of_frS f3, Or.inl rfl⟩⟩⟩⟩

/-- the `<textarea>` arm of "in body" -/
theorem hl_textareaArm (tag : Tag) : HL (.tag tag) (do
    modS fun s => { s with ignoreLf := true }
    setFramesetOk false
    parseRawData tag .rcdata) :=
  ⟨fun s => ⟨fun a s' e => by
    obtain ⟨u, s1, e1, e2⟩ := bind_ok.mp e
    rw [modS_ok.mp e1] at e2
    obtain ⟨u', s2, e3, e4⟩ := bind_ok.mp e2
    have f2 : FrS { s with ignoreLf := true } s2 := sf_run inferInstance e3
    unfold parseRawData at e4
    obtain ⟨r, s3, e5, e6⟩ := bind_ok.mp e4
    have hp := okl_insertElementFor tag s2 r s3 e5
    have f4 : FrS s3 s' := sf_run inferInstance e6
    have ha : ∃ k, a = .toRawData k := by
      unfold toRawTextMode at e6
      obtain ⟨_, s4, _, e8⟩ := bind_ok.mp e6
      obtain ⟨rfl, _⟩ := pure_ok.mp e8
      exact ⟨_, rfl⟩
    have hlf : s'.ignoreLf = true := f4.lf.trans ((frL_eq hp.fl).1.trans f2.lf)
    exact ⟨f4.ctx.trans ((frL_eq hp.fl).2.trans f2.ctx),
      fun _ _ e => (by obtain ⟨k, rfl⟩ := ha; cases e), fun _ e => (by obtain ⟨k, rfl⟩ := ha; cases e),
      Or.inr ⟨rfl, hlf, hp.topHtml.of_frS f4, Or.inr ha⟩⟩⟩⟩

macro_rules
  | `(tactic| ilf_step) => `(tactic|
    first
      | (with_reducible exact hl_preArm _)
      | (with_reducible exact hl_textareaArm _))

/-! ### helpers -/

instance {tok : Token} : HL tok unexpected := by unfold unexpected; ilf_walk
instance {tok : Token} (t : Str) : HL tok (appendText t) := by unfold appendText; ilf_walk
instance {tok : Token} (t : Str) : HL tok (appendComment t) := by unfold appendComment; ilf_walk
instance {tok : Token} (t : Str) : HL tok (appendCommentToDoc t) := by unfold appendCommentToDoc; ilf_walk
instance {tok : Token} (t : Str) : HL tok (appendCommentToHtml t) := by unfold appendCommentToHtml; ilf_walk
instance {tok : Token} (tag : Tag) : HL tok (inBodyHtml tag) := by unfold inBodyHtml; ilf_walk
instance {tok : Token} (tag : Tag) : HL tok (inBodyVoid tag) := by unfold inBodyVoid; ilf_walk
instance {tok : Token} (tag : Tag) (ns : Str) : HL tok (enterForeign tag ns) := by unfold enterForeign; ilf_walk
instance {tok : Token} (tag : Tag) : HL tok (foreignStartTag tag) := by unfold foreignStartTag; ilf_walk
instance : HL .eof inTemplateEof := by unfold inTemplateEof; ilf_walk
instance {tok : Token} (k : RawKind) : HL tok (toRawTextMode k) := by unfold toRawTextMode; ilf_walk
instance {tok : Token} (tag : Tag) (k : RawKind) : HL tok (parseRawData tag k) := by unfold parseRawData; ilf_walk

/-! ### the insertion modes -/

instance (tok : Token) : HL tok (stepInitial tok) := by unfold stepInitial; ilf_walk
instance (tok : Token) : HL tok (stepInHead tok) := by unfold stepInHead; ilf_walk

macro_rules
  | `(tactic| ilf_step) => `(tactic|
      (with_reducible refine hl_ret_fl (inferInstance : Fl (stepInHead _)) (inferInstance : HL _ (stepInHead _)) ?_))

instance (tok : Token) : HL tok (stepBeforeHtml tok) := by unfold stepBeforeHtml; ilf_walk
instance (tok : Token) : HL tok (stepInBody tok) := by unfold stepInBody; ilf_walk

macro_rules
  | `(tactic| ilf_step) => `(tactic|
      (with_reducible refine hl_ret_sf (inferInstance : HL _ (stepInBody _)) ?_))

instance (tok : Token) : HL tok (stepBeforeHead tok) := by unfold stepBeforeHead; ilf_walk
instance (tok : Token) : HL tok (stepInHeadNoscript tok) := by unfold stepInHeadNoscript; ilf_walk
instance (tok : Token) : HL tok (stepAfterHead tok) := by unfold stepAfterHead; ilf_walk
instance (tok : Token) : HL tok (stepText tok) := by unfold stepText; ilf_walk
instance (tok : Token) : HL tok (fosterParentInBody tok) := by unfold fosterParentInBody; ilf_walk
instance (st : SplitStatus) (z : Str) : Fl (fosterParentInBody (.chars st z)) :=
  fl_of_hl (tok := .chars st z) inferInstance rfl
instance (tok : Token) : HL tok (processCharsInTable tok) := by unfold processCharsInTable; ilf_walk
instance (tok : Token) : HL tok (stepInTable tok) := by unfold stepInTable; ilf_walk
theorem fl_flushPendingFoster : ∀ l, Fl (flushPendingFoster l)
  | [] => by unfold flushPendingFoster; ilf_fl
  | (_, _) :: rest => by
    have ih := fl_flushPendingFoster rest
    unfold flushPendingFoster; ilf_fl
instance (l : List (SplitStatus × Str)) : Fl (flushPendingFoster l) := fl_flushPendingFoster l
instance (tok : Token) : HL tok (stepInTableText tok) := by unfold stepInTableText; ilf_walk
instance : Fl flushPendingTableText := by unfold flushPendingTableText; ilf_fl
instance (tok : Token) : HL tok (stepInCaption tok) := by unfold stepInCaption; ilf_walk
instance (tok : Token) : HL tok (stepInColumnGroup tok) := by unfold stepInColumnGroup; ilf_walk
instance (tok : Token) : HL tok (stepInTableBody tok) := by unfold stepInTableBody; ilf_walk
instance (tok : Token) : HL tok (stepInRow tok) := by unfold stepInRow; ilf_walk
instance (tok : Token) : HL tok (stepInCell tok) := by unfold stepInCell; ilf_walk
instance (tok : Token) : HL tok (stepInTemplate tok) := by unfold stepInTemplate; ilf_walk
instance (tok : Token) : HL tok (stepAfterBody tok) := by unfold stepAfterBody; ilf_walk
instance (tok : Token) : HL tok (stepInFrameset tok) := by unfold stepInFrameset; ilf_walk
instance (tok : Token) : HL tok (stepAfterFrameset tok) := by unfold stepAfterFrameset; ilf_walk
instance (tok : Token) : HL tok (stepAfterAfterBody tok) := by unfold stepAfterAfterBody; ilf_walk
instance (tok : Token) : HL tok (stepAfterAfterFrameset tok) := by unfold stepAfterAfterFrameset; ilf_walk
instance (mode : Mode) (tok : Token) : HL tok (step mode tok) := by
  cases mode <;> (unfold step; exact inferInstance)
instance (tag : Tag) : HL (.tag tag) (unexpectedStartTagInForeignContent tag) := by
  unfold unexpectedStartTagInForeignContent; ilf_walk
theorem hl_foreignEndTagLoop (tag : Tag) : ∀ i first, HL (.tag tag) (foreignEndTagLoop tag i first)
  | 0, _ => by unfold foreignEndTagLoop; ilf_walk
  | i + 1, _ => by
    have ih := hl_foreignEndTagLoop tag i
    unfold foreignEndTagLoop; ilf_walk
instance (tag : Tag) (i : Nat) (first : Bool) : HL (.tag tag) (foreignEndTagLoop tag i first) :=
  hl_foreignEndTagLoop tag i first
instance (tok : Token) : HL tok (stepForeign tok) := by unfold stepForeign; ilf_walk

/-! ## the loop of `process_to_completion` -/

theorem okl_hl {tok : Token} (m : M ProcessResult) [h : HL tok m] (s : State) :
    Okl m s (fun a s' => RQ tok s a s') := fun _ _ e => hl_run h e

theorem okl_of_fl {α : Type} {m : M α} (h : Fl m) (s : State) : Okl m s (fun _ s' => frL s' = frL s) :=
  fun _ _ e => fl_run h e

/-- the queue of `process_to_completion` holds no tag, and it is empty behind a tag -/
def MoreOk (tok : Token) (more : List Token) : Prop :=
  (∀ t ∈ more, isTagTok t = false) ∧ (isTagTok tok = true → more = [])

/-- what a run of `process_to_completion` from a state with a clear flag guarantees -/
structure LoopPost (tok : Token) (s s' : State) : Prop where
  ctx : s'.contextElem = s.contextElem
  lf : s'.ignoreLf = true → isTagTok tok = true ∧ TopHtml s'

theorem LoopPost.step {tok tok' : Token} {s s1 s' : State} (hc : s1.contextElem = s.contextElem)
    (hl : LoopPost tok' s1 s') (ht : isTagTok tok' = true → isTagTok tok = true) : LoopPost tok s s' :=
  ⟨hl.ctx.trans hc, fun h => ⟨ht (hl.lf h).1, (hl.lf h).2⟩⟩

theorem okl_ptcCont {fuel : Nat} {tok : Token} {more : List Token}
    (ih : ∀ tok more s, s.ignoreLf = false → MoreOk tok more →
      Okl (processToCompletion fuel tok more) s (fun _ s' => LoopPost tok s s'))
    {s s1 : State} {a : ProcessResult} (h0 : s.ignoreLf = false) (hd : RQ tok s a s1) (hmo : MoreOk tok more) :
    Okl (ptcCont fuel tok more a) s1 (fun _ s' => LoopPost tok s s') := by
  -- the loop ends
  have hgood : ∀ s2, FrS s1 s2 → LoopPost tok s s2 := by
    intro s2 f
    refine ⟨f.ctx.trans hd.ctx, fun h => ?_⟩
    rcases hd.lf with h1 | ⟨h1, _, h3, _⟩
    · rw [f.lf, h1, h0] at h; cases h
    · exact ⟨h1, h3.of_frS f⟩
  -- the loop goes on: the flag is still clear
  have hclear : (¬ Fin a ∨ isTagTok tok = false) → s1.ignoreLf = false := by
    intro h
    rcases hd.lf with h1 | ⟨h1, _, _, h4⟩
    · rw [h1, h0]
    · rcases h with h | h
      · exact absurd h4 h
      · rw [h] at h1; cases h1
  have hnext : ∀ s2, FrS s1 s2 → Okl (ptcNext fuel more) s2 (fun _ s' => LoopPost tok s s') := by
    intro s2 f
    unfold ptcNext
    cases hmore : more with
    | nil =>
      dsimp only
      exact okl_pure (hgood s2 f)
    | cons t rest =>
      dsimp only
      have hall : ∀ x ∈ t :: rest, isTagTok x = false := by rw [← hmore]; exact hmo.1
      have hnt : isTagTok tok = false := by
        cases htk : isTagTok tok with
        | false => rfl
        | true => have := hmo.2 htk; rw [hmore] at this; cases this
      have h2 : s2.ignoreLf = false := by rw [f.lf]; exact hclear (Or.inr hnt)
      refine okl_mono (ih t rest s2 h2
        ⟨fun x hx => hall x (List.mem_cons_of_mem _ hx), fun h => by rw [hall t List.mem_cons_self] at h; cases h⟩) ?_
      intro _ s' hl
      exact hl.step (f.ctx.trans hd.ctx) (fun h => by rw [hall t List.mem_cons_self] at h; cases h)
  unfold ptcCont
  dsimp only
  cases a with
  | done =>
    dsimp only
    have hack : ∀ (c : Bool), Okl (if c = true then do
          parseError "Unacknowledged self-closing tag"
          ptcNext fuel more
        else ptcNext fuel more) s1 (fun _ s' => LoopPost tok s s') := by
      intro c
      split
      · refine okl_sf_bind ?_
        intro _ s2 f2
        exact hnext s2 f2
      · exact hnext s1 (FrS.refl _)
    exact hack _
  | doneAckSelfClosing => exact hnext s1 (FrS.refl _)
  | reprocess m t =>
    dsimp only
    have : t = tok := hd.rep m t rfl
    subst this
    have h1 : s1.ignoreLf = false := hclear (Or.inl (fun h => by rcases h with h | ⟨_, h⟩ <;> cases h))
    unfold setMode
    refine okl_modS_bind ?_
    refine okl_mono (ih t more { s1 with mode := m } h1 hmo) ?_
    intro _ s' hl
    exact hl.step (s1 := { s1 with mode := m }) hd.ctx (fun h => h)
  | reprocessForeign t =>
    dsimp only
    have : t = tok := hd.repf t rfl
    subst this
    have h1 : s1.ignoreLf = false := hclear (Or.inl (fun h => by rcases h with h | ⟨_, h⟩ <;> cases h))
    refine okl_mono (ih t more s1 h1 hmo) ?_
    intro _ s' hl
    exact hl.step hd.ctx (fun h => h)
  | splitWhitespace buf =>
    dsimp only
    have h1 : s1.ignoreLf = false := hclear (Or.inl (fun h => by rcases h with h | ⟨_, h⟩ <;> cases h))
    cases hpf : popFrontCharRun buf with
    | none =>
      dsimp only
      exact okl_pure (hgood s1 (FrS.refl _))
    | some x =>
      obtain ⟨first, isWs, rest⟩ := x
      dsimp only
      refine okl_mono (ih _ _ s1 h1 ⟨?_, fun h => by cases h⟩) ?_
      · intro t ht
        split at ht
        · rcases List.mem_append.mp ht with h | h
          · exact hmo.1 t h
          · rw [List.mem_singleton.mp h]; rfl
        · exact hmo.1 t ht
      · intro _ s' hl
        exact hl.step hd.ctx (fun h => by cases h)
  | script node =>
    dsimp only
    split
    · exact okl_panicAt_bind
    · exact okl_pure (hgood s1 (FrS.refl _))
  | toPlaintext =>
    dsimp only
    split
    · exact okl_panicAt_bind
    · exact okl_pure (hgood s1 (FrS.refl _))
  | toRawData k =>
    dsimp only
    split
    · exact okl_panicAt_bind
    · exact okl_pure (hgood s1 (FrS.refl _))
  | encodingIndicator e =>
    exact okl_pure (hgood s1 (FrS.refl _))

theorem okl_ptc : ∀ (fuel : Nat) (tok : Token) (more : List Token) (s : State), s.ignoreLf = false →
    MoreOk tok more → Okl (processToCompletion fuel tok more) s (fun _ s' => LoopPost tok s s') := by
  intro fuel
  induction fuel with
  | zero =>
    intro tok more s _ _
    unfold processToCompletion
    exact okl_fuelOut
  | succ fuel ih =>
    intro tok more s h0 hmo
    rw [processToCompletion_succ]
    refine okl_fl_bind ?_
    intro b s1 hf1
    dsimp only
    split
    · exact okl_bind (okl_hl (tok := tok) _ s1) (fun a s2 hd => okl_ptcCont ih h0 (hd.of_fl_left hf1) hmo)
    · refine okl_getS_bind ?_
      exact okl_bind (okl_hl (tok := tok) _ s1) (fun a s2 hd => okl_ptcCont ih h0 (hd.of_fl_left hf1) hmo)

/-! ## `process_token` -/

/-- the stack of open elements and every answer of `elem_name` are the same -/
structure FrN (s s' : State) : Prop where
  lf : s'.ignoreLf = s.ignoreLf
  ctx : s'.contextElem = s.contextElem
  stack : s'.openElems = s.openElems
  names : ∀ h, s'.dom.elemName h = s.dom.elemName h

theorem FrN.refl (s : State) : FrN s s := ⟨rfl, rfl, rfl, fun _ => rfl⟩

theorem FrN.trans {a b c : State} (h1 : FrN a b) (h2 : FrN b c) : FrN a c :=
  ⟨h2.lf.trans h1.lf, h2.ctx.trans h1.ctx, h2.stack.trans h1.stack, fun h => (h2.names h).trans (h1.names h)⟩

theorem FrN.frL {s s' : State} (h : FrN s s') : frL s' = frL s := by
  unfold IgnLf.frL; rw [h.lf, h.ctx]

theorem TopHtml.of_frN {s s' : State} (h : TopHtml s) (f : FrN s s') : TopHtml s' := by
  obtain ⟨top, loc, h1, h2, h3⟩ := h
  exact ⟨top, loc, by rw [f.stack]; exact h1, by rw [f.names]; exact h2, by rw [f.stack]; exact h3⟩

theorem okl_sinkUnit_setLine (line : Nat) (s : State) :
    Okl (sinkUnit (.setCurrentLine line)) s (fun _ s' => FrN s s') := by
  intro _ s' e
  obtain ⟨out, e1⟩ := sinkUnit_ok.mp e
  obtain ⟨d, hd, rfl⟩ := sink_ok.mp e1
  rw [H5V.Lemmas.TBSafe.apply_setLine] at hd
  cases hd
  exact ⟨rfl, rfl, rfl, fun _ => rfl⟩

theorem okl_sinkUnit_parseError (msg : Str) (s : State) :
    Okl (sinkUnit (.parseError msg)) s (fun _ s' => FrN s s') := by
  intro _ s' e
  obtain ⟨out, e1⟩ := sinkUnit_ok.mp e
  obtain ⟨d, hd, rfl⟩ := sink_ok.mp e1
  rw [H5V.Lemmas.TBSafe.apply_parseError] at hd
  cases hd
  exact ⟨rfl, rfl, rfl, fun _ => rfl⟩

/-- what `process_token` guarantees -/
structure TokPost (t : TokToken) (s s' : State) : Prop where
  ctx : s'.contextElem = s.contextElem
  lf : s'.ignoreLf = true →
    ((∃ tg, t = .tag tg) ∧ TopHtml s') ∨ ((∃ e, t = .parseError e) ∧ s.ignoreLf = true ∧ FrN s s')

theorem okl_ptFinish (t : TokToken) {s : State} (tb : Option Token) (s3 : State)
    (hc : s3.contextElem = s.contextElem)
    (hlf : s3.ignoreLf = true → (∃ e, t = .parseError e) ∧ s.ignoreLf = true ∧ FrN s s3 ∧ tb = none)
    (htb : ∀ tk, tb = some tk → isTagTok tk = true → ∃ tg, t = .tag tg) :
    Okl (ptFinish tb) s3 (fun _ s' => TokPost t s s') := by
  unfold ptFinish
  cases tb with
  | none =>
    dsimp only
    refine okl_pure ⟨hc, fun h => Or.inr ?_⟩
    obtain ⟨h1, h2, h3, _⟩ := hlf h
    exact ⟨h1, h2, h3⟩
  | some tk =>
    dsimp only
    have h0 : s3.ignoreLf = false := by
      cases h : s3.ignoreLf with
      | false => rfl
      | true => obtain ⟨_, _, _, h4⟩ := hlf h; cases h4
    refine okl_getS_bind ?_
    refine okl_mono (okl_ptc _ tk [] s3 h0 ⟨fun _ h => (by cases h), fun _ => rfl⟩) ?_
    intro _ s' hl
    exact ⟨hl.ctx.trans hc, fun h => Or.inl ⟨htb tk rfl (hl.lf h).1, (hl.lf h).2⟩⟩

instance : Fl (ptFinish none) := by unfold ptFinish; ilf_fl

theorem okl_processToken (t : TokToken) (line : Nat) (s : State) :
    Okl (processToken t line) s (fun _ s' => TokPost t s s') := by
  unfold processToken
  refine okl_getS_bind ?_
  dsimp only
  refine okl_ite_jp (P := fun s1 => FrN s s1) (fun _ => okl_sinkUnit_setLine _ _) (fun _ => FrN.refl _) ?_
  intro s1 f1
  refine okl_getS_bind ?_
  refine okl_modS_bind ?_
  have hc2 : ({ s1 with ignoreLf := false } : State).contextElem = s.contextElem := f1.ctx
  have hfin : ∀ (tb : Option Token) (s3 : State), s3.contextElem = s.contextElem → s3.ignoreLf = false →
      (∀ tk, tb = some tk → isTagTok tk = true → ∃ tg, t = .tag tg) →
      Okl (ptFinish tb) s3 (fun _ s' => TokPost t s s') :=
    fun tb s3 h3 h4 h5 => okl_ptFinish t tb s3 h3 (fun h => by rw [h4] at h; cases h) h5
  cases t with
  | parseError e =>
    dsimp only
    refine okl_bind (okl_sinkUnit_parseError e _) ?_
    intro _ s3 f3
    refine okl_modS_bind ?_
    refine okl_pure_bind ?_
    have f3' : FrN s { s3 with ignoreLf := s1.ignoreLf } :=
      ⟨f1.lf, f3.ctx.trans f1.ctx, f3.stack.trans f1.stack, fun h => (f3.names h).trans (f1.names h)⟩
    exact okl_ptFinish _ none _ f3'.ctx (fun h => ⟨⟨e, rfl⟩, f3'.lf ▸ h, f3', rfl⟩) (fun _ h => by cases h)
  | doctype dt =>
    dsimp only
    refine okl_mono (okl_of_fl ?_ _) ?_
    · simp only [pure_bind]
      ilf_fl
    · intro _ s' hf
      have h := frL_eq hf
      exact ⟨h.2.trans hc2, fun h' => by rw [h.1] at h'; cases h'⟩
  | tag tg =>
    refine okl_pure_bind ?_
    exact hfin (some (.tag tg)) _ hc2 rfl (fun tk h _ => ⟨tg, rfl⟩)
  | comment c =>
    refine okl_pure_bind ?_
    exact hfin (some (.comment c)) _ hc2 rfl (fun tk h h' => by cases h; cases h')
  | nullChar =>
    refine okl_pure_bind ?_
    exact hfin (some .nullChar) _ hc2 rfl (fun tk h h' => by cases h; cases h')
  | eof =>
    refine okl_pure_bind ?_
    exact hfin (some .eof) _ hc2 rfl (fun tk h h' => by cases h; cases h')
  | chars x =>
    refine okl_pure_bind ?_
    refine hfin (charsToken s1.ignoreLf x) _ hc2 rfl (fun tk h h' => ?_)
    unfold charsToken at h
    split at h
    · cases h
    · cases h; cases h'

/-! ## `adjusted_current_node_present_but_not_in_html_namespace` as a function of the stack, the context
element and the answers of `elem_name` -/

/-- `adjusted_current_node` -/
def acnOf (l : List Id) (ctx : Option Id) : Option Id :=
  if l.length == 1 then (match ctx with | some c => some c | none => l.getLast?) else l.getLast?

/-- the answer of `adjusted_current_node_present_but_not_in_html_namespace` (`none`: the call panics) -/
def ansOf (l : List Id) (ctx : Option Id) (f : Id → Except String (Str × Str)) : Option Bool :=
  if l.isEmpty then some false
  else match acnOf l ctx with
    | none => none
    | some c => match f c with
      | .ok p => some (p.1 != nsHtml)
      | .error _ => none

theorem getS_bind_ok {β : Type} {f : State → M β} {s t : State} {b : β} :
    (getS >>= f) s = .ok (b, t) ↔ f s s = .ok (b, t) := by
  constructor
  · intro e
    obtain ⟨s0, s1, e1, e2⟩ := bind_ok.mp e
    obtain ⟨h1, h2⟩ := getS_ok.mp e1
    subst h1; subst h2
    exact e2
  · intro e
    exact bind_ok.mpr ⟨s, s, getS_ok.mpr ⟨rfl, rfl⟩, e⟩

theorem currentNode_ok {s t : State} {c : Id} :
    currentNode s = .ok (c, t) ↔ t = s ∧ s.openElems.getLast? = some c := by
  unfold currentNode
  rw [getS_bind_ok]
  cases s.openElems.getLast? with
  | none =>
    dsimp only
    constructor
    · intro e; exact absurd e throw_ok
    · rintro ⟨_, h⟩; cases h
  | some h =>
    dsimp only
    constructor
    · intro e
      obtain ⟨rfl, rfl⟩ := pure_ok.mp e
      exact ⟨rfl, rfl⟩
    · rintro ⟨rfl, h'⟩
      cases h'
      exact pure_ok.mpr ⟨rfl, rfl⟩

theorem adjustedCurrentNode_ok {s t : State} {c : Id} :
    adjustedCurrentNode s = .ok (c, t) ↔ t = s ∧ acnOf s.openElems s.contextElem = some c := by
  unfold adjustedCurrentNode acnOf
  rw [getS_bind_ok]
  by_cases h1 : (s.openElems.length == 1) = true
  · rw [if_pos h1, if_pos h1]
    cases s.contextElem with
    | none => dsimp only; exact currentNode_ok
    | some x =>
      dsimp only
      constructor
      · intro e
        obtain ⟨rfl, rfl⟩ := pure_ok.mp e
        exact ⟨rfl, rfl⟩
      · rintro ⟨rfl, h'⟩
        cases h'
        exact pure_ok.mpr ⟨rfl, rfl⟩
  · rw [if_neg h1, if_neg h1]
    exact currentNode_ok

theorem adjustedCurrentNodeForeign_ok {s : State} {b : Bool} :
    (∃ t, adjustedCurrentNodeForeign s = .ok (b, t)) ↔
      ansOf s.openElems s.contextElem s.dom.elemName = some b := by
  unfold adjustedCurrentNodeForeign ansOf
  simp only [getS_bind_ok]
  by_cases he : s.openElems.isEmpty = true
  · rw [if_pos he, if_pos he]
    constructor
    · rintro ⟨t, e⟩
      obtain ⟨rfl, _⟩ := pure_ok.mp e
      rfl
    · intro h
      cases h
      exact ⟨s, pure_ok.mpr ⟨rfl, rfl⟩⟩
  · rw [if_neg he, if_neg he]
    constructor
    · rintro ⟨t, e⟩
      obtain ⟨c, s2, e3, e4⟩ := bind_ok.mp e
      obtain ⟨rfl, hc⟩ := adjustedCurrentNode_ok.mp e3
      obtain ⟨n, s3, e5, e6⟩ := bind_ok.mp e4
      obtain ⟨rfl, _⟩ := pure_ok.mp e6
      obtain ⟨d, hd, _⟩ := sink_ok.mp (elemName_ok.mp e5)
      obtain ⟨ns, loc, hn, _, ho⟩ := apply_elemName_ok.mp hd
      cases ho
      simp only [hc, hn]
    · intro h
      cases hc : acnOf s.openElems s.contextElem with
      | none => simp only [hc] at h; cases h
      | some c =>
        simp only [hc] at h
        cases hn : s.dom.elemName c with
        | error x => simp only [hn] at h; cases h
        | ok p =>
          simp only [hn, Option.some.injEq] at h
          subst h
          obtain ⟨ns, loc⟩ := p
          refine ⟨{ s with dom := s.dom, traceRev := (SinkOp.elemName c, Output.name ns loc) :: s.traceRev }, ?_⟩
          refine bind_ok.mpr ⟨c, s, adjustedCurrentNode_ok.mpr ⟨rfl, hc⟩, ?_⟩
          refine bind_ok.mpr ⟨⟨ns, loc⟩, _, elemName_ok.mpr (sink_ok.mpr ⟨s.dom,
            apply_elemName_ok.mpr ⟨ns, loc, hn, rfl, rfl⟩, rfl⟩), ?_⟩
          exact pure_ok.mpr ⟨rfl, rfl⟩

theorem ansOf_topHtml {s : State} (h : TopHtml s) {b : Bool}
    (ha : ansOf s.openElems s.contextElem s.dom.elemName = some b) : b = false := by
  obtain ⟨top, loc, h1, h2, h3⟩ := h
  unfold ansOf acnOf at ha
  have he : ¬ (s.openElems.isEmpty = true) := by
    intro he
    rw [List.isEmpty_iff.mp he] at h3
    simp at h3
  have hl : ¬ ((s.openElems.length == 1) = true) := by
    intro hl
    have := eq_of_beq hl
    omega
  rw [if_neg he, if_neg hl] at ha
  simp only [h1, h2, Option.some.injEq] at ha
  rw [← ha]
  simp

end H5V.Lemmas.ParseSpec.IgnLf

namespace H5V.Lemmas.ParseSpec
open H5V.Model.HtmlTB
open H5V.Lemmas.ParseSpec.IgnLf

/-- when the "ignore the next LF" flag is set, the CDATA question is answered "no" (the adjusted current
node is the `pre` / `listing` / `textarea` element just inserted, an HTML element) -/
def IgnQ (s : State) : Prop :=
  s.ignoreLf = true → ∀ b s1, adjustedCurrentNodeForeign.run s = .ok (b, s1) → b = false

/-- `IgnQ` reads the state only through the flag, the stack, the context element and `elem_name` -/
theorem ignQ_iff (s : State) :
    IgnQ s ↔ (s.ignoreLf = true → ∀ b, IgnLf.ansOf s.openElems s.contextElem s.dom.elemName = some b → b = false) := by
  constructor
  · intro h hlf b hb
    obtain ⟨t, e⟩ := adjustedCurrentNodeForeign_ok.mpr hb
    exact h hlf b t e
  · intro h hlf b s1 e
    exact h hlf b (adjustedCurrentNodeForeign_ok.mp ⟨s1, e⟩)

/-- the syntactic invariant implies the semantic one -/
theorem ignQ_of_ignS {s : State} (h : IgnS s) : IgnQ s :=
  (ignQ_iff s).mpr (fun hlf _ hb => ansOf_topHtml (h hlf) hb)

theorem ignQ_of_frN {s s' : State} (f : FrN s s') (h : IgnQ s) : IgnQ s' := by
  rw [ignQ_iff] at h ⊢
  have hn : s'.dom.elemName = s.dom.elemName := funext f.names
  rw [f.lf, f.stack, f.ctx, hn]
  exact h

/-- the flag is clear in the initial state of a parse -/
theorem ignS_of_clear {s : State} (h : s.ignoreLf = false) : IgnS s := fun h' => by rw [h] at h'; cases h'

/-- after `process_token` the flag is set only (a) by a tag token — then the current node is an HTML
element on a stack of at least two entries — or (b) because a parse error has put the set flag back —
then the stack, the context element and all element names are as before -/
theorem processToken_ignoreLf_set (t : TokToken) (line : Nat) (s s' : State) (r : SinkResult)
    (h : (processToken t line).run s = .ok (r, s')) (hlf : s'.ignoreLf = true) :
    ((∃ tg, t = .tag tg) ∧ TopHtml s') ∨ ((∃ e, t = .parseError e) ∧ s.ignoreLf = true ∧ FrN s s') :=
  (okl_processToken t line s r s' h).lf hlf

/-- **(1, syntactic form)** the invariant "flag set ⇒ the current node is an HTML element on a stack of at
least two entries" is preserved by every token (document or fragment parse, no further hypothesis) -/
theorem processToken_ignS (t : TokToken) (line : Nat) (s s' : State) (r : SinkResult) (hs : IgnS s)
    (h : (processToken t line).run s = .ok (r, s')) : IgnS s' := by
  intro hlf
  rcases processToken_ignoreLf_set t line s s' r h hlf with ⟨_, htop⟩ | ⟨_, h1, f⟩
  · exact htop
  · exact (hs h1).of_frN f

/-- **(1)** the invariant `IgnQ` is preserved by every token (document or fragment parse; neither the C04
invariant nor `contextElem = none` is needed) -/
theorem processToken_ignQ (t : TokToken) (line : Nat) (s s' : State) (r : SinkResult) (hq : IgnQ s)
    (h : (processToken t line).run s = .ok (r, s')) : IgnQ s' := by
  intro hlf
  rcases processToken_ignoreLf_set t line s s' r h hlf with ⟨_, htop⟩ | ⟨_, _, f⟩
  · exact ignQ_of_ignS (fun _ => htop) hlf
  · exact ignQ_of_frN f hq hlf

/-- **(2)** only a tag token can *set* the flag: any other token leaves a clear flag clear -/
theorem processToken_ignoreLf_nontag (t : TokToken) (line : Nat) (s s' : State) (r : SinkResult)
    (h : (processToken t line).run s = .ok (r, s')) (hlf : s.ignoreLf = false) (ht : ∀ tg, t ≠ .tag tg) :
    s'.ignoreLf = false := by
  cases h' : s'.ignoreLf with
  | false => rfl
  | true =>
    rcases processToken_ignoreLf_set t line s s' r h h' with ⟨⟨tg, rfl⟩, _⟩ | ⟨_, h1, _⟩
    · exact absurd rfl (ht tg)
    · rw [hlf] at h1; cases h1

/-- **(2)** character tokens, U+0000 tokens, parse errors, EOF and comments leave a clear flag clear -/
theorem processToken_ignoreLf_clear (t : TokToken) (line : Nat) (s s' : State) (r : SinkResult)
    (h : (processToken t line).run s = .ok (r, s')) (hlf : s.ignoreLf = false)
    (ht : (∃ x, t = .chars x) ∨ t = .nullChar ∨ (∃ e, t = .parseError e) ∨ t = .eof ∨ (∃ c, t = .comment c)) :
    s'.ignoreLf = false := by
  refine processToken_ignoreLf_nontag t line s s' r h hlf (fun tg e => ?_)
  subst e
  rcases ht with ⟨_, h⟩ | h | ⟨_, h⟩ | h | ⟨_, h⟩ <;> cases h

/-- every token but a parse error and a tag leaves the flag clear, whatever it was before -/
theorem processToken_ignoreLf_reset (t : TokToken) (line : Nat) (s s' : State) (r : SinkResult)
    (h : (processToken t line).run s = .ok (r, s')) (ht : ∀ tg, t ≠ .tag tg) (hp : ∀ e, t ≠ .parseError e) :
    s'.ignoreLf = false := by
  cases h' : s'.ignoreLf with
  | false => rfl
  | true =>
    rcases processToken_ignoreLf_set t line s s' r h h' with ⟨⟨tg, rfl⟩, _⟩ | ⟨⟨e, rfl⟩, _⟩
    · exact absurd rfl (ht tg)
    · exact absurd rfl (hp e)

/-- **(3)** `contextElem` never changes -/
theorem processToken_contextElem (t : TokToken) (line : Nat) (s s' : State) (r : SinkResult)
    (h : (processToken t line).run s = .ok (r, s')) : s'.contextElem = s.contextElem :=
  (okl_processToken t line s r s' h).ctx

end H5V.Lemmas.ParseSpec
