import H5V.Lemmas.HtmlTBSafeRun
import H5V.Lemmas.HtmlTBContractRes
/-!
# The fuel of `process_to_completion`, part 1: the measure

`process_to_completion` loops as long as a rule answers `Reprocess` (or splits a run of characters).  The
model gives it `ptcFuel s tok = 16·(|tok| + 1) + 4·(|open_elems| + |template_modes|) + 64` iterations.
That this suffices is shown with a measure `ms s m tok` that strictly decreases along every `Reprocess`
edge of the 21 rules:

* for a character token `2·rank m chars + [tok is not split yet]` (no stack term is needed);
* otherwise `4·(number of HTML table elements on the stack) + 4·max |template_modes| [m = InTemplate]
  + rank m (class of tok)`.  The two edges that may jump to an arbitrary mode (`Reprocess(reset_insertion_mode(),
  token)` after `<table>` inside a table and at EOF inside a template) pop a table element resp. a template
  mode, which pays 4; `rank` of the modes `reset_insertion_mode` can answer is at most 3 for these two
  token classes.
-/
namespace H5V.Lemmas.TBFuel
open H5V.Model.HtmlTB
open H5V.Model.HtmlTok (TagKind)
open H5V.Model.Dom (Id QualName Attr NodeOrText SinkOp Output ElementFlags QuirksMode Dom NodeData Node)
open H5V.Lemmas.TBSafe
open H5V.Lemmas.TBC (ok_bind ok_pure ok_getS_bind ok_modS_bind ok_ite ok_bind_pure)

/-! ### token classes -/

inductive Cls
  | chars | null | comment | eof
  | sTdTh | sTr | sCol | sCapGrp | sTable | sOther
  | eHtml | eTable | eTbodyGrp | eTr | eOther
deriving DecidableEq, Repr

def clsTag (k : TagKind) (n : Str) : Cls :=
  match k with
  | .startTag =>
    if isOneOf n ["td", "th"] then .sTdTh
    else if isName n "tr" then .sTr
    else if isName n "col" then .sCol
    else if isOneOf n ["caption", "colgroup", "tbody", "tfoot", "thead"] then .sCapGrp
    else if isName n "table" then .sTable
    else .sOther
  | .endTag =>
    if isName n "html" then .eHtml
    else if isName n "table" then .eTable
    else if isOneOf n ["tbody", "tfoot", "thead"] then .eTbodyGrp
    else if isName n "tr" then .eTr
    else .eOther

def cls : Token → Cls
  | .chars _ _ => .chars
  | .nullChar => .null
  | .comment _ => .comment
  | .eof => .eof
  | .tag t => clsTag t.kind t.name

/-- the chain Initial → BeforeHtml → BeforeHead → InHead → AfterHead → InBody (← AfterBody, AfterAfterBody) -/
def chain : Mode → Nat
  | .initial => 5 | .beforeHtml => 4 | .beforeHead => 3 | .inHeadNoscript => 3 | .inHead => 2
  | .afterHead => 1 | .afterBody => 1 | .afterAfterBody => 1 | _ => 0

/-- the rank of a mode for a token class; it decreases along every `Reprocess` edge that is not paid for by
the stack -/
def rank (m : Mode) (c : Cls) : Nat :=
  match c, m with
  -- characters, U+0000: InTable (also reached from InTableBody, InRow) → InTableText
  | .chars, .inTable => 1 | .chars, .inTableBody => 1 | .chars, .inRow => 1 | .chars, .inColumnGroup => 2
  | .null, .inTable => 1 | .null, .inTableBody => 1 | .null, .inRow => 1 | .null, .inColumnGroup => 2
  | .comment, .inTableText => 1
  | .eof, .text => 9 | .eof, .inTableText => 1
  | .sTdTh, .inTable => 2 | .sTdTh, .inTableBody => 1 | .sTdTh, .inCell => 1 | .sTdTh, .inCaption => 3
  | .sTdTh, .inColumnGroup => 3 | .sTdTh, .inTableText => 3 | .sTdTh, .inTemplate => 1
  | .sTr, .inTable => 1 | .sTr, .inRow => 1 | .sTr, .inCell => 2 | .sTr, .inCaption => 2
  | .sTr, .inColumnGroup => 2 | .sTr, .inTableText => 2 | .sTr, .inTemplate => 1
  | .sCol, .inTable => 1 | .sCol, .inTableBody => 2 | .sCol, .inRow => 3 | .sCol, .inCell => 4
  | .sCol, .inCaption => 2 | .sCol, .inTableText => 4 | .sCol, .inTemplate => 1
  | .sCapGrp, .inTableBody => 1 | .sCapGrp, .inRow => 2 | .sCapGrp, .inCell => 3 | .sCapGrp, .inCaption => 1
  | .sCapGrp, .inColumnGroup => 1 | .sCapGrp, .inTableText => 3 | .sCapGrp, .inTemplate => 1
  | .sTable, .inColumnGroup => 1 | .sTable, .inTableText => 1 | .sTable, .inTemplate => 1
  | .sOther, .inColumnGroup => 1 | .sOther, .inTableText => 1 | .sOther, .inTemplate => 1
  | .eHtml, .initial => 6 | .eHtml, .beforeHtml => 5 | .eHtml, .beforeHead => 4 | .eHtml, .inHeadNoscript => 4
  | .eHtml, .inHead => 3 | .eHtml, .afterHead => 2 | .eHtml, .inBody => 1 | .eHtml, .afterBody => 0
  | .eHtml, .afterAfterBody => 2 | .eHtml, .inColumnGroup => 1 | .eHtml, .inTableText => 1
  | .eTable, .inTableBody => 1 | .eTable, .inRow => 2 | .eTable, .inCell => 3 | .eTable, .inCaption => 1
  | .eTable, .inColumnGroup => 1 | .eTable, .inTableText => 3
  | .eTbodyGrp, .inRow => 1 | .eTbodyGrp, .inCell => 2 | .eTbodyGrp, .inColumnGroup => 1
  | .eTbodyGrp, .inTableText => 2
  | .eTr, .inCell => 1 | .eTr, .inColumnGroup => 1 | .eTr, .inTableText => 1
  | .eOther, .inColumnGroup => 1 | .eOther, .inTableText => 1
  | _, m => chain m

theorem rank_le (m : Mode) (c : Cls) : rank m c ≤ 9 := by
  cases m <;> cases c <;> decide

theorem rank_chars_le (m : Mode) : rank m .chars ≤ 6 := by
  cases m <;> decide

/-! ### the stack term -/

def tableName : EName := ⟨nsHtml, "table".toList⟩

/-- the number of HTML `table` elements on the stack of open elements -/
def tabCount (d : Dom) (l : List Id) : Nat := l.countP (fun h => nm d h == tableName)

theorem tabCount_le (d : Dom) (l : List Id) : tabCount d l ≤ l.length := List.countP_le_length

theorem tabCount_ext {d d' : Dom} {l : List Id} (he : Ext d d') (hel : AllEl d l) :
    tabCount d' l = tabCount d l := by
  unfold tabCount
  apply List.countP_congr
  intro x hx
  rw [hel.nm_eq he hx]

theorem tabCount_sublist {d : Dom} {l l' : List Id} (h : l'.Sublist l) : tabCount d l' ≤ tabCount d l :=
  h.countP_le

theorem tabCount_append (d : Dom) (l1 l2 : List Id) : tabCount d (l1 ++ l2) = tabCount d l1 + tabCount d l2 :=
  List.countP_append

/-- the template-mode term: a missing entry in InTemplate mode counts as one (`setTemplateMode` would
create it) -/
def tmW (s : State) (m : Mode) : Nat := max s.templateModes.length (if m = .inTemplate then 1 else 0)

/-- the stack part of the measure -/
def wW (s : State) (m : Mode) : Nat := 4 * tabCount s.dom s.openElems + 4 * tmW s m

def splitBit : Token → Nat
  | .chars .notSplit _ => 1
  | _ => 0

/-- **the measure** -/
def ms (s : State) (m : Mode) (tok : Token) : Nat :=
  if isCharsTok tok = true then 2 * rank m .chars + splitBit tok
  else wW s m + rank m (cls tok)

theorem splitBit_le (tok : Token) : splitBit tok ≤ 1 := by
  cases tok with
  | chars st x => cases st <;> first | exact Nat.le_refl 1 | exact Nat.zero_le 1
  | _ => exact Nat.zero_le _

theorem ms_chars_le (s : State) (m : Mode) (st : SplitStatus) (x : Str) : ms s m (.chars st x) ≤ 13 := by
  show (if isCharsTok (.chars st x) = true then _ else _) ≤ 13
  rw [if_pos (show isCharsTok (.chars st x) = true from rfl)]
  have := rank_chars_le m
  have h2 := splitBit_le (.chars st x)
  omega

theorem tmW_le (s : State) (m : Mode) : tmW s m ≤ s.templateModes.length + 1 := by
  unfold tmW
  by_cases h : m = .inTemplate
  · rw [if_pos h]; omega
  · rw [if_neg h]; omega

theorem ms_le (s : State) (m : Mode) (tok : Token) :
    ms s m tok ≤ 4 * (s.openElems.length + s.templateModes.length) + 13 := by
  unfold ms
  by_cases hc : isCharsTok tok = true
  · rw [if_pos hc]
    have := rank_chars_le m
    have h2 := splitBit_le tok
    omega
  · rw [if_neg hc]
    unfold wW
    have h1 := tabCount_le s.dom s.openElems
    have h2 := tmW_le s m
    have h3 := rank_le m (cls tok)
    omega

/-- what a rule may answer, with `m` the mode that bounds it -/
def Dec (s : State) (m : Mode) (tok : Token) (r : ProcessResult) (s' : State) : Prop :=
  match r with
  | .reprocess m' _ => ms s' m' tok < ms s m tok
  | .splitWhitespace buf => tok = .chars .notSplit buf ∧ s'.mode = m
  | _ => True

/-- the stack part does not grow -/
structure WLe (s s' : State) : Prop where
  tab : tabCount s'.dom s'.openElems ≤ tabCount s.dom s.openElems
  tm : s'.templateModes.length ≤ s.templateModes.length

theorem WLe.refl (s : State) : WLe s s := ⟨Nat.le_refl _, Nat.le_refl _⟩

theorem WLe.trans {a b c : State} (h1 : WLe a b) (h2 : WLe b c) : WLe a c :=
  ⟨Nat.le_trans h2.tab h1.tab, Nat.le_trans h2.tm h1.tm⟩

theorem wW_le {s s' : State} {m m' : Mode} (h : WLe s s') (hm : m' ≠ .inTemplate ∨ s'.templateModes ≠ []) :
    wW s' m' ≤ wW s m := by
  unfold wW tmW
  have h1 := h.tab
  have h2 := h.tm
  have h3 : max s'.templateModes.length (if m' = .inTemplate then 1 else 0) ≤
      max s.templateModes.length (if m = .inTemplate then 1 else 0) := by
    rcases hm with hm | hm
    · rw [if_neg hm]; omega
    · have : 1 ≤ s'.templateModes.length := by
        cases hl : s'.templateModes with
        | nil => exact absurd hl hm
        | cons a t => simp
      by_cases hmm : m' = .inTemplate
      · rw [if_pos hmm]; omega
      · rw [if_neg hmm]; omega
  omega

/-- a `Reprocess` edge whose rank decreases and whose stack part does not grow -/
theorem dec_of_rank {s s' : State} {m m' : Mode} {tok t : Token} (hw : WLe s s')
    (hm : m' ≠ .inTemplate ∨ s'.templateModes ≠ []) (hr : rank m' (cls tok) < rank m (cls tok)) :
    Dec s m tok (.reprocess m' t) s' := by
  show ms s' m' tok < ms s m tok
  unfold ms
  by_cases hc : isCharsTok tok = true
  · rw [if_pos hc, if_pos hc]
    have : cls tok = .chars := by
      cases tok <;> first | rfl | (simp [isCharsTok] at hc)
    rw [this] at hr
    omega
  · rw [if_neg hc, if_neg hc]
    have := wW_le (m := m) hw hm
    omega

/-- a `Reprocess` edge out of a mode of rank at least 8 into a mode of rank at most 3, the stack part
growing by at most 4 (Text → the original mode, which may be InTemplate) -/
theorem dec_of_slack {s s' : State} {m m' : Mode} {tok t : Token} (hc : isCharsTok tok = false)
    (hw : wW s' m' ≤ wW s m + 4) (hr : rank m' (cls tok) ≤ 3) (hr2 : 8 ≤ rank m (cls tok)) :
    Dec s m tok (.reprocess m' t) s' := by
  show ms s' m' tok < ms s m tok
  unfold ms
  rw [hc]
  simp only [Bool.false_eq_true, if_false]
  omega

/-- a `Reprocess` edge that pays 4 with the stack part and lands in a mode of rank at most 3 -/
theorem dec_of_pay {s s' : State} {m m' : Mode} {tok t : Token} (hc : isCharsTok tok = false)
    (hw : wW s' m' + 4 ≤ wW s m) (hr : rank m' (cls tok) ≤ 3) : Dec s m tok (.reprocess m' t) s' := by
  show ms s' m' tok < ms s m tok
  unfold ms
  rw [hc]
  simp only [Bool.false_eq_true, if_false]
  omega

/-- the stack part with the same bounding mode -/
theorem wW_mono {s s' : State} (h : WLe s s') (m : Mode) : wW s' m ≤ wW s m := by
  unfold wW tmW
  have h1 := h.tab
  have h2 := h.tm
  have h3 : max s'.templateModes.length (if m = .inTemplate then 1 else 0) ≤
      max s.templateModes.length (if m = .inTemplate then 1 else 0) := by omega
  omega

theorem ms_mono {s s' : State} (h : WLe s s') (m : Mode) (tok : Token) : ms s' m tok ≤ ms s m tok := by
  unfold ms
  by_cases hc : isCharsTok tok = true
  · rw [if_pos hc, if_pos hc]; exact Nat.le_refl _
  · rw [if_neg hc, if_neg hc]
    have := wW_mono h m
    omega

/-- `Dec` from a later state of smaller weight -/
theorem Dec.mono {s s1 s' : State} {m : Mode} {tok : Token} {r : ProcessResult} (h : Dec s1 m tok r s')
    (hw : WLe s s1) : Dec s m tok r s' := by
  cases r with
  | reprocess m' t =>
    have := ms_mono hw m tok
    exact Nat.lt_of_lt_of_le h this
  | splitWhitespace buf => exact h
  | _ => trivial

/-- the stack part after sink queries only -/
theorem WLe.of_qf {s s' : State} (hel : AllEl s.dom s.openElems) (h : QF s s') : WLe s s' :=
  ⟨by rw [h.openElems, tabCount_ext h.ext hel]; exact Nat.le_refl _, by rw [h.templateModes]; exact Nat.le_refl _⟩

/-- … after a change of the stack to a sublist -/
theorem WLe.of_st_sublist {s s' : State} {l : List Id} (hel : AllEl s.dom s.openElems) (h : St s s' l)
    (hs : l.Sublist s.openElems) : WLe s s' := by
  refine ⟨?_, by rw [h.fr.templateModes]; exact Nat.le_refl _⟩
  rw [h.openElems, tabCount_ext h.fr.ext (fun x hx => hel x (hs.subset hx))]
  exact tabCount_sublist hs

theorem sat_ok {al : Allow} {α : Type} {m : M α} {s s' : State} {a : α} {Q : α → State → Prop} (h : Sat m s Q)
    (hr : m s = .ok (a, s')) : Q a s' := by
  unfold Sat at h
  rw [hr] at h
  exact h

end H5V.Lemmas.TBFuel
