import H5V.Lemmas.HtmlTBMetaRules
/-!
C19, part 3: `process_to_completion` and `process_token` answer `EncodingIndicator(l)` only when the
token handed in is a `meta` start tag announcing `l`.
-/
namespace H5V.Props.C19
open H5V.Model.Dom (Id QualName Attr NodeOrText SinkOp Output ElementFlags QuirksMode Dom)
open H5V.Model.HtmlTB
open H5V.Lemmas.TBM

/-- the tokens `process_to_completion` works on while it processes `tok0`: `tok0` itself
(re-processed in other modes) and the pieces of a split character token -/
def Carried (tok0 t : Token) : Prop := t = tok0 ∨ ∃ st s, t = .chars st s

theorem Fires.carried {tok0 t : Token} {l : Str} (h : Fires t l) (hc : Carried tok0 t) : Fires tok0 l := by
  rcases hc with rfl | ⟨st, s, rfl⟩
  · exact h
  · obtain ⟨tag, e, _⟩ := h; cases e

/-- an acceptable answer of `process_token` for `tok0` -/
def SOk (tok0 : Token) (r : SinkResult) : Prop := ∀ l, r = .encodingIndicator l → Fires tok0 l

theorem ans_step_bind {β : Type} {Q : β → Prop} {mode : Mode} {tok : Token} {f : ProcessResult → M β}
    (h : ∀ r, ROk tok r → Ans Q (f r)) : Ans Q (step mode tok >>= f) := Ans.bindK inferInstance h

theorem ans_stepForeign_bind {β : Type} {Q : β → Prop} {tok : Token} {f : ProcessResult → M β}
    (h : ∀ r, ROk tok r → Ans Q (f r)) : Ans Q (stepForeign tok >>= f) := Ans.bindK inferInstance h

macro_rules
  | `(tactic| ans_step) => `(tactic|
      first | with_reducible apply ans_step_bind | with_reducible apply ans_stepForeign_bind)

theorem SOk.of_ne {tok0 : Token} {r : SinkResult} (h : ∀ l, r ≠ .encodingIndicator l) : SOk tok0 r :=
  fun l e => absurd e (h l)

theorem carried_snoc {tok0 : Token} {more : List Token} {rest : Str} (hm : ∀ t ∈ more, Carried tok0 t) :
    ∀ t ∈ more ++ [Token.chars .notSplit rest], Carried tok0 t := by
  intro x hx
  simp only [List.mem_append, List.mem_singleton] at hx
  rcases hx with hx | rfl
  · exact hm x hx
  · exact Or.inr ⟨_, _, rfl⟩

theorem carried_eq {tok0 token t : Token} (hc : Carried tok0 token) (h : t = token) : Carried tok0 t := h ▸ hc

theorem ans_ptc (tok0 : Token) (fuel : Nat) : ∀ (token : Token) (more : List Token), Carried tok0 token →
    (∀ t ∈ more, Carried tok0 t) → Ans (SOk tok0) (processToCompletion fuel token more) := by
  induction fuel with
  | zero => intro token more _ _; unfold processToCompletion; exact Ans.fuelOut _
  | succ fuel ih =>
    intro token more hc hm
    unfold processToCompletion
    dsimp only
    ans_walk
    all_goals first
      | exact Ans.pure (SOk.of_ne (fun l h => SinkResult.noConfusion h))
      | exact Ans.pure (fun l h => SinkResult.noConfusion h (fun e => e ▸ Fires.carried (by assumption) hc))
      | exact ih _ _ (hm _ List.mem_cons_self) (fun x hx => hm x (List.mem_cons_of_mem _ hx))
      | exact ih _ _ (carried_eq hc (by assumption)) hm
      | exact ih _ _ (Or.inr ⟨_, _, rfl⟩) hm
      | exact ih _ _ (Or.inr ⟨_, _, rfl⟩) (carried_snoc hm)

theorem ans_ptc_top (t : Token) (fuel : Nat) :
    Ans (fun r => ∀ l, r = .encodingIndicator l → Fires t l) (processToCompletion fuel t []) :=
  ans_ptc t fuel t [] (Or.inl rfl) (fun _ h => nomatch h)

theorem charsToken_not_tag {b : Bool} {x : Str} {t : Token} (h : charsToken b x = some t) (tag : Tag) :
    t ≠ .tag tag := by
  unfold charsToken at h
  split at h
  · cases h
  · cases h; intro e; cases e

/-- **`process_token`**: an encoding indicator is answered only for a `meta` start tag that announces
that label -/
theorem ans_processToken (tok : TokToken) (line : Nat) :
    Ans (fun r => ∀ l, r = .encodingIndicator l → ∃ tag, tok = .tag tag ∧ isMetaStart tag ∧ qualifies tag = some l)
      (processToken tok line) := by
  unfold processToken
  ans_walk
  all_goals first
    | exact Ans.pure (fun l h => SinkResult.noConfusion h)
    | (refine (ans_ptc_top _ _).mono (fun r h l e => ?_)
       obtain ⟨tag, e', hm, hq⟩ := h l e
       first
         | (cases e'; exact ⟨_, rfl, hm, hq⟩)
         | (have hn := charsToken_not_tag ‹charsToken _ _ = some _› tag; exact absurd e' hn)
         | (cases e'; done))

end H5V.Props.C19
