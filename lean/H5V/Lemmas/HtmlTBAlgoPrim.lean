import H5V.Lemmas.HtmlTBAlgoBase
/-!
The abstraction of a model state to the abstract parser state of `H5V.Spec.TreeAlgo2`, the
translation of the spec's log of DOM operations to `TreeSink` calls, and the triples of the
primitive model operations.
-/
namespace H5V.Lemmas.HtmlTBAlgo
open H5V.Model.HtmlTB
open H5V.Model.Dom (Id SinkOp Output Dom QualName Attr NodeOrText ElementFlags NodeData)
open H5V.Lemmas.Dom
open H5V.Lemmas.HtmlTBSpec (NamesOk toName)
open H5V.Spec.TreeAlgo2

/-! ### edits and queries -/

/-- the sink calls that change the sink's state in a way the standard prescribes (everything except
the pure queries, parse errors and the bookkeeping notifications `pop`, `set_current_line`) -/
def isEdit : SinkOp → Bool
  | .parseError _ => false
  | .getDocument => false
  | .elemName _ => false
  | .pop _ => false
  | .getTemplateContents _ => false
  | .sameNode _ _ => false
  | .isMathmlAnnotationXmlIntegrationPoint _ => false
  | .setCurrentLine _ => false
  | .allowDeclarativeShadowRoots _ => false
  | _ => true

def edits (calls : List Call) : List Call := calls.filter fun c => isEdit c.1

theorem edits_append (a b : List Call) : edits (a ++ b) = edits a ++ edits b := by simp [edits]
@[simp] theorem edits_nil : edits [] = [] := rfl

/-- the tree builder's own fields are unchanged -/
def SameTB (s s' : State) : Prop := s' = { s with dom := s'.dom, traceRev := s'.traceRev }

theorem SameTB.refl (s : State) : SameTB s s := rfl
theorem SameTB.trans {a b c : State} (h1 : SameTB a b) (h2 : SameTB b c) : SameTB a c := by
  unfold SameTB at *; rw [h2, h1]
theorem SameTB.afterCall (s : State) (d : Dom) (op : SinkOp) (out : Output) : SameTB s (afterCall s d op out) := rfl

/-- postcondition of a query: the answer is `v`, only the sink was consulted, no edit was made -/
def QueryQ {α : Type} (s : State) (v : α) : α → State → List Call → Prop :=
  fun a s' calls => a = v ∧ SameTB s s' ∧ edits calls = []

theorem tot_query_bind {α β : Type} {m : M α} {f : α → M β} {s : State} {v : α}
    {Q : β → State → List Call → Prop} (hm : Tot m s (QueryQ s v))
    (hf : ∀ s1 c1, Ext s c1 s1 → SameTB s s1 → edits c1 = [] → Tot (f v) s1 (fun b s2 c2 => Q b s2 (c1 ++ c2))) :
    Tot (m >>= f) s Q :=
  tot_bind (tot_conseq hm fun _ s1 c1 he ⟨ha, hs, hc⟩ => ha ▸ hf s1 c1 he hs hc)

/-! ### names -/

/-- the element type the sink reports for `h` (a dummy for non-elements) -/
def nameOf (d : Dom) (h : Id) : EName :=
  match d.elemName h with
  | .ok (ns, loc) => ⟨ns, loc⟩
  | .error _ => ⟨[], []⟩

def elemOf (d : Dom) (h : Id) : Elem Id := ⟨h, toName (nameOf d h)⟩

def absStack (d : Dom) (l : List Id) : List (Elem Id) := l.map (elemOf d)

def absEntry : FormatEntry → Entry Id Tag
  | .marker => .marker
  | .element h t => .element h t

def absList (af : List FormatEntry) : List (Entry Id Tag) := af.map absEntry

/-- the tokens are the model's `Tag`s -/
def tagCtx : Ctx Tag :=
  { tokName := fun t => t.name
    tokHasFormAttr := fun t => t.attrs.any fun a => a.name.ns == [] && isName a.name.loc "form" }

def absState (s : State) (supply : List Id) (log : List (Edit Id Tag)) : PState Id Tag :=
  { stack := absStack s.dom s.openElems, list := absList s.activeFormatting,
    fosterParenting := s.fosterParenting, formPointer := s.formElem, supply := supply, log := log }

theorem isElement_of_elemName {d : Dom} {h : Id} {n : Str × Str} (he : d.elemName h = .ok n) :
    d.isElement h = true := by
  unfold Dom.elemName at he
  simp only [bind, Except.bind] at he
  cases hg : d.get h with
  | error e => simp [hg] at he
  | ok nd =>
    simp only [hg] at he
    unfold Dom.isElement; rw [dataOf_of_node (get_ok.mp hg)]
    cases hd : nd.data <;> simp [hd] at he ⊢

theorem elemName_of_isElement {d : Dom} {h : Id} (he : d.isElement h = true) : ∃ n, d.elemName h = .ok n := by
  obtain ⟨nd, hn⟩ := node?_of_lt (isElement_lt he)
  unfold Dom.isElement at he; rw [dataOf_of_node hn] at he
  unfold Dom.elemName
  simp only [bind, Except.bind, get_ok_of hn]
  cases hd : nd.data <;> simp [hd] at he ⊢

theorem nameOf_stable {d d' : Dom} (hs : Stable d d') {h : Id} (he : d.isElement h = true) :
    nameOf d' h = nameOf d h := by
  obtain ⟨n, hn⟩ := elemName_of_isElement he
  unfold nameOf; rw [hn, hs.elemName hn]

theorem isElement_stable {d d' : Dom} (hs : Stable d d') {h : Id} (he : d.isElement h = true) :
    d'.isElement h = true := by rw [isElement_of_data (hs.data h he)]; exact he

/-- all handles of the list are elements of the sink -/
def ElemsOk (d : Dom) (l : List Id) : Prop := ∀ h ∈ l, d.isElement h = true

theorem ElemsOk.stable {d d' : Dom} {l : List Id} (h : ElemsOk d l) (hs : Stable d d') : ElemsOk d' l :=
  fun x hx => isElement_stable hs (h x hx)

theorem absStack_stable {d d' : Dom} {l : List Id} (h : ElemsOk d l) (hs : Stable d d') :
    absStack d' l = absStack d l := by
  unfold absStack
  apply List.map_congr_left
  intro x hx
  unfold elemOf; rw [nameOf_stable hs (h x hx)]

theorem ElemsOk.of_namesOk {s : State} {l : List Id} {nm : Id → EName} (h : NamesOk s l nm) : ElemsOk s.dom l :=
  fun x hx => isElement_of_elemName (h x hx)

theorem absStack_of_namesOk {s : State} {l : List Id} {nm : Id → EName} (h : NamesOk s l nm) :
    absStack s.dom l = l.map fun x => ⟨x, toName (nm x)⟩ := by
  unfold absStack
  apply List.map_congr_left
  intro x hx
  unfold elemOf nameOf; rw [h x hx]

/-! ### primitive triples -/

theorem apply_elemName {d d' : Dom} {h : Id} {out : Output} (ha : d.apply (.elemName h) = .ok (d', out)) :
    d' = d ∧ out = .name (nameOf d h).ns (nameOf d h).loc ∧ d.isElement h = true := by
  unfold Dom.apply Dom.applyV at ha
  simp only [bind, Except.bind] at ha
  cases he : d.elemName h with
  | error e => simp [he] at ha
  | ok v =>
    obtain ⟨ns, loc⟩ := v
    simp [he] at ha
    refine ⟨ha.1.symm, ?_, isElement_of_elemName he⟩
    unfold nameOf; rw [he]; exact ha.2.symm

theorem tot_elemName (s : State) (h : Id) :
    Tot (elemName h) s (fun n s' calls => (n = nameOf s.dom h ∧ s.dom.isElement h = true) ∧ SameTB s s' ∧ edits calls = []) := by
  unfold elemName
  refine tot_bind (tot_sink trivial ?_)
  intro d' out ha
  obtain ⟨hd, ho, he⟩ := apply_elemName ha
  subst ho
  exact tot_pure ⟨⟨rfl, he⟩, SameTB.afterCall .., rfl⟩

theorem tot_elemName' (s : State) (h : Id) : Tot (elemName h) s (QueryQ s (nameOf s.dom h)) :=
  tot_conseq (tot_elemName s h) fun _ _ _ _ ⟨⟨h1, _⟩, h2, h3⟩ => ⟨h1, h2, h3⟩

theorem tot_sameNode (s : State) (x y : Id) : Tot (sameNode x y) s (QueryQ s (x == y)) := by
  unfold sameNode sinkBool
  refine tot_bind (tot_sink trivial ?_)
  intro d' out ha
  have : d' = s.dom ∧ out = .bool (x == y) := by
    unfold Dom.apply Dom.applyV at ha; simp [Dom.sameNode] at ha; exact ⟨ha.1.symm, ha.2.symm⟩
  obtain ⟨_, ho⟩ := this
  subst ho
  exact tot_pure ⟨rfl, SameTB.afterCall .., rfl⟩

theorem tot_parseError (s : State) (msg : String) : Tot (parseError msg) s (QueryQ s ()) := by
  unfold parseError sinkUnit
  refine tot_bind (tot_sink trivial ?_)
  intro d' out _
  exact tot_pure ⟨rfl, SameTB.afterCall .., rfl⟩

theorem tot_htmlElemNamedS (s : State) (h : Id) (name : Str) :
    Tot (htmlElemNamedS h name) s (QueryQ s ((nameOf s.dom h).ns == nsHtml && (nameOf s.dom h).loc == name)) := by
  unfold htmlElemNamedS
  refine tot_query_bind (tot_elemName' s h) fun s1 c1 _ hs hc => ?_
  exact tot_pure ⟨rfl, hs, by simp [hc]⟩

theorem tot_htmlElemNamed (s : State) (h : Id) (name : String) :
    Tot (htmlElemNamed h name) s (QueryQ s ((elemOf s.dom h).name.isHtml name)) :=
  tot_htmlElemNamedS s h name.toList

theorem tot_elemIn (s : State) (h : Id) (set : EName → Bool) :
    Tot (elemIn h set) s (QueryQ s (set (nameOf s.dom h))) := by
  unfold elemIn
  refine tot_query_bind (tot_elemName' s h) fun s1 c1 _ hs hc => ?_
  exact tot_pure ⟨rfl, hs, by simp [hc]⟩

/-- the template contents the sink reports (a dummy when there are none) -/
def tcOf (d : Dom) (x : Id) : Id := (d.templateContentsOf x).getD 0

theorem apply_getTemplateContents {d d' : Dom} {x : Id} {out : Output}
    (ha : d.apply (.getTemplateContents x) = .ok (d', out)) : d' = d ∧ out = .node (tcOf d x) := by
  unfold Dom.apply Dom.applyV at ha
  simp only [bind, Except.bind] at ha
  cases he : d.getTemplateContents x with
  | error e => simp [he] at ha
  | ok tc =>
    simp [he] at ha
    refine ⟨ha.1.symm, ?_⟩
    rw [← ha.2]
    unfold Dom.getTemplateContents at he
    simp only [bind, Except.bind] at he
    cases hg : d.get x with
    | error e => simp [hg] at he
    | ok nd =>
      simp only [hg] at he
      unfold tcOf Dom.templateContentsOf
      rw [dataOf_of_node (get_ok.mp hg)]
      cases hd : nd.data with
      | element n a t ip =>
        cases t with
        | none => simp [hd, throw, throwThe, MonadExceptOf.throw] at he
        | some tc' => simp [hd] at he; simp [he]
      | _ => simp [hd, throw, throwThe, MonadExceptOf.throw] at he

theorem tot_getTemplateContents (s : State) (x : Id) :
    Tot (sinkNode (.getTemplateContents x)) s (QueryQ s (tcOf s.dom x)) := by
  unfold sinkNode
  refine tot_bind (tot_sink trivial ?_)
  intro d' out ha
  obtain ⟨_, ho⟩ := apply_getTemplateContents ha
  subst ho
  exact tot_pure ⟨rfl, SameTB.afterCall .., rfl⟩

/-- an edit call without answer -/
theorem tot_sinkUnit {op : SinkOp} (s : State) (ht : Tame op) :
    Tot (sinkUnit op) s (fun _ s' calls => ∃ d' out, s.dom.apply op = .ok (d', out) ∧
      s' = afterCall s d' op out ∧ calls = [(op, out)]) := by
  unfold sinkUnit
  refine tot_bind (tot_sink ht ?_)
  intro d' out ha
  exact tot_pure ⟨d', out, ha, rfl, rfl⟩

/-- the flags `create_element_with_flags` computes -/
def flagsFor (name : QualName) (attrs : List Attr) (hadDup : Bool) : ElementFlags :=
  { template := name.ns == nsHtml && isName name.loc "template"
    mathmlIP :=
      if name.ns == nsMathml && isName name.loc "annotation-xml" then
        attrs.any (fun a => a.name.ns == [] && isName a.name.loc "encoding" &&
          (eqIgnoreAsciiCase a.value "text/html".toList ||
           eqIgnoreAsciiCase a.value "application/xhtml+xml".toList))
      else false
    hadDuplicateAttributes := hadDup }

/-- the `create_element` call for a tag in a namespace, answered with the node `new` -/
def createCall (ns : Str) (tag : Tag) (new : Id) : Call :=
  (.createElement { pfx := none, ns := ns, loc := tag.name } tag.attrs
      (flagsFor { pfx := none, ns := ns, loc := tag.name } tag.attrs tag.hadDup), .node new)

theorem createElement_facts (d : Dom) (name : QualName) (attrs : List Attr) (flags : ElementFlags) :
    let r := d.createElement name attrs flags
    d.size ≤ r.2 ∧ r.1.elemName r.2 = .ok (name.ns, name.loc) := by
  unfold Dom.createElement
  by_cases ht : flags.template = true
  · simp only [ht, if_true]
    refine ⟨by simp [Dom.alloc, Dom.size], ?_⟩
    unfold Dom.elemName
    have hn : (((d.alloc .document).1).alloc (.element name attrs (some (d.alloc .document).2) flags.mathmlIP)).1.node?
        (((d.alloc .document).1).alloc (.element name attrs (some (d.alloc .document).2) flags.mathmlIP)).2
        = some { data := .element name attrs (some (d.alloc .document).2) flags.mathmlIP } := by
      rw [node?_alloc]; simp [alloc_id]
    simp only [bind, Except.bind, get_ok_of hn]
  · have ht' : flags.template = false := by simpa using ht
    simp only [ht', Bool.false_eq_true, if_false]
    refine ⟨by simp [Dom.alloc, Dom.size], ?_⟩
    unfold Dom.elemName
    have hn : (d.alloc (.element name attrs none flags.mathmlIP)).1.node? (d.alloc (.element name attrs none flags.mathmlIP)).2
        = some { data := .element name attrs none flags.mathmlIP } := by
      rw [node?_alloc]; simp [alloc_id]
    simp only [bind, Except.bind, get_ok_of hn]

/-- `create_element_with_flags`: one `create_element` call; the node is fresh and is an element of
the given type -/
theorem tot_createElementWithFlags (s : State) (ns : Str) (tag : Tag) :
    Tot (createElementWithFlags { pfx := none, ns := ns, loc := tag.name } tag.attrs tag.hadDup) s
      (fun new s' calls => SameTB s s' ∧ calls = [createCall ns tag new] ∧ s.dom.size ≤ new ∧
        s'.dom.isElement new = true ∧ nameOf s'.dom new = ⟨ns, tag.name⟩) := by
  unfold createElementWithFlags sinkNode
  refine tot_bind (tot_sink trivial ?_)
  intro d' out ha
  have hfacts := createElement_facts s.dom { pfx := none, ns := ns, loc := tag.name } tag.attrs
    (flagsFor { pfx := none, ns := ns, loc := tag.name } tag.attrs tag.hadDup)
  have : d' = (s.dom.createElement { pfx := none, ns := ns, loc := tag.name } tag.attrs
      (flagsFor { pfx := none, ns := ns, loc := tag.name } tag.attrs tag.hadDup)).1 ∧
      out = .node (s.dom.createElement { pfx := none, ns := ns, loc := tag.name } tag.attrs
      (flagsFor { pfx := none, ns := ns, loc := tag.name } tag.attrs tag.hadDup)).2 := by
    unfold Dom.apply Dom.applyV at ha
    simp only [flagsFor] at ha ⊢
    cases ha; exact ⟨rfl, rfl⟩
  obtain ⟨hd, ho⟩ := this
  subst ho
  refine tot_pure ⟨SameTB.afterCall .., rfl, hfacts.1, ?_, ?_⟩
  · show d'.isElement _ = true
    rw [hd]; exact isElement_of_elemName hfacts.2
  · show nameOf d' _ = _
    rw [hd]; unfold nameOf; rw [hfacts.2]

end H5V.Lemmas.HtmlTBAlgo
