import H5V.Lemmas.HtmlTBSplitActions
/-!
C03 lifted to the tree — layer 2b: every rule of `H5V.Model.HtmlTB.Rules` respects `Sim`.

The per-mode step functions get `stepX_resp (token) (ht : TokOK token) : RespQ (ResOK token) (stepX token)`.
`stepInTableText` (and its two flush loops) read `pendingTableText`, which `Sim` does not fix; they are
not treated here: the final theorems `step_resp` / `stepForeign_resp` take `InTableTextOK` as a hypothesis.
-/
namespace H5V.Lemmas.TBSplit
open H5V.Model.Dom (Id QualName Attr NodeOrText SinkOp Output ElementFlags QuirksMode Dom)
open H5V.Model.HtmlTok (TagKind RawKind)
open H5V.Model.HtmlTB

/-! ### extra rules -/

/-- `getS` whose continuation uses the state in a way that is not literally stable (e.g. `set { s with … }`) -/
theorem respQ_getS_bind_diag {β : Type} {Q : β → Prop} {f : State → M β}
    (h : ∀ s t, Sim s t → RelR Q (f s s) (f t t)) : RespQ Q (getS >>= f) := by
  intro s t hs
  rw [bind_apply, bind_apply, getS_apply, getS_apply]
  exact h s t hs

/-- `resp_step` with the cheap structural rules tried before the (long) list of registered lemmas -/
macro "resp_fstep" : tactic =>
  `(tactic| first
    | (with_reducible refine respQ_ite (fun _ => ?_) (fun _ => ?_))
    | (with_reducible intro _)
    | ((with_reducible refine respQ_pure ?_); resp_side)
    | resp_step)
macro "resp_fast" : tactic => `(tactic| repeat' resp_fstep)

/-! ### Initial, BeforeHtml -/

theorem extractEncoding_resp (c : Str) : Resp (extractEncoding c) := by
  unfold extractEncoding; resp_fast
macro_rules | `(tactic| resp_lemma) => `(tactic| with_reducible exact extractEncoding_resp _)

theorem stepInitial_resp (token : Token) (ht : TokOK token) : RespQ (ResOK token) (stepInitial token) := by
  unfold stepInitial; resp_fast
macro_rules | `(tactic| resp_lemma) => `(tactic| with_reducible exact stepInitial_resp _ (by assumption))

theorem stepBeforeHtml_resp (token : Token) (ht : TokOK token) : RespQ (ResOK token) (stepBeforeHtml token) := by
  unfold stepBeforeHtml; resp_fast
macro_rules | `(tactic| resp_lemma) => `(tactic| with_reducible exact stepBeforeHtml_resp _ (by assumption))

theorem inBodyHtml_done (tag : Tag) : RespQ (· = .done) (inBodyHtml tag) := by
  unfold inBodyHtml; resp_fast
theorem inBodyHtml_resp (tag : Tag) : Resp (inBodyHtml tag) := respQ_resp (inBodyHtml_done tag)
macro_rules | `(tactic| resp_lemma) => `(tactic| with_reducible exact inBodyHtml_resp _)
macro_rules | `(tactic| resp_lemma) => `(tactic| with_reducible exact inBodyHtml_done _)
macro_rules | `(tactic| resp_lemma) => `(tactic| with_reducible exact respQ_done_ok (inBodyHtml_done _))
macro_rules | `(tactic| resp_lemma) => `(tactic| with_reducible exact respQ_done_notRe (inBodyHtml_done _))

/-! ### InHead -/

theorem shouldAttachDeclarativeShadow_resp (tag : Tag) : Resp (shouldAttachDeclarativeShadow tag) := by
  unfold shouldAttachDeclarativeShadow; resp_fast
macro_rules | `(tactic| resp_lemma) => `(tactic| with_reducible exact shouldAttachDeclarativeShadow_resp _)

theorem stepInHead_resp (token : Token) (ht : TokOK token) : RespQ (ResOK token) (stepInHead token) := by
  unfold stepInHead; resp_fast
macro_rules | `(tactic| resp_lemma) => `(tactic| with_reducible exact stepInHead_resp _ (by assumption))

/-! ### InTemplate's EOF arm -/

/-- the answer of `inTemplateEof` is `Done` or `Reprocess(_, EOF)` -/
def EofRes : ProcessResult → Prop
  | .done => True
  | .reprocess _ t => t = .eof
  | _ => False

theorem EofRes.ok {t : Token} {r : ProcessResult} (h : EofRes r) : ResOK t r := by
  cases r <;> first | trivial | exact h.elim | exact Or.inr h

theorem unexpected_eofRes : RespQ EofRes unexpected :=
  respQ_weaken unexpected_done (fun _ h => by subst h; trivial)
macro_rules | `(tactic| resp_lemma) => `(tactic| with_reducible exact unexpected_eofRes)

theorem inTemplateEof_eofRes : RespQ EofRes inTemplateEof := by
  unfold inTemplateEof; resp_fast
theorem inTemplateEof_ok (t : Token) : RespQ (ResOK t) inTemplateEof :=
  respQ_weaken inTemplateEof_eofRes (fun _ h => h.ok)
theorem inTemplateEof_resp : Resp inTemplateEof := respQ_resp inTemplateEof_eofRes
macro_rules | `(tactic| resp_lemma) => `(tactic| with_reducible exact inTemplateEof_resp)
macro_rules | `(tactic| resp_lemma) => `(tactic| with_reducible exact inTemplateEof_ok _)

/-! ### InBody -/

theorem inBodyVoid_notRe (tag : Tag) : RespQ NotRe (inBodyVoid tag) := by
  unfold inBodyVoid; resp_fast
theorem inBodyVoid_resp (tag : Tag) : Resp (inBodyVoid tag) := respQ_resp (inBodyVoid_notRe tag)
macro_rules | `(tactic| resp_lemma) => `(tactic| with_reducible exact inBodyVoid_resp _)
macro_rules | `(tactic| resp_lemma) => `(tactic| with_reducible exact inBodyVoid_notRe _)
macro_rules | `(tactic| resp_lemma) => `(tactic| with_reducible exact respQ_notRe_ok (inBodyVoid_notRe _))

theorem listCloseSearch_resp (list : Bool) : ∀ l, Resp (listCloseSearch list l)
  | [] => by unfold listCloseSearch; resp_fast
  | node :: rest => by
    have ih := listCloseSearch_resp list rest
    unfold listCloseSearch; resp_fast
macro_rules | `(tactic| resp_lemma) => `(tactic| with_reducible exact listCloseSearch_resp _ _)

theorem findOption_resp : ∀ l, Resp (findOption l)
  | [] => by unfold findOption; resp_fast
  | e :: rest => by
    have ih := findOption_resp rest
    unfold findOption; resp_fast
macro_rules | `(tactic| resp_lemma) => `(tactic| with_reducible exact findOption_resp _)

theorem anySameNode_resp (x : Id) : ∀ l, Resp (anySameNode x l)
  | [] => by unfold anySameNode; resp_fast
  | e :: rest => by
    have ih := anySameNode_resp x rest
    unfold anySameNode; resp_fast
macro_rules | `(tactic| resp_lemma) => `(tactic| with_reducible exact anySameNode_resp _ _)

theorem contextIsSelect_resp (site : String) : Resp (contextIsSelect site) := by
  unfold contextIsSelect; resp_fast
macro_rules | `(tactic| resp_lemma) => `(tactic| with_reducible exact contextIsSelect_resp _)

theorem isOneOf_sub {n : Str} {l l' : List String} (h : isOneOf n l = true) (hs : ∀ x ∈ l, x ∈ l') :
    isOneOf n l' = true := by
  unfold isOneOf at *
  rw [List.any_eq_true] at *
  obtain ⟨x, hx, hn⟩ := h
  exact ⟨x, hs x hx, hn⟩

theorem isStart_sub {tag : Tag} {l : List String} (h : tag.isStart l = true) (hs : ∀ x ∈ l, x ∈ fmtNames) :
    isOneOf tag.name fmtNames = true := by
  unfold Tag.isStart at h
  rw [Bool.and_eq_true] at h
  exact isOneOf_sub h.2 hs

/-- the `</form>` arm outside templates (rules.rs:640): `form_elem.take()` -/
theorem formEndTag_resp {Q : ProcessResult → Prop} (hQ : Q .done) : RespQ Q (do
    let s ← getS
    match s.formElem with
    | none =>
      parseError "Null form element pointer on </form>"
      pure .done
    | some node =>
      set { s with formElem := none }
      if !(← inScope defaultScope (fun n => sameNode node n)) then
        parseError "Form element not in scope on </form>"
        pure .done
      else
        generateImpliedEndTags cursoryImpliedEnd
        let current ← currentNode
        removeFromStack node
        if !(← sameNode current node) then parseError "Bad open element on </form>"
        pure .done : M ProcessResult) := by
  refine respQ_getS_bind_diag ?_
  intro s t hst
  obtain ⟨hi, tr, cl, er, pt, rfl, hp⟩ := hst
  dsimp only
  cases s.formElem with
  | none =>
    have : RespQ Q (do parseError "Null form element pointer on </form>"; pure .done : M ProcessResult) := by resp_fast
    exact this _ _ (sim_upd_of hi hp)
  | some node =>
    refine relR_set_bind (sim_upd_of (s := { s with formElem := none }) hi hp) ?_
    resp_fast

set_option maxHeartbeats 1600000 in
theorem stepInBody_resp (token : Token) (ht : TokOK token) : RespQ (ResOK token) (stepInBody token) := by
  unfold stepInBody
  split
  rotate_left 4
  · repeat (refine respQ_ite (fun _ => ?_) (fun _ => ?_); rotate_left)
    rotate_left 16
    · refine respQ_bind (P := fun _ => True) (by resp_fast) ?_
      intro _ _
      refine respQ_ite (fun _ => ?_) (fun _ => ?_)
      · exact formEndTag_resp trivial
      · resp_fast
    all_goals resp_fast
    all_goals exact createFormattingElementFor_resp _ (isStart_sub (by assumption) (by simp [fmtNames]))
  all_goals resp_fast
macro_rules | `(tactic| resp_lemma) => `(tactic| with_reducible exact stepInBody_resp _ (by assumption))

/-! ### BeforeHead, InHeadNoscript, AfterHead -/

theorem stepBeforeHead_resp (token : Token) (ht : TokOK token) : RespQ (ResOK token) (stepBeforeHead token) := by
  unfold stepBeforeHead; resp_fast
macro_rules | `(tactic| resp_lemma) => `(tactic| with_reducible exact stepBeforeHead_resp _ (by assumption))

theorem stepInHeadNoscript_resp (token : Token) (ht : TokOK token) : RespQ (ResOK token) (stepInHeadNoscript token) := by
  unfold stepInHeadNoscript; resp_fast
macro_rules | `(tactic| resp_lemma) => `(tactic| with_reducible exact stepInHeadNoscript_resp _ (by assumption))

theorem stepAfterHead_resp (token : Token) (ht : TokOK token) : RespQ (ResOK token) (stepAfterHead token) := by
  unfold stepAfterHead; resp_fast
macro_rules | `(tactic| resp_lemma) => `(tactic| with_reducible exact stepAfterHead_resp _ (by assumption))

/-! ### Text -/

/-- `orig_mode.take().unwrap()` followed by a state update that `Sim` tolerates -/
theorem respQ_takeOrig {Q : ProcessResult → Prop} (a b c : String) (g : State → Mode → State)
    (k : Mode → M ProcessResult)
    (hc : ∀ m s tr cl er pt, g (upd s tr cl er pt) m = upd (g s m) tr cl er pt)
    (haf : ∀ m s, AFInv s → AFInv (g s m)) (hpt : ∀ m s, (g s m).pendingTableText = s.pendingTableText)
    (hk : ∀ m, RespQ Q (k m)) :
    RespQ Q (getS >>= fun s => match s.origMode with
      | none => panicAt a b c
      | some m => (set (g s m) : M PUnit) >>= fun _ => k m) := by
  refine respQ_getS_bind_diag ?_
  intro s t hst
  have ho := hst.origMode
  rw [← ho]
  cases s.origMode with
  | none => trivial
  | some m =>
    exact relR_set_bind (sim_of_comm (g := fun s => g s m) (hc m) (haf m) (hpt m) hst) (hk m)

theorem stepText_resp (token : Token) (ht : TokOK token) : RespQ (ResOK token) (stepText token) := by
  unfold stepText
  repeat' first
    | (refine respQ_takeOrig _ _ _ _ _ ?_ ?_ ?_ ?_ <;>
        first | exact fun _ _ _ _ _ _ => rfl | exact fun _ _ h => h | exact fun _ _ => rfl | skip)
    | resp_fstep
macro_rules | `(tactic| resp_lemma) => `(tactic| with_reducible exact stepText_resp _ (by assumption))

/-! ### tables -/

theorem fosterParentInBody_resp (token : Token) (ht : TokOK token) : RespQ (ResOK token) (fosterParentInBody token) := by
  unfold fosterParentInBody; resp_fast
macro_rules | `(tactic| resp_lemma) => `(tactic| with_reducible exact fosterParentInBody_resp _ (by assumption))

theorem PendRel.isEmpty_eq {l1 l2 : List (SplitStatus × Str)} (h : PendRel l1 l2) : l1.isEmpty = l2.isEmpty := by
  cases l1 with
  | nil =>
    cases l2 with
    | nil => rfl
    | cons p l2 =>
      exfalso
      have hc := h.cat
      simp only [List.flatMap_nil, List.flatMap_cons] at hc
      have : p.2 = [] := (List.append_eq_nil_iff.mp hc.symm).1
      exact h.ne2 p (List.mem_cons_self ..) this
  | cons p l1 =>
    cases l2 with
    | nil =>
      exfalso
      have hc := h.cat
      simp only [List.flatMap_nil, List.flatMap_cons] at hc
      have : p.2 = [] := (List.append_eq_nil_iff.mp hc).1
      exact h.ne1 p (List.mem_cons_self ..) this
    | cons q l2 => rfl

theorem processCharsInTable_resp (token : Token) (ht : TokOK token) :
    RespQ (ResOK token) (processCharsInTable token) := by
  unfold processCharsInTable
  refine respQ_bind (P := fun _ => True) (currentNodeIn_resp _) (fun b _ => ?_)
  refine respQ_ite (fun _ => ?_) (fun _ => ?_)
  · refine respQ_getS_bind_diag ?_
    intro s t hst
    have he := hst.pend.isEmpty_eq
    dsimp only
    rw [← he]
    generalize s.pendingTableText.isEmpty = e
    refine (show RespQ _ _ from ?_) s t hst
    resp_fast
  · resp_fast
macro_rules | `(tactic| resp_lemma) => `(tactic| with_reducible exact processCharsInTable_resp _ (by assumption))

theorem stepInTable_resp (token : Token) (ht : TokOK token) : RespQ (ResOK token) (stepInTable token) := by
  unfold stepInTable; resp_fast
macro_rules | `(tactic| resp_lemma) => `(tactic| with_reducible exact stepInTable_resp _ (by assumption))

theorem stepInCaption_resp (token : Token) (ht : TokOK token) : RespQ (ResOK token) (stepInCaption token) := by
  unfold stepInCaption; resp_fast
macro_rules | `(tactic| resp_lemma) => `(tactic| with_reducible exact stepInCaption_resp _ (by assumption))

theorem stepInColumnGroup_resp (token : Token) (ht : TokOK token) : RespQ (ResOK token) (stepInColumnGroup token) := by
  unfold stepInColumnGroup; resp_fast
macro_rules | `(tactic| resp_lemma) => `(tactic| with_reducible exact stepInColumnGroup_resp _ (by assumption))

theorem stepInTableBody_resp (token : Token) (ht : TokOK token) : RespQ (ResOK token) (stepInTableBody token) := by
  unfold stepInTableBody; resp_fast
macro_rules | `(tactic| resp_lemma) => `(tactic| with_reducible exact stepInTableBody_resp _ (by assumption))

theorem popTr_resp (site : String) : Resp (popTr site) := by
  unfold popTr; resp_fast
macro_rules | `(tactic| resp_lemma) => `(tactic| with_reducible exact popTr_resp _)

theorem stepInRow_resp (token : Token) (ht : TokOK token) : RespQ (ResOK token) (stepInRow token) := by
  unfold stepInRow; resp_fast
macro_rules | `(tactic| resp_lemma) => `(tactic| with_reducible exact stepInRow_resp _ (by assumption))

theorem stepInCell_resp (token : Token) (ht : TokOK token) : RespQ (ResOK token) (stepInCell token) := by
  unfold stepInCell; resp_fast
macro_rules | `(tactic| resp_lemma) => `(tactic| with_reducible exact stepInCell_resp _ (by assumption))

/-! ### InTemplate, AfterBody, framesets, after-after -/

theorem setTemplateMode_resp (m : Mode) : Resp (setTemplateMode m) := by
  unfold setTemplateMode; resp_fast
macro_rules | `(tactic| resp_lemma) => `(tactic| with_reducible exact setTemplateMode_resp _)

theorem stepInTemplate_resp (token : Token) (ht : TokOK token) : RespQ (ResOK token) (stepInTemplate token) := by
  unfold stepInTemplate; resp_fast
macro_rules | `(tactic| resp_lemma) => `(tactic| with_reducible exact stepInTemplate_resp _ (by assumption))

theorem stepAfterBody_resp (token : Token) (ht : TokOK token) : RespQ (ResOK token) (stepAfterBody token) := by
  unfold stepAfterBody; resp_fast
macro_rules | `(tactic| resp_lemma) => `(tactic| with_reducible exact stepAfterBody_resp _ (by assumption))

theorem stepInFrameset_resp (token : Token) (ht : TokOK token) : RespQ (ResOK token) (stepInFrameset token) := by
  unfold stepInFrameset; resp_fast
macro_rules | `(tactic| resp_lemma) => `(tactic| with_reducible exact stepInFrameset_resp _ (by assumption))

theorem stepAfterFrameset_resp (token : Token) (ht : TokOK token) : RespQ (ResOK token) (stepAfterFrameset token) := by
  unfold stepAfterFrameset; resp_fast
macro_rules | `(tactic| resp_lemma) => `(tactic| with_reducible exact stepAfterFrameset_resp _ (by assumption))

theorem stepAfterAfterBody_resp (token : Token) (ht : TokOK token) : RespQ (ResOK token) (stepAfterAfterBody token) := by
  unfold stepAfterAfterBody; resp_fast
macro_rules | `(tactic| resp_lemma) => `(tactic| with_reducible exact stepAfterAfterBody_resp _ (by assumption))

theorem stepAfterAfterFrameset_resp (token : Token) (ht : TokOK token) :
    RespQ (ResOK token) (stepAfterAfterFrameset token) := by
  unfold stepAfterAfterFrameset; resp_fast
macro_rules | `(tactic| resp_lemma) => `(tactic| with_reducible exact stepAfterAfterFrameset_resp _ (by assumption))

/-! ### the dispatch -/

/-- the part not treated here: `stepInTableText` reads the pending table text, which `Sim` does not fix -/
def InTableTextOK : Prop := ∀ token, TokOK token → RespQ (ResOK token) (stepInTableText token)

/-- the hypothesis about `flush_pending_table_text` (`process_token`, DOCTYPE in "in table text"), discharged
in `HtmlTBSplitFlush` -/
def FlushTextOK : Prop := Resp flushPendingTableText

theorem step_resp (hT : InTableTextOK) (mode : Mode) (token : Token) (ht : TokOK token) :
    RespQ (ResOK token) (step mode token) := by
  have h := hT token ht
  unfold step; resp_fast

/-! ### foreign content -/

theorem unexpectedStartTagInForeignContent_resp (hT : InTableTextOK) (tag : Tag) :
    RespQ (ResOK (.tag tag)) (unexpectedStartTagInForeignContent tag) := by
  have h := fun m => step_resp hT m (.tag tag) trivial
  unfold unexpectedStartTagInForeignContent; resp_fast
  all_goals exact h _

theorem foreignEndTagLoop_resp (hT : InTableTextOK) (tag : Tag) :
    ∀ n b, RespQ (ResOK (.tag tag)) (foreignEndTagLoop tag n b)
  | 0, _ => by
    have h := fun m => step_resp hT m (.tag tag) trivial
    unfold foreignEndTagLoop; resp_fast
    all_goals exact h _
  | n + 1, b => by
    have ih := foreignEndTagLoop_resp hT tag n false
    have h := fun m => step_resp hT m (.tag tag) trivial
    unfold foreignEndTagLoop; resp_fast
    all_goals exact h _

theorem stepForeign_resp (hT : InTableTextOK) (token : Token) (ht : TokOK token) :
    RespQ (ResOK token) (stepForeign token) := by
  unfold stepForeign
  split
  rotate_left 4
  · rename_i tag
    have h1 := unexpectedStartTagInForeignContent_resp hT tag
    have h2 := foreignEndTagLoop_resp hT tag
    resp_fast
  all_goals resp_fast

end H5V.Lemmas.TBSplit
