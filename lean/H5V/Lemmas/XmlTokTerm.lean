import H5V.Lemmas.XmlTokSafe
import H5V.Lemmas.HtmlTokTerm
/-!
Termination of the XML tokenizer loop (port of `H5V.Lemmas.HtmlTokTerm`): a measure `mu m inp` on
(machine, unread input) that strictly decreases along every `.cont` step of `XmlTokenizer::step`,
and is bounded by the fuel `fuelFor m inp` that `feed` / `end` hand to `run`.

The only text that can be read more than once is what a named character reference collects in
`name_buf` and gives back (`unconsume_name`): an alphanumeric/`;` run directly after an `&`.
`tripF` (shared with the HTML proof, as is the kernel-checked table fact `lookup_runCh`) counts the
characters of the unread input that can still make that trip; every character weighs 16 (whether
unread or stashed in `temp_buf` / `name_buf` / as the `#x` of a numeric reference), a pending
`reconsume` 12, the sub-tokenizer 8 + a rank ≤ 3, a tokenizer state at most 2 (`base`: reconsume
chains of the table, and the non-consuming exit of the markup-declaration state).

The invariant `TInv` = `Safe` (no-panic, `XmlTokSafe`) + `TI` (look-ahead / reconsume discipline:
`temp_buf` is empty outside the two `eat` states, no pending "ignore LF" while text is stashed, no
pending `reconsume` in an `eat` state or during a character reference, a pending reconsume with
"ignore LF" set re-delivers the LF of a folded CR, no "ignore LF" during a character reference,
`name_buf` holds alphanumerics/`;` only, the hex marker is not `&`).  Unlike `Good` (`XmlTokChunk`)
its preservation does not need `at_eof = false`, so it also covers the loop inside `end()`.
-/
namespace H5V.Model.XmlTok
open H5V.Model.HtmlTok (runCh tripF tripF_nil runCh_ne_amp tripF_cons_amp tripF_cons_run tripF_cons_other
  tripF_le_true tripF_le_length tripF_suffix tripF_false_cons tripF_false_run tripF_true_cons_run tripF_true_run
  tripF_true_hash)

theorem isPrefixOf_eq (a b : List Nat) : isPrefixOf a b = HtmlTok.isPrefixOf a b := by
  induction a generalizing b with
  | nil => simp [isPrefixOf, HtmlTok.isPrefixOf]
  | cons x xs ih =>
    cases b with
    | nil => simp [isPrefixOf, HtmlTok.isPrefixOf]
    | cons y ys => simp [isPrefixOf, HtmlTok.isPrefixOf, ih]

theorem entityLookupN_eq (key : List Nat) : entityLookupN key = HtmlTok.entityLookupN key := by
  unfold entityLookupN HtmlTok.entityLookupN
  cases key with
  | nil => rfl
  | cons c t => simp only [isPrefixOf_eq]; rfl

theorem entityLookup_eq (nb : Str) : entityLookup nb = HtmlTok.entityLookup nb := by
  unfold entityLookup HtmlTok.entityLookup
  exact entityLookupN_eq _

theorem isAsciiAlnum_eq (c : Char) : isAsciiAlnum c = HtmlTok.isAsciiAlnum c := rfl

theorem lookup_runCh (nb : Str) (mt : Nat × Nat) (h : entityLookup nb = some mt) :
    ∀ x ∈ nb, runCh x = true :=
  HtmlTok.lookup_runCh nb mt (by rw [← entityLookup_eq]; exact h)


theorem alnum_runCh {c : Char} (h : isAsciiAlnum c = true) : runCh c = true := by
  unfold runCh; rw [← isAsciiAlnum_eq]; simp [h]

/-- the character `get_char` delivers for the raw character `c0` -/
def foldCh (c0 : Char) : Char := if c0 = '\r' then '\n' else if c0 = '\x00' then '�' else c0

theorem tripF_foldCh (c0 : Char) (s : Str) : tripF false (foldCh c0 :: s) ≤ tripF false (c0 :: s) := by
  unfold foldCh
  split
  · rename_i h; subst h
    rw [tripF_false_cons _ _ (by decide), tripF_false_cons _ _ (by decide)]
    exact Nat.le_refl _
  · split
    · rename_i h; subst h
      rw [tripF_false_cons _ _ (by decide), tripF_false_cons _ _ (by decide)]
      exact Nat.le_refl _
    · exact Nat.le_refl _

theorem foldCh_amp {c0 : Char} (h : foldCh c0 = '&') : c0 = '&' := by
  unfold foldCh at h
  split at h
  · exact absurd h (by decide)
  · split at h
    · exact absurd h (by decide)
    · exact h

theorem foldCh_runCh {c0 : Char} (h : runCh (foldCh c0) = true) : foldCh c0 = c0 := by
  unfold foldCh at h ⊢
  split at h
  · exact absurd h (by decide)
  · split at h
    · exact absurd h (by decide)
    · rename_i h1 h2; simp [h1, h2]

/-! ### the measure -/

/-- characters of a numeric reference (`#`, `x`) or of `name_buf` the sub-tokenizer may give back -/
def crStash (cr : CharRefSt) : Nat :=
  match cr.state with
  | .octothorpe => 1
  | .numeric _ => if cr.seenDigit then 0 else 1 + (if cr.hexMarker.isSome then 1 else 0)
  | .named | .bogusName => (cr.nameBuf.getD []).length
  | _ => 0

def crFlag : CRState → Bool
  | .begin | .named | .bogusName => true
  | _ => false

def crRank : CRState → Nat
  | .begin => 3 | .octothorpe => 2 | .numeric _ => 1 | .numericSemicolon => 0 | .named => 1 | .bogusName => 1

/-- rank of a tokenizer state in the `reconsume` chains of the table (and for the non-consuming exit
of the markup-declaration state) -/
def base : State → Nat
  | .commentEnd | .commentEndDash | .tagAttrValueBefore => 1
  | .data | .bogusComment | .comment | .piData | .beforeDoctypeName | .tagAttrValue _ => 0
  | _ => 2

theorem base_le (s : State) : base s ≤ 2 := by
  cases s <;> simp [base]

/-- the character a pending `reconsume` will deliver again -/
def rc (m : Mach) : Str := if m.reconsume then [m.currentChar] else []

def mu (m : Mach) (inp : Str) : Nat :=
  match m.charRef with
  | some cr => 16 * (crStash cr + inp.length) + tripF (crFlag cr.state) inp + 8 + crRank cr.state
  | none =>
    16 * (m.tempBuf.length + inp.length) + tripF false (rc m ++ (m.tempBuf ++ inp))
      + (if m.reconsume then 12 else 0) + base m.state

theorem mu_none {m : Mach} (h : m.charRef = none) (inp : Str) :
    mu m inp = 16 * (m.tempBuf.length + inp.length) + tripF false (rc m ++ (m.tempBuf ++ inp))
      + (if m.reconsume then 12 else 0) + base m.state := by
  unfold mu; rw [h]

theorem mu_some {m : Mach} {cr : CharRefSt} (h : m.charRef = some cr) (inp : Str) :
    mu m inp = 16 * (crStash cr + inp.length) + tripF (crFlag cr.state) inp + 8 + crRank cr.state := by
  unfold mu; rw [h]

theorem crStash_le (cr : CharRefSt) : crStash cr ≤ (cr.nameBuf.getD []).length + 2 := by
  unfold crStash
  split
  · omega
  · split <;> (try split) <;> omega
  · omega
  · omega
  · omega

theorem crRank_le (s : CRState) : crRank s ≤ 3 := by cases s <;> simp [crRank]

/-- **the fuel handed to `run` exceeds the measure** -/
theorem mu_lt_fuelFor (m : Mach) (inp : Str) : mu m inp < fuelFor m inp := by
  unfold fuelFor
  cases hcr : m.charRef with
  | some cr =>
    rw [mu_some hcr]
    have h1 := crStash_le cr
    have h2 := tripF_le_length (crFlag cr.state) inp
    have h3 := crRank_le cr.state
    simp only
    omega
  | none =>
    rw [mu_none hcr]
    have h2 := tripF_le_length false (rc m ++ (m.tempBuf ++ inp))
    have h3 := base_le m.state
    have h4 : (rc m).length ≤ 1 := by unfold rc; split <;> simp
    simp only [List.length_append] at h2
    simp only
    split <;> omega

/-! ### arithmetic: the shapes of a decreasing step -/

theorem rc_false {m : Mach} (h : m.reconsume = false) : rc m = [] := by unfold rc; simp [h]
theorem rc_true {m : Mach} (h : m.reconsume = true) : rc m = [m.currentChar] := by unfold rc; simp [h]

/-- a read without pending `reconsume` that consumed at least `c0` (possibly asking to reconsume
the character it delivered) -/
theorem mu_dec_consume {m m' : Mach} {inp i' a : Str} {c0 : Char}
    (hcr : m.charRef = none) (hr : m.reconsume = false) (hcr' : m'.charRef = none) (hst' : m'.tempBuf = [])
    (hsp : m.tempBuf ++ inp = a ++ c0 :: i')
    (hcc : m'.reconsume = true → m'.currentChar = foldCh c0) : mu m' i' < mu m inp := by
  rw [mu_none hcr, mu_none hcr', rc_false hr, hst', hsp]
  have hl : m.tempBuf.length + inp.length = a.length + (i'.length + 1) := by
    have := congrArg List.length hsp
    simpa using this
  have hb := base_le m'.state
  have h1 : tripF false (c0 :: i') ≤ tripF false (a ++ c0 :: i') := tripF_suffix false a _
  have h2 : tripF false i' ≤ tripF false (c0 :: i') := tripF_suffix false [c0] i'
  have h3 := tripF_foldCh c0 i'
  rw [hl]
  cases hr' : m'.reconsume with
  | false => simp [rc_false hr']; omega
  | true =>
    rw [rc_true hr', hcc hr']
    simp only [List.nil_append, List.length_nil, List.cons_append, ↓reduceIte]
    omega

/-- a step without pending `reconsume` before and after, that consumed something or moved down in
the state ranking (what was stashed may have gone back to the queue) -/
theorem mu_dec_plain {m m' : Mach} {inp i' a : Str}
    (hcr : m.charRef = none) (hr : m.reconsume = false) (hcr' : m'.charRef = none) (hr' : m'.reconsume = false)
    (hst' : m'.tempBuf = []) (hsp : m.tempBuf ++ inp = a ++ i')
    (h : a ≠ [] ∨ base m'.state < base m.state) : mu m' i' < mu m inp := by
  rw [mu_none hcr, mu_none hcr', rc_false hr, rc_false hr', hst', hsp]
  have hl : m.tempBuf.length + inp.length = a.length + i'.length := by
    have := congrArg List.length hsp
    simpa using this
  have hb := base_le m'.state
  have h1 : tripF false i' ≤ tripF false (a ++ i') := tripF_suffix false a _
  rw [hl]
  simp only [hr, hr', List.nil_append, List.length_nil, Bool.false_eq_true, ↓reduceIte]
  rcases h with h | h
  · have : 0 < a.length := List.length_pos_iff.mpr h
    omega
  · omega

/-- a read that re-delivers the pending character -/
theorem mu_dec_recon {m m' : Mach} {inp : Str}
    (hcr : m.charRef = none) (hr : m.reconsume = true) (hst : m.tempBuf = []) (hcr' : m'.charRef = none)
    (hst' : m'.tempBuf = [])
    (hcc : m'.reconsume = true → m'.currentChar = m.currentChar ∧ base m'.state < base m.state) :
    mu m' inp < mu m inp := by
  rw [mu_none hcr, mu_none hcr', rc_true hr, hst, hst']
  have hb := base_le m'.state
  have h1 : tripF false inp ≤ tripF false (m.currentChar :: inp) := tripF_suffix false [m.currentChar] inp
  cases hr' : m'.reconsume with
  | false => simp [rc_false hr', hr]; omega
  | true =>
    obtain ⟨e1, e2⟩ := hcc hr'
    rw [rc_true hr', e1]
    simp only [hr, List.nil_append, List.cons_append, ↓reduceIte]
    omega

theorem crStash_begin {cr : CharRefSt} (h : cr.state = .begin) : crStash cr = 0 := by
  unfold crStash; rw [h]

/-- a character reference starts on a freshly consumed `&` -/
theorem mu_dec_amp {m m' : Mach} {inp i' a : Str} {cr : CharRefSt}
    (hcr : m.charRef = none) (hr : m.reconsume = false) (hcr' : m'.charRef = some cr) (hb : cr.state = .begin)
    (hsp : m.tempBuf ++ inp = a ++ '&' :: i') : mu m' i' < mu m inp := by
  rw [mu_none hcr, mu_some hcr', rc_false hr, hsp, crStash_begin hb, hb]
  have hl : m.tempBuf.length + inp.length = a.length + (i'.length + 1) := by
    have := congrArg List.length hsp
    simpa using this
  have h1 : tripF false ('&' :: i') ≤ tripF false (a ++ '&' :: i') := tripF_suffix false a _
  rw [tripF_cons_amp] at h1
  rw [hl]
  simp only [crFlag, crRank, List.nil_append]
  omega

/-- a character reference starts on a re-delivered `&` -/
theorem mu_dec_amp_recon {m m' : Mach} {inp : Str} {cr : CharRefSt}
    (hcr : m.charRef = none) (hr : m.reconsume = true) (hcc : m.currentChar = '&') (hst : m.tempBuf = [])
    (hcr' : m'.charRef = some cr) (hb : cr.state = .begin) : mu m' inp < mu m inp := by
  rw [mu_none hcr, mu_some hcr', rc_true hr, hst, hcc, crStash_begin hb, hb]
  simp only [crFlag, crRank, List.nil_append, List.cons_append, tripF_cons_amp, hr, ↓reduceIte, List.length_nil]
  omega


/-! ### the reader: what a successful read consumed and left in the registers -/

theorem foldChar_more (o : Opts) (m : Mach) (c : Char) :
    (foldChar o m c).1 = foldCh c ∧ (foldChar o m c).2.currentChar = foldCh c ∧
    (foldChar o m c).2.ignoreLf = (m.ignoreLf || decide (c = '\r')) := by
  have hcc : (foldChar o m c).2.currentChar = (foldChar o m c).1 := rfl
  have h1 : (foldChar o m c).1 = foldCh c := by
    unfold foldChar foldCh
    by_cases hc : c = '\r'
    · simp only [hc, ↓reduceIte]; rfl
    · simp only [hc, ↓reduceIte]
  refine ⟨h1, by rw [hcc, h1], ?_⟩
  unfold foldChar
  generalize hcm : (if c = '\r' then ('\n', m.setIgnoreLf true) else (c, m)) = cm
  have h2 : cm.2.ignoreLf = (m.ignoreLf || decide (c = '\r')) := by
    rw [← hcm]; split <;> simp_all
  dsimp only
  generalize (if cm.1 = '\x00' then '�' else cm.1) = c'
  split <;> simp [h2]

theorem foldCh_cr_of_lf {c : Char} (h : foldCh c = '\n') : c = '\r' ∨ c = '\n' := by
  unfold foldCh at h
  split at h
  · left; assumption
  · split at h
    · exact absurd h (by decide)
    · right; exact h

/-- what a successful read of a fresh character leaves: the delivered character is the folded raw
character `c0`, found after a (possibly empty: skipped LF) prefix `a`; `current_char` holds it; a
pending "ignore LF" means it was a folded CR -/
theorem preprocess_shape (o : Opts) (m m1 : Mach) (x c : Char) (xs i1 : Str)
    (h : preprocess o m x xs = (some c, m1, i1)) :
    (∃ a c0, x :: xs = a ++ c0 :: i1 ∧ c = foldCh c0) ∧ m1.currentChar = c ∧
    (m1.ignoreLf = true → c = '\n') ∧ m1.reconsume = m.reconsume := by
  have key : ∀ (m0 : Mach) (y : Char), m0.ignoreLf = false → m0.reconsume = m.reconsume →
      (foldChar o m0 y).2.currentChar = (foldChar o m0 y).1 ∧
      ((foldChar o m0 y).2.ignoreLf = true → (foldChar o m0 y).1 = '\n') ∧
      (foldChar o m0 y).2.reconsume = m.reconsume ∧ (foldChar o m0 y).1 = foldCh y := by
    intro m0 y h0 hr0
    obtain ⟨f1, f2, f3⟩ := foldChar_more o m0 y
    refine ⟨by rw [f2, f1], fun hil => ?_, by rw [(foldChar_fields o m0 y).2.2.2.2, hr0], f1⟩
    rw [f3, h0] at hil
    simp only [Bool.false_or, decide_eq_true_eq] at hil
    subst hil
    rw [f1]; decide
  unfold preprocess at h
  split at h
  · split at h
    · cases xs with
      | nil => simp at h
      | cons y ys =>
        simp only [Prod.mk.injEq, Option.some.injEq] at h
        obtain ⟨h1, h2, h3⟩ := h
        subst h1 h2 h3
        obtain ⟨k1, k2, k3, k4⟩ := key (m.setIgnoreLf false) y rfl (by simp)
        exact ⟨⟨[x], y, rfl, k4⟩, k1, k2, k3⟩
    · simp only [Prod.mk.injEq, Option.some.injEq] at h
      obtain ⟨h1, h2, h3⟩ := h
      subst h1 h2 h3
      obtain ⟨k1, k2, k3, k4⟩ := key (m.setIgnoreLf false) x rfl (by simp)
      exact ⟨⟨[], x, rfl, k4⟩, k1, k2, k3⟩
  · rename_i hil
    simp only [Prod.mk.injEq, Option.some.injEq] at h
    obtain ⟨h1, h2, h3⟩ := h
    subst h1 h2 h3
    obtain ⟨k1, k2, k3, k4⟩ := key m x (by simpa using hil) rfl
    exact ⟨⟨[], x, rfl, k4⟩, k1, k2, k3⟩

theorem getChar_shape (o : Opts) (m m1 : Mach) (inp i1 : Str) (c : Char)
    (hri : m.reconsume = true → m.ignoreLf = true → m.currentChar = '\n')
    (h : getChar o m inp = (some c, m1, i1)) :
    ((m.reconsume = true ∧ i1 = inp ∧ c = m.currentChar) ∨
     (m.reconsume = false ∧ ∃ a c0, inp = a ++ c0 :: i1 ∧ c = foldCh c0)) ∧
    m1.reconsume = false ∧ m1.currentChar = c ∧ (m1.ignoreLf = true → c = '\n') := by
  unfold getChar at h
  split at h
  · rename_i hr
    simp only [Prod.mk.injEq, Option.some.injEq] at h
    obtain ⟨h1, h2, h3⟩ := h
    subst h1 h2 h3
    exact ⟨Or.inl ⟨hr, rfl, rfl⟩, by simp, by simp, fun hil => hri hr (by simpa using hil)⟩
  · rename_i hr
    have hr' : m.reconsume = false := by simpa using hr
    cases inp with
    | nil => simp at h
    | cons x xs =>
      obtain ⟨p1, p2, p3, p4⟩ := preprocess_shape o m m1 x c xs i1 h
      exact ⟨Or.inr ⟨hr', p1⟩, by rw [p4, hr'], p2, p3⟩

/-- a read of a `pop_except_from` state: re-delivery, or a non-empty prefix consumed whose last
character is `&` if the read reports `&` -/
def SetShape (m : Mach) (inp : Str) (r : SetRes) (i1 : Str) : Prop :=
  (m.reconsume = true ∧ i1 = inp ∧ r = .fromSet m.currentChar) ∨
  (m.reconsume = false ∧ ∃ a c0, inp = a ++ c0 :: i1 ∧ (r = .fromSet '&' → c0 = '&'))

theorem popExceptFrom_shape (o : Opts) (S : List Char) (m m1 : Mach) (inp i1 : Str) (r : SetRes)
    (hri : m.reconsume = true → m.ignoreLf = true → m.currentChar = '\n')
    (h : popExceptFrom o S m inp = (some r, m1, i1)) :
    SetShape m inp r i1 ∧ m1.reconsume = false ∧ (r = .fromSet '&' → m1.ignoreLf = false) := by
  have viaGet : ∀ c, getChar o m inp = (some c, m1, i1) → r = .fromSet c →
      SetShape m inp r i1 ∧ m1.reconsume = false ∧ (r = .fromSet '&' → m1.ignoreLf = false) := by
    intro c hg hrc
    obtain ⟨g0, g4, _, g6⟩ := getChar_shape o m m1 inp i1 c hri hg
    have hil : r = .fromSet '&' → m1.ignoreLf = false := by
      intro hx
      rw [hrc] at hx
      simp only [SetRes.fromSet.injEq] at hx
      cases hi : m1.ignoreLf with
      | false => rfl
      | true => have := g6 hi; rw [hx] at this; exact absurd this (by decide)
    refine ⟨?_, g4, hil⟩
    rcases g0 with ⟨g1, g2, g3⟩ | ⟨g1, a, c0, g2, g3⟩
    · exact Or.inl ⟨g1, g2, by rw [hrc, g3]⟩
    · refine Or.inr ⟨g1, a, c0, g2, fun hx => ?_⟩
      rw [hrc] at hx
      simp only [SetRes.fromSet.injEq] at hx
      rw [hx] at g3
      exact foldCh_amp g3.symm
  unfold popExceptFrom at h
  split at h
  · cases hg : getChar o m inp with
    | mk c rest =>
      obtain ⟨m2, i2⟩ := rest
      rw [hg] at h
      cases c with
      | none => simp at h
      | some c =>
        simp only [Option.map_some, Prod.mk.injEq, Option.some.injEq] at h
        obtain ⟨h1, h2, h3⟩ := h
        subst h2 h3
        exact viaGet c hg h1.symm
  · rename_i hs
    have hs' : o.exactErrors = false ∧ m.reconsume = false ∧ m.ignoreLf = false := by
      simpa [and_assoc] using hs
    cases inp with
    | nil => simp at h
    | cons x xs =>
      simp only at h
      split at h
      · have hg : getChar o m (x :: xs) = preprocess o m x xs := by
          unfold getChar; simp [hs'.2.1]
        cases hp : preprocess o m x xs with
        | mk c rest =>
          obtain ⟨m2, i2⟩ := rest
          rw [hp] at h hg
          cases c with
          | none => simp at h
          | some c =>
            simp only [Option.map_some, Prod.mk.injEq, Option.some.injEq] at h
            obtain ⟨h1, h2, h3⟩ := h
            subst h2 h3
            exact viaGet c hg h1.symm
      · simp only [Prod.mk.injEq, Option.some.injEq] at h
        obtain ⟨h1, h2, h3⟩ := h
        subst h2 h3
        exact ⟨Or.inr ⟨hs'.2.1, [], x, rfl, fun hx => by rw [← h1] at hx; simp at hx⟩, hs'.2.1,
          fun _ => hs'.2.2⟩


/-! ### the tables -/

/-- `reconsume` chains go down in `base` -/
theorem transChar_base (o : Opts) (m : Mach) (c : Char) (h : m.reconsume = false) :
    (transChar o m c).1.reconsume = true → base (transChar o m c).1.state < base m.state := by
  unfold transChar
  split <;> (repeat' split) <;> simp_all [base]

/-- a transition never asks to reconsume in a look-ahead state -/
theorem transChar_recon (o : Opts) (m : Mach) (c : Char) (h : m.reconsume = false) :
    (transChar o m c).1.reconsume = true → isEatState (transChar o m c).1.state = false := by
  unfold transChar
  split <;> (repeat' split) <;> simp_all [isEatState]

theorem transChar_currentChar (o : Opts) (m : Mach) (c : Char) :
    (transChar o m c).1.currentChar = m.currentChar := by
  unfold transChar; split <;> (repeat' split) <;> simp
theorem transChar_ignoreLf (o : Opts) (m : Mach) (c : Char) :
    (transChar o m c).1.ignoreLf = m.ignoreLf := by
  unfold transChar; split <;> (repeat' split) <;> simp

theorem transSet_reconsume (m : Mach) (r : SetRes) : (transSet m r).1.reconsume = m.reconsume := by
  unfold transSet; split <;> (repeat' split) <;> simp
theorem transSet_ignoreLf (m : Mach) (r : SetRes) : (transSet m r).1.ignoreLf = m.ignoreLf := by
  unfold transSet; split <;> (repeat' split) <;> simp

theorem transSet_not_eat (m : Mach) (r : SetRes) (hk : readKind m.state = .popExcept) :
    isEatState (transSet m r).1.state = false := by
  cases hs : m.state with
  | data => cases r <;> simp only [transSet, hs] <;> (repeat' split) <;> simp_all [isEatState]
  | tagAttrValue k =>
    cases k <;> cases r <;> simp only [transSet, hs] <;> (repeat' split) <;> simp_all [isEatState]
  | _ => simp [hs, readKind] at hk

/-- a character reference is only ever started on `&` -/
theorem transSet_amp (m : Mach) (r : SetRes) (hcr : m.charRef = none)
    (h : (transSet m r).1.charRef ≠ none) : r = .fromSet '&' := by
  unfold transSet at h
  split at h <;> (repeat' split at h) <;> simp_all


/-! ### the step-level invariant -/

/-- what the measure needs to know about the sub-tokenizer's registers -/
structure CRT (cr : CharRefSt) : Prop where
  nbRun : ∀ x ∈ cr.nameBuf.getD [], runCh x = true
  hexOk : ∀ c, cr.hexMarker = some c → c ≠ '&'

theorem CRT.fresh (a : Option Char) : CRT { addnlAllowed := a } := ⟨by simp, by simp⟩

/-- the look-ahead / reconsume discipline at step boundaries -/
structure TI (m : Mach) : Prop where
  eatOk : isEatState m.state = true → EatOk m
  nr : isEatState m.state = false → m.tempBuf = []
  eatNoRecon : isEatState m.state = true → m.reconsume = false
  ri : m.reconsume = true → m.ignoreLf = true → m.currentChar = '\n'
  cr : ∀ cr, m.charRef = some cr → m.ignoreLf = false ∧ m.reconsume = false ∧ CRT cr

/-- invariant at step boundaries: the no-panic invariant `Safe`, the look-ahead / reconsume
discipline, and: `name_buf` holds alphanumerics/`;` only and the hex marker is not `&` -/
structure TInv (m : Mach) : Prop where
  safe : Safe m
  ti : TI m

theorem TI.of_plain {m : Mach} (hcr : m.charRef = none) (htb : m.tempBuf = []) (hrec : m.reconsume = false) :
    TI m :=
  ⟨fun _ _ => htb, fun _ => htb, fun _ => hrec, fun h => (by rw [hrec] at h; cases h),
    fun cr h => (by rw [hcr] at h; cases h)⟩

theorem TI.congr {m m' : Mach} (hi : TI m) (h1 : m'.state = m.state) (h2 : m'.charRef = m.charRef)
    (h3 : m'.tempBuf = m.tempBuf) (h4 : m'.reconsume = m.reconsume) (h5 : m'.ignoreLf = m.ignoreLf)
    (h6 : m'.currentChar = m.currentChar) : TI m' where
  eatOk := by
    intro hs hil
    rw [h3]
    exact hi.eatOk (by rw [← h1]; exact hs) (by rw [← h5]; exact hil)
  nr := by rw [h1, h3]; exact hi.nr
  eatNoRecon := by rw [h1, h4]; exact hi.eatNoRecon
  ri := by rw [h4, h5, h6]; exact hi.ri
  cr := by rw [h2, h4, h5]; exact hi.cr

theorem TI.setIgnoreLf_false {m : Mach} (hi : TI m) : TI (m.setIgnoreLf false) where
  eatOk := fun _ h => by simp at h
  nr := by simpa using hi.nr
  eatNoRecon := by simpa using hi.eatNoRecon
  ri := fun _ h => by simp at h
  cr := fun cr h => by
    obtain ⟨_, b, c⟩ := hi.cr cr (by simpa using h)
    exact ⟨by simp, by simpa using b, c⟩

/-- what the table leaves behind after a `get_char!` read (also used for the last read of
`after-doctype-name`) -/
theorem afterChar_ti (o : Opts) (m1 : Mach) (c : Char)
    (hcr : m1.charRef = none) (htb : m1.tempBuf = []) (hrec : m1.reconsume = false)
    (hcc : m1.currentChar = c) (hil : m1.ignoreLf = true → c = '\n') :
    TI (transChar o m1 c).1 ∧ (transChar o m1 c).1.charRef = none ∧ (transChar o m1 c).1.tempBuf = [] := by
  have ht : (transChar o m1 c).1.tempBuf = [] := by rw [transChar_tempBuf, htb]
  have hc : (transChar o m1 c).1.charRef = none := by rw [transChar_charRef, hcr]
  refine ⟨⟨fun _ _ => ht, fun _ => ht, ?_, ?_, fun cr h => (by rw [hc] at h; cases h)⟩, hc, ht⟩
  · intro hs
    cases hr' : (transChar o m1 c).1.reconsume with
    | false => rfl
    | true => have := transChar_recon o m1 c hrec hr'; rw [hs] at this; cases this
  · intro _ hil'
    rw [transChar_currentChar, hcc]
    rw [transChar_ignoreLf] at hil'
    exact hil hil'

/-- the machine and left-over input of a step result -/
def R.pair? : R → Option (Mach × Str)
  | .cont m i | .suspend m i => some (m, i)
  | .panic _ => none

theorem ofSig_pair (ms : Mach × Sig) (inp : Str) (m' : Mach) (i' : Str)
    (h : (ofSig ms inp).pair? = some (m', i')) : m' = ms.1 ∧ i' = inp := by
  unfold ofSig at h
  split at h <;> simp_all [R.pair?]

theorem pair_mach (r : R) (m' : Mach) (i' : Str) (h : r.pair? = some (m', i')) : r.mach? = some m' := by
  cases r <;> simp_all [R.pair?, R.mach?]

theorem ofSig_cont (ms : Mach × Sig) (inp : Str) (m' : Mach) (i' : Str)
    (h : ofSig ms inp = .cont m' i') : m' = ms.1 ∧ i' = inp :=
  ofSig_pair ms inp m' i' (by rw [h]; rfl)

theorem ofSig_ne_suspend (ms : Mach × Sig) (inp : Str) (m' : Mach) (i' : Str) :
    ofSig ms inp ≠ .suspend m' i' := by
  intro h
  have := ofSig_not_suspend ms inp
  rw [h] at this
  simp [R.isSuspend] at this

theorem not_eat_base_getChar {s : State} (h : readKind s = .getChar) : isEatState s = false :=
  not_eat_of_getChar h

/-! ### `get_char!` states -/

theorem kind_getChar (o : Opts) (m : Mach) (inp : Str) (hi : TI m)
    (hcr : m.charRef = none) (hrk : readKind m.state = .getChar) (m' : Mach) (i' : Str) :
    ((contChar o (getChar o m inp)).pair? = some (m', i') → TI m') ∧
    (contChar o (getChar o m inp) = .cont m' i' → mu m' i' < mu m inp) := by
  have hne := not_eat_of_getChar hrk
  have hst : m.tempBuf = [] := hi.nr hne
  cases hgc : getChar o m inp with
  | mk oc r =>
    obtain ⟨m1, i1⟩ := r
    cases oc with
    | none =>
      obtain ⟨_, _, g3⟩ := getChar_none o m m1 inp i1 hgc
      refine ⟨fun h => ?_, fun h => by simp [contChar] at h⟩
      simp only [contChar, R.pair?, Option.some.injEq, Prod.mk.injEq] at h
      obtain ⟨h1, _⟩ := h
      subst h1
      rcases g3 with ⟨_, g4⟩ | ⟨_, _, g4⟩ <;> subst g4
      · exact hi
      · exact hi.setIgnoreLf_false
    | some c =>
      obtain ⟨f1, _, f3, f4⟩ := getChar_fields o m m1 inp i1 (some c) hgc
      obtain ⟨g0, g4, g5, g6⟩ := getChar_shape o m m1 inp i1 c hi.ri hgc
      obtain ⟨a1, a2, a3⟩ := afterChar_ti o m1 c (by rw [f4, hcr]) (by rw [f1, hst]) g4 g5 g6
      refine ⟨fun h => ?_, fun h => ?_⟩
      · simp only [contChar] at h
        obtain ⟨h1, _⟩ := ofSig_pair _ _ _ _ h
        subst h1; exact a1
      · simp only [contChar] at h
        obtain ⟨h1, h2⟩ := ofSig_cont _ _ _ _ h
        subst h1 h2
        have hcc : (transChar o m1 c).1.currentChar = c := by rw [transChar_currentChar, g5]
        rcases g0 with ⟨g1, g2, g3⟩ | ⟨g1, a, c0, g2, g3⟩
        · subst g2
          refine mu_dec_recon hcr g1 hst a2 a3 (fun hr' => ⟨by rw [hcc, g3], ?_⟩)
          have := transChar_base o m1 c g4 hr'
          rwa [f3] at this
        · exact mu_dec_consume hcr g1 a2 a3 (by rw [hst]; exact g2) (fun _ => by rw [hcc, g3])


/-! ### `pop_except_from` states -/

theorem kind_set (o : Opts) (m : Mach) (inp : Str) (hi : TI m)
    (hcr : m.charRef = none) (hrk : readKind m.state = .popExcept) (m' : Mach) (i' : Str) :
    ((contSet (popExceptFrom o (setOf m.state) m inp)).pair? = some (m', i') → TI m') ∧
    (contSet (popExceptFrom o (setOf m.state) m inp) = .cont m' i' → mu m' i' < mu m inp) := by
  have hne := not_eat_of_popExcept hrk
  have hst : m.tempBuf = [] := hi.nr hne
  cases hgc : popExceptFrom o (setOf m.state) m inp with
  | mk oc r =>
    obtain ⟨m1, i1⟩ := r
    cases oc with
    | none =>
      obtain ⟨_, _, g3⟩ := popExceptFrom_none o _ m m1 inp i1 hgc
      refine ⟨fun h => ?_, fun h => by simp [contSet] at h⟩
      simp only [contSet, R.pair?, Option.some.injEq, Prod.mk.injEq] at h
      obtain ⟨h1, _⟩ := h
      subst h1
      rcases g3 with ⟨_, g4⟩ | ⟨_, _, g4⟩ <;> subst g4
      · exact hi
      · exact hi.setIgnoreLf_false
    | some sr =>
      obtain ⟨f1, _, f3, f4⟩ := popExceptFrom_fields o _ m m1 inp i1 (some sr) hgc
      obtain ⟨hsh, g4, g6⟩ := popExceptFrom_shape o _ m m1 inp i1 sr hi.ri hgc
      have hcr1 : m1.charRef = none := by rw [f4, hcr]
      have hk1 : readKind m1.state = .popExcept := by rw [f3]; exact hrk
      have hr' : (transSet m1 sr).1.reconsume = false := by rw [transSet_reconsume, g4]
      have htb' : (transSet m1 sr).1.tempBuf = [] := by rw [transSet_tempBuf, f1, hst]
      have hne' := transSet_not_eat m1 sr hk1
      have hcase := (transSet_charRef m1 sr hcr1 hk1).2
      have hmain : TI (transSet m1 sr).1 ∧ mu (transSet m1 sr).1 i1 < mu m inp := by
        rcases hcase with hx | ⟨⟨a, hx⟩, _, _⟩
        · refine ⟨TI.of_plain hx htb' hr', ?_⟩
          rcases hsh with ⟨g1, g2, _⟩ | ⟨g1, a, c0, g2, _⟩
          · subst g2
            exact mu_dec_recon hcr g1 hst hx htb' (fun hr => by rw [hr'] at hr; cases hr)
          · exact mu_dec_consume hcr g1 hx htb' (by rw [hst]; exact g2) (fun hr => by rw [hr'] at hr; cases hr)
        · have hamp := transSet_amp m1 sr hcr1 (by rw [hx]; simp)
          refine ⟨⟨fun _ _ => htb', fun _ => htb', fun _ => hr', fun h => (by rw [hr'] at h; cases h), ?_⟩, ?_⟩
          · intro cr hc
            rw [hx] at hc
            simp only [Option.some.injEq] at hc
            subst hc
            exact ⟨by rw [transSet_ignoreLf]; exact g6 hamp, hr', CRT.fresh a⟩
          · rcases hsh with ⟨g1, g2, g3⟩ | ⟨g1, a', c0, g2, g3⟩
            · subst g2
              rw [hamp] at g3
              simp only [SetRes.fromSet.injEq] at g3
              exact mu_dec_amp_recon hcr g1 g3.symm hst hx rfl
            · have := g3 hamp
              subst this
              exact mu_dec_amp hcr g1 hx rfl (by rw [hst]; exact g2)
      refine ⟨fun h => ?_, fun h => ?_⟩
      · simp only [contSet] at h
        obtain ⟨h1, _⟩ := ofSig_pair _ _ _ _ h
        subst h1; exact hmain.1
      · simp only [contSet] at h
        obtain ⟨h1, h2⟩ := ofSig_cont _ _ _ _ h
        subst h1 h2; exact hmain.2


/-! ### the look-ahead states (`eat`) -/

theorem eatCmp_true_len (eq : Char → Char → Bool) (all pat : Str) (h : eatCmp eq all pat = some true) :
    pat.length ≤ all.length := by
  induction all generalizing pat with
  | nil =>
    cases pat with
    | nil => simp
    | cons p ps => simp [eatCmp] at h
  | cons a t ih =>
    cases pat with
    | nil => simp
    | cons p ps =>
      simp only [eatCmp] at h
      split at h
      · have := ih ps h; simp; omega
      · simp at h

/-- the `ignore_lf` prologue of `eat` drops at most a leading LF of stash ++ queue -/
theorem eatSkipLf_shape (o : Opts) (m : Mach) (inp : Str) (hr : m.reconsume = false) (hok : EatOk m) :
    (∃ a, m.tempBuf ++ inp = a ++ ((eatSkipLf o m inp).1.tempBuf ++ (eatSkipLf o m inp).2)) ∧
    (eatSkipLf o m inp).1.reconsume = false := by
  unfold eatSkipLf
  cases hil : m.ignoreLf with
  | false => exact ⟨⟨[], by simp⟩, by simpa using hr⟩
  | true =>
    have ht := hok hil
    cases inp with
    | nil => exact ⟨⟨[], by simp [peek, hr]⟩, by simp [peek, hr]⟩
    | cons c rest =>
      simp only [peek, hr, Bool.false_eq_true, ↓reduceIte, List.head?_cons]
      by_cases hc : c = '\n'
      · subst hc
        have hg : getChar o (m.setIgnoreLf false) ('\n' :: rest) =
            (some (foldChar o (m.setIgnoreLf false) '\n').1, (foldChar o (m.setIgnoreLf false) '\n').2, rest) := by
          unfold getChar
          simp only [setIgnoreLf_reconsume, hr, Bool.false_eq_true, ↓reduceIte]
          exact preprocess_plain o _ _ _ rfl
        simp only [↓reduceIte, hg]
        have hf := foldChar_fields o (m.setIgnoreLf false) '\n'
        exact ⟨⟨['\n'], by rw [hf.1]; simp [ht]⟩, by rw [hf.2.2.2.2]; simpa using hr⟩
      · exact ⟨⟨[], by simp [hc]⟩, by simp [hc, hr]⟩

/-- the facts carried from one `eat` to the next inside a look-ahead state -/
structure EatSt (m : Mach) : Prop where
  cr : m.charRef = none
  nrec : m.reconsume = false
  ok : EatOk m

/-- `eat` only ever removes a prefix of stash ++ queue (non-empty when the keyword matched), and
keeps the look-ahead discipline -/
theorem eat_stage (o : Opts) {m : Mach} (h0 : EatSt m) (inp pat : Str) (hne : pat ≠ [])
    (b : Option Bool) (m1 : Mach) (i1 : Str) (h : eat o m inp pat = (b, m1, i1)) :
    EatSt m1 ∧ m1.state = m.state ∧ (b ≠ none → m1.tempBuf = []) ∧
    ∃ a, m.tempBuf ++ inp = a ++ (m1.tempBuf ++ i1) ∧ (b = some true → a ≠ []) := by
  obtain ⟨f1, f2, _⟩ := eat_fields o m m1 inp i1 pat b h
  have hok1 : EatOk m1 := by
    cases b with
    | none => exact (eat_none o m m1 inp i1 pat h0.ok h).2.1
    | some bb => exact (eat_some_EatOk o m m1 inp i1 pat bb h).1
  have htb : b ≠ none → m1.tempBuf = [] := by
    intro hb
    cases b with
    | none => exact absurd rfl hb
    | some bb => exact (eat_some_tempBuf o m m1 inp i1 pat bb h).1
  rw [eat_eq_core] at h
  obtain ⟨⟨a0, ha0⟩, hr0⟩ := eatSkipLf_shape o m inp h0.nrec h0.ok
  generalize (eatSkipLf o m inp).1 = mi at *
  generalize (eatSkipLf o m inp).2 = ii at *
  have hrec1 : m1.reconsume = false ∧
      ∃ a, m.tempBuf ++ inp = a ++ (m1.tempBuf ++ i1) ∧ (b = some true → a ≠ []) := by
    unfold eatCore at h
    cases hc : eatCmp eqCi (mi.tempBuf ++ ii) pat with
    | none =>
      cases hae : mi.atEof with
      | true =>
        simp only [hc, hae, ↓reduceIte, Prod.mk.injEq] at h
        obtain ⟨hb, hm1, hi1⟩ := h
        subst hb hm1 hi1
        exact ⟨by simpa using hr0, a0, by simpa using ha0, by simp⟩
      | false =>
        simp only [hc, hae, Bool.false_eq_true, ↓reduceIte, Prod.mk.injEq] at h
        obtain ⟨hb, hm1, hi1⟩ := h
        subst hb hm1 hi1
        exact ⟨by simpa using hr0, a0, by simpa using ha0, by simp⟩
    | some bb =>
      cases bb with
      | false =>
        simp only [hc, Prod.mk.injEq] at h
        obtain ⟨hb, hm1, hi1⟩ := h
        subst hb hm1 hi1
        exact ⟨by simpa using hr0, a0, by simpa using ha0, by simp⟩
      | true =>
        simp only [hc, Prod.mk.injEq] at h
        obtain ⟨hb, hm1, hi1⟩ := h
        subst hb hm1 hi1
        have hlen := eatCmp_true_len eqCi _ pat hc
        refine ⟨by simpa using hr0, a0 ++ (mi.tempBuf ++ ii).take pat.length, ?_, fun _ => ?_⟩
        · rw [ha0]
          simp only [Mach.setTempBuf, List.nil_append, List.append_assoc]
          rw [List.take_append_drop]
        · intro hnil
          have h2 : ((mi.tempBuf ++ ii).take pat.length).length = 0 := by
            have := congrArg List.length hnil
            simp only [List.length_append, List.length_nil] at this
            omega
          rw [List.length_take] at h2
          have : 0 < pat.length := List.length_pos_iff.mpr hne
          omega
  exact ⟨⟨by rw [f2, h0.cr], hrec1.1, hok1⟩, f1, htb, hrec1.2⟩


theorem TI.of_eatSt {m : Mach} (h : EatSt m) (hs : isEatState m.state = true) : TI m :=
  ⟨fun _ => h.ok, fun hx => (by rw [hs] at hx; cases hx), fun _ => h.nrec,
    fun hx => (by rw [h.nrec] at hx; cases hx), fun cr hx => (by rw [h.cr] at hx; cases hx)⟩

theorem EatSt.of_ti {m : Mach} (hi : TI m) (hcr : m.charRef = none) (hs : isEatState m.state = true) : EatSt m :=
  ⟨hcr, hi.eatNoRecon hs, hi.eatOk hs⟩

/-- a terminal result of a look-ahead state -/
theorem eat_exit {m mm : Mach} {inp i a : Str} (h0 : EatSt m)
    (e1 : mm.charRef = none) (e2 : mm.tempBuf = []) (e3 : mm.reconsume = false)
    (hsp : m.tempBuf ++ inp = a ++ i) (h : a ≠ [] ∨ base mm.state < base m.state) :
    TI mm ∧ mu mm i < mu m inp :=
  ⟨TI.of_plain e1 e2 e3, mu_dec_plain h0.cr h0.nrec e1 e3 e2 hsp h⟩

theorem kind_md (o : Opts) (m : Mach) (inp : Str) (hi : TI m)
    (hcr : m.charRef = none) (hst : m.state = .markupDecl) (m' : Mach) (i' : Str) :
    ((stepMd o m inp).pair? = some (m', i') → TI m') ∧
    (stepMd o m inp = .cont m' i' → mu m' i' < mu m inp) := by
  have hes : isEatState m.state = true := by rw [hst]; rfl
  have h0 := EatSt.of_ti hi hcr hes
  have hb0 : base m.state = 2 := by rw [hst]; rfl
  obtain ⟨n1, n2, n3, _, _⟩ := kw_ne
  -- shape of every result
  have key : ∀ r, stepMd o m inp = r →
      (∀ m' i', r = .suspend m' i' → TI m') ∧ (∀ m' i', r = .cont m' i' → TI m' ∧ mu m' i' < mu m inp) := by
    intro r hr
    unfold stepMd at hr
    cases h1 : eat o m inp kwDashDash with
    | mk b1 r1 =>
      obtain ⟨m1, i1⟩ := r1
      obtain ⟨s1, st1, t1, a1, e1, p1⟩ := eat_stage o h0 inp _ n1 b1 m1 i1 h1
      rw [h1] at hr
      cases b1 with
      | none =>
        subst hr
        refine ⟨fun m' i' h => ?_, fun m' i' h => by simp at h⟩
        simp only [R.suspend.injEq] at h
        obtain ⟨x1, _⟩ := h; subst x1
        exact TI.of_eatSt s1 (by rw [st1]; exact hes)
      | some b1 =>
        have ht1 := t1 (by simp)
        rw [ht1, List.nil_append] at e1
        cases b1 with
        | true =>
          subst hr
          refine ⟨fun m' i' h => by simp at h, fun m' i' h => ?_⟩
          simp only [R.cont.injEq] at h
          obtain ⟨x1, x2⟩ := h; subst x1 x2
          exact eat_exit h0 (by simp [s1.cr]) (by simp [ht1]) (by simp [s1.nrec]) e1 (Or.inl (p1 rfl))
        | false =>
          simp only at hr
          cases h2 : eat o m1 i1 kwCdata with
          | mk b2 r2 =>
            obtain ⟨m2, i2⟩ := r2
            obtain ⟨s2, st2, t2, a2, e2, p2⟩ := eat_stage o s1 i1 _ n2 b2 m2 i2 h2
            rw [h2] at hr
            cases b2 with
            | none =>
              subst hr
              refine ⟨fun m' i' h => ?_, fun m' i' h => by simp at h⟩
              simp only [R.suspend.injEq] at h
              obtain ⟨x1, _⟩ := h; subst x1
              exact TI.of_eatSt s2 (by rw [st2, st1]; exact hes)
            | some b2 =>
              have ht2 := t2 (by simp)
              rw [ht1, ht2, List.nil_append, List.nil_append] at e2
              have e12 : m.tempBuf ++ inp = (a1 ++ a2) ++ i2 := by rw [e1, e2, List.append_assoc]
              cases b2 with
              | true =>
                subst hr
                refine ⟨fun m' i' h => by simp at h, fun m' i' h => ?_⟩
                simp only [R.cont.injEq] at h
                obtain ⟨x1, x2⟩ := h; subst x1 x2
                refine eat_exit h0 (by simp [s2.cr]) (by simp [ht2]) (by simp [s2.nrec]) e12 (Or.inl ?_)
                have := p2 rfl
                intro hx; exact this (List.append_eq_nil_iff.mp hx).2
              | false =>
                simp only at hr
                cases h3 : eat o m2 i2 kwDoctype with
                | mk b3 r3 =>
                  obtain ⟨m3, i3⟩ := r3
                  obtain ⟨s3, st3, t3, a3, e3, p3⟩ := eat_stage o s2 i2 _ n3 b3 m3 i3 h3
                  rw [h3] at hr
                  cases b3 with
                  | none =>
                    subst hr
                    refine ⟨fun m' i' h => ?_, fun m' i' h => by simp at h⟩
                    simp only [R.suspend.injEq] at h
                    obtain ⟨x1, _⟩ := h; subst x1
                    exact TI.of_eatSt s3 (by rw [st3, st2, st1]; exact hes)
                  | some b3 =>
                    have ht3 := t3 (by simp)
                    rw [ht2, ht3, List.nil_append, List.nil_append] at e3
                    have e123 : m.tempBuf ++ inp = (a1 ++ a2 ++ a3) ++ i3 := by
                      rw [e12, e3]; simp
                    cases b3 with
                    | true =>
                      subst hr
                      refine ⟨fun m' i' h => by simp at h, fun m' i' h => ?_⟩
                      simp only [R.cont.injEq] at h
                      obtain ⟨x1, x2⟩ := h; subst x1 x2
                      refine eat_exit h0 (by simp [s3.cr]) (by simp [ht3]) (by simp [s3.nrec]) e123 (Or.inl ?_)
                      have := p3 rfl
                      intro hx; exact this (List.append_eq_nil_iff.mp hx).2
                    | false =>
                      subst hr
                      refine ⟨fun m' i' h => by simp at h, fun m' i' h => ?_⟩
                      simp only [R.cont.injEq] at h
                      obtain ⟨x1, x2⟩ := h; subst x1 x2
                      exact eat_exit h0 (by simp [s3.cr]) (by simp [ht3]) (by simp [s3.nrec]) e123
                        (Or.inr (by rw [hb0]; simp [base]))
  obtain ⟨k1, k2⟩ := key _ rfl
  refine ⟨fun h => ?_, fun h => (k2 m' i' h).2⟩
  cases hr : stepMd o m inp with
  | cont mx ix =>
    rw [hr] at h
    simp only [R.pair?, Option.some.injEq, Prod.mk.injEq] at h
    obtain ⟨x1, x2⟩ := h; subst x1 x2
    exact (k2 _ _ hr).1
  | suspend mx ix =>
    rw [hr] at h
    simp only [R.pair?, Option.some.injEq, Prod.mk.injEq] at h
    obtain ⟨x1, x2⟩ := h; subst x1 x2
    exact k1 _ _ hr
  | panic e => rw [hr] at h; simp [R.pair?] at h


theorem kind_adn (o : Opts) (m : Mach) (inp : Str) (hi : TI m)
    (hcr : m.charRef = none) (hst : m.state = .afterDoctypeName) (m' : Mach) (i' : Str) :
    ((stepAdn o m inp).pair? = some (m', i') → TI m') ∧
    (stepAdn o m inp = .cont m' i' → mu m' i' < mu m inp) := by
  have hes : isEatState m.state = true := by rw [hst]; rfl
  have h0 := EatSt.of_ti hi hcr hes
  obtain ⟨_, _, _, n4, n5⟩ := kw_ne
  have key : ∀ r, stepAdn o m inp = r →
      (∀ m' i', r = .suspend m' i' → TI m') ∧ (∀ m' i', r = .cont m' i' → TI m' ∧ mu m' i' < mu m inp) := by
    intro r hr
    unfold stepAdn at hr
    cases h1 : eat o m inp kwPublic with
    | mk b1 r1 =>
      obtain ⟨m1, i1⟩ := r1
      obtain ⟨s1, st1, t1, a1, e1, p1⟩ := eat_stage o h0 inp _ n4 b1 m1 i1 h1
      rw [h1] at hr
      cases b1 with
      | none =>
        subst hr
        refine ⟨fun m' i' h => ?_, fun m' i' h => by simp at h⟩
        simp only [R.suspend.injEq] at h
        obtain ⟨x1, _⟩ := h; subst x1
        exact TI.of_eatSt s1 (by rw [st1]; exact hes)
      | some b1 =>
        have ht1 := t1 (by simp)
        rw [ht1, List.nil_append] at e1
        cases b1 with
        | true =>
          subst hr
          refine ⟨fun m' i' h => by simp at h, fun m' i' h => ?_⟩
          simp only [R.cont.injEq] at h
          obtain ⟨x1, x2⟩ := h; subst x1 x2
          exact eat_exit h0 (by simp [s1.cr]) (by simp [ht1]) (by simp [s1.nrec]) e1 (Or.inl (p1 rfl))
        | false =>
          simp only at hr
          cases h2 : eat o m1 i1 kwSystem with
          | mk b2 r2 =>
            obtain ⟨m2, i2⟩ := r2
            obtain ⟨s2, st2, t2, a2, e2, p2⟩ := eat_stage o s1 i1 _ n5 b2 m2 i2 h2
            rw [h2] at hr
            cases b2 with
            | none =>
              subst hr
              refine ⟨fun m' i' h => ?_, fun m' i' h => by simp at h⟩
              simp only [R.suspend.injEq] at h
              obtain ⟨x1, _⟩ := h; subst x1
              exact TI.of_eatSt s2 (by rw [st2, st1]; exact hes)
            | some b2 =>
              have ht2 := t2 (by simp)
              rw [ht1, ht2, List.nil_append, List.nil_append] at e2
              have e12 : m.tempBuf ++ inp = (a1 ++ a2) ++ i2 := by rw [e1, e2, List.append_assoc]
              cases b2 with
              | true =>
                subst hr
                refine ⟨fun m' i' h => by simp at h, fun m' i' h => ?_⟩
                simp only [R.cont.injEq] at h
                obtain ⟨x1, x2⟩ := h; subst x1 x2
                refine eat_exit h0 (by simp [s2.cr]) (by simp [ht2]) (by simp [s2.nrec]) e12 (Or.inl ?_)
                have := p2 rfl
                intro hx; exact this (List.append_eq_nil_iff.mp hx).2
              | false =>
                simp only at hr
                have hes2 : isEatState m2.state = true := by rw [st2, st1]; exact hes
                have hti2 := TI.of_eatSt s2 hes2
                cases hg : getChar o m2 i2 with
                | mk oc rr =>
                  obtain ⟨m3, i3⟩ := rr
                  rw [hg] at hr
                  cases oc with
                  | none =>
                    subst hr
                    obtain ⟨_, _, g3⟩ := getChar_none o m2 m3 i2 i3 hg
                    refine ⟨fun m' i' h => ?_, fun m' i' h => by simp at h⟩
                    simp only [R.suspend.injEq] at h
                    obtain ⟨x1, _⟩ := h; subst x1
                    rcases g3 with ⟨_, g4⟩ | ⟨_, _, g4⟩ <;> subst g4
                    · exact hti2
                    · exact hti2.setIgnoreLf_false
                  | some c =>
                    subst hr
                    obtain ⟨f1, _, f3, f4⟩ := getChar_fields o m2 m3 i2 i3 (some c) hg
                    obtain ⟨g0, g4, g5, g6⟩ := getChar_shape o m2 m3 i2 i3 c hti2.ri hg
                    obtain ⟨b1, b2, b3⟩ := afterChar_ti o m3 c (by rw [f4, s2.cr]) (by rw [f1, ht2]) g4 g5 g6
                    refine ⟨fun m' i' h => absurd h (ofSig_ne_suspend _ _ _ _), fun m' i' h => ?_⟩
                    obtain ⟨x1, x2⟩ := ofSig_cont _ _ _ _ h
                    subst x1 x2
                    refine ⟨b1, ?_⟩
                    have hcc : (transChar o m3 c).1.currentChar = c := by rw [transChar_currentChar, g5]
                    rcases g0 with ⟨g1, _⟩ | ⟨_, a, c0, g2, g3⟩
                    · rw [s2.nrec] at g1; cases g1
                    · exact mu_dec_consume (a := (a1 ++ a2) ++ a) (c0 := c0) h0.cr h0.nrec b2 b3
                        (by rw [e12, g2]; simp) (fun _ => by rw [hcc, g3])
  obtain ⟨k1, k2⟩ := key _ rfl
  refine ⟨fun h => ?_, fun h => (k2 m' i' h).2⟩
  cases hr : stepAdn o m inp with
  | cont mx ix =>
    rw [hr] at h
    simp only [R.pair?, Option.some.injEq, Prod.mk.injEq] at h
    obtain ⟨x1, x2⟩ := h; subst x1 x2
    exact (k2 _ _ hr).1
  | suspend mx ix =>
    rw [hr] at h
    simp only [R.pair?, Option.some.injEq, Prod.mk.injEq] at h
    obtain ⟨x1, x2⟩ := h; subst x1 x2
    exact k1 _ _ hr
  | panic e => rw [hr] at h; simp [R.pair?] at h


/-! ### the character-reference sub-tokenizer -/

theorem tripF_swap (b : Bool) (x s : Str) (c d : Char) (hc1 : c ≠ '&') (hc2 : runCh c = false)
    (hd1 : d ≠ '&') (hd2 : runCh d = false) : tripF b (x ++ c :: s) = tripF b (x ++ d :: s) := by
  induction x generalizing b with
  | nil => simp only [List.nil_append]; rw [tripF_cons_other _ _ _ hc1 hc2, tripF_cons_other _ _ _ hd1 hd2]
  | cons y ys ih =>
    simp only [List.cons_append]
    by_cases h1 : y = '&'
    · subst h1; rw [tripF_cons_amp, tripF_cons_amp]; exact ih true
    · cases h2 : runCh y with
      | true => rw [tripF_cons_run _ _ _ h2, tripF_cons_run _ _ _ h2, ih b]
      | false => rw [tripF_cons_other _ _ _ h1 h2, tripF_cons_other _ _ _ h1 h2]; exact ih false

/-- `unconsume` gives the text back (a folded CR as the CR it was): same length, same count -/
theorem unconsume_facts (m : Mach) (inp buf : Str) :
    (unconsume m inp buf).2.length = buf.length + inp.length ∧
    (∀ b, tripF b (unconsume m inp buf).2 = tripF b (buf ++ inp)) ∧
    (unconsume m inp buf).1.reconsume = m.reconsume := by
  unfold unconsume
  split
  · rename_i h
    simp only [Bool.and_eq_true, beq_iff_eq] at h
    obtain ⟨ys, hys⟩ := List.getLast?_eq_some_iff.mp h.2
    subst hys
    refine ⟨by simp; omega, fun b => ?_, by simp⟩
    simp only [List.dropLast_concat, List.append_assoc, List.singleton_append]
    exact tripF_swap b ys inp '\r' '\n' (by decide) (by decide) (by decide) (by decide)
  · exact ⟨by simp, fun _ => rfl, rfl⟩

theorem nameErr_reconsume (o : Opts) (m : Mach) (nb : Str) : (nameErr o m nb).reconsume = m.reconsume := by
  unfold nameErr; split <;> simp

theorem finishNumeric_reconsume (o : Opts) (m : Mach) (cr : CharRefSt) :
    (finishNumeric o m cr).1.reconsume = m.reconsume := by
  unfold finishNumeric
  dsimp only
  repeat' split
  all_goals simp

theorem namedDecision_reconsume (m : Mach) (cr : CharRefSt) (nb : Str) (c1 c2 : Nat) (m1 : Mach) (r : Option Str)
    (h : namedDecision m cr nb c1 c2 = .ok (m1, r)) : m1.reconsume = m.reconsume := by
  unfold namedDecision at h
  dsimp only at h
  repeat' split at h
  all_goals
    first
      | (simp at h; done)
      | (simp only [Except.ok.injEq, Prod.mk.injEq] at h
         obtain ⟨h1, _⟩ := h; subst h1
         simp)

theorem finishNumericStatus_shape (o : Opts) (m : Mach) (inp : Str) (cr : CharRefSt) :
    ∃ m1 c, finishNumericStatus o m inp cr = .ok (m1, inp, cr, .done [c]) ∧ m1.reconsume = m.reconsume := by
  obtain ⟨m1, c, h⟩ := finishNumericStatus_ok o m inp cr
  refine ⟨m1, c, h, ?_⟩
  have hr := finishNumeric_reconsume o m cr
  unfold finishNumericStatus at h
  split at h
  · rename_i mm cc heq
    simp only [Except.ok.injEq, Prod.mk.injEq] at h
    rw [← h.1]
    rw [heq] at hr; exact hr
  · cases h

theorem unconsumeName_shape (m : Mach) (inp : Str) (cr : CharRefSt) (nb : Str) (hnb : cr.nameBuf = some nb)
    (m1 : Mach) (i1 : Str) (cr1 : CharRefSt) (st : CRStatus)
    (h : unconsumeName m inp cr = .ok (m1, i1, cr1, st)) :
    st = .done [] ∧ i1.length = nb.length + inp.length ∧ tripF false i1 = tripF false (nb ++ inp) ∧
    m1.reconsume = m.reconsume := by
  unfold unconsumeName at h
  rw [hnb] at h
  simp only [Except.ok.injEq, Prod.mk.injEq] at h
  obtain ⟨e1, e2, _, e4⟩ := h
  obtain ⟨u1, u2, u3⟩ := unconsume_facts m inp nb
  subst e1 e2
  exact ⟨e4.symm, u1, u2 false, u3⟩

theorem finishNamed_shape (o : Opts) (m : Mach) (inp : Str) (cr : CharRefSt) (ec : Option Char) (nb : Str)
    (m1 : Mach) (i1 : Str) (cr1 : CharRefSt) (st : CRStatus) (hnb : cr.nameBuf = some nb)
    (h : finishNamed o m inp cr ec = .ok (m1, i1, cr1, st)) :
    m1.reconsume = m.reconsume ∧
    ((∃ chars k, st = .done chars ∧ i1.length = (nb.drop k).length + inp.length ∧
        tripF false i1 = tripF false (nb.drop k ++ inp)) ∨
     (st = .progress ∧ i1 = inp ∧ m1 = m ∧
        (cr1.state = .bogusName ∧ cr1.nameBuf = some nb ∧ cr1.hexMarker = cr.hexMarker) ∧
        ∃ c, ec = some c ∧ isAsciiAlnum c = true)) := by
  unfold finishNamed at h
  rw [hnb] at h
  dsimp only at h
  cases hm : cr.nameMatch with
  | none =>
    rw [hm] at h
    dsimp only at h
    cases ec with
    | none =>
      simp only [Bool.false_eq_true, ↓reduceIte] at h
      obtain ⟨e1, e2, e3, e4⟩ := unconsumeName_shape _ _ _ nb hnb _ _ _ _ h
      exact ⟨e4, Or.inl ⟨[], 0, e1, by simpa using e2, by simpa using e3⟩⟩
    | some c =>
      dsimp only at h
      by_cases hcb : isAsciiAlnum c = true
      · simp only [hcb, ↓reduceIte, Except.ok.injEq, Prod.mk.injEq] at h
        obtain ⟨e1, e2, e3, e4⟩ := h
        subst e1
        exact ⟨rfl, Or.inr ⟨e4.symm, e2.symm, rfl, by rw [← e3]; exact ⟨rfl, rfl, rfl⟩, c, rfl, hcb⟩⟩
      · simp only [hcb, Bool.false_eq_true, ↓reduceIte] at h
        obtain ⟨e1, e2, e3, e4⟩ := unconsumeName_shape _ _ _ nb hnb _ _ _ _ h
        refine ⟨?_, Or.inl ⟨[], 0, e1, by simpa using e2, by simpa using e3⟩⟩
        rw [e4]
        split
        · exact nameErr_reconsume o m nb
        · rfl
  | some mt =>
    obtain ⟨c1, c2⟩ := mt
    rw [hm] at h
    dsimp only at h
    cases hd : namedDecision m cr nb c1 c2 with
    | error e => rw [hd] at h; simp at h
    | ok r =>
      obtain ⟨mx, r⟩ := r
      have hrx := namedDecision_reconsume m cr nb c1 c2 mx r hd
      rw [hd] at h
      cases r with
      | none =>
        dsimp only at h
        obtain ⟨e1, e2, e3, e4⟩ := unconsumeName_shape _ _ _ nb hnb _ _ _ _ h
        exact ⟨by rw [e4, hrx], Or.inl ⟨[], 0, e1, by simpa using e2, by simpa using e3⟩⟩
      | some cs =>
        simp only [Except.ok.injEq, Prod.mk.injEq] at h
        obtain ⟨e1, e2, _, e4⟩ := h
        obtain ⟨u1, u2, u3⟩ := unconsume_facts mx inp (nb.drop cr.nameLen)
        subst e1 e2
        exact ⟨by rw [u3, hrx], Or.inl ⟨cs, cr.nameLen, e4.symm, u1, u2 false⟩⟩


theorem getChar_plain (o : Opts) (m : Mach) (c0 : Char) (rest : Str) (hr : m.reconsume = false)
    (hil : m.ignoreLf = false) :
    getChar o m (c0 :: rest) = (some (foldCh c0), (foldChar o m c0).2, rest) := by
  unfold getChar
  simp only [hr, Bool.false_eq_true, ↓reduceIte]
  rw [preprocess_plain o m c0 rest hil, (foldChar_more o m c0).1]

theorem discardChar_plain (o : Opts) (m : Mach) (c0 : Char) (rest : Str) (hr : m.reconsume = false)
    (hil : m.ignoreLf = false) : discardChar o m (c0 :: rest) = .ok ((foldChar o m c0).2, rest) := by
  unfold discardChar
  rw [getChar_plain o m c0 rest hr hil]

theorem foldChar_regs (o : Opts) (m : Mach) (c0 : Char) (hr : m.reconsume = false) (hil : m.ignoreLf = false) :
    (foldChar o m c0).2.reconsume = false ∧ (c0 ≠ '\r' → (foldChar o m c0).2.ignoreLf = false) := by
  refine ⟨by rw [(foldChar_fields o m c0).2.2.2.2, hr], fun hc => ?_⟩
  rw [(foldChar_more o m c0).2.2, hil]
  simp [hc]

/-- weight of a character reference in progress (without the constant 8) -/
def crW (cr : CharRefSt) (inp : Str) : Nat :=
  16 * (crStash cr + inp.length) + tripF (crFlag cr.state) inp + crRank cr.state

theorem mu_some' {m : Mach} {cr : CharRefSt} (h : m.charRef = some cr) (inp : Str) :
    mu m inp = crW cr inp + 8 := by
  rw [mu_some h]; unfold crW; omega

/-- one step of the sub-tokenizer: `Stuck` changes nothing (and the queue is empty), `Progress`
decreases the weight and keeps the registers' invariant, `Done` leaves no more than the weight in
the queue; no pending `reconsume` arises -/
def CRDec (cr : CharRefSt) (inp : Str) : CRRes → Prop
  | .error _ => True
  | .ok (m1, i1, cr1, st) =>
    m1.reconsume = false ∧
    match st with
    | .stuck => cr1 = cr ∧ i1 = [] ∧ m1.ignoreLf = false
    | .progress => CRT cr1 ∧ crW cr1 i1 < crW cr inp ∧ m1.ignoreLf = false
    | .done _ => 16 * i1.length + tripF false i1 ≤ crW cr inp

/-- text given back by `unconsume_name` / `finish_named` after `nb ++ [c]` was collected: it does not
count as travelling any more -/
theorem tripF_drop_back (nb : Str) (c : Char) (rest : Str) (k : Nat) (h : ∀ x ∈ nb, runCh x = true) :
    tripF false ((nb ++ [c]).drop k ++ rest) ≤ tripF true (c :: rest) := by
  by_cases hk : k ≤ nb.length
  · rw [List.drop_append_of_le_length hk, List.append_assoc, List.singleton_append,
      tripF_false_run _ _ (fun x hx => h x (List.mem_of_mem_drop hx))]
    exact tripF_le_true false _
  · have : (nb ++ [c]).drop k = [] := by
      apply List.drop_eq_nil_of_le; simp; omega
    rw [this, List.nil_append]
    exact tripF_suffix true [c] rest

theorem length_drop_back (nb : Str) (c : Char) (k : Nat) :
    ((nb ++ [c]).drop k).length ≤ nb.length + 1 := by
  simp only [List.length_drop, List.length_append, List.length_cons, List.length_nil]
  omega

theorem tripF_true_fold (c0 : Char) (rest : Str) : tripF true (foldCh c0 :: rest) ≤ tripF true (c0 :: rest) := by
  unfold foldCh
  split
  · rename_i h; subst h
    rw [tripF_cons_other _ _ _ (by decide) (by decide), tripF_cons_other _ _ _ (by decide) (by decide)]
    exact Nat.le_refl _
  · split
    · rename_i h; subst h
      rw [tripF_cons_other _ _ _ (by decide) (by decide), tripF_cons_other _ _ _ (by decide) (by decide)]
      exact Nat.le_refl _
    · exact Nat.le_refl _

theorem unconsumeNumeric_shape (m : Mach) (inp : Str) (cr : CharRefSt) (ht : CRT cr) :
    ∃ m1 i1, unconsumeNumeric m inp cr = .ok (m1, i1, cr, .done []) ∧ m1.reconsume = m.reconsume ∧
      i1.length = 1 + (if cr.hexMarker.isSome then 1 else 0) + inp.length ∧
      tripF false i1 = tripF false inp := by
  unfold unconsumeNumeric
  cases hh : cr.hexMarker with
  | none =>
    obtain ⟨u1, u2, u3⟩ := unconsume_facts m inp ['#']
    refine ⟨_, _, rfl, by simp only [emitErr_reconsume]; exact u3, by rw [u1]; simp <;> omega, ?_⟩
    rw [u2 false, List.singleton_append, tripF_false_cons _ _ (by decide)]
  | some y =>
    obtain ⟨u1, u2, u3⟩ := unconsume_facts m inp ['#', y]
    refine ⟨_, _, rfl, by simp only [emitErr_reconsume]; exact u3, by rw [u1]; simp <;> omega, ?_⟩
    rw [u2 false]
    simp only [List.cons_append, List.nil_append]
    rw [tripF_false_cons _ _ (by decide), tripF_false_cons _ _ (ht.hexOk y hh)]

theorem crStep_term (o : Opts) (m : Mach) (inp : Str) (cr : CharRefSt)
    (hr : m.reconsume = false) (hil : m.ignoreLf = false) (ht : CRT cr) :
    CRDec cr inp (crStep o m inp cr) := by
  unfold crStep
  cases inp with
  | nil =>
    have hg : getChar o m [] = (none, m, []) := by unfold getChar; simp [hr]
    cases hst : cr.state <;>
      simp only [peek, hr, Bool.false_eq_true, ↓reduceIte, List.head?_nil, hg] <;>
      exact ⟨hr, rfl, rfl, hil⟩
  | cons c rest =>
    have hd := discardChar_plain o m c rest hr hil
    have hgc := getChar_plain o m c rest hr hil
    obtain ⟨fr, fi⟩ := foldChar_regs o m c hr hil
    have hsuf : tripF false rest ≤ tripF false (c :: rest) := tripF_suffix false [c] rest
    cases hst : cr.state with
    | begin =>
      simp only [peek, hr, Bool.false_eq_true, ↓reduceIte, List.head?_cons]
      split
      · refine ⟨hr, ?_⟩
        show 16 * (c :: rest).length + tripF false (c :: rest) ≤ crW cr (c :: rest)
        have := tripF_le_true false (c :: rest)
        simp only [crW, crStash, crFlag, crRank, hst]
        omega
      · split
        · refine ⟨hr, ?_⟩
          show 16 * (c :: rest).length + tripF false (c :: rest) ≤ crW cr (c :: rest)
          have := tripF_le_true false (c :: rest)
          simp only [crW, crStash, crFlag, crRank, hst]
          omega
        · split
          · rename_i hh
            rw [hd]
            subst hh
            refine ⟨fr, ⟨ht.nbRun, ht.hexOk⟩, ?_, fi (by decide)⟩
            simp only [crW, crStash, crFlag, crRank, hst, tripF_true_hash, List.length_cons]
            omega
          · refine ⟨hr, ⟨by simp, ht.hexOk⟩, ?_, hil⟩
            simp [crW, crStash, crFlag, crRank, hst]
    | octothorpe =>
      simp only [peek, hr, Bool.false_eq_true, ↓reduceIte, List.head?_cons]
      split
      · rename_i hx
        rw [hd]
        have hcx : c ≠ '&' ∧ c ≠ '\r' := by
          simp only [Bool.or_eq_true, decide_eq_true_eq] at hx
          rcases hx with hx | hx <;> (subst hx; decide)
        refine ⟨fr, ⟨ht.nbRun, ?_⟩, ?_, fi hcx.2⟩
        · intro c' hc'; simp only [Option.some.injEq] at hc'; subst hc'; exact hcx.1
        · simp only [crW, crStash, crFlag, crRank, hst, List.length_cons, Option.isSome_some, ↓reduceIte]
          split <;> omega
      · refine ⟨hr, ⟨ht.nbRun, by simp⟩, ?_, hil⟩
        simp only [crW, crStash, crFlag, crRank, hst, Option.isSome_none, Bool.false_eq_true, ↓reduceIte]
        split <;> omega
    | numeric base =>
      simp only [peek, hr, Bool.false_eq_true, ↓reduceIte, List.head?_cons]
      cases htd : toDigit c base with
      | some n =>
        dsimp only
        rw [hd]
        have hcr : c ≠ '\r' := by intro hc; subst hc; simp [toDigit] at htd
        refine ⟨fr, ⟨ht.nbRun, ht.hexOk⟩, ?_, fi hcr⟩
        simp only [crW, crStash, crFlag, crRank, hst, List.length_cons, ↓reduceIte]
        split <;> omega
      | none =>
        dsimp only
        split
        · rename_i hsd
          have hsd' : cr.seenDigit = false := by simpa using hsd
          obtain ⟨m1, i1, hun, u3, u1, u2⟩ := unconsumeNumeric_shape m (c :: rest) cr ht
          rw [hun]
          refine ⟨by rw [u3, hr], ?_⟩
          show 16 * i1.length + tripF false i1 ≤ crW cr (c :: rest)
          rw [u1, u2]
          simp only [crW, crStash, crFlag, crRank, hst, hsd', Bool.false_eq_true, ↓reduceIte]
          omega
        · rename_i hsd
          have hsd' : cr.seenDigit = true := by simpa using hsd
          refine ⟨hr, ⟨ht.nbRun, ht.hexOk⟩, ?_, hil⟩
          simp [crW, crStash, crFlag, crRank, hst, hsd']
    | numericSemicolon =>
      simp only [peek, hr, Bool.false_eq_true, ↓reduceIte, List.head?_cons]
      have hw : crW cr (c :: rest) = 16 * (c :: rest).length + tripF false (c :: rest) := by
        simp [crW, crStash, crFlag, crRank, hst]
      split
      · rw [hd]
        dsimp only
        obtain ⟨m1, ch, hf, hrr⟩ := finishNumericStatus_shape o (foldChar o m c).2 rest cr
        rw [hf]
        refine ⟨by rw [hrr, fr], ?_⟩
        show 16 * rest.length + tripF false rest ≤ crW cr (c :: rest)
        rw [hw]; simp only [List.length_cons]; omega
      · obtain ⟨m1, ch, hf, hrr⟩ := finishNumericStatus_shape o
          (emitErr m "Semicolon missing after numeric character reference") (c :: rest) cr
        rw [hf]
        refine ⟨by rw [hrr]; simpa using hr, ?_⟩
        show 16 * (c :: rest).length + tripF false (c :: rest) ≤ crW cr (c :: rest)
        rw [hw]; exact Nat.le_refl _
    | named =>
      simp only [hgc]
      cases hnb : cr.nameBuf with
      | none => trivial
      | some nb =>
        dsimp only
        have hrun : ∀ x ∈ nb, runCh x = true := by simpa [hnb] using ht.nbRun
        have hw : crW cr (c :: rest) = 16 * (nb.length + (rest.length + 1)) + tripF true (c :: rest) + 1 := by
          simp [crW, crStash, crFlag, crRank, hst, hnb]
        -- the register after pushing a travelling character
        have push : ∀ (cr1 : CharRefSt), (cr1.state = .named ∨ cr1.state = .bogusName) →
            cr1.nameBuf = some (nb ++ [foldCh c]) → cr1.hexMarker = cr.hexMarker → runCh (foldCh c) = true →
            CRT cr1 ∧ crW cr1 rest < crW cr (c :: rest) ∧ (foldChar o m c).2.ignoreLf = false := by
          intro cr1 q1 q2 q3 q4
          have hfc := foldCh_runCh q4
          have hcr : c ≠ '\r' := by intro hc; subst hc; exact absurd q4 (by decide)
          refine ⟨⟨?_, by rw [q3]; exact ht.hexOk⟩, ?_, fi hcr⟩
          · rw [q2]
            intro x hx
            simp only [Option.getD_some] at hx
            rcases List.mem_append.mp hx with hx | hx
            · exact hrun x hx
            · simp only [List.mem_cons, List.not_mem_nil, or_false] at hx
              subst hx; exact q4
          · rw [hfc] at q4
            rw [hw, tripF_true_cons_run _ _ q4]
            rcases q1 with q1 | q1 <;> simp [crW, crStash, crFlag, crRank, q1, q2] <;> omega
        cases hlk : entityLookup (nb ++ [foldCh c]) with
        | some mt =>
          dsimp only
          have hcrun : runCh (foldCh c) = true := lookup_runCh _ _ hlk (foldCh c) (by simp)
          split
          · exact ⟨fr, push _ (Or.inl (by simp)) rfl rfl hcrun⟩
          · exact ⟨fr, push _ (Or.inl (by simp)) rfl rfl hcrun⟩
        | none =>
          dsimp only
          cases hfn : finishNamed o (foldChar o m c).2 rest
              { cr with state := .named, nameBuf := some (nb ++ [foldCh c]) } (some (foldCh c)) with
          | error e => trivial
          | ok v =>
            obtain ⟨m1, i1, cr1, st⟩ := v
            obtain ⟨hrr, hsh⟩ := finishNamed_shape o _ rest _ (some (foldCh c)) (nb ++ [foldCh c]) m1 i1 cr1 st rfl hfn
            rcases hsh with ⟨chars, k, e1, e2, e3⟩ | ⟨e1, e2, e2', e3, c', e4, e5⟩
            · subst e1
              refine ⟨by rw [hrr, fr], ?_⟩
              show 16 * i1.length + tripF false i1 ≤ crW cr (c :: rest)
              have h1 := tripF_drop_back nb (foldCh c) rest k hrun
              have h2 := length_drop_back nb (foldCh c) k
              have h3 := tripF_true_fold c rest
              rw [hw, e2, e3]; omega
            · subst e1 e2 e2'
              simp only [Option.some.injEq] at e4
              subst e4
              exact ⟨fr, push _ (Or.inr e3.1) e3.2.1 e3.2.2 (alnum_runCh e5)⟩
    | bogusName =>
      simp only [hgc]
      cases hnb : cr.nameBuf with
      | none => trivial
      | some nb =>
        dsimp only
        have hrun : ∀ x ∈ nb, runCh x = true := by simpa [hnb] using ht.nbRun
        have hw : crW cr (c :: rest) = 16 * (nb.length + (rest.length + 1)) + tripF true (c :: rest) + 1 := by
          simp [crW, crStash, crFlag, crRank, hst, hnb]
        split
        · rename_i hal
          have hcrun := alnum_runCh hal
          have hfc := foldCh_runCh hcrun
          have hcr : c ≠ '\r' := by intro hc; subst hc; exact absurd hcrun (by decide)
          refine ⟨fr, ⟨?_, ht.hexOk⟩, ?_, fi hcr⟩
          · intro x hx
            simp only [Option.getD_some] at hx
            rcases List.mem_append.mp hx with hx | hx
            · exact hrun x hx
            · simp only [List.mem_cons, List.not_mem_nil, or_false] at hx
              subst hx; exact hcrun
          · rw [hfc] at hcrun
            rw [hw, tripF_true_cons_run _ _ hcrun]
            simp [crW, crStash, crFlag, crRank]; omega
        · generalize hmx : (if foldCh c = ';' then nameErr o (foldChar o m c).2 (nb ++ [foldCh c])
              else (foldChar o m c).2) = mx
          have hmxr : mx.reconsume = false := by
            rw [← hmx]; split
            · rw [nameErr_reconsume, fr]
            · exact fr
          cases hun : unconsumeName mx rest { cr with state := .bogusName, nameBuf := some (nb ++ [foldCh c]) } with
          | error e => trivial
          | ok v =>
            obtain ⟨m1, i1, cr1, st⟩ := v
            obtain ⟨e1, e2, e3, e4⟩ := unconsumeName_shape mx rest _ (nb ++ [foldCh c]) rfl m1 i1 cr1 st hun
            subst e1
            refine ⟨by rw [e4, hmxr], ?_⟩
            show 16 * i1.length + tripF false i1 ≤ crW cr (c :: rest)
            have h1 := tripF_drop_back nb (foldCh c) rest 0 hrun
            have h3 := tripF_true_fold c rest
            simp only [List.drop_zero] at h1
            rw [hw, e2, e3]
            simp only [List.length_append, List.length_cons, List.length_nil]
            omega


/-! ### the step-level decrease and the preservation of the invariant -/

theorem crStateOk_facts {s : State} (h : crStateOk s) : isEatState s = false ∧ base s = 0 := by
  rcases h with h | ⟨k, h⟩ <;> subst h <;> simp [base, isEatState]

theorem foldl_emitChar_reconsume (chars : Str) (m : Mach) :
    (chars.foldl emitChar m).reconsume = m.reconsume := by
  induction chars generalizing m with
  | nil => rfl
  | cons c cs ih => rw [List.foldl_cons, ih]; simp

theorem foldl_pushValue_reconsume (chars : Str) (m : Mach) :
    (chars.foldl (fun m c => pushValue c m) m).reconsume = m.reconsume := by
  induction chars generalizing m with
  | nil => rfl
  | cons c cs ih => rw [List.foldl_cons, ih]; simp

theorem processCharRef_reconsume (m : Mach) (chars : Str) :
    (processCharRef m chars).1.reconsume = m.reconsume := by
  unfold processCharRef
  dsimp only
  split
  · exact foldl_emitChar_reconsume _ _
  · exact foldl_emitChar_reconsume _ _
  · exact foldl_pushValue_reconsume _ _
  · rfl

theorem TI.of_cr {m : Mach} (hne : isEatState m.state = false) (htb : m.tempBuf = []) (hrec : m.reconsume = false)
    (hcr : ∀ cr, m.charRef = some cr → m.ignoreLf = false ∧ CRT cr) : TI m :=
  ⟨fun h => (by rw [hne] at h; cases h), fun _ => htb, fun _ => hrec, fun h => (by rw [hrec] at h; cases h),
    fun cr h => ⟨(hcr cr h).1, hrec, (hcr cr h).2⟩⟩

theorem kind_charRef (o : Opts) (m : Mach) (inp : Str) (cr : CharRefSt) (hi : TInv m)
    (hcr : m.charRef = some cr) (m' : Mach) (i' : Str) :
    ((stepCharRef o m inp cr).pair? = some (m', i') → TI m') ∧
    (stepCharRef o m inp cr = .cont m' i' → mu m' i' < mu m inp) := by
  obtain ⟨c1, c2, c3⟩ := hi.ti.cr cr hcr
  obtain ⟨hne, hb0⟩ := crStateOk_facts (hi.safe.crState cr hcr)
  have htb := hi.ti.nr hne
  have hdec := crStep_term o m inp cr c2 c1 c3
  have hpres := crStep_pres o m inp cr
  unfold stepCharRef
  cases hc : crStep o m inp cr with
  | error x => exact ⟨fun h => by simp [R.pair?] at h, fun h => by simp at h⟩
  | ok v =>
    obtain ⟨m1, i1, cr1, st⟩ := v
    rw [hc] at hdec hpres
    obtain ⟨p1, _, p3⟩ : Pres m1 m := hpres
    obtain ⟨hrec1, hdec⟩ := hdec
    cases st with
    | stuck =>
      obtain ⟨d1, _, d3⟩ : cr1 = cr ∧ i1 = [] ∧ m1.ignoreLf = false := hdec
      refine ⟨fun h => ?_, fun h => by simp at h⟩
      simp only [R.pair?, Option.some.injEq, Prod.mk.injEq] at h
      obtain ⟨h1, _⟩ := h
      subst h1
      refine TI.of_cr (by simp [p3, hne]) (by simp [p1, htb]) (by simpa using hrec1) (fun cr' hcr' => ?_)
      simp only [setCharRef_charRef, Option.some.injEq] at hcr'
      subst hcr'
      exact ⟨by simpa using d3, by rw [d1]; exact c3⟩
    | progress =>
      obtain ⟨d1, d2, d3⟩ : CRT cr1 ∧ crW cr1 i1 < crW cr inp ∧ m1.ignoreLf = false := hdec
      refine ⟨fun h => ?_, fun h => ?_⟩
      · simp only [R.pair?, Option.some.injEq, Prod.mk.injEq] at h
        obtain ⟨h1, _⟩ := h
        subst h1
        refine TI.of_cr (by simp [p3, hne]) (by simp [p1, htb]) (by simpa using hrec1) (fun cr' hcr' => ?_)
        simp only [setCharRef_charRef, Option.some.injEq] at hcr'
        subst hcr'
        exact ⟨by simpa using d3, d1⟩
      · simp only [R.cont.injEq] at h
        obtain ⟨h1, h2⟩ := h
        subst h1 h2
        rw [mu_some' hcr, mu_some' (m := m1.setCharRef (some cr1)) (cr := cr1) (by simp)]
        omega
    | done chars =>
      have hd : 16 * i1.length + tripF false i1 ≤ crW cr inp := hdec
      obtain ⟨q1, _, q3⟩ := processCharRef_pres m1 chars
      have hcn : ((processCharRef m1 chars).1.setCharRef none).charRef = none := by simp
      have hst : ((processCharRef m1 chars).1.setCharRef none).state = m.state := by simp [q3, p3]
      have hrec : ((processCharRef m1 chars).1.setCharRef none).reconsume = false := by
        simp only [setCharRef_reconsume, processCharRef_reconsume, hrec1]
      have htb' : ((processCharRef m1 chars).1.setCharRef none).tempBuf = [] := by simp [q1, p1, htb]
      refine ⟨fun h => ?_, fun h => ?_⟩
      · obtain ⟨h1, _⟩ := ofSig_pair _ _ _ _ h
        subst h1
        exact TI.of_plain hcn htb' hrec
      · obtain ⟨h1, h2⟩ := ofSig_cont _ _ _ _ h
        subst h1 h2
        rw [mu_some' hcr, mu_none hcn, rc_false hrec, hrec, hst, hb0, htb']
        simp only [List.nil_append, List.length_nil, Bool.false_eq_true, ↓reduceIte]
        omega

/-- **the invariant is preserved by every step** (whatever the step answers) -/
theorem step_tinv (o : Opts) (m : Mach) (inp : Str) (hi : TInv m) (m' : Mach) (i' : Str)
    (h : (step o m inp).pair? = some (m', i')) : TInv m' := by
  refine ⟨(step_safe o m inp hi.safe).2 m' (pair_mach _ _ _ h), ?_⟩
  cases hcr : m.charRef with
  | some cr =>
    rw [step_kind_charRef o m inp cr hcr] at h
    exact (kind_charRef o m inp cr hi hcr m' i').1 h
  | none =>
    cases hrk : readKind m.state with
    | getChar =>
      rw [step_getChar o m inp hcr hrk] at h
      exact (kind_getChar o m inp hi.ti hcr hrk m' i').1 h
    | popExcept =>
      rw [step_popExcept o m inp hcr hrk] at h
      exact (kind_set o m inp hi.ti hcr hrk m' i').1 h
    | eatMd =>
      rw [step_kind_md o m inp hcr hrk] at h
      exact (kind_md o m inp hi.ti hcr (readKind_md hrk) m' i').1 h
    | eatAdn =>
      rw [step_kind_adn o m inp hcr hrk] at h
      exact (kind_adn o m inp hi.ti hcr (readKind_adn hrk) m' i').1 h

/-- **every `Continue` step strictly decreases the measure** -/
theorem step_dec (o : Opts) (m : Mach) (inp : Str) (hi : TInv m) (m' : Mach) (i' : Str)
    (h : step o m inp = .cont m' i') : mu m' i' < mu m inp := by
  cases hcr : m.charRef with
  | some cr =>
    rw [step_kind_charRef o m inp cr hcr] at h
    exact (kind_charRef o m inp cr hi hcr m' i').2 h
  | none =>
    cases hrk : readKind m.state with
    | getChar =>
      rw [step_getChar o m inp hcr hrk] at h
      exact (kind_getChar o m inp hi.ti hcr hrk m' i').2 h
    | popExcept =>
      rw [step_popExcept o m inp hcr hrk] at h
      exact (kind_set o m inp hi.ti hcr hrk m' i').2 h
    | eatMd =>
      rw [step_kind_md o m inp hcr hrk] at h
      exact (kind_md o m inp hi.ti hcr (readKind_md hrk) m' i').2 h
    | eatAdn =>
      rw [step_kind_adn o m inp hcr hrk] at h
      exact (kind_adn o m inp hi.ti hcr (readKind_adn hrk) m' i').2 h


/-! ### whole runs -/

/-- **`run` never runs out of fuel** when it is given more than the measure -/
theorem run_terminates (o : Opts) (fuel : Nat) (m : Mach) (inp : Str) (hi : TInv m)
    (hf : mu m inp < fuel) : run o fuel m inp ≠ .outOfFuel := by
  induction fuel generalizing m inp with
  | zero => omega
  | succ n ih =>
    unfold run
    cases hs : step o m inp with
    | cont m1 i1 =>
      simp only
      have hd := step_dec o m inp hi m1 i1 hs
      exact ih m1 i1 (step_tinv o m inp hi m1 i1 (by rw [hs]; rfl)) (by omega)
    | suspend m1 i1 => simp
    | panic e => simp

/-- **fuel irrelevance**: more fuel than needed changes nothing -/
theorem run_fuel_mono (o : Opts) (n k : Nat) (m : Mach) (inp : Str)
    (h : run o n m inp ≠ .outOfFuel) (hk : n ≤ k) : run o k m inp = run o n m inp := by
  induction n generalizing k m inp with
  | zero => exact absurd rfl h
  | succ n ih =>
    cases k with
    | zero => omega
    | succ k =>
      unfold run at h ⊢
      cases hs : step o m inp with
      | cont m1 i1 =>
        rw [hs] at h
        exact ih k m1 i1 h (by omega)
      | suspend m1 i1 => rfl
      | panic e => rfl

/-- the invariant holds wherever a run stops -/
theorem run_tinv (o : Opts) (fuel : Nat) (m : Mach) (inp : Str) (hi : TInv m)
    (m' : Mach) (i' : Str) (h : run o fuel m inp = .done m' i') : TInv m' := by
  induction fuel generalizing m inp with
  | zero => simp [run] at h
  | succ n ih =>
    unfold run at h
    cases hs : step o m inp with
    | cont m1 i1 =>
      rw [hs] at h
      exact ih m1 i1 (step_tinv o m inp hi m1 i1 (by rw [hs]; rfl)) h
    | suspend m1 i1 =>
      rw [hs] at h
      simp only [RunRes.done.injEq] at h
      obtain ⟨e1, e2⟩ := h; subst e1 e2
      exact step_tinv o m inp hi m1 i1 (by rw [hs]; rfl)
    | panic e => rw [hs] at h; simp at h

theorem runsTo_tinv (o : Opts) {m : Mach} {inp : Str} {m' : Mach}
    (hrun : RunsTo o m inp m') : TInv m → TInv m' := by
  induction hrun with
  | @susp m0 i0 m0' hs => intro hi; exact step_tinv o m0 i0 hi m0' [] (by rw [hs]; rfl)
  | @cont m0 i0 mx ix m0' hs _ ih => intro hi; exact ih (step_tinv o m0 i0 hi mx ix (by rw [hs]; rfl))

/-! ### the invariant on fresh machines and under the setters of `feed` / `end` -/

theorem tinv_fresh (m : Mach) (h1 : m.tempBuf = []) (h2 : m.reconsume = false) (h3 : m.charRef = none) :
    TInv m := ⟨Safe.of_none h3, TI.of_plain h3 h1 h2⟩

theorem TInv.congr {m m' : Mach} (hi : TInv m) (h1 : m'.state = m.state) (h2 : m'.charRef = m.charRef)
    (h3 : m'.tempBuf = m.tempBuf) (h4 : m'.reconsume = m.reconsume) (h5 : m'.ignoreLf = m.ignoreLf)
    (h6 : m'.currentChar = m.currentChar) : TInv m' :=
  ⟨⟨fun cr h => by rw [h1]; exact hi.safe.crState cr (by rw [← h2]; exact h),
    fun cr h => hi.safe.crRegs cr (by rw [← h2]; exact h)⟩, hi.ti.congr h1 h2 h3 h4 h5 h6⟩

theorem TInv.setAtEof {m : Mach} (hi : TInv m) (b : Bool) : TInv (m.setAtEof b) :=
  hi.congr (by simp) (by simp) (by simp) (by simp) (by simp) (by simp)

theorem TInv.setDiscardBom {m : Mach} (hi : TInv m) (b : Bool) : TInv (m.setDiscardBom b) :=
  hi.congr (by simp) (by simp) (by simp) (by simp) (by simp) (by simp)

theorem feedBom_tinv (m : Mach) (inp : Str) (hi : TInv m) : TInv (feedBom m inp).1 := by
  unfold feedBom
  cases inp with
  | nil => exact hi
  | cons c rest =>
    dsimp only
    split
    · exact hi.setDiscardBom false
    · exact hi

/-- **`feed` never runs out of the fuel it hands to `run`** -/
theorem feed_terminates (o : Opts) (m : Mach) (inp chunk : Str) (hi : TInv m) :
    feed o m inp chunk ≠ .outOfFuel := by
  unfold feed
  dsimp only
  split
  · simp
  · exact run_terminates o _ _ _ (feedBom_tinv m _ hi) (mu_lt_fuelFor _ _)

/-- wherever `feed` stops the invariant holds again: the next `feed` terminates, too -/
theorem feed_tinv (o : Opts) (m : Mach) (inp chunk : Str) (hi : TInv m)
    (m' : Mach) (i' : Str) (h : feed o m inp chunk = .done m' i') : TInv m' := by
  unfold feed at h
  dsimp only at h
  split at h
  · simp only [RunRes.done.injEq] at h
    rw [← h.1]; exact hi
  · exact run_tinv o _ _ _ (feedBom_tinv m _ hi) m' i' h

/-! ### a step that asks for more input has drained the queue (also at EOF) -/

theorem eat_none_nil (o : Opts) (m m1 : Mach) (inp i1 pat : Str)
    (h : eat o m inp pat = (none, m1, i1)) : i1 = [] := by
  rw [eat_eq_core] at h
  unfold eatCore at h
  repeat' split at h
  all_goals simp_all

theorem stepMd_suspend_nil (o : Opts) (m : Mach) (inp : Str) (m' : Mach) (i' : Str)
    (h : stepMd o m inp = .suspend m' i') : i' = [] := by
  unfold stepMd at h
  cases h1 : eat o m inp kwDashDash with
  | mk b1 r1 =>
    obtain ⟨m1, i1⟩ := r1
    rw [h1] at h
    cases b1 with
    | none => simp only [R.suspend.injEq] at h; rw [← h.2]; exact eat_none_nil _ _ _ _ _ _ h1
    | some b1 =>
      cases b1 with
      | true => simp at h
      | false =>
        simp only at h
        cases h2 : eat o m1 i1 kwCdata with
        | mk b2 r2 =>
          obtain ⟨m2, i2⟩ := r2
          rw [h2] at h
          cases b2 with
          | none => simp only [R.suspend.injEq] at h; rw [← h.2]; exact eat_none_nil _ _ _ _ _ _ h2
          | some b2 =>
            cases b2 with
            | true => simp at h
            | false =>
              simp only at h
              cases h3 : eat o m2 i2 kwDoctype with
              | mk b3 r3 =>
                obtain ⟨m3, i3⟩ := r3
                rw [h3] at h
                cases b3 with
                | none => simp only [R.suspend.injEq] at h; rw [← h.2]; exact eat_none_nil _ _ _ _ _ _ h3
                | some b3 => cases b3 <;> simp at h

theorem stepAdn_suspend_nil (o : Opts) (m : Mach) (inp : Str) (m' : Mach) (i' : Str)
    (h : stepAdn o m inp = .suspend m' i') : i' = [] := by
  unfold stepAdn at h
  cases h1 : eat o m inp kwPublic with
  | mk b1 r1 =>
    obtain ⟨m1, i1⟩ := r1
    rw [h1] at h
    cases b1 with
    | none => simp only [R.suspend.injEq] at h; rw [← h.2]; exact eat_none_nil _ _ _ _ _ _ h1
    | some b1 =>
      cases b1 with
      | true => simp at h
      | false =>
        simp only at h
        cases h2 : eat o m1 i1 kwSystem with
        | mk b2 r2 =>
          obtain ⟨m2, i2⟩ := r2
          rw [h2] at h
          cases b2 with
          | none => simp only [R.suspend.injEq] at h; rw [← h.2]; exact eat_none_nil _ _ _ _ _ _ h2
          | some b2 =>
            cases b2 with
            | true => simp at h
            | false =>
              simp only at h
              cases hg : getChar o m2 i2 with
              | mk oc r =>
                obtain ⟨m3, i3⟩ := r
                rw [hg] at h
                cases oc with
                | none =>
                  simp only [R.suspend.injEq] at h
                  rw [← h.2]; exact (getChar_none o m2 m3 i2 i3 hg).1
                | some c => exact absurd h (ofSig_ne_suspend _ _ _ _)

/-- **a step that asks for more input has consumed all there was** (no `at_eof` hypothesis: also
inside `XmlTokenizer::end`) -/
theorem step_suspend_nil (o : Opts) (m : Mach) (inp : Str) (hi : TInv m) (m' : Mach) (i' : Str)
    (h : step o m inp = .suspend m' i') : i' = [] := by
  cases hcr : m.charRef with
  | some cr =>
    rw [step_kind_charRef o m inp cr hcr] at h
    obtain ⟨c1, c2, c3⟩ := hi.ti.cr cr hcr
    have hdec := crStep_term o m inp cr c2 c1 c3
    unfold stepCharRef at h
    cases hc : crStep o m inp cr with
    | error x => rw [hc] at h; simp at h
    | ok v =>
      obtain ⟨m1, i1, cr1, st⟩ := v
      rw [hc] at h hdec
      cases st with
      | stuck =>
        simp only [R.suspend.injEq] at h
        rw [← h.2]
        have : m1.reconsume = false ∧ cr1 = cr ∧ i1 = [] ∧ m1.ignoreLf = false := hdec
        exact this.2.2.1
      | progress => simp at h
      | done chars => exact absurd h (ofSig_ne_suspend _ _ _ _)
  | none =>
    cases hrk : readKind m.state with
    | getChar =>
      rw [step_getChar o m inp hcr hrk] at h
      cases hgc : getChar o m inp with
      | mk oc r =>
        obtain ⟨m1, i1⟩ := r
        rw [hgc] at h
        cases oc with
        | none =>
          simp only [contChar, R.suspend.injEq] at h
          rw [← h.2]; exact (getChar_none o m m1 inp i1 hgc).1
        | some c => exact absurd h (ofSig_ne_suspend _ _ _ _)
    | popExcept =>
      rw [step_popExcept o m inp hcr hrk] at h
      cases hgc : popExceptFrom o (setOf m.state) m inp with
      | mk oc r =>
        obtain ⟨m1, i1⟩ := r
        rw [hgc] at h
        cases oc with
        | none =>
          simp only [contSet, R.suspend.injEq] at h
          rw [← h.2]; exact (popExceptFrom_none o _ m m1 inp i1 hgc).1
        | some c => exact absurd h (ofSig_ne_suspend _ _ _ _)
    | eatMd =>
      rw [step_kind_md o m inp hcr hrk] at h
      exact stepMd_suspend_nil o m inp m' i' h
    | eatAdn =>
      rw [step_kind_adn o m inp hcr hrk] at h
      exact stepAdn_suspend_nil o m inp m' i' h

theorem run_done_nil (o : Opts) (fuel : Nat) (m : Mach) (inp : Str) (hi : TInv m)
    (m' : Mach) (i' : Str) (h : run o fuel m inp = .done m' i') : i' = [] := by
  induction fuel generalizing m inp with
  | zero => simp [run] at h
  | succ n ih =>
    unfold run at h
    cases hs : step o m inp with
    | cont m1 i1 =>
      rw [hs] at h
      exact ih m1 i1 (step_tinv o m inp hi m1 i1 (by rw [hs]; rfl)) h
    | suspend m1 i1 =>
      rw [hs] at h
      simp only [RunRes.done.injEq] at h
      rw [← h.2]; exact step_suspend_nil o m inp hi m1 i1 hs
    | panic e => rw [hs] at h; simp at h


/-! ### `XmlTokenizer::end` -/

/-- the first round of the sub-tokenizer's `end_of_file` does not raise a pending `reconsume` -/
theorem crEofOnce_reconsume (o : Opts) (m : Mach) (inp : Str) (cr : CharRefSt) (ht : CRT cr)
    (m1 : Mach) (i1 : Str) (cr1 : CharRefSt) (st : CRStatus)
    (h : crEofOnce o m inp cr = .ok (m1, i1, cr1, st)) : m1.reconsume = m.reconsume := by
  unfold crEofOnce at h
  cases hst : cr.state with
  | begin =>
    simp only [hst, Except.ok.injEq, Prod.mk.injEq] at h
    rw [← h.1]
  | octothorpe =>
    simp only [hst, Except.ok.injEq, Prod.mk.injEq] at h
    rw [← h.1]
    simp only [emitErr_reconsume]
    exact (unconsume_facts m inp ['#']).2.2
  | numeric base =>
    simp only [hst] at h
    split at h
    · obtain ⟨m2, i2, hun, u3, _, _⟩ := unconsumeNumeric_shape m inp cr ht
      rw [hun] at h
      simp only [Except.ok.injEq, Prod.mk.injEq] at h
      rw [← h.1, u3]
    · obtain ⟨m2, c, hf, hrr⟩ := finishNumericStatus_shape o
        (emitErr m "EOF in numeric character reference") inp cr
      rw [hf] at h
      simp only [Except.ok.injEq, Prod.mk.injEq] at h
      rw [← h.1, hrr]; simp
  | numericSemicolon =>
    simp only [hst] at h
    obtain ⟨m2, c, hf, hrr⟩ := finishNumericStatus_shape o
      (emitErr m "EOF in numeric character reference") inp cr
    rw [hf] at h
    simp only [Except.ok.injEq, Prod.mk.injEq] at h
    rw [← h.1, hrr]; simp
  | named =>
    simp only [hst] at h
    cases hnb : cr.nameBuf with
    | none => unfold finishNamed at h; simp [hnb] at h
    | some nb => exact (finishNamed_shape o m inp cr none nb m1 i1 cr1 st hnb h).1
  | bogusName =>
    simp only [hst] at h
    cases hnb : cr.nameBuf with
    | none => unfold unconsumeName at h; simp [hnb] at h
    | some nb => exact (unconsumeName_shape m inp cr nb hnb m1 i1 cr1 st h).2.2.2

/-- the machine `end()` continues with after handing back an unfinished character reference
satisfies the invariant again -/
theorem finishPre_tinv (o : Opts) (m : Mach) (hi : TInv m) :
    ∃ m1 i1, finishPre o m = .ok (m1, i1) ∧ TInv m1 := by
  cases hcr : m.charRef with
  | none => exact ⟨m, [], by unfold finishPre; rw [hcr], hi⟩
  | some cr =>
    obtain ⟨c1, c2, c3⟩ := hi.ti.cr cr hcr
    obtain ⟨hne, _⟩ := crStateOk_facts (hi.safe.crState cr hcr)
    have htb := hi.ti.nr hne
    obtain ⟨mx, ix, crx, chars, hon, hp⟩ := crEofOnce_ok o m [] cr (hi.safe.crRegs cr hcr)
    have hrx := crEofOnce_reconsume o m [] cr c3 mx ix crx _ hon
    have hce : crEof o m [] cr = .ok (mx, ix, chars) := by rw [crEof_eq, hon]
    have hst : crStateOk (mx.setCharRef none).state := by
      rw [setCharRef_state, hp.2.2]; exact hi.safe.crState cr hcr
    have hnp := processCharRef_no_panic (mx.setCharRef none) chars hst
    have hc := processCharRef_charRef (mx.setCharRef none) chars
    have hrr := processCharRef_reconsume (mx.setCharRef none) chars
    obtain ⟨q1, _, q3⟩ := processCharRef_pres (mx.setCharRef none) chars
    unfold finishPre
    simp only [hcr, hce]
    cases hpc : processCharRef (mx.setCharRef none) chars with
    | mk m2 sig =>
      rw [hpc] at hnp hc hrr q1 q3
      cases sig with
      | panic e => exact absurd rfl (hnp e)
      | cont =>
        simp only at hc hrr q1 q3 ⊢
        have hc2 : m2.charRef = none := by simpa using hc
        refine ⟨m2, ix, rfl, Safe.of_none hc2, TI.of_plain hc2 ?_ ?_⟩
        · rw [q1]; simp only [setCharRef_tempBuf]; rw [hp.1, htb]
        · rw [hrr]; simp only [setCharRef_reconsume]; rw [hrx, c2]

/-- **`XmlTokenizer::end` neither panics nor hangs**: it always completes, delivering EOF last -/
theorem finish_total (o : Opts) (m : Mach) (hi : TInv m) :
    ∃ mf, finish o m = .ok mf ∧ ∃ rest, mf.out = Token.eof :: rest := by
  obtain ⟨m1, i1, hpre, hi1⟩ := finishPre_tinv o m hi
  have hi' := hi1.setAtEof true
  have hfin : ∃ mf, finish o m = .ok mf := by
    rw [finish_eq, hpre]
    simp only
    cases hrun : run o (fuelFor (m1.setAtEof true) i1) (m1.setAtEof true) i1 with
    | done m4 i4 => exact eofLoop_ok o 8 m4 (by have := eofRank_le m4.state; omega)
    | panic e => exact absurd hrun ((run_safe o _ _ _ hi'.safe).1 e)
    | outOfFuel => exact absurd hrun (run_terminates o _ _ _ hi' (mu_lt_fuelFor _ _))
  obtain ⟨mf, h⟩ := hfin
  exact ⟨mf, h, finish_eof_last o m mf h⟩

end H5V.Model.XmlTok
