import H5V.Lemmas.HtmlTokSpecCRNamed1
/-!
# C01 simulation — named character references (layer L3b), part 2: closed forms of the two sides
(the specification's named character reference state, the model's `finish_named` /
`process_char_ref`) and the register part of the relation after a finished reference
-/
set_option linter.unusedSimpArgs false
namespace H5V.Lemmas.HtmlTokSpec
open H5V.Model.HtmlTok
open H5V.Spec.HtmlTokenizer (St Tok Emit Tree Switch Ctl ReturnSt normalizeNewlinesFrom normalizeNewlines)
open H5V.Props.C14

/-! ## small facts -/

theorem crn_brk_ne {c : Char} (h : isBrk c = false) : c ≠ '\r' ∧ c ≠ '\n' := by
  simp only [isBrk, Bool.or_eq_false_iff, decide_eq_false_iff_not] at h
  exact ⟨h.2, h.1⟩

theorem crn_norm_plain (a s : Str) (h : ∀ c ∈ a, isBrk c = false) :
    normalizeNewlinesFrom false (a ++ s) = a ++ normalizeNewlinesFrom false s := by
  induction a with
  | nil => rfl
  | cons x xs ih =>
    obtain ⟨h1, h2⟩ := crn_brk_ne (h x (List.mem_cons_self ..))
    rw [List.cons_append, norm_other false x _ h1 h2, ih (fun c hc => h c (List.mem_cons_of_mem _ hc))]
    rfl

theorem crn_norm_plain_nil (a : Str) (h : ∀ c ∈ a, isBrk c = false) :
    normalizeNewlinesFrom false a = a := by
  have := crn_norm_plain a [] h
  simpa [norm_nil] using this

theorem crn_alnum_eq (c : Char) : H5V.Spec.HtmlTokenizer.isAsciiAlphanumeric c = isAsciiAlnum c := by
  unfold H5V.Spec.HtmlTokenizer.isAsciiAlphanumeric H5V.Spec.HtmlTokenizer.isAsciiDigit
    H5V.Spec.HtmlTokenizer.isAsciiAlpha H5V.Spec.HtmlTokenizer.isAsciiUpperAlpha
    H5V.Spec.HtmlTokenizer.isAsciiLowerAlpha isAsciiAlnum
  cases h1 : decide ('a' ≤ c) <;> cases h2 : decide (c ≤ 'z') <;> cases h3 : decide ('A' ≤ c) <;>
    cases h4 : decide (c ≤ 'Z') <;> cases h5 : decide ('0' ≤ c) <;> cases h6 : decide (c ≤ '9') <;>
    simp_all

theorem crn_foldCh_alnum (c : Char) : isAsciiAlnum (foldCh c) = isAsciiAlnum c := by
  unfold foldCh
  split
  · rename_i h; subst h; decide
  · rfl

theorem crn_foldCh_eq_iff (c : Char) : foldCh c = '=' ↔ c = '=' := by
  unfold foldCh
  split
  · rename_i h; subst h; decide
  · exact Iff.rfl

theorem crn_toNat_ofNat_valid (k : Nat) (h : isValidScalar k = true) : (Char.ofNat k).toNat = k := by
  have hv : k.isValidChar := by
    unfold isValidScalar at h
    simp only [Bool.or_eq_true, decide_eq_true_eq, Bool.and_eq_true] at h
    unfold Nat.isValidChar
    omega
  simp [Char.ofNat, hv, Char.toNat, Char.ofNatAux]

theorem crn_ofNat_ne_nul (k : Nat) (h : isValidScalar k = true) (h0 : k ≠ 0) : Char.ofNat k ≠ '\x00' := by
  intro e
  have := crn_toNat_ofNat_valid k h
  rw [e] at this
  simp at this
  exact h0 this.symm

theorem crn_setCharRef_self (m : Mach) (x : Option CharRefSt) (h : m.charRef = x) : m.setCharRef x = m := by
  cases m
  simp only [Mach.setCharRef] at h ⊢
  subst h; rfl

/-! ## the return state -/

theorem crn_ret_cases {m : Mach} {t : Tok} (h1 : isRet m.state = true) (h2 : t.returnState.toSt = stOf m.state) :
    ((m.state = .data ∨ m.state = .rawData .rcdata) ∧ t.returnState.inAttribute = false ∧
      isAttrValueState m.state = false) ∨
    (∃ k, m.state = .attributeValue k ∧ t.returnState.inAttribute = true ∧ isAttrValueState m.state = true) := by
  cases hs : m.state with
  | data =>
    left; refine ⟨Or.inl rfl, ?_, rfl⟩
    rw [hs] at h2
    cases hr : t.returnState <;> simp [hr, ReturnSt.toSt, stOf] at h2 <;> rfl
  | rawData k =>
    cases k with
    | rcdata =>
      left; refine ⟨Or.inr rfl, ?_, rfl⟩
      rw [hs] at h2
      cases hr : t.returnState <;> simp [hr, ReturnSt.toSt, stOf] at h2 <;> rfl
    | _ => rw [hs] at h1; simp [isRet] at h1
  | attributeValue k =>
    right; refine ⟨k, rfl, ?_, rfl⟩
    rw [hs] at h2
    cases hr : t.returnState <;> cases k <;> simp [hr, ReturnSt.toSt, stOf] at h2 <;> rfl
  | _ => rw [hs] at h1; simp [isRet] at h1

/-! ## the specification: flushing, the named character reference state -/

theorem crn_foldl_appendTemp (t : Tok) (s : Str) :
    s.foldl Tok.appendTemporaryBuffer t = { t with temporaryBuffer := t.temporaryBuffer ++ s } := by
  induction s generalizing t with
  | nil => simp
  | cons c s ih => rw [List.foldl_cons, ih]; simp [Tok.appendTemporaryBuffer]

theorem crn_foldl_emitChar (t : Tok) (s : Str) :
    s.foldl Tok.emitChar t = { t with out := (s.map Emit.char).reverse ++ t.out } := by
  have := emitChars_eq t s
  unfold Tok.emitChars at this
  exact this

theorem crn_modLast_nil_val (L : List Attr) (hne : L ≠ []) :
    modLast (fun a => { a with value := a.value ++ [] }) L = L := by
  rcases list_nil_or_concat L with rfl | ⟨pre, a, rfl⟩
  · exact absurd rfl hne
  · simp

theorem crn_modLast_modLast (L : List Attr) (hne : L ≠ []) (c : Char) (s : Str) :
    modLast (fun a => { a with value := a.value ++ s }) (modLast (fun a => { a with value := a.value ++ [c] }) L) =
      modLast (fun a => { a with value := a.value ++ c :: s }) L := by
  rcases list_nil_or_concat L with rfl | ⟨pre, a, rfl⟩
  · exact absurd rfl hne
  · simp

theorem crn_foldl_appendValue (t : Tok) (s : Str) (hne : t.attrs ≠ []) :
    s.foldl Tok.appendAttributeValue t =
      { t with attrs := modLast (fun a => { a with value := a.value ++ s }) t.attrs } := by
  induction s generalizing t with
  | nil => simp only [List.foldl_nil]; rw [crn_modLast_nil_val _ hne]
  | cons c s ih =>
    rw [List.foldl_cons, appendAttributeValue_eq, ih _ (by simp)]
    simp [crn_modLast_modLast _ hne]

theorem crn_flush_attr (t : Tok) (cs : Str) (h : t.returnState.inAttribute = true) (hne : t.attrs ≠ []) :
    ({ t with temporaryBuffer := cs } : Tok).flushCodePoints =
      { t with temporaryBuffer := cs, attrs := modLast (fun a => { a with value := a.value ++ cs }) t.attrs } := by
  unfold Tok.flushCodePoints
  simp only [h, if_true]
  rw [crn_foldl_appendValue _ _ (by simpa using hne)]

theorem crn_flush_text (t : Tok) (cs : Str) (h : t.returnState.inAttribute = false) :
    ({ t with temporaryBuffer := cs } : Tok).flushCodePoints =
      { t with temporaryBuffer := cs, out := (cs.map Emit.char).reverse ++ t.out } := by
  unfold Tok.flushCodePoints
  simp only [h, Bool.false_eq_true, if_false]
  rw [crn_foldl_emitChar]

theorem crn_sstep (tree : Tree) (t : Tok) (rest : Str) (hst : t.state = .namedCharacterReference) :
    sstep tree t rest = H5V.Spec.HtmlTokenizer.namedCharacterReferenceState t rest := by
  simp only [sstep, H5V.Spec.HtmlTokenizer.step, hst]

/-- the decision "for historical reasons" -/
def crnDec (ia : Bool) (last next : Option Char) : Bool :=
  ia && !(last == some ';') && (next == some '=' || next.any isAsciiAlnum)

/-- the characters a match resolves to -/
def crnChars (c1 c2 : Nat) : Str := if c2 = 0 then [Char.ofNat c1] else [Char.ofNat c1, Char.ofNat c2]

theorem crn_named_none (t : Tok) (rest : Str)
    (hl : H5V.Spec.HtmlTokenizer.longestNamedReference rest = none) (ht : t.temporaryBuffer = amp) :
    H5V.Spec.HtmlTokenizer.namedCharacterReferenceState t rest =
      ((({ t with temporaryBuffer := amp } : Tok).flushCodePoints).setState .ambiguousAmpersand, .advance 0) := by
  unfold H5V.Spec.HtmlTokenizer.namedCharacterReferenceState
  rw [hl]
  have : ({ t with temporaryBuffer := amp } : Tok) = t := by cases t; simp at ht; subst ht; rfl
  rw [this]

theorem crn_named_some (t : Tok) (rest : Str) (name : List Nat) (c1 c2 : Nat)
    (hl : H5V.Spec.HtmlTokenizer.longestNamedReference rest = some (name, c1, c2)) :
    H5V.Spec.HtmlTokenizer.namedCharacterReferenceState t rest =
      if (t.returnState.inAttribute && !(name.getLast? == some 59) &&
          ((rest.drop name.length).head? == some '=' ||
           (rest.drop name.length).head?.any H5V.Spec.HtmlTokenizer.isAsciiAlphanumeric)) = true then
        ((({ t with temporaryBuffer := t.temporaryBuffer ++ rest.take name.length } : Tok).flushCodePoints).setState
          t.returnState.toSt, .advance name.length)
      else
        ((({ t with temporaryBuffer := crnChars c1 c2 } : Tok).flushCodePoints).setState
          t.returnState.toSt, .advance name.length) := by
  unfold H5V.Spec.HtmlTokenizer.namedCharacterReferenceState
  rw [hl]
  simp only [crn_foldl_appendTemp]
  split
  · rfl
  · by_cases h2 : c2 = 0
    · simp [h2, crnChars, Tok.clearTemporaryBuffer, Tok.appendTemporaryBuffer]
    · simp [h2, crnChars, Tok.clearTemporaryBuffer, Tok.appendTemporaryBuffer]

theorem crn_semicolon (x : Option Char) : (x.map Char.toNat == some 59) = (x == some ';') := by
  cases x with
  | none => rfl
  | some c =>
    by_cases h : c = ';'
    · subst h; rfl
    · have : c.toNat ≠ 59 := fun e => h (crn_toNat_inj (a := c) (b := ';') (by rw [e]; rfl))
      rw [Bool.eq_iff_iff]
      simp [h, this]

/-- the specification's test in terms of the model's buffer -/
theorem crn_exc_eq (ia : Bool) (nb tail : Str) (len : Nat) (h1 : 0 < len) (h2 : len ≤ nb.length) :
    (ia && !(((nb.take len).map Char.toNat).getLast? == some 59) &&
      (((nb ++ tail).drop ((nb.take len).map Char.toNat).length).head? == some '=' ||
       ((nb ++ tail).drop ((nb.take len).map Char.toNat).length).head?.any
          H5V.Spec.HtmlTokenizer.isAsciiAlphanumeric)) =
      crnDec ia nb[len - 1]? (nb ++ tail)[len]? := by
  have hlen : ((nb.take len).map Char.toNat).length = len := by simp; omega
  have hlast : (nb.take len).getLast? = nb[len - 1]? := by
    rw [List.getLast?_eq_getElem?, List.length_take, Nat.min_eq_left h2, List.getElem?_take]
    simp; omega
  rw [hlen, List.getLast?_map, hlast, crn_semicolon, List.head?_drop]
  unfold crnDec
  have : ∀ x : Option Char, x.any H5V.Spec.HtmlTokenizer.isAsciiAlphanumeric = x.any isAsciiAlnum := by
    intro x; cases x <;> simp [crn_alnum_eq]
  rw [this]

theorem crn_dec_fold (ia : Bool) (last : Option Char) (c : Char) :
    crnDec ia last (some (foldCh c)) = crnDec ia last (some c) := by
  unfold crnDec
  simp only [Option.any_some, crn_foldCh_alnum]
  have : (some (foldCh c) == some '=') = (some c == some '=') := by
    by_cases h : c = '='
    · subst h; rfl
    · have h' : ¬ foldCh c = '=' := fun e => h ((crn_foldCh_eq_iff c).mp e)
      rw [Bool.eq_iff_iff]
      simp [h, h']
  rw [this]

/-! ## the model: `finish_named`, `process_char_ref`, `step` -/

theorem crn_namedDecision (m : Mach) (cr : CharRefSt) (nameBuf : Str) (c1 c2 : Nat)
    (h1 : 0 < cr.nameLen) (h2 : cr.nameLen ≤ nameBuf.length)
    (hv1 : isValidScalar c1 = true) (hv2 : isValidScalar c2 = true) :
    namedDecision m cr nameBuf c1 c2 =
      if crnDec cr.inAttr nameBuf[cr.nameLen - 1]? nameBuf[cr.nameLen]? = true then .ok none
      else .ok (some ((if nameBuf[cr.nameLen - 1]? = some ';' then m
                       else emitErr m "Character reference does not end with semicolon").setIgnoreLf false,
                      crnChars c1 c2)) := by
  unfold namedDecision
  dsimp only
  have hne : cr.nameLen ≠ 0 := by omega
  simp only [hne, ↓reduceIte]
  have hidx : cr.nameLen - 1 < nameBuf.length := by omega
  rw [List.getElem?_eq_getElem hidx]
  simp only [hv1, hv2, Bool.and_self, Bool.not_true, Bool.false_eq_true, ↓reduceIte]
  have hnext : (if cr.nameLen = nameBuf.length then none else nameBuf[cr.nameLen]?) = nameBuf[cr.nameLen]? := by
    split
    · rename_i e; rw [e]; simp
    · rfl
  rw [hnext]
  unfold crnDec crnChars
  by_cases hl : nameBuf[cr.nameLen - 1] = ';'
  · simp [hl]
  · simp only [hl, ↓reduceIte, Option.some.injEq]
    cases hia : cr.inAttr with
    | false => simp
    | true =>
      cases hn : nameBuf[cr.nameLen]? with
      | none => simp
      | some x =>
        by_cases hx : x = '='
        · simp [hx, hl]
        · by_cases ha : isAsciiAlnum x = true
          · simp [hx, ha, hl]
          · simp [hx, ha, hl]

theorem crn_finishNamed_bogus (o : Opts) (m : Mach) (inp : Str) (cr : CharRefSt) (nb : Str) (c : Char)
    (hb : cr.nameBuf = some nb) (hm : cr.nameMatch = none) (hc : isAsciiAlnum c = true) :
    finishNamed o m inp cr (some c) = .ok (m, inp, { cr with state := .bogusName }, .progress) := by
  unfold finishNamed
  simp [hb, hm, hc]

theorem crn_finishNamed_giveup (o : Opts) (ho : o.exactErrors = false) (m : Mach) (inp : Str) (cr : CharRefSt)
    (nb : Str) (ec : Option Char) (hb : cr.nameBuf = some nb) (hm : cr.nameMatch = none)
    (hec : ∀ c, ec = some c → isAsciiAlnum c = false) :
    ∃ o', flat o' = flat m.out ∧
      finishNamed o m inp cr ec = .ok ({ m with out := o' }, nb ++ inp, { cr with nameBuf := none }, .done []) := by
  unfold finishNamed
  cases ec with
  | none => exact ⟨m.out, rfl, by simp [hb, hm]⟩
  | some c =>
    have hc := hec c rfl
    by_cases he : (c = ';' && nb.length > 1) = true
    · refine ⟨(Token.error "Invalid character reference".toList, m.line) :: m.out, by simp, ?_⟩
      simp only [hb, hm, hc, Bool.false_eq_true, if_false, he, if_true, nameErr, ho, emitErr, emit]
    · refine ⟨m.out, rfl, ?_⟩
      simp only [hb, hm, hc, Bool.false_eq_true, if_false, he]

theorem crn_finishNamed_match (o : Opts) (m : Mach) (inp : Str) (cr : CharRefSt) (nb : Str) (ec : Option Char)
    (c1 c2 : Nat) (hb : cr.nameBuf = some nb) (hm : cr.nameMatch = some (c1, c2))
    (h1 : 0 < cr.nameLen) (h2 : cr.nameLen ≤ nb.length)
    (hv1 : isValidScalar c1 = true) (hv2 : isValidScalar c2 = true) :
    finishNamed o m inp cr ec =
      if crnDec cr.inAttr nb[cr.nameLen - 1]? nb[cr.nameLen]? = true then
        .ok (m, nb ++ inp, { cr with nameBuf := none }, .done [])
      else .ok ((if nb[cr.nameLen - 1]? = some ';' then m
                 else emitErr m "Character reference does not end with semicolon").setIgnoreLf false,
                nb.drop cr.nameLen ++ inp, cr, .done (crnChars c1 c2)) := by
  unfold finishNamed
  simp only [hb, hm]
  rw [crn_namedDecision m cr nb c1 c2 h1 h2 hv1 hv2]
  by_cases hd : crnDec cr.inAttr nb[cr.nameLen - 1]? nb[cr.nameLen]? = true
  · simp only [hd, if_true]
  · simp only [hd, Bool.false_eq_true, if_false]

theorem crn_foldl_pushValue (m : Mach) (cs : Str) :
    cs.foldl (fun m c => pushValue c m) m = { m with attrValue := m.attrValue ++ cs } := by
  induction cs generalizing m with
  | nil => simp
  | cons c cs ih => rw [List.foldl_cons, ih]; simp [pushValue]

theorem crn_foldl_emitCharM (m : Mach) (cs : Str) (hnul : ∀ c ∈ cs, c ≠ '\x00') :
    cs.foldl emitChar m =
      { m with out := (cs.reverse.map fun c => (Token.chars [c], m.line)) ++ m.out } := by
  induction cs generalizing m with
  | nil => simp
  | cons c cs ih =>
    rw [List.foldl_cons, ih _ (fun x hx => hnul x (List.mem_cons_of_mem _ hx))]
    have hc : c ≠ '\x00' := hnul c (List.mem_cons_self ..)
    simp [emitChar, hc, emit]

theorem crn_flat_chars (l : Str) (ln : Nat) (o' : Out) :
    flat ((l.map fun c => (Token.chars [c], ln)) ++ o') = l.map Emit.char ++ flat o' := by
  induction l with
  | nil => rfl
  | cons c l ih => simp [ih]

/-- `process_char_ref` on the characters of a reference, or on nothing -/
def crnEff (chars : Str) : Str := if chars.isEmpty then ['&'] else chars

theorem crn_pcr_attr (m : Mach) (chars : Str) (k : AttrValueKind) (hs : m.state = .attributeValue k) :
    processCharRef m chars = ({ m with attrValue := m.attrValue ++ crnEff chars }, .cont) := by
  cases m
  simp only at hs
  subst hs
  unfold processCharRef
  simp only
  rw [crn_foldl_pushValue]
  rfl

theorem crn_pcr_text (m : Mach) (chars : Str) (hs : m.state = .data ∨ m.state = .rawData .rcdata)
    (hnul : ∀ c ∈ crnEff chars, c ≠ '\x00') :
    processCharRef m chars =
      ({ m with out := ((crnEff chars).reverse.map fun c => (Token.chars [c], m.line)) ++ m.out }, .cont) := by
  cases m
  simp only at hs
  rcases hs with hs | hs
  · subst hs
    unfold processCharRef
    simp only
    rw [show (if chars.isEmpty = true then ['&'] else chars) = crnEff chars from rfl,
      crn_foldl_emitCharM _ _ hnul]
  · subst hs
    unfold processCharRef
    simp only
    rw [show (if chars.isEmpty = true then ['&'] else chars) = crnEff chars from rfl,
      crn_foldl_emitCharM _ _ hnul]

/-- `stepCharRef` as a function of the sub-tokenizer's answer -/
def crnOfRes : CRRes → R
  | .error e => .panic e
  | .ok (m, inp, cr, .stuck) => .suspend (m.setCharRef (some cr)) inp
  | .ok (m, inp, cr, .progress) => .cont (m.setCharRef (some cr)) inp
  | .ok (m, inp, _, .done chars) =>
    ofSig ((processCharRef m chars).1.setCharRef none, (processCharRef m chars).2) inp

theorem crn_stepCharRef_eq (o : Opts) (m : Mach) (inp : Str) (cr : CharRefSt) :
    stepCharRef o m inp cr = crnOfRes (crStep o m inp cr) := rfl

end H5V.Lemmas.HtmlTokSpec
