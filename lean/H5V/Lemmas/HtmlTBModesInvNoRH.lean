import H5V.Lemmas.HtmlTBModesInvBase
/-!
C02 (insertion modes): the rules of the insertion modes never answer "reprocess the token according to the rules of
the current insertion mode in HTML content" (`Step.reprocessHtml`) — only the rules for foreign content do.
A purely syntactic fact about `Spec.TreeModes` (2025 text), proved by walking through the rule functions.
-/
set_option linter.unusedSectionVars false
set_option linter.unusedSimpArgs false
namespace H5V.Lemmas.ModesInv
open H5V.Spec H5V.Spec.TreeModes
open H5V.Spec.TreeAlgo (Str Name nsHtml nsMathml nsSvg inHtml)
open H5V.Spec.TreeAlgo2 (Elem Entry PState)

section
variable {N : Type} [DecidableEq N]

/-- `m` does not answer `reprocessHtml` -/
def NoRH (m : M (Step N)) : Prop := ∀ s', m ≠ .ok (.reprocessHtml s')

theorem norh_done (s : State N) : NoRH (pure (.done s)) := fun _ h => by cases pure_ok h
theorem norh_reprocess (s : State N) : NoRH (pure (.reprocess s)) := fun _ h => by cases pure_ok h
theorem norh_map_done (m : M (State N)) : NoRH (.done <$> m) := fun _ h => by obtain ⟨a, _, ha⟩ := map_ok h; cases ha
theorem norh_map_reprocess (m : M (State N)) : NoRH (.reprocess <$> m) := fun _ h => by
  obtain ⟨a, _, ha⟩ := map_ok h; cases ha
theorem norh_throw (e : String) : NoRH (throw e : M (Step N)) := fun _ h => by cases h
theorem norh_ite {c : Prop} [Decidable c] {a b : M (Step N)} (ha : NoRH a) (hb : NoRH b) : NoRH (if c then a else b) := by
  split <;> assumption
theorem norh_bind {α : Type} {m : M α} {f : α → M (Step N)} (h : ∀ a, NoRH (f a)) : NoRH (m >>= f) := by
  intro s' hh
  obtain ⟨a, _, ha⟩ := bind_ok hh
  exact h a s' ha
theorem norh_bind_map {m : M (Step N)} {f : State N → State N} (h : NoRH m) :
    NoRH (m >>= fun r => pure (r.map f)) := by
  intro s' hh
  obtain ⟨a, ha, hb⟩ := bind_ok hh
  have := pure_ok hb
  cases a with
  | done s => cases this
  | reprocess s => cases this
  | reprocessHtml s => exact h s ha
theorem norh_step {r : Step N} (h : ∀ s', r ≠ .reprocessHtml s') : NoRH (pure r) := fun s' hh => h s' (pure_ok hh)

/-- the walk: leaves, `if`, `do` -/
macro "norh_leaf" : tactic => `(tactic| with_reducible first
  | exact norh_done _ | exact norh_reprocess _ | exact norh_map_done _ | exact norh_map_reprocess _ | exact norh_throw _
  | assumption)

macro "norh" : tactic => `(tactic| repeat' first
  | with_reducible apply norh_ite
  | norh_leaf
  | with_reducible apply norh_bind_map
  | (with_reducible apply norh_bind; intro _)
  | (dsimp only)
  | with_reducible split)

theorem norh_inBodyStartHtml (s : State N) (t : Tag) : NoRH (inBodyStartHtml s t) := by
  unfold inBodyStartHtml; norh
theorem norh_inHeadStartTemplate (s : State N) (t : Tag) : NoRH (inHeadStartTemplate s t) := by
  unfold inHeadStartTemplate; norh
theorem norh_inHeadEndTemplate (cfg : Config N) (s : State N) : NoRH (inHeadEndTemplate cfg s) := by
  unfold inHeadEndTemplate; norh

theorem norh_inHead (cfg : Config N) (s : State N) (tok : STok) : NoRH (inHead cfg s tok) := by
  have h1 := norh_inBodyStartHtml (N := N)
  have h2 := norh_inHeadStartTemplate (N := N)
  have h3 := norh_inHeadEndTemplate (N := N)
  unfold inHead
  cases tok <;> norh <;> first | exact h1 _ _ | exact h2 _ _ | exact h3 _ _

/-- a `Step`-valued clause that is `done` on every branch -/
theorem norh_inBodyBlockEnd (cfg : Config N) (s : State N) (t : Tag) : NoRH (pure (inBodyBlockEnd cfg s t)) := by
  apply norh_step
  intro s' h
  unfold inBodyBlockEnd at h
  split at h <;> cases h

theorem inBodyEndForm_done (cfg : Config N) (s : State N) : ∃ s', inBodyEndForm cfg s = .done s' := by
  unfold inBodyEndForm
  dsimp only
  repeat' split
  all_goals exact ⟨_, rfl⟩

theorem norh_inBodyEndForm (cfg : Config N) (s : State N) : NoRH (pure (inBodyEndForm cfg s)) := by
  obtain ⟨s', h⟩ := inBodyEndForm_done cfg s
  rw [h]; exact norh_done _

theorem norh_inTemplateEof (cfg : Config N) (s : State N) : NoRH (inTemplateEof cfg s) := by
  unfold inTemplateEof; norh
theorem norh_inBodyListItem (cfg : Config N) (s : State N) (t : Tag) (names : List String) :
    NoRH (inBodyListItem cfg s t names) := by
  unfold inBodyListItem; norh
theorem norh_inBodyStartA (s : State N) (t : Tag) : NoRH (inBodyStartA s t) := by
  unfold inBodyStartA; norh
theorem norh_inBodyStartNobr (cfg : Config N) (s : State N) (t : Tag) : NoRH (inBodyStartNobr cfg s t) := by
  unfold inBodyStartNobr; norh
theorem norh_inBodyStartForeignRoot (s : State N) (t : Tag) (k : TreeAlgo.ForeignKind) (ns : Str) :
    NoRH (inBodyStartForeignRoot s t k ns) := by
  unfold inBodyStartForeignRoot; norh
theorem norh_inBodyStartSelectLegacy (s : State N) (t : Tag) : NoRH (inBodyStartSelectLegacy s t) := by
  unfold inBodyStartSelectLegacy; norh
theorem norh_inBodyStartOptionLegacy (s : State N) (t : Tag) : NoRH (inBodyStartOptionLegacy s t) := by
  unfold inBodyStartOptionLegacy; norh
theorem norh_inBodyStartSelect2025 (cfg : Config N) (s : State N) (t : Tag) : NoRH (inBodyStartSelect2025 cfg s t) := by
  unfold inBodyStartSelect2025; norh
theorem norh_inBodyStartOption2025 (cfg : Config N) (s : State N) (t : Tag) : NoRH (inBodyStartOption2025 cfg s t) := by
  unfold inBodyStartOption2025; norh
theorem norh_inBodyStartOptgroup2025 (cfg : Config N) (s : State N) (t : Tag) : NoRH (inBodyStartOptgroup2025 cfg s t) := by
  unfold inBodyStartOptgroup2025; norh
theorem norh_inBodyStartHr (cfg : Config N) (s : State N) (t : Tag) : NoRH (inBodyStartHr cfg s t) := by
  unfold inBodyStartHr; norh
theorem norh_inBodyStartInput (cfg : Config N) (s : State N) (t : Tag) : NoRH (inBodyStartInput cfg s t) := by
  unfold inBodyStartInput; norh

macro "norh_body" : tactic => `(tactic| with_reducible first
  | exact norh_inBodyStartHtml _ _ | exact norh_inHead _ _ _ | exact norh_inBodyListItem _ _ _ _
  | exact norh_inBodyStartA _ _ | exact norh_inBodyStartNobr _ _ _ | exact norh_inBodyStartForeignRoot _ _ _ _
  | exact norh_inBodyStartSelectLegacy _ _ | exact norh_inBodyStartOptionLegacy _ _
  | exact norh_inBodyStartSelect2025 _ _ _ | exact norh_inBodyStartOption2025 _ _ _
  | exact norh_inBodyStartOptgroup2025 _ _ _ | exact norh_inBodyStartHr _ _ _ | exact norh_inBodyStartInput _ _ _
  | exact norh_inBodyBlockEnd _ _ _ | exact norh_inBodyEndForm _ _ | exact norh_inTemplateEof _ _)

theorem norh_inBodyStartTagCore (cfg : Config N) (s : State N) (t : Tag) : NoRH (inBodyStartTagCore cfg s t) := by
  unfold inBodyStartTagCore
  norh <;> norh_body

theorem norh_inBodyStartTag (cfg : Config N) (s : State N) (t : Tag) : NoRH (inBodyStartTag cfg s t) := by
  unfold inBodyStartTag
  apply norh_ite <;> exact norh_inBodyStartTagCore _ _ _

theorem norh_inBodyEndTag (cfg : Config N) (s : State N) (t : Tag) : NoRH (inBodyEndTag cfg s t) := by
  have hc := norh_inBodyStartTagCore (N := N)
  unfold inBodyEndTag
  norh <;> first | norh_body | exact hc _ _ _

theorem norh_inBody (cfg : Config N) (s : State N) (tok : STok) : NoRH (inBody cfg s tok) := by
  have h1 := norh_inBodyStartTag (N := N)
  have h2 := norh_inBodyEndTag (N := N)
  unfold inBody
  cases tok <;> norh <;> first | norh_body | exact h1 _ _ _ | exact h2 _ _ _

theorem norh_text (s : State N) (tok : STok) : NoRH (text s tok) := by
  unfold text
  cases tok <;> norh

theorem norh_inTableAnythingElse (cfg : Config N) (s : State N) (tok : STok) : NoRH (inTableAnythingElse cfg s tok) := by
  unfold inTableAnythingElse
  exact norh_bind_map (norh_inBody _ _ _)

macro "norh_calls" : tactic => `(tactic| with_reducible first
  | exact norh_inBody _ _ _ | exact norh_inHead _ _ _ | exact norh_inTableAnythingElse _ _ _
  | exact norh_inTemplateEof _ _ | exact norh_inBodyStartHtml _ _)

theorem norh_inTable (cfg : Config N) (s : State N) (tok : STok) : NoRH (inTable cfg s tok) := by
  unfold inTable
  cases tok <;> norh <;> norh_calls

theorem norh_inTableText (cfg : Config N) (s : State N) (tok : STok) : NoRH (inTableText cfg s tok) := by
  unfold inTableText
  cases tok <;> norh

theorem norh_inCaption (cfg : Config N) (s : State N) (tok : STok) : NoRH (inCaption cfg s tok) := by
  unfold inCaption
  cases tok <;> norh <;> norh_calls

theorem norh_inColumnGroup (cfg : Config N) (s : State N) (tok : STok) : NoRH (inColumnGroup cfg s tok) := by
  unfold inColumnGroup
  cases tok <;> norh <;> norh_calls

theorem norh_inTableBody (cfg : Config N) (s : State N) (tok : STok) : NoRH (inTableBody cfg s tok) := by
  have ht := norh_inTable (N := N)
  unfold inTableBody
  cases tok <;> norh <;> exact ht _ _ _

theorem norh_inRow (cfg : Config N) (s : State N) (tok : STok) : NoRH (inRow cfg s tok) := by
  have ht := norh_inTable (N := N)
  unfold inRow
  cases tok <;> norh <;> exact ht _ _ _

theorem norh_inCell (cfg : Config N) (s : State N) (tok : STok) : NoRH (inCell cfg s tok) := by
  unfold inCell
  cases tok <;> norh <;> norh_calls

theorem norh_inSelect (cfg : Config N) (s : State N) (tok : STok) : NoRH (inSelect cfg s tok) := by
  unfold inSelect
  cases tok <;> norh <;> norh_calls

theorem norh_inSelectInTable (cfg : Config N) (s : State N) (tok : STok) : NoRH (inSelectInTable cfg s tok) := by
  have hs := norh_inSelect (N := N)
  unfold inSelectInTable
  cases tok <;> norh <;> exact hs _ _ _

theorem norh_inTemplate (cfg : Config N) (s : State N) (tok : STok) : NoRH (inTemplate cfg s tok) := by
  unfold inTemplate
  cases tok <;> norh <;> norh_calls

theorem norh_initial (cfg : Config N) (s : State N) (tok : STok) : NoRH (initial cfg s tok) := by
  unfold initial
  cases tok <;> norh

theorem norh_beforeHtml (cfg : Config N) (s : State N) (tok : STok) : NoRH (beforeHtml cfg s tok) := by
  unfold beforeHtml
  cases tok <;> norh

theorem norh_beforeHead (cfg : Config N) (s : State N) (tok : STok) : NoRH (beforeHead cfg s tok) := by
  unfold beforeHead
  cases tok <;> norh <;> norh_calls

theorem norh_inHeadNoscript (cfg : Config N) (s : State N) (tok : STok) : NoRH (inHeadNoscript cfg s tok) := by
  unfold inHeadNoscript
  cases tok <;> norh <;> norh_calls

theorem norh_afterHead (cfg : Config N) (s : State N) (tok : STok) : NoRH (afterHead cfg s tok) := by
  unfold afterHead
  cases tok <;> norh <;> norh_calls

theorem norh_afterBody (cfg : Config N) (s : State N) (tok : STok) : NoRH (afterBody cfg s tok) := by
  unfold afterBody
  cases tok <;> norh <;> norh_calls

theorem norh_inFrameset (cfg : Config N) (s : State N) (tok : STok) : NoRH (inFrameset cfg s tok) := by
  unfold inFrameset
  cases tok <;> norh <;> norh_calls

theorem norh_afterFrameset (cfg : Config N) (s : State N) (tok : STok) : NoRH (afterFrameset cfg s tok) := by
  unfold afterFrameset
  cases tok <;> norh <;> norh_calls

theorem norh_afterAfterBody (cfg : Config N) (s : State N) (tok : STok) : NoRH (afterAfterBody cfg s tok) := by
  unfold afterAfterBody
  cases tok <;> norh <;> norh_calls

theorem norh_afterAfterFrameset (cfg : Config N) (s : State N) (tok : STok) : NoRH (afterAfterFrameset cfg s tok) := by
  unfold afterAfterFrameset
  cases tok <;> norh <;> norh_calls

/-- **the rules of the insertion modes never answer `reprocessHtml`** -/
theorem norh_byMode (cfg : Config N) (s : State N) (tok : STok) : NoRH (byMode cfg s tok) := by
  unfold byMode
  cases s.mode <;> dsimp only
  · exact norh_initial _ _ _
  · exact norh_beforeHtml _ _ _
  · exact norh_beforeHead _ _ _
  · exact norh_inHead _ _ _
  · exact norh_inHeadNoscript _ _ _
  · exact norh_afterHead _ _ _
  · exact norh_inBody _ _ _
  · exact norh_text _ _
  · exact norh_inTable _ _ _
  · exact norh_inTableText _ _ _
  · exact norh_inCaption _ _ _
  · exact norh_inColumnGroup _ _ _
  · exact norh_inTableBody _ _ _
  · exact norh_inRow _ _ _
  · exact norh_inCell _ _ _
  · exact norh_inSelect _ _ _
  · exact norh_inSelectInTable _ _ _
  · exact norh_inTemplate _ _ _
  · exact norh_afterBody _ _ _
  · exact norh_inFrameset _ _ _
  · exact norh_afterFrameset _ _ _
  · exact norh_afterAfterBody _ _ _
  · exact norh_afterAfterFrameset _ _ _

end
end H5V.Lemmas.ModesInv
