import H5V.Lemmas.DomOps
import H5V.Lemmas.DomSer
/-! Preservation of the node-kind invariant `Kinds` by contract-abiding sink calls. -/
namespace H5V.Lemmas.Dom
open H5V.Model.Dom

/-! ### `Kinds` is preserved by contract-abiding calls -/

theorem Kinds.of_effects {d d' : Dom} (hk : Kinds d)
    (hcont : ∀ x, d.isContainer x = true → d'.isContainer x = true)
    (hdoc : ∀ x, x < d.size → d'.dataOf x = some .document → d.dataOf x = some .document)
    (hpar : ∀ c p, d'.parentOf c = some p →
      d.parentOf c = some p ∨ (d'.isContainer p = true ∧ d'.dataOf c ≠ some .document)) : Kinds d' where
  parentContainer := by
    intro c p h
    rcases hpar c p h with h1 | h1
    · exact hcont p (hk.parentContainer c p h1)
    · exact h1.1
  childNotDoc := by
    intro c p h
    rcases hpar c p h with h1 | h1
    · intro hd
      exact hk.childNotDoc c p h1 (hdoc c (child_lt_size h1) hd)
    · exact h1.2

theorem isContainer_congr {d d' : Dom} {x : Id} (h : d'.dataOf x = d.dataOf x) :
    d'.isContainer x = d.isContainer x := by unfold Dom.isContainer; rw [h]

theorem Kinds.sameData {d d' : Dom} (hk : Kinds d) (hp : ∀ x, d'.parentOf x = d.parentOf x)
    (hd : ∀ x, x < d.size → d'.dataOf x = d.dataOf x) : Kinds d' := by
  refine hk.of_effects ?_ ?_ ?_
  · intro x hx; rw [isContainer_congr (hd x (lt_of_isContainer hx))]; exact hx
  · intro x hx h; rw [← hd x hx]; exact h
  · intro c p h; rw [hp] at h; exact Or.inl h

theorem isInsertable_not_doc {d : Dom} {c : Id} (h : d.isInsertable c = true) : d.dataOf c ≠ some .document := by
  intro hd; simp [Dom.isInsertable, hd] at h

/-- attaching `c` (not a document) under the container `p`, data untouched -/
theorem Kinds.attach {d d' : Dom} (hk : Kinds d) {c p : Id}
    (hp : ∀ x, d'.parentOf x = if x = c then some p else d.parentOf x)
    (hd : ∀ x, d'.dataOf x = d.dataOf x) (hpc : d.isContainer p = true) (hcd : d.dataOf c ≠ some .document) :
    Kinds d' := by
  refine hk.of_effects ?_ ?_ ?_
  · intro x hx; rw [isContainer_congr (hd x)]; exact hx
  · intro x _ h; rw [← hd x]; exact h
  · intro c' p' h
    rw [hp] at h
    by_cases hc : c' = c
    · subst hc; simp at h; subst h
      exact Or.inr ⟨by rw [isContainer_congr (hd _)]; exact hpc, by rw [hd]; exact hcd⟩
    · simp [hc] at h; exact Or.inl h

theorem Kinds.removeFromParent {d d' : Dom} (hk : Kinds d) {t : Id} (h : d.removeFromParent t = .ok d') :
    Kinds d' := by
  rcases removeFromParent_ok h with ⟨_, he⟩ | ⟨p, i, _, _, hp, _, hd, _, _⟩
  · subst he; exact hk
  · refine hk.of_effects ?_ ?_ ?_
    · intro x hx; rw [isContainer_congr (hd x)]; exact hx
    · intro x _ h; rw [← hd x]; exact h
    · intro c p' h; rw [hp] at h
      by_cases hc : c = t
      · simp [hc] at h
      · simp [hc] at h; exact Or.inl h

theorem removeFromParent_data {d d' : Dom} {t : Id} (h : d.removeFromParent t = .ok d') :
    ∀ x, d'.dataOf x = d.dataOf x := by
  rcases removeFromParent_ok h with ⟨_, he⟩ | ⟨p, i, _, _, _, _, hd, _, _⟩
  · subst he; exact fun _ => rfl
  · exact hd

theorem Kinds.insertAtIndex {d d' : Dom} (hk : Kinds d) {P c : Id} {i : Nat}
    (hpc : d.isContainer P = true) (hcd : d.dataOf c ≠ some .document)
    (h : d.insertAtIndex P i c = .ok d') : Kinds d' := by
  obtain ⟨d1, hr, _, _, _, hp, _, hd, _, _⟩ := insertAtIndex_ok h
  have hk1 := hk.removeFromParent hr
  have hd1 := removeFromParent_data hr
  exact hk1.attach hp hd (by rw [isContainer_congr (hd1 P)]; exact hpc) (by rw [hd1]; exact hcd)

theorem Kinds.alloc {d : Dom} (hk : Kinds d) (data : NodeData) : Kinds (d.alloc data).1 := by
  refine hk.sameData (parentOf_alloc d data) ?_
  intro x hx; rw [dataOf_alloc]; simp [Nat.ne_of_lt hx]

/-- allocation of a non-document node and attachment under the container `p` -/
theorem Kinds.allocAttach {d d' : Dom} (hk : Kinds d) {data : NodeData} {p : Id}
    (hp : ∀ x, d'.parentOf x = if x = d.size then some p else d.parentOf x)
    (hd : ∀ x, d'.dataOf x = if x = d.size then some data else d.dataOf x)
    (hpc : d.isContainer p = true) (hnd : data ≠ .document) : Kinds d' := by
  have hplt := lt_of_isContainer hpc
  refine hk.of_effects ?_ ?_ ?_
  · intro x hx
    have := lt_of_isContainer hx
    rw [isContainer_congr (d := d) (by rw [hd]; simp [Nat.ne_of_lt this])]; exact hx
  · intro x hx h; rw [hd] at h; simpa [Nat.ne_of_lt hx] using h
  · intro c p' h
    rw [hp] at h
    by_cases hc : c = d.size
    · subst hc; simp at h; subst h
      refine Or.inr ⟨?_, ?_⟩
      · rw [isContainer_congr (d := d) (by rw [hd]; simp [Nat.ne_of_lt hplt])]; exact hpc
      · rw [hd, if_pos rfl]; intro h; exact hnd (Option.some.inj h)
    · simp [hc] at h; exact Or.inl h

/-- a change of one node's data that keeps its kind (text stays text, element stays element) -/
theorem Kinds.dataChange {d d' : Dom} (hk : Kinds d) {t : Id}
    (hs : SameShape d d') (hd : ∀ x, x ≠ t → d'.dataOf x = d.dataOf x)
    (hct : d'.isContainer t = d.isContainer t)
    (hdt : d'.dataOf t = some .document → d.dataOf t = some .document) : Kinds d' := by
  have hc : ∀ x, d'.isContainer x = d.isContainer x := by
    intro x
    by_cases hx : x = t
    · subst hx; exact hct
    · exact isContainer_congr (hd x hx)
  refine hk.of_effects ?_ ?_ ?_
  · intro x hx; rw [hc]; exact hx
  · intro x _ h
    by_cases hx : x = t
    · subst hx; exact hdt h
    · rw [← hd x hx]; exact h
  · intro c p h; rw [hs.parent] at h; exact Or.inl h

theorem Kinds.append {d d' : Dom} (hk : Kinds d) {p : Id} {ch : NodeOrText}
    (hc : d.contractAppend p ch = true) (h : d.append p ch = .ok d') : Kinds d' := by
  simp only [Dom.contractAppend, Bool.and_eq_true] at hc
  cases ch with
  | text s =>
    obtain ⟨hp, h1 | h2⟩ := append_text_ok h
    · obtain ⟨hl, old, _, hdl, hs, hd, _⟩ := h1
      refine hk.dataChange (t := hl) hs (fun x hx => by rw [hd]; simp [hx]) ?_ ?_
      · unfold Dom.isContainer; rw [hd, hdl]; simp
      · rw [hd]; simp
    · obtain ⟨hp', _, hd, _, _⟩ := allocAppend_ok hp h2.2
      exact hk.allocAttach hp' hd hc.1 (by intro e; cases e)
  | node c =>
    rw [append_node_eq] at h
    simp only [Dom.childOk, Bool.and_eq_true] at hc
    have hne : p ≠ c := by
      intro e; subst e
      have := hc.2.1.1
      have h2 := hc.1
      -- a container is not insertable … unless it is an element; use the parent/ancestor clause instead
      have h3 := hc.2.2
      simp only [Bool.not_eq_true'] at h3
      have hlt := lt_of_isContainer h2
      unfold Dom.isAncOrSelf at h3
      cases hs : d.size with
      | zero => rw [hs] at hlt; exact Nat.not_lt_zero _ hlt
      | succ s => rw [hs] at h3; simp [Dom.ancestorsOrSelf] at h3
    obtain ⟨_, _, _, _, _, hp', _, hd, _, _⟩ := appendRaw_ok h hne
    exact hk.attach hp' hd hc.1 (isInsertable_not_doc hc.2.1.1)

theorem Kinds.appendBeforeSibling {d d' : Dom} (hk : Kinds d) {s : Id} {ch : NodeOrText}
    (hc : d.contractAppendBeforeSibling s ch = true) (h : d.appendBeforeSibling s ch = .ok d') : Kinds d' := by
  obtain ⟨P, i, hpar, _, hPlt, hm⟩ := appendBeforeSibling_ok h
  simp only [Dom.contractAppendBeforeSibling, hpar, Bool.and_eq_true] at hc
  cases ch with
  | text t =>
    rcases hm with ⟨prev, old, _, _, hdl, hs, hd, _⟩ | ⟨_, h2⟩
    · refine hk.dataChange (t := prev) hs (fun x hx => by rw [hd]; simp [hx]) ?_ ?_
      · unfold Dom.isContainer; rw [hd, hdl]; simp
      · rw [hd]; simp
    · obtain ⟨_, hp', _, hd, _, _⟩ := insertAtIndex_fresh_ok h2
      exact hk.allocAttach hp' hd hc.2.1.1 (by intro e; cases e)
  | node c =>
    simp only [Dom.childOk, Bool.and_eq_true] at hc
    exact hk.insertAtIndex hc.2.1.1 (isInsertable_not_doc hc.2.1.2.1.1) hm

end H5V.Lemmas.Dom
