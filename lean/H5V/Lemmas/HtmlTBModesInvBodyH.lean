import H5V.Lemmas.HtmlTBModesInvAAA
/-!
C02 (insertion modes), the invariant `Good` of the specification's run: the helper clauses of "in body"
(`Spec.TreeModes2`, the functions before `inBodyStartTagCore`).
-/
set_option linter.unusedSectionVars false
set_option linter.unusedSimpArgs false
namespace H5V.Lemmas.ModesInv
open H5V.Spec H5V.Spec.TreeModes
open H5V.Spec.TreeAlgo (Str Name nsHtml nsMathml nsSvg inHtml)
open H5V.Spec.TreeAlgo2 (Elem Entry PState)

section
variable {N : Type} [DecidableEq N]

/-! ### contexts through the helper algorithms -/

theorem bh_post_done {cfg : Config N} {σ : State N} (hc : Ctx cfg σ) : Post (.done σ) := fun _ => hc.good

theorem bh_ctx_iteErr {cfg : Config N} {σ : State N} (hc : Ctx cfg σ) (c : Prop) [Decidable c] (w : String) :
    Ctx cfg (if c then σ else σ.err w) := by
  split
  · exact hc
  · exact hc.same

theorem bh_ctx_errIte {cfg : Config N} {σ : State N} (hc : Ctx cfg σ) (c : Prop) [Decidable c] (w : String) :
    Ctx cfg (if c then σ.err w else σ) := by
  split
  · exact hc.same
  · exact hc

@[simp] theorem bh_iteErr_names (s : State N) (c : Prop) [Decidable c] (w : String) :
    (if c then s else s.err w).names = s.names := by split <;> rfl
@[simp] theorem bh_errIte_names (s : State N) (c : Prop) [Decidable c] (w : String) :
    (if c then s.err w else s).names = s.names := by split <;> rfl
@[simp] theorem bh_iteErr_p (s : State N) (c : Prop) [Decidable c] (w : String) :
    (if c then s else s.err w).p = s.p := by split <;> rfl
@[simp] theorem bh_errIte_p (s : State N) (c : Prop) [Decidable c] (w : String) :
    (if c then s.err w else s).p = s.p := by split <;> rfl

theorem bh_ctx_genImplied {cfg : Config N} {σ : State N} (hc : Ctx cfg σ) (ex : Option String) :
    Ctx cfg (genImplied σ ex) :=
  hc.of_upd (st := (genImplied σ ex).p.stack) (l := σ.p.list) ⟨rfl, rfl, rfl, rfl, rfl, rfl⟩
    (cellR_genImplied ex) hc.good.af

theorem bh_ctx_genImpliedExceptStr {cfg : Config N} {σ : State N} (hc : Ctx cfg σ) (ex : Str) :
    Ctx cfg (genImpliedExceptStr σ ex) :=
  hc.of_upd (st := (genImpliedExceptStr σ ex).p.stack) (l := σ.p.list) ⟨rfl, rfl, rfl, rfl, rfl, rfl⟩
    (cellR_genImpliedExceptStr ex) hc.good.af

theorem bh_ctx_closeP {cfg : Config N} {σ : State N} (hc : Ctx cfg σ) : Ctx cfg (closePIfInButtonScope cfg σ) :=
  hc.of_upd (st := (closePIfInButtonScope cfg σ).p.stack) (l := σ.p.list)
    ⟨closePIfInButtonScope_mode .., closePIfInButtonScope_orig .., closePIfInButtonScope_tms ..,
      closePIfInButtonScope_stopped .., rfl, closePIfInButtonScope_list ..⟩
    (cellR_closePIfInButtonScope cfg hc.ed) hc.good.af

theorem bh_ctx_popUntilPopped {cfg : Config N} {σ : State N} (hc : Ctx cfg σ) {x : String}
    (hx : x.toList ≠ "td".toList ∧ x.toList ≠ "th".toList) (hs : hasInScope cfg σ x = true) :
    Ctx cfg (popUntilPopped σ x) :=
  hc.of_upd (st := (popUntilPopped σ x).p.stack) (l := σ.p.list) ⟨rfl, rfl, rfl, rfl, rfl, rfl⟩
    (cellR_popUntilPopped_inScope cfg hc.ed hx hs) hc.good.af

theorem bh_ctx_popUntilPoppedStr {cfg : Config N} {σ : State N} (hc : Ctx cfg σ) {x : Str}
    (hx : x ≠ "td".toList ∧ x ≠ "th".toList) (hs : hasStrInScope cfg σ x = true) :
    Ctx cfg (popUntilPoppedStr σ x) :=
  hc.of_upd (st := (popUntilPoppedStr σ x).p.stack) (l := σ.p.list) ⟨rfl, rfl, rfl, rfl, rfl, rfl⟩
    (cellR_popUntilPoppedStr_inScope cfg hc.ed hx hs) hc.good.af

theorem bh_ctx_reconstruct {cfg : Config N} {σ s1 : State N} (hc : Ctx cfg σ) (h : reconstruct σ = .ok s1) :
    Ctx cfg s1 := by
  obtain ⟨es, l', hu, hes, haf, _⟩ := reconstruct_eff hc.good.af h
  exact hc.of_upd hu (by rw [cellR_append_neutral _ (fun e he => (hes e he).1)]; exact id) haf

theorem bh_ctx_insertHtml {cfg : Config N} {σ s1 : State N} (hc : Ctx cfg σ) {t : Tag} {e : Elem N}
    (hn : neutralN ⟨nsHtml, t.name⟩ = true) (h : insertHtml σ t = .ok (s1, e)) : Ctx cfg s1 := by
  obtain ⟨he, _, hu, _⟩ := insertHtml_eff h
  exact hc.of_upd hu (by rw [cellR_snoc_neutral _ (by rw [he]; exact hn)]; exact id) hc.good.af

theorem bh_ctx_insertHtml' {cfg : Config N} {σ s1 : State N} (hc : Ctx cfg σ) {t : Tag}
    (hn : neutralN ⟨nsHtml, t.name⟩ = true) (h : insertHtml' σ t = .ok s1) : Ctx cfg s1 := by
  obtain ⟨e, he, _, hu, _⟩ := insertHtml'_eff h
  exact hc.of_upd hu (by rw [cellR_snoc_neutral _ (by rw [he]; exact hn)]; exact id) hc.good.af

theorem bh_ctx_insertVoid {cfg : Config N} {σ s1 : State N} (hc : Ctx cfg σ) {t : Tag}
    (h : insertVoid σ t = .ok s1) : Ctx cfg s1 := by
  obtain ⟨_, hu⟩ := insertVoid_eff h
  exact hc.of_upd hu id hc.good.af

/-- popping the current node, an HTML `x` element (`x` not td/th) -/
theorem bh_ctx_pop_cur {cfg : Config N} {σ : State N} (hc : Ctx cfg σ) {x : String}
    (hx : x.toList ≠ "td".toList ∧ x.toList ≠ "th".toList) (h : σ.curIs x = true) : Ctx cfg σ.pop := by
  refine hc.of_upd (st := σ.pop.p.stack) (l := σ.p.list) ⟨rfl, rfl, rfl, rfl, rfl, rfl⟩ ?_ hc.good.af
  intro hcell
  show cellR σ.pop.names = true
  rw [pop_names]
  refine cellR_drop 1 ?_ hcell
  intro n hn
  simp only [State.curIs, State.cur, Option.any_eq_true] at h
  obtain ⟨e, he, hen⟩ := h
  obtain ⟨ys, hys⟩ := List.getLast?_eq_some_iff.mp he
  rw [names_eq, hys, namesOf_snoc] at hn
  simp only [List.take_succ_cons, List.take_zero, List.mem_singleton] at hn
  subst hn
  exact isNamed_noTd hx _ hen

/-- an implied-end-tag element is neither the target (a name that has no implied end tag) nor in the scope list -/
theorem bh_implied_scope (cfg : Config N) (hed : cfg.edition = .customizableSelect) {ex : Option Str} {x : Str}
    (hx : TreeAlgo.impliedEndTag ex ⟨nsHtml, x⟩ = false) (n : Name) (hn : TreeAlgo.impliedEndTag ex n = true) :
    isNamed x n = false ∧ scopeList cfg TreeAlgo.defaultScopeList n = false := by
  constructor
  · cases hc : isNamed x n
    · rfl
    · exfalso
      simp only [isNamed, Bool.and_eq_true, beq_iff_eq] at hc
      obtain ⟨ns, loc⟩ := n
      simp only at hc
      obtain ⟨h1, h2⟩ := hc
      subst h1 h2
      rw [hx] at hn; cases hn
  · simp only [TreeAlgo.impliedEndTag, Bool.and_eq_true] at hn
    obtain ⟨h1, _⟩ := hn
    simp only [inHtml, TreeTables.impliedEnd, Bool.and_eq_true, List.any_eq_true, beq_iff_eq] at h1
    obtain ⟨hns, y, hy, hyn⟩ := h1
    obtain ⟨ns, loc⟩ := n
    simp only at hns hyn
    subst hns hyn
    simp only [List.mem_cons, List.mem_nil_iff, or_false] at hy
    simp only [scopeList, hed]
    rcases hy with rfl | rfl | rfl | rfl | rfl | rfl | rfl | rfl | rfl | rfl <;> decide

/-- "has an `x` element in scope" is not changed by "generate implied end tags" when `x` has no implied end tag -/
theorem bh_hasStrInScope_genImplied (cfg : Config N) (hed : cfg.edition = .customizableSelect) (s : State N)
    {ex : Option String} {x : Str} (hx : TreeAlgo.impliedEndTag (ex.map String.toList) ⟨nsHtml, x⟩ = false) :
    hasStrInScope cfg (genImplied s ex) x = hasStrInScope cfg s x := by
  unfold hasStrInScope
  rw [genImplied_names]
  exact hasInScope_dropWhile (bh_implied_scope cfg hed hx) _

theorem bh_hasInScope_genImplied (cfg : Config N) (hed : cfg.edition = .customizableSelect) (s : State N)
    {ex : Option String} {x : String} (hx : TreeAlgo.impliedEndTag (ex.map String.toList) ⟨nsHtml, x.toList⟩ = false) :
    hasInScope cfg (genImplied s ex) x = hasInScope cfg s x :=
  bh_hasStrInScope_genImplied cfg hed s hx

/-! ### "in template", end of file -/

theorem bh_mem_dropLast {α : Type} {a : α} {l : List α} (h : a ∈ l.dropLast) : a ∈ l := by
  rw [List.dropLast_eq_take] at h
  exact List.mem_of_mem_take h

theorem post_inTemplateEof {cfg : Config N} {σ : State N} (hc : Ctx cfg σ) {r : Step N}
    (h : inTemplateEof cfg σ = .ok r) : Post r := by
  unfold inTemplateEof at h
  split at h
  · cases pure_ok h
    exact inv_stopParsing σ
  · obtain ⟨s1, h1, h2⟩ := bind_ok h
    cases pure_ok h2
    obtain ⟨m, hm, h3, h4, h5, h6, h7⟩ := resetInsertionMode_eff cfg hc.ed
      (fun m hm => hc.good.tm m (bh_mem_dropLast hm)) h1
    subst hm
    have haf : AFOk (TreeAlgo2.clearToLastMarker σ.p.list) := hc.good.af.clear
    have htm : ∀ m ∈ σ.templateModes.dropLast, tmOk m := fun m hm => hc.good.tm m (bh_mem_dropLast hm)
    refine ⟨hc.live, ?_⟩
    by_cases hmc : m = .inCell
    · exact Good.ofCell hmc (h7 hmc) haf htm
    · exact Good.plain (σ := State.setMode _ m) ⟨hmc, h3, h4, h5, h6⟩ haf htm

/-! ### `li`, `dd`, `dt` -/

theorem bh_tdTh_special {e : Elem N} (h : tdThN e.name = true) :
    (TreeAlgo2.isSpecial e && !inHtml ["address", "div", "p"] e.name) = true := by
  have h1 := special_of_tdTh h
  have h2 : inHtml ["address", "div", "p"] e.name = false := by
    simp only [tdThN, inHtml, Bool.and_eq_true, List.any_cons, List.any_nil, Bool.or_false, Bool.or_eq_true, beq_iff_eq] at h
    obtain ⟨hns, hl⟩ := h
    obtain ⟨id, ns, loc⟩ := e
    simp only at hns hl
    subst hns
    rcases hl with hl | hl <;> subst hl
    · show inHtml ["address", "div", "p"] ⟨nsHtml, "td".toList⟩ = false; decide
    · show inHtml ["address", "div", "p"] ⟨nsHtml, "th".toList⟩ = false; decide
  simp [h1, h2]

/-- the `li` / `dd`,`dt` loop: the name found is that of a list item, and no td/th lies above the first such element -/
theorem bh_listItemLoop {names : List String} (hnames : names = ["li"] ∨ names = ["dd", "dt"]) :
    ∀ {l : List (Elem N)} {n : Str}, listItemLoop names l = some n →
      (n ≠ "td".toList ∧ n ≠ "th".toList) ∧
        ∀ m ∈ (l.map (·.name)).takeWhile (fun m => !isNamed n m), tdThN m = false
  | [], _, h => by simp [listItemLoop] at h
  | node :: rest, n, h => by
    unfold listItemLoop at h
    split at h
    · rename_i hin
      simp only [Option.some.injEq] at h
      subst h
      have hns : (node.name.ns == nsHtml) = true := by
        simp only [inHtml, Bool.and_eq_true] at hin; exact hin.1
      constructor
      · rcases hnames with rfl | rfl <;>
          simp only [inHtml, List.any_cons, List.any_nil, Bool.or_false, Bool.and_eq_true, Bool.or_eq_true,
            beq_iff_eq] at hin
        · rw [← hin.2]; exact ⟨by decide, by decide⟩
        · rcases hin.2 with h | h <;> rw [← h] <;> exact ⟨by decide, by decide⟩
      · intro m hm
        have hnm : isNamed node.name.loc node.name = true := by simp [isNamed, hns]
        rw [List.map_cons, List.takeWhile_cons_of_neg (by simp [hnm])] at hm
        cases hm
    · split at h
      · cases h
      · rename_i hnin hsp
        obtain ⟨h1, h2⟩ := bh_listItemLoop hnames h
        refine ⟨h1, ?_⟩
        intro m hm
        rw [List.map_cons] at hm
        by_cases hp : (!isNamed n node.name) = true
        · rw [List.takeWhile_cons_of_pos (p := fun m => !isNamed n m) hp] at hm
          rcases List.mem_cons.mp hm with hm | hm
          · subst hm
            cases hc : tdThN node.name
            · rfl
            · exact absurd (bh_tdTh_special hc) hsp
          · exact h2 m hm
        · rw [List.takeWhile_cons_of_neg (p := fun m => !isNamed n m) hp] at hm; cases hm

theorem bh_cellR_popTo {p : Name → Bool} {l : List Name} (h1 : ∀ n ∈ l.takeWhile p, tdThN n = false)
    (h2 : ∀ n, p n = false → tdThN n = false) (h : cellR l = true) : cellR ((l.dropWhile p).drop 1) = true := by
  have h3 := cellR_dropWhile (p := p) h1 h
  cases hd : l.dropWhile p with
  | nil => rw [hd] at h3; cases h3
  | cons m rest =>
    rw [hd] at h3
    have hm : p m = false := by
      have := List.head_dropWhile_not (p := p) (l := l) (by rw [hd]; simp)
      simpa [hd] using this
    exact cellR_drop 1 (by intro n hn; simp at hn; subst hn; exact h2 _ hm) h3

theorem bh_takeWhile_dropWhile {α : Type} {p q : α → Bool} (hqp : ∀ a, q a = true → p a = true) :
    ∀ (l : List α) (a : α), a ∈ (l.dropWhile q).takeWhile p → a ∈ l.takeWhile p
  | [], _, h => h
  | b :: l, a, h => by
    by_cases hb : q b = true
    · rw [List.dropWhile_cons_of_pos hb] at h
      rw [List.takeWhile_cons_of_pos (hqp b hb)]
      exact List.mem_cons_of_mem _ (bh_takeWhile_dropWhile hqp l a h)
    · rw [List.dropWhile_cons_of_neg hb] at h; exact h

/-- "pop until an `n` element has been popped" when no td/th lies above the first `n` element -/
theorem bh_ctx_popUntilPoppedStr_noTd {cfg : Config N} {σ : State N} (hc : Ctx cfg σ) {n : Str}
    (hn : n ≠ "td".toList ∧ n ≠ "th".toList)
    (h : ∀ m ∈ σ.names.takeWhile (fun m => !isNamed n m), tdThN m = false) : Ctx cfg (popUntilPoppedStr σ n) := by
  refine hc.of_upd (st := (popUntilPoppedStr σ n).p.stack) (l := σ.p.list) ⟨rfl, rfl, rfl, rfl, rfl, rfl⟩ ?_ hc.good.af
  intro hcell
  show cellR (popUntilPoppedStr σ n).names = true
  rw [popUntilPoppedStr_names]
  refine bh_cellR_popTo h ?_ hcell
  intro m hm
  exact isNamed_noTd hn m (by simpa using hm)

theorem post_inBodyListItem {cfg : Config N} {σ : State N} (hc : Ctx cfg σ) {t : Tag} {names : List String}
    (hn : neutralN ⟨nsHtml, t.name⟩ = true) (hnames : names = ["li"] ∨ names = ["dd", "dt"]) {r : Step N}
    (h : inBodyListItem cfg σ t names = .ok r) : Post r := by
  unfold inBodyListItem at h
  dsimp only at h
  obtain ⟨s1, h1, h2⟩ := map_ok h
  subst h2
  have hc0 : Ctx cfg σ.notOk := hc.same
  split at h1
  · rename_i n hloop
    obtain ⟨hn1, hn2⟩ := bh_listItemLoop hnames hloop
    have hcG := bh_ctx_genImpliedExceptStr hc0 n
    refine bh_post_done (bh_ctx_insertHtml' (bh_ctx_closeP
      (bh_ctx_popUntilPoppedStr_noTd (bh_ctx_iteErr hcG _ _) hn1 ?_)) hn h1)
    intro m hm
    rw [bh_iteErr_names, genImpliedExceptStr_names] at hm
    refine hn2 m (bh_takeWhile_dropWhile ?_ _ m hm)
    intro a ha
    cases hc : isNamed n a
    · rfl
    · exfalso
      simp only [isNamed, Bool.and_eq_true, beq_iff_eq] at hc
      simp only [TreeAlgo.impliedEndTag, Bool.and_eq_true, Bool.not_eq_true', Bool.and_eq_false_iff] at ha
      rcases ha.2 with h | h
      · rw [beq_eq_false_iff_ne] at h; exact h hc.1
      · simp [hc.2] at h
  · exact bh_post_done (bh_ctx_insertHtml' (bh_ctx_closeP hc0) hn h1)

/-! ### block end tags, `</form>` -/

/-- a tag name from a list without `dd`, `dt`, `li`, … has no implied end tag (the extra hypothesis of
`post_inBodyBlockEnd`, for its callers) -/
theorem bh_notImplied_of_isOneOf {t : Tag} {l : List String} (h : t.isOneOf l = true)
    (hl : l.all (fun x => !(TreeTables.impliedEnd.contains x)) = true) :
    TreeAlgo.impliedEndTag none ⟨nsHtml, t.name⟩ = false := by
  simp only [Tag.isOneOf, strIsOneOf, List.any_eq_true, beq_iff_eq] at h
  obtain ⟨x, hx, hxe⟩ := h
  have hnot := List.all_eq_true.mp hl x hx
  simp only [Bool.not_eq_true', List.contains_eq_mem, decide_eq_false_iff_not] at hnot
  have h1 : inHtml TreeTables.impliedEnd ⟨nsHtml, t.name⟩ = false := by
    cases hc : inHtml TreeTables.impliedEnd ⟨nsHtml, t.name⟩
    · rfl
    · exfalso
      simp only [inHtml, Bool.and_eq_true, List.any_eq_true, beq_iff_eq] at hc
      obtain ⟨_, y, hy, hyn⟩ := hc
      have hyx : y = x := String.toList_inj.mp (hyn.trans hxe)
      exact hnot (hyx ▸ hy)
  simp [TreeAlgo.impliedEndTag, h1]

theorem bh_notImplied_of_is {t : Tag} {x : String} (h : t.is x = true)
    (hx : TreeTables.impliedEnd.contains x = false) : TreeAlgo.impliedEndTag none ⟨nsHtml, t.name⟩ = false :=
  bh_notImplied_of_isOneOf (l := [x]) (by simpa [Tag.isOneOf, Tag.is, strIs, strIsOneOf] using h)
    (by simp only [List.all_cons, List.all_nil, Bool.and_true, hx]; rfl)

/-- a tag name from a list without `td`, `th` -/
theorem bh_notTdTh_of_isOneOf {t : Tag} {l : List String} (h : t.isOneOf l = true)
    (hl : l.all (fun x => !(["td", "th"].contains x)) = true) : t.name ≠ "td".toList ∧ t.name ≠ "th".toList := by
  simp only [Tag.isOneOf, strIsOneOf, List.any_eq_true, beq_iff_eq] at h
  obtain ⟨x, hx, hxe⟩ := h
  have hnot := List.all_eq_true.mp hl x hx
  simp only [Bool.not_eq_true', List.contains_eq_mem, List.mem_cons, List.mem_nil_iff, or_false, decide_eq_false_iff_not,
    not_or] at hnot
  rw [hxe]
  exact ⟨fun hc => hnot.1 (String.toList_inj.mp hc), fun hc => hnot.2 (String.toList_inj.mp hc)⟩

theorem post_inBodyBlockEnd {cfg : Config N} {σ : State N} (hc : Ctx cfg σ) {t : Tag}
    (ht : t.name ≠ "td".toList ∧ t.name ≠ "th".toList)
    (hni : TreeAlgo.impliedEndTag none ⟨nsHtml, t.name⟩ = false) : Post (inBodyBlockEnd cfg σ t) := by
  unfold inBodyBlockEnd
  dsimp only
  split
  · exact bh_post_done hc.same
  · rename_i hs
    have hs' : hasStrInScope cfg σ t.name = true := by simpa using hs
    have hcG := bh_ctx_genImplied hc none
    refine bh_post_done (bh_ctx_popUntilPoppedStr (bh_ctx_iteErr hcG _ _) ht ?_)
    unfold hasStrInScope
    rw [bh_iteErr_names]
    exact (bh_hasStrInScope_genImplied cfg hc.ed σ (ex := none) hni).trans hs'

theorem post_inBodyEndForm {cfg : Config N} {σ : State N} (hc : Ctx cfg σ) (hl : Link σ) :
    Post (inBodyEndForm cfg σ) := by
  unfold inBodyEndForm
  dsimp only
  have hc0 : Ctx cfg (σ.setForm none) := hc.same
  split
  · split
    · exact bh_post_done hc0.same
    · rename_i node hnode
      split
      · exact bh_post_done hc0.same
      · have hcG := bh_ctx_genImplied hc0 none
        have hcI := bh_ctx_iteErr hcG (((genImplied (σ.setForm none)).cur.any fun e => decide (e.id = node)) = true)
          "in body: form end tag, current node is not the form"
        refine bh_post_done (hcI.of_upd (st := (removeFromStack _ node).p.stack) (l := σ.p.list)
          ⟨by simp, by simp, by simp, by simp, rfl, by simp⟩ ?_ hc.good.af)
        intro hcell
        show cellR (removeFromStack _ node).names = true
        rw [cellR_removeFromStack]
        · exact hcell
        · intro e he hid
          rw [bh_iteErr_p] at he
          have he' : e ∈ σ.p.stack := by
            obtain ⟨j, hj, _⟩ := genImplied_stack_take (none : Option Str) σ.p.stack
            have : e ∈ TreeAlgo2.generateImpliedEndTags (none : Option Str) σ.p.stack := he
            rw [hj] at this
            exact List.mem_of_mem_take this
          have := hl.2 e he' (by rw [hid]; exact hnode)
          rw [this]; decide
  · rename_i htmpl
    split
    · exact bh_post_done hc.same
    · rename_i hs
      have hs' : hasInScope cfg σ "form" = true := by simpa using hs
      have hcG := bh_ctx_genImplied hc none
      refine bh_post_done (bh_ctx_popUntilPopped (bh_ctx_iteErr hcG _ _) (by decide) ?_)
      show hasStrInScope cfg _ "form".toList = true
      unfold hasStrInScope
      rw [bh_iteErr_names]
      exact (bh_hasStrInScope_genImplied cfg hc.ed σ (ex := none) (x := "form".toList) (by decide)).trans hs'

/-! ### `a`, `nobr` -/

theorem bh_findFormattingRev_mem {T : Type} {cxx : TreeAlgo2.Ctx T} {subj : Str} :
    ∀ {l : List (Entry N T)} {len i : Nat} {x : N} {tok : T},
      TreeAlgo2.findFormattingRev cxx subj l len = some (i, x, tok) → Entry.element x tok ∈ l
  | [], _, _, _, _, h => by simp [TreeAlgo2.findFormattingRev] at h
  | .marker :: _, _, _, _, _, h => by simp [TreeAlgo2.findFormattingRev] at h
  | .element n tk :: rest, len, i, x, tok, h => by
    unfold TreeAlgo2.findFormattingRev at h
    split at h
    · simp only [Option.some.injEq, Prod.mk.injEq] at h
      obtain ⟨_, h1, h2⟩ := h
      subst h1 h2
      exact List.mem_cons_self ..
    · exact List.mem_cons_of_mem _ (bh_findFormattingRev_mem h)

/-- the formatting element found by step 4.3 of the adoption agency algorithm is an entry of the list -/
theorem bh_findFormattingElement_mem {T : Type} {cxx : TreeAlgo2.Ctx T} {subj : Str} {l : List (Entry N T)} {i : Nat}
    {x : N} {tok : T} (h : TreeAlgo2.findFormattingElement cxx subj l = some (i, x, tok)) : Entry.element x tok ∈ l :=
  List.mem_reverse.mp (bh_findFormattingRev_mem (l := l.reverse) h)

/-- the common tail of the `a` and `nobr` clauses: insert, push onto the list -/
theorem bh_fmt_tail0 {cfg : Config N} {s2 : State N} {t : Tag} (hfmt : fmtN t.name = true) {r : Step N}
    (h : (do
      let r ← insertHtml s2 t
      pure (Step.done (pushFormatting r.1 r.2 t))) = .ok r) :
    Suf s2 r.state ∧ (Ctx cfg s2 → Post r) := by
  obtain ⟨r1, h5, h6⟩ := bind_ok h
  cases pure_ok h6
  obtain ⟨s3, e⟩ := r1
  refine ⟨(show Suf s2 s3 from insertHtml_suf h5), fun hc2 => ?_⟩
  have hc3 := bh_ctx_insertHtml hc2 (neutralN_of_fmt hfmt) h5
  exact bh_post_done (hc3.of_upd (st := s3.p.stack) (l := (pushFormatting s3 e t).p.list) ⟨rfl, rfl, rfl, rfl, rfl, rfl⟩ id
    (AFOk.push hc3.good.af e hfmt))

/-- … with "reconstruct the active formatting elements" first -/
theorem bh_fmt_tail {cfg : Config N} {s1 : State N} {t : Tag} (hfmt : fmtN t.name = true) {r : Step N}
    (h : (do
      let s ← reconstruct s1
      let r ← insertHtml s t
      pure (Step.done (pushFormatting r.1 r.2 t))) = .ok r) :
    Suf s1 r.state ∧ (Ctx cfg s1 → Post r) := by
  obtain ⟨s2, h3, h4⟩ := bind_ok h
  obtain ⟨hsuf, hpost⟩ := bh_fmt_tail0 (cfg := cfg) hfmt h4
  exact ⟨(reconstruct_suf h3).trans hsuf, fun hc1 => hpost (bh_ctx_reconstruct hc1 h3)⟩

theorem post_inBodyStartA {cfg : Config N} {σ : State N} (hc : Ctx cfg σ) (hl : Link σ) {t : Tag} (ht : t.is "a" = true)
    {r : Step N} (hfr : FreshL σ.p.stack σ.p.supply r.state.p.supply) (h : inBodyStartA σ t = .ok r) : Post r := by
  have hfmt : fmtN t.name = true :=
    fmtN_of_isOneOf (l := ["a"]) (by simpa [Tag.isOneOf, Tag.is, strIs, strIsOneOf] using ht) (by decide)
  unfold inBodyStartA at h
  dsimp only at h
  split at h
  · rename_i i a tok hfind
    obtain ⟨s', ha, h2⟩ := bind_ok h
    obtain ⟨s1, hp, h3⟩ := bind_ok h2
    cases pure_ok hp
    obtain ⟨hsuf, hpost⟩ := bh_fmt_tail (cfg := cfg) hfmt h3
    apply hpost
    have hmem : Entry.element a tok ∈ σ.p.list := bh_findFormattingElement_mem hfind
    have hc0 : Ctx cfg (σ.err "in body: a start tag with an a element in the list") := hc.same
    have hsuf' : ∃ v, s'.p.supply = v ++ r.state.p.supply := by
      obtain ⟨v, hv⟩ := hsuf
      exact ⟨v, by simpa using hv⟩
    obtain ⟨st', l', hu, haf', hcell, hold, _⟩ := adoptionAgency_eff hfmt hc0.good.af hl.same
      (FreshL.mono hfr ⟨[], rfl⟩ hsuf' (fun e he _ => he)) ha
    have hc' : Ctx cfg s' := hc0.of_upd hu hcell haf'
    refine hc'.of_upd (st := (removeFromStack (removeFromList s' a) a).p.stack) (l := (removeFromList s' a).p.list)
      ⟨by simp, by simp, by simp, by simp, rfl, by simp⟩ ?_ (removeFromList_af a hc'.good.af)
    intro hcl
    show cellR (removeFromStack (removeFromList s' a) a).names = true
    rw [cellR_removeFromStack, removeFromList_names]
    · exact hcl
    · intro e he hid
      rw [removeFromList_stack, hu.stack] at he
      rcases hold e he with h | h
      · have := hl.1 e h tok (by rw [hid]; exact hmem)
        rw [this]; exact neutralN_of_fmt (hc.good.af a tok hmem)
      · exact h
  · obtain ⟨s1, hp, h3⟩ := bind_ok h
    cases pure_ok hp
    exact (bh_fmt_tail hfmt h3).2 hc

/-! #### `Link` through "reconstruct the active formatting elements"

`Link` of the state after "reconstruct" does not follow from `Link` of the state before it without a freshness
assumption on the node ids the algorithm takes from the supply (a new element gets the entry of its token: an
old stack element with the same id, an old entry for that id, or a form element pointer equal to that id would
break `Link`).  `bh_NewIds` is that assumption; `FreshL` (td/th elements only) is too weak. -/

/-- the node ids `u` are new for the parser state: pairwise distinct, not ids of elements of the stack, not ids of
entries of the list of active formatting elements, not the form element pointer -/
def bh_NewIds (u : List N) (p : PState N ETok) : Prop :=
  u.Nodup ∧ ∀ n ∈ u, (∀ e ∈ p.stack, e.id ≠ n) ∧ (∀ t, Entry.element n t ∉ p.list) ∧ p.formPointer ≠ some n

/-- `Link` on the parser state -/
def bh_LinkP (p : PState N ETok) : Prop :=
  (∀ e ∈ p.stack, ∀ t, Entry.element e.id t ∈ p.list → e.name = ⟨nsHtml, t.name⟩) ∧
  (∀ e ∈ p.stack, p.formPointer = some e.id → e.name = ⟨nsHtml, "form".toList⟩)

theorem bh_link_step {st st2 : PState N ETok} {ne : Elem N} {tok : ETok} {i : Nat} {u' : List N}
    (hname : ne.name = ⟨nsHtml, tok.name⟩) (hs : st2.stack = st.stack ++ [ne])
    (hl : st2.list = st.list.set i (.element ne.id tok)) (hf : st2.formPointer = st.formPointer)
    (hnew : bh_NewIds (ne.id :: u') st) (hlink : bh_LinkP st) : bh_NewIds u' st2 ∧ bh_LinkP st2 := by
  obtain ⟨hnd, hfr⟩ := hnew
  obtain ⟨hnotin, hnd'⟩ := List.nodup_cons.mp hnd
  obtain ⟨f1, f2, f3⟩ := hfr ne.id (List.mem_cons_self ..)
  refine ⟨⟨hnd', ?_⟩, ?_, ?_⟩
  · intro n hn
    obtain ⟨g1, g2, g3⟩ := hfr n (List.mem_cons_of_mem _ hn)
    rw [hs, hl, hf]
    refine ⟨?_, ?_, g3⟩
    · intro e he
      rcases List.mem_append.mp he with he | he
      · exact g1 e he
      · simp only [List.mem_singleton] at he
        subst he
        intro hc
        exact hnotin (hc ▸ hn)
    · intro t ht
      rcases List.mem_or_eq_of_mem_set ht with ht | ht
      · exact g2 t ht
      · injection ht with h1 h2
        exact hnotin (h1 ▸ hn)
  · rw [hs, hl]
    intro e he t ht
    rcases List.mem_append.mp he with he | he
    · rcases List.mem_or_eq_of_mem_set ht with ht | ht
      · exact hlink.1 e he t ht
      · injection ht with h1 h2
        exact absurd h1 (f1 e he)
    · simp only [List.mem_singleton] at he
      subst he
      rcases List.mem_or_eq_of_mem_set ht with ht | ht
      · exact absurd ht (f2 t)
      · injection ht with h1 h2
        subst h2
        exact hname
  · rw [hs, hf]
    intro e he hfp
    rcases List.mem_append.mp he with he | he
    · exact hlink.2 e he hfp
    · simp only [List.mem_singleton] at he
      subst he
      exact absurd hfp f3

theorem bh_reconstructCreate_link : ∀ (k i : Nat) (st st' : PState N ETok),
    TreeAlgo2.reconstructCreate cx k i st = some st' →
    ∃ u, st.supply = u ++ st'.supply ∧ (bh_NewIds u st → bh_LinkP st → bh_LinkP st')
  | 0, _, st, st', h => by
    simp only [TreeAlgo2.reconstructCreate, Option.some.injEq] at h
    subst h
    exact ⟨[], rfl, fun _ hl => hl⟩
  | k + 1, i, st, st', h => by
    unfold TreeAlgo2.reconstructCreate at h
    cases hi : st.list[i]? with
    | none => rw [hi] at h; cases h
    | some ent =>
      rw [hi] at h
      cases ent with
      | marker => cases h
      | element x tok =>
        dsimp only at h
        cases hins : TreeAlgo2.insertHtmlElement cx st tok with
        | none => rw [hins] at h; cases h
        | some r =>
          obtain ⟨st1, ne⟩ := r
          rw [hins] at h
          simp only [Option.bind_some] at h
          obtain ⟨hname, _, hstack, hlist, hform⟩ := insertForeignElement_eff hins
          have hs := insertForeignElement_supply hins
          have hl2 : ({ st1 with list := st1.list.set i (.element ne.id tok) } : PState N ETok).list =
              st.list.set i (.element ne.id tok) := by
            show st1.list.set i (.element ne.id tok) = _
            rw [hlist]
          split at h
          · obtain ⟨u', hu', himp⟩ := bh_reconstructCreate_link k (i + 1) _ st' h
            refine ⟨ne.id :: u', by rw [hs]; simpa using hu', fun hnew hl => ?_⟩
            obtain ⟨a, b⟩ := bh_link_step (st2 := { st1 with list := st1.list.set i (.element ne.id tok) }) hname hstack hl2
              hform hnew hl
            exact himp a b
          · simp only [Option.some.injEq] at h
            subst h
            exact ⟨[ne.id], by rw [hs]; rfl, fun hnew hl =>
              (bh_link_step (st2 := { st1 with list := st1.list.set i (.element ne.id tok) }) (u' := []) hname hstack hl2
                hform hnew hl).2⟩

/-- **`Link` survives "reconstruct the active formatting elements"** if the node ids it takes from the supply are new -/
theorem bh_reconstruct_link {s s1 : State N} (h : reconstruct s = .ok s1) (hl : Link s)
    (hnew : ∀ u, s.p.supply = u ++ s1.p.supply → bh_NewIds u s.p) : Link s1 := by
  unfold reconstruct at h
  obtain ⟨p, hr, h2⟩ := bind_ok h
  have hr' := req_ok hr
  cases pure_ok h2
  unfold TreeAlgo2.reconstructActiveFormattingElements at hr'
  split at hr'
  · cases hr'; exact hl
  · split at hr'
    · cases hr'; exact hl
    · obtain ⟨u, hu, himp⟩ := bh_reconstructCreate_link _ _ _ _ hr'
      exact himp (hnew u hu) hl

theorem post_inBodyStartNobr {cfg : Config N} {σ : State N} (hc : Ctx cfg σ) (hl : Link σ) {t : Tag}
    (ht : t.is "nobr" = true) {r : Step N} (hfr : FreshL σ.p.stack σ.p.supply r.state.p.supply)
    (h : inBodyStartNobr cfg σ t = .ok r) : Post r := by
  have hfmt : fmtN t.name = true :=
    fmtN_of_isOneOf (l := ["nobr"]) (by simpa [Tag.isOneOf, Tag.is, strIs, strIsOneOf] using ht) (by decide)
  unfold inBodyStartNobr at h
  obtain ⟨s1, h1, h2⟩ := bind_ok h
  have hc1 := bh_ctx_reconstruct hc h1
  dsimp only at h2
  split at h2
  · obtain ⟨s', ha, h3⟩ := bind_ok h2
    obtain ⟨s2, hrec, h4⟩ := bind_ok h3
    obtain ⟨hsuf, hpost⟩ := bh_fmt_tail0 (cfg := cfg) hfmt h4
    apply hpost
    obtain ⟨es, l1, hu1, hes, _, _⟩ := reconstruct_eff hc.good.af h1
    have hsuf' : Suf s' r.state := (reconstruct_suf hrec).trans hsuf
    have hfr1 : FreshL s1.p.stack s1.p.supply s'.p.supply :=
      FreshL.mono hfr (reconstruct_suf h1) hsuf'
        (by rw [hu1.stack]; exact tdTh_of_append_neutral (fun e he => (hes e he).1))
    have hc0 : Ctx cfg (s1.err "in body: nobr start tag with nobr in scope") := hc1.same
    have hl1 : WLink s1 := reconstruct_wlink hc.good.af (hl.weak hc.good.af) hfr
      (by obtain ⟨a, ha'⟩ := adoptionAgency_suf ha; obtain ⟨b, hb⟩ := hsuf'; exact ⟨a ++ b, by have h0 : s1.p.supply = a ++ s'.p.supply := ha'; rw [h0, hb, List.append_assoc]⟩) h1
    obtain ⟨st', l', hu, haf', hcell, _, _⟩ := adoptionAgency_eff' hfmt hc0.good.af hl1.same hfr1 ha
    exact bh_ctx_reconstruct (hc0.of_upd hu hcell haf') hrec
  · obtain ⟨s2, hp, h3⟩ := bind_ok h2
    cases pure_ok hp
    exact (bh_fmt_tail0 hfmt h3).2 hc1

theorem bh_ctx_ite {cfg : Config N} {a b : State N} (c : Prop) [Decidable c] (ha : c → Ctx cfg a) (hb : ¬c → Ctx cfg b) :
    Ctx cfg (if c then a else b) := by
  split
  · exact ha ‹_›
  · exact hb ‹_›

theorem post_inBodyStartForeignRoot {cfg : Config N} {σ : State N} (hc : Ctx cfg σ) {t : Tag}
    {kind : TreeAlgo.ForeignKind} {ns : Str} (hns : ns ≠ nsHtml) {r : Step N}
    (h : inBodyStartForeignRoot σ t kind ns = .ok r) : Post r := by
  unfold inBodyStartForeignRoot at h
  obtain ⟨s1, h1, h2⟩ := bind_ok h
  obtain ⟨r1, h3, h4⟩ := bind_ok h2
  cases pure_ok h4
  obtain ⟨s2, e⟩ := r1
  have hc1 := bh_ctx_reconstruct hc h1
  obtain ⟨he, _, hu⟩ := insertForeign_eff h3
  have hne : neutralN e.name = true := neutralN_of_ns (by rw [he]; exact hns)
  have hc2 : Ctx cfg s2 := hc1.of_upd hu (by rw [cellR_snoc_neutral _ hne]; exact id) hc1.good.af
  dsimp only
  split
  · refine bh_post_done (hc2.of_upd (st := s1.p.stack) (l := s2.p.list)
      ⟨by simp, by simp, by simp, by simp, by simp [hu.stack], by simp⟩ ?_ hc2.good.af)
    rw [names_eq, hu.stack, cellR_snoc_neutral _ hne]; exact id
  · exact bh_post_done hc2

/-! ### the `select` family (2025), `hr`, `input` -/

theorem post_inBodyStartSelect2025 {cfg : Config N} {σ : State N} (hc : Ctx cfg σ) {t : Tag} (ht : t.is "select" = true)
    {r : Step N} (h : inBodyStartSelect2025 cfg σ t = .ok r) : Post r := by
  unfold inBodyStartSelect2025 at h
  split at h
  · cases pure_ok h; exact bh_post_done hc.same
  · split at h
    · rename_i hs
      cases pure_ok h
      exact bh_post_done (bh_ctx_popUntilPopped (σ := σ.err _) hc.same (by decide) hs)
    · obtain ⟨s1, h1, h2⟩ := bind_ok h
      obtain ⟨s2, h3, h4⟩ := bind_ok h2
      cases pure_ok h4
      exact bh_post_done (Ctx.same (bh_ctx_insertHtml' (bh_ctx_reconstruct hc h1) (neutral_of_is ht (by decide)) h3))

theorem post_inBodyStartOption2025 {cfg : Config N} {σ : State N} (hc : Ctx cfg σ) {t : Tag} (ht : t.is "option" = true)
    {r : Step N} (h : inBodyStartOption2025 cfg σ t = .ok r) : Post r := by
  unfold inBodyStartOption2025 at h
  dsimp only at h
  obtain ⟨s1, h1, h2⟩ := bind_ok h
  obtain ⟨s2, h3, h4⟩ := map_ok h2
  subst h4
  refine bh_post_done (cfg := cfg) (bh_ctx_insertHtml' (bh_ctx_reconstruct ?_ h1) (neutral_of_is ht (by decide)) h3)
  exact bh_ctx_ite _ (fun _ => bh_ctx_errIte (bh_ctx_genImplied hc _) _ _)
    (fun _ => bh_ctx_ite _ (fun hcur => bh_ctx_pop_cur hc (by decide) hcur) (fun _ => hc))

theorem post_inBodyStartOptgroup2025 {cfg : Config N} {σ : State N} (hc : Ctx cfg σ) {t : Tag}
    (ht : t.is "optgroup" = true) {r : Step N} (h : inBodyStartOptgroup2025 cfg σ t = .ok r) : Post r := by
  unfold inBodyStartOptgroup2025 at h
  dsimp only at h
  obtain ⟨s1, h1, h2⟩ := bind_ok h
  obtain ⟨s2, h3, h4⟩ := map_ok h2
  subst h4
  refine bh_post_done (cfg := cfg) (bh_ctx_insertHtml' (bh_ctx_reconstruct ?_ h1) (neutral_of_is ht (by decide)) h3)
  exact bh_ctx_ite _ (fun _ => bh_ctx_errIte (bh_ctx_genImplied hc _) _ _)
    (fun _ => bh_ctx_ite _ (fun hcur => bh_ctx_pop_cur hc (by decide) hcur) (fun _ => hc))

theorem post_inBodyStartHr {cfg : Config N} {σ : State N} (hc : Ctx cfg σ) {t : Tag} {r : Step N}
    (h : inBodyStartHr cfg σ t = .ok r) : Post r := by
  unfold inBodyStartHr at h
  dsimp only at h
  obtain ⟨s1, h1, h2⟩ := bind_ok h
  cases pure_ok h2
  refine bh_post_done (cfg := cfg) (Ctx.same (bh_ctx_insertVoid ?_ h1))
  exact bh_ctx_ite _ (fun _ => bh_ctx_errIte (bh_ctx_genImplied (bh_ctx_closeP hc) _) _ _) (fun _ => bh_ctx_closeP hc)

theorem post_inBodyStartInput {cfg : Config N} {σ : State N} (hc : Ctx cfg σ) {t : Tag} {r : Step N}
    (h : inBodyStartInput cfg σ t = .ok r) : Post r := by
  unfold inBodyStartInput at h
  split at h
  · cases pure_ok h; exact bh_post_done hc.same
  · dsimp only at h
    obtain ⟨s1, h1, h2⟩ := bind_ok h
    obtain ⟨s2, h3, h4⟩ := bind_ok h2
    cases pure_ok h4
    have hc1 : Ctx cfg s1 := by
      refine bh_ctx_reconstruct ?_ h1
      refine bh_ctx_ite _ (fun hcond => ?_) (fun _ => hc)
      simp only [Bool.and_eq_true] at hcond
      exact bh_ctx_popUntilPopped (σ := σ.err _) hc.same (by decide) hcond.2
    have hc2 := bh_ctx_insertVoid hc1 h3
    split
    · exact bh_post_done hc2
    · exact bh_post_done hc2.same

end
end H5V.Lemmas.ModesInv
