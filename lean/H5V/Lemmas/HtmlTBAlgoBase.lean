import H5V.Spec.TreeAlgo2
import H5V.Lemmas.HtmlTBSpecStack
import H5V.Lemmas.DomStep
/-!
Foundations for the second batch of C02 spec equivalences (`H5V.Props.C02Algo`): a total-correctness
triple for the tree builder's monad *relative to the sink*.

`Tot m s Q`: run in state `s`, the model computation `m`
* either returns `a` in a state `s'` such that `Q a s' calls` holds, where `calls` are exactly the
  `TreeSink` calls made (`s'.traceRev = calls.reverse ++ s.traceRev`), `s'.dom` is the result of
  replaying them on `s.dom`, and element data of `s.dom` survive in `s'.dom` (`Ext`);
* or fails with a panic raised **inside a sink call** (`SinkErr`: the RcDom model refused the
  operation).  Panics of the tree builder itself and exhausted loop fuel are *not* allowed.

Whether a sink call can panic is the business of C05 (the calls satisfy the `TreeSink` contract) and
C20 (under the contract RcDom does not panic); here the question is what the tree builder decides
and which calls it makes.
-/
namespace H5V.Lemmas.HtmlTBAlgo
open H5V.Model.HtmlTB
open H5V.Model.Dom (Id SinkOp Output Dom QualName Attr NodeOrText ElementFlags NodeData)
open H5V.Lemmas.Dom
open H5V.Lemmas.HtmlTBSpec (NamesOk toName)

/-- a `TreeSink` call with its answer -/
abbrev Call := SinkOp × Output

/-- the error string of a panic inside the sink (`sink` in `Model/HtmlTB/Types.lean`) -/
def SinkErr (e : String) : Prop := ∃ e0 : String, e = errClass e0 ++ "@sink: " ++ e0

/-! ### element data are stable under the sink operations the helpers use -/

/-- the arena only grows and the data of elements do not change -/
structure Stable (d d' : Dom) : Prop where
  size : d.size ≤ d'.size
  data : ∀ h, d.isElement h = true → d'.dataOf h = d.dataOf h

theorem Stable.refl (d : Dom) : Stable d d := ⟨Nat.le_refl _, fun _ _ => rfl⟩

theorem isElement_of_data {d d' : Dom} {h : Id} (e : d'.dataOf h = d.dataOf h) : d'.isElement h = d.isElement h := by
  unfold Dom.isElement; rw [e]

theorem Stable.trans {a b c : Dom} (h1 : Stable a b) (h2 : Stable b c) : Stable a c :=
  ⟨Nat.le_trans h1.size h2.size, fun h he => by
    rw [h2.data h (by rw [isElement_of_data (h1.data h he)]; exact he), h1.data h he]⟩

theorem Stable.of_data {d d' : Dom} (hs : d.size ≤ d'.size) (hd : ∀ x, d'.dataOf x = d.dataOf x) : Stable d d' :=
  ⟨hs, fun h _ => hd h⟩

theorem isElement_lt {d : Dom} {h : Id} (he : d.isElement h = true) : h < d.size := lt_of_isElement he

theorem Stable.alloc (d : Dom) (data : NodeData) : Stable d (d.alloc data).1 :=
  ⟨by simp, fun h he => by rw [dataOf_alloc]; simp [Nat.ne_of_lt (isElement_lt he)]⟩

/-- a change of one text node -/
theorem Stable.textChange {d d' : Dom} {t : Id} {old new : NodeData} (hs : d'.size = d.size)
    (hold : d.dataOf t = some old) (hne : ∀ n a tc ip, old ≠ .element n a tc ip)
    (hd : ∀ x, d'.dataOf x = if x = t then some new else d.dataOf x) : Stable d d' :=
  ⟨Nat.le_of_eq hs.symm, fun h he => by
    rw [hd]
    by_cases hx : h = t
    · subst hx
      unfold Dom.isElement at he; rw [hold] at he
      cases old <;> simp at he
      exact absurd rfl (hne _ _ _ _)
    · simp [hx]⟩

theorem appendRaw_data {d d' : Dom} {p c : Id} (h : d.appendRaw p c = .ok d') :
    (∀ x, d'.dataOf x = d.dataOf x) ∧ d'.size = d.size := by
  unfold Dom.appendRaw at h
  simp only [bind, Except.bind] at h
  cases hc : d.get c with
  | error e => simp [hc] at h
  | ok cn =>
    have hcn := get_ok.mp hc
    simp only [hc] at h
    by_cases hpar : cn.parent.isSome = true
    · simp [hpar, throw, throwThe, MonadExceptOf.throw] at h
    · simp only [hpar] at h
      cases hp : (d.setNode c { data := cn.data, parent := some p, children := cn.children }).get p with
      | error e => simp [hp] at h
      | ok pn =>
        simp [hp] at h
        have hpn := get_ok.mp hp
        subst h
        refine ⟨fun x => ?_, ?_⟩
        · rw [dataOf_setNode hpn, dataOf_setNode hcn]
          by_cases hxp : x = p
          · subst hxp
            simp only [if_true]
            by_cases hxc : x = c
            · subst hxc
              rw [node?_setNode_of hcn] at hpn; simp at hpn; subst hpn
              simp [dataOf_of_node hcn]
            · rw [node?_setNode_of hcn] at hpn; simp [hxc] at hpn
              simp [dataOf_of_node hpn]
          · simp only [hxp, if_false]
            by_cases hxc : x = c
            · subst hxc; simp [dataOf_of_node hcn]
            · simp [hxc]
        · simp [Dom.setNode, Dom.size]

theorem Stable.appendRaw {d d' : Dom} {p c : Id} (h : d.appendRaw p c = .ok d') : Stable d d' :=
  let ⟨hd, hs⟩ := appendRaw_data h
  Stable.of_data (Nat.le_of_eq hs.symm) hd

theorem Stable.removeFromParent {d d' : Dom} {t : Id} (h : d.removeFromParent t = .ok d') : Stable d d' :=
  Stable.of_data (Nat.le_of_eq (removeFromParent_size h).symm) (removeFromParent_data h)

theorem Stable.insertAtIndex {d d' : Dom} {P c : Id} {i : Nat} (h : d.insertAtIndex P i c = .ok d') : Stable d d' := by
  obtain ⟨d1, h1, _, _, _, _, _, hd, hs, _⟩ := insertAtIndex_ok h
  exact (Stable.removeFromParent h1).trans (Stable.of_data (Nat.le_of_eq hs.symm) hd)

theorem isText_data {d : Dom} {x : Id} {old : Str} (_h : d.dataOf x = some (.text old)) :
    ∀ n a tc ip, NodeData.text old ≠ .element n a tc ip := by intro _ _ _ _ h'; cases h'

theorem Stable.append {d d' : Dom} {p : Id} {ch : NodeOrText} (h : d.append p ch = .ok d') : Stable d d' := by
  cases ch with
  | node c => rw [append_node_eq] at h; exact Stable.appendRaw h
  | text s =>
    rcases append_text_ok h with ⟨_, ⟨hl, old, _, hold, _, hd, hs⟩ | ⟨_, h2⟩⟩
    · exact Stable.textChange hs hold (isText_data hold) hd
    · exact (Stable.alloc d _).trans (Stable.appendRaw h2)

theorem Stable.appendBeforeSibling {d d' : Dom} {s : Id} {ch : NodeOrText} (h : d.appendBeforeSibling s ch = .ok d') :
    Stable d d' := by
  obtain ⟨P, i, _, _, _, hm⟩ := appendBeforeSibling_ok h
  cases ch with
  | node c => exact Stable.insertAtIndex hm
  | text t =>
    rcases hm with ⟨prev, old, _, _, hold, _, hd, hs⟩ | ⟨_, h2⟩
    · exact Stable.textChange hs hold (isText_data hold) hd
    · exact (Stable.alloc d _).trans (Stable.insertAtIndex h2)

theorem Stable.appendBeforeSiblingV {b : Dom.BeforeSiblingVariant} {d d' : Dom} {s : Id} {ch : NodeOrText}
    (h : d.appendBeforeSiblingV b s ch = .ok d') : Stable d d' := by
  rcases appendBeforeSiblingV_ok h with h1 | ⟨c, d1, _, hr, h2⟩
  · exact Stable.appendBeforeSibling h1
  · exact (Stable.removeFromParent hr).trans (Stable.appendBeforeSibling h2)

theorem Stable.appendBasedOnParentNodeV {b : Dom.BeforeSiblingVariant} {d d' : Dom} {e p : Id} {ch : NodeOrText}
    (h : d.appendBasedOnParentNodeV b e p ch = .ok d') : Stable d d' := by
  unfold Dom.appendBasedOnParentNodeV at h
  simp only [bind, Except.bind] at h
  cases he : d.get e with
  | error x => simp [he] at h
  | ok en =>
    simp only [he] at h
    by_cases hp : en.parent.isSome = true
    · simp only [hp, if_true] at h; exact Stable.appendBeforeSiblingV h
    · simp only [hp] at h; exact Stable.append h

theorem Stable.reparentChildren {d d' : Dom} {n np : Id} (h : d.reparentChildren n np = .ok d') : Stable d d' := by
  obtain ⟨_, _, _, _, _, hd, hs, _⟩ := reparentChildren_ok h
  exact Stable.of_data (Nat.le_of_eq hs.symm) hd

theorem Stable.createElement (d : Dom) (name : QualName) (attrs : List Attr) (flags : ElementFlags) :
    Stable d (d.createElement name attrs flags).1 := by
  unfold Dom.createElement
  by_cases ht : flags.template = true
  · simp only [ht, if_true]
    exact (Stable.alloc d _).trans (Stable.alloc _ _)
  · simp only [ht]
    exact Stable.alloc d _

/-- the sink operations whose effect on element data is covered here (all but
`add_attrs_if_missing`, which changes an element's attributes, and the `selectedcontent` cloning) -/
def Tame : SinkOp → Prop
  | .addAttrsIfMissing _ _ => False
  | .maybeCloneAnOptionIntoSelectedcontent _ => False
  | _ => True

theorem Stable.apply {d d' : Dom} {op : SinkOp} {out : Output} (ht : Tame op) (h : d.apply op = .ok (d', out)) :
    Stable d d' := by
  unfold Dom.apply Dom.applyV at h
  cases op <;> simp only [Tame] at ht <;> simp only [bind, Except.bind] at h
  case parseError msg => cases h; exact Stable.of_data (Nat.le_refl _) (fun _ => rfl)
  case getDocument => cases h; exact Stable.refl _
  case elemName t =>
    cases he : d.elemName t with
    | error e => simp [he] at h
    | ok v => simp [he] at h; rw [← h.1]; exact Stable.refl _
  case createElement name attrs flags => cases h; exact Stable.createElement d name attrs flags
  case createComment text => cases h; exact Stable.alloc d _
  case createPi t dd => cases h; exact Stable.alloc d _
  case append p c =>
    cases he : d.append p c with
    | error e => simp [he] at h
    | ok v => simp [he] at h; rw [← h.1]; exact Stable.append he
  case appendBasedOnParentNode e p c =>
    cases he : d.appendBasedOnParentNodeV Dom.beforeSiblingVariant e p c with
    | error e => simp [he] at h
    | ok v => simp [he] at h; rw [← h.1]; exact Stable.appendBasedOnParentNodeV he
  case appendDoctypeToDocument n p s =>
    cases he : d.appendDoctypeToDocument n p s with
    | error e => simp [he] at h
    | ok v =>
      simp [he] at h; rw [← h.1]
      unfold Dom.appendDoctypeToDocument at he
      exact (Stable.alloc d _).trans (Stable.appendRaw he)
  case markScriptAlreadyStarted n => cases h; exact Stable.refl _
  case pop n => cases h; exact Stable.refl _
  case getTemplateContents t =>
    cases he : d.getTemplateContents t with
    | error e => simp [he] at h
    | ok v => simp [he] at h; rw [← h.1]; exact Stable.refl _
  case sameNode x y => cases h; exact Stable.refl _
  case setQuirksMode m => cases h; exact Stable.of_data (Nat.le_refl _) (fun _ => rfl)
  case appendBeforeSibling s c =>
    cases he : d.appendBeforeSiblingV Dom.beforeSiblingVariant s c with
    | error e => simp [he] at h
    | ok v => simp [he] at h; rw [← h.1]; exact Stable.appendBeforeSiblingV he
  case associateWithForm a b c e => cases h; exact Stable.refl _
  case removeFromParent t =>
    cases he : d.removeFromParent t with
    | error e => simp [he] at h
    | ok v => simp [he] at h; rw [← h.1]; exact Stable.removeFromParent he
  case reparentChildren n np =>
    cases he : d.reparentChildren n np with
    | error e => simp [he] at h
    | ok v => simp [he] at h; rw [← h.1]; exact Stable.reparentChildren he
  case isMathmlAnnotationXmlIntegrationPoint t =>
    cases he : d.isMathmlAnnotationXmlIntegrationPoint t with
    | error e => simp [he] at h
    | ok v => simp [he] at h; rw [← h.1]; exact Stable.refl _
  case setCurrentLine n => cases h; exact Stable.refl _
  case allowDeclarativeShadowRoots p => cases h; exact Stable.refl _
  case attachDeclarativeShadow a b c => cases h; exact Stable.refl _

/-- what `Stable` is for: the sink's answers about an element do not change -/
theorem Stable.elemName {d d' : Dom} (hs : Stable d d') {h : Id} {n : Str × Str} (he : d.elemName h = .ok n) :
    d'.elemName h = .ok n := by
  have hel : d.isElement h = true := by
    unfold Dom.elemName at he
    simp only [bind, Except.bind] at he
    cases hg : d.get h with
    | error e => simp [hg] at he
    | ok nd =>
      simp only [hg] at he
      unfold Dom.isElement; rw [dataOf_of_node (get_ok.mp hg)]
      cases hd : nd.data <;> simp [hd] at he ⊢
  have hdat := hs.data h hel
  have hlt : h < d'.size := Nat.lt_of_lt_of_le (isElement_lt hel) hs.size
  obtain ⟨n0, hn0⟩ := node?_of_lt (isElement_lt hel)
  obtain ⟨n1, hn1⟩ := node?_of_lt hlt
  rw [dataOf_of_node hn0, dataOf_of_node hn1] at hdat
  unfold Dom.elemName at he ⊢
  simp only [bind, Except.bind, get_ok_of hn0, get_ok_of hn1] at he ⊢
  have : n1.data = n0.data := by simpa using hdat
  rw [this]; exact he

theorem elemName_lt {d : Dom} {h : Id} {n : Str × Str} (he : d.elemName h = .ok n) : h < d.size := by
  unfold Dom.elemName at he
  simp only [bind, Except.bind] at he
  cases hg : d.get h with
  | error e => simp [hg] at he
  | ok nd => exact node?_lt (get_ok.mp hg)

/-! ### the triple -/

/-- `calls`, replayed on `d`, succeed with the recorded answers and give `d'` -/
def Replay : Dom → List Call → Dom → Prop
  | d, [], d' => d' = d
  | d, c :: r, d' => ∃ d1, d.apply c.1 = .ok (d1, c.2) ∧ Replay d1 r d'

theorem Replay.append {d d1 d2 : Dom} {a b : List Call} (h1 : Replay d a d1) (h2 : Replay d1 b d2) :
    Replay d (a ++ b) d2 := by
  induction a generalizing d with
  | nil => simp only [Replay] at h1; subst h1; exact h2
  | cons c r ih =>
    obtain ⟨dm, hm, hr⟩ := h1
    exact ⟨dm, hm, ih hr⟩

/-- the state `s'` is reached from `s` by the sink calls `calls` (and changes of the tree
builder's own fields) -/
structure Ext (s : State) (calls : List Call) (s' : State) : Prop where
  trace : s'.traceRev = calls.reverse ++ s.traceRev
  replay : Replay s.dom calls s'.dom
  stable : Stable s.dom s'.dom

theorem Ext.refl (s : State) : Ext s [] s := ⟨rfl, rfl, Stable.refl _⟩

theorem Ext.of_eq {s s' : State} (hd : s'.dom = s.dom) (ht : s'.traceRev = s.traceRev) : Ext s [] s' :=
  ⟨by simpa using ht, hd, hd ▸ Stable.refl _⟩

theorem Ext.trans {s s1 s2 : State} {a b : List Call} (h1 : Ext s a s1) (h2 : Ext s1 b s2) : Ext s (a ++ b) s2 :=
  ⟨by rw [h2.trace, h1.trace]; simp, h1.replay.append h2.replay, h1.stable.trans h2.stable⟩

def Tot {α : Type} (m : M α) (s : State) (Q : α → State → List Call → Prop) : Prop :=
  match m.run s with
  | .ok (a, s') => ∃ calls, Ext s calls s' ∧ Q a s' calls
  | .error e => SinkErr e

theorem tot_pure {α : Type} {s : State} {a : α} {Q : α → State → List Call → Prop} (h : Q a s []) :
    Tot (pure a : M α) s Q := ⟨[], Ext.refl s, h⟩

theorem tot_conseq {α : Type} {m : M α} {s : State} {Q Q' : α → State → List Call → Prop}
    (h : Tot m s Q) (hq : ∀ a s' calls, Ext s calls s' → Q a s' calls → Q' a s' calls) : Tot m s Q' := by
  unfold Tot at h ⊢
  cases hm : m.run s with
  | error e => rw [hm] at h; exact h
  | ok p =>
    obtain ⟨a, s'⟩ := p
    rw [hm] at h
    obtain ⟨calls, he, hq'⟩ := h
    exact ⟨calls, he, hq a s' calls he hq'⟩

theorem tot_bind {α β : Type} {m : M α} {f : α → M β} {s : State} {Q : β → State → List Call → Prop}
    (h : Tot m s (fun a s1 c1 => Tot (f a) s1 (fun b s2 c2 => Q b s2 (c1 ++ c2)))) : Tot (m >>= f) s Q := by
  unfold Tot at h ⊢
  rw [StateT.run_bind]
  cases hm : m.run s with
  | error e => rw [hm] at h; exact h
  | ok p =>
    obtain ⟨a, s1⟩ := p
    rw [hm] at h
    obtain ⟨c1, he1, h2⟩ := h
    show (match (f a).run s1 with
      | .ok (b, s') => ∃ calls, Ext s calls s' ∧ Q b s' calls
      | .error e => SinkErr e)
    cases hf : (f a).run s1 with
    | error e => rw [hf] at h2; exact h2
    | ok q =>
      obtain ⟨b, s2⟩ := q
      rw [hf] at h2
      obtain ⟨c2, he2, hq⟩ := h2
      exact ⟨c1 ++ c2, he1.trans he2, hq⟩

theorem tot_getS_bind {β : Type} {f : State → M β} {s : State} {Q : β → State → List Call → Prop}
    (h : Tot (f s) s Q) : Tot (getS >>= f) s Q := h

theorem tot_getS {s : State} {Q : State → State → List Call → Prop} (h : Q s s []) : Tot getS s Q :=
  ⟨[], Ext.refl s, h⟩

theorem tot_modS {f : State → State} {s : State} {Q : Unit → State → List Call → Prop}
    (hd : (f s).dom = s.dom) (ht : (f s).traceRev = s.traceRev) (h : Q () (f s) []) : Tot (modS f) s Q :=
  ⟨[], Ext.of_eq hd ht, h⟩

theorem tot_set {s2 s : State} {Q : Unit → State → List Call → Prop}
    (hd : s2.dom = s.dom) (ht : s2.traceRev = s.traceRev) (h : Q () s2 []) : Tot (set s2 : M Unit) s Q :=
  ⟨[], Ext.of_eq hd ht, h⟩

/-- the state after a successful sink call -/
def afterCall (s : State) (d' : Dom) (op : SinkOp) (out : Output) : State :=
  { s with dom := d', traceRev := (op, out) :: s.traceRev }

theorem ext_call {s : State} {d' : Dom} {op : SinkOp} {out : Output} (ht : Tame op)
    (h : s.dom.apply op = .ok (d', out)) : Ext s [(op, out)] (afterCall s d' op out) :=
  ⟨rfl, ⟨d', h, rfl⟩, Stable.apply ht h⟩

theorem tot_sink {op : SinkOp} {s : State} {Q : Output → State → List Call → Prop} (ht : Tame op)
    (h : ∀ d' out, s.dom.apply op = .ok (d', out) → Q out (afterCall s d' op out) [(op, out)]) :
    Tot (sink op) s Q := by
  unfold Tot
  have hrun : (sink op).run s = (match s.dom.apply op with
      | .error e => .error (errClass e ++ "@sink: " ++ e)
      | .ok (d, out) => .ok (out, afterCall s d op out)) := rfl
  rw [hrun]
  cases ha : s.dom.apply op with
  | error e => exact ⟨e, rfl⟩
  | ok p =>
    obtain ⟨d', out⟩ := p
    exact ⟨[(op, out)], ext_call ht ha, h d' out ha⟩

/- `Tot` unfolds to a `match` on the run of the model: keep the elaborator from evaluating the model
when a triple is instantiated with a concrete state (the rules above are all that is needed). -/
attribute [irreducible] Tot

end H5V.Lemmas.HtmlTBAlgo
