import H5V.Lemmas.HtmlTBModesBase
import H5V.Lemmas.HtmlTBSpecAttrs
/-!
The abstraction of the model's full tree-builder state to the state of `H5V.Spec.TreeModes`, the
conversion of tokens, and the translation of the specification's log to `TreeSink` calls.

* `absF s x : Spec.TreeModes.State Id` — the abstract state of the model state `s`; `x : Aux` carries
  what the model does not have (node supply, logs, parse-error labels, the answers to the tokenizer,
  the list of `annotation-xml` integration points, …) and the values of fields the model forgets
  (`orig_mode` after it was taken, the pending table text after it was flushed).
* `mapP f` — change of the token type of a `PState` (`Tag ↦ ETok`): the algorithms of `Spec.TreeAlgo2`
  are natural in the token type (`H5V.Lemmas.HtmlTBModesNat`).
* `opCall tc` — the `TreeSink` call of an entry of `State.fullLog`; `flatCalls` — a call list with every
  text insertion split into single characters (so that "one `append` of `abc`" and "three insertions of
  one character" compare equal) and the `had_duplicate_attributes` flag erased.
-/
namespace H5V.Lemmas.HtmlTBModes
open H5V.Model.HtmlTB
open H5V.Model.Dom (Id SinkOp Output Dom QualName Attr NodeOrText ElementFlags NodeData QuirksMode)
open H5V.Lemmas.HtmlTBAlgo
open H5V.Lemmas.HtmlTBSpec (toAdj Plain)
open H5V.Spec.TreeAlgo2 (Elem Entry PState Ctx Edit Place)
open H5V.Spec.TreeAlgo (DocMode)
open H5V.Spec.TreeModes (STok ETok IMode Config Out TokSwitch XOp Op Step Edition)

abbrev SState := Spec.TreeModes.State Id
abbrev STag := Spec.TreeModes.Tag

/-! ### tokens -/

/-- the model's tag as the specification's tag token (attribute names: the local names) -/
def specTag (t : Tag) : STag :=
  { name := t.name, attrs := t.attrs.map (fun a => ⟨a.name.loc, a.value⟩), selfClosing := t.selfClosing }

/-- the token an element is created for: the model's tag with its (possibly adjusted) attributes -/
def etokOf (t : Tag) : ETok := { name := t.name, attrs := t.attrs.map toAdj }

/-- a tag as the tokenizer delivers it: no attribute has a prefix or a namespace -/
def PlainTag (t : Tag) : Prop := ∀ a ∈ t.attrs, Plain a

def stokOfTag (t : Tag) : STok := if t.kind == .startTag then .startTag (specTag t) else .endTag (specTag t)

/-- the standard's tokens of a token of the tree builder -/
def stoksOf : Token → List STok
  | .tag t => [stokOfTag t]
  | .comment d => [.comment d]
  | .chars _ text => text.map .character
  | .nullChar => [.character '\x00']
  | .eof => [.eof]

/-! ### scalar fields -/

def imode : Mode → IMode
  | .initial => .initial | .beforeHtml => .beforeHtml | .beforeHead => .beforeHead | .inHead => .inHead
  | .inHeadNoscript => .inHeadNoscript | .afterHead => .afterHead | .inBody => .inBody | .text => .text
  | .inTable => .inTable | .inTableText => .inTableText | .inCaption => .inCaption
  | .inColumnGroup => .inColumnGroup | .inTableBody => .inTableBody | .inRow => .inRow | .inCell => .inCell
  | .inTemplate => .inTemplate | .afterBody => .afterBody | .inFrameset => .inFrameset
  | .afterFrameset => .afterFrameset | .afterAfterBody => .afterAfterBody
  | .afterAfterFrameset => .afterAfterFrameset

def dmode : QuirksMode → DocMode
  | .quirks => .quirks | .limitedQuirks => .limitedQuirks | .noQuirks => .noQuirks

def entryE : FormatEntry → Entry Id ETok
  | .marker => .marker
  | .element h t => .element h (etokOf t)

def absListE (af : List FormatEntry) : List (Entry Id ETok) := af.map entryE

/-- the pending table character tokens: the chunks of `pending_table_text`, concatenated -/
def pendingChars (l : List (SplitStatus × Str)) : Str := l.flatMap (·.2)

/-! ### change of token type -/
section MapP
variable {N T T' : Type}

def Entry.mapTok (f : T → T') : Entry N T → Entry N T'
  | .marker => .marker
  | .element n t => .element n (f t)

def Edit.mapTok (f : T → T') : Edit N T → Edit N T'
  | .create new ns tok => .create new ns (f tok)
  | .associateForm e fo pl => .associateForm e fo pl
  | .insert pl c => .insert pl c
  | .insertText pl t => .insertText pl t
  | .createComment new t => .createComment new t
  | .remove n => .remove n
  | .moveChildren a b => .moveChildren a b

def mapP (f : T → T') (st : PState N T) : PState N T' :=
  { stack := st.stack, list := st.list.map (Entry.mapTok f), fosterParenting := st.fosterParenting,
    formPointer := st.formPointer, supply := st.supply, log := st.log.map (Edit.mapTok f) }

end MapP

/-! ### the abstraction -/

/-- what the model state does not determine -/
structure Aux where
  supply : List Id := []
  log : List (Edit Id ETok) := []
  xlog : List (Nat × XOp Id) := []
  errors : List String := []
  annot : List Id := []
  out : Out Id := {}
  outs : List (Out Id) := []
  stopped : Bool := false
  /-- the original insertion mode while the model's `orig_mode` is `None` -/
  origDefault : IMode := .initial
  /-- the pending table character tokens while the insertion mode is not "in table text" -/
  pendingJunk : Str := []

/-- (after "stop parsing" the specification's stack is empty; html5ever keeps its stack until
`TokenSink::end`) -/
def absP (s : State) (x : Aux) : PState Id ETok :=
  { stack := if x.stopped then [] else absStack s.dom s.openElems, list := absListE s.activeFormatting,
    fosterParenting := s.fosterParenting, formPointer := s.formElem, supply := x.supply, log := x.log }

def absF (s : State) (x : Aux) : SState :=
  { p := absP s x
    mode := imode s.mode
    originalMode := (s.origMode.map imode).getD x.origDefault
    templateModes := s.templateModes.map imode
    headPointer := s.headElem.map (elemOf s.dom)
    framesetOk := s.framesetOk
    pendingTableChars := if s.mode == .inTableText then pendingChars s.pendingTableText else x.pendingJunk
    quirks := dmode s.quirksMode
    ignoreLf := s.ignoreLf
    annotationHtml := x.annot
    stopped := x.stopped
    xlog := x.xlog
    errors := x.errors
    out := x.out
    outs := x.outs }

/-- the configuration of the specification for a model state: what does not change during a parse -/
def cfgOf (s : State) : Config Id :=
  { document := s.docHandle
    edition := .customizableSelect
    scripting := s.opts.scriptingEnabled
    srcdoc := s.opts.iframeSrcdoc
    cannotChangeMode := false
    context := s.contextElem.map (elemOf s.dom)
    contextEncodingHtml := (s.contextElem.map (ipOfDom s.dom)).getD false }

/-- the MathML `annotation-xml` element name -/
def annotName : EName := ⟨nsMathml, "annotation-xml".toList⟩

/-- the list of integration points is right for the `annotation-xml` elements on the stack (the flag of
other elements is never looked at), and only lists elements -/
structure AuxOk (s : State) (x : Aux) : Prop where
  live : x.stopped = false
  annot : ∀ h ∈ s.openElems, nameOf s.dom h = annotName → x.annot.contains h = ipOfDom s.dom h
  annotEl : ∀ a ∈ x.annot, s.dom.isElement a = true
  /-- the tags of the extra operations are positions of the edit log, in order -/
  xlog : (x.xlog.map (·.1)).Pairwise (· ≤ ·) ∧ ∀ j ∈ x.xlog.map (·.1), j ≤ x.log.length

/-- the abstraction of `absState` (token type `Tag`) and `absP` (token type `ETok`) agree -/
theorem mapP_absState (s : State) (supply : List Id) (log : List (Edit Id Tag)) :
    mapP etokOf (absState s supply log)
      = absP s { supply := supply, log := log.map (Edit.mapTok etokOf) } := by
  simp only [mapP, absState, absP, absListE, absList, List.map_map, Bool.false_eq_true, if_false]
  congr 1
  apply List.map_congr_left
  intro e _
  cases e <;> rfl

/-! ### the log as `TreeSink` calls -/

def attrOfAdj (a : Spec.TreeAlgo.AdjAttr) : Attr := { name := { pfx := a.pfx, ns := a.ns, loc := a.loc }, value := a.value }

def tagOfETok (t : ETok) : Tag := { kind := .startTag, name := t.name, attrs := t.attrs.map attrOfAdj }

/-- the call for an edit of the specification (`tc`: template contents) -/
def editCallE (tc : Id → Id) (e : Edit Id ETok) : Call := editCall tc (Edit.mapTok tagOfETok e)

def qmodeOf : DocMode → QuirksMode
  | .quirks => .quirks | .limitedQuirks => .limitedQuirks | .noQuirks => .noQuirks

def xopCall : XOp Id → Call
  | .appendDoctype _ n p s => (.appendDoctypeToDocument n p s, .unit)
  | .addMissingAttributes e attrs =>
    (.addAttrsIfMissing e (attrs.map fun a => { name := plainName a.name, value := a.value }), .unit)
  | .setDocumentMode m => (.setQuirksMode (qmodeOf m), .unit)

def opCall (tc : Id → Id) : Op Id → Call
  | .edit e => editCallE tc e
  | .x o => xopCall o

/-- the calls the comparison looks at: the edits of `HtmlTBAlgo.isEdit` without the calls the
specification does not model (`mark_script_already_started`, declarative shadow roots, the
`selectedcontent` cloning) and without `set_quirks_mode(NoQuirks)` (which html5ever issues for every
DOCTYPE and the standard only when the mode changes) -/
def isEdit2 : SinkOp → Bool
  | .markScriptAlreadyStarted _ => false
  | .attachDeclarativeShadow _ _ _ => false
  | .maybeCloneAnOptionIntoSelectedcontent _ => false
  | .setQuirksMode .noQuirks => false
  | op => isEdit op

def edits2 (calls : List Call) : List Call := calls.filter fun c => isEdit2 c.1

theorem edits2_append (a b : List Call) : edits2 (a ++ b) = edits2 a ++ edits2 b := by simp [edits2]
@[simp] theorem edits2_nil : edits2 [] = [] := rfl

/-- a call with the `had_duplicate_attributes` flag erased, a text insertion split into characters -/
def flatCall : Call → List Call
  | (.createElement n a f, o) => [(.createElement n a { f with hadDuplicateAttributes := false }, o)]
  | (.append p (.text t), o) => t.map fun c => (.append p (.text [c]), o)
  | (.appendBasedOnParentNode e p (.text t), o) => t.map fun c => (.appendBasedOnParentNode e p (.text [c]), o)
  | (.appendBeforeSibling sib (.text t), o) => t.map fun c => (.appendBeforeSibling sib (.text [c]), o)
  | c => [c]

def flatCalls (calls : List Call) : List Call := calls.flatMap flatCall

theorem flatCalls_append (a b : List Call) : flatCalls (a ++ b) = flatCalls a ++ flatCalls b := by
  simp [flatCalls]
@[simp] theorem flatCalls_nil : flatCalls [] = [] := rfl

/-- the merged log of an `Aux` -/
def Aux.fullLog (x : Aux) : List (Op Id) := Spec.TreeModes.mergeLog x.xlog 0 x.log

theorem absF_fullLog (s : State) (x : Aux) : (absF s x).fullLog = x.fullLog := rfl

end H5V.Lemmas.HtmlTBModes
