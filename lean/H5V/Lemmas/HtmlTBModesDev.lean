import H5V.Lemmas.HtmlTBModesSim2
/-!
**The one place where the standard's insertion modes are not executable as written**, and the
standard's driver (`dispatch`, `loop`, `processSTok`, `processChars`, `processToken`, `run`,
`parseDocument`, `parseFragment`) over the rules completed there.

"in cell", a start tag `caption`, `col`, `colgroup`, `tbody`, `td`, `tfoot`, `th`, `thead`, `tr`: the standard
says "Assert: The stack of open elements has a `td` or `th` element in table scope", and
`Spec.TreeModes.inCell` throws when the asserted condition fails.  html5ever is defensive there (parse
error, ignore the token); `byModeDev` is `Spec.TreeModes.byMode` with exactly this case defined that way
(`cellAssertFails`).  This is NOT a deviation: whenever the unmodified specification succeeds, the completed
one gives the same result (`byModeDev_of_byMode`, …, `parseDocumentDev_of_parseDocument`), and
`byModeDev = byMode` unless `cellAssertFails` (`byModeDev_eq`).  The copies of the driver are literally
those of `Spec.TreeModes4` with `byMode` replaced.

History: html5ever used to deviate from the standard in four places (A: DOCTYPE in "in table text" not
flushing the pending table text; B: `table_outer` of `process_chars_in_table` lacking `template`; C: the
"any other end tag" loop of the foreign-content rules testing the bottom of the stack before the HTML-element
test; D: the `input` start tag in a `select`-context fragment not being ignored).  They were found by this proof
effort, confirmed on the real code and FIXED there; the model follows the fixed code, and the earlier
modifications `devA`–`devC` of the specification are gone.  The former witnesses are regression examples in
`H5V.Props.C02Modes`.
-/
namespace H5V.Lemmas.HtmlTBModes
open H5V.Spec.TreeModes
open H5V.Spec.TreeAlgo (Str)
open H5V.Spec

section
variable {N : Type} [DecidableEq N]

def isCharacter : STok → Bool
  | .character _ => true
  | _ => false

def isDoctype : STok → Bool
  | .doctype .. => true
  | _ => false

def isStartTag : STok → Option Spec.TreeModes.Tag
  | .startTag t => some t
  | _ => none

/-- **not a deviation**: the one place where the standard only *asserts* ("in cell", a start tag `caption`,
`col`, `colgroup`, `tbody`, `td`, `tfoot`, `th`, `thead`, `tr`: "Assert: The stack of open elements has a `td` or
`th` element in table scope") and `Spec.TreeModes.inCell` therefore throws when the asserted condition fails.
html5ever is defensive there: parse error, ignore the token.  `cellAssertFails` is that case. -/
@[simp] def cellAssertFails (s : Spec.TreeModes.State N) (tok : STok) : Bool :=
  s.mode == .inCell &&
  (match isStartTag tok with
    | some t => t.isOneOf ["caption", "col", "colgroup", "tbody", "td", "tfoot", "th", "thead", "tr"]
    | none => false) &&
  !hasAnyInTableScope s ["td", "th"]

/-- the rules of the insertion modes, with the asserted-impossible case of "in cell" defined -/
def byModeDev (cfg : Config N) (s : Spec.TreeModes.State N) (tok : STok) : M (Step N) :=
  if cellAssertFails s tok then pure (.done (s.err "in cell: no cell in table scope (asserted impossible)"))
  else byMode cfg s tok

theorem byModeDev_eq (cfg : Config N) (s : Spec.TreeModes.State N) (tok : STok)
    (hc : cellAssertFails s tok = false) : byModeDev cfg s tok = byMode cfg s tok := by
  simp only [byModeDev, hc, Bool.false_eq_true, if_false]

theorem cellAssertFails_of_mode (s : Spec.TreeModes.State N) (tok : STok) (h : s.mode ≠ .inCell) :
    cellAssertFails s tok = false := by
  have : (s.mode == IMode.inCell) = false := by simpa using h
  simp only [cellAssertFails, this, Bool.false_and]

/-! the driver of `Spec.TreeModes4`, over `byModeDev` -/

def dispatchDev (cfg : Config N) (s : Spec.TreeModes.State N) (tok : STok) : M (Step N) :=
  if TreeAlgo.useHtmlRules (adjustedCurrentNode cfg s) (tokenKind tok) then byModeDev cfg s tok
  else foreign cfg s tok

def loopDev (cfg : Config N) : Nat → Bool → Spec.TreeModes.State N → STok → M (Spec.TreeModes.State N)
  | 0, _, _, _ => throw "out of fuel"
  | fuel + 1, html, s, tok => do
    let r ← if html then byModeDev cfg s tok else dispatchDev cfg s tok
    match r with
    | .done s => pure s
    | .reprocess s => loopDev cfg fuel false s tok
    | .reprocessHtml s => loopDev cfg fuel true s tok

def processSTokDev (cfg : Config N) (fuel : Nat) (s : Spec.TreeModes.State N) (tok : STok) : M (Spec.TreeModes.State N) :=
  if s.stopped then pure s
  else if s.ignoreLf then
    let s := { s with ignoreLf := false }
    if tok == .character '\n' then pure s else loopDev cfg fuel false s tok
  else loopDev cfg fuel false s tok

def processCharsDev (cfg : Config N) (fuel : Nat) : Spec.TreeModes.State N → Str → M (Spec.TreeModes.State N)
  | s, [] => pure s
  | s, c :: cs => do
    let s ← processSTokDev cfg fuel s (.character c)
    processCharsDev cfg fuel s cs

def processSToksDev (cfg : Config N) (fuel : Nat) : Spec.TreeModes.State N → List STok → M (Spec.TreeModes.State N)
  | s, [] => pure s
  | s, t :: ts => do
    let s ← processSTokDev cfg fuel s t
    processSToksDev cfg fuel s ts

def processTokenDev (cfg : Config N) (fuel : Nat) (s : Spec.TreeModes.State N) (tok : Spec.TreeModes.Token) :
    M (Spec.TreeModes.State N) := do
  let s := { s with out := {} }
  let s ← match tok with
    | .chars cs => processCharsDev cfg fuel s cs
    | _ => processSToksDev cfg fuel s tok.expand
  let s := match tok with
    | .startTag t => if t.selfClosing && !s.out.ackSelfClosing then s.err "non-void element with self-closing flag" else s
    | _ => s
  pure { s with outs := s.outs ++ [s.out] }

def runDev (cfg : Config N) (fuel : Nat) : Spec.TreeModes.State N → List Spec.TreeModes.Token → M (Spec.TreeModes.State N)
  | s, [] => pure s
  | s, t :: ts => do
    let s ← processTokenDev cfg fuel s t
    runDev cfg fuel s ts

def parseDocumentDev (cfg : Config N) (fuel : Nat) (supply : List N) (toks : List Spec.TreeModes.Token) :
    M (Spec.TreeModes.State N) :=
  runDev cfg fuel (initialState supply) toks

def parseFragmentDev (cfg : Config N) (fuel : Nat) (docMode : TreeAlgo.DocMode) (form : Option N) (supply : List N)
    (toks : List Spec.TreeModes.Token) : M (Spec.TreeModes.State N) := do
  let s ← fragmentState cfg docMode form supply
  runDev cfg fuel s toks


/-! ### whenever the unmodified specification succeeds, the completed one gives the same result -/

/-- the message with which `Spec.TreeModes.inCell` stops when the standard's Assert is violated -/
def cellAssertMsg : String := "in cell: Assert failed: no td or th in table scope"

theorem byMode_error_of_assert' (cfg : Config N) (s : Spec.TreeModes.State N) (tok : STok)
    (h : cellAssertFails s tok = true) : byMode cfg s tok = .error cellAssertMsg := by
  simp only [cellAssertFails, Bool.and_eq_true, beq_iff_eq, Bool.not_eq_true'] at h
  obtain ⟨⟨hm, ht⟩, hs⟩ := h
  cases tok with
  | startTag t =>
    simp only [isStartTag] at ht
    simp only [byMode, hm, inCell, ht, if_true, hs, Bool.not_false]
    rfl
  | _ => simp [isStartTag] at ht

theorem byMode_error_of_assert (cfg : Config N) (s : Spec.TreeModes.State N) (tok : STok)
    (h : cellAssertFails s tok = true) : ∃ e, byMode cfg s tok = .error e :=
  ⟨_, byMode_error_of_assert' cfg s tok h⟩

theorem byModeDev_of_byMode {cfg : Config N} {s : Spec.TreeModes.State N} {tok : STok} {r : Step N}
    (h : byMode cfg s tok = .ok r) : byModeDev cfg s tok = .ok r := by
  cases hc : cellAssertFails s tok
  · rw [byModeDev_eq cfg s tok hc]; exact h
  · obtain ⟨e, he⟩ := byMode_error_of_assert cfg s tok hc
    rw [he] at h; cases h

theorem dispatchDev_of_dispatch {cfg : Config N} {s : Spec.TreeModes.State N} {tok : STok} {r : Step N}
    (h : dispatch cfg s tok = .ok r) : dispatchDev cfg s tok = .ok r := by
  unfold dispatch at h
  unfold dispatchDev
  split
  · rename_i hu; rw [if_pos hu] at h; exact byModeDev_of_byMode h
  · rename_i hu; rw [if_neg hu] at h; exact h

theorem loopDev_of_loop {cfg : Config N} : ∀ (fuel : Nat) (html : Bool) (s : Spec.TreeModes.State N) (tok : STok)
    (r : Spec.TreeModes.State N), loop cfg fuel html s tok = .ok r → loopDev cfg fuel html s tok = .ok r := by
  intro fuel
  induction fuel with
  | zero => intro html s tok r h; simp [loop] at h
  | succ fuel ih =>
    intro html s tok r h
    rw [loop] at h
    rw [loopDev]
    cases html
    · simp only [Bool.false_eq_true, if_false] at h ⊢
      cases hd : dispatch cfg s tok with
      | error e => rw [hd] at h; cases h
      | ok st =>
        rw [hd] at h
        rw [dispatchDev_of_dispatch hd]
        cases st with
        | done s1 => exact h
        | reprocess s1 => exact ih _ _ _ _ h
        | reprocessHtml s1 => exact ih _ _ _ _ h
    · simp only [if_true] at h ⊢
      cases hd : byMode cfg s tok with
      | error e => rw [hd] at h; cases h
      | ok st =>
        rw [hd] at h
        rw [byModeDev_of_byMode hd]
        cases st with
        | done s1 => exact h
        | reprocess s1 => exact ih _ _ _ _ h
        | reprocessHtml s1 => exact ih _ _ _ _ h

theorem processSTokDev_of {cfg : Config N} {fuel : Nat} {s r : Spec.TreeModes.State N} {tok : STok}
    (h : processSTok cfg fuel s tok = .ok r) : processSTokDev cfg fuel s tok = .ok r := by
  unfold processSTok at h
  unfold processSTokDev
  split
  · rename_i hs; rw [if_pos hs] at h; exact h
  · rename_i hs
    rw [if_neg hs] at h
    split
    · rename_i hl
      rw [if_pos hl] at h
      dsimp only at h ⊢
      split
      · rename_i ht; rw [if_pos ht] at h; exact h
      · rename_i ht; rw [if_neg ht] at h; exact loopDev_of_loop _ _ _ _ _ h
    · rename_i hl; rw [if_neg hl] at h; exact loopDev_of_loop _ _ _ _ _ h

theorem processCharsDev_of {cfg : Config N} {fuel : Nat} : ∀ (cs : Str) (s r : Spec.TreeModes.State N),
    processChars cfg fuel s cs = .ok r → processCharsDev cfg fuel s cs = .ok r := by
  intro cs
  induction cs with
  | nil => intro s r h; exact h
  | cons c cs ih =>
    intro s r h
    simp only [processChars] at h
    simp only [processCharsDev]
    cases hp : processSTok cfg fuel s (.character c) with
    | error e => rw [hp] at h; cases h
    | ok s1 => rw [hp] at h; rw [processSTokDev_of hp]; exact ih _ _ h

theorem processSToksDev_of {cfg : Config N} {fuel : Nat} : ∀ (ts : List STok) (s r : Spec.TreeModes.State N),
    processSToks cfg fuel s ts = .ok r → processSToksDev cfg fuel s ts = .ok r := by
  intro ts
  induction ts with
  | nil => intro s r h; exact h
  | cons t ts ih =>
    intro s r h
    simp only [processSToks] at h
    simp only [processSToksDev]
    cases hp : processSTok cfg fuel s t with
    | error e => rw [hp] at h; cases h
    | ok s1 => rw [hp] at h; rw [processSTokDev_of hp]; exact ih _ _ h

theorem processTokenDev_of {cfg : Config N} {fuel : Nat} {s r : Spec.TreeModes.State N} {tok : Spec.TreeModes.Token}
    (h : processToken cfg fuel s tok = .ok r) : processTokenDev cfg fuel s tok = .ok r := by
  unfold processToken at h
  unfold processTokenDev
  cases tok with
  | chars cs =>
    dsimp only at h ⊢
    cases hp : processChars cfg fuel { s with out := {} } cs with
    | error e => rw [hp] at h; cases h
    | ok s1 => rw [hp] at h; rw [processCharsDev_of _ _ _ hp]; exact h
  | _ =>
    dsimp only at h ⊢
    cases hp : processSToks cfg fuel { s with out := {} } _ with
    | error e => rw [hp] at h; cases h
    | ok s1 => rw [hp] at h; rw [processSToksDev_of _ _ _ hp]; exact h

theorem runDev_of_run {cfg : Config N} {fuel : Nat} : ∀ (toks : List Spec.TreeModes.Token) (s r : Spec.TreeModes.State N),
    run cfg fuel s toks = .ok r → runDev cfg fuel s toks = .ok r := by
  intro toks
  induction toks with
  | nil => intro s r h; exact h
  | cons t ts ih =>
    intro s r h
    simp only [run] at h
    simp only [runDev]
    cases hp : processToken cfg fuel s t with
    | error e => rw [hp] at h; cases h
    | ok s1 => rw [hp] at h; rw [processTokenDev_of hp]; exact ih _ _ h

/-- **the completion is conservative**: a successful run of the unmodified specification is a run of the
completed one -/
theorem parseDocumentDev_of_parseDocument {cfg : Config N} {fuel : Nat} {supply : List N} {toks : List Spec.TreeModes.Token}
    {r : Spec.TreeModes.State N} (h : parseDocument cfg fuel supply toks = .ok r) :
    parseDocumentDev cfg fuel supply toks = .ok r := runDev_of_run _ _ _ h

theorem parseFragmentDev_of_parseFragment {cfg : Config N} {fuel : Nat} {docMode : TreeAlgo.DocMode} {form : Option N}
    {supply : List N} {toks : List Spec.TreeModes.Token} {r : Spec.TreeModes.State N}
    (h : parseFragment cfg fuel docMode form supply toks = .ok r) :
    parseFragmentDev cfg fuel docMode form supply toks = .ok r := by
  unfold parseFragment at h
  unfold parseFragmentDev
  cases hf : fragmentState cfg docMode form supply with
  | error e => rw [hf] at h; cases h
  | ok s1 => rw [hf] at h; exact runDev_of_run _ _ _ h

/-! ### conversely: where the completed specification succeeds, the unmodified one gives the same result or stops
at the violated Assert of "in cell" -/

/-- `a` (unmodified) gives the result of `b` (completed) or stops with `cellAssertMsg` -/
def StdOrAssert {α : Type} (a b : M α) : Prop :=
  ∀ r, b = .ok r → a = .ok r ∨ a = .error cellAssertMsg

theorem StdOrAssert.refl {α : Type} (a : M α) : StdOrAssert a a := fun _ h => Or.inl h

theorem StdOrAssert.bind {α β : Type} {a b : M α} {f g : α → M β} (h : StdOrAssert a b)
    (hf : ∀ x, StdOrAssert (f x) (g x)) : StdOrAssert (a >>= f) (b >>= g) := by
  intro r hr
  cases hb : b with
  | error e => rw [hb] at hr; cases hr
  | ok x =>
    rw [hb] at hr
    rcases h x hb with ha | ha
    · rw [ha]; exact hf x r hr
    · rw [ha]; exact Or.inr rfl

theorem stdOrAssert_byMode (cfg : Config N) (s : Spec.TreeModes.State N) (tok : STok) :
    StdOrAssert (byMode cfg s tok) (byModeDev cfg s tok) := by
  intro r hr
  cases hc : cellAssertFails s tok
  · rw [byModeDev_eq cfg s tok hc] at hr; exact Or.inl hr
  · exact Or.inr (byMode_error_of_assert' cfg s tok hc)

theorem stdOrAssert_dispatch (cfg : Config N) (s : Spec.TreeModes.State N) (tok : STok) :
    StdOrAssert (dispatch cfg s tok) (dispatchDev cfg s tok) := by
  unfold dispatch dispatchDev
  split
  · exact stdOrAssert_byMode cfg s tok
  · exact StdOrAssert.refl _

theorem stdOrAssert_loop (cfg : Config N) : ∀ (fuel : Nat) (html : Bool) (s : Spec.TreeModes.State N) (tok : STok),
    StdOrAssert (loop cfg fuel html s tok) (loopDev cfg fuel html s tok) := by
  intro fuel
  induction fuel with
  | zero => intro html s tok r h; simp [loopDev] at h
  | succ fuel ih =>
    intro html s tok
    rw [loop, loopDev]
    have hk : ∀ st : Step N, StdOrAssert
        (match st with
          | Step.done s => pure s
          | Step.reprocess s => loop cfg fuel false s tok
          | Step.reprocessHtml s => loop cfg fuel true s tok)
        (match st with
          | Step.done s => pure s
          | Step.reprocess s => loopDev cfg fuel false s tok
          | Step.reprocessHtml s => loopDev cfg fuel true s tok) := by
      intro st
      cases st with
      | done s1 => exact StdOrAssert.refl _
      | reprocess s1 => exact ih _ _ _
      | reprocessHtml s1 => exact ih _ _ _
    cases html
    · simp only [Bool.false_eq_true, if_false]
      exact StdOrAssert.bind (stdOrAssert_dispatch cfg s tok) hk
    · simp only [if_true]
      exact StdOrAssert.bind (stdOrAssert_byMode cfg s tok) hk

theorem stdOrAssert_processSTok (cfg : Config N) (fuel : Nat) (s : Spec.TreeModes.State N) (tok : STok) :
    StdOrAssert (processSTok cfg fuel s tok) (processSTokDev cfg fuel s tok) := by
  unfold processSTok processSTokDev
  split
  · exact StdOrAssert.refl _
  · split
    · dsimp only
      split
      · exact StdOrAssert.refl _
      · exact stdOrAssert_loop _ _ _ _ _
    · exact stdOrAssert_loop _ _ _ _ _

theorem stdOrAssert_processChars (cfg : Config N) (fuel : Nat) : ∀ (cs : Str) (s : Spec.TreeModes.State N),
    StdOrAssert (processChars cfg fuel s cs) (processCharsDev cfg fuel s cs) := by
  intro cs
  induction cs with
  | nil => intro s; exact StdOrAssert.refl _
  | cons c cs ih =>
    intro s
    simp only [processChars, processCharsDev]
    exact StdOrAssert.bind (stdOrAssert_processSTok _ _ _ _) (fun x => ih x)

theorem stdOrAssert_processSToks (cfg : Config N) (fuel : Nat) : ∀ (ts : List STok) (s : Spec.TreeModes.State N),
    StdOrAssert (processSToks cfg fuel s ts) (processSToksDev cfg fuel s ts) := by
  intro ts
  induction ts with
  | nil => intro s; exact StdOrAssert.refl _
  | cons t ts ih =>
    intro s
    simp only [processSToks, processSToksDev]
    exact StdOrAssert.bind (stdOrAssert_processSTok _ _ _ _) (fun x => ih x)

theorem stdOrAssert_processToken (cfg : Config N) (fuel : Nat) (s : Spec.TreeModes.State N) (tok : Spec.TreeModes.Token) :
    StdOrAssert (processToken cfg fuel s tok) (processTokenDev cfg fuel s tok) := by
  unfold processToken processTokenDev
  cases tok with
  | chars cs =>
    dsimp only
    exact StdOrAssert.bind (stdOrAssert_processChars _ _ _ _) (fun _ => StdOrAssert.refl _)
  | _ =>
    dsimp only
    exact StdOrAssert.bind (stdOrAssert_processSToks _ _ _ _) (fun _ => StdOrAssert.refl _)

theorem stdOrAssert_run (cfg : Config N) (fuel : Nat) : ∀ (toks : List Spec.TreeModes.Token) (s : Spec.TreeModes.State N),
    StdOrAssert (run cfg fuel s toks) (runDev cfg fuel s toks) := by
  intro toks
  induction toks with
  | nil => intro s; exact StdOrAssert.refl _
  | cons t ts ih =>
    intro s
    simp only [run, runDev]
    exact StdOrAssert.bind (stdOrAssert_processToken _ _ _ _) (fun x => ih x)

/-- **the completion only completes**: where `parseDocumentDev` yields `r`, the unmodified `parseDocument` yields `r`
too, or stops at the violated Assert of "in cell" -/
theorem parseDocument_of_parseDocumentDev {cfg : Config N} {fuel : Nat} {supply : List N} {toks : List Spec.TreeModes.Token}
    {r : Spec.TreeModes.State N} (h : parseDocumentDev cfg fuel supply toks = .ok r) :
    parseDocument cfg fuel supply toks = .ok r ∨ parseDocument cfg fuel supply toks = .error cellAssertMsg :=
  stdOrAssert_run cfg fuel toks _ r h

theorem parseFragment_of_parseFragmentDev {cfg : Config N} {fuel : Nat} {docMode : TreeAlgo.DocMode} {form : Option N}
    {supply : List N} {toks : List Spec.TreeModes.Token} {r : Spec.TreeModes.State N}
    (h : parseFragmentDev cfg fuel docMode form supply toks = .ok r) :
    parseFragment cfg fuel docMode form supply toks = .ok r ∨
      parseFragment cfg fuel docMode form supply toks = .error cellAssertMsg := by
  unfold parseFragment
  unfold parseFragmentDev at h
  exact StdOrAssert.bind (StdOrAssert.refl _) (fun x => stdOrAssert_run cfg fuel toks x) r h

end
end H5V.Lemmas.HtmlTBModes
