import H5V.Lemmas.HtmlTokSpecAttr
set_option linter.unusedSimpArgs false
/-!
# C01 simulation — character classes of the two sides, the goal of the table lemmas (`TabOk`) and
the tactics that discharge one leaf of a table case split
-/
namespace H5V.Lemmas.HtmlTokSpec
open H5V.Model.HtmlTok
open H5V.Spec.HtmlTokenizer (St Tok Emit Tree Switch Ctl ReturnSt normalizeNewlinesFrom normalizeNewlines
  dedupAttrs)
open H5V.Spec.HtmlTokenizer

theorem char_le_iff (a b : Char) : a ≤ b ↔ a.toNat ≤ b.toNat := by
  rw [Char.le_def, UInt32.le_iff_toNat_le]; rfl

theorem toAsciiLower_eq (c : Char) : toAsciiLower c = lowercase c := by
  unfold toAsciiLower lowercase isAsciiUpperAlpha
  simp

theorem up_iff (c : Char) : isAsciiUpperAlpha c = true ↔ 65 ≤ c.toNat ∧ c.toNat ≤ 90 := by
  unfold isAsciiUpperAlpha; simp [char_le_iff]
theorem low_iff (c : Char) : isAsciiLowerAlpha c = true ↔ 97 ≤ c.toNat ∧ c.toNat ≤ 122 := by
  unfold isAsciiLowerAlpha; simp [char_le_iff]
theorem up_false_iff (c : Char) : isAsciiUpperAlpha c = false ↔ ¬ (65 ≤ c.toNat ∧ c.toNat ≤ 90) := by
  rw [← up_iff]; simp
theorem low_false_iff (c : Char) : isAsciiLowerAlpha c = false ↔ ¬ (97 ≤ c.toNat ∧ c.toNat ≤ 122) := by
  rw [← low_iff]; simp

theorem lowerAsciiLetter_some {c cl : Char} (h : lowerAsciiLetter c = some cl) :
    isAsciiAlpha c = true ∧ cl = lowercase c ∧
    ((isAsciiUpperAlpha c = true) ∨ (isAsciiUpperAlpha c = false ∧ isAsciiLowerAlpha c = true ∧ cl = c)) := by
  unfold lowerAsciiLetter at h
  simp only [char_le_iff, Char.reduceToNat] at h
  split at h
  · rename_i h1
    simp only [Option.some.injEq] at h; subst h
    have e1 : isAsciiUpperAlpha c = false := by rw [up_false_iff]; omega
    have e2 : isAsciiLowerAlpha c = true := by rw [low_iff]; omega
    simp [isAsciiAlpha, lowercase, e1, e2]
  · split at h
    · rename_i h1 h2
      simp only [Option.some.injEq] at h; subst h
      have e1 : isAsciiUpperAlpha c = true := by rw [up_iff]; omega
      simp [isAsciiAlpha, lowercase, e1]
    · simp at h

theorem lowerAsciiLetter_none {c : Char} (h : lowerAsciiLetter c = none) :
    isAsciiAlpha c = false ∧ isAsciiUpperAlpha c = false ∧ isAsciiLowerAlpha c = false := by
  unfold lowerAsciiLetter at h
  simp only [char_le_iff, Char.reduceToNat] at h
  split at h
  · simp at h
  · split at h
    · simp at h
    · rename_i h1 h2
      have e1 : isAsciiUpperAlpha c = false := by rw [up_false_iff]; omega
      have e2 : isAsciiLowerAlpha c = false := by rw [low_false_iff]; omega
      simp [isAsciiAlpha, e1, e2]

theorem isWs_iff (c : Char) : isWs c = true ↔ c = '\t' ∨ c = '\n' ∨ c = '\x0c' ∨ c = ' ' := by
  unfold isWs; simp [or_assoc]

theorem isWs_false {c : Char} (h : ¬ isWs c = true) : c ≠ '\t' ∧ c ≠ '\n' ∧ c ≠ '\x0c' ∧ c ≠ ' ' := by
  rw [isWs_iff] at h
  simpa [not_or] using h

/-! ## classification of a character -/

/-- the literal characters tested by some state of either side -/
def specials : List Char :=
  ['\t', '\n', '\x0c', ' ', '!', '"', '#', '&', '\'', '-', '/', ';', '<', '=', '>', '?', '\x00', ']', '`', '\r']

/-- facts about a character that is none of the `specials` -/
structure NoSpecial (c : Char) : Prop where
  n1 : c ≠ '\t'
  n2 : c ≠ '\n'
  n3 : c ≠ '\x0c'
  n4 : c ≠ ' '
  n5 : c ≠ '!'
  n6 : c ≠ '"'
  n7 : c ≠ '#'
  n8 : c ≠ '&'
  n9 : c ≠ '\''
  n10 : c ≠ '-'
  n11 : c ≠ '/'
  n12 : c ≠ ';'
  n13 : c ≠ '<'
  n14 : c ≠ '='
  n15 : c ≠ '>'
  n16 : c ≠ '?'
  n17 : c ≠ '\x00'
  n18 : c ≠ ']'
  n19 : c ≠ '`'
  n20 : c ≠ '\r'
  ws : isWs c = false

theorem noSpecial_of_not_mem {c : Char} (h : c ∉ specials) : NoSpecial c := by
  simp only [specials, List.mem_cons, List.not_mem_nil, or_false, not_or] at h
  obtain ⟨h1, h2, h3, h4, h5, h6, h7, h8, h9, h10, h11, h12, h13, h14, h15, h16, h17, h18, h19, h20⟩ := h
  exact ⟨h1, h2, h3, h4, h5, h6, h7, h8, h9, h10, h11, h12, h13, h14, h15, h16, h17, h18, h19, h20,
    by simp [isWs, h1, h2, h3, h4]⟩

theorem alpha_not_special {c : Char} (h : isAsciiAlpha c = true) : c ∉ specials := by
  intro hm
  simp only [specials, List.mem_cons, List.not_mem_nil, or_false] at hm
  rcases hm with rfl | rfl | rfl | rfl | rfl | rfl | rfl | rfl | rfl | rfl | rfl | rfl | rfl | rfl | rfl | rfl | rfl | rfl | rfl | rfl <;>
    exact absurd h (by decide)

/-- upper-case ASCII letter -/
structure UpperF (c : Char) : Prop where
  ns : NoSpecial c
  up : isAsciiUpperAlpha c = true
  lo : isAsciiLowerAlpha c = false
  al : isAsciiAlpha c = true
  lal : lowerAsciiLetter c = some (lowercase c)
  tl : toAsciiLower c = lowercase c

/-- lower-case ASCII letter -/
structure LowerF (c : Char) : Prop where
  ns : NoSpecial c
  up : isAsciiUpperAlpha c = false
  lo : isAsciiLowerAlpha c = true
  al : isAsciiAlpha c = true
  lal : lowerAsciiLetter c = some c
  tl : toAsciiLower c = c
  lc : lowercase c = c

/-- neither a letter nor one of the listed characters -/
structure OtherF (c : Char) : Prop where
  up : isAsciiUpperAlpha c = false
  lo : isAsciiLowerAlpha c = false
  al : isAsciiAlpha c = false
  lal : lowerAsciiLetter c = none
  tl : toAsciiLower c = c
  lc : lowercase c = c

theorem classify (L : List Char) (c : Char) :
    c ∈ L ∨ UpperF c ∨ LowerF c ∨ (c ∉ L ∧ OtherF c) := by
  by_cases hm : c ∈ L
  · exact Or.inl hm
  · right
    cases hl : lowerAsciiLetter c with
    | none =>
      obtain ⟨l1, l2, l3⟩ := lowerAsciiLetter_none hl
      exact Or.inr (Or.inr ⟨hm, l2, l3, l1, hl, by rw [toAsciiLower_eq]; simp [lowercase, l2], by simp [lowercase, l2]⟩)
    | some cl =>
      obtain ⟨l1, l2, l3⟩ := lowerAsciiLetter_some hl
      have hns := noSpecial_of_not_mem (alpha_not_special l1)
      rcases l3 with l3 | ⟨l3, l4, l5⟩
      · refine Or.inl ⟨hns, l3, ?_, l1, by rw [hl, l2], toAsciiLower_eq c⟩
        rw [low_false_iff]; rw [up_iff] at l3; omega
      · subst l5
        refine Or.inr (Or.inl ⟨hns, l3, l4, l1, hl, by rw [toAsciiLower_eq]; exact l2.symm, l2.symm⟩)


theorem replacementCharacter_eq : replacementCharacter = '\uFFFD' := by decide

/-! ### evaluation of the character classes on the literal characters -/

theorem lowerAsciiLetter_special {c : Char}
    (h : c = '\t' ∨ c = '\n' ∨ c = '\x0c' ∨ c = ' ' ∨ c = '!' ∨ c = '\"' ∨ c = '#' ∨ c = '&' ∨ c = '\'' ∨ c = '-' ∨ c = '/' ∨ c = ';' ∨ c = '<' ∨ c = '=' ∨ c = '>' ∨ c = '?' ∨ c = '\x00' ∨ c = ']' ∨ c = '`' ∨ c = '\r') :
    lowerAsciiLetter c = none := by
  rcases h with rfl | rfl | rfl | rfl | rfl | rfl | rfl | rfl | rfl | rfl | rfl | rfl | rfl | rfl | rfl | rfl | rfl | rfl | rfl | rfl <;> decide

theorem toAsciiLower_special {c : Char}
    (h : c = '\t' ∨ c = '\n' ∨ c = '\x0c' ∨ c = ' ' ∨ c = '!' ∨ c = '\"' ∨ c = '#' ∨ c = '&' ∨ c = '\'' ∨ c = '-' ∨ c = '/' ∨ c = ';' ∨ c = '<' ∨ c = '=' ∨ c = '>' ∨ c = '?' ∨ c = '\x00' ∨ c = ']' ∨ c = '`' ∨ c = '\r') :
    toAsciiLower c = c := by
  rcases h with rfl | rfl | rfl | rfl | rfl | rfl | rfl | rfl | rfl | rfl | rfl | rfl | rfl | rfl | rfl | rfl | rfl | rfl | rfl | rfl <;> decide

theorem isAsciiUpperAlpha_special {c : Char}
    (h : c = '\t' ∨ c = '\n' ∨ c = '\x0c' ∨ c = ' ' ∨ c = '!' ∨ c = '\"' ∨ c = '#' ∨ c = '&' ∨ c = '\'' ∨ c = '-' ∨ c = '/' ∨ c = ';' ∨ c = '<' ∨ c = '=' ∨ c = '>' ∨ c = '?' ∨ c = '\x00' ∨ c = ']' ∨ c = '`' ∨ c = '\r') :
    isAsciiUpperAlpha c = false := by
  rcases h with rfl | rfl | rfl | rfl | rfl | rfl | rfl | rfl | rfl | rfl | rfl | rfl | rfl | rfl | rfl | rfl | rfl | rfl | rfl | rfl <;> decide

theorem isAsciiLowerAlpha_special {c : Char}
    (h : c = '\t' ∨ c = '\n' ∨ c = '\x0c' ∨ c = ' ' ∨ c = '!' ∨ c = '\"' ∨ c = '#' ∨ c = '&' ∨ c = '\'' ∨ c = '-' ∨ c = '/' ∨ c = ';' ∨ c = '<' ∨ c = '=' ∨ c = '>' ∨ c = '?' ∨ c = '\x00' ∨ c = ']' ∨ c = '`' ∨ c = '\r') :
    isAsciiLowerAlpha c = false := by
  rcases h with rfl | rfl | rfl | rfl | rfl | rfl | rfl | rfl | rfl | rfl | rfl | rfl | rfl | rfl | rfl | rfl | rfl | rfl | rfl | rfl <;> decide

theorem isAsciiAlpha_special {c : Char}
    (h : c = '\t' ∨ c = '\n' ∨ c = '\x0c' ∨ c = ' ' ∨ c = '!' ∨ c = '\"' ∨ c = '#' ∨ c = '&' ∨ c = '\'' ∨ c = '-' ∨ c = '/' ∨ c = ';' ∨ c = '<' ∨ c = '=' ∨ c = '>' ∨ c = '?' ∨ c = '\x00' ∨ c = ']' ∨ c = '`' ∨ c = '\r') :
    isAsciiAlpha c = false := by
  rcases h with rfl | rfl | rfl | rfl | rfl | rfl | rfl | rfl | rfl | rfl | rfl | rfl | rfl | rfl | rfl | rfl | rfl | rfl | rfl | rfl <;> decide

theorem lowercase_special {c : Char}
    (h : c = '\t' ∨ c = '\n' ∨ c = '\x0c' ∨ c = ' ' ∨ c = '!' ∨ c = '\"' ∨ c = '#' ∨ c = '&' ∨ c = '\'' ∨ c = '-' ∨ c = '/' ∨ c = ';' ∨ c = '<' ∨ c = '=' ∨ c = '>' ∨ c = '?' ∨ c = '\x00' ∨ c = ']' ∨ c = '`' ∨ c = '\r') :
    lowercase c = c := by
  rcases h with rfl | rfl | rfl | rfl | rfl | rfl | rfl | rfl | rfl | rfl | rfl | rfl | rfl | rfl | rfl | rfl | rfl | rfl | rfl | rfl <;> decide

/-! ### two operations of the specification in closed form -/

theorem emitChars_eq (t : Tok) (s : Str) :
    t.emitChars s = { t with out := (s.map Emit.char).reverse ++ t.out } := by
  unfold Tok.emitChars
  induction s generalizing t with
  | nil => rfl
  | cons c s ih =>
    rw [List.foldl_cons, ih]
    simp [Tok.emitChar, Tok.emit]

/-- "appropriate end tag token" on both sides -/
theorem appropriate_eq (m : Mach) (t : Tok) (hk : m.tagKind = t.tagKind) (hn : m.tagName = t.tagName)
    (hl : m.lastStartTag = t.lastStartTag) : haveAppropriateEndTag m = t.isAppropriateEndTag := by
  unfold haveAppropriateEndTag Tok.isAppropriateEndTag
  rw [hk, hn, hl]
  cases t.lastStartTag with
  | none => simp
  | some l =>
    have e : (some l == some t.tagName) = (t.tagName == l) := by
      rw [Bool.eq_iff_iff, beq_iff_eq, beq_iff_eq, Option.some.injEq]
      exact eq_comm
    cases t.tagKind
    · rfl
    · show (true && (t.tagName == l)) = (true && (some l == some t.tagName))
      rw [e]

/-! ## the goal of a table lemma

`r` is the result of the model's table (`transChar` / `transSet` on a character) on the character
`c`; the specification, reading `c` followed by anything, reaches a configuration in which the
register part of the relation holds again, having consumed `c` unless the model reconsumes it. -/

def TabOk (tree : Tree) (t : Tok) (c : Char) (rest : Str) (r : Mach × Sig) : Prop :=
  r.2 = .cont ∧ Reach tree t (c :: rest) (fun t' rest' =>
     rest' = (if r.1.reconsume then c :: rest else rest) ∧ RegCore r.1 t')

/-- the `>` leaf of the tag states: `emit_current_tag` against "Emit the current tag token"; the
specification may first reconsume `>` in another state (`t1`) -/
theorem tabOk_gt (pol : Pol) (tree : Tree) (hpt : PolTree pol tree) (m : Mach) (t t1 t0 : Tok) (rest : Str)
    (hpre : t1 = t ∨ sstep tree t ('>' :: rest) = (t1, .advance 0))
    (hstep : sstep tree t1 ('>' :: rest) = ((t0.setState .data).emitCurrentTag tree, .advance 1))
    (hcr : m.charRef = none) (hrec : m.reconsume = false) (hlast : m.lastStartTag = t0.lastStartTag)
    (hk : m.tagKind = t0.tagKind) (hn : m.tagName = t0.tagName) (hsc : m.tagSelfClosing = t0.selfClosing)
    (ha : AttrR m.tagAttrs m.tagHadDup m.attrName m.attrValue t0.attrs) (hout : t0.out = flat m.out)
    (hcom : m.comment = []) :
    TabOk tree t '>' rest (emitTag pol .data m) := by
  obtain ⟨h1, h2, h3⟩ := emitTag_sim pol tree hpt m t0 hcr hlast hk hn hsc ha hout hcom
  have hfin : Reach tree t1 ('>' :: rest) (fun t' rest' =>
      rest' = (if (emitTag pol .data m).1.reconsume then '>' :: rest else rest) ∧
        RegCore (emitTag pol .data m).1 t') := by
    refine Reach.stepEq hstep (Reach.done ⟨?_, h3⟩)
    rw [h2, hrec]
    rfl
  refine ⟨h1, ?_⟩
  rcases hpre with rfl | hpre
  · exact hfin
  · exact Reach.stepEq hpre hfin

/-! ## tactics -/

/-- case split on a membership hypothesis `h : c ∈ [l₁, …, lₙ]` -/
macro "mem_cases" h:ident : tactic => `(tactic| (
  simp only [List.mem_cons, List.not_mem_nil, or_false] at $h:ident
  repeat' (rcases $h:ident with hmc | $h:ident)
  all_goals subst_vars))

/-- one step of the specification, computed -/
macro "spec_step" : tactic => `(tactic| (
  refine Reach.step' ?_ ?_ <;>
  simp (config := {decide := true}) [sstep, H5V.Spec.HtmlTokenizer.step,
    dataState, rcdataState, rawtextState, scriptDataState, plaintextState, tagOpenState, endTagOpenState, tagNameState,
    genericEndTagNameState, rcdataLessThanSignState, rcdataEndTagOpenState, rcdataEndTagNameState,
    rawtextLessThanSignState, rawtextEndTagOpenState, rawtextEndTagNameState, scriptDataLessThanSignState,
    scriptDataEndTagOpenState, scriptDataEndTagNameState, scriptDataEscapeStartState, scriptDataEscapeStartDashState,
    scriptDataEscapedState, scriptDataEscapedDashState, scriptDataEscapedDashDashState,
    scriptDataEscapedLessThanSignState, scriptDataEscapedEndTagOpenState, scriptDataEscapedEndTagNameState,
    scriptDataDoubleEscapeStartState, scriptDataDoubleEscapedState, scriptDataDoubleEscapedDashState,
    scriptDataDoubleEscapedDashDashState, scriptDataDoubleEscapedLessThanSignState, scriptDataDoubleEscapeEndState,
    beforeAttributeNameState, attributeNameState, afterAttributeNameState, beforeAttributeValueState,
    attributeValueDoubleQuotedState, attributeValueSingleQuotedState, attributeValueUnquotedState,
    afterAttributeValueQuotedState, selfClosingStartTagState, bogusCommentState,
    commentStartState, commentStartDashState, commentState, commentLessThanSignState, commentLessThanSignBangState,
    commentLessThanSignBangDashState, commentLessThanSignBangDashDashState, commentEndDashState, commentEndState,
    commentEndBangState, doctypeState, beforeDoctypeNameState, doctypeNameState,
    afterDoctypePublicKeywordState, beforeDoctypePublicIdentifierState, doctypePublicIdentifierDoubleQuotedState,
    doctypePublicIdentifierSingleQuotedState, afterDoctypePublicIdentifierState,
    betweenDoctypePublicAndSystemIdentifiersState, afterDoctypeSystemKeywordState, beforeDoctypeSystemIdentifierState,
    doctypeSystemIdentifierDoubleQuotedState, doctypeSystemIdentifierSingleQuotedState,
    afterDoctypeSystemIdentifierState, bogusDoctypeState, cdataSectionState, cdataSectionBracketState,
    cdataSectionEndState, ambiguousAmpersandState,
    Tok.switchTo, Tok.reconsumeIn, Tok.done, Tok.emitChar, Tok.emitNull, Tok.emit, Tok.setState, Tok.setReturnState,
    Tok.clearTemporaryBuffer, Tok.appendTemporaryBuffer, Tok.createTag, Tok.appendTagName, Tok.setSelfClosing,
    Tok.createComment, Tok.appendComment, Tok.appendCommentStr, Tok.emitComment, Tok.createDoctype, Tok.setForceQuirks,
    Tok.setDoctypeName, Tok.appendDoctypeName, Tok.setPublicIdEmpty, Tok.setSystemIdEmpty, Tok.appendPublicId,
    Tok.appendSystemId, Tok.emitDoctype, ReturnSt.toSt, ReturnSt.inAttribute,
    isAsciiUpperAlpha_special, isAsciiLowerAlpha_special, isAsciiAlpha_special, lowercase_special,
    replacementCharacter_eq, emitChars_eq, isAsciiAlphanumeric, *]))

/-- `Reach.done` and the six components of the goal -/
macro "tab_done" : tactic => `(tactic| (
  refine Reach.done ⟨?_, ?_, ?_, ?_, ?_, ?_⟩
  · simp (config := {decide := true}) [to, reconsumeTo, emitChar, emitChars, emit, emitErr, badChar, badEof,
      discardTag, H5V.Model.HtmlTok.createTag, pushTag, pushTemp, clearTemp, emitTempBuf, pushName, pushValue, appendValue,
      pushComment, H5V.Model.HtmlTok.appendComment, clearComment, H5V.Model.HtmlTok.emitComment,
      H5V.Model.HtmlTok.createDoctype, pushDoctypeName, pushDoctypeId, clearDoctypeId, forceQuirks,
      H5V.Model.HtmlTok.emitDoctype, *]
  · simp (config := {decide := true}) [Std, to, reconsumeTo, emitChar, emitChars, emit, emitErr, badChar, badEof,
      discardTag, H5V.Model.HtmlTok.createTag, pushTag, pushTemp, clearTemp, emitTempBuf, pushName, pushValue, appendValue,
      pushComment, H5V.Model.HtmlTok.appendComment, clearComment, H5V.Model.HtmlTok.emitComment,
      H5V.Model.HtmlTok.createDoctype, pushDoctypeName, pushDoctypeId, clearDoctypeId, forceQuirks,
      H5V.Model.HtmlTok.emitDoctype, *]
  · simp (config := {decide := true}) [stOf, altSt, isRet, to, reconsumeTo, emitChar, emitChars, emit, emitErr, badChar, badEof,
      discardTag, H5V.Model.HtmlTok.createTag, pushTag, pushTemp, clearTemp, emitTempBuf, pushName, pushValue, appendValue,
      pushComment, H5V.Model.HtmlTok.appendComment, clearComment, H5V.Model.HtmlTok.emitComment,
      H5V.Model.HtmlTok.createDoctype, pushDoctypeName, pushDoctypeId, clearDoctypeId, forceQuirks,
      H5V.Model.HtmlTok.emitDoctype, *]
  · simp (config := {decide := true}) [to, reconsumeTo, emitChar, emitChars, emit, emitErr, badChar, badEof,
      discardTag, H5V.Model.HtmlTok.createTag, pushTag, pushTemp, clearTemp, emitTempBuf, pushName, pushValue, appendValue,
      pushComment, H5V.Model.HtmlTok.appendComment, clearComment, H5V.Model.HtmlTok.emitComment,
      H5V.Model.HtmlTok.createDoctype, pushDoctypeName, pushDoctypeId, clearDoctypeId, forceQuirks,
      H5V.Model.HtmlTok.emitDoctype, *]
  · simp (config := {decide := true}) [RegRel, AttrRel, attrR_pushName, attrR_appendValue, attrR_createAttr,
      attrR_nil_iff, isTagSt, needsCur, usesTemp, usesComment, usesDoctype,
      to, reconsumeTo, emitChar, emitChars, emit, emitErr, badChar, badEof,
      discardTag, H5V.Model.HtmlTok.createTag, pushTag, pushTemp, clearTemp, emitTempBuf, pushName, pushValue, appendValue,
      pushComment, H5V.Model.HtmlTok.appendComment, clearComment, H5V.Model.HtmlTok.emitComment,
      H5V.Model.HtmlTok.createDoctype, pushDoctypeName, pushDoctypeId, clearDoctypeId, forceQuirks,
      H5V.Model.HtmlTok.emitDoctype, optPush, *]
  · simp (config := {decide := true}) [OutRel, cdataBuf, isCdata,
      to, reconsumeTo, emitChar, emitChars, emit, emitErr, badChar, badEof,
      discardTag, H5V.Model.HtmlTok.createTag, pushTag, pushTemp, clearTemp, emitTempBuf, pushName, pushValue, appendValue,
      pushComment, H5V.Model.HtmlTok.appendComment, clearComment, H5V.Model.HtmlTok.emitComment,
      H5V.Model.HtmlTok.createDoctype, pushDoctypeName, pushDoctypeId, clearDoctypeId, forceQuirks,
      H5V.Model.HtmlTok.emitDoctype, *]))

/-- a leaf of the case split: the model's result is computed, then 1, 2, 0 or 3 steps of the
specification lead to a configuration in the relation -/
macro "tab_leaf" : tactic => `(tactic| (first | contradiction | (
  try simp (config := {decide := true}) only [*, if_true, if_false, reduceCtorEq, Char.reduceEq, ne_eq, not_true_eq_false,
    not_false_eq_true, lowerAsciiLetter_special, toAsciiLower_special, isWs, Bool.or_false, Bool.or_true, Bool.false_or, Bool.true_or,
    decide_true, decide_false, Bool.false_eq_true, and_true, true_and, and_false, false_and, or_true, true_or,
    or_false, false_or]
  refine ⟨rfl, ?_⟩
  first
  | (spec_step; tab_done)
  | (spec_step; spec_step; tab_done)
  | tab_done
  | (spec_step; spec_step; spec_step; tab_done)
  | skip)))

/-- the case split of a table lemma on the character `c`: the listed literals, upper-case letter,
lower-case letter, anything else -/
macro "tab_cases" c:ident "[" ls:term,* "]" : tactic => `(tactic| (
  rcases classify [$ls,*] $c with hm | hU | hL | ⟨hm, hO⟩
  · mem_cases hm <;> tab_leaf
  · obtain ⟨⟨n1, n2, n3, n4, n5, n6, n7, n8, n9, n10, n11, n12, n13, n14, n15, n16, n17, n18, n19, n20, nws⟩,
      up, lo, al, lal, tl⟩ := hU
    tab_leaf
  · obtain ⟨⟨n1, n2, n3, n4, n5, n6, n7, n8, n9, n10, n11, n12, n13, n14, n15, n16, n17, n18, n19, n20, nws⟩,
      up, lo, al, lal, tl, lc⟩ := hL
    tab_leaf
  · simp only [List.mem_cons, List.not_mem_nil, or_false, not_or] at hm
    obtain ⟨up, lo, al, lal, tl, lc⟩ := hO
    tab_leaf))

/-- a table lemma: hypotheses `h : RegCore m t`, `hs : m.state = …`; case split on `c` -/
macro "tab_state" h:ident hs:ident c:ident "[" ls:term,* "]" : tactic => `(tactic| (
  obtain ⟨hstd, hst, hcr, hreg, hout⟩ := $h
  simp [$hs:ident, stOf, altSt, isRet] at hst
  simp [RegRel, AttrRel, $hs:ident, isTagSt, needsCur, usesTemp, usesComment, usesDoctype] at hreg
  simp [OutRel, cdataBuf, isCdata, $hs:ident] at hout
  unfold transChar
  simp only [$hs:ident]
  repeat' (rcases hst with hst | hst)
  all_goals (tab_cases $c [$ls,*])))

end H5V.Lemmas.HtmlTokSpec
