import H5V.Lemmas.HtmlTBFuelBody
/-!
# The fuel of `process_to_completion`, part 11: arms with helpers, tests and a `Reprocess` at the end

`AJ f m tok` — from a stack of elements, every successful run of the arm `f` answers quietly or with a
`Reprocess` that decreases the measure relative to the mode `m`; closed under helpers that do not increase
the stack part (`WJ`), `if`, and ending in `pure (.reprocess m' tok)` with `rank m' < rank m`.
-/
namespace H5V.Lemmas.TBFuel
open H5V.Model.HtmlTB
open H5V.Model.HtmlTok (TagKind)
open H5V.Model.Dom (Id QualName Attr NodeOrText SinkOp Output ElementFlags QuirksMode Dom NodeData Node)
open H5V.Lemmas.TBSafe
open H5V.Lemmas.TBC (ok_bind ok_pure ok_getS_bind ok_modS_bind ok_ite ok_bind_pure)

/-- `Dec`, never `SplitWhitespace` -/
def DecA (s : State) (m : Mode) (tok : Token) (r : ProcessResult) (s' : State) : Prop :=
  (∀ b, r ≠ .splitWhitespace b) ∧ Dec s m tok r s'

def AJ (f : M ProcessResult) (m : Mode) (tok : Token) : Prop :=
  ∀ s r s', AllEl s.dom s.openElems → f s = .ok (r, s') → DecA s m tok r s'

theorem decA_of_quiet {s s' : State} {m : Mode} {tok : Token} {r : ProcessResult} (h : Quiet r) :
    DecA s m tok r s' :=
  ⟨(fun b e => by rw [e] at h; exact h), dec_of_quiet h⟩

theorem aj_of_ro {f : M ProcessResult} {m : Mode} {tok : Token} (h : RO f Quiet) : AJ f m tok :=
  fun s r s' _ hr => decA_of_quiet (h s r s' hr)

theorem aj_ite {c : Prop} [Decidable c] {a b : M ProcessResult} {m : Mode} {tok : Token}
    (h1 : c → AJ a m tok) (h2 : ¬c → AJ b m tok) : AJ (if c then a else b) m tok := by
  by_cases hc : c
  · rw [if_pos hc]; exact h1 hc
  · rw [if_neg hc]; exact h2 hc

theorem aj_getS_bind {f : State → M ProcessResult} {m : Mode} {tok : Token} (h : ∀ s0, AJ (f s0) m tok) :
    AJ (getS >>= f) m tok := by
  intro s r s' hel hr
  exact h s s r s' hel (ok_getS_bind hr)

theorem aj_bind {α : Type} {pre : M α} {f : α → M ProcessResult} {m : Mode} {tok : Token} (h1 : WJ pre)
    (h2 : ∀ a, AJ (f a) m tok) : AJ (pre >>= f) m tok := by
  intro s r s'' hel hr
  obtain ⟨a, s', hm, hf⟩ := ok_bind hr
  obtain ⟨hw, hel'⟩ := h1 s a s' hm hel
  obtain ⟨hns, hd⟩ := h2 a s' r s'' hel' hf
  exact ⟨hns, hd.mono hw⟩

/-- the end of an edge -/
theorem aj_reprocess {m m' : Mode} {tok t : Token} (hm : m' ≠ .inTemplate)
    (hr : rank m' (cls tok) < rank m (cls tok)) : AJ (pure (ProcessResult.reprocess m' t)) m tok := by
  intro s r s' _ hrun
  obtain ⟨e1, e2⟩ := ok_pure hrun
  rw [← e1, ← e2]
  exact ⟨(fun b e => by cases e), dec_of_rank (WLe.refl s) (Or.inl hm) hr⟩

theorem dj_of_aj {f : M ProcessResult} {m : Mode} {tok : Token} (h : AJ f m tok) : DJ f m tok :=
  fun s r s' ht _ hr => (h s r s' ht.h.open_el hr).2

/-! ### rank inequalities from the tests of the arm -/

theorem rank_of_isStart {tag : Tag} {l : List String} {m m' : Mode} (h : tag.isStart l = true)
    (hall : ∀ x ∈ l, rank m' (clsTag .startTag x.toList) < rank m (clsTag .startTag x.toList)) :
    rank m' (cls (.tag tag)) < rank m (cls (.tag tag)) :=
  cls_of_isStart (P := fun c => rank m' c < rank m c) h hall

theorem rank_of_isEnd {tag : Tag} {l : List String} {m m' : Mode} (h : tag.isEnd l = true)
    (hall : ∀ x ∈ l, rank m' (clsTag .endTag x.toList) < rank m (clsTag .endTag x.toList)) :
    rank m' (cls (.tag tag)) < rank m (cls (.tag tag)) :=
  cls_of_isEnd (P := fun c => rank m' c < rank m c) h hall

theorem rank_of_startOrEnd {tag : Tag} {l1 l2 : List String} {m m' : Mode}
    (h : (tag.isStart l1 || tag.isEnd l2) = true)
    (h1 : ∀ x ∈ l1, rank m' (clsTag .startTag x.toList) < rank m (clsTag .startTag x.toList))
    (h2 : ∀ x ∈ l2, rank m' (clsTag .endTag x.toList) < rank m (clsTag .endTag x.toList)) :
    rank m' (cls (.tag tag)) < rank m (cls (.tag tag)) :=
  cls_of_startOrEnd (P := fun c => rank m' c < rank m c) h h1 h2

/-- the rank inequality of an edge, from the test that selected the arm -/
syntax "rank_hyp" : tactic
macro_rules
  | `(tactic| rank_hyp) => `(tactic|
    first
      | exact rank_of_isStart (by assumption) (by decide)
      | exact rank_of_isEnd (by assumption) (by decide)
      | exact rank_of_startOrEnd (by assumption) (by decide) (by decide)
      | rank_tac)

syntax "aj_step" : tactic
macro_rules
  | `(tactic| aj_step) => `(tactic|
    first
      | ((with_reducible apply aj_reprocess) <;> first | decide | rank_hyp)
      | exact aj_of_ro (by ro_leaf)
      | with_reducible apply aj_getS_bind
      | with_reducible apply aj_ite
      | ((with_reducible apply aj_bind); focus (wj_walk; done))
      | with_reducible intro _
      | dsimp only)

/-- closes `AJ f m tok` for arms of helpers, tests, quiet ends and `Reprocess` ends -/
syntax "aj_walk" : tactic
macro_rules
  | `(tactic| aj_walk) => `(tactic| repeat' aj_step)

/-- an arm, as a `DJ` -/
syntax "dj_arm" : tactic
macro_rules
  | `(tactic| dj_arm) => `(tactic| (apply dj_of_aj; aj_walk))

end H5V.Lemmas.TBFuel
