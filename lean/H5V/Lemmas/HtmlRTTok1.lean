import H5V.Lemmas.HtmlRTDefs
import H5V.Lemmas.HtmlTokTerm
/-!
C07 round trip, tokenizer half, part 1: what one `Tokenizer::step` does on each character of a
serialised ordinary fragment (`exact_errors` off).  Every lemma is stated for an arbitrary machine
whose *control registers* (`Ctl`) and *tag registers* (`Regs`) have the stated values; nothing is
said about (or required of) the tokens already delivered (`Mach.out`), so the lemmas serve both the
tokenizer-only run and the run with the tree builder as sink.
-/
namespace H5V.Lemmas.HtmlRT
open H5V.Model.HtmlTok

/-- the control registers of a machine between two steps of an ordinary run -/
structure Ctl (m : Mach) (st : State) : Prop where
  st : m.state = st
  cr : m.charRef = none
  rc : m.reconsume = false
  ilf : m.ignoreLf = false
  tb : m.tempBuf = []

/-- the tag registers -/
structure Regs (m : Mach) (k : TagKind) (nm : Str) (as : List Attr) (an av : Str) : Prop where
  kind : m.tagKind = k
  name : m.tagName = nm
  sc : m.tagSelfClosing = false
  dup : m.tagHadDup = false
  attrs : m.tagAttrs = as
  an : m.attrName = an
  av : m.attrValue = av

/-- no attribute is pending (the state between two tags) -/
structure NoAttr (m : Mach) : Prop where
  an : m.attrName = []
  av : m.attrValue = []

/-- the step goes on, to machine `m'` with input `inp'`, delivering nothing -/
def Silent (o : Opts) (pol : Pol) (m : Mach) (inp : Str) (m' : Mach) (inp' : Str) : Prop :=
  step o pol m inp = .cont m' inp' ∧ m'.out = m.out

/-- the step goes on and delivers exactly the token `t` (stamped with some line number) -/
def Emits (o : Opts) (pol : Pol) (m : Mach) (inp : Str) (t : Token) (m' : Mach) (inp' : Str) : Prop :=
  step o pol m inp = .cont m' inp' ∧ ∃ ln, m'.out = (t, ln) :: m.out

macro "mach_simp" : tactic =>
  `(tactic| simp [to, reconsumeTo, createTag, discardTag, pushTag, createAttr, finishAttribute, pushName,
      pushValue, appendValue, emit, emitChar, emitChars, Mach.setCurrentChar, Mach.bumpLine, Mach.setCharRef,
      Mach.setIgnoreLf, Mach.setReconsume, tagPrologue, takeTag, currentTag, *])

theorem lower_ne {c : Char} (hc : 'a' ≤ c ∧ c ≤ 'z') :
    c ≠ '!' ∧ c ≠ '/' ∧ c ≠ '?' ∧ c ≠ '\r' ∧ c ≠ '\n' ∧ c ≠ '>' := by
  refine ⟨?_, ?_, ?_, ?_, ?_, ?_⟩ <;> (intro e; subst e; revert hc; decide)

/-! ### data state -/

theorem data_plain (o : Opts) (ho : o.exactErrors = false) (pol : Pol) (m : Mach) (c : Char) (rest : Str)
    (h : Ctl m .data) (hn : NoAttr m)
    (hc : c ≠ '\x00' ∧ c ≠ '\r' ∧ c ≠ '&' ∧ c ≠ '<') :
    ∃ m', Emits o pol m (c :: rest) (.chars [c]) m' rest ∧ Ctl m' .data ∧ NoAttr m' := by
  obtain ⟨h1, h2, h3, h4⟩ := hc
  obtain ⟨s1, s2, s3, s4, s5⟩ := h
  obtain ⟨n1, n2⟩ := hn
  by_cases h5 : c = '\n'
  · subst h5
    refine ⟨emitChar (m.bumpLine.setCurrentChar '\n') '\n', ⟨?_, ⟨m.line + 1, ?_⟩⟩, ?_, ?_⟩
    · simp [step, s1, s2, s3, s4, readKind, readData, ho, simdFirst, popExceptFrom, setOf, preprocess,
        foldChar, transSet, ofSig]
    · simp [emitChar, emit, Mach.setCurrentChar, Mach.bumpLine]
    · constructor <;> mach_simp
    · constructor <;> mach_simp
  · refine ⟨emitChars m [c], ⟨?_, ⟨m.line, ?_⟩⟩, ?_, ?_⟩
    · simp [step, s1, s2, s3, s4, readKind, readData, ho, simdFirst, h1, h2, h3, h4, h5, transSet, ofSig]
    · simp [emitChars, emit]
    · constructor <;> mach_simp
    · constructor <;> mach_simp

theorem data_lt (o : Opts) (ho : o.exactErrors = false) (pol : Pol) (m : Mach) (rest : Str)
    (h : Ctl m .data) (hn : NoAttr m) :
    ∃ m', Silent o pol m ('<' :: rest) m' rest ∧ Ctl m' .tagOpen ∧ NoAttr m' := by
  obtain ⟨s1, s2, s3, s4, s5⟩ := h
  obtain ⟨n1, n2⟩ := hn
  refine ⟨to .tagOpen (m.setCurrentChar '<'), ⟨?_, ?_⟩, ?_, ?_⟩
  · simp [step, s1, s2, s3, s4, readKind, readData, ho, simdFirst, popExceptFrom, setOf, preprocess,
      foldChar, transSet, ofSig]
  · mach_simp
  · constructor <;> mach_simp
  · constructor <;> mach_simp

/-! ### tags -/

theorem tagOpen_lower (o : Opts) (ho : o.exactErrors = false) (pol : Pol) (m : Mach) (c : Char) (rest : Str)
    (h : Ctl m .tagOpen) (hn : NoAttr m) (hc : 'a' ≤ c ∧ c ≤ 'z') :
    ∃ m', Silent o pol m (c :: rest) m' rest ∧ Ctl m' .tagName ∧ Regs m' .startTag [c] [] [] [] := by
  obtain ⟨h1, h2, h3, h4, h5, h6⟩ := lower_ne hc
  obtain ⟨s1, s2, s3, s4, s5⟩ := h
  obtain ⟨n1, n2⟩ := hn
  refine ⟨to .tagName (createTag .startTag c (m.setCurrentChar c)), ⟨?_, ?_⟩, ?_, ?_⟩
  · simp [step, s1, s2, s3, s4, readKind, getChar, preprocess, foldChar, ho, h4, h5, transChar, h1, h2, h3,
      lowerAsciiLetter, hc, ofSig]
  · mach_simp
  · constructor <;> mach_simp
  · constructor <;> mach_simp

theorem tagOpen_slash (o : Opts) (ho : o.exactErrors = false) (pol : Pol) (m : Mach) (rest : Str)
    (h : Ctl m .tagOpen) (hn : NoAttr m) :
    ∃ m', Silent o pol m ('/' :: rest) m' rest ∧ Ctl m' .endTagOpen ∧ NoAttr m' := by
  obtain ⟨s1, s2, s3, s4, s5⟩ := h
  obtain ⟨n1, n2⟩ := hn
  refine ⟨to .endTagOpen (m.setCurrentChar '/'), ⟨?_, ?_⟩, ?_, ?_⟩
  · simp [step, s1, s2, s3, s4, readKind, getChar, preprocess, foldChar, ho, transChar, ofSig]
  · mach_simp
  · constructor <;> mach_simp
  · constructor <;> mach_simp

theorem endTagOpen_lower (o : Opts) (ho : o.exactErrors = false) (pol : Pol) (m : Mach) (c : Char) (rest : Str)
    (h : Ctl m .endTagOpen) (hn : NoAttr m) (hc : 'a' ≤ c ∧ c ≤ 'z') :
    ∃ m', Silent o pol m (c :: rest) m' rest ∧ Ctl m' .tagName ∧ Regs m' .endTag [c] [] [] [] := by
  obtain ⟨h1, h2, h3, h4, h5, h6⟩ := lower_ne hc
  obtain ⟨s1, s2, s3, s4, s5⟩ := h
  obtain ⟨n1, n2⟩ := hn
  refine ⟨to .tagName (createTag .endTag c (m.setCurrentChar c)), ⟨?_, ?_⟩, ?_, ?_⟩
  · simp [step, s1, s2, s3, s4, readKind, getChar, preprocess, foldChar, ho, h4, h5, transChar, h6,
      lowerAsciiLetter, hc, ofSig]
  · mach_simp
  · constructor <;> mach_simp
  · constructor <;> mach_simp

theorem nameCharOk_facts {c : Char} (h : nameCharOk c = true) :
    isWs c = false ∧ c ≠ '/' ∧ c ≠ '>' ∧ c ≠ '\x00' ∧ c ≠ '\r' ∧ c ≠ '\n' ∧ toAsciiLower c = c ∧
    (lowerAsciiLetter c = some c ∨ lowerAsciiLetter c = none) := by
  simp only [nameCharOk, Bool.not_eq_true', Bool.or_eq_false_iff, decide_eq_false_iff_not] at h
  obtain ⟨⟨⟨⟨⟨⟨⟨⟨a1, a2⟩, a3⟩, a4⟩, a5⟩, a6⟩, a7⟩, a8⟩, a9⟩ := h
  have a1 : c ≠ '\t' := by simpa using a1
  have a2 : c ≠ '\n' := by simpa using a2
  have a3 : c ≠ '\x0c' := by simpa using a3
  have a4 : c ≠ ' ' := by simpa using a4
  have a5 : c ≠ '\r' := by simpa using a5
  have a6 : c ≠ '/' := by simpa using a6
  have a7 : c ≠ '>' := by simpa using a7
  have a8 : c ≠ '\x00' := by simpa using a8
  refine ⟨by simp [isWs, a1, a2, a3, a4], a6, a7, a8, a5, a2, by simp [toAsciiLower, a9], ?_⟩
  unfold lowerAsciiLetter
  by_cases hl : 'a' ≤ c ∧ c ≤ 'z'
  · left; simp [hl]
  · right; simp [hl, a9]

theorem tagName_char (o : Opts) (ho : o.exactErrors = false) (pol : Pol) (m : Mach) (c : Char) (rest : Str)
    (k : TagKind) (nm : Str) (h : Ctl m .tagName) (hr : Regs m k nm [] [] []) (hc : nameCharOk c = true) :
    ∃ m', Silent o pol m (c :: rest) m' rest ∧ Ctl m' .tagName ∧ Regs m' k (nm ++ [c]) [] [] [] := by
  obtain ⟨h1, h2, h3, h4, h5, h6, h7, _⟩ := nameCharOk_facts hc
  obtain ⟨s1, s2, s3, s4, s5⟩ := h
  obtain ⟨r1, r2, r3, r4, r5, r6, r7⟩ := hr
  refine ⟨pushTag c (m.setCurrentChar c), ⟨?_, ?_⟩, ?_, ?_⟩
  · simp [step, s1, s2, s3, s4, readKind, getChar, preprocess, foldChar, ho, h5, h6, transChar, h1, h2, h3, h4, h7,
      ofSig]
  · mach_simp
  · constructor <;> mach_simp
  · constructor <;> mach_simp

theorem tagName_space (o : Opts) (ho : o.exactErrors = false) (pol : Pol) (m : Mach) (rest : Str)
    (k : TagKind) (nm : Str) (h : Ctl m .tagName) (hr : Regs m k nm [] [] []) :
    ∃ m', Silent o pol m (' ' :: rest) m' rest ∧ Ctl m' .beforeAttributeName ∧ Regs m' k nm [] [] [] := by
  obtain ⟨s1, s2, s3, s4, s5⟩ := h
  obtain ⟨r1, r2, r3, r4, r5, r6, r7⟩ := hr
  refine ⟨to .beforeAttributeName (m.setCurrentChar ' '), ⟨?_, ?_⟩, ?_, ?_⟩
  · simp [step, s1, s2, s3, s4, readKind, getChar, preprocess, foldChar, ho, transChar, isWs, ofSig]
  · mach_simp
  · constructor <;> mach_simp
  · constructor <;> mach_simp

/-- the attributes of the tag once the pending attribute (if any) is finished -/
def withPending (as : List Attr) (an av : Str) : List Attr := if an = [] then as else as ++ [⟨an, av⟩]

/-- the pending attribute does not repeat an earlier name -/
def FreshAttr (as : List Attr) (an : Str) : Prop := as.any (fun a => a.name == an) = false

theorem finishAttribute_eq (m : Mach) (k nm as an av) (hr : Regs m k nm as an av) (hf : FreshAttr as an) :
    finishAttribute m = { m with tagAttrs := withPending as an av, attrName := [], attrValue := if an = [] then av else [] } := by
  obtain ⟨r1, r2, r3, r4, r5, r6, r7⟩ := hr
  unfold finishAttribute withPending
  by_cases ha : an = []
  · subst ha
    simp [r6]
    cases m; simp_all
  · have hne : an.isEmpty = false := by cases an <;> simp_all
    simp only [r5, r6, r7, hne, Bool.false_eq_true, if_false, ha]
    rw [show (as.any fun a => a.name == an) = false from hf]
    simp

/-- `>` in a tag: the tag token is delivered (the sink answering `Continue`), back to the data state -/
theorem tag_close (o : Opts) (ho : o.exactErrors = false) (pol : Pol) (m : Mach) (rest : Str)
    (st : State) (hst : st = .tagName ∨ st = .afterAttributeValueQuoted)
    (k : TagKind) (nm : Str) (as : List Attr) (an av : Str) (h : Ctl m st) (hr : Regs m k nm as an av)
    (hf : FreshAttr as an) (hav : an = [] → av = []) (hk : k = .endTag → withPending as an av = [])
    (hpol : pol.onTag m.out ⟨k, nm, false, withPending as an av, false⟩ = .continue_) :
    ∃ m', Emits o pol m ('>' :: rest) (.tag ⟨k, nm, false, withPending as an av, false⟩) m' rest ∧
      Ctl m' .data ∧ NoAttr m' := by
  obtain ⟨s1, s2, s3, s4, s5⟩ := h
  have hr0 := hr
  obtain ⟨r1, r2, r3, r4, r5, r6, r7⟩ := hr
  have hr' : Regs (to .data (m.setCurrentChar '>')) k nm as an av := by constructor <;> mach_simp
  have hfin := finishAttribute_eq _ k nm as an av hr' hf
  have hstep : step o pol m ('>' :: rest) = ofSig (emitTag pol .data (m.setCurrentChar '>')) rest := by
    rcases hst with e | e <;> subst e <;>
      simp [step, s1, s2, s3, s4, readKind, getChar, preprocess, foldChar, ho, transChar, isWs]
  unfold Emits
  rw [hstep]
  unfold emitTag emitCurrentTag tagPrologue
  rw [hfin]
  cases k with
  | startTag =>
    simp only [to, Mach.setCurrentChar, r1, takeTag, currentTag, r2, r3, r4, emit]
    rw [show pol.onTag m.out _ = SinkRes.continue_ from hpol]
    refine ⟨_, ⟨rfl, ⟨m.line, rfl⟩⟩, ?_, ?_⟩
    · constructor <;> simp [applySinkRes, s2, s3, s4, s5]
    · constructor <;> simp [applySinkRes]
      exact hav
  | endTag =>
    have he := hk rfl
    simp only [to, Mach.setCurrentChar, r1, takeTag, currentTag, r2, r3, r4, emit, he, List.isEmpty_nil,
      Bool.not_true, Bool.false_eq_true, if_false]
    rw [he] at hpol
    rw [show pol.onTag m.out _ = SinkRes.continue_ from hpol]
    refine ⟨_, ⟨rfl, ⟨m.line, rfl⟩⟩, ?_, ?_⟩
    · constructor <;> simp [applySinkRes, s2, s3, s4, s5]
    · constructor <;> simp [applySinkRes]
      exact hav

/-! ### attributes -/

theorem attrCharOk_facts {c : Char} (h : attrCharOk c = true) :
    nameCharOk c = true ∧ c ≠ '=' ∧ c ≠ '"' ∧ c ≠ '\'' ∧ c ≠ '<' := by
  simp only [attrCharOk, Bool.and_eq_true, Bool.not_eq_true', Bool.or_eq_false_iff, decide_eq_false_iff_not] at h
  obtain ⟨h0, ⟨⟨⟨a1, a2⟩, a3⟩, a4⟩⟩ := h
  exact ⟨h0, a1, a2, a3, a4⟩

theorem beforeAttr_char (o : Opts) (ho : o.exactErrors = false) (pol : Pol) (m : Mach) (c : Char) (rest : Str)
    (k : TagKind) (nm : Str) (as : List Attr) (an av : Str)
    (h : Ctl m .beforeAttributeName) (hr : Regs m k nm as an av) (hf : FreshAttr as an) (hc : attrCharOk c = true) :
    ∃ m', Silent o pol m (c :: rest) m' rest ∧ Ctl m' .attributeName ∧
      Regs m' k nm (withPending as an av) [c] (if an = [] then av else []) := by
  obtain ⟨hc0, b1, b2, b3, b4⟩ := attrCharOk_facts hc
  obtain ⟨h1, h2, h3, h4, h5, h6, h7, h8⟩ := nameCharOk_facts hc0
  obtain ⟨s1, s2, s3, s4, s5⟩ := h
  have hr' : Regs (m.setCurrentChar c) k nm as an av := by
    obtain ⟨r1, r2, r3, r4, r5, r6, r7⟩ := hr
    constructor <;> mach_simp
  have hfin := finishAttribute_eq _ k nm as an av hr' hf
  obtain ⟨r1, r2, r3, r4, r5, r6, r7⟩ := hr
  refine ⟨to .attributeName (createAttr c (m.setCurrentChar c)), ⟨?_, ?_⟩, ?_, ?_⟩
  · rcases h8 with h8 | h8 <;>
      simp [step, s1, s2, s3, s4, readKind, getChar, preprocess, foldChar, ho, h5, h6, transChar, h1, h2, h3, h4, h8,
        b1, b2, b3, b4, ofSig]
  · simp only [to, createAttr, hfin]; rfl
  · constructor <;> (simp only [to, createAttr, hfin]; first | done | simp [Mach.setCurrentChar, s2, s3, s4, s5])
  · constructor <;> (simp only [to, createAttr, hfin]; first | done | simp [Mach.setCurrentChar, r1, r2, r3, r4])

theorem attrName_char (o : Opts) (ho : o.exactErrors = false) (pol : Pol) (m : Mach) (c : Char) (rest : Str)
    (k : TagKind) (nm : Str) (as : List Attr) (an av : Str)
    (h : Ctl m .attributeName) (hr : Regs m k nm as an av) (hc : attrCharOk c = true) :
    ∃ m', Silent o pol m (c :: rest) m' rest ∧ Ctl m' .attributeName ∧ Regs m' k nm as (an ++ [c]) av := by
  obtain ⟨hc0, b1, b2, b3, b4⟩ := attrCharOk_facts hc
  obtain ⟨h1, h2, h3, h4, h5, h6, h7, h8⟩ := nameCharOk_facts hc0
  obtain ⟨s1, s2, s3, s4, s5⟩ := h
  obtain ⟨r1, r2, r3, r4, r5, r6, r7⟩ := hr
  refine ⟨pushName c (m.setCurrentChar c), ⟨?_, ?_⟩, ?_, ?_⟩
  · rcases h8 with h8 | h8 <;>
      simp [step, s1, s2, s3, s4, readKind, getChar, preprocess, foldChar, ho, h5, h6, transChar, h1, h2, h3, h4, h8,
        b1, b2, b3, b4, ofSig]
  · mach_simp
  · constructor <;> mach_simp
  · constructor <;> mach_simp

theorem attrName_eq (o : Opts) (ho : o.exactErrors = false) (pol : Pol) (m : Mach) (rest : Str)
    (k : TagKind) (nm : Str) (as : List Attr) (an av : Str)
    (h : Ctl m .attributeName) (hr : Regs m k nm as an av) :
    ∃ m', Silent o pol m ('=' :: rest) m' rest ∧ Ctl m' .beforeAttributeValue ∧ Regs m' k nm as an av := by
  obtain ⟨s1, s2, s3, s4, s5⟩ := h
  obtain ⟨r1, r2, r3, r4, r5, r6, r7⟩ := hr
  refine ⟨to .beforeAttributeValue (m.setCurrentChar '='), ⟨?_, ?_⟩, ?_, ?_⟩
  · simp [step, s1, s2, s3, s4, readKind, getChar, preprocess, foldChar, ho, transChar, isWs, ofSig]
  · mach_simp
  · constructor <;> mach_simp
  · constructor <;> mach_simp

theorem bav_quote (o : Opts) (pol : Pol) (m : Mach) (rest : Str)
    (k : TagKind) (nm : Str) (as : List Attr) (an av : Str)
    (h : Ctl m .beforeAttributeValue) (hr : Regs m k nm as an av) :
    ∃ m', Silent o pol m ('"' :: rest) m' rest ∧ Ctl m' (.attributeValue .doubleQuoted) ∧ Regs m' k nm as an av := by
  obtain ⟨s1, s2, s3, s4, s5⟩ := h
  obtain ⟨r1, r2, r3, r4, r5, r6, r7⟩ := hr
  refine ⟨to (.attributeValue .doubleQuoted) m, ⟨?_, ?_⟩, ?_, ?_⟩
  · simp [step, s1, s2, s3, s4, readKind, stepBav, peek, discardChar]
  · mach_simp
  · constructor <;> mach_simp
  · constructor <;> mach_simp

theorem av_plain (o : Opts) (ho : o.exactErrors = false) (pol : Pol) (m : Mach) (c : Char) (rest : Str)
    (k : TagKind) (nm : Str) (as : List Attr) (an av : Str)
    (h : Ctl m (.attributeValue .doubleQuoted)) (hr : Regs m k nm as an av)
    (hc : c ≠ '\x00' ∧ c ≠ '\r' ∧ c ≠ '&' ∧ c ≠ '"') :
    ∃ m', Silent o pol m (c :: rest) m' rest ∧ Ctl m' (.attributeValue .doubleQuoted) ∧
      Regs m' k nm as an (av ++ [c]) := by
  obtain ⟨h1, h2, h3, h4⟩ := hc
  obtain ⟨s1, s2, s3, s4, s5⟩ := h
  obtain ⟨r1, r2, r3, r4, r5, r6, r7⟩ := hr
  by_cases h5 : c = '\n'
  · subst h5
    refine ⟨pushValue '\n' (m.bumpLine.setCurrentChar '\n'), ⟨?_, ?_⟩, ?_, ?_⟩
    · simp [step, s1, s2, s3, s4, readKind, popExceptFrom, ho, setOf, preprocess, foldChar, transSet, ofSig]
    · mach_simp
    · constructor <;> mach_simp
    · constructor <;> mach_simp
  · refine ⟨appendValue [c] m, ⟨?_, ?_⟩, ?_, ?_⟩
    · simp [step, s1, s2, s3, s4, readKind, popExceptFrom, ho, setOf, h1, h2, h3, h4, h5, transSet, ofSig]
    · mach_simp
    · constructor <;> mach_simp
    · constructor <;> mach_simp

theorem av_quote (o : Opts) (ho : o.exactErrors = false) (pol : Pol) (m : Mach) (rest : Str)
    (k : TagKind) (nm : Str) (as : List Attr) (an av : Str)
    (h : Ctl m (.attributeValue .doubleQuoted)) (hr : Regs m k nm as an av) :
    ∃ m', Silent o pol m ('"' :: rest) m' rest ∧ Ctl m' .afterAttributeValueQuoted ∧ Regs m' k nm as an av := by
  obtain ⟨s1, s2, s3, s4, s5⟩ := h
  obtain ⟨r1, r2, r3, r4, r5, r6, r7⟩ := hr
  refine ⟨to .afterAttributeValueQuoted (m.setCurrentChar '"'), ⟨?_, ?_⟩, ?_, ?_⟩
  · simp [step, s1, s2, s3, s4, readKind, popExceptFrom, ho, setOf, preprocess, foldChar, transSet, ofSig]
  · mach_simp
  · constructor <;> mach_simp
  · constructor <;> mach_simp

theorem aavq_space (o : Opts) (ho : o.exactErrors = false) (pol : Pol) (m : Mach) (rest : Str)
    (k : TagKind) (nm : Str) (as : List Attr) (an av : Str)
    (h : Ctl m .afterAttributeValueQuoted) (hr : Regs m k nm as an av) :
    ∃ m', Silent o pol m (' ' :: rest) m' rest ∧ Ctl m' .beforeAttributeName ∧ Regs m' k nm as an av := by
  obtain ⟨s1, s2, s3, s4, s5⟩ := h
  obtain ⟨r1, r2, r3, r4, r5, r6, r7⟩ := hr
  refine ⟨to .beforeAttributeName (m.setCurrentChar ' '), ⟨?_, ?_⟩, ?_, ?_⟩
  · simp [step, s1, s2, s3, s4, readKind, getChar, preprocess, foldChar, ho, transChar, isWs, ofSig]
  · mach_simp
  · constructor <;> mach_simp
  · constructor <;> mach_simp

/-! ### character references -/

/-- control registers while a character reference is being read -/
structure CRCtl (m : Mach) (st : State) (cr : CharRefSt) : Prop where
  st : m.state = st
  cr : m.charRef = some cr
  rc : m.reconsume = false
  ilf : m.ignoreLf = false
  tb : m.tempBuf = []

theorem Regs.setCharRef {m k nm as an av} (h : Regs m k nm as an av) (x : Option CharRefSt) :
    Regs (m.setCharRef x) k nm as an av := by
  obtain ⟨r1, r2, r3, r4, r5, r6, r7⟩ := h
  constructor <;> mach_simp

theorem NoAttr.setCharRef {m} (h : NoAttr m) (x : Option CharRefSt) : NoAttr (m.setCharRef x) := by
  obtain ⟨n1, n2⟩ := h
  constructor <;> mach_simp

theorem CRCtl.setCharRef {m st cr} (h : CRCtl m st cr) (cr' : CharRefSt) : CRCtl (m.setCharRef (some cr')) st cr' := by
  obtain ⟨s1, s2, s3, s4, s5⟩ := h
  constructor <;> mach_simp

theorem data_amp (o : Opts) (ho : o.exactErrors = false) (pol : Pol) (m : Mach) (rest : Str)
    (h : Ctl m .data) (hn : NoAttr m) :
    ∃ m', Silent o pol m ('&' :: rest) m' rest ∧ CRCtl m' .data { inAttr := false } ∧ NoAttr m' := by
  obtain ⟨s1, s2, s3, s4, s5⟩ := h
  obtain ⟨n1, n2⟩ := hn
  refine ⟨{ m.setCurrentChar '&' with charRef := some { inAttr := false } }, ⟨?_, ?_⟩, ?_, ?_⟩
  · simp [step, s1, s2, s3, s4, readKind, readData, ho, simdFirst, popExceptFrom, setOf, preprocess,
      foldChar, transSet, ofSig, consumeCharRef, Mach.setCurrentChar, isAttrValueState]
  · mach_simp
  · constructor <;> mach_simp
  · constructor <;> mach_simp

theorem av_amp (o : Opts) (ho : o.exactErrors = false) (pol : Pol) (m : Mach) (rest : Str)
    (k : TagKind) (nm : Str) (as : List Attr) (an av : Str)
    (h : Ctl m (.attributeValue .doubleQuoted)) (hr : Regs m k nm as an av) :
    ∃ m', Silent o pol m ('&' :: rest) m' rest ∧ CRCtl m' (.attributeValue .doubleQuoted) { inAttr := true } ∧
      Regs m' k nm as an av := by
  obtain ⟨s1, s2, s3, s4, s5⟩ := h
  obtain ⟨r1, r2, r3, r4, r5, r6, r7⟩ := hr
  refine ⟨{ m.setCurrentChar '&' with charRef := some { inAttr := true } }, ⟨?_, ?_⟩, ?_, ?_⟩
  · simp [step, s1, s2, s3, s4, readKind, popExceptFrom, ho, setOf, preprocess,
      foldChar, transSet, ofSig, consumeCharRef, Mach.setCurrentChar, isAttrValueState]
  · mach_simp
  · constructor <;> mach_simp
  · constructor <;> mach_simp

def crNamed (b : Bool) : CharRefSt := { state := .named, inAttr := b, nameBuf := some [] }

/-- the `named` state after one more character whose extended name is still in the table -/
def crFeed (cr : CharRefSt) (c : Char) : CharRefSt :=
  match entityLookup ((cr.nameBuf.getD []) ++ [c]) with
  | some mt =>
    if mt.1 ≠ 0 then { cr with nameBuf := some ((cr.nameBuf.getD []) ++ [c]), nameMatch := some mt,
                               nameLen := ((cr.nameBuf.getD []) ++ [c]).length }
    else { cr with nameBuf := some ((cr.nameBuf.getD []) ++ [c]) }
  | none => cr

theorem cr_begin (o : Opts) (pol : Pol) (m : Mach) (c : Char) (rest : Str) (st : State) (b : Bool)
    (h : CRCtl m st { inAttr := b }) (hc : isAsciiAlnum c = true) :
    Silent o pol m (c :: rest) (m.setCharRef (some (crNamed b))) (c :: rest) := by
  obtain ⟨s1, s2, s3, s4, s5⟩ := h
  constructor
  · simp [step, s2, stepCharRef, crStep, peek, s3, hc, crNamed]
  · mach_simp

theorem cr_feed (o : Opts) (pol : Pol) (m : Mach) (c : Char) (rest : Str) (st : State) (cr : CharRefSt)
    (nb : Str) (mt : Nat × Nat)
    (h : CRCtl m st cr) (hs : cr.state = .named) (hnb : cr.nameBuf = some nb)
    (hl : entityLookup (nb ++ [c]) = some mt) :
    Silent o pol m (c :: rest) (m.setCharRef (some (crFeed cr c))) rest := by
  obtain ⟨s1, s2, s3, s4, s5⟩ := h
  constructor
  · by_cases h0 : mt.1 = 0
    · simp [step, s2, stepCharRef, crStep, peek, s3, hs, hnb, discardChar, hl, h0, crFeed]
    · simp [step, s2, stepCharRef, crStep, peek, s3, hs, hnb, discardChar, hl, h0, crFeed]
  · mach_simp

/-- the state of the sub-tokenizer when the whole name `nm` (ending in `;`) has been read and matched
with value `v` -/
structure CRDone (cr : CharRefSt) (nm : Str) (v : Nat) : Prop where
  st : cr.state = .named
  nb : cr.nameBuf = some nm
  mt : cr.nameMatch = some (v, 0)
  len : cr.nameLen = nm.length

theorem getElem?_snoc_last (nm : Str) (x : Char) (hne : nm ≠ []) :
    (nm ++ [x])[nm.length - 1]? = nm.getLast? := by
  have hl : 0 < nm.length := List.length_pos_iff.mpr hne
  rw [List.getElem?_append_left (by omega), List.getLast?_eq_getElem?]

theorem namedDecision_semi (m : Mach) (nm : Str) (v : Nat) (x : Char)
    (hne : nm ≠ []) (hsemi : nm.getLast? = some ';') (hv : isValidScalar v = true) (cr' : CharRefSt)
    (hlen : cr'.nameLen = nm.length) :
    namedDecision m cr' (nm ++ [x]) v 0 = .ok (some (m.setIgnoreLf false, [Char.ofNat v])) := by
  have hl : 0 < nm.length := List.length_pos_iff.mpr hne
  have h0 : nm.length ≠ 0 := by omega
  unfold namedDecision
  simp only [hlen, h0, if_false, getElem?_snoc_last nm x hne, hsemi, if_true, Bool.false_eq_true, hv]
  simp [isValidScalar]

theorem cr_finish_step (o : Opts) (pol : Pol) (m : Mach) (x : Char) (rest : Str) (st : State) (cr : CharRefSt)
    (nm : Str) (v : Nat)
    (h : CRCtl m st cr) (hd : CRDone cr nm v) (hne : nm ≠ []) (hsemi : nm.getLast? = some ';')
    (hv : isValidScalar v = true) (hnone : entityLookup (nm ++ [x]) = none) :
    step o pol m (x :: rest) =
      ofSig ((processCharRef (m.setIgnoreLf false) [Char.ofNat v]).1.setCharRef none,
             (processCharRef (m.setIgnoreLf false) [Char.ofNat v]).2) (x :: rest) := by
  obtain ⟨s1, s2, s3, s4, s5⟩ := h
  obtain ⟨d1, d2, d3, d4⟩ := hd
  simp only [step, s2, stepCharRef, crStep, peek, s3, Bool.false_eq_true, if_false, List.head?_cons, d1, d2,
    discardChar, List.tail_cons, hnone, finishNamed, d3]
  simp only [namedDecision_semi m nm v x hne hsemi hv, d4]
  simp

theorem cr_finish_data (o : Opts) (pol : Pol) (m : Mach) (x : Char) (rest : Str) (cr : CharRefSt)
    (nm : Str) (v : Nat)
    (h : CRCtl m .data cr) (hn : NoAttr m) (hd : CRDone cr nm v) (hne : nm ≠ [])
    (hsemi : nm.getLast? = some ';') (hv : isValidScalar v = true) (hv0 : Char.ofNat v ≠ '\x00')
    (hnone : entityLookup (nm ++ [x]) = none) :
    ∃ m', Emits o pol m (x :: rest) (.chars [Char.ofNat v]) m' (x :: rest) ∧ Ctl m' .data ∧ NoAttr m' := by
  have hs := cr_finish_step o pol m x rest _ cr nm v h hd hne hsemi hv hnone
  obtain ⟨s1, s2, s3, s4, s5⟩ := h
  obtain ⟨n1, n2⟩ := hn
  refine ⟨(emitChar (m.setIgnoreLf false) (Char.ofNat v)).setCharRef none, ⟨?_, ⟨m.line, ?_⟩⟩, ?_, ?_⟩
  · rw [hs]
    simp [processCharRef, Mach.setIgnoreLf, s1, ofSig]
  · simp [emitChar, hv0, emit, Mach.setCharRef, Mach.setIgnoreLf]
  · constructor <;> mach_simp
  · constructor <;> mach_simp

theorem cr_finish_attr (o : Opts) (pol : Pol) (m : Mach) (x : Char) (rest : Str) (cr : CharRefSt)
    (nm : Str) (v : Nat) (k : TagKind) (tn : Str) (as : List Attr) (an av : Str)
    (h : CRCtl m (.attributeValue .doubleQuoted) cr) (hr : Regs m k tn as an av) (hd : CRDone cr nm v) (hne : nm ≠ [])
    (hsemi : nm.getLast? = some ';') (hv : isValidScalar v = true)
    (hnone : entityLookup (nm ++ [x]) = none) :
    ∃ m', Silent o pol m (x :: rest) m' (x :: rest) ∧ Ctl m' (.attributeValue .doubleQuoted) ∧
      Regs m' k tn as an (av ++ [Char.ofNat v]) := by
  have hs := cr_finish_step o pol m x rest _ cr nm v h hd hne hsemi hv hnone
  obtain ⟨s1, s2, s3, s4, s5⟩ := h
  obtain ⟨r1, r2, r3, r4, r5, r6, r7⟩ := hr
  refine ⟨(pushValue (Char.ofNat v) (m.setIgnoreLf false)).setCharRef none, ⟨?_, ?_⟩, ?_, ?_⟩
  · rw [hs]
    simp [processCharRef, Mach.setIgnoreLf, s1, ofSig]
  · mach_simp
  · constructor <;> mach_simp
  · constructor <;> mach_simp

/-! ### running out of input -/

theorem data_suspend (o : Opts) (ho : o.exactErrors = false) (pol : Pol) (m : Mach) (h : Ctl m .data) :
    step o pol m [] = .suspend m [] := by
  obtain ⟨s1, s2, s3, s4, s5⟩ := h
  simp [step, s1, s2, s3, s4, readKind, readData, ho]

theorem cr_suspend (o : Opts) (pol : Pol) (m : Mach) (st : State) (cr : CharRefSt) (h : CRCtl m st cr) :
    step o pol m [] = .suspend m [] := by
  obtain ⟨s1, s2, s3, s4, s5⟩ := h
  have : m.setCharRef (some cr) = m := by cases m; simp_all [Mach.setCharRef]
  simp [step, s2, stepCharRef, crStep, peek, s3, this]

/-- `Tokenizer::end` hands a completed reference back: the character is delivered, nothing is left -/
theorem crEof_done (o : Opts) (m : Mach) (cr : CharRefSt) (nm : Str) (v : Nat)
    (hd : CRDone cr nm v) (hne : nm ≠ []) (hsemi : nm.getLast? = some ';') (hv : isValidScalar v = true) :
    crEof o m [] cr = .ok (m.setIgnoreLf false, [], [Char.ofNat v]) := by
  obtain ⟨d1, d2, d3, d4⟩ := hd
  have hl : 0 < nm.length := List.length_pos_iff.mpr hne
  have h0 : nm.length ≠ 0 := by omega
  have hnd : namedDecision m cr nm v 0 = .ok (some (m.setIgnoreLf false, [Char.ofNat v])) := by
    unfold namedDecision
    simp only [d4, h0, if_false, ← List.getLast?_eq_getElem?, hsemi, if_true, Bool.false_eq_true, hv]
    simp [isValidScalar]
  simp [crEof, d1, finishNamed, d2, d3, hnd, d4]

end H5V.Lemmas.HtmlRT
