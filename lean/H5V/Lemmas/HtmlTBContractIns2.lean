import H5V.Lemmas.HtmlTBContractIns
import H5V.Lemmas.HtmlTBContractConj
import H5V.Lemmas.HtmlTBContractQuiet
/-!
# TreeSink contract for the HTML tree builder, part 4c: the remaining node-creating helpers

`CP` leaves for every helper that creates and inserts a node or text: the wrappers of
`insert_element`, `append_text`, the `append_comment*` family, `create_root`, `insert_foreign_element`,
`enter_foreign` / `foreign_start_tag` (with the attribute adjustments), the reconstruction of the
active formatting elements, `create_formatting_element_for`, `should_attach_declarative_shadow`, and
the `<script>` arm of the InHead rules.
-/
namespace H5V.Lemmas.TBC
open H5V.Model.HtmlTB
open H5V.Model.Dom (Id QualName Attr NodeOrText SinkOp Output ElementFlags QuirksMode Dom NodeData Node Contract)
open H5V.Lemmas.Dom
open H5V.Props.C20 (Inv Run)
open H5V.Lemmas.TBSafe (IsEl nm sigOf Ext apply_ext tmplName fmtNames nm_ext sigOf_ext IsEl.ext sigOf_lt
  apply_elemName apply_getTemplateContents namedP hasNamed)

variable {d0 : Dom}

/-! ### partial correctness at one state; code that leaves the arena alone -/

/-- partial correctness: if the run from `s` succeeds, the result satisfies `Q` -/
def PCat {α : Type} (m : M α) (s : State) (Q : α → State → Prop) : Prop :=
  ∀ a s', m s = .ok (a, s') → Q a s'

theorem satc_and_pc {α : Type} {m : M α} {s : State} {Q1 Q2 : α → State → Prop} (h1 : SatC m s Q1)
    (h2 : PCat m s Q2) : SatC m s (fun a s' => Q1 a s' ∧ Q2 a s') := by
  unfold SatC at h1 ⊢
  cases hm : m s with
  | error e => rw [hm] at h1; exact h1
  | ok r => obtain ⟨a, s'⟩ := r; rw [hm] at h1; exact ⟨h1, h2 a s' hm⟩

/-- the code never changes the arena (it only queries the sink) -/
def DomKeep {α : Type} (m : M α) : Prop := ∀ s, PCat m s (fun _ s' => s'.dom = s.dom)

theorem domKeep_bind {α β : Type} {m : M α} {f : α → M β} (h1 : DomKeep m) (h2 : ∀ a, DomKeep (f a)) :
    DomKeep (m >>= f) := by
  intro s b s' h
  have h' : (StateT.bind m f) s = .ok (b, s') := h
  unfold StateT.bind at h'
  cases hm : m s with
  | error e => simp [hm, bind, Except.bind] at h'
  | ok r =>
    obtain ⟨a, s1⟩ := r
    simp only [hm, bind, Except.bind] at h'
    exact (h2 a s1 b s' h').trans (h1 s a s1 hm)

theorem domKeep_pure {α : Type} (a : α) : DomKeep (pure a : M α) := by
  intro s b s' h
  have h' : (Except.ok (a, s) : Except String (α × State)) = .ok (b, s') := h
  cases h'; rfl

theorem domKeep_throw {α : Type} (e : String) : DomKeep (throw e : M α) := by
  intro s b s' h
  have h' : (Except.error e : Except String (α × State)) = .ok (b, s') := h
  cases h'

theorem domKeep_panicAt {α : Type} {cls site text : String} : DomKeep (panicAt cls site text : M α) :=
  domKeep_throw _

theorem domKeep_getS : DomKeep getS := by
  intro s b s' h
  have h' : (Except.ok (s, s) : Except String (State × State)) = .ok (b, s') := h
  cases h'; rfl

theorem domKeep_ite {α : Type} {p : Prop} [Decidable p] {a b : M α} (h1 : DomKeep a) (h2 : DomKeep b) :
    DomKeep (if p then a else b) := by
  by_cases hp : p
  · rw [if_pos hp]; exact h1
  · rw [if_neg hp]; exact h2

theorem domKeep_sink {op : SinkOp} (h : ∀ (d d' : Dom) (out : Output), d.apply op = .ok (d', out) → d' = d) :
    DomKeep (sink op) := by
  intro s out s' hs
  unfold H5V.Model.HtmlTB.sink at hs
  cases ha : s.dom.apply op with
  | error e => simp [ha] at hs
  | ok r =>
    obtain ⟨d', o⟩ := r
    simp only [ha] at hs
    cases hs
    exact h _ _ _ ha

theorem apply_elemName_same {d d' : Dom} {t : Id} {out : Output} (h : d.apply (.elemName t) = .ok (d', out)) :
    d' = d := by
  unfold Dom.apply Dom.cloneVariant Dom.beforeSiblingVariant at h
  simp only [Dom.applyV, bind, Except.bind] at h
  cases he : d.elemName t with
  | error e => simp [he] at h
  | ok r => simp [he] at h; exact h.1.symm

theorem apply_getTemplateContents_same {d d' : Dom} {t : Id} {out : Output}
    (h : d.apply (.getTemplateContents t) = .ok (d', out)) : d' = d := by
  unfold Dom.apply Dom.cloneVariant Dom.beforeSiblingVariant at h
  simp only [Dom.applyV, bind, Except.bind] at h
  cases he : d.getTemplateContents t with
  | error e => simp [he] at h
  | ok r => simp [he] at h; exact h.1.symm

theorem domKeep_elemName {h : Id} : DomKeep (elemName h) := by
  unfold H5V.Model.HtmlTB.elemName
  refine domKeep_bind (domKeep_sink (fun _ _ _ h => apply_elemName_same h)) ?_
  intro out
  cases out <;> first | exact domKeep_pure _ | exact domKeep_throw _

theorem domKeep_getTemplateContents {h : Id} : DomKeep (sinkNode (.getTemplateContents h)) := by
  unfold sinkNode
  refine domKeep_bind (domKeep_sink (fun _ _ _ h => apply_getTemplateContents_same h)) ?_
  intro out
  cases out <;> first | exact domKeep_pure _ | exact domKeep_throw _

syntax "dk_leaf" : tactic
macro_rules
  | `(tactic| dk_leaf) => `(tactic|
    first
      | with_reducible exact domKeep_pure _
      | with_reducible exact domKeep_throw _
      | with_reducible exact domKeep_panicAt
      | with_reducible exact domKeep_getS
      | with_reducible exact domKeep_elemName
      | with_reducible exact domKeep_getTemplateContents)

syntax "dk_step" : tactic
macro_rules
  | `(tactic| dk_step) => `(tactic|
    first
      | dk_leaf
      | with_reducible apply domKeep_bind
      | with_reducible apply domKeep_ite
      | intro _
      | dsimp only)

syntax "dk_walk" : tactic
macro_rules
  | `(tactic| dk_walk) => `(tactic| repeat' dk_step)

theorem domKeep_htmlElemNamed {h : Id} {name : String} : DomKeep (htmlElemNamed h name) := by
  unfold H5V.Model.HtmlTB.htmlElemNamed H5V.Model.HtmlTB.htmlElemNamedS
  dk_walk

macro_rules | `(tactic| dk_leaf) => `(tactic| with_reducible exact domKeep_htmlElemNamed)

theorem domKeep_elemIn {h : Id} {set : EName → Bool} : DomKeep (elemIn h set) := by
  unfold H5V.Model.HtmlTB.elemIn
  dk_walk

macro_rules | `(tactic| dk_leaf) => `(tactic| with_reducible exact domKeep_elemIn)

theorem domKeep_currentNode : DomKeep currentNode := by
  unfold H5V.Model.HtmlTB.currentNode
  refine domKeep_bind domKeep_getS ?_
  intro s0
  cases s0.openElems.getLast? <;> dk_walk

macro_rules | `(tactic| dk_leaf) => `(tactic| with_reducible exact domKeep_currentNode)

theorem domKeep_htmlElem : DomKeep htmlElem := by
  unfold H5V.Model.HtmlTB.htmlElem
  refine domKeep_bind domKeep_getS ?_
  intro s0
  cases s0.openElems.head? <;> dk_walk

macro_rules | `(tactic| dk_leaf) => `(tactic| with_reducible exact domKeep_htmlElem)

theorem domKeep_fosterLoop : ∀ (l : List Id), DomKeep (fosterLoop l) := by
  intro l
  induction l with
  | nil => unfold fosterLoop; dk_walk
  | cons elem rest ih =>
    unfold fosterLoop
    refine domKeep_bind domKeep_htmlElemNamed ?_
    intro b
    refine domKeep_ite (by dk_walk) ?_
    refine domKeep_bind domKeep_htmlElemNamed ?_
    intro b2
    refine domKeep_ite ?_ ih
    cases rest <;> dk_walk

macro_rules | `(tactic| dk_leaf) => `(tactic| with_reducible exact domKeep_fosterLoop _)

theorem domKeep_appropriatePlace {ov : Option Id} : DomKeep (appropriatePlaceForInsertion ov) := by
  unfold appropriatePlaceForInsertion
  cases ov <;> dsimp only <;> dk_walk

theorem satc_and {α : Type} {m : M α} {s : State} {Q1 Q2 : α → State → Prop} (h1 : SatC m s Q1)
    (h2 : SatC m s Q2) : SatC m s (fun a s' => Q1 a s' ∧ Q2 a s') := by
  unfold SatC at h1 h2 ⊢
  cases hm : m s with
  | error e => rw [hm] at h1; exact h1
  | ok r => obtain ⟨a, s'⟩ := r; rw [hm] at h1 h2; exact ⟨h1, h2⟩

/-! ### where the handles of an insertion point come from -/

/-- the handles of a computed insertion point are on the stack (or the override target), or are
`Document` nodes (template contents) -/
def IpFrom (l : List Id) (ov : Option Id) (d : Dom) (ip : InsertionPoint) : Prop :=
  ∀ x ∈ ipIds ip, x ∈ l ∨ ov = some x ∨ d.dataOf x = some .document

theorem satc_fosterLoop_from : ∀ (l : List Id) (s : State), CB d0 s → (∀ x ∈ l, IsEl s.dom x) →
    (∀ x ∈ l, TcDoc s.dom x) →
    SatC (fosterLoop l) s (fun ip s' => Q2 d0 s s' ∧ IpFrom (l ++ s.openElems) none s'.dom ip) := by
  intro l
  induction l with
  | nil =>
    intro s hcb _ _
    unfold fosterLoop
    refine satcv_htmlElem.bind ?_
    rintro r s' ⟨rfl, hl⟩
    have hmem : r ∈ s'.openElems := List.mem_of_head? hl
    refine satc_pure ⟨Q2.refl hcb, ?_⟩
    intro x hx
    simp only [ipIds, List.mem_singleton] at hx; subst hx; exact Or.inl (by simpa using hmem)
  | cons elem rest ih =>
    intro s hcb hall htc
    unfold fosterLoop
    have hel := hall elem List.mem_cons_self
    refine (satcv_htmlElemNamed hcb hel).bind ?_
    rintro b s1 ⟨rfl, hq1⟩
    by_cases hb : namedP s.dom "template".toList elem = true
    · rw [if_pos hb]
      have hn1 : namedP s1.dom "template".toList elem = true := by
        unfold namedP; rw [nm_ext hq1.ext hel]; exact hb
      refine (satc_templateContents hq1.cb ((htc elem List.mem_cons_self).ext hq1.ext hq1.g.kext hel) hn1).bind ?_
      rintro tc s2 ⟨hq2, hdoc⟩
      refine satc_pure ⟨hq1.trans hq2, ?_⟩
      intro x hx
      simp only [ipIds, List.mem_singleton] at hx; subst hx; exact Or.inr (Or.inr hdoc)
    · rw [if_neg hb]
      refine (satcv_htmlElemNamed hq1.cb (hel.ext hq1.ext)).bind ?_
      rintro b2 s2 ⟨rfl, hq2⟩
      have hq := hq1.trans hq2
      by_cases hb2 : namedP s1.dom "table".toList elem = true
      · rw [if_pos hb2]
        cases rest with
        | nil => exact satc_panicAt
        | cons prev rest' =>
          dsimp only
          refine satc_pure ⟨hq, ?_⟩
          intro x hx
          simp only [ipIds, List.mem_cons, List.not_mem_nil, or_false] at hx
          rcases hx with rfl | rfl
          · exact Or.inl (by simp)
          · exact Or.inl (by simp)
      · rw [if_neg hb2]
        have hall' : ∀ x ∈ rest, IsEl s.dom x := fun x hx => hall x (List.mem_cons_of_mem _ hx)
        refine (ih s2 hq.cb (fun x hx => (hall' x hx).ext hq.ext)
          (fun x hx => (htc x (List.mem_cons_of_mem _ hx)).ext hq.ext hq.g.kext (hall' x hx))).mono ?_
        rintro ip s3 ⟨hq3, hfrom⟩
        refine ⟨hq.trans hq3, ?_⟩
        intro x hx
        rcases hfrom x hx with h | h | h
        · rw [hq.openElems] at h
          refine Or.inl ?_
          rcases List.mem_append.mp h with h | h
          · exact List.mem_append_left _ (List.mem_cons_of_mem _ h)
          · exact List.mem_append_right _ h
        · cases h
        · exact Or.inr (Or.inr h)

theorem satc_appropriatePlace_from {ov : Option Id} {s : State} (hcb : CB d0 s)
    (hov : ∀ t, ov = some t → IsEl s.dom t ∧ TcDoc s.dom t) :
    SatC (appropriatePlaceForInsertion ov) s (fun ip s' => IpFrom s.openElems ov s'.dom ip) := by
  refine SatC.mono (Q := fun ip s' => Q2 d0 s s' ∧ IpFrom s.openElems ov s'.dom ip) ?_ (fun _ _ h => h.2)
  unfold appropriatePlaceForInsertion
  have htail : ∀ (target : Id), IsEl s.dom target → TcDoc s.dom target →
      (target ∈ s.openElems ∨ ov = some target) →
      SatC (do
        let __do_lift ← getS
        if __do_lift.fosterParenting = true then do
            let foster ← elemIn target fosterTarget
            if (!foster) = true then do
                let __do_lift ← htmlElemNamed target "template"
                if __do_lift = true then do
                    let contents ← sinkNode (SinkOp.getTemplateContents target)
                    pure (InsertionPoint.lastChild contents)
                  else pure (InsertionPoint.lastChild target)
              else do
                let __do_lift ← getS
                fosterLoop __do_lift.openElems.reverse
          else do
            let foster ← pure false
            if (!foster) = true then do
                let __do_lift ← htmlElemNamed target "template"
                if __do_lift = true then do
                    let contents ← sinkNode (SinkOp.getTemplateContents target)
                    pure (InsertionPoint.lastChild contents)
                  else pure (InsertionPoint.lastChild target)
              else do
                let __do_lift ← getS
                fosterLoop __do_lift.openElems.reverse) s
        (fun ip s' => Q2 d0 s s' ∧ IpFrom s.openElems ov s'.dom ip) := by
    intro target htel httc hts
    have hrest : ∀ (foster : Bool) (s1 : State), Q2 d0 s s1 →
        SatC (if (!foster) = true then do
            let __do_lift ← htmlElemNamed target "template"
            if __do_lift = true then do
                let contents ← sinkNode (SinkOp.getTemplateContents target)
                pure (InsertionPoint.lastChild contents)
              else pure (InsertionPoint.lastChild target)
          else do
            let __do_lift ← getS
            fosterLoop __do_lift.openElems.reverse) s1
          (fun ip s' => Q2 d0 s s' ∧ IpFrom s.openElems ov s'.dom ip) := by
      intro foster s1 hq1
      have hel1 := htel.ext hq1.ext
      refine satc_ite (fun _ => ?_) (fun _ => ?_)
      · refine (satcv_htmlElemNamed hq1.cb hel1).bind ?_
        rintro b s2 ⟨rfl, hq2⟩
        have hq := hq1.trans hq2
        by_cases hb : namedP s1.dom "template".toList target = true
        · rw [if_pos hb]
          have hn2 : namedP s2.dom "template".toList target = true := by
            unfold namedP; rw [nm_ext hq2.ext hel1]; exact hb
          refine (satc_templateContents hq2.cb (httc.ext hq.ext hq.g.kext htel) hn2).bind ?_
          rintro tc s3 ⟨hq3, hdoc⟩
          refine satc_pure ⟨hq.trans hq3, ?_⟩
          intro x hx
          simp only [ipIds, List.mem_singleton] at hx; subst hx; exact Or.inr (Or.inr hdoc)
        · rw [if_neg hb]
          refine satc_pure ⟨hq, ?_⟩
          intro x hx
          simp only [ipIds, List.mem_singleton] at hx; subst hx
          rcases hts with h | h
          · exact Or.inl h
          · exact Or.inr (Or.inl h)
      · refine satc_getS_bind ?_
        have hrev : ∀ x ∈ s1.openElems.reverse, x ∈ s.openElems := by
          intro x hx; rw [hq1.openElems] at hx; exact List.mem_reverse.mp hx
        refine (satc_fosterLoop_from _ s1 hq1.cb (fun x hx => (hcb.h.open_el x (hrev x hx)).ext hq1.ext)
          (fun x hx => (hcb.h.open_tc x (hrev x hx)).ext hq1.ext hq1.g.kext (hcb.h.open_el x (hrev x hx)))).mono ?_
        rintro ip s2 ⟨hq2, hfrom⟩
        refine ⟨hq1.trans hq2, ?_⟩
        intro x hx
        rcases hfrom x hx with h | h | h
        · refine Or.inl ?_
          rcases List.mem_append.mp h with h | h
          · exact hrev x h
          · rw [hq1.openElems] at h; exact h
        · cases h
        · exact Or.inr (Or.inr h)
    refine satc_getS_bind ?_
    refine satc_ite (fun _ => ?_) (fun _ => ?_)
    · refine (satcv_elemIn hcb htel).bind ?_
      rintro foster s1 ⟨-, hq1⟩
      exact hrest foster s1 hq1
    · refine SatC.bind (Q := fun foster s1 => s = s1) (satc_pure rfl) ?_
      rintro foster s1 rfl
      exact hrest foster s (Q2.refl hcb)
  cases ov with
  | some t =>
    dsimp only
    refine SatC.bind (Q := fun r s' => t = r ∧ s = s') (satc_pure ⟨rfl, rfl⟩) ?_
    rintro target s0 ⟨rfl, rfl⟩
    exact htail t (hov t rfl).1 (hov t rfl).2 (Or.inr rfl)
  | none =>
    dsimp only
    refine satcv_currentNode.bind ?_
    rintro cur s0 ⟨hs0, hl⟩
    subst hs0
    have hmem : cur ∈ s0.openElems := List.mem_of_getLast? hl
    exact htail cur (hcb.h.open_el cur hmem) (hcb.h.open_tc cur hmem) (Or.inl hmem)

/-! ### partial-correctness rules -/

theorem pcat_bind {α β : Type} {m : M α} {f : α → M β} {s : State} {Q : α → State → Prop}
    {R : β → State → Prop} (h1 : PCat m s Q) (h2 : ∀ a s1, Q a s1 → PCat (f a) s1 R) : PCat (m >>= f) s R := by
  intro b s' h
  have h' : (StateT.bind m f) s = .ok (b, s') := h
  unfold StateT.bind at h'
  cases hm : m s with
  | error e => simp [hm, bind, Except.bind] at h'
  | ok r =>
    obtain ⟨a, s1⟩ := r
    simp only [hm, bind, Except.bind] at h'
    exact h2 a s1 (h1 a s1 hm) b s' h'

theorem pcat_pure {α : Type} {a : α} {s : State} {Q : α → State → Prop} (h : Q a s) : PCat (pure a : M α) s Q := by
  intro b s' hb
  have h' : (Except.ok (a, s) : Except String (α × State)) = .ok (b, s') := hb
  cases h'; exact h

theorem pcat_throw {α : Type} {e : String} {s : State} {Q : α → State → Prop} : PCat (throw e : M α) s Q := by
  intro b s' hb
  have h' : (Except.error e : Except String (α × State)) = .ok (b, s') := hb
  cases h'

theorem pcat_sink {op : SinkOp} {s : State} {Q : Output → State → Prop}
    (h : ∀ d' out, s.dom.apply op = .ok (d', out) →
      Q out { s with dom := d', traceRev := (op, out) :: s.traceRev }) : PCat (sink op) s Q := by
  intro out s' hs
  unfold H5V.Model.HtmlTB.sink at hs
  cases ha : s.dom.apply op with
  | error e => simp [ha] at hs
  | ok r =>
    obtain ⟨d', o⟩ := r
    simp only [ha] at hs
    cases hs
    exact h _ _ ha

/-! ### creating nodes: the new node is the last one of the arena -/

theorem createElement_size (d : Dom) (name : QualName) (attrs : List Attr) (flags : ElementFlags) :
    (d.createElement name attrs flags).1.size = (d.createElement name attrs flags).2 + 1 := by
  unfold Dom.createElement
  split <;> simp [Dom.alloc, Dom.size]

theorem pc_createElement_size {name : QualName} {attrs : List Attr} {hadDup : Bool} {s : State} :
    PCat (createElementWithFlags name attrs hadDup) s (fun r s' => s'.dom.size = r + 1) := by
  unfold createElementWithFlags sinkNode
  simp only
  refine pcat_bind (Q := fun o s' => ∀ r, o = .node r → s'.dom.size = r + 1) (pcat_sink ?_) ?_
  · intro d' out ha r hr
    rw [TBSafe.apply_createElement] at ha
    cases ha
    cases hr
    exact createElement_size _ _ _ _
  · intro o s1 ho
    cases o <;> first | exact pcat_throw | exact pcat_pure (ho _ rfl)

/-- `create_element`, with the size of the arena afterwards -/
theorem satc_createElement_sz {name : QualName} {attrs : List Attr} {hadDup : Bool} {s : State} (hcb : CB d0 s)
    (ha : Dom.attrKeysNodup attrs = true) :
    SatC (createElementWithFlags name attrs hadDup) s
      (fun r s' => CreatedC d0 s s' r name ∧ s'.dom.size = r + 1) :=
  satc_and_pc (satc_createElement hcb ha) pc_createElement_size

/-- the result of `create_comment` -/
structure CreatedK (d0 : Dom) (s s' : State) (r : Id) : Prop where
  q : Q2 d0 s s'
  ge : s.dom.size ≤ r
  sz : s'.dom.size = r + 1
  fresh : FreshNode s'.dom r
  data : ∃ t, s'.dom.dataOf r = some (.comment t)

theorem contract_createComment {d : Dom} {t : List Char} : Contract d (.createComment t) := rfl

theorem satc_createComment {text : Str} {s : State} (hcb : CB d0 s) :
    SatC (sinkNode (.createComment text)) s (fun r s' => CreatedK d0 s s' r) := by
  unfold sinkNode
  refine SatC.bind (satc_sink (Q := fun o s' => ∃ r, o = .node r ∧ CreatedK d0 s s' r) hcb.d
    contract_createComment ?_) ?_
  · intro d' out hap hd
    have hap' := hap
    rw [TBSafe.apply_createComment] at hap
    cases hap
    refine ⟨_, rfl, ?_⟩
    have hq := q2_of_nt hcb (op := .createComment text) rfl hap' hd
    have hr : (s.dom.createComment text).2 = s.dom.size := rfl
    rw [hr]
    refine ⟨hq, Nat.le_refl _, ?_, ⟨?_, ?_, ?_⟩, text, ?_⟩
    · show (s.dom.alloc (.comment text)).1.size = _
      simp
    · show (s.dom.alloc (.comment text)).1.isInsertable _ = true
      unfold Dom.isInsertable; rw [dataOf_alloc]; simp
    · show (s.dom.alloc (.comment text)).1.parentOf _ = none
      rw [parentOf_alloc]; exact parentOf_none_of_ge (Nat.le_refl _)
    · show (s.dom.alloc (.comment text)).1.childrenOf _ = []
      rw [childrenOf_alloc]; exact childrenOf_nil_of_ge (Nat.le_refl _)
    · show (s.dom.alloc (.comment text)).1.dataOf _ = _
      rw [dataOf_alloc]; simp
  · rintro o s' ⟨r, rfl, hc⟩
    exact satc_pure hc

/-! ### inserting a node that was created *before* the insertion point was computed -/

theorem ipParent_ne {d : Dom} (hi : Inv d) {ip : InsertionPoint} {r P : Id} (hf : FreshNode d r)
    (hne : ∀ x ∈ ipIds ip, x ≠ r) (hv : IpValid d ip) (h : ipParent d ip = some P) : P ≠ r := by
  cases ip with
  | lastChild p => simp [ipParent] at h; subst h; exact hne _ (by simp [ipIds])
  | beforeSibling sb => exact absurd hv id
  | tableFosterParenting e pe =>
    simp only [ipParent] at h
    cases hpar : d.parentOf e with
    | none => rw [hpar] at h; simp at h; subst h; exact hne _ (by simp [ipIds])
    | some Q =>
      rw [hpar] at h; simp at h; subst h
      rintro rfl
      have := (hi.wf.links e _).mp hpar
      rw [hf.kids] at this; cases this

/-- `insert_appropriately(node)` for a fresh node that is not on the stack and not a `Document` -/
theorem satc_insertAppropriately_node {r : Id} {s : State} (hcb : CB d0 s) (hf : FreshNode s.dom r)
    (hst : ∀ x ∈ s.openElems, x ≠ r) (hnd : s.dom.dataOf r ≠ some .document) :
    SatC (insertAppropriately (.node r) none) s (fun _ s' => T2 d0 s s' ∧
      ∃ P, P ≠ r ∧ NodeEff s.dom s'.dom r P) := by
  unfold insertAppropriately
  have hno : ∀ t, (none : Option Id) = some t → IsEl s.dom t ∧ TcDoc s.dom t := fun t h => by cases h
  refine (satc_and (satc_and_pc (satc_appropriatePlace (ov := none) hcb hno) (domKeep_appropriatePlace s))
    (satc_appropriatePlace_from (ov := none) hcb hno)).bind ?_
  rintro ip s1 ⟨⟨⟨hq1, hip⟩, hdom⟩, hfrom⟩
  have hf1 : FreshNode s1.dom r := hf.of_same_dom hdom
  have hne : ∀ x ∈ ipIds ip, x ≠ r := by
    intro x hx
    rcases hfrom x hx with h | h | h
    · exact hst x h
    · cases h
    · rw [hdom] at h; rintro rfl; exact hnd h
  refine (satc_insertAt_node hq1.cb hip.valid hf1 hne).mono ?_
  rintro _ s2 ⟨ht, P, hP, heff⟩
  obtain ⟨da, ta, ea⟩ := hq1.same
  obtain ⟨db, tb, eb⟩ := ht.same
  refine ⟨⟨ht.cb, hq1.ext.trans ht.ext, hq1.g.kext.trans ht.kext, db, tb, by rw [eb, ea]⟩, P,
    ipParent_ne hq1.cb.d.inv hf1 hne hip.valid hP, ?_⟩
  rw [← hdom]; exact heff

/-- growth across "create the node `r` (the last node of the arena), query steps, attach it" -/
theorem GrowRel.attachLast {s s1 s3 : State} {r P : Id} (g : GrowRel s s1) (t : T2 d0 s1 s3)
    (hr : s.dom.size ≤ r) (hsz : s1.dom.size = r + 1) (hP : P ≠ r) (he : NodeEff s1.dom s3.dom r P) :
    GrowRel s s3 := by
  have hlt : P < r + 1 := hsz ▸ he.plt
  exact g.attach t hr (hsz ▸ Nat.lt_succ_self r) (Nat.lt_of_le_of_ne (Nat.le_of_lt_succ hlt) hP) he

/-- growth by an insertion of text -/
theorem GrowRel.ofText {s3 s4 : State} {P : Id} (t : T2 d0 s3 s4) (he : TextEff s3.dom s4.dom P) :
    GrowRel s3 s4 := by
  obtain ⟨d, tr, e⟩ := t.same
  have hst : s4.openElems = s3.openElems := by rw [e]
  rcases he with ⟨hs, hp⟩ | ⟨hs, hP, hp⟩
  · refine ⟨t.ext, t.kext, Nat.le_of_eq hs.symm, fun x _ => hp x, ?_, ⟨s3.openElems, [], by simp [hst],
      List.Sublist.refl _, by simp, List.Pairwise.nil⟩⟩
    intro x p hx hpx
    rw [hp x, parentOf_none_of_ge hx] at hpx; cases hpx
  · refine ⟨t.ext, t.kext, by omega, ?_, ?_, ⟨s3.openElems, [], by simp [hst],
      List.Sublist.refl _, by simp, List.Pairwise.nil⟩⟩
    · intro x hx
      rw [hp x, if_neg (Nat.ne_of_lt hx)]
    · intro x p hx hpx
      rw [hp x] at hpx
      by_cases hxe : x = s3.dom.size
      · rw [if_pos hxe] at hpx; cases hpx; rw [hxe]; exact hP
      · rw [if_neg hxe, parentOf_none_of_ge hx] at hpx; cases hpx

theorem GrowRel.text {s s3 s4 : State} {P : Id} (g : GrowRel s s3) (t : T2 d0 s3 s4)
    (he : TextEff s3.dom s4.dom P) : GrowRel s s4 := g.trans (GrowRel.ofText t he)

/-! ### the wrappers of `insert_element` -/

theorem cp_insertElementFor {c : List Id} {tag : Tag} (ha : Dom.attrKeysNodup tag.attrs = true) :
    CP d0 c (insertElementFor tag) (fun r => [r]) := cp_insertElement ha

theorem cp_insertAndPopElementFor {c : List Id} {tag : Tag} (ha : Dom.attrKeysNodup tag.attrs = true) :
    CP d0 c (insertAndPopElementFor tag) (fun r => [r]) := cp_insertElement ha

theorem cp_insertPhantom {c : List Id} {name : String} : CP d0 c (insertPhantom name) (fun r => [r]) :=
  cp_insertElement rfl

macro_rules | `(tactic| cp_leaf) => `(tactic| with_reducible exact cp_insertElementFor (by assumption))
macro_rules | `(tactic| cp_leaf) => `(tactic| with_reducible exact cp_insertAndPopElementFor (by assumption))
macro_rules | `(tactic| cp_leaf) => `(tactic| with_reducible exact cp_insertPhantom)

/-! ### text and comments -/

theorem cp_appendText {c : List Id} {text : Str} : CP d0 c (appendText text) (fun _ => []) := by
  intro s hcb _
  unfold appendText insertAppropriately
  refine SatC.bind (Q := fun _ s' => CB d0 s' ∧ GrowRel s s') ?_ (fun _ s' h => satc_pure ⟨h.1, h.2, CtxOk.nil _⟩)
  refine (satc_appropriatePlace (ov := none) hcb (fun t h => by cases h)).bind ?_
  rintro ip s1 ⟨hq1, hip⟩
  refine (satc_insertAt_text hq1.cb hip.valid).mono ?_
  rintro _ s2 ⟨ht, P, _, heff⟩
  exact ⟨ht.cb, hq1.g.text ht heff⟩

macro_rules | `(tactic| cp_leaf) => `(tactic| with_reducible exact cp_appendText)

theorem CreatedK.notOnStack {s s1 : State} {r : Id} (hcb : CB d0 s) (hc : CreatedK d0 s s1 r) :
    ∀ x ∈ s1.openElems, x ≠ r := by
  intro x hx e
  rw [hc.q.openElems] at hx
  subst e
  exact Nat.lt_irrefl _ (Nat.lt_of_lt_of_le (hcb.h.lt x hx) hc.ge)

theorem CreatedK.notDoc {s s1 : State} {r : Id} (hc : CreatedK d0 s s1 r) :
    s1.dom.dataOf r ≠ some .document := by
  obtain ⟨t, ht⟩ := hc.data
  rw [ht]; intro h; cases h

theorem cp_appendComment {c : List Id} {text : Str} : CP d0 c (appendComment text) (fun _ => []) := by
  intro s hcb _
  unfold appendComment
  refine (satc_createComment hcb).bind ?_
  intro r s1 hc
  refine SatC.bind (Q := fun _ s' => CB d0 s' ∧ GrowRel s s') ?_ (fun _ s' h => satc_pure ⟨h.1, h.2, CtxOk.nil _⟩)
  refine (satc_insertAppropriately_node hc.q.cb hc.fresh (hc.notOnStack hcb) hc.notDoc).mono ?_
  rintro _ s3 ⟨ht, P, hPne, heff⟩
  exact ⟨ht.cb, hc.q.g.attachLast ht hc.ge hc.sz hPne heff⟩

macro_rules | `(tactic| cp_leaf) => `(tactic| with_reducible exact cp_appendComment)

/-- appending a fresh node `r` (the last node of the arena) to an older container -/
theorem satc_appendLast {p r : Id} {s s1 : State} (g : GrowRel s s1) (hcb : CB d0 s1)
    (hp : s1.dom.isContainer p = true) (hpr : p ≠ r) (hf : FreshNode s1.dom r) (hr : s.dom.size ≤ r)
    (hsz : s1.dom.size = r + 1) :
    SatC (sinkUnit (.append p (.node r))) s1 (fun _ s' => CB d0 s' ∧ GrowRel s s' ∧ Ext s1.dom s'.dom ∧
      ∃ d t, s' = { s1 with dom := d, traceRev := t }) := by
  have hne : ∀ x ∈ ipIds (.lastChild p), x ≠ r := by
    intro x hx; simp only [ipIds, List.mem_singleton] at hx; subst hx; exact hpr
  refine (satc_insertAt_node (ip := .lastChild p) hcb hp hf hne).mono ?_
  rintro _ s2 ⟨ht, P, hP, heff⟩
  have hPe : P = p := by simp [ipParent] at hP; exact hP.symm
  exact ⟨ht.cb, g.attachLast ht hr hsz (by rw [hPe]; exact hpr) heff, ht.ext, ht.same⟩

theorem cp_appendCommentToDoc {c : List Id} {text : Str} : CP d0 c (appendCommentToDoc text) (fun _ => []) := by
  intro s hcb _
  unfold appendCommentToDoc
  refine (satc_createComment hcb).bind ?_
  intro r s1 hc
  refine satc_getS_bind ?_
  refine SatC.bind (Q := fun _ s' => CB d0 s' ∧ GrowRel s s') ?_ (fun _ s' h => satc_pure ⟨h.1, h.2, CtxOk.nil _⟩)
  have hdoc := hc.q.cb.h.doc0
  rw [hc.q.cb.h.docH]
  have h0 : (0 : Id) ≠ r := by
    rintro rfl
    exact hc.notDoc hdoc
  exact (satc_appendLast hc.q.g hc.q.cb (isContainer_of_doc hdoc) h0 hc.fresh hc.ge hc.sz).mono
    (fun _ _ h => ⟨h.1, h.2.1⟩)

macro_rules | `(tactic| cp_leaf) => `(tactic| with_reducible exact cp_appendCommentToDoc)

theorem cp_appendCommentToHtml {c : List Id} {text : Str} : CP d0 c (appendCommentToHtml text) (fun _ => []) := by
  intro s hcb _
  unfold appendCommentToHtml
  refine satcv_htmlElemFn.bind ?_
  rintro target s0 ⟨rfl, hl⟩
  have hmem : target ∈ s0.openElems := List.mem_of_head? hl
  refine (satc_createComment hcb).bind ?_
  intro r s1 hc
  refine SatC.bind (Q := fun _ s' => CB d0 s' ∧ GrowRel s0 s') ?_ (fun _ s' h => satc_pure ⟨h.1, h.2, CtxOk.nil _⟩)
  have hel := (hcb.h.open_el target hmem).ext hc.q.ext
  have hne : target ≠ r := by
    rintro rfl
    exact Nat.lt_irrefl _ (Nat.lt_of_lt_of_le (hcb.h.lt target hmem) hc.ge)
  exact (satc_appendLast hc.q.g hc.q.cb (isContainer_of_isElement (isElement_of_isEl hel)) hne hc.fresh hc.ge
    hc.sz).mono (fun _ _ h => ⟨h.1, h.2.1⟩)

macro_rules | `(tactic| cp_leaf) => `(tactic| with_reducible exact cp_appendCommentToHtml)

/-! ### `create_root` -/

theorem cp_createRoot {c : List Id} {attrs : List Attr} (ha : Dom.attrKeysNodup attrs = true) :
    CP d0 c (createRoot attrs) (fun _ => []) := by
  intro s hcb _
  unfold createRoot
  refine (satc_createElement_sz hcb ha).bind ?_
  rintro elem s1 ⟨hc, hsz⟩
  unfold H5V.Model.HtmlTB.push
  refine satc_modS_bind ?_
  refine satc_getS_bind ?_
  have hcb2 := hc.q.cb.push hc.el hc.tc
  have g2 : GrowRel s { s1 with openElems := s1.openElems ++ [elem] } :=
    hc.q.g.push hc.q.openElems hc.ge hc.lt
  have hd0 : s1.docHandle = 0 := hc.q.cb.h.docH
  have hpc : s1.dom.isContainer s1.docHandle = true := by rw [hd0]; exact isContainer_of_doc hc.q.cb.h.doc0
  have h0 : s1.docHandle ≠ elem := by
    rw [hd0]
    rintro rfl
    exact Nat.lt_irrefl _ (Nat.lt_of_lt_of_le (lt_of_data hcb.h.doc0) hc.ge)
  refine SatC.mono (satc_appendLast (p := s1.docHandle) g2 hcb2 hpc h0 hc.fresh hc.ge hsz) ?_
  intro _ s' h
  exact ⟨h.1, h.2.1, CtxOk.nil _⟩

macro_rules | `(tactic| cp_leaf) => `(tactic| with_reducible exact cp_createRoot (by assumption))

/-! ### inserting an element that was created *after* the insertion point was computed -/

/-- the handles of a valid insertion point are nodes of the arena -/
theorem ipIds_lt {d : Dom} {ip : InsertionPoint} (hv : IpValid d ip) : ∀ x ∈ ipIds ip, x < d.size := by
  intro x hx
  cases ip with
  | lastChild p => simp [ipIds] at hx; subst hx; exact lt_of_isContainer hv
  | beforeSibling sb => exact absurd hv id
  | tableFosterParenting e pe =>
    simp [ipIds] at hx
    rcases hx with rfl | rfl
    · exact lt_of_isElement hv.1
    · exact lt_of_isElement hv.2

/-- what `insert_at(ip, elem)` does when `ip` was computed (state `s1`) before `elem` was created
(state `s3`) and only tree-neutral calls followed (state `s4`) -/
structure InsertedC (d0 : Dom) (s s4 s5 : State) (elem : Id) (name : QualName) : Prop where
  cb : CB d0 s5
  g : GrowRel s s5
  el : IsEl s5.dom elem
  tc : TcDoc s5.dom elem
  nm : nm s5.dom elem = ⟨name.ns, name.loc⟩
  lt : elem < s5.dom.size
  same : ∃ d t, s5 = { s4 with dom := d, traceRev := t }

theorem satc_insertCreated {ip : InsertionPoint} {elem : Id} {name : QualName} {s s1 s2 s3 s4 : State}
    (hq1 : Q2 d0 s s1) (hv : IpValid s1.dom ip) (hq2 : Q2 d0 s1 s2) (hc : CreatedC d0 s2 s3 elem name)
    (hq4 : Q2 d0 s3 s4) (hd4 : s4.dom = s3.dom) :
    SatC (H5V.Model.HtmlTB.insertAt ip (NodeOrText.node elem)) s4
      (fun _ s5 => InsertedC d0 s s4 s5 elem name) := by
  have hq13 : Q2 d0 s1 s3 := hq2.trans hc.q
  have hq14 : Q2 d0 s1 s4 := hq13.trans hq4
  have hv4 : IpValid s4.dom ip := hv.kext hq14.g.kext
  have hf4 : FreshNode s4.dom elem := hc.fresh.of_same_dom hd4
  have hge : s1.dom.size ≤ elem := Nat.le_trans hq2.g.size hc.ge
  have hne : ∀ x ∈ ipIds ip, x ≠ elem := fun x hx e => by
    have := ipIds_lt hv x hx; rw [e] at this; exact Nat.lt_irrefl _ (Nat.lt_of_lt_of_le this hge)
  refine (satc_insertAt_node hq4.cb hv4 hf4 hne).mono ?_
  rintro _ s5 ⟨ht5, P, hP, heff⟩
  have hPlt : P < elem := by
    have h1 : ipParent s4.dom ip = ipParent s1.dom ip := ipParent_stable hv hq14.g.oldPar
    rw [h1] at hP
    exact Nat.lt_of_lt_of_le (ipParent_lt hq1.cb.d.inv hv hP) hge
  have hg14 : GrowRel s s4 := hq1.g.trans hq14.g
  have hlt4 : elem < s4.dom.size := by rw [hd4]; exact hc.lt
  have hel4 : IsEl s4.dom elem := hc.el.ext hq4.ext
  refine ⟨ht5.cb, hg14.attach ht5 (Nat.le_trans hq1.g.size hge) hlt4 hPlt heff, hel4.ext ht5.ext,
    (hc.tc.ext hq4.ext hq4.g.kext hc.el).ext ht5.ext ht5.kext hel4, ?_, by rw [heff.size]; exact hlt4, ht5.same⟩
  rw [nm_ext ht5.ext hel4, nm_ext hq4.ext hc.el]; exact hc.nm

/-- the final `push` of the insertion helpers -/
theorem InsertedC.push {s s4 s5 : State} {elem : Id} {name : QualName} (h : InsertedC d0 s s4 s5 elem name)
    (hst : s4.openElems = s.openElems) (hr : s.dom.size ≤ elem) :
    CB d0 { s5 with openElems := s5.openElems ++ [elem] } ∧
    GrowRel s { s5 with openElems := s5.openElems ++ [elem] } := by
  obtain ⟨d, t, e⟩ := h.same
  have hst5 : s5.openElems = s.openElems := by rw [e]; exact hst
  exact ⟨h.cb.push h.el h.tc, h.g.push hst5 hr h.lt⟩

/-! ### `insert_foreign_element` -/

theorem cp_insertForeignElement {c : List Id} {tag : Tag} {ns : Str} {only : Bool}
    (ha : Dom.attrKeysNodup tag.attrs = true) :
    CP d0 c (insertForeignElement tag ns only) (fun r => [r]) := by
  intro s hcb _
  unfold insertForeignElement
  refine (satc_appropriatePlace (ov := none) hcb (fun t h => by cases h)).bind ?_
  rintro ip s1 ⟨hq1, hip⟩
  refine (satc_createElement hq1.cb ha).bind ?_
  intro elem s3 hc
  dsimp only
  have hge : s.dom.size ≤ elem := Nat.le_trans hq1.g.size hc.ge
  unfold H5V.Model.HtmlTB.push
  refine satc_ite (fun _ => ?_) (fun _ => ?_)
  · refine (satc_insertCreated hq1 hip.valid (Q2.refl hq1.cb) hc (Q2.refl hc.q.cb) rfl).bind ?_
    intro _ s5 hi
    refine satc_modS_bind ?_
    have hp := hi.push (by rw [hc.q.openElems, hq1.openElems]) hge
    exact satc_pure ⟨hp.1, hp.2, fun x hx => by rw [List.mem_singleton.mp hx]; exact hi.el⟩
  · refine satc_modS_bind ?_
    refine satc_pure ⟨hc.q.cb.push hc.el hc.tc, ?_, fun x hx => by rw [List.mem_singleton.mp hx]; exact hc.el⟩
    exact (hq1.g.trans hc.q.g).push (by rw [hc.q.openElems, hq1.openElems]) hge hc.lt

macro_rules | `(tactic| cp_leaf) => `(tactic| with_reducible exact cp_insertForeignElement (by assumption))

/-! ### `parse_raw_data` -/

theorem cp_parseRawData {c : List Id} {tag : Tag} {k : H5V.Model.HtmlTok.RawKind}
    (ha : Dom.attrKeysNodup tag.attrs = true) : CP d0 c (parseRawData tag k) (fun _ => []) := by
  unfold parseRawData
  refine cp_bind (cp_insertElementFor ha) ?_
  intro _
  exact cp_toRawTextMode

macro_rules | `(tactic| cp_leaf) => `(tactic| with_reducible exact cp_parseRawData (by assumption))

/-! ### `should_attach_declarative_shadow` -/

theorem contract_allow {d : Dom} {p : Id} (h : d.isContainer p = true) :
    Contract d (.allowDeclarativeShadowRoots p) := h

theorem isContainer_ipNodes {d : Dom} {ip : InsertionPoint} (hv : IpValid d ip) :
    d.isContainer ip.nodes.1 = true := by
  cases ip with
  | lastChild p => exact hv
  | beforeSibling sb => exact absurd hv id
  | tableFosterParenting e pe => exact isContainer_of_isElement hv.1

theorem cp_shouldAttachDeclarativeShadow {c : List Id} {tag : Tag} :
    CP d0 c (shouldAttachDeclarativeShadow tag) (fun _ => []) := by
  intro s hcb _
  unfold shouldAttachDeclarativeShadow
  refine (satc_appropriatePlace (ov := none) hcb (fun t h => by cases h)).bind ?_
  rintro ip s1 ⟨hq1, hip⟩
  dsimp only
  unfold sinkBool
  refine SatC.bind (Q := fun _ s' => CB d0 s' ∧ GrowRel s s') ?_ ?_
  · refine SatC.bind (satc_sink_nt hq1.cb rfl (contract_allow (isContainer_ipNodes hip.valid))) ?_
    rintro out s2 ⟨hcb2, hg2, _⟩
    cases out <;> first
      | exact satc_pure ⟨hcb2, hq1.g.trans hg2⟩
      | exact satc_throw_lit
  · rintro allow s2 ⟨hcb2, hg2⟩
    refine satc_getS_bind ?_
    exact satc_pure ⟨hcb2, hg2, CtxOk.nil _⟩

macro_rules | `(tactic| cp_leaf) => `(tactic| with_reducible exact cp_shouldAttachDeclarativeShadow)

/-! ### `insert_element`, with the name of the new element -/

/-- **`insert_element`** (value-carrying variant of `cp_insertElement`): the result is an element
named as requested -/
theorem satc_insertElement_val {pushIt : Bool} {ns name : Str} {attrs : List Attr} {hadDup : Bool} {s : State}
    (hcb : CB d0 s) (ha : Dom.attrKeysNodup attrs = true) :
    SatC (insertElement pushIt ns name attrs hadDup) s
      (fun r s' => CB d0 s' ∧ GrowRel s s' ∧ IsEl s'.dom r ∧ nm s'.dom r = ⟨ns, name⟩) := by
  unfold insertElement
  refine (satc_appropriatePlace (ov := none) hcb (fun t h => by cases h)).bind ?_
  rintro ip s1 ⟨hq1, hip⟩
  dsimp only
  refine satc_getS_bind ?_
  have hrest : ∀ (elem : Id) (s2 s3 s4 : State), Q2 d0 s1 s2 → CreatedC d0 s2 s3 elem { pfx := none, ns := ns, loc := name } →
      Q2 d0 s3 s4 → s4.dom = s3.dom →
      SatC (do
        H5V.Model.HtmlTB.insertAt ip (NodeOrText.node elem)
        if pushIt = true then do
            push elem
            pure elem
          else pure elem) s4
        (fun r s' => CB d0 s' ∧ GrowRel s s' ∧ IsEl s'.dom r ∧ nm s'.dom r = ⟨ns, name⟩) := by
    intro elem s2 s3 s4 hq2 hc hq4 hd4
    refine (satc_insertCreated hq1 hip.valid hq2 hc hq4 hd4).bind ?_
    intro _ s5 hi
    have hge : s.dom.size ≤ elem := Nat.le_trans hq1.g.size (Nat.le_trans hq2.g.size hc.ge)
    refine satc_ite (fun _ => ?_) (fun _ => ?_)
    · unfold H5V.Model.HtmlTB.push
      refine satc_modS_bind ?_
      have hp := hi.push (by rw [hq4.openElems, hc.q.openElems, hq2.openElems, hq1.openElems]) hge
      exact satc_pure ⟨hp.1, hp.2, hi.el, hi.nm⟩
    · exact satc_pure ⟨hi.cb, hi.g, hi.el, hi.nm⟩
  have htail : ∀ (fa : Bool) (s2 : State), Q2 d0 s1 s2 →
      (fa = true → s1.formElem.isSome = true ∧ hasNamed s1.dom s1.openElems "template".toList = false) →
      SatC (do
        let elem ← createElementWithFlags { pfx := none, ns := ns, loc := name } attrs hadDup
        if fa = true then do
            let __do_lift ← getS
            match __do_lift.formElem with
              | some form => do
                sinkUnit (SinkOp.associateWithForm elem form ip.nodes.fst ip.nodes.snd)
                H5V.Model.HtmlTB.insertAt ip (NodeOrText.node elem)
                if pushIt = true then do
                    push elem
                    pure elem
                  else pure elem
              | none => do
                panicAt "unwrap-none" "mod.rs:1401" "form_elem unwrap"
                H5V.Model.HtmlTB.insertAt ip (NodeOrText.node elem)
                if pushIt = true then do
                    push elem
                    pure elem
                  else pure elem
          else do
            H5V.Model.HtmlTB.insertAt ip (NodeOrText.node elem)
            if pushIt = true then do
                push elem
                pure elem
              else pure elem) s2
        (fun r s' => CB d0 s' ∧ GrowRel s s' ∧ IsEl s'.dom r ∧ nm s'.dom r = ⟨ns, name⟩) := by
    intro fa s2 hq2 hfa
    refine (satc_createElement hq2.cb ha).bind ?_
    intro elem s3 hc
    refine satc_ite (fun hfat => ?_) (fun _ => hrest elem s2 s3 s3 hq2 hc (Q2.refl hc.q.cb) rfl)
    refine satc_getS_bind ?_
    obtain ⟨hsome, hnot⟩ := hfa hfat
    have hform3 : s3.formElem = s1.formElem := by rw [hc.q.formElem, hq2.formElem]
    cases hf : s3.formElem with
    | none => exact SatC.bind (Q := fun _ _ => False) satc_panicAt (fun _ _ h => h.elim)
    | some form =>
      dsimp only
      have hq13 : Q2 d0 s1 s3 := hq2.trans hc.q
      have hnotmpl : ∀ h ∈ s.openElems, namedP s.dom "template".toList h = false := by
        intro h hh
        have : hasNamed s1.dom s1.openElems "template".toList = false := hnot
        unfold hasNamed at this
        rw [List.any_eq_false] at this
        have h1 := this h (by rw [hq1.openElems]; exact hh)
        unfold namedP
        rw [← nm_ext hq1.ext (hcb.h.open_el h hh)]
        simpa using h1
      have hels := hip.els hnotmpl rfl
      have hels3 : ∀ x ∈ ipIds ip, s3.dom.isElement x = true := fun x hx => isElement_kext hq13.g.kext (hels x hx)
      have hcontract : Contract s3.dom (.associateWithForm elem form ip.nodes.fst ip.nodes.snd) := by
        show (s3.dom.isElement elem && s3.dom.isElement form && s3.dom.isElement ip.nodes.fst &&
          (match ip.nodes.snd with | some q => s3.dom.isElement q | none => true)) = true
        rw [isElement_of_isEl hc.el, isElement_of_isEl (hc.q.cb.h.form form hf)]
        cases ip with
        | lastChild p => simp [InsertionPoint.nodes, hels3 p (by simp [ipIds])]
        | beforeSibling sb => exact absurd hip.valid id
        | tableFosterParenting e pe =>
          simp [InsertionPoint.nodes, hels3 e (by simp [ipIds]), hels3 pe (by simp [ipIds])]
      refine SatC.bind (satc_sinkUnit (Q := fun _ s' => Q2 d0 s3 s' ∧ s'.dom = s3.dom) hc.q.cb.d hcontract
        (fun d' out hap hd => ⟨q2_of_nt hc.q.cb rfl hap hd, by
          rw [TBSafe.apply_assoc] at hap; cases hap; rfl⟩)) ?_
      rintro _ s4 ⟨hq4, hd4⟩
      exact hrest elem s2 s3 s4 hq2 hc hq4 hd4
  refine satc_ite (fun hfa => ?_) (fun _ => ?_)
  · refine (satcv_inHtmlElemNamed hq1.cb).bind ?_
    rintro b s2 ⟨rfl, hq2⟩
    have hsome : s1.formElem.isSome = true := by
      simp only [Bool.and_eq_true] at hfa; exact hfa.2
    refine satc_ite (fun _ => ?_) (fun hno => ?_)
    · refine SatC.bind (Q := fun fa s' => fa = false ∧ s2 = s') (satc_pure ⟨rfl, rfl⟩) ?_
      rintro fa s2' ⟨rfl, rfl⟩
      exact htail false s2 hq2 (fun h => by cases h)
    · refine SatC.bind (Q := fun fa s' => s2 = s') (satc_pure rfl) ?_
      rintro fa s2' rfl
      exact htail fa s2 hq2 (fun _ => ⟨hsome, by simpa using hno⟩)
  · refine SatC.bind (Q := fun fa s' => fa = false ∧ s1 = s') (satc_pure ⟨rfl, rfl⟩) ?_
    rintro fa s2' ⟨rfl, rfl⟩
    exact htail false s1 (Q2.refl hq1.cb) (fun h => by cases h)

/-! ### the `<script>` start tag in InHead -/

theorem notDoc_of_isEl {d : Dom} {h : Id} (hi : IsEl d h) : d.dataOf h ≠ some .document := by
  obtain ⟨x, hx⟩ := hi
  intro hd
  unfold sigOf at hx
  rw [hd] at hx
  simp [TBSafe.sigData] at hx

theorem satcv_isFragment {s : State} : SatC isFragment s (fun _ s' => s' = s) := by
  unfold H5V.Model.HtmlTB.isFragment
  refine satc_getS_bind ?_
  exact satc_pure rfl

/-- the `<script>` arm of `stepInHead` (rules.rs:232): the element is created *before* the insertion
point is computed -/
theorem cp_scriptArm {c : List Id} {tag : Tag} (ha : Dom.attrKeysNodup tag.attrs = true) :
    CP d0 c (do
      let elem ← createElementWithFlags (htmlQual "script".toList) tag.attrs tag.hadDup
      if ← isFragment then sinkUnit (.markScriptAlreadyStarted elem)
      insertAppropriately (.node elem) none
      push elem
      toRawTextMode .scriptData) (fun _ => []) := by
  intro s hcb _
  refine (satc_createElement_sz hcb ha).bind ?_
  rintro elem s1 ⟨hc, hsz⟩
  refine SatC.bind (Q := fun _ s' => s' = s1) satcv_isFragment ?_
  rintro b s1' rfl
  dsimp only
  have htail : ∀ (s2 : State), Q2 d0 s1' s2 → s2.dom = s1'.dom →
      SatC (do
        insertAppropriately (NodeOrText.node elem) none
        push elem
        toRawTextMode H5V.Model.HtmlTok.RawKind.scriptData) s2
        (fun _ s' => CB d0 s' ∧ GrowRel s s' ∧ CtxOk [] s') := by
    intro s2 hq2 hd2
    have hel2 : IsEl s2.dom elem := hc.el.ext hq2.ext
    have hst2 : s2.openElems = s.openElems := by rw [hq2.openElems, hc.q.openElems]
    have hst : ∀ x ∈ s2.openElems, x ≠ elem := by
      intro x hx e
      rw [hst2] at hx
      subst e
      exact Nat.lt_irrefl _ (Nat.lt_of_lt_of_le (hcb.h.lt x hx) hc.ge)
    refine (satc_insertAppropriately_node hq2.cb (hc.fresh.of_same_dom hd2) hst (notDoc_of_isEl hel2)).bind ?_
    rintro _ s3 ⟨ht, P, hPne, heff⟩
    have hg3 : GrowRel s s3 :=
      (hc.q.g.trans hq2.g).attachLast ht hc.ge (by rw [hd2]; exact hsz) hPne heff
    obtain ⟨d3, t3, e3⟩ := ht.same
    have hst3 : s3.openElems = s.openElems := by rw [e3]; exact hst2
    have hel3 : IsEl s3.dom elem := hel2.ext ht.ext
    have htc3 : TcDoc s3.dom elem := (hc.tc.ext hq2.ext hq2.g.kext hc.el).ext ht.ext ht.kext hel2
    unfold H5V.Model.HtmlTB.push
    refine satc_modS_bind ?_
    have hlt3 : elem < s3.dom.size := by rw [heff.size, hd2]; exact hc.lt
    have hcb4 := ht.cb.push hel3 htc3
    have hg4 := hg3.push hst3 hc.ge hlt3
    refine (cp_toRawTextMode (c := []) _ hcb4 (CtxOk.nil _)).mono ?_
    rintro _ s5 ⟨hcb5, hg5, _⟩
    exact ⟨hcb5, hg4.trans hg5, CtxOk.nil _⟩
  refine satc_ite (fun _ => ?_) (fun _ => htail s1' (Q2.refl hc.q.cb) rfl)
  refine SatC.bind (satc_sinkUnit (Q := fun _ s' => Q2 d0 s1' s' ∧ s'.dom = s1'.dom) hc.q.cb.d
    (contract_mark hc.el) (fun d' out hap hd => ⟨q2_of_nt hc.q.cb rfl hap hd, by
      rw [TBSafe.apply_mark] at hap; cases hap; rfl⟩)) ?_
  rintro _ s2 ⟨hq2, hd2⟩
  exact htail s2 hq2 hd2

macro_rules | `(tactic| cp_leaf) => `(tactic| with_reducible exact cp_scriptArm (by assumption))

/-! ### the foreign-content attribute adjustments keep attribute lists duplicate-free -/

theorem attrKeysNodup_of_nodup : ∀ (l : List Attr), (l.map Dom.attrKey).Nodup → Dom.attrKeysNodup l = true := by
  intro l
  induction l with
  | nil => intro _; rfl
  | cons a t ih =>
    intro h
    simp only [List.map_cons, List.nodup_cons] at h
    simp only [Dom.attrKeysNodup, Bool.and_eq_true, Bool.not_eq_true']
    refine ⟨?_, ih h.2⟩
    cases hc : (t.map Dom.attrKey).contains (Dom.attrKey a) with
    | false => rfl
    | true => rw [List.contains_iff_mem] at hc; exact absurd hc h.1

/-- `adjust_attributes(tag, map)` on one attribute -/
def adj1 (m : Str → Option QualName) (a : Attr) : Attr :=
  match m a.name.loc with
  | some q => { a with name := q }
  | none => a

theorem adjustAttributes_attrs (m : Str → Option QualName) (tag : Tag) :
    (adjustAttributes m tag).attrs = tag.attrs.map (adj1 m) := rfl

theorem adj1_some {m : Str → Option QualName} {a : Attr} {q : QualName} (h : m a.name.loc = some q) :
    adj1 m a = { a with name := q } := by
  unfold adj1; rw [h]

theorem adj1_none {m : Str → Option QualName} {a : Attr} (h : m a.name.loc = none) : adj1 m a = a := by
  unfold adj1; rw [h]

/-- a first-stage adjustment table (SVG, MathML, or none): the new names are in no namespace, contain
an upper-case letter, are not adjusted again by `adjust_foreign_attributes`, and determine the name
they replace -/
structure GoodMap (m : Str → Option QualName) : Prop where
  plain : ∀ l q, m l = some q → q.pfx = none ∧ q.ns = []
  upper : ∀ l q, m l = some q → ∃ c ∈ q.loc, 'A' ≤ c ∧ c ≤ 'Z'
  noForeign : ∀ l q, m l = some q → foreignAttrMap q.loc = none
  back : ∀ l q, m l = some q → l = q.loc.map asciiLower

set_option maxHeartbeats 1600000 in
theorem svgNames_facts : ∀ s ∈ svgAttrNames,
    (∃ c ∈ s.toList, 'A' ≤ c ∧ c ≤ 'Z') ∧ foreignAttrMap s.toList = none := by decide

theorem foreignTable_ns : ∀ x ∈ foreignAttrTable, x.2.2.1 ≠ [] := by decide

set_option maxHeartbeats 1600000 in
theorem foreignTable_inj : ∀ x ∈ foreignAttrTable, ∀ y ∈ foreignAttrTable,
    x.2.2.1 = y.2.2.1 → x.2.2.2.toList = y.2.2.2.toList → x.1 = y.1 := by decide

theorem mathml_facts : (∃ c ∈ "definitionURL".toList, 'A' ≤ c ∧ c ≤ 'Z') ∧
    foreignAttrMap "definitionURL".toList = none ∧
    "definitionurl".toList = "definitionURL".toList.map asciiLower := by decide

theorem svgAttrMap_some {l : Str} {q : QualName} (h : svgAttrMap l = some q) :
    ∃ s ∈ svgAttrNames, l = lowerStr s ∧ q = plainName s.toList := by
  unfold svgAttrMap at h
  cases hf : svgAttrNames.find? (fun s => lowerStr s == l) with
  | none => rw [hf] at h; cases h
  | some s =>
    rw [hf] at h
    simp only [Option.map_some, Option.some.injEq] at h
    have h1 := List.find?_some hf
    exact ⟨s, List.mem_of_find?_eq_some hf, (by simpa using h1 : lowerStr s = l).symm, h.symm⟩

theorem goodMap_svg : GoodMap svgAttrMap := by
  refine ⟨?_, ?_, ?_, ?_⟩ <;> intro l q h <;> obtain ⟨s, hs, hl, rfl⟩ := svgAttrMap_some h
  · exact ⟨rfl, rfl⟩
  · exact (svgNames_facts s hs).1
  · exact (svgNames_facts s hs).2
  · exact hl

theorem goodMap_mathml : GoodMap mathmlAttrMap := by
  have hm : ∀ l q, mathmlAttrMap l = some q → l = "definitionurl".toList ∧ q = plainName "definitionURL".toList := by
    intro l q h
    unfold mathmlAttrMap at h
    by_cases hn : isName l "definitionurl" = true
    · rw [if_pos hn] at h
      simp only [Option.some.injEq] at h
      exact ⟨(by simpa [isName] using hn : "definitionurl".toList = l).symm, h.symm⟩
    · rw [if_neg hn] at h; cases h
  refine ⟨?_, ?_, ?_, ?_⟩ <;> intro l q h <;> obtain ⟨rfl, rfl⟩ := hm l q h
  · exact ⟨rfl, rfl⟩
  · exact mathml_facts.1
  · exact mathml_facts.2.1
  · exact mathml_facts.2.2

theorem goodMap_none : GoodMap (fun _ => none) := by
  refine ⟨?_, ?_, ?_, ?_⟩ <;> intro l q h <;> cases h

theorem foreignAttrMap_some {l : Str} {r : QualName} (h : foreignAttrMap l = some r) :
    ∃ x ∈ foreignAttrTable, x.1.toList = l ∧ r.ns = x.2.2.1 ∧ r.loc = x.2.2.2.toList := by
  unfold foreignAttrMap at h
  cases hf : foreignAttrTable.find? (fun r => r.1.toList == l) with
  | none => rw [hf] at h; cases h
  | some x =>
    rw [hf] at h
    simp only [Option.map_some, Option.some.injEq] at h
    have h1 := List.find?_some hf
    subst h
    exact ⟨x, List.mem_of_find?_eq_some hf, by simpa using h1, rfl, rfl⟩

/-- an attribute as the tokenizer delivers it -/
def OkA (a : Attr) : Prop := a.name.ns = [] ∧ a.name.pfx = none ∧ ∀ c ∈ a.name.loc, ¬('A' ≤ c ∧ c ≤ 'Z')

/-- the key of an attribute after both adjustments, by cases -/
theorem adjKey_cases {m : Str → Option QualName} (hm : GoodMap m) {a : Attr} (ha : OkA a) :
    (∃ q, m a.name.loc = some q ∧ Dom.attrKey (adj1 foreignAttrMap (adj1 m a)) = (none, [], q.loc)) ∨
    (∃ r, foreignAttrMap a.name.loc = some r ∧ r.ns ≠ [] ∧
      Dom.attrKey (adj1 foreignAttrMap (adj1 m a)) = (none, r.ns, r.loc)) ∨
    Dom.attrKey (adj1 foreignAttrMap (adj1 m a)) = (none, [], a.name.loc) := by
  cases h1 : m a.name.loc with
  | some q =>
    refine Or.inl ⟨q, rfl, ?_⟩
    rw [adj1_some h1]
    have hn : foreignAttrMap ({ a with name := q } : Attr).name.loc = none := hm.noForeign _ _ h1
    rw [adj1_none hn]
    obtain ⟨hp, hns⟩ := hm.plain _ _ h1
    unfold Dom.attrKey
    rw [if_pos hns, hp]
  | none =>
    rw [adj1_none h1]
    cases h2 : foreignAttrMap a.name.loc with
    | some r =>
      refine Or.inr (Or.inl ⟨r, rfl, ?_⟩)
      obtain ⟨x, hx, _, hns, _⟩ := foreignAttrMap_some h2
      have hne : r.ns ≠ [] := by rw [hns]; exact foreignTable_ns x hx
      refine ⟨hne, ?_⟩
      rw [adj1_some h2]
      unfold Dom.attrKey
      rw [if_neg hne]
    | none =>
      refine Or.inr (Or.inr ?_)
      rw [adj1_none h2]
      unfold Dom.attrKey
      rw [if_pos ha.1, ha.2.1]

theorem adjKey_inj {m : Str → Option QualName} (hm : GoodMap m) {a b : Attr} (ha : OkA a) (hb : OkA b)
    (h : Dom.attrKey (adj1 foreignAttrMap (adj1 m a)) = Dom.attrKey (adj1 foreignAttrMap (adj1 m b))) :
    a.name.loc = b.name.loc := by
  rcases adjKey_cases hm ha with ⟨q1, hq1, k1⟩ | ⟨r1, hr1, hn1, k1⟩ | k1 <;>
  rcases adjKey_cases hm hb with ⟨q2, hq2, k2⟩ | ⟨r2, hr2, hn2, k2⟩ | k2 <;>
  rw [k1, k2] at h <;> simp only [Prod.mk.injEq, true_and] at h
  · rw [hm.back _ _ hq1, hm.back _ _ hq2, h]
  · exact absurd h.1.symm hn2
  · obtain ⟨c, hc, hu⟩ := hm.upper _ _ hq1
    rw [h] at hc
    exact absurd hu (hb.2.2 c hc)
  · exact absurd h.1 hn1
  · obtain ⟨x, hx, hxl, hxn, hxo⟩ := foreignAttrMap_some hr1
    obtain ⟨y, hy, hyl, hyn, hyo⟩ := foreignAttrMap_some hr2
    have := foreignTable_inj x hx y hy (by rw [← hxn, ← hyn]; exact h.1) (by rw [← hxo, ← hyo]; exact h.2)
    rw [← hxl, ← hyl, this]
  · exact absurd h.1 hn1
  · obtain ⟨c, hc, hu⟩ := hm.upper _ _ hq2
    rw [← h] at hc
    exact absurd hu (ha.2.2 c hc)
  · exact absurd h.1.symm hn2
  · exact h

/-- **both adjustments keep a tokenizer-delivered attribute list duplicate-free** -/
theorem attrKeysNodup_adjust {m : Str → Option QualName} (hm : GoodMap m) {tag : Tag} (ha : AttrsOk tag.attrs) :
    Dom.attrKeysNodup (adjustAttributes foreignAttrMap (adjustAttributes m tag)).attrs = true := by
  rw [adjustAttributes_attrs, adjustAttributes_attrs]
  refine attrKeysNodup_of_nodup _ ?_
  rw [List.map_map, List.map_map]
  obtain ⟨h1, h2⟩ := ha
  unfold List.Nodup
  rw [List.pairwise_map]
  have h2' : tag.attrs.Pairwise (fun a b => a.name.loc ≠ b.name.loc) := by
    have := h2; unfold List.Nodup at this; rwa [List.pairwise_map] at this
  refine h2'.imp_of_mem ?_
  intro a b hma hmb hne hk
  exact hne (adjKey_inj hm (h1 a hma) (h1 b hmb) hk)

theorem attrKeysNodup_adjustSvg {tag : Tag} (ha : AttrsOk tag.attrs) :
    Dom.attrKeysNodup (adjustForeignAttributes (adjustSvgAttributes tag)).attrs = true :=
  attrKeysNodup_adjust goodMap_svg ha

theorem attrKeysNodup_adjustMathml {tag : Tag} (ha : AttrsOk tag.attrs) :
    Dom.attrKeysNodup (adjustForeignAttributes (adjustMathmlAttributes tag)).attrs = true :=
  attrKeysNodup_adjust goodMap_mathml ha

theorem attrKeysNodup_adjustForeign {tag : Tag} (ha : AttrsOk tag.attrs) :
    Dom.attrKeysNodup (adjustForeignAttributes tag).attrs = true := by
  have h := attrKeysNodup_adjust goodMap_none (tag := tag) ha
  have e : (adjustAttributes (fun _ => none) tag).attrs = tag.attrs := by
    rw [adjustAttributes_attrs]
    have : adj1 (fun _ => none) = id := funext (fun a => rfl)
    rw [this, List.map_id]
  rw [adjustAttributes_attrs] at h
  rw [e] at h
  exact h

/-! ### `enter_foreign`, `foreign_start_tag` -/

macro_rules | `(tactic| cp_leaf) => `(tactic| with_reducible exact cp_insertElement (by assumption))

theorem attrKeysNodup_enterForeign {tag : Tag} {ns : Str} (ha : AttrsOk tag.attrs) :
    Dom.attrKeysNodup (adjustForeignAttributes
      (if (ns == nsMathml) = true then adjustMathmlAttributes tag
       else if (ns == nsSvg) = true then adjustSvgAttributes tag else tag)).attrs = true := by
  by_cases h1 : (ns == nsMathml) = true
  · rw [if_pos h1]; exact attrKeysNodup_adjustMathml ha
  · rw [if_neg h1]
    by_cases h2 : (ns == nsSvg) = true
    · rw [if_pos h2]; exact attrKeysNodup_adjustSvg ha
    · rw [if_neg h2]; exact attrKeysNodup_adjustForeign ha

theorem attrKeysNodup_foreignStartTag {tag : Tag} {ns : Str} (ha : AttrsOk tag.attrs) :
    Dom.attrKeysNodup (adjustForeignAttributes
      (if (ns == nsMathml) = true then adjustMathmlAttributes tag
       else if (ns == nsSvg) = true then adjustSvgAttributes { tag with name := adjustSvgTagName tag.name }
       else tag)).attrs = true := by
  by_cases h1 : (ns == nsMathml) = true
  · rw [if_pos h1]; exact attrKeysNodup_adjustMathml ha
  · rw [if_neg h1]
    by_cases h2 : (ns == nsSvg) = true
    · rw [if_pos h2]; exact attrKeysNodup_adjustSvg (tag := { tag with name := adjustSvgTagName tag.name }) ha
    · rw [if_neg h2]; exact attrKeysNodup_adjustForeign ha

theorem cp_enterForeign {c : List Id} {tag : Tag} {ns : Str} (ha : AttrsOk tag.attrs) :
    CP d0 c (enterForeign tag ns) (fun _ => []) := by
  unfold enterForeign
  dsimp only
  have hk := attrKeysNodup_enterForeign (ns := ns) ha
  refine cp_ite (fun _ => ?_) (fun _ => ?_)
  · exact cp_bind (cp_insertElement hk) (fun _ => cp_pure_nil _)
  · exact cp_bind (cp_insertElement hk) (fun _ => cp_pure_nil _)

macro_rules | `(tactic| cp_leaf) => `(tactic| with_reducible exact cp_enterForeign (by assumption))

theorem cp_foreignStartTag {c : List Id} {tag : Tag} (ha : AttrsOk tag.attrs) :
    CP d0 c (foreignStartTag tag) (fun _ => []) := by
  unfold foreignStartTag
  refine cp_bind cp_adjustedCurrentNode ?_
  intro cur
  refine cp_bind (cp_elemName (by simp)) ?_
  intro n
  dsimp only
  have hk := attrKeysNodup_foreignStartTag (ns := n.ns) ha
  refine cp_ite (fun _ => ?_) (fun _ => ?_)
  · exact cp_bind (cp_insertElement hk) (fun _ => cp_pure_nil _)
  · exact cp_bind (cp_insertElement hk) (fun _ => cp_pure_nil _)

macro_rules | `(tactic| cp_leaf) => `(tactic| with_reducible exact cp_foreignStartTag (by assumption))

/-! ### the list of active formatting elements: reconstruction, `create_formatting_element_for` -/

/-- replacing the list of active formatting elements by one whose element entries are good -/
theorem cb_withAF {s : State} (hcb : CB d0 s) {af : List FormatEntry}
    (h : ∀ x t, FormatEntry.element x t ∈ af →
      IsEl s.dom x ∧ nm s.dom x = ⟨nsHtml, t.name⟩ ∧ isOneOf t.name fmtNames = true ∧ AttrsOk t.attrs) :
    CB d0 { s with activeFormatting := af } ∧ GrowRel s { s with activeFormatting := af } :=
  ⟨⟨⟨hcb.d.inv, hcb.d.run⟩,
    ⟨hcb.h.docH, hcb.h.doc0, hcb.h.open_el, hcb.h.open_tc, h, hcb.h.head, hcb.h.form, hcb.h.ctx, hcb.h.headTc⟩,
    lateS_of_eq hcb.l rfl rfl rfl⟩, GrowRel.of_sublist rfl (List.Sublist.refl _)⟩

theorem satc_reconstructCreate : ∀ (fuel entryIndex : Nat) (s : State), CB d0 s →
    SatC (reconstructCreate fuel entryIndex) s (fun _ s' => CB d0 s' ∧ GrowRel s s') := by
  intro fuel
  induction fuel with
  | zero => intro _ s _; unfold H5V.Model.HtmlTB.reconstructCreate; exact satc_fuelOut
  | succ fuel ih =>
    intro entryIndex s hcb
    unfold H5V.Model.HtmlTB.reconstructCreate
    refine satc_getS_bind ?_
    cases hget : s.activeFormatting[entryIndex]? with
    | none => exact SatC.bind (Q := fun _ _ => False) satc_panicAt (fun _ _ h => h.elim)
    | some e =>
      cases e with
      | marker => exact SatC.bind (Q := fun _ _ => False) satc_panicAt (fun _ _ h => h.elim)
      | element h t =>
        dsimp only
        refine SatC.bind (Q := fun r s' => t = r ∧ s = s') (satc_pure ⟨rfl, rfl⟩) ?_
        rintro tag s0 ⟨rfl, rfl⟩
        have hmem : FormatEntry.element h t ∈ s.activeFormatting := List.mem_of_getElem? hget
        obtain ⟨_, _, hfmt, hattrs⟩ := hcb.h.af h t hmem
        refine (satc_insertElement_val hcb (attrKeysNodup_of_attrsOk hattrs)).bind ?_
        rintro newE s1 ⟨hcb1, hg1, hel1, hnm1⟩
        refine satc_getS_bind ?_
        have hset := cb_withAF hcb1 (af := s1.activeFormatting.set entryIndex (.element newE t)) (by
          intro x t' hx
          rcases List.mem_or_eq_of_mem_set hx with hx | hx
          · exact hcb1.h.af x t' hx
          · cases hx; exact ⟨hel1, hnm1, hfmt, hattrs⟩)
        have hcont : SatC (do
            let __do_lift ← getS
            if (__do_lift.activeFormatting.length == 0) = true then
                panicAt "sub-overflow" "mod.rs:1032" "len() - 1"
              else
                if (entryIndex == __do_lift.activeFormatting.length - 1) = true then pure ()
                else reconstructCreate fuel (entryIndex + 1))
            { s1 with activeFormatting := s1.activeFormatting.set entryIndex (.element newE t) }
            (fun _ s' => CB d0 s' ∧ GrowRel s s') := by
          refine satc_getS_bind ?_
          refine satc_ite (fun _ => satc_panicAt) (fun _ => ?_)
          refine satc_ite (fun _ => satc_pure ⟨hset.1, hg1.trans hset.2⟩) (fun _ => ?_)
          refine (ih (entryIndex + 1) _ hset.1).mono ?_
          rintro _ s3 ⟨hcb3, hg3⟩
          exact ⟨hcb3, (hg1.trans hset.2).trans hg3⟩
        refine satc_ite (fun _ => ?_) (fun _ => ?_)
        · unfold H5V.Model.HtmlTB.setAF
          refine satc_modS_bind ?_
          exact hcont
        · exact SatC.bind (Q := fun _ _ => False) satc_panicAt (fun _ _ h => h.elim)

theorem cp_reconstructCreate {c : List Id} {fuel entryIndex : Nat} :
    CP d0 c (reconstructCreate fuel entryIndex) (fun _ => []) := by
  intro s hcb _
  exact (satc_reconstructCreate fuel entryIndex s hcb).mono (fun _ _ h => ⟨h.1, h.2, CtxOk.nil _⟩)

macro_rules | `(tactic| cp_leaf) => `(tactic| with_reducible exact cp_reconstructCreate)

theorem cp_reconstructActiveFormattingElements {c : List Id} :
    CP d0 c reconstructActiveFormattingElements (fun _ => []) := by
  unfold H5V.Model.HtmlTB.reconstructActiveFormattingElements
  refine cp_getS_bind ?_
  intro s0
  dsimp only
  cases hl : s0.activeFormatting.getLast? with
  | none => exact cp_pure_nil _
  | some last =>
    dsimp only
    refine cp_bind (cp_isMarkerOrOpen ?_) ?_
    · intro h t het
      subst het
      exact mem_afH (List.mem_of_getLast? hl)
    · intro b
      refine cp_ite (fun _ => cp_pure_nil _) (fun _ => ?_)
      exact cp_bind (cp_reconstructRewind _) (fun _ => cp_reconstructCreate)

macro_rules | `(tactic| cp_leaf) => `(tactic| with_reducible exact cp_reconstructActiveFormattingElements)

theorem cp_createFormattingElementFor {c : List Id} {tag : Tag} (hfmt : isOneOf tag.name fmtNames = true)
    (ha : AttrsOk tag.attrs) : CP d0 c (createFormattingElementFor tag) (fun r => [r]) := by
  have htail : ∀ (c' : List Id), CP d0 c' (do
      let elem ← insertElement true nsHtml tag.name tag.attrs tag.hadDup
      modS fun s => { s with activeFormatting := s.activeFormatting ++ [FormatEntry.element elem tag] }
      pure elem) (fun r => [r]) := by
    intro c' s hcb _
    refine (satc_insertElement_val hcb (attrKeysNodup_of_attrsOk ha)).bind ?_
    rintro elem s1 ⟨hcb1, hg1, hel1, hnm1⟩
    refine satc_modS_bind ?_
    have hset := cb_withAF hcb1 (af := s1.activeFormatting ++ [FormatEntry.element elem tag]) (by
      intro x t' hx
      rcases List.mem_append.mp hx with hx | hx
      · exact hcb1.h.af x t' hx
      · simp only [List.mem_singleton] at hx; cases hx; exact ⟨hel1, hnm1, hfmt, ha⟩)
    exact satc_pure ⟨hset.1, hg1.trans hset.2, fun x hx => by rw [List.mem_singleton.mp hx]; exact hel1⟩
  unfold H5V.Model.HtmlTB.createFormattingElementFor
  refine cp_getS_bind ?_
  intro s0
  dsimp only
  refine cp_ite (fun _ => ?_) (fun _ => htail _)
  cases hl : ((afEndToMarker s0.activeFormatting).filter
      (fun x => tag.equivModuloAttrOrder x.2.2)).getLast? with
  | none => exact cp_bind (R := fun _ => []) cp_panicAt (fun _ => htail _)
  | some r => exact cp_bind (R := fun _ => []) cp_afRemove (fun _ => htail _)

macro_rules | `(tactic| cp_leaf) => `(tactic| with_reducible exact cp_createFormattingElementFor (by assumption) (by assumption))

/-! ### the leaves again, for callers that know `AttrsOk` of the tag -/

macro_rules | `(tactic| cp_leaf) => `(tactic| with_reducible exact cp_insertElementFor (attrKeysNodup_of_attrsOk (by assumption)))
macro_rules | `(tactic| cp_leaf) => `(tactic| with_reducible exact cp_insertAndPopElementFor (attrKeysNodup_of_attrsOk (by assumption)))
macro_rules | `(tactic| cp_leaf) => `(tactic| with_reducible exact cp_insertForeignElement (attrKeysNodup_of_attrsOk (by assumption)))
macro_rules | `(tactic| cp_leaf) => `(tactic| with_reducible exact cp_parseRawData (attrKeysNodup_of_attrsOk (by assumption)))
macro_rules | `(tactic| cp_leaf) => `(tactic| with_reducible exact cp_createRoot (attrKeysNodup_of_attrsOk (by assumption)))
macro_rules | `(tactic| cp_leaf) => `(tactic| with_reducible exact cp_scriptArm (attrKeysNodup_of_attrsOk (by assumption)))

end H5V.Lemmas.TBC
