import H5V.Lemmas.HtmlTBContractIns
import H5V.Lemmas.HtmlTBContractConj
import H5V.Lemmas.HtmlTBContractQuiet
/-!
# TreeSink contract for the HTML tree builder, part 4c: the remaining node-creating helpers

`CP` leaves for every helper that creates and inserts a node or text: the wrappers of
`insert_element`, `append_text`, the `append_comment*` family, `create_root`, `insert_foreign_element`,
`enter_foreign` / `foreign_start_tag` (with the attribute adjustments), the reconstruction of the
active formatting elements, `create_formatting_element_for`, `should_attach_declarative_shadow`, and
the `<script>` arm of the InHead rules.
-/
namespace H5V.Lemmas.TBC
open H5V.Model.HtmlTB
open H5V.Model.Dom (Id QualName Attr NodeOrText SinkOp Output ElementFlags QuirksMode Dom NodeData Node Contract)
open H5V.Lemmas.Dom
open H5V.Props.C20 (Inv Run)
open H5V.Lemmas.TBSafe (IsEl nm sigOf Ext apply_ext tmplName fmtNames nm_ext sigOf_ext IsEl.ext sigOf_lt
  apply_elemName apply_getTemplateContents namedP hasNamed)

variable {d0 : Dom}

/-! ### partial correctness at one state; code that leaves the arena alone -/

/-- partial correctness: if the run from `s` succeeds, the result satisfies `Q` -/
def PCat {α : Type} (m : M α) (s : State) (Q : α → State → Prop) : Prop :=
  ∀ a s', m s = .ok (a, s') → Q a s'

theorem satc_and_pc {α : Type} {m : M α} {s : State} {Q1 Q2 : α → State → Prop} (h1 : SatC m s Q1)
    (h2 : PCat m s Q2) : SatC m s (fun a s' => Q1 a s' ∧ Q2 a s') := by
  unfold SatC at h1 ⊢
  cases hm : m s with
  | error e => rw [hm] at h1; exact h1
  | ok r => obtain ⟨a, s'⟩ := r; rw [hm] at h1; exact ⟨h1, h2 a s' hm⟩

/-- the code never changes the arena (it only queries the sink) -/
def DomKeep {α : Type} (m : M α) : Prop := ∀ s, PCat m s (fun _ s' => s'.dom = s.dom)

theorem domKeep_bind {α β : Type} {m : M α} {f : α → M β} (h1 : DomKeep m) (h2 : ∀ a, DomKeep (f a)) :
    DomKeep (m >>= f) := by
  intro s b s' h
  have h' : (StateT.bind m f) s = .ok (b, s') := h
  unfold StateT.bind at h'
  cases hm : m s with
  | error e => simp [hm, bind, Except.bind] at h'
  | ok r =>
    obtain ⟨a, s1⟩ := r
    simp only [hm, bind, Except.bind] at h'
    exact (h2 a s1 b s' h').trans (h1 s a s1 hm)

theorem domKeep_pure {α : Type} (a : α) : DomKeep (pure a : M α) := by
  intro s b s' h
  have h' : (Except.ok (a, s) : Except String (α × State)) = .ok (b, s') := h
  cases h'; rfl

theorem domKeep_throw {α : Type} (e : String) : DomKeep (throw e : M α) := by
  intro s b s' h
  have h' : (Except.error e : Except String (α × State)) = .ok (b, s') := h
  cases h'

theorem domKeep_panicAt {α : Type} {cls site text : String} : DomKeep (panicAt cls site text : M α) :=
  domKeep_throw _

theorem domKeep_getS : DomKeep getS := by
  intro s b s' h
  have h' : (Except.ok (s, s) : Except String (State × State)) = .ok (b, s') := h
  cases h'; rfl

theorem domKeep_ite {α : Type} {p : Prop} [Decidable p] {a b : M α} (h1 : DomKeep a) (h2 : DomKeep b) :
    DomKeep (if p then a else b) := by
  by_cases hp : p
  · rw [if_pos hp]; exact h1
  · rw [if_neg hp]; exact h2

theorem domKeep_sink {op : SinkOp} (h : ∀ (d d' : Dom) (out : Output), d.apply op = .ok (d', out) → d' = d) :
    DomKeep (sink op) := by
  intro s out s' hs
  unfold H5V.Model.HtmlTB.sink at hs
  cases ha : s.dom.apply op with
  | error e => simp [ha] at hs
  | ok r =>
    obtain ⟨d', o⟩ := r
    simp only [ha] at hs
    cases hs
    exact h _ _ _ ha

theorem apply_elemName_same {d d' : Dom} {t : Id} {out : Output} (h : d.apply (.elemName t) = .ok (d', out)) :
    d' = d := by
  unfold Dom.apply Dom.cloneVariant Dom.beforeSiblingVariant at h
  simp only [Dom.applyV, bind, Except.bind] at h
  cases he : d.elemName t with
  | error e => simp [he] at h
  | ok r => simp [he] at h; exact h.1.symm

theorem apply_getTemplateContents_same {d d' : Dom} {t : Id} {out : Output}
    (h : d.apply (.getTemplateContents t) = .ok (d', out)) : d' = d := by
  unfold Dom.apply Dom.cloneVariant Dom.beforeSiblingVariant at h
  simp only [Dom.applyV, bind, Except.bind] at h
  cases he : d.getTemplateContents t with
  | error e => simp [he] at h
  | ok r => simp [he] at h; exact h.1.symm

theorem domKeep_elemName {h : Id} : DomKeep (elemName h) := by
  unfold H5V.Model.HtmlTB.elemName
  refine domKeep_bind (domKeep_sink (fun _ _ _ h => apply_elemName_same h)) ?_
  intro out
  cases out <;> first | exact domKeep_pure _ | exact domKeep_throw _

theorem domKeep_getTemplateContents {h : Id} : DomKeep (sinkNode (.getTemplateContents h)) := by
  unfold sinkNode
  refine domKeep_bind (domKeep_sink (fun _ _ _ h => apply_getTemplateContents_same h)) ?_
  intro out
  cases out <;> first | exact domKeep_pure _ | exact domKeep_throw _

syntax "dk_leaf" : tactic
macro_rules
  | `(tactic| dk_leaf) => `(tactic|
    first
      | with_reducible exact domKeep_pure _
      | with_reducible exact domKeep_throw _
      | with_reducible exact domKeep_panicAt
      | with_reducible exact domKeep_getS
      | with_reducible exact domKeep_elemName
      | with_reducible exact domKeep_getTemplateContents)

syntax "dk_step" : tactic
macro_rules
  | `(tactic| dk_step) => `(tactic|
    first
      | dk_leaf
      | with_reducible apply domKeep_bind
      | with_reducible apply domKeep_ite
      | intro _
      | dsimp only)

syntax "dk_walk" : tactic
macro_rules
  | `(tactic| dk_walk) => `(tactic| repeat' dk_step)

theorem domKeep_htmlElemNamed {h : Id} {name : String} : DomKeep (htmlElemNamed h name) := by
  unfold H5V.Model.HtmlTB.htmlElemNamed H5V.Model.HtmlTB.htmlElemNamedS
  dk_walk

macro_rules | `(tactic| dk_leaf) => `(tactic| with_reducible exact domKeep_htmlElemNamed)

theorem domKeep_elemIn {h : Id} {set : EName → Bool} : DomKeep (elemIn h set) := by
  unfold H5V.Model.HtmlTB.elemIn
  dk_walk

macro_rules | `(tactic| dk_leaf) => `(tactic| with_reducible exact domKeep_elemIn)

theorem domKeep_currentNode : DomKeep currentNode := by
  unfold H5V.Model.HtmlTB.currentNode
  refine domKeep_bind domKeep_getS ?_
  intro s0
  cases s0.openElems.getLast? <;> dk_walk

macro_rules | `(tactic| dk_leaf) => `(tactic| with_reducible exact domKeep_currentNode)

theorem domKeep_htmlElem : DomKeep htmlElem := by
  unfold H5V.Model.HtmlTB.htmlElem
  refine domKeep_bind domKeep_getS ?_
  intro s0
  cases s0.openElems.head? <;> dk_walk

macro_rules | `(tactic| dk_leaf) => `(tactic| with_reducible exact domKeep_htmlElem)

theorem domKeep_fosterLoop : ∀ (l : List Id), DomKeep (fosterLoop l) := by
  intro l
  induction l with
  | nil => unfold fosterLoop; dk_walk
  | cons elem rest ih =>
    unfold fosterLoop
    refine domKeep_bind domKeep_htmlElemNamed ?_
    intro b
    refine domKeep_ite (by dk_walk) ?_
    refine domKeep_bind domKeep_htmlElemNamed ?_
    intro b2
    refine domKeep_ite ?_ ih
    cases rest <;> dk_walk

theorem domKeep_appropriatePlace {ov : Option Id} : DomKeep (appropriatePlaceForInsertion ov) := by
  unfold appropriatePlaceForInsertion
  have hf : ∀ l, DomKeep (fosterLoop l) := domKeep_fosterLoop
  cases ov <;> dsimp only <;> dk_walk <;> exact hf _

end H5V.Lemmas.TBC
