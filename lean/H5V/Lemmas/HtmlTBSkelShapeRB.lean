import H5V.Lemmas.HtmlTBSkelAdjClone
/-!
C06, second invariant layer, part 12: the judgement `RB` for the rules of the body-like modes
(InBody, InTable, InCaption, InColumnGroup, InTableBody, InRow, InCell, InTemplate):
started in `Big m r ph s` with `s.mode = m`, the rule ends in a state with the stack-shape invariant
(for the mode named by a `Reprocess` answer, if that is the answer).
-/
namespace H5V.Props.C06
open H5V.Model.Dom hiding Str
open H5V.Model.HtmlTB hiding Str
open H5V.Lemmas.Dom

/-- tokens handed to the rules: character runs are non-empty, runs tagged `whitespace` are whitespace
(`isAsciiWhitespace`, the class the model uses) -/
class TokW (t : Token) : Prop where
  ne : ∀ st s, t = .chars st s → s ≠ []
  ws : ∀ s, t = .chars .whitespace s → s.all isAsciiWhitespace = true

instance (t : Token) [h : TokW t] : TokOk t := ⟨h.ne⟩
instance (t : Tag) : TokW (.tag t) := ⟨(by intro _ _ h; cases h), (by intro _ h; cases h)⟩
instance (s : Str) : TokW (.comment s) := ⟨(by intro _ _ h; cases h), (by intro _ h; cases h)⟩
instance : TokW .eof := ⟨(by intro _ _ h; cases h), (by intro _ h; cases h)⟩
instance : TokW .nullChar := ⟨(by intro _ _ h; cases h), (by intro _ h; cases h)⟩

/-- the invariant with the root fixed -/
def Good (r : Id) (s : State) : Prop := ∃ up ph, ShapeAt s r up ph ∧ (¬ ph.isPf → FPok s up)

/-- what a rule establishes, given its answer -/
def Out (r : Id) (s : State) : ProcessResult → Prop
  | .reprocess m t => Good r { s with mode := m } ∧ TokW t
  | .reprocessForeign t => Good r s ∧ TokW t
  | _ => Good r s

def NoRe (res : ProcessResult) : Prop := (∀ m t, res ≠ .reprocess m t) ∧ ∀ t, res ≠ .reprocessForeign t

theorem Out.of_good {r : Id} {s : State} {res : ProcessResult} (h : Good r s) (hn : NoRe res) : Out r s res := by
  cases res <;> first | exact h | exact absurd rfl (hn.1 _ _) | exact absurd rfl (hn.2 _)

theorem isBL_cases {m : Mode} (h : isBL m = true) :
    m = .inBody ∨ m = .inTable ∨ m = .inCaption ∨ m = .inColumnGroup ∨ m = .inTableBody ∨ m = .inRow ∨
      m = .inCell ∨ m = .inTemplate := by
  cases m <;> simp [isBL] at h ⊢

theorem fits_of_bl {d : Dom} {head : Option Id} {m : Mode} {up : List Id} {ph : Phase} (hbl : isBL m = true)
    (hbb : BodyBase d head up ph) (hn : Need d m up) : Fits d head m up ph := by
  rcases isBL_cases hbl with rfl | rfl | rfl | rfl | rfl | rfl | rfl | rfl <;> exact ⟨hbb, hn⟩

theorem bl_of_fits {d : Dom} {head : Option Id} {m : Mode} {up : List Id} {ph : Phase} (hbl : isBL m = true)
    (h : Fits d head m up ph) : BodyBase d head up ph ∧ Need d m up := by
  rcases isBL_cases hbl with rfl | rfl | rfl | rfl | rfl | rfl | rfl | rfl <;> exact h

theorem fitsM_of_bl {s : State} {m : Mode} {up : List Id} {ph : Phase} (hbl : isBL m = true) (hm : s.mode = m)
    (h : Fits s.dom s.headElem m up ph) : FitsM s up ph := by
  unfold FitsM
  rw [hm]
  rcases isBL_cases hbl with rfl | rfl | rfl | rfl | rfl | rfl | rfl | rfl <;> exact h

theorem Big.good {m : Mode} {r : Id} {ph : Phase} {s : State} (h : Big m r ph s) (hm : s.mode = m)
    (hbl : isBL m = true) : Good r s := by
  obtain ⟨up, hc, hbb, hn, hfp⟩ := h
  exact ⟨up, ph, ⟨hc, fitsM_of_bl hbl hm (fits_of_bl hbl hbb hn)⟩, fun _ => hfp⟩

/-- the judgement of the rules of the body-like modes -/
class RB (prog : M ProcessResult) : Prop where
  p : ∀ m r ph s res s', Big m r ph s → s.mode = m → isBL m = true → prog s = .ok (res, s') → Out r s' res

theorem RB.bindPB {α : Type} {m : M α} {f : α → M ProcessResult} (h1 : PB m) (h2 : ∀ a, RB (f a)) : RB (m >>= f) :=
  ⟨fun md r ph s res s'' hb hm hbl e => by
    obtain ⟨a, s', e1, e2⟩ := bind_ok.mp e
    obtain ⟨b1, m1, _⟩ := h1.p md r ph s a s' hb e1
    exact (h2 a).p md r ph s' res s'' b1 (m1.trans hm) hbl e2⟩

theorem RB.pure {res : ProcessResult} (hn : NoRe res) : RB (pure res : M ProcessResult) :=
  ⟨fun md r ph s res' s' hb hm hbl e => by
    obtain ⟨rfl, rfl⟩ := pure_ok.mp e
    exact Out.of_good (hb.good hm hbl) hn⟩

theorem RB.ite {c : Prop} [Decidable c] {a b : M ProcessResult} (h1 : RB a) (h2 : RB b) : RB (if c then a else b) := by
  by_cases hc : c
  · simp only [hc, if_true]; exact h1
  · simp only [hc, if_false]; exact h2

theorem RB.dite {c : Prop} [Decidable c] {a b : M ProcessResult} (h1 : c → RB a) (h2 : ¬c → RB b) :
    RB (if c then a else b) := by
  by_cases hc : c
  · simp only [hc, if_true]; exact h1 hc
  · simp only [hc, if_false]; exact h2 hc

theorem RB.throw (e : String) : RB (throw e : M ProcessResult) := ⟨fun _ _ _ _ _ _ _ _ _ h => absurd h throw_ok⟩

instance : RB (pure .done : M ProcessResult) := RB.pure ⟨(by intro m t h; cases h), (by intro t h; cases h)⟩
instance : RB (pure .doneAckSelfClosing : M ProcessResult) := RB.pure ⟨(by intro m t h; cases h), (by intro t h; cases h)⟩
instance : RB (pure .toPlaintext : M ProcessResult) := RB.pure ⟨(by intro m t h; cases h), (by intro t h; cases h)⟩
instance {α : Type} (m : M α) (f : α → M ProcessResult) [h1 : PB m] [h2 : ∀ a, RB (f a)] : RB (m >>= f) :=
  RB.bindPB h1 h2
instance (c : Prop) [Decidable c] (a b : M ProcessResult) [h1 : RB a] [h2 : RB b] : RB (if c then a else b) :=
  RB.ite h1 h2
instance (e : String) : RB (throw e : M ProcessResult) := RB.throw e
instance (c f t : String) : RB (panicAt c f t : M ProcessResult) := RB.throw _

/-- walking a rule -/
syntax "rb_step" : tactic
macro_rules
  | `(tactic| rb_step) => `(tactic|
    first
      | exact inferInstance
      | with_reducible apply RB.bindPB
      | with_reducible apply RB.dite
      | intro _
      | (dsimp only))
syntax "rb_walk" : tactic
macro_rules
  | `(tactic| rb_walk) => `(tactic| repeat' rb_step)

/-! ### answers of the leaf rules -/

instance : RB unexpected :=
  ⟨fun md r ph s res s' hb hm hbl e => by
    obtain ⟨q, rfl⟩ := qs_unexpected e
    exact ((hb.qs q).good (q.mode.trans hm) hbl)⟩

theorem RB.of_pb {prog : M ProcessResult} (h : PB prog) (hr : ∀ s res s', prog s = .ok (res, s') → NoRe res) :
    RB prog :=
  ⟨fun md r ph s res s' hb hm hbl e => by
    obtain ⟨h1, h2, _⟩ := h.p md r ph s res s' hb e
    exact Out.of_good (h1.good (h2.trans hm) hbl) (hr s res s' e)⟩

theorem noRe_done : NoRe .done := ⟨(by intro m t h; cases h), (by intro t h; cases h)⟩

instance (text : Str) [NE text] : RB (appendText text) :=
  RB.of_pb inferInstance (fun s res s' e => by
    unfold appendText at e
    obtain ⟨u, s1, e1, e2⟩ := bind_ok.mp e
    rw [← (pure_ok.mp e2).1]; exact noRe_done)
instance (text : Str) : RB (appendComment text) :=
  RB.of_pb inferInstance (fun s res s' e => by
    unfold appendComment at e
    obtain ⟨c, s1, e1, e2⟩ := bind_ok.mp e
    obtain ⟨u, s2, e3, e4⟩ := bind_ok.mp e2
    rw [← (pure_ok.mp e4).1]; exact noRe_done)

end H5V.Props.C06
