import H5V.Lemmas.HtmlTokSpecLook
import H5V.Lemmas.HtmlTokSpecTabDoctype
set_option linter.unusedSimpArgs false
/-!
# C01 simulation — layer L2, the look-ahead states: the step lemmas

`stepMdo_sim` (markup declaration open), `stepBav_sim` (before attribute value), `stepAdn_sim`
(after DOCTYPE name): one `Tokenizer::step` of the model in these states against the specification.
-/
namespace H5V.Lemmas.HtmlTokSpec
open H5V.Model.HtmlTok
open H5V.Spec.HtmlTokenizer (St Tok Emit Tree Switch Ctl ReturnSt normalizeNewlinesFrom)

/-! ## `step` in the three states -/

theorem look_step_mdo (o : Opts) (pol : Pol) (m : Mach) (inp : Str) (hcr : m.charRef = none)
    (hs : m.state = .markupDeclarationOpen) : step o pol m inp = stepMdo o pol m inp := by
  unfold step; simp [hcr, hs, readKind]

theorem look_step_bav (o : Opts) (pol : Pol) (m : Mach) (inp : Str) (hcr : m.charRef = none)
    (hs : m.state = .beforeAttributeValue) : step o pol m inp = stepBav o pol m inp := by
  unfold step; simp [hcr, hs, readKind]

theorem look_step_adn (o : Opts) (pol : Pol) (m : Mach) (inp : Str) (hcr : m.charRef = none)
    (hs : m.state = .afterDoctypeName) : step o pol m inp = stepAdn o pol m inp := by
  unfold step; simp [hcr, hs, readKind]

/-! ## the specification's keyword tests -/

theorem look_nextAre_dashdash (s : Str) :
    H5V.Spec.HtmlTokenizer.nextAre "--" s = true ↔ eatCmp eqExact s kwDashDash = some true := by
  rw [look_eatCmp_exact]
  simp only [H5V.Spec.HtmlTokenizer.nextAre, beq_iff_eq]
  exact Iff.rfl

theorem look_nextAre_cdata (s : Str) :
    H5V.Spec.HtmlTokenizer.nextAre "[CDATA[" s = true ↔ eatCmp eqExact s kwCdata = some true := by
  rw [look_eatCmp_exact]
  simp only [H5V.Spec.HtmlTokenizer.nextAre, beq_iff_eq]
  exact Iff.rfl

theorem look_nextAre_doctype (s : Str) :
    H5V.Spec.HtmlTokenizer.nextAreCaseInsensitive "doctype" s = true ↔ eatCmp eqCi s kwDoctype = some true := by
  rw [look_eatCmp_ci _ _ (by decide)]
  simp only [H5V.Spec.HtmlTokenizer.nextAreCaseInsensitive, beq_iff_eq]
  exact Iff.rfl

theorem look_nextAre_public (s : Str) :
    H5V.Spec.HtmlTokenizer.nextAreCaseInsensitive "public" s = true ↔ eatCmp eqCi s kwPublic = some true := by
  rw [look_eatCmp_ci _ _ (by decide)]
  simp only [H5V.Spec.HtmlTokenizer.nextAreCaseInsensitive, beq_iff_eq]
  exact Iff.rfl

theorem look_nextAre_system (s : Str) :
    H5V.Spec.HtmlTokenizer.nextAreCaseInsensitive "system" s = true ↔ eatCmp eqCi s kwSystem = some true := by
  rw [look_eatCmp_ci _ _ (by decide)]
  simp only [H5V.Spec.HtmlTokenizer.nextAreCaseInsensitive, beq_iff_eq]
  exact Iff.rfl

theorem look_false_of_not {b : Bool} {p : Prop} (h : b = true ↔ p) (hn : ¬ p) : b = false := by
  cases b
  · rfl
  · exact absurd (h.mp rfl) hn

/-! ## the facts carried through the `eat`s of a look-ahead state -/

structure LookSt (s : State) (m : Mach) (inp : Str) (t : Tok) (rest : Str) : Prop where
  st : m.state = s
  core : RegCore m t
  nrec : m.reconsume = false
  ok : EatOk m
  inp : rest = normalizeNewlinesFrom m.ignoreLf (m.tempBuf ++ inp)

theorem look_init {s : State} {m : Mach} {inp : Str} {t : Tok} {rest : Str} (h : RelCore m inp t rest)
    (hcr : m.charRef = none) (hs : m.state = s)
    (hse : s = .markupDeclarationOpen ∨ s = .afterDoctypeName) : LookSt s m inp t rest := by
  have hse' : m.state = .markupDeclarationOpen ∨ m.state = .afterDoctypeName := by rw [hs]; exact hse
  have hrec : m.reconsume = false := h.tinv.linv.peekNoRecon (Or.inr hse')
  refine ⟨hs, h.regCore hcr, hrec, h.tinv.linv.eatOk hse', ?_⟩
  have := h.inp
  unfold InpRel at this
  rw [rc_false hrec, stash_eat hcr hse'] at this
  simpa using this

theorem LookSt.rel {s : State} {m : Mach} {inp : Str} {t : Tok} {rest : Str} (h : LookSt s m inp t rest)
    (hse : s = .markupDeclarationOpen ∨ s = .afterDoctypeName) (ht : TInv m) : RelCore m inp t rest := by
  refine RelCore.ofRegCore h.core ?_ ht
  unfold InpRel
  rw [rc_false h.nrec, stash_eat h.core.cr (by rw [h.st]; exact hse)]
  simpa using h.inp

/-- `temp_buf` and `ignore_lf` are not part of the register relation in the look-ahead states -/
theorem look_regCore_eat {m : Mach} {t : Tok} (h : RegCore m t)
    (hs : m.state = .markupDeclarationOpen ∨ m.state = .afterDoctypeName) (il : Bool) (tb : Str) :
    RegCore { m with ignoreLf := il, tempBuf := tb } t := by
  obtain ⟨hstd, hst, hcr, hreg, hout⟩ := h
  refine ⟨hstd, hst, hcr, ?_, ?_⟩
  · rcases hs with hs | hs <;>
      (simp only [RegRel, AttrRel, hs, isTagSt, needsCur, usesTemp, usesComment, usesDoctype, Bool.false_eq_true,
         false_imp_iff, false_and] at hreg ⊢
       exact hreg)
  · rcases hs with hs | hs <;>
      (simp only [OutRel, cdataBuf, isCdata, hs] at hout ⊢
       exact hout)

/-- one `eat` of a look-ahead state -/
theorem look_stage {s : State} {m : Mach} {inp : Str} {t : Tok} {rest : Str} (h0 : LookSt s m inp t rest)
    (hse : s = .markupDeclarationOpen ∨ s = .afterDoctypeName)
    (pat : Str) (eq : Char → Char → Bool) (hp : PatOk eq pat) (hne : pat ≠ [])
    (b : Option Bool) (m1 : Mach) (i1 : Str) (h : eat m inp pat eq = (b, m1, i1)) :
    (b = some true → LookSt s m1 i1 t (rest.drop pat.length) ∧ eatCmp eq rest pat = some true ∧
        m1.tempBuf = [] ∧ m1.ignoreLf = false) ∧
    (b ≠ some true → LookSt s m1 i1 t rest) ∧
    (b = some false → eatCmp eq rest pat ≠ some true ∧ m1.tempBuf = []) ∧
    (m1.ignoreLf = true → rest = []) := by
  obtain ⟨e0, e1, e2, e3, e4⟩ := look_eat m inp pat eq h0.nrec h0.ok hp hne b m1 i1 h
  obtain ⟨p1, p2, p3, _, _, _⟩ := eat_phi m inp pat eq h0.nrec h0.ok hp hne b m1 i1 h
  have hst : m1.state = s := by rw [e0]; exact h0.st
  have hcore : RegCore m1 t := by
    rw [e0]; exact look_regCore_eat h0.core (by rw [h0.st]; exact hse) _ _
  rw [← h0.inp] at e2 e3 e4
  refine ⟨fun hb => ?_, fun hb => ?_, fun hb => ?_, fun hil => ?_⟩
  · obtain ⟨a1, a2, a3, a4⟩ := e2 hb
    exact ⟨⟨hst, hcore, p2, p3, by rw [a3]; simpa using a2.symm⟩, a1, a3, a4⟩
  · refine ⟨hst, hcore, p2, p3, ?_⟩
    cases b with
    | none => exact (e4 rfl).symm
    | some bb =>
      cases bb with
      | true => exact absurd rfl hb
      | false =>
        obtain ⟨_, a2, a3⟩ := e3 rfl
        rw [a3]; simpa using a2.symm
  · exact ⟨(e3 hb).1, (e3 hb).2.2⟩
  · obtain ⟨a1, a2⟩ := e1 hil
    cases b with
    | none => have := e4 rfl; rw [a1, a2] at this; simpa using this.symm
    | some bb =>
      cases bb with
      | true => have := (e2 rfl).2.2.2; rw [hil] at this; simp at this
      | false => have := (e3 rfl).2.1; rw [a2] at this; simpa using this.symm

/-- leaving a look-ahead state: the stash is empty, the new machine differs from the last `eat`'s
machine in registers that the reader does not look at -/
theorem look_exit {s : State} {m1 : Mach} {i1 : Str} {t : Tok} {rest1 : Str} (h1 : LookSt s m1 i1 t rest1)
    (ht : m1.tempBuf = []) (mm : Mach) (t' : Tok)
    (e2 : mm.ignoreLf = m1.ignoreLf) (e4 : mm.reconsume = false)
    (e6 : mm.state ≠ .markupDeclarationOpen) (e7 : mm.state ≠ .afterDoctypeName)
    (hc : RegCore mm t') (hti : TInv mm) : RelCore mm i1 t' rest1 := by
  refine RelCore.ofRegCore hc ?_ hti
  unfold InpRel
  rw [rc_false e4, stash_plain hc.cr e6 e7, e2]
  have := h1.inp
  rw [ht] at this
  simpa using this

/-- the five components of `RegCore` for the machine / registers after a look-ahead state -/
macro "look_core" : tactic => `(tactic| (
  refine ⟨?_, ?_, ?_, ?_, ?_⟩
  · simp (config := {decide := true}) [Std, to, clearComment, clearTemp, badChar, emit, emitErr, *]
  · simp (config := {decide := true}) [stOf, altSt, isRet, to, clearComment, clearTemp, badChar, emit, emitErr,
      Tok.createComment, Tok.setState, *]
  · simp (config := {decide := true}) [to, clearComment, clearTemp, badChar, emit, emitErr, *]
  · simp (config := {decide := true}) [RegRel, AttrRel, attrR_nil_iff, isTagSt, needsCur, usesTemp, usesComment,
      usesDoctype, to, clearComment, clearTemp, badChar, emit, emitErr, Tok.createComment, Tok.setState, *]
  · simp (config := {decide := true}) [OutRel, cdataBuf, isCdata, to, clearComment, clearTemp, badChar, emit, emitErr,
      Tok.createComment, Tok.setState, *]))

/-! ## markup declaration open -/

/-- the registers in the markup declaration open state -/
theorem look_mdo_regs {m : Mach} {t : Tok} (h : RegCore m t) (hs : m.state = .markupDeclarationOpen) :
    t.state = .markupDeclarationOpen ∧ m.charRef = none ∧ m.lastStartTag = t.lastStartTag ∧
    m.tagAttrs = [] ∧ m.attrName = [] ∧ m.attrValue = [] ∧ m.comment = [] ∧ t.out = flat m.out := by
  obtain ⟨hstd, hst, hcr, hreg, hout⟩ := h
  simp [hs, stOf, altSt, isRet] at hst
  simp [RegRel, AttrRel, hs, isTagSt, needsCur, usesTemp, usesComment, usesDoctype] at hreg
  simp [OutRel, cdataBuf, isCdata, hs] at hout
  obtain ⟨r1, ⟨r2, r3, r4⟩, r5⟩ := hreg
  exact ⟨hst, hcr, r1, r2, r3, r4, r5, hout⟩

set_option maxHeartbeats 1600000 in
theorem stepMdo_sim (o : Opts) (ho : o.exactErrors = false) (pol : Pol) (tree : Tree) (hpt : PolTree pol tree)
    (m : Mach) (inp : Str) (t : Tok) (rest : Str) (h : RelCore m inp t rest) (hcr : m.charRef = none)
    (hs : m.state = .markupDeclarationOpen) : StepOk tree t rest (stepMdo o pol m inp) := by
  have hk := look_step_mdo o pol m inp hcr hs
  have htinv : ∀ m' i', (stepMdo o pol m inp).pair? = some (m', i') → TInv m' :=
    fun m' i' hh => step_tinv o pol m inp h.tinv m' i' (by rw [hk]; exact hh)
  have hse : State.markupDeclarationOpen = .markupDeclarationOpen ∨ State.markupDeclarationOpen = .afterDoctypeName :=
    Or.inl rfl
  have h0 : LookSt .markupDeclarationOpen m inp t rest := look_init h hcr hs hse
  obtain ⟨pk1, pk2, pk3, _, _⟩ := patOk_kw
  obtain ⟨n1, n2, n3, _, _⟩ := kw_ne
  generalize hres : stepMdo o pol m inp = r at htinv ⊢
  unfold stepMdo at hres
  cases h1 : eat m inp kwDashDash eqExact with
  | mk b1 r1 =>
    obtain ⟨m1, i1⟩ := r1
    obtain ⟨s1t, s1f, s1x, _⟩ := look_stage h0 hse _ _ pk1 n1 b1 m1 i1 h1
    rw [h1] at hres
    cases b1 with
    | none =>
      simp only at hres; subst hres
      exact ((s1f (by simp)).rel hse (htinv _ _ rfl)).toRel
    | some b1 =>
      cases b1 with
      | true =>
        simp only at hres; subst hres
        obtain ⟨s1, c1, t1, _⟩ := s1t rfl
        obtain ⟨hst, hcr1, r1, r2, r3, r4, r5, hout⟩ := look_mdo_regs s1.core s1.st
        have hA := (look_nextAre_dashdash rest).mpr c1
        have hstep : sstep tree t rest = ((t.createComment []).setState .commentStart, .advance 2) := by
          simp [sstep, H5V.Spec.HtmlTokenizer.step, hst, H5V.Spec.HtmlTokenizer.markupDeclarationOpenState, hA]
        refine Reach.stepEq hstep (Reach.done (RelCore.toRel ?_))
        refine look_exit s1 t1 _ _ rfl (by simpa [to, clearComment] using s1.nrec) (by simp [to]) (by simp [to]) ?_
          (htinv _ _ rfl)
        look_core
      | false =>
        simp only at hres
        have s1 := s1f (by simp)
        obtain ⟨c1, t1⟩ := s1x rfl
        have hA := look_false_of_not (look_nextAre_dashdash rest) c1
        cases h2 : eat m1 i1 kwDoctype eqCi with
        | mk b2 r2 =>
          obtain ⟨m2, i2⟩ := r2
          obtain ⟨s2t, s2f, s2x, s2l⟩ := look_stage s1 hse _ _ pk2 n2 b2 m2 i2 h2
          rw [h2] at hres
          cases b2 with
          | none =>
            simp only at hres; subst hres
            exact ((s2f (by simp)).rel hse (htinv _ _ rfl)).toRel
          | some b2 =>
            cases b2 with
            | true =>
              simp only at hres; subst hres
              obtain ⟨s2, c2, t2, _⟩ := s2t rfl
              obtain ⟨hst, hcr2, g1, g2, g3, g4, g5, hout⟩ := look_mdo_regs s2.core s2.st
              have hB := (look_nextAre_doctype rest).mpr c2
              have hstep : sstep tree t rest = (t.setState .doctype, .advance 7) := by
                simp [sstep, H5V.Spec.HtmlTokenizer.step, hst, H5V.Spec.HtmlTokenizer.markupDeclarationOpenState, hA, hB]
              refine Reach.stepEq hstep (Reach.done (RelCore.toRel ?_))
              refine look_exit s2 t2 _ _ rfl (by simpa [to] using s2.nrec) (by simp [to]) (by simp [to]) ?_
                (htinv _ _ rfl)
              look_core
            | false =>
              simp only at hres
              have s2 := s2f (by simp)
              obtain ⟨c2, t2⟩ := s2x rfl
              have hB := look_false_of_not (look_nextAre_doctype rest) c2
              have hfor : tree.foreign t.out = pol.cdataOk m2.out := by
                rw [← hpt.cdata m2.out, (look_mdo_regs s2.core s2.st).2.2.2.2.2.2.2]
              cases hcd : pol.cdataOk m2.out with
              | true =>
                simp only [hcd, if_true] at hres
                cases h3 : eat m2 i2 kwCdata eqExact with
                | mk b3 r3 =>
                  obtain ⟨m3, i3⟩ := r3
                  obtain ⟨s3t, s3f, s3x, _⟩ := look_stage s2 hse _ _ pk3 n3 b3 m3 i3 h3
                  rw [h3] at hres
                  cases b3 with
                  | none =>
                    simp only at hres; subst hres
                    exact ((s3f (by simp)).rel hse (htinv _ _ rfl)).toRel
                  | some b3 =>
                    cases b3 with
                    | true =>
                      simp only at hres; subst hres
                      obtain ⟨s3, c3, t3, _⟩ := s3t rfl
                      obtain ⟨hst, hcr3, g1, g2, g3, g4, g5, hout⟩ := look_mdo_regs s3.core s3.st
                      have hC := (look_nextAre_cdata rest).mpr c3
                      have hstep : sstep tree t rest = (t.setState .cdataSection, .advance 7) := by
                        simp [sstep, H5V.Spec.HtmlTokenizer.step, hst,
                          H5V.Spec.HtmlTokenizer.markupDeclarationOpenState, hA, hB, hC, hfor, hcd]
                      refine Reach.stepEq hstep (Reach.done (RelCore.toRel ?_))
                      refine look_exit s3 t3 _ _ rfl (by simpa [to, clearTemp] using s3.nrec) (by simp [to]) (by simp [to])
                        ?_ (htinv _ _ rfl)
                      look_core
                    | false =>
                      simp only at hres; subst hres
                      have s3 := s3f (by simp)
                      obtain ⟨c3, t3⟩ := s3x rfl
                      obtain ⟨hst, hcr3, g1, g2, g3, g4, g5, hout⟩ := look_mdo_regs s3.core s3.st
                      have hC := look_false_of_not (look_nextAre_cdata rest) c3
                      have hstep : sstep tree t rest = ((t.createComment []).setState .bogusComment, .advance 0) := by
                        simp [sstep, H5V.Spec.HtmlTokenizer.step, hst,
                          H5V.Spec.HtmlTokenizer.markupDeclarationOpenState, hA, hB, hC]
                      refine Reach.stepEq hstep (Reach.done (RelCore.toRel ?_))
                      refine look_exit s3 t3 _ _ (by simp [to, clearComment, badChar, ho, emit])
                        (by simpa [to, clearComment, badChar, ho, emit] using s3.nrec) (by simp [to]) (by simp [to])
                        ?_ (htinv _ _ rfl)
                      look_core
              | false =>
                simp only [hcd, Bool.false_eq_true, if_false] at hres
                subst hres
                obtain ⟨hst, hcr2, g1, g2, g3, g4, g5, hout⟩ := look_mdo_regs s2.core s2.st
                by_cases hC : H5V.Spec.HtmlTokenizer.nextAre "[CDATA[" rest = true
                · -- `<![CDATA[` outside foreign content: the lag
                  have hil : m2.ignoreLf = false := by
                    cases hx : m2.ignoreLf with
                    | false => rfl
                    | true => rw [s2l hx] at hC; exact absurd hC (by decide)
                  have hrest : rest = normalizeNewlinesFrom false i2 := by
                    have := s2.inp; rw [t2, hil] at this; simpa using this
                  have c3 := (look_nextAre_cdata rest).mp hC
                  have hdrop : rest.drop 7 = normalizeNewlinesFrom false (i2.drop 7) := by
                    rw [hrest] at c3 ⊢
                    rw [look_eatCmp_norm _ _ _ pk3] at c3
                    exact look_eatCmp_drop eqExact i2 kwCdata pk3 c3
                  have htake : i2.take 7 = kwCdata := by
                    rw [hrest, look_eatCmp_norm _ _ _ pk3] at c3
                    exact (look_eatCmp_exact i2 kwCdata).mp c3
                  have hstep : sstep tree t rest =
                      ((t.createComment "[CDATA[".toList).setState .bogusComment, .advance 7) := by
                    simp [sstep, H5V.Spec.HtmlTokenizer.step, hst,
                      H5V.Spec.HtmlTokenizer.markupDeclarationOpenState, hA, hB, hC, hfor, hcd]
                  have hti := htinv _ _ rfl
                  refine Reach.stepEq hstep (Reach.done ⟨kwCdata, i2.drop 7, ?_, Or.inr ⟨?_, ?_, ?_, ?_, ?_⟩, ?_⟩)
                  · rw [← htake]; exact (List.take_append_drop 7 i2).symm
                  · simp [to, isLagSt]
                  · simpa [to, clearComment, badChar, ho, emit] using hcr2
                  · simpa [to, clearComment, badChar, ho, emit] using s2.nrec
                  · simpa [to, clearComment, badChar, ho, emit] using hil
                  · decide
                  · have hab : absorb (to .bogusComment (clearComment (badChar o m2))) kwCdata =
                        { to .bogusComment (clearComment (badChar o m2)) with comment := kwCdata } := by
                      simp [absorb, to, clearComment, isAttrValueState, kwCdata]
                    rw [hab]
                    refine RelCore.ofRegCore ?_ ?_ (hti.congr rfl rfl rfl rfl rfl rfl)
                    · look_core
                    · unfold InpRel
                      rw [rc_false (by simpa [to, clearComment, badChar, ho, emit] using s2.nrec),
                        stash_plain (by simpa [to, clearComment, badChar, ho, emit] using hcr2) (by simp [to]) (by simp [to])]
                      simpa [to, clearComment, badChar, ho, emit, hil] using hdrop
                · have hC' : H5V.Spec.HtmlTokenizer.nextAre "[CDATA[" rest = false := by simpa using hC
                  have hstep : sstep tree t rest = ((t.createComment []).setState .bogusComment, .advance 0) := by
                    simp [sstep, H5V.Spec.HtmlTokenizer.step, hst,
                      H5V.Spec.HtmlTokenizer.markupDeclarationOpenState, hA, hB, hC']
                  refine Reach.stepEq hstep (Reach.done (RelCore.toRel ?_))
                  refine look_exit s2 t2 _ _ (by simp [to, clearComment, badChar, ho, emit])
                    (by simpa [to, clearComment, badChar, ho, emit] using s2.nrec) (by simp [to]) (by simp [to])
                    ?_ (htinv _ _ rfl)
                  look_core

/-! ## before attribute value -/

theorem look_inpRel {mm : Mach} {i r : Str} (hcr : mm.charRef = none)
    (h1 : mm.state ≠ .markupDeclarationOpen) (h2 : mm.state ≠ .afterDoctypeName) (hrec : mm.reconsume = false)
    (hi : r = normalizeNewlinesFrom mm.ignoreLf i) : InpRel mm i r := by
  unfold InpRel
  rw [rc_false hrec, stash_plain hcr h1 h2]
  simpa using hi

/-- the registers in the before attribute value state -/
theorem look_bav_regs {m : Mach} {t : Tok} (h : RegCore m t) (hs : m.state = .beforeAttributeValue) :
    t.state = .beforeAttributeValue ∧ m.charRef = none ∧ m.lastStartTag = t.lastStartTag ∧
    m.tagKind = t.tagKind ∧ m.tagName = t.tagName ∧ m.tagSelfClosing = t.selfClosing ∧
    AttrR m.tagAttrs m.tagHadDup m.attrName m.attrValue t.attrs ∧ t.attrs ≠ [] ∧ m.comment = [] ∧
    t.out = flat m.out := by
  obtain ⟨hstd, hst, hcr, hreg, hout⟩ := h
  simp [hs, stOf, altSt, isRet] at hst
  simp [RegRel, AttrRel, hs, isTagSt, needsCur, usesTemp, usesComment, usesDoctype] at hreg
  simp [OutRel, cdataBuf, isCdata, hs] at hout
  obtain ⟨r1, ⟨r2, r3, r4, r5⟩, r6, r7⟩ := hreg
  exact ⟨hst, hcr, r1, r2, r3, r4, r5, r6, r7, hout⟩

set_option maxHeartbeats 1600000 in
theorem stepBav_sim (o : Opts) (ho : o.exactErrors = false) (pol : Pol) (tree : Tree) (hpt : PolTree pol tree)
    (m : Mach) (inp : Str) (t : Tok) (rest : Str) (h : RelCore m inp t rest) (hcr : m.charRef = none)
    (hs : m.state = .beforeAttributeValue) : StepOk tree t rest (stepBav o pol m inp) := by
  have hk := look_step_bav o pol m inp hcr hs
  have htinv : ∀ m' i', (stepBav o pol m inp).pair? = some (m', i') → TInv m' :=
    fun m' i' hh => step_tinv o pol m inp h.tinv m' i' (by rw [hk]; exact hh)
  have hrec : m.reconsume = false := h.tinv.linv.peekNoRecon (Or.inl hs)
  have hstash : stash m = [] := stash_plain hcr (by simp [hs]) (by simp [hs])
  have hc := h.regCore hcr
  have hi : rest = normalizeNewlinesFrom m.ignoreLf inp := by
    have := h.inp
    unfold InpRel at this
    rw [rc_false hrec, hstash] at this
    simpa using this
  generalize hres : stepBav o pol m inp = r at htinv ⊢
  unfold stepBav at hres
  cases inp with
  | nil =>
    simp only [peek, hrec, Bool.false_eq_true, ↓reduceIte, List.head?_nil] at hres
    subst hres
    exact h.toRel
  | cons c xs =>
    simp only [peek, hrec, Bool.false_eq_true, ↓reduceIte, List.head?_cons] at hres
    -- the machine after the pending-LF flag was dealt with
    have hma : ∀ ma : Mach, ma = (if m.ignoreLf = true then m.setIgnoreLf false else m) →
        ma = readerUpd m false false m.line m.currentChar := by
      intro ma hx; subst hx
      obtain ⟨st, cr, cc, rcn, il, tk, tn, tsc, thd, ta, an0, av0, com, dt, lst, tb, ln, ae, db, out⟩ := m
      simp only at hrec
      subst hrec
      cases il <;> simp [readerUpd, Mach.setIgnoreLf]
    generalize hmad : (if m.ignoreLf = true then m.setIgnoreLf false else m) = ma at hres
    have hma' := hma ma hmad.symm
    have hcma : RegCore ma t := by rw [hma']; exact hc.readerUpd _ _ _ _
    have ma_il : ma.ignoreLf = false := by rw [hma']; rfl
    have ma_rec : ma.reconsume = false := by rw [hma']; rfl
    have ma_st : ma.state = .beforeAttributeValue := by rw [hma']; exact hs
    clear hma hma' hmad
    obtain ⟨hst, hcr1, g1, g2, g3, g4, g5, g6, g7, hout⟩ := look_bav_regs hcma ma_st
    have hd : discardChar ma (c :: xs) = (ma, xs) := by simp [discardChar, ma_rec]
    have hne1 : ma.state ≠ .markupDeclarationOpen := by simp [ma_st]
    have hne2 : ma.state ≠ .afterDoctypeName := by simp [ma_st]
    by_cases hskip : (m.ignoreLf && decide (c = '\n')) = true
    · -- the LF of a CR LF pair: no step of the specification
      simp only [hskip, ↓reduceIte, hd] at hres
      subst hres
      simp only [Bool.and_eq_true, decide_eq_true_eq] at hskip
      refine Reach.done (RelCore.toRel (RelCore.ofRegCore hcma (look_inpRel hcr1 hne1 hne2 ma_rec ?_) (htinv _ _ rfl)))
      rw [hi, hskip.1, hskip.2, look_norm_lf_true, ma_il]
    · simp only [hskip, Bool.false_eq_true, ↓reduceIte] at hres
      have hrest : rest = normalizeNewlinesFrom false (c :: xs) := by
        rw [hi]
        cases hil : m.ignoreLf with
        | false => rfl
        | true =>
          have : c ≠ '\n' := by intro hc'; simp [hil, hc'] at hskip
          exact look_norm_flag c xs this
      by_cases hbrk : c = '\n' ∨ c = '\r'
      · rw [if_pos (by simpa using hbrk)] at hres
        cases hg : getChar o ma (c :: xs) with
        | mk oc r2 =>
          obtain ⟨m2, i2⟩ := r2
          rw [hg] at hres
          cases oc with
          | none =>
            obtain ⟨_, _, g3'⟩ := getChar_none o ma m2 (c :: xs) i2 hg
            rcases g3' with ⟨g3', _⟩ | ⟨_, g3', _⟩
            · simp at g3'
            · rw [ma_il] at g3'; simp at g3'
          | some c' =>
            simp only at hres
            subst hres
            obtain ⟨q1, q2⟩ := look_getChar_some o ho ma (c :: xs) ma_rec c' m2 i2 hg
            rw [ma_il, ← hrest] at q1
            have hc' : c' = '\n' := by
              have : rest.head? = some '\n' := by
                rw [hrest]
                rcases hbrk with hb | hb <;> subst hb
                · rw [look_norm_lf_false]; rfl
                · rw [look_norm_cr]; rfl
              rw [q1] at this
              simpa using this
            subst hc'
            have hstep : sstep tree t rest = (t, .advance 1) := by
              rw [q1]
              simp [sstep, H5V.Spec.HtmlTokenizer.step, hst, H5V.Spec.HtmlTokenizer.beforeAttributeValueState, Tok.done]
            have hcm2 : RegCore m2 t := by rw [q2]; exact hcma.readerUpd _ _ _ _
            have m2_st : m2.state = .beforeAttributeValue := by rw [q2]; exact ma_st
            refine Reach.stepEq hstep (Reach.done (RelCore.toRel (RelCore.ofRegCore hcm2
              (look_inpRel hcm2.cr (by simp [m2_st]) (by simp [m2_st]) (by rw [q2]; rfl) ?_) (htinv _ _ rfl))))
            rw [q1]; rfl
      · rw [if_neg (by simpa using hbrk)] at hres
        simp only [not_or] at hbrk
        have hrest' : rest = c :: normalizeNewlinesFrom false xs := by
          rw [hrest, look_norm_plain _ _ _ hbrk.2 hbrk.1]
        by_cases hws : c = '\t' ∨ c = '\x0c' ∨ c = ' '
        · rw [if_pos (by rcases hws with hw | hw | hw <;> simp [hw])] at hres
          simp only [hd] at hres
          subst hres
          have hstep : sstep tree t rest = (t, .advance 1) := by
            rw [hrest']
            rcases hws with hw | hw | hw <;> subst hw <;>
              simp [sstep, H5V.Spec.HtmlTokenizer.step, hst, H5V.Spec.HtmlTokenizer.beforeAttributeValueState, Tok.done]
          refine Reach.stepEq hstep (Reach.done (RelCore.toRel (RelCore.ofRegCore hcma
            (look_inpRel hcr1 hne1 hne2 ma_rec ?_) (htinv _ _ rfl))))
          rw [hrest', ma_il]; rfl
        · simp only [not_or] at hws
          rw [if_neg (by simp [hws.1, hws.2.1, hws.2.2])] at hres
          obtain ⟨w1, w2, w3⟩ := hws
          obtain ⟨b1, b2⟩ := hbrk
          by_cases hdq : c = '"'
          · subst hdq
            simp only [↓reduceIte, hd] at hres
            subst hres
            have hstep : sstep tree t rest = ({ t with state := .attributeValueDoubleQuoted }, .advance 1) := by
              rw [hrest']
              simp [sstep, H5V.Spec.HtmlTokenizer.step, hst, H5V.Spec.HtmlTokenizer.beforeAttributeValueState,
                Tok.switchTo]
            refine Reach.stepEq hstep (Reach.done (RelCore.toRel (RelCore.ofRegCore ?_
              (look_inpRel (by simpa [to] using hcr1) (by simp [to]) (by simp [to]) (by simpa [to] using ma_rec) ?_)
              (htinv _ _ rfl))))
            · look_core
            · rw [hrest']; simp [to, ma_il]
          · rw [if_neg hdq] at hres
            by_cases hsq : c = '\''
            · subst hsq
              simp only [↓reduceIte, hd] at hres
              subst hres
              have hstep : sstep tree t rest = ({ t with state := .attributeValueSingleQuoted }, .advance 1) := by
                rw [hrest']
                simp [sstep, H5V.Spec.HtmlTokenizer.step, hst, H5V.Spec.HtmlTokenizer.beforeAttributeValueState,
                  Tok.switchTo]
              refine Reach.stepEq hstep (Reach.done (RelCore.toRel (RelCore.ofRegCore ?_
                (look_inpRel (by simpa [to] using hcr1) (by simp [to]) (by simp [to]) (by simpa [to] using ma_rec) ?_)
                (htinv _ _ rfl))))
              · look_core
              · rw [hrest']; simp [to, ma_il]
            · rw [if_neg hsq] at hres
              by_cases hgt : c = '>'
              · subst hgt
                simp only [↓reduceIte, hd] at hres
                have hbc : ∀ x : Mach, badChar o x = emit x (.error ("Saw ".toList ++ [x.currentChar] ++
                    " in state ".toList ++ x.state.dbg.toList)) := by
                  intro x; simp [badChar, ho]
                obtain ⟨e1, e2, e3⟩ := emitTag_sim pol tree hpt (badChar o ma) t
                  (by simpa [hbc, emit] using hcr1) (by simpa [hbc, emit] using g1) (by simpa [hbc, emit] using g2)
                  (by simpa [hbc, emit] using g3) (by simpa [hbc, emit] using g4) (by simpa [hbc, emit] using g5)
                  (by simpa [hbc, emit] using hout) (by simpa [hbc, emit] using g7)
                have hof : ofSig (emitTag pol .data (badChar o ma)) xs = .cont (emitTag pol .data (badChar o ma)).1 xs := by
                  unfold ofSig; rw [e1]
                rw [hof] at hres
                subst hres
                have hstep : sstep tree t rest = ((t.setState .data).emitCurrentTag tree, .advance 1) := by
                  rw [hrest']
                  simp [sstep, H5V.Spec.HtmlTokenizer.step, hst, H5V.Spec.HtmlTokenizer.beforeAttributeValueState,
                    Tok.done]
                obtain ⟨k1, k2, _⟩ := sinkState_data_not_eat (emitTag_state pol .data (badChar o ma))
                refine Reach.stepEq hstep (Reach.done (RelCore.toRel (RelCore.ofRegCore e3
                  (look_inpRel e3.cr k1 k2 (by rw [e2]; simpa [hbc, emit] using ma_rec) ?_) (htinv _ _ rfl))))
                rw [hrest']
                simp [hbc, emit, ma_il]
              · rw [if_neg hgt] at hres
                subst hres
                have hstep : sstep tree t rest = ({ t with state := .attributeValueUnquoted }, .advance 0) := by
                  rw [hrest']
                  simp [sstep, H5V.Spec.HtmlTokenizer.step, hst, H5V.Spec.HtmlTokenizer.beforeAttributeValueState,
                    Tok.reconsumeIn, b1, b2, w1, w2, w3, hdq, hsq, hgt]
                refine Reach.stepEq hstep (Reach.done (RelCore.toRel (RelCore.ofRegCore ?_
                  (look_inpRel (by simpa [to] using hcr1) (by simp [to]) (by simp [to]) (by simpa [to] using ma_rec) ?_)
                  (htinv _ _ rfl))))
                · look_core
                · show rest = normalizeNewlinesFrom (to (.attributeValue .unquoted) ma).ignoreLf (c :: xs)
                  rw [hrest]; simp [to, ma_il]

/-! ## after DOCTYPE name -/

/-- the table step after a successful `get_char`: from `TabOk` to `StepOk` -/
theorem look_afterChar (o : Opts) (pol : Pol) (tree : Tree) (m1 : Mach) (c : Char) (i1 : Str) (t : Tok) (rest1 : Str)
    (hcr : m1.charRef = none) (hN : isRaw m1.state = false → m1.tempBuf = [])
    (hrec : m1.reconsume = false) (hcc : m1.currentChar = c) (hil : m1.ignoreLf = true → c = '\n')
    (hi : rest1 = normalizeNewlinesFrom m1.ignoreLf i1)
    (htab : TabOk tree t c rest1 (transChar o pol m1 c))
    (htinv : ∀ m' i', (ofSig (transChar o pol m1 c) i1).pair? = some (m', i') → TInv m') :
    StepOk tree t (c :: rest1) (ofSig (transChar o pol m1 c) i1) := by
  obtain ⟨h2, hreach⟩ := htab
  obtain ⟨a1, a2, a3, a4, a5, a6, a7⟩ := afterChar_lines o pol m1 c hcr hN hrec hcc hil
  have hof : ofSig (transChar o pol m1 c) i1 = .cont (transChar o pol m1 c).1 i1 := by
    unfold ofSig; rw [h2]
  rw [hof] at htinv ⊢
  refine Reach.mono hreach (fun t' r' hh => (RelCore.ofRegCore hh.2 ?_ (htinv _ _ rfl)).toRel)
  unfold InpRel
  rw [a5, a7, hh.1]
  unfold rc
  rw [transChar_currentChar, hcc]
  cases (transChar o pol m1 c).1.reconsume <;> simp [hi]

/-- a text that matches a keyword case-insensitively starts with its first letter -/
theorem look_kw_head (s : Str) (p : Char) (ps : Str) (h : eatCmp eqCi s (p :: ps) = some true) :
    ∃ c s1, s = c :: s1 ∧ toAsciiLower c = toAsciiLower p := by
  cases s with
  | nil => simp [eatCmp] at h
  | cons c s1 =>
    refine ⟨c, s1, rfl, ?_⟩
    simp only [eatCmp] at h
    split at h
    · rename_i he; simpa [eqCi] using he
    · simp at h

theorem look_lower_not_special {c p : Char} (h : toAsciiLower c = p) (hp : H5V.Spec.HtmlTokenizer.isAsciiLowerAlpha p = true) :
    c ≠ '\t' ∧ c ≠ '\n' ∧ c ≠ '\x0c' ∧ c ≠ ' ' ∧ c ≠ '>' := by
  refine ⟨?_, ?_, ?_, ?_, ?_⟩ <;>
    (intro hc; subst hc; subst h; exact absurd hp (by decide))

/-- the registers in the after DOCTYPE name state -/
theorem look_adn_regs {m : Mach} {t : Tok} (h : RegCore m t) (hs : m.state = .afterDoctypeName) :
    t.state = .afterDoctypeName ∧ m.charRef = none ∧ m.lastStartTag = t.lastStartTag ∧
    m.tagAttrs = [] ∧ m.attrName = [] ∧ m.attrValue = [] ∧ m.doctype = t.doctype ∧ m.comment = [] ∧
    t.out = flat m.out := by
  obtain ⟨hstd, hst, hcr, hreg, hout⟩ := h
  simp [hs, stOf, altSt, isRet] at hst
  simp [RegRel, AttrRel, hs, isTagSt, needsCur, usesTemp, usesComment, usesDoctype] at hreg
  simp [OutRel, cdataBuf, isCdata, hs] at hout
  obtain ⟨r1, ⟨r2, r3, r4⟩, r5, r6⟩ := hreg
  exact ⟨hst, hcr, r1, r2, r3, r4, r5, r6, hout⟩

set_option linter.unusedVariables false in
set_option maxHeartbeats 1600000 in
theorem stepAdn_sim (o : Opts) (ho : o.exactErrors = false) (pol : Pol) (tree : Tree) (hpt : PolTree pol tree)
    (m : Mach) (inp : Str) (t : Tok) (rest : Str) (h : RelCore m inp t rest) (hcr : m.charRef = none)
    (hs : m.state = .afterDoctypeName) : StepOk tree t rest (stepAdn o pol m inp) := by
  have hk := look_step_adn o pol m inp hcr hs
  have htinv : ∀ m' i', (stepAdn o pol m inp).pair? = some (m', i') → TInv m' :=
    fun m' i' hh => step_tinv o pol m inp h.tinv m' i' (by rw [hk]; exact hh)
  have hse : State.afterDoctypeName = .markupDeclarationOpen ∨ State.afterDoctypeName = .afterDoctypeName :=
    Or.inr rfl
  have h0 : LookSt .afterDoctypeName m inp t rest := look_init h hcr hs hse
  obtain ⟨_, _, _, pk4, pk5⟩ := patOk_kw
  obtain ⟨_, _, _, n4, n5⟩ := kw_ne
  generalize hres : stepAdn o pol m inp = r at htinv ⊢
  unfold stepAdn at hres
  cases h1 : eat m inp kwPublic eqCi with
  | mk b1 r1 =>
    obtain ⟨m1, i1⟩ := r1
    obtain ⟨s1t, s1f, s1x, _⟩ := look_stage h0 hse _ _ pk4 n4 b1 m1 i1 h1
    rw [h1] at hres
    cases b1 with
    | none =>
      simp only at hres; subst hres
      exact ((s1f (by simp)).rel hse (htinv _ _ rfl)).toRel
    | some b1 =>
      cases b1 with
      | true =>
        simp only at hres; subst hres
        obtain ⟨s1, c1, t1, _⟩ := s1t rfl
        obtain ⟨hst, hcr1, g1, g2, g3, g4, g5, g6, hout⟩ := look_adn_regs s1.core s1.st
        have hP := (look_nextAre_public rest).mpr c1
        obtain ⟨c, rest1, hrc, hlow⟩ := look_kw_head rest _ _ c1
        obtain ⟨w1, w2, w3, w4, w5⟩ := look_lower_not_special hlow (by decide)
        have hstep : sstep tree t rest = (t.setState .afterDoctypePublicKeyword, .advance 6) := by
          rw [hrc] at hP ⊢
          simp [sstep, H5V.Spec.HtmlTokenizer.step, hst, H5V.Spec.HtmlTokenizer.afterDoctypeNameState, hP,
            w1, w2, w3, w4, w5]
        refine Reach.stepEq hstep (Reach.done (RelCore.toRel ?_))
        refine look_exit s1 t1 _ _ rfl (by simpa [to] using s1.nrec) (by simp [to]) (by simp [to]) ?_
          (htinv _ _ rfl)
        look_core
      | false =>
        simp only at hres
        have s1 := s1f (by simp)
        obtain ⟨c1, t1⟩ := s1x rfl
        have hP := look_false_of_not (look_nextAre_public rest) c1
        cases h2 : eat m1 i1 kwSystem eqCi with
        | mk b2 r2 =>
          obtain ⟨m2, i2⟩ := r2
          obtain ⟨s2t, s2f, s2x, _⟩ := look_stage s1 hse _ _ pk5 n5 b2 m2 i2 h2
          rw [h2] at hres
          cases b2 with
          | none =>
            simp only at hres; subst hres
            exact ((s2f (by simp)).rel hse (htinv _ _ rfl)).toRel
          | some b2 =>
            cases b2 with
            | true =>
              simp only at hres; subst hres
              obtain ⟨s2, c2, t2, _⟩ := s2t rfl
              obtain ⟨hst, hcr2, g1, g2, g3, g4, g5, g6, hout⟩ := look_adn_regs s2.core s2.st
              have hQ := (look_nextAre_system rest).mpr c2
              obtain ⟨c, rest1, hrc, hlow⟩ := look_kw_head rest _ _ c2
              obtain ⟨w1, w2, w3, w4, w5⟩ := look_lower_not_special hlow (by decide)
              have hstep : sstep tree t rest = (t.setState .afterDoctypeSystemKeyword, .advance 6) := by
                rw [hrc] at hP hQ ⊢
                simp [sstep, H5V.Spec.HtmlTokenizer.step, hst, H5V.Spec.HtmlTokenizer.afterDoctypeNameState, hP, hQ,
                  w1, w2, w3, w4, w5]
              refine Reach.stepEq hstep (Reach.done (RelCore.toRel ?_))
              refine look_exit s2 t2 _ _ rfl (by simpa [to] using s2.nrec) (by simp [to]) (by simp [to]) ?_
                (htinv _ _ rfl)
              look_core
            | false =>
              simp only at hres
              have s2 := s2f (by simp)
              obtain ⟨c2, t2⟩ := s2x rfl
              have hQ := look_false_of_not (look_nextAre_system rest) c2
              have hrest : rest = normalizeNewlinesFrom m2.ignoreLf i2 := by
                have := s2.inp; rw [t2] at this; simpa using this
              cases hg : getChar o m2 i2 with
              | mk oc r3 =>
                obtain ⟨m3, i3⟩ := r3
                rw [hg] at hres
                cases oc with
                | none =>
                  simp only at hres; subst hres
                  obtain ⟨q1, q2, q3⟩ := look_getChar_none o m2 i2 s2.nrec m3 i3 hg
                  have m3_tb : m3.tempBuf = [] := by rw [q3]; exact t2
                  have s3 : LookSt .afterDoctypeName m3 i3 t rest :=
                    ⟨by rw [q3]; exact s2.st, by rw [q3]; exact s2.core.readerUpd _ _ _ _, by rw [q3]; rfl,
                     fun _ => m3_tb, by rw [m3_tb, q2, hrest, q1]; simp⟩
                  exact (s3.rel hse (htinv _ _ rfl)).toRel
                | some c =>
                  simp only at hres; subst hres
                  obtain ⟨q1, q2⟩ := look_getChar_some o ho m2 i2 s2.nrec c m3 i3 hg
                  obtain ⟨_, _, _, _, _, f6, _⟩ := getChar_fields o m2 m3 i2 i3 c hg
                  rw [← hrest] at q1
                  have hcm3 : RegCore m3 t := by rw [q2]; exact s2.core.readerUpd _ _ _ _
                  have m3_st : m3.state = .afterDoctypeName := by rw [q2]; exact s2.st
                  have m3_rec : m3.reconsume = false := by rw [q2]; rfl
                  have m3_tb : m3.tempBuf = [] := by rw [q2]; exact t2
                  have m3_cc : m3.currentChar = c := by rw [q2]; rfl
                  rw [q1] at hP hQ ⊢
                  exact look_afterChar o pol tree m3 c i3 t _ hcm3.cr (fun _ => m3_tb) m3_rec m3_cc (f6 s2.nrec) rfl
                    (tab_afterDoctypeName o ho pol tree m3 t c _ hcm3 m3_rec m3_st hP hQ) htinv

end H5V.Lemmas.HtmlTokSpec
