import H5V.Lemmas.HtmlTBSkelAdjAA
/-!
C06, second invariant layer, part 10: the adoption agency algorithm under `Big`.

The formatting element sits at index `k ≥ 2` of the stack, and everything above it is disposable
(table grammar + the default-scope test); the algorithm edits the stack only above `k`, and the
arena only at nodes that are not children of the root.
-/
namespace H5V.Props.C06
open H5V.Model.Dom hiding Str
open H5V.Model.HtmlTB hiding Str
open H5V.Lemmas.Dom

theorem countP_zero_of_forall {α : Type} {p : α → Bool} : ∀ {l : List α}, (∀ x ∈ l, p x = false) → l.countP p = 0
  | [], _ => rfl
  | a :: t, h => by
    rw [List.countP_cons_of_neg (by rw [h a (by simp)]; simp)]
    exact countP_zero_of_forall (fun x hx => h x (List.mem_cons_of_mem _ hx))

theorem tail_append_of_ne_nil {α : Type} {l l' : List α} (h : l ≠ []) : (l ++ l').tail = l.tail ++ l' := by
  cases l with
  | nil => exact absurd rfl h
  | cons a t => rfl

theorem TG.append_dis {name : Id → EName} {low high : List Id} (h : TG name low)
    (hd : ∀ x ∈ high, constrained (name x) = false) : TG name (low ++ high) := by
  induction high generalizing low with
  | nil => simpa using h
  | cons z hi ih =>
    have : low ++ z :: hi = (low ++ [z]) ++ hi := by simp
    rw [this]
    exact ih (h.snoc (fun t _ => predOk_of_not_constrained (hd z (by simp))))
      (fun x hx => hd x (List.mem_cons_of_mem _ hx))

/-- the part of the stack above a fixed lower part is replaced by other disposable elements -/
theorem Big.rehigh {m : Mode} {r : Id} {ph : Phase} {s : State} {low high high' : List Id} {af' : List FormatEntry}
    (h : Big m r ph s) (hst : s.openElems = low ++ high)
    (hd : ∀ x ∈ high, keepName (nm s.dom x) = false)
    (hd' : ∀ x ∈ high', keepName (nm s.dom x) = false ∧ Loose s.dom x)
    (hnd : (low ++ high').Nodup) (haf : AFok s.dom af') (hadj : AdjD s.dom (low ++ high')) :
    Big m r ph { s with openElems := low ++ high', activeFormatting := af' } := by
  obtain ⟨up, hc, hbb, hneed, hfp⟩ := h
  -- the root is in the lower part
  have hlow : ∃ low1, low = r :: low1 := by
    cases low with
    | nil =>
      rw [hc.stack] at hst
      have : r ∈ high := by rw [← List.nil_append high, ← hst]; simp
      have := hd r this
      rw [hc.root_name, keepName_html] at this; cases this
    | cons a t =>
      rw [hc.stack] at hst
      simp only [List.cons_append, List.cons.injEq] at hst
      exact ⟨t, by rw [hst.1]⟩
  obtain ⟨low1, rfl⟩ := hlow
  have hup : up = low1 ++ high := by
    rw [hc.stack] at hst
    simp only [List.cons_append, List.cons.injEq, true_and] at hst
    exact hst
  have hkeep : ∀ y ∈ up, keepName (nm s.dom y) = true → y ∈ low1 := by
    intro y hy hk
    rw [hup] at hy
    rcases List.mem_append.mp hy with h1 | h1
    · exact h1
    · rw [hd y h1] at hk; cases hk
  have hl : Late { s with openElems := (r :: low1) ++ high', activeFormatting := af' } := by
    refine ⟨hc.late.base, hc.late.pat, ⟨hc.late.st.doc, hc.late.st.ctx, ?_, ?_, hc.late.st.head, hc.late.st.ptt⟩,
      ⟨hc.late.ml.mode, hc.late.ml.orig, hc.late.ml.tm⟩⟩
    · intro e he
      rcases List.mem_append.mp he with h1 | h1
      · exact hc.late.st.oe e (by rw [hst]; exact List.mem_append_left _ h1)
      · exact (hd' e h1).2.1
    · intro e he
      have he' : e ∈ ((r :: low1) ++ high').tail := he
      rw [tail_append_of_ne_nil (by simp)] at he'
      rcases List.mem_append.mp he' with h1 | h1
      · refine hc.late.st.tail e ?_
        rw [hst, tail_append_of_ne_nil (by simp)]
        exact List.mem_append_left _ h1
      · exact (hd' e h1).2.2
  have htg : TG (nm s.dom) ((r :: low1) ++ high') := by
    have h1 : TG (nm s.dom) (r :: low1) := hc.tg.prefix hst
    exact h1.append_dis (fun x hx => constrained_of_keepName_false (hd' x hx).1)
  have hnt : ∀ (l : List Id), (∀ x ∈ l, keepName (nm s.dom x) = false) →
      List.countP (fun x => nm s.dom x == hN "template") l = 0 := by
    intro l hl'
    refine countP_zero_of_forall (fun x hx => ?_)
    cases hq : (nm s.dom x == hN "template") with
    | false => rfl
    | true =>
      have := hl' x hx
      rw [beq_iff_eq.mp hq, keepName_template] at this; cases this
  have hcore : Core { s with openElems := (r :: low1) ++ high', activeFormatting := af' } r (low1 ++ high') ph := by
    refine ⟨hl, rfl, hc.rdoc, hnd, htg, haf, ?_, hc.tmm, hc.form, hc.rtu, hc.rnd, hc.kids, hc.elems, ?_,
      Afx.of_elems hc.elems hbb.notPf, hadj⟩
    · show tcount s.dom ((r :: low1) ++ high') ≤ _
      refine Nat.le_trans (Nat.le_of_eq ?_) hc.tc
      rw [hst]
      unfold tcount
      rw [List.countP_append, List.countP_append, hnt high hd, hnt high' (fun x hx => (hd' x hx).1)]
    · intro y hy
      cases low1 with
      | nil =>
        have : y ∈ high' := List.mem_of_mem_tail hy
        have hk := (hd' y this).1
        refine bh_of4 ?_
        cases hq : htmlIn (nm s.dom y) ["html", "body", "head", "frameset"] with
        | false => rfl
        | true => rw [keepName_of_htmlIn hq (by decide)] at hk; cases hk
      | cons a t =>
        have hy' : y ∈ t ++ high' := hy
        rcases List.mem_append.mp hy' with h1 | h1
        · exact hc.bh y (by rw [hup]; exact List.mem_append_left _ h1)
        · have hk := (hd' y h1).1
          refine bh_of4 ?_
          cases hq : htmlIn (nm s.dom y) ["html", "body", "head", "frameset"] with
          | false => rfl
          | true => rw [keepName_of_htmlIn hq (by decide)] at hk; cases hk
  refine ⟨low1 ++ high', hcore, ?_, ?_, ?_⟩
  · show BodyBase s.dom s.headElem (low1 ++ high') ph
    rcases hbb with ⟨b, u, h1, h2, h3⟩ | ⟨hh, t, u, h0, h1, h2, h3⟩ | ⟨t, u, h1, h2, h3, h4⟩
    · have hbn : nm s.dom b = hN "body" := by
        subst h2; obtain ⟨_, _, _, _, hb⟩ := hc.elems; exact hb
      have hbl : b ∈ low1 := hkeep b (by rw [h1]; simp) (by rw [hbn]; exact keepName_body)
      cases low1 with
      | nil => cases hbl
      | cons a t =>
        rw [h1] at hup
        simp only [List.cons_append, List.cons.injEq] at hup
        refine Or.inl ⟨a, t ++ high', rfl, by rw [← hup.1]; exact h2, fun y hy hm => ?_⟩
        have hyl : y ∈ (a :: t) := by
          have hm' : y ∈ (a :: t) ++ high' := hm
          rcases List.mem_append.mp hm' with h5 | h5
          · exact h5
          · have hk := (hd' y h5).1
            have hhn : nm s.dom y = hN "head" := by
              obtain ⟨h', e1, _, e3, _⟩ := (show ElemsOk s.dom s.headElem r (.pb b) from h2 ▸ hc.elems)
              rw [hy] at e1; cases e1; exact e3
            rw [hhn, keepName_head] at hk; cases hk
        exact h3 y hy (by rw [h1, hup.1, hup.2]; exact List.mem_append_left _ hyl)
    · have hhn : nm s.dom hh = hN "head" := by
        subst h3; obtain ⟨h', e1, _, e3⟩ := hc.elems; rw [h0] at e1; cases e1; exact e3
      have h1l : hh ∈ low1 := hkeep hh (by rw [h1]; simp) (by rw [hhn]; exact keepName_head)
      have h2l : t ∈ low1 := hkeep t (by rw [h1]; simp) (by rw [h2]; exact keepName_template)
      cases low1 with
      | nil => cases h1l
      | cons a t' =>
        rw [h1] at hup
        simp only [List.cons_append, List.cons.injEq] at hup
        cases t' with
        | nil =>
          -- then t ∈ high, impossible
          simp only [List.nil_append] at hup
          have : t ∈ high := by rw [← hup.2]; simp
          have := hd t this
          rw [h2, keepName_template] at this; cases this
        | cons a2 t2 =>
          simp only [List.cons_append, List.cons.injEq] at hup
          exact Or.inr (Or.inl ⟨hh, t, t2 ++ high', h0, by rw [hup.1, hup.2.1]; rfl, h2, h3⟩)
    · have h1l : t ∈ low1 := hkeep t (by rw [h1]; simp) (by rw [h2]; exact keepName_template)
      cases low1 with
      | nil => cases h1l
      | cons a t' =>
        rw [h1] at hup
        simp only [List.cons_append, List.cons.injEq] at hup
        refine Or.inr (Or.inr ⟨t, t' ++ high', by rw [hup.1]; rfl, h2, h3, fun y hy hm => ?_⟩)
        have hyl : y ∈ (a :: t') := by
          have hm' : y ∈ (a :: t') ++ high' := hm
          rcases List.mem_append.mp hm' with h5 | h5
          · exact h5
          · have hk := (hd' y h5).1
            have hhn : nm s.dom y = hN "head" := by
              obtain ⟨h', e1, _, e3⟩ := (show ElemsOk s.dom s.headElem r .p1 from h3 ▸ hc.elems)
              rw [hy] at e1; cases e1; exact e3
            rw [hhn, keepName_head] at hk; cases hk
        exact h4 y hy (by rw [h1, hup.1, hup.2]; exact List.mem_append_left _ hyl)
  · show Need s.dom m (low1 ++ high')
    cases m <;> try trivial
    all_goals
      obtain ⟨y, hy, hh⟩ := hneed
      exact ⟨y, List.mem_append_left _ (hkeep y hy (keepName_of_htmlIn hh (by decide))), hh⟩
  · intro hf
    obtain ⟨y, hy, hh⟩ := hfp hf
    exact ⟨y, List.mem_append_left _ (hkeep y hy (keepName_of_htmlIn hh (by decide))), hh⟩


/-! ### arena steps that leave the root alone -/

structure Stp (r : Id) (s s' : State) : Prop where
  late : Late s'
  dom : DomOnly s s'
  chg : Chg s.dom s'.dom
  rs : RS r s.dom s'.dom
  k0 : s'.dom.childrenOf 0 = s.dom.childrenOf 0
  adj : AdjD s'.dom s'.openElems

theorem Big.stp {m : Mode} {r : Id} {ph : Phase} {s s' : State} (h : Big m r ph s) (t : Stp r s s') : Big m r ph s' :=
  h.dom t.late t.dom t.chg t.rs t.k0 t.adj

theorem Big.adj {m : Mode} {r : Id} {ph : Phase} {s : State} (h : Big m r ph s) : AdjD s.dom s.openElems := by
  obtain ⟨_, hc, _⟩ := h; exact hc.adj

theorem Stp.oe {r : Id} {s s' : State} (t : Stp r s s') : s'.openElems = s.openElems := by rw [t.dom]
theorem Stp.af {r : Id} {s s' : State} (t : Stp r s s') : s'.activeFormatting = s.activeFormatting := by rw [t.dom]
theorem Stp.mode {r : Id} {s s' : State} (t : Stp r s s') : s'.mode = s.mode := by rw [t.dom]
theorem Stp.orig {r : Id} {s s' : State} (t : Stp r s s') : s'.origMode = s.origMode := by rw [t.dom]

/-- an element that is neither a child of the document nor of the root -/
def Fl (r : Id) (d : Dom) (x : Id) : Prop := d.isElement x = true ∧ x ∉ d.childrenOf 0 ∧ x ∉ d.childrenOf r

theorem Fl.stp {r : Id} {s s' : State} {x : Id} (h : Fl r s.dom x) (t : Stp r s s') : Fl r s'.dom x :=
  ⟨t.chg.isElement h.1, by rw [t.k0]; exact h.2.1, by rw [t.rs.kids]; exact h.2.2⟩

theorem Fl.loose {r : Id} {d : Dom} {x : Id} (h : Fl r d x) : Loose d x := ⟨h.1, h.2.1⟩

theorem Fl.of_nodes {r : Id} {d d' : Dom} {x : Id} (h : Fl r d x) (hn : d'.nodes = d.nodes) : Fl r d' x :=
  ⟨by rw [isElement_of_nodes hn]; exact h.1, by rw [childrenOf_of_nodes hn]; exact h.2.1,
   by rw [childrenOf_of_nodes hn]; exact h.2.2⟩

/-- a disposable element of the stack floats -/
theorem Big.fl {m : Mode} {r : Id} {ph : Phase} {s : State} {x : Id} (h : Big m r ph s) (hx : x ∈ s.openElems)
    (hk : keepName (nm s.dom x) = false) : Fl r s.dom x := by
  obtain ⟨up, hc, hbb, _, _⟩ := h
  have hel := hc.late.st.oe x hx
  have hxr : x ≠ r := by rintro rfl; rw [hc.root_name, keepName_html] at hk; cases hk
  have hxu : x ∈ s.openElems.tail := by
    rw [hc.stack] at hx ⊢
    simp only [List.mem_cons] at hx
    rcases hx with h1 | h1
    · exact absurd h1 hxr
    · exact h1
  refine ⟨hel, hc.late.st.tail x hxu, fun hm => ?_⟩
  have hme : x ∈ rootElems s.dom r := List.mem_filter.mpr ⟨hm, hel⟩
  have he := hc.elems
  rcases hbb with ⟨b, u, h1, h2, h3⟩ | ⟨hh, t, u, h0, h1, h2, h3⟩ | ⟨t, u, h1, h2, h3, h4⟩
  · subst h2
    obtain ⟨h', _, e2, e3, e4⟩ := he
    rw [e2] at hme; simp at hme
    rcases hme with rfl | rfl
    · rw [e3, keepName_head] at hk; cases hk
    · rw [e4, keepName_body] at hk; cases hk
  · subst h3
    obtain ⟨h', _, e2, e3⟩ := he
    rw [e2] at hme; simp at hme; subst hme
    rw [e3, keepName_head] at hk; cases hk
  · subst h3
    obtain ⟨h', _, e2, e3⟩ := he
    rw [e2] at hme; simp at hme; subst hme
    rw [e3, keepName_head] at hk; cases hk

theorem removeFromParent_stp {m : Mode} {r : Id} {ph : Phase} {s s' : State} {x : Id} {u : Unit}
    (h : Big m r ph s) (hx : Fl r s.dom x) (e : sinkUnit (.removeFromParent x) s = .ok (u, s'))
    (hadj : AdjD s'.dom s.openElems) : Stp r s s' := by
  obtain ⟨out, e⟩ := sinkUnit_ok.mp e
  obtain ⟨d, hd, rfl⟩ := sink_ok.mp e
  have hl := h.late
  obtain ⟨hb', hc', _, _, _, hsame⟩ := removeFromParent_spec hl.base (apply_remove hd)
  have hk0 := hsame 0 hx.2.1
  exact ⟨(hl.dom hb' hc' hk0).1, rfl, hc', rs_removeFromParent hl.base hx.2.2 (apply_remove hd), hk0, hadj⟩

theorem appendNode_stp {m : Mode} {r : Id} {ph : Phase} {s s' : State} {p x : Id} {u : Unit}
    (h : Big m r ph s) (hp : s.dom.isElement p = true) (hpr : p ≠ r) (hpx : p ≠ x) (hx : Fl r s.dom x)
    (e : sinkUnit (.append p (.node x)) s = .ok (u, s')) (hadj : AdjD s'.dom s.openElems) : Stp r s s' := by
  have hl := h.late
  have hip : IpOk s.dom (.lastChild p) := ⟨ne_zero_of_isElement hl.base hp, isContainer_of_isElement hp⟩
  have e' : H5V.Model.HtmlTB.insertAt (.lastChild p) (.node x) s = .ok (u, s') := e
  obtain ⟨hl', hext, hk0, hdo⟩ := insertAt_spec (child := .node x) hl hip hx.loose.childOk e'
  have hrs : RS r s.dom s'.dom := by
    refine insertAt_rs (child := .node x) (ip := .lastChild p) hl.base h.rtu hpr ⟨hx.2.2, fun q hq => ?_⟩ e'
    simp only [InsertionPoint.nodes] at hq
    rcases hq with rfl | hq
    · exact hpx
    · cases hq
  exact ⟨hl', hdo, hext.chg, hrs, hk0, by rw [show s'.openElems = s.openElems by rw [hdo]]; exact hadj⟩

theorem reparent_stp {m : Mode} {r : Id} {ph : Phase} {s s' : State} {n np : Id} {u : Unit}
    (h : Big m r ph s) (hn : s.dom.isElement n = true) (hnp : s.dom.isElement np = true) (hnr : n ≠ r) (hnpr : np ≠ r)
    (e : sinkUnit (.reparentChildren n np) s = .ok (u, s')) (hadj : AdjD s'.dom s.openElems) : Stp r s s' := by
  obtain ⟨out, e⟩ := sinkUnit_ok.mp e
  obtain ⟨d, hd, rfl⟩ := sink_ok.mp e
  have hl := h.late
  obtain ⟨hb', hc', hk⟩ := reparentChildren_spec hl.base (ne_zero_of_isElement hl.base hn)
    (ne_zero_of_isElement hl.base hnp) (isContainer_of_isElement hnp) (apply_reparent hd)
  exact ⟨(hl.dom hb' hc' hk).1, rfl, hc', rs_reparent hl.base hnr hnpr (apply_reparent hd), hk, hadj⟩

theorem createElement_stp {m : Mode} {r : Id} {ph : Phase} {s s' : State} {name : QualName} {attrs : List Attr}
    {dup : Bool} {el : Id} (h : Big m r ph s) (e : createElementWithFlags name attrs dup s = .ok (el, s')) :
    Stp r s s' ∧ s.dom.size ≤ el ∧ nm s'.dom el = ⟨name.ns, name.loc⟩ ∧ Fl r s'.dom el ∧
      (∀ q, el ∉ s'.dom.childrenOf q) ∧ s'.dom.parentOf el = none ∧ s'.dom.childrenOf el = [] ∧
      (∀ tc, s'.dom.templateContentsOf el = some tc → s'.dom.childrenOf tc = []) := by
  obtain ⟨up, hc, _⟩ := h
  obtain ⟨hadj', hpar', hkids', _, htc', _⟩ := createElement_adj hc.late hc.adj e
  obtain ⟨hc3, hdo3, hchg3, hfresh3, hel3, hnm3, hnol3⟩ := createElement_core hc e
  obtain ⟨_, _, _, hk1, _⟩ := createElementWithFlags_any hc.late.base e
  have hrs : RS r s.dom s'.dom := by
    unfold createElementWithFlags at e
    obtain ⟨hd1, _⟩ := sink_dom (sinkNode_ok.mp e)
    obtain ⟨hdom1, _⟩ := apply_createElement hd1
    rw [hdom1]
    exact rs_createElement r hc.late.base _ _ _
  exact ⟨⟨hc3.late, hdo3, hchg3, hrs, hk1 0, hadj'⟩, ⟨hfresh3, hnm3, ⟨hel3, hnol3 0, hnol3 r⟩, hnol3, hpar', hkids',
    fun tc h => (htc' tc h).1⟩⟩

theorem Big.nodup {m : Mode} {r : Id} {ph : Phase} {s : State} (h : Big m r ph s) : s.openElems.Nodup := by
  obtain ⟨_, hc, _⟩ := h; exact hc.nodup

theorem Big.root_mem {m : Mode} {r : Id} {ph : Phase} {s : State} (h : Big m r ph s) : r ∈ s.openElems := by
  obtain ⟨_, hc, _⟩ := h; exact hc.root_mem

theorem Big.root_name {m : Mode} {r : Id} {ph : Phase} {s : State} (h : Big m r ph s) : nm s.dom r = hN "html" := by
  obtain ⟨_, hc, _⟩ := h; exact hc.root_name

/-- `insert_appropriately` of a floating element below an override target -/
theorem insertAppropriately_stp {m : Mode} {r : Id} {ph : Phase} {s s' : State} {x t : Id} {u : Unit}
    (h : Big m r ph s) (ht : t ∈ s.openElems ∧ t ≠ r) (hx : Fl r s.dom x)
    (hcand : ∀ ip, ARes s t ip → ∀ p, ip.nodes.1 = p ∨ ip.nodes.2 = some p → p ≠ x)
    (hxp : s.dom.parentOf x = none) (hxk : keepName (nm s.dom x) = false)
    (hK : ∀ y ∈ s.openElems, keepName (nm s.dom y) = true → Before s.openElems y x)
    (htx : Before s.openElems t x)
    (e : insertAppropriately (.node x) (some t) s = .ok (u, s')) : Stp r s s' := by
  unfold insertAppropriately at e
  obtain ⟨ip, s1, e1, e2⟩ := bind_ok.mp e
  obtain ⟨q1, t', ht', hares⟩ := apfi_sem e1
  obtain ⟨_, _, hipok1⟩ := apfi_spec h.late e1
  simp only at ht'
  subst ht'
  have hipr : IpR r s.dom ip := h.ipR ht hares
  have hb1 : Big m r ph s1 := h.qs q1
  have hipr1 : IpR r s1.dom ip := hipr.rs (RS.of_nodes q1.nodes)
  have hx1 : Fl r s1.dom x := hx.of_nodes q1.nodes
  obtain ⟨hl2, hext2, hk02, hdo2⟩ := insertAt_spec (child := .node x) hb1.late hipok1 hx1.loose.childOk e2
  have hrs : RS r s1.dom s'.dom :=
    insertAt_rs (child := .node x) hb1.late.base hb1.rtu hipr1 ⟨hx1.2.2, hcand ip hares⟩ e2
  have hsk := SameSk.of_nodes q1.nodes
  have hadj : AdjD s'.dom s'.openElems := by
    have hoe : s'.openElems = s1.openElems := by rw [hdo2]
    rw [hoe]
    have hnd : s.openElems.Nodup := h.nodup
    refine insertAt_open_adj hipok1 hb1.adj (by rw [parentOf_of_nodes q1.nodes]; exact hxp)
      (isText_false_of_isElement hx1.1) (by rw [q1.nm]; exact not_table_of_keepName_false hxk) (hcand ip hares) ?_ e2
    intro P a b hP hpos
    rw [q1.openElems]
    have hpos' : NodePos s.dom ip P b :=
      hpos.congr (fun y => (childrenOf_of_nodes q1.nodes y).symm) (fun p _ => (parentOf_of_nodes q1.nodes p).symm)
    refine ⟨?_, fun T _ hn hTO => hK T hTO (by rw [← q1.nm, hn]; exact keepName_template),
      fun y _ hyO hyn => hK y hyO (by rw [← q1.nm, hyn]; decide)⟩
    intro hPO
    have hPel : s.dom.isElement P = true := h.late.st.oe P hPO
    cases hares with
    | plain =>
      cases hpos' with
      | last hb hip =>
        rcases hip with hip | ⟨e', hip, _⟩
        · have : t' = P := by injection hip
          rw [← this]; exact htx
        · cases hip
      | before e' p' b' hip _ _ _ => cases hip
    | tmpl tc htc _ =>
      cases hpos' with
      | last hb hip =>
        rcases hip with hip | ⟨e', hip, _⟩
        · have : tc = P := by injection hip
          rw [this] at htc
          exact absurd htc (tc_not_element h.late.base hPel)
        · cases hip
      | before e' p' b' hip _ _ _ => cases hip
    | foster ip' _ _ hres =>
      cases hres with
      | tmpl t' tc _ htc _ =>
        cases hpos' with
        | last hb hip =>
          rcases hip with hip | ⟨e', hip, _⟩
          · have : tc = P := by injection hip
            rw [this] at htc
            exact absurd htc (tc_not_element h.late.base hPel)
          · cases hip
        | before e' p' b' hip _ _ _ => cases hip
      | table pre post e p hl hn hpre =>
        have hst : s.openElems = post.reverse ++ p :: e :: pre.reverse := by
          have := congrArg List.reverse hl
          rw [List.reverse_reverse] at this
          rw [this]; simp
        have heO : e ∈ s.openElems := by rw [hst]; simp
        have hex : Before s.openElems e x := hK e heO (by rw [hn]; decide)
        cases hpos' with
        | last hb hip =>
          rcases hip with hip | ⟨e', hip, _⟩
          · cases hip
          · have hpP : p = P := by injection hip
            rw [← hpP]
            refine before_trans hnd ?_ hex
            rw [hst]
            exact before_mid_post (by simp)
        | before e' p' b' hip hpe hem hb =>
          have hee : e = e' := by injection hip
          rw [← hee] at hem
          exact before_trans hnd (h.adj.pb P e hem heO hPO) hex
      | bottom hh hhd _ =>
        cases hpos' with
        | last hb hip =>
          rcases hip with hip | ⟨e', hip, _⟩
          · have : hh = P := by injection hip
            rw [← this]
            obtain ⟨up, hc, _⟩ := id h
            have hr : hh = r := by
              rw [hc.stack] at hhd
              simpa using hhd.symm
            rw [hr]
            exact hK r h.root_mem (by rw [hc.root_name]; exact keepName_html)
          · cases hip
        | before e' p' b' hip _ _ _ => cases hip
  refine ⟨hl2, ?_, hsk.chg.trans hext2.chg, (RS.of_nodes q1.nodes).trans hrs, ?_, hadj⟩
  · have h1 := q1.rest
    show s' = { s with dom := s'.dom, traceRev := s'.traceRev }
    rw [hdo2, h1]
  · rw [hk02, childrenOf_of_nodes q1.nodes]

/-- above a disposable element in scope, everything is disposable, and it sits at index ≥ 2 -/
theorem Big.high {m : Mode} {r : Id} {ph : Phase} {s : State} {below above : List Id} {x : Id} (h : Big m r ph s)
    (hst : s.openElems = below ++ x :: above) (hx : keepName (nm s.dom x) = false)
    (hab : ∀ y ∈ above, htmlIn (nm s.dom y) ["html", "table", "template"] = false) :
    (∀ y ∈ above, keepName (nm s.dom y) = false) ∧ 2 ≤ below.length ∧
      ∃ ca, below.getLast? = some ca ∧ ca ∈ s.openElems ∧ ca ≠ r := by
  obtain ⟨up, hc, hbb, _, _⟩ := h
  obtain ⟨a, up', hup, han⟩ := Big.anchor_name (m := m) hc hbb
  have hka : keepName (nm s.dom a) = true := keepName_of_htmlIn han (by decide)
  -- below = r :: a :: …
  have hb2 : ∃ b2, below = r :: a :: b2 := by
    rw [hc.stack, hup] at hst
    cases below with
    | nil =>
      simp only [List.nil_append, List.cons.injEq] at hst
      rw [← hst.1, hc.root_name, keepName_html] at hx; cases hx
    | cons b0 t =>
      simp only [List.cons_append, List.cons.injEq] at hst
      cases t with
      | nil =>
        simp only [List.nil_append, List.cons.injEq] at hst
        rw [← hst.2.1, hka] at hx; cases hx
      | cons b1 t1 =>
        simp only [List.cons_append, List.cons.injEq] at hst
        exact ⟨t1, by rw [hst.1, hst.2.1]⟩
  obtain ⟨b2, rfl⟩ := hb2
  refine ⟨?_, by simp, ?_⟩
  · have htg := hc.tg
    rw [hst] at htg
    refine tg_above above _ x htg hx (fun y hy => ?_)
    refine htmlIn_split5 (hab y hy) (hc.bh4 hbb.notPf y ?_)
    have : up = (a :: b2) ++ x :: above := by
      rw [hc.stack] at hst
      simp only [List.cons_append, List.cons.injEq, true_and] at hst
      exact hst
    rw [this]
    show y ∈ b2 ++ x :: above
    exact List.mem_append_right _ (List.mem_cons_of_mem _ hy)
  · have hne : (a :: b2) ≠ [] := by simp
    have hl : (r :: a :: b2).getLast? = some ((a :: b2).getLast hne) := by
      rw [List.getLast?_cons_cons, List.getLast?_eq_some_getLast hne]
    refine ⟨_, hl, ?_, ?_⟩
    · rw [hst]
      exact List.mem_append_left _ (List.mem_cons_of_mem _ (List.getLast_mem hne))
    · have hnd := hc.nodup
      rw [hst] at hnd
      have h1 : (r :: a :: b2).Nodup := (List.nodup_append.mp hnd).1
      intro heq
      exact (List.nodup_cons.mp h1).1 (heq ▸ List.getLast_mem hne)


theorem Stp.of_qs {m : Mode} {r : Id} {ph : Phase} {s s' : State} (h : Big m r ph s) (q : QS s s') : Stp r s s' :=
  ⟨(h.qs q).late, q.rest, (SameSk.of_nodes q.nodes).chg, RS.of_nodes q.nodes, childrenOf_of_nodes q.nodes 0,
    (h.qs q).adj⟩

/-! ### the frame of the adoption agency: a fixed lower part, a disposable upper part -/

structure AAF (m : Mode) (r : Id) (ph : Phase) (s : State) (low high : List Id) : Prop where
  big : Big m r ph s
  st : s.openElems = low ++ high
  dis : ∀ x ∈ high, keepName (nm s.dom x) = false

theorem AAF.stp {m : Mode} {r : Id} {ph : Phase} {s s' : State} {low high : List Id} (h : AAF m r ph s low high)
    (t : Stp r s s') : AAF m r ph s' low high :=
  ⟨h.big.stp t, by rw [t.oe]; exact h.st, fun x hx => by
    rw [nm_chg t.chg (h.big.late.st.oe x (by rw [h.st]; exact List.mem_append_right _ hx))]; exact h.dis x hx⟩

theorem AAF.qs {m : Mode} {r : Id} {ph : Phase} {s s' : State} {low high : List Id} (h : AAF m r ph s low high)
    (q : QS s s') : AAF m r ph s' low high := h.stp (Stp.of_qs h.big q)

theorem AAF.loose {m : Mode} {r : Id} {ph : Phase} {s : State} {low high : List Id} (h : AAF m r ph s low high)
    (hl : low ≠ []) {x : Id} (hx : x ∈ high) : Loose s.dom x := by
  have hl' := h.big.late
  refine ⟨hl'.st.oe x (by rw [h.st]; exact List.mem_append_right _ hx), hl'.st.tail x ?_⟩
  rw [h.st, tail_append_of_ne_nil hl]
  exact List.mem_append_right _ hx

theorem AAF.edit {m : Mode} {r : Id} {ph : Phase} {s : State} {low high high' : List Id} {af' : List FormatEntry}
    (h : AAF m r ph s low high) (hd' : ∀ x ∈ high', keepName (nm s.dom x) = false ∧ Loose s.dom x)
    (hnd : (low ++ high').Nodup) (haf : AFok s.dom af') (hadj : AdjD s.dom (low ++ high')) :
    AAF m r ph { s with openElems := low ++ high', activeFormatting := af' } low high' :=
  ⟨h.big.rehigh h.st h.dis hd' hnd haf hadj, rfl, fun x hx => (hd' x hx).1⟩

theorem nodup_set {α : Type} : ∀ {l : List α} {y : α} (i : Nat), l.Nodup → y ∉ l → (l.set i y).Nodup
  | [], _, _, h, _ => by simpa using h
  | a :: t, y, 0, h, hy => by
    simp only [List.set_cons_zero]
    rw [List.nodup_cons] at h ⊢
    exact ⟨fun hm => hy (List.mem_cons_of_mem _ hm), h.2⟩
  | a :: t, y, i + 1, h, hy => by
    simp only [List.set_cons_succ]
    rw [List.nodup_cons] at h ⊢
    refine ⟨fun hm => ?_, nodup_set i h.2 (fun hm => hy (List.mem_cons_of_mem _ hm))⟩
    rcases List.mem_or_eq_of_mem_set hm with h1 | h1
    · exact h.1 h1
    · exact hy (by rw [h1]; simp)

theorem nodup_insert_mid {α : Type} {pre post : List α} {y : α} (h : (pre ++ post).Nodup) (hy : y ∉ pre ++ post) :
    (pre ++ y :: post).Nodup := by
  rw [List.nodup_append] at h ⊢
  obtain ⟨h1, h2, h3⟩ := h
  refine ⟨h1, ?_, ?_⟩
  · rw [List.nodup_cons]
    exact ⟨fun hm => hy (List.mem_append_right _ hm), h2⟩
  · intro a ha b hb
    simp only [List.mem_cons] at hb
    rcases hb with rfl | hb
    · rintro rfl; exact hy (List.mem_append_left _ ha)
    · exact h3 a ha b hb

theorem insertIdx_after {α : Type} : ∀ (pre : List α) (x y : α) (post : List α),
    (pre ++ x :: post).insertIdx (pre.length + 1) y = pre ++ x :: y :: post
  | [], x, y, post => by simp [List.insertIdx]
  | a :: t, x, y, post => by
    simp only [List.cons_append, List.length_cons, List.insertIdx_succ_cons]
    rw [insertIdx_after t x y post]

/-- what the inner loop establishes, relative to its start state -/
structure AAPost (m : Mode) (r : Id) (ph : Phase) (low : List Id) (s s' : State) (ln : Id) : Prop where
  fr : ∃ high', AAF m r ph s' low high'
  mode : s'.mode = s.mode
  orig : s'.origMode = s.origMode
  fl : Fl r s'.dom ln
  nl : ln ∉ low
  dis : keepName (nm s'.dom ln) = false
  chg : Chg s.dom s'.dom
  lnO : ln ∈ s'.openElems

theorem AAPost.pre {m : Mode} {r : Id} {ph : Phase} {low : List Id} {s s1 s' : State} {ln : Id}
    (h : AAPost m r ph low s1 s' ln) (hm : s1.mode = s.mode) (ho : s1.origMode = s.origMode) (hc : Chg s.dom s1.dom) :
    AAPost m r ph low s s' ln :=
  ⟨h.fr, h.mode.trans hm, h.orig.trans ho, h.fl, h.nl, h.dis, hc.trans h.chg, h.lnO⟩

theorem afRemove_sem {i : Nat} {site : String} {s s' : State} {u : Unit} (e : afRemove i site s = .ok (u, s')) :
    s' = { s with activeFormatting := s.activeFormatting.eraseIdx i } := by
  unfold afRemove at e
  rw [getS_bind] at e
  rcases ite_run e with ⟨_, e⟩ | ⟨_, e⟩
  · unfold setAF at e
    exact modS_ok.mp e
  · exact absurd e throw_ok

theorem AAF.afRm {m : Mode} {r : Id} {ph : Phase} {s s' : State} {low high : List Id} {i : Nat} {site : String}
    {u : Unit} (h : AAF m r ph s low high) (e : afRemove i site s = .ok (u, s')) :
    AAF m r ph s' low high ∧ s'.mode = s.mode ∧ s'.origMode = s.origMode ∧ s'.dom = s.dom := by
  obtain ⟨hb, hm, ho⟩ := (inferInstance : PB (afRemove i site)).p m r ph s u s' h.big e
  have hs := afRemove_sem e
  have hd : s'.dom = s.dom := by rw [hs]
  have hoe : s'.openElems = s.openElems := by rw [hs]
  exact ⟨⟨hb, by rw [hoe]; exact h.st, by rw [hd]; exact h.dis⟩, hm, ho, hd⟩



theorem fresh_ne {d : Dom} {y new : Id} (hy : d.isElement y = true) (hn : d.size ≤ new) : new ≠ y := by
  rintro rfl
  exact Nat.lt_irrefl _ (Nat.lt_of_lt_of_le (lt_of_isElement hy) hn)

theorem aa_index {l low0 high : List Id} {f node : Id} {n : Nat} (hst : l = (low0 ++ [f]) ++ high)
    (hg : l[n]? = some node) (hne : node ≠ f) (hk : low0.length < n + 1) :
    (low0 ++ [f]).length ≤ n ∧ low0.length < n ∧ high[n - (low0 ++ [f]).length]? = some node := by
  have hlen : (low0 ++ [f]).length = low0.length + 1 := by simp
  have hn : low0.length < n := by
    rcases Nat.lt_or_ge low0.length n with h | h
    · exact h
    · have : n = low0.length := by omega
      subst this
      rw [hst, List.getElem?_append_left (by rw [hlen]; omega), List.getElem?_concat_length] at hg
      cases hg; exact absurd rfl hne
  have hle : (low0 ++ [f]).length ≤ n := by rw [hlen]; omega
  refine ⟨hle, hn, ?_⟩
  rw [hst, List.getElem?_append_right hle] at hg
  exact hg

/-- the inner loop of the adoption agency -/
theorem aaInner_big {m : Mode} {r : Id} {ph : Phase} {f fb : Id} {low0 : List Id} :
    ∀ (ni ic : Nat) (ln : Id) (bm : Bookmark) (s s' : State) (res : Id × Bookmark) (high : List Id),
      AAF m r ph s (low0 ++ [f]) high → low0.length < ni → Fl r s.dom ln → ln ∉ low0 ++ [f] →
      keepName (nm s.dom ln) = false → s.openElems[ni]? = some ln →
      aaInner f fb ni ic ln bm s = .ok (res, s') → AAPost m r ph (low0 ++ [f]) s s' res.1
  | 0, _, _, _, _, _, _, _, _, _, _, _, _, _, e => by
    unfold aaInner at e; exact absurd e panicAt_ok
  | n + 1, ic, ln, bm, s, s', res, high, hf, hk, hln, hlnl, hlnk, hlnO, e => by
    unfold aaInner at e
    rw [getS_bind] at e
    cases hg : s.openElems[n]? with
    | none =>
      rw [hg] at e; dsimp only at e
      obtain ⟨_, _, h1, _⟩ := bind_ok.mp e
      exact absurd h1 panicAt_ok
    | some node =>
      rw [hg] at e; dsimp only at e
      obtain ⟨node', s0, e0, e⟩ := bind_ok.mp e
      obtain ⟨rfl, rfl⟩ := pure_ok.mp e0
      obtain ⟨b, s1, e1, e2⟩ := bind_ok.mp e
      obtain ⟨q1, hb⟩ := sameNode_sem e1
      have hf1 := hf.qs q1
      have t1 := Stp.of_qs hf.big q1
      have hln1 := hln.stp t1
      rcases ite_run e2 with ⟨hbt, e2⟩ | ⟨hbf, e2⟩
      · obtain ⟨rfl, rfl⟩ := pure_ok.mp e2
        exact ⟨⟨high, hf1⟩, t1.mode, t1.orig, hln1, hlnl, by rw [nm_chg t1.chg hln.1]; exact hlnk, t1.chg,
          by rw [q1.openElems]; exact List.mem_of_getElem? hlnO⟩
      · -- the node is above the formatting element
        have hne : node ≠ f := by
          rw [hb] at hbf
          intro h; exact hbf (by rw [h]; simp)
        obtain ⟨hnlow, hk', hgh⟩ := aa_index hf.st hg hne hk
        have hlne : low0 ++ [f] ≠ [] := by simp
        -- removal of the node from the stack, then the next iteration
        have erase_tail : ∀ s2 : State, AAF m r ph s2 (low0 ++ [f]) high → s2.mode = s.mode → s2.origMode = s.origMode →
            Chg s.dom s2.dom → Fl r s2.dom ln →
            ((modS fun s => { s with openElems := s.openElems.eraseIdx n }) >>= fun _ =>
              aaInner f fb n (ic + 1) ln bm) s2 = .ok (res, s') →
            AAPost m r ph (low0 ++ [f]) s s' res.1 := by
          intro s2 hf2 hm2 ho2 hc2 hln2 e5
          obtain ⟨u, s3, e6, e7⟩ := bind_ok.mp e5
          have hs3 := modS_ok.mp e6
          have hst3 : s2.openElems.eraseIdx n = (low0 ++ [f]) ++ high.eraseIdx (n - (low0 ++ [f]).length) := by
            rw [hf2.st, List.eraseIdx_append_of_length_le hnlow]
          have hsub : (high.eraseIdx (n - (low0 ++ [f]).length)).Sublist high := List.eraseIdx_sublist _ _
          have hf3 : AAF m r ph s3 (low0 ++ [f]) (high.eraseIdx (n - (low0 ++ [f]).length)) := by
            have := hf2.edit (high' := high.eraseIdx (n - (low0 ++ [f]).length)) (af' := s2.activeFormatting)
              (fun x hx => ⟨hf2.dis x (hsub.subset hx), hf2.loose hlne (hsub.subset hx)⟩)
              ((hsub.append_left _).nodup (by rw [← hf2.st]; exact hf2.big.nodup)) hf2.big.afok
              (hf2.big.adj.sub hf2.big.nodup (by rw [hf2.st]; exact hsub.append_left _))
            rw [hs3, hst3]; exact this
          have hlnO3 : s3.openElems[n]? = some ln := by
            rw [hs3]
            show (s2.openElems.eraseIdx n)[n]? = some ln
            rw [List.getElem?_eraseIdx_of_ge (Nat.le_refl n), hf2.st, ← hf.st]; exact hlnO
          have hd3 : s3.dom = s2.dom := by rw [hs3]
          have hm3 : s3.mode = s2.mode := by rw [hs3]
          have ho3 : s3.origMode = s2.origMode := by rw [hs3]
          have := aaInner_big n (ic + 1) ln bm s3 s' res _ hf3 hk' (by rw [hd3]; exact hln2) hlnl
            (by rw [hd3, nm_chg hc2 hln.1]; exact hlnk) hlnO3 e7
          exact this.pre (hm3.trans hm2) (ho3.trans ho2) (by rw [hd3]; exact hc2)
        rcases ite_run e2 with ⟨hic, e2⟩ | ⟨hic, e2⟩
        · -- more than three iterations: drop the node
          obtain ⟨pos, s2, e3, e4⟩ := bind_ok.mp e2
          have q2 : QS s1 s2 := IsQ.q _ _ _ e3
          have hf2 := hf1.qs q2
          have t2 := Stp.of_qs hf1.big q2
          try dsimp only at e4
          cases pos with
          | none =>
            try dsimp only at e4
            exact erase_tail s2 hf2 (t2.mode.trans t1.mode) (t2.orig.trans t1.orig) (t1.chg.trans t2.chg) (hln1.stp t2) e4
          | some p =>
            try dsimp only at e4
            obtain ⟨u, s3, e5, e6⟩ := bind_ok.mp e4
            obtain ⟨hf3, hm3, ho3, hd3⟩ := hf2.afRm e5
            exact erase_tail s3 hf3 (hm3.trans (t2.mode.trans t1.mode)) (ho3.trans (t2.orig.trans t1.orig))
              (by rw [hd3]; exact t1.chg.trans t2.chg) (by rw [hd3]; exact hln1.stp t2) e6
        · obtain ⟨pos, s2, e3, e4⟩ := bind_ok.mp e2
          have q2 : QS s1 s2 := IsQ.q _ _ _ e3
          have hf2 := hf1.qs q2
          have t2 := Stp.of_qs hf1.big q2
          have hln2 := hln1.stp t2
          cases pos with
          | none =>
            try dsimp only at e4
            exact erase_tail s2 hf2 (t2.mode.trans t1.mode) (t2.orig.trans t1.orig) (t1.chg.trans t2.chg) hln2 e4
          | some nfi =>
            try dsimp only at e4
            rw [getS_bind] at e4
            try dsimp only at e4
            cases haf : s2.activeFormatting[nfi]? with
            | none =>
              rw [haf] at e4; dsimp only at e4
              obtain ⟨_, _, h1, _⟩ := bind_ok.mp e4
              exact absurd h1 panicAt_ok
            | some ent =>
              rw [haf] at e4
              cases ent with
              | marker =>
                try dsimp only at e4
                obtain ⟨_, _, h1, _⟩ := bind_ok.mp e4
                exact absurd h1 panicAt_ok
              | element h0 t =>
                try dsimp only at e4
                obtain ⟨b2, s3, e5, e6⟩ := bind_ok.mp e4
                obtain ⟨q3, _⟩ := sameNode_sem e5
                have hf3 := hf2.qs q3
                have t3 := Stp.of_qs hf2.big q3
                have hln3 := hln2.stp t3
                rcases ite_run e6 with ⟨_, e6⟩ | ⟨_, e6⟩
                · obtain ⟨_, _, h1, _⟩ := bind_ok.mp e6
                  exact absurd h1 panicAt_ok
                · obtain ⟨tag, s3', e7, e8⟩ := bind_ok.mp e6
                  obtain ⟨rfl, rfl⟩ := pure_ok.mp e7
                  -- the tag is a formatting tag
                  have hmem : FormatEntry.element h0 t ∈ s2.activeFormatting := List.mem_of_getElem? haf
                  obtain ⟨hfn, _, _⟩ := hf2.big.afok h0 t hmem
                  -- the replacement element
                  obtain ⟨new, s4, e9, e10⟩ := bind_ok.mp e8
                  obtain ⟨t4, hfresh, hnm4, hfl4, hnol4, hpar4, hkids4, htc4⟩ := createElement_stp hf3.big e9
                  have hf4 := hf3.stp t4
                  -- the stack around the node
                  obtain ⟨h1, h2, hhigh, hh1⟩ := split_at_index hgh
                  have hst0 : s.openElems = (low0 ++ [f] ++ h1) ++ node :: h2 := by
                    rw [hf.st, hhigh]; simp
                  have hlen1 : (low0 ++ [f] ++ h1).length = n := by
                    rw [List.length_append, hh1]; omega
                  obtain ⟨h2', hh2⟩ : ∃ h2', h2 = ln :: h2' := by
                    have := hlnO
                    rw [hst0, ← hlen1, getElem?_split_succ] at this
                    cases h2 with
                    | nil => cases this
                    | cons a t => simp only [List.head?_cons, Option.some.injEq] at this; exact ⟨t, by rw [this]⟩
                  have hset : high.set (n - (low0 ++ [f]).length) new = h1 ++ new :: h2 := by
                    rw [hhigh, ← hh1, set_split]
                  have hln4 := hln3.stp t4
                  obtain ⟨u5, s5, e11, e12⟩ := bind_ok.mp e10
                  have hs5 := modS_ok.mp e11
                  have hold : ∀ y ∈ s3.openElems, new ≠ y := fun y hy =>
                    fresh_ne (hf3.big.late.st.oe y hy) hfresh
                  have hnew4 : new ∉ s4.openElems := by
                    rw [t4.oe]; intro hm; exact hold new hm rfl
                  have hst5 : s4.openElems.set n new = (low0 ++ [f]) ++ high.set (n - (low0 ++ [f]).length) new := by
                    rw [hf4.st, List.set_append_right _ _ hnlow]
                  have hk4 : keepName (nm s4.dom new) = false := by
                    rw [hnm4]; exact keepName_fmt hfn
                  have hf5 : AAF m r ph s5 (low0 ++ [f]) (high.set (n - (low0 ++ [f]).length) new) := by
                    have := hf4.edit (high' := high.set (n - (low0 ++ [f]).length) new)
                      (af' := s4.activeFormatting.set nfi (.element new t))
                      (fun x hx => by
                        rcases List.mem_or_eq_of_mem_set hx with h1 | h1
                        · exact ⟨hf4.dis x h1, hf4.loose hlne h1⟩
                        · subst h1; exact ⟨hk4, hfl4.loose⟩)
                      (by rw [← hst5]; exact nodup_set n hf4.big.nodup hnew4)
                      (hf4.big.afok.set nfi hfn hnm4 hfl4.1)
                      (by
                        rw [hset]
                        have h0 : AdjD s4.dom ((low0 ++ [f] ++ h1) ++ h2) := by
                          refine hf4.big.adj.sub hf4.big.nodup ?_
                          rw [hf4.st, hhigh]
                          have : low0 ++ [f] ++ (h1 ++ node :: h2) = (low0 ++ [f] ++ h1) ++ node :: h2 := by simp
                          rw [this]
                          exact List.Sublist.append (List.Sublist.refl _) (List.sublist_cons_self _ _)
                        have := h0.stackInsert_isolated (c := new) hnol4 hkids4 htc4
                        have h3 : low0 ++ [f] ++ (h1 ++ new :: h2) = (low0 ++ [f] ++ h1) ++ new :: h2 := by simp
                        rw [h3]; exact this)
                    rw [hs5, hst5]; exact this
                  have hoe5 : s5.openElems = (low0 ++ [f] ++ h1) ++ new :: ln :: h2' := by
                    rw [hf5.st, hset, hh2]; simp
                  have hd5 : s5.dom = s4.dom := by rw [hs5]
                  have hm5 : s5.mode = s4.mode := by rw [hs5]
                  have ho5 : s5.origMode = s4.origMode := by rw [hs5]
                  have hln5 : Fl r s5.dom ln := by rw [hd5]; exact hln4
                  have hfl5 : Fl r s5.dom new := by rw [hd5]; exact hfl4
                  try dsimp only at e12
                  obtain ⟨b6, s6, e13, e14⟩ := bind_ok.mp e12
                  obtain ⟨q6, _⟩ := sameNode_sem e13
                  have hf6 := hf5.qs q6
                  have t6 := Stp.of_qs hf5.big q6
                  have hln6 := hln5.stp t6
                  have hfl6 := hfl5.stp t6
                  have hnr : new ≠ r := hold r hf3.big.root_mem
                  have hnln : new ≠ ln := fresh_ne hln3.1 hfresh
                  have hnlow : new ∉ low0 ++ [f] := fun hm =>
                    hold new (by rw [hf3.st]; exact List.mem_append_left _ hm) rfl
                  have hchg6 : Chg s.dom s6.dom := by
                    have h45 : Chg s4.dom s5.dom := by rw [hd5]; exact Chg.refl _
                    exact ((((t1.chg.trans t2.chg).trans t3.chg).trans t4.chg).trans h45).trans t6.chg
                  have hm6 : s6.mode = s.mode := by
                    rw [t6.mode, hm5, t4.mode, t3.mode, t2.mode, t1.mode]
                  have ho6 : s6.origMode = s.origMode := by
                    rw [t6.orig, ho5, t4.orig, t3.orig, t2.orig, t1.orig]
                  have tail : ∀ bk : Bookmark,
                      (sinkUnit (.removeFromParent ln) >>= fun _ => sinkUnit (.append new (.node ln)) >>= fun _ =>
                        aaInner f fb n (ic + 1) new bk) s6 = .ok (res, s') →
                      AAPost m r ph (low0 ++ [f]) s s' res.1 := by
                    intro bk e15
                    obtain ⟨u7, s7, e16, e17⟩ := bind_ok.mp e15
                    have hoe6 : s6.openElems = (low0 ++ [f] ++ h1) ++ new :: ln :: h2' := by
                      rw [q6.openElems]; exact hoe5
                    have hlnk6 : keepName (nm s6.dom ln) = false := by rw [nm_chg hchg6 hln.1]; exact hlnk
                    obtain ⟨a7, hpar7, _, _, hdat7, _⟩ := removeFromParent_adj hf6.big.adj
                      (Or.inr ⟨by rw [hoe6]; simp, exm_of_keepName_false hlnk6⟩) e16
                    have t7 := removeFromParent_stp hf6.big hln6 e16 a7
                    have hf7 := hf6.stp t7
                    obtain ⟨u8, s8, e18, e19⟩ := bind_ok.mp e17
                    have hoe7 : s7.openElems = (low0 ++ [f] ++ h1) ++ new :: ln :: h2' := by rw [t7.oe]; exact hoe6
                    obtain ⟨a8, _, _, _⟩ := appendNode_adj hf7.big.adj hf7.big.late.base hnln (hfl6.stp t7).1 hpar7
                      (isText_false_of_isElement (hln6.stp t7).1)
                      (by rw [nm_of_data (hdat7 ln)]; exact not_table_of_keepName_false hlnk6)
                      (fun _ _ => by rw [hoe7]; exact before_mid_post (by simp)) e18
                    have t8 := appendNode_stp hf7.big (hfl6.stp t7).1 hnr hnln (hln6.stp t7) e18 a8
                    have hf8 := hf7.stp t8
                    have hlnO8 : s8.openElems[n]? = some new := by
                      rw [t8.oe, hoe7, ← hlen1]; exact getElem?_split_self _ _ _
                    have := aaInner_big n (ic + 1) new bk s8 s' res _ hf8 hk' ((hfl6.stp t7).stp t8) hnlow
                      (by rw [nm_chg t8.chg (hfl6.stp t7).1, nm_chg t7.chg hfl6.1, nm_chg t6.chg hfl5.1, hd5]; exact hk4)
                      hlnO8 e19
                    exact this.pre (by rw [t8.mode, t7.mode]; exact hm6) (by rw [t8.orig, t7.orig]; exact ho6)
                      ((hchg6.trans t7.chg).trans t8.chg)
                  rcases ite_run e14 with ⟨_, e14⟩ | ⟨_, e14⟩
                  · obtain ⟨bk, s6', e20, e21⟩ := bind_ok.mp e14
                    obtain ⟨rfl, rfl⟩ := pure_ok.mp e20
                    exact tail _ e21
                  · obtain ⟨bk, s6', e20, e21⟩ := bind_ok.mp e14
                    obtain ⟨rfl, rfl⟩ := pure_ok.mp e20
                    exact tail _ e21


/-! ### the outer loop -/

theorem mem_afEndToMarkerAux : ∀ (l : List (FormatEntry × Nat)) (i : Nat) (h : Id) (t : Tag),
    (i, h, t) ∈ afEndToMarkerAux l → (FormatEntry.element h t, i) ∈ l
  | [], _, _, _, hm => by simp [afEndToMarkerAux] at hm
  | (.marker, _) :: _, _, _, _, hm => by simp [afEndToMarkerAux] at hm
  | (.element h' t', i') :: rest, i, h, t, hm => by
    simp only [afEndToMarkerAux, List.mem_cons, Prod.mk.injEq] at hm
    rcases hm with ⟨rfl, rfl, rfl⟩ | hm
    · simp
    · exact List.mem_cons_of_mem _ (mem_afEndToMarkerAux rest i h t hm)

theorem mem_afEndToMarker {af : List FormatEntry} {i : Nat} {h : Id} {t : Tag} (hm : (i, h, t) ∈ afEndToMarker af) :
    FormatEntry.element h t ∈ af := by
  unfold afEndToMarker at hm
  have := mem_afEndToMarkerAux _ _ _ _ hm
  rw [List.mem_reverse, List.mem_zipIdx_iff_getElem?] at this
  exact List.mem_of_getElem? this

/-- the candidates for the parent (or sibling) of the re-inserted node are not that node -/
theorem aa_cand {m : Mode} {r : Id} {ph : Phase} {s : State} {low high : List Id} {x t : Id}
    (hf : AAF m r ph s low high) (ht : t ∈ low) (hxl : x ∉ low) (hxe : s.dom.isElement x = true)
    (hxk : keepName (nm s.dom x) = false) :
    ∀ ip, ARes s t ip → ∀ p, ip.nodes.1 = p ∨ ip.nodes.2 = some p → p ≠ x := by
  have hbase := hf.big.late.base
  have htc : ∀ t' tc, s.dom.templateContentsOf t' = some tc → tc ≠ x := by
    intro t' tc h1
    rintro rfl
    have hdoc := (hbase.tcOk t' _ h1).2
    unfold Dom.isElement at hxe
    rw [hdoc] at hxe; cases hxe
  intro ip ha p hp
  cases ha with
  | plain =>
    simp only [InsertionPoint.nodes] at hp
    rcases hp with rfl | hp
    · rintro rfl; exact hxl ht
    · cases hp
  | tmpl tc h1 _ =>
    simp only [InsertionPoint.nodes] at hp
    rcases hp with rfl | hp
    · exact htc _ _ h1
    · cases hp
  | foster ip' _ _ hres =>
    cases hres with
    | tmpl t' tc _ h1 =>
      simp only [InsertionPoint.nodes] at hp
      rcases hp with rfl | hp
      · exact htc _ _ h1
      · cases hp
    | table pre post e p' hl hn =>
      simp only [InsertionPoint.nodes, Option.some.injEq] at hp
      rcases hp with rfl | rfl
      · rintro rfl
        rw [hn] at hxk; revert hxk; decide
      · rintro rfl
        -- the stack is … p e …; p ∉ low, so e is in the disposable part
        have hst : s.openElems = (post.reverse ++ [p']) ++ e :: pre.reverse := by
          have := congrArg List.reverse hl
          rw [List.reverse_reverse] at this
          rw [this]; simp
        rw [hf.st] at hst
        rcases List.append_eq_append_iff.mp hst with ⟨c, hc1, hc2⟩ | ⟨c, hc1, hc2⟩
        · -- post.reverse ++ [p] = low ++ c, high = c ++ e :: …
          have : e ∈ high := by rw [hc2]; simp
          have := hf.dis e this
          rw [hn] at this; revert this; decide
        · exact hxl (by rw [hc1]; simp)
    | bottom h hh _ =>
      simp only [InsertionPoint.nodes] at hp
      rcases hp with rfl | hp
      · rintro rfl
        rw [hf.st] at hh
        cases low with
        | nil => cases ht
        | cons a l' =>
          simp only [List.cons_append, List.head?_cons, Option.some.injEq] at hh
          exact hxl (by rw [hh]; simp)
      · cases hp

theorem AAF.removeFromStack {m : Mode} {r : Id} {ph : Phase} {s s' : State} {low high : List Id} {x : Id} {u : Unit}
    (hf : AAF m r ph s low high) (hxl : x ∉ low) (hxk : keepName (nm s.dom x) = false)
    (e : H5V.Model.HtmlTB.removeFromStack x s = .ok (u, s')) :
    (∃ high', AAF m r ph s' low high') ∧ s'.mode = s.mode ∧ s'.origMode = s.origMode ∧ SE s s' ∧
      s'.openElems.Sublist s.openElems := by
  obtain ⟨hb', hm, ho⟩ := removeFromStack_big hf.big hxk e
  obtain ⟨hse, hcase⟩ := removeFromStack_sem e
  refine ⟨?_, hm, ho, hse, ?_⟩
  · rcases hcase with ⟨h1, _⟩ | ⟨pos, hget, _, hst⟩
    · exact ⟨high, hb', by rw [h1]; exact hf.st, fun y hy => by rw [hse.nm]; exact hf.dis y hy⟩
    · have hle : low.length ≤ pos := by
        rcases Nat.lt_or_ge pos low.length with h | h
        · rw [hf.st, List.getElem?_append_left h] at hget
          exact absurd (List.mem_of_getElem? hget) hxl
        · exact h
      refine ⟨high.eraseIdx (pos - low.length), hb', ?_, fun y hy => ?_⟩
      · rw [hst, hf.st, List.eraseIdx_append_of_length_le hle]
      · rw [hse.nm]; exact hf.dis y ((List.eraseIdx_sublist _ _).subset hy)
  · rcases hcase with ⟨h1, _⟩ | ⟨pos, _, _, hst⟩
    · rw [h1]; exact List.Sublist.refl _
    · rw [hst]; exact List.eraseIdx_sublist _ _


set_option maxHeartbeats 1600000 in
theorem aaOuterStep_big {m : Mode} {r : Id} {ph : Phase} {s s' : State} {subject : Str} {b : Bool}
    (hk : keepName ⟨nsHtml, subject⟩ = false) (hb : Big m r ph s)
    (e : aaOuterStep subject s = .ok (b, s')) : Big m r ph s' ∧ s'.mode = s.mode ∧ s'.origMode = s.origMode := by
  unfold aaOuterStep at e
  rw [getS_bind] at e
  generalize hfd : List.find? _ (afEndToMarker s.activeFormatting) = fd at e
  cases fd with
  | none =>
    dsimp only at e
    haveI : PlainStr ({ kind := .endTag, name := subject, selfClosing := false, attrs := [], hadDup := false } : Tag).name := ⟨hk⟩
    obtain ⟨u, s1, e1, e2⟩ := bind_ok.mp e
    obtain ⟨_, rfl⟩ := pure_ok.mp e2
    exact (inferInstance : PB (processEndTagInBody _)).p m r ph s u _ hb e1
  | some x =>
    obtain ⟨fi, f, ftag⟩ := x
    dsimp -zeta only at e
    have hmem := mem_afEndToMarker (List.mem_of_find?_eq_some hfd)
    obtain ⟨hfn, hfnm, hfel⟩ := hb.afok f ftag hmem
    have hfk : keepName (nm s.dom f) = false := by rw [hfnm]; exact keepName_fmt hfn
    obtain ⟨pos, s1, e1, e2⟩ := bind_ok.mp e
    have e1' : rposition (fun n => if false then sameNode f n else sameNode n f) s = .ok (pos, s1) := e1
    obtain ⟨q1, hpos, _⟩ := rposition_same_sem e1'
    have hb1 := hb.qs q1
    cases pos with
    | none =>
      dsimp only at e2
      have : PB (parseError "Formatting element not open" >>= fun _ => afRemove fi "mod.rs:754" >>= fun _ => pure true) := by
        pb_walk
      obtain ⟨h1, h2, h3⟩ := this.p m r ph s1 b s' hb1 e2
      exact ⟨h1, h2.trans q1.mode, h3.trans (by rw [q1.rest])⟩
    | some k =>
      dsimp -zeta only at e2
      obtain ⟨hkget, _⟩ := hpos k rfl
      obtain ⟨insc, s2, e3, e4⟩ := bind_ok.mp e2
      obtain ⟨q2, hsc⟩ : QS s1 s2 ∧ (insc = true → ∃ pre x post, s1.openElems.reverse = pre ++ x :: post ∧
          (x == f) = true ∧ ∀ y ∈ pre, (y == f) = false ∧ defaultScope (nm s1.dom y) = false) := by
        unfold inScope at e3; rw [getS_bind] at e3
        exact inScopeLoop_sem defaultScope _ (fun n => n == f) s1 (fun n s b s' _ e => sameNode_sem e) _ _ _ _
          (QS.refl _) e3
      have q02 := q1.trans q2
      rcases ite_run e4 with ⟨hc, e4⟩ | ⟨hc, e4⟩
      · have : PB (parseError "Formatting element not in scope" >>= fun _ => (pure true : M Bool)) := by pb_walk
        obtain ⟨h1, h2, h3⟩ := this.p m r ph s2 b s' (hb.qs q02) e4
        exact ⟨h1, h2.trans q02.mode, h3.trans (by rw [q02.rest])⟩
      · have hin : insc = true := by cases insc <;> simp at hc ⊢
        obtain ⟨pre, x, post, hrev, hxf, hpre⟩ := hsc hin
        have hxf' : x = f := by simpa using hxf
        subst hxf'
        -- the split of the stack
        have hst1 : s1.openElems = post.reverse ++ x :: pre.reverse := by
          have := congrArg List.reverse hrev
          rw [List.reverse_reverse] at this
          rw [this]; simp
        have hfk1 : keepName (nm s1.dom x) = false := by rw [q1.nm]; exact hfk
        obtain ⟨hdis, hlen2, ca, hca, hcam, hcar⟩ := hb1.high hst1 hfk1 (fun y hy => by
          have := (hpre y (List.mem_reverse.mp hy)).2
          cases hh : htmlIn (nm s1.dom y) ["html", "table", "template"] with
          | false => rfl
          | true => rw [ScBase.h (sc := defaultScope) _ hh] at this; cases this)
        have hkeq : k = post.reverse.length := by
          have h1 : s1.openElems[k]? = some x := by rw [q1.openElems]; exact hkget
          have h2 : s1.openElems[post.reverse.length]? = some x := by
            rw [hst1, List.getElem?_append_right (Nat.le_refl _)]; simp
          have hlt : k < s1.openElems.length := by
            rcases Nat.lt_or_ge k s1.openElems.length with h | h
            · exact h
            · rw [List.getElem?_eq_none h] at h1; cases h1
          exact (List.getElem?_inj hlt hb1.nodup).mp (h1.trans h2.symm)
        generalize hbelow : post.reverse = below at hst1 hlen2 hca hkeq
        generalize habove : pre.reverse = above at hst1 hdis
        subst hkeq
        have hf1 : AAF m r ph s1 (below ++ [x]) above := ⟨hb1, by rw [hst1]; simp, hdis⟩
        have hf2 := hf1.qs q2
        obtain ⟨cur, s3, e5, e6⟩ := bind_ok.mp e4
        obtain ⟨rfl, _⟩ := currentNode_sem e5
        extract_lets jp at e6
        obtain ⟨bc, s4, e7, e8⟩ := bind_ok.mp e6
        obtain ⟨q4, _⟩ := sameNode_sem e7
        have hf4 := hf2.qs q4
        obtain ⟨s5, hs5, e9⟩ := ite_prefix_run e8
        have q45 : QS s4 s5 := by
          rcases hs5 with rfl | ⟨u, hu⟩
          · exact QS.refl _
          · exact IsQ.q _ _ _ hu
        have hf5 := hf4.qs q45
        have q05 : QS s s5 := ((q02.trans q4).trans q45)
        dsimp -zeta only [jp] at e9
        rw [getS_bind] at e9
        obtain ⟨fbr, s6, e10, e11⟩ := bind_ok.mp e9
        obtain ⟨q6, hfb, _⟩ := findFurthestBlock_sem _ _ _ _ _ e10
        have hf6 := hf5.qs q6
        have q06 : QS s s6 := q05.trans q6
        have hst6 : s6.openElems = below ++ x :: above := by
          rw [hf6.st]; simp
        have hdrop : List.drop below.length s5.openElems = x :: above := by
          rw [hf5.st, List.append_assoc]; exact List.drop_left
        rw [hdrop] at hfb
        cases fbr with
        | none =>
          dsimp only at e11
          obtain ⟨u7, s7, e12, e13⟩ := bind_ok.mp e11
          have hs7 := modS_ok.mp e12
          have htake : List.take below.length s6.openElems = below := by rw [hst6]; exact List.take_left
          have hb7 : Big m r ph s7 := by
            have := hf6.big.rehigh (low := below) (high := x :: above) (high' := []) (af' := s6.activeFormatting) hst6
              (fun y hy => by
                simp only [List.mem_cons] at hy
                rcases hy with rfl | hy
                · rw [q06.nm]; exact hfk
                · exact hf6.dis y hy)
              (fun y hy => by cases hy)
              (by
                rw [List.append_nil]
                have := hf6.big.nodup
                rw [hst6] at this
                exact (List.nodup_append.mp this).1)
              hf6.big.afok
              (by rw [List.append_nil]; exact hf6.big.adj.sub hf6.big.nodup (by rw [hst6]; exact List.sublist_append_left _ _))
            rw [List.append_nil] at this
            rw [hs7, htake]; exact this
          have : PB (afRemove fi "mod.rs:784" >>= fun _ => (pure true : M Bool)) := by pb_walk
          obtain ⟨h1, h2, h3⟩ := this.p m r ph s7 b s' hb7 e13
          have hm7 : s7.mode = s6.mode := by rw [hs7]
          have ho7 : s7.origMode = s6.origMode := by rw [hs7]
          exact ⟨h1, (h2.trans hm7).trans q06.mode, (h3.trans ho7).trans (by rw [q06.rest])⟩
        | some fbp =>
          obtain ⟨fbi, fb⟩ := fbp
          dsimp -zeta only at e11
          obtain ⟨pre2, post2, hl2, hfbi, hfbsp, hpre2⟩ := hfb fbi fb rfl
          have hxns : specialTag (nm s5.dom x) = false := by rw [q05.nm, hfnm]; exact special_fmt hfn
          cases pre2 with
          | nil =>
            simp only [List.nil_append, List.cons.injEq] at hl2
            rw [← hl2.1, hxns] at hfbsp; cases hfbsp
          | cons p0 pre3 =>
            simp only [List.cons_append, List.cons.injEq] at hl2
            obtain ⟨_, habv⟩ := hl2
            have hfbab : fb ∈ above := by rw [habv]; simp
            have hlt : below.length < fbi := by rw [hfbi]; simp
            extract_lets jp3 jp2 at e11
            obtain ⟨s6', hs6', e12⟩ := ite_prefix_run e11
            have hs6'' : s6 = s6' := by
              rcases hs6' with h | ⟨u, hu⟩
              · exact h.symm
              · exact absurd hu panicAt_ok
            subst hs6''
            dsimp -zeta only [jp2] at e12
            rw [getS_bind] at e12
            cases hcaget : s6.openElems[below.length - 1]? with
            | none =>
              rw [hcaget] at e12; dsimp -zeta only at e12
              obtain ⟨_, _, h1, _⟩ := bind_ok.mp e12
              exact absurd h1 panicAt_ok
            | some c =>
              rw [hcaget] at e12; dsimp -zeta only at e12
              obtain ⟨c', s6'', e13, e14⟩ := bind_ok.mp e12
              obtain ⟨rfl, rfl⟩ := pure_ok.mp e13
              dsimp -zeta only [jp3] at e14
              have hcc : c = ca := by
                have h1 : s6.openElems[below.length - 1]? = below[below.length - 1]? := by
                  rw [hst6, List.getElem?_append_left (by omega)]
                rw [h1, ← List.getLast?_eq_getElem?, hca] at hcaget
                cases hcaget; rfl
              subst hcc
              have hcbl : c ∈ below := List.mem_of_mem_getLast? hca
              obtain ⟨res, s7, e15, e16⟩ := bind_ok.mp e14
              obtain ⟨ln, bk⟩ := res
              have hnd6 := hf6.big.nodup
              rw [hf6.st] at hnd6
              have hfbl : fb ∉ below ++ [x] := fun hm => (List.nodup_append.mp hnd6).2.2 fb hm fb hfbab rfl
              have hfbO : s6.openElems[fbi]? = some fb := by
                have h1 : s6.openElems = (below ++ x :: pre3) ++ fb :: post2 := by rw [hst6, habv]; simp
                have h2 : (below ++ x :: pre3).length = fbi := by rw [hfbi]; simp
                rw [h1, ← h2]; exact getElem?_split_self _ _ _
              have hpost := aaInner_big (low0 := below) fbi 0 fb (.replace x) s6 s7 (ln, bk) above hf6 hlt
                (hf6.big.fl (by rw [hf6.st]; exact List.mem_append_right _ hfbab) (hf6.dis fb hfbab)) hfbl
                (hf6.dis fb hfbab) hfbO e15
              obtain ⟨high', hf7⟩ := hpost.fr
              dsimp -zeta only at e16
              obtain ⟨u8, s8, e17, e18⟩ := bind_ok.mp e16
              obtain ⟨a8, hpar8, _, _, _, _⟩ := removeFromParent_adj hf7.big.adj
                (Or.inr ⟨hpost.lnO, exm_of_keepName_false hpost.dis⟩) e17
              have t8 := removeFromParent_stp hf7.big hpost.fl e17 a8
              have hf8 := hf7.stp t8
              obtain ⟨u9, s9, e19, e20⟩ := bind_ok.mp e18
              have hc8 : c ∈ below ++ [x] := List.mem_append_left _ hcbl
              have hlnk8 : keepName (nm s8.dom ln) = false := by rw [nm_chg t8.chg hpost.fl.1]; exact hpost.dis
              have hlnh : ln ∈ high' := by
                have := hpost.lnO
                rw [hf7.st] at this
                rcases List.mem_append.mp this with h | h
                · exact absurd h hpost.nl
                · exact h
              have t9 := insertAppropriately_stp hf8.big
                ⟨by rw [hf8.st]; exact List.mem_append_left _ hc8, hcar⟩ (hpost.fl.stp t8)
                (aa_cand hf8 hc8 hpost.nl (hpost.fl.stp t8).1 hlnk8) hpar8 hlnk8
                (fun y hy hky => by
                  rw [hf8.st] at hy ⊢
                  rcases List.mem_append.mp hy with h | h
                  · exact before_append h hlnh
                  · rw [hf8.dis y h] at hky; cases hky)
                (by rw [hf8.st]; exact before_append hc8 hlnh) e19
              have hf9 := hf8.stp t9
              obtain ⟨new, s10, e21, e22⟩ := bind_ok.mp e20
              obtain ⟨t10, hfresh, hnm10, hfl10, hnol10, hpar10, hkids10, htc10⟩ := createElement_stp hf9.big e21
              have hf10 := hf9.stp t10
              extract_lets jp4 at e22
              -- facts about the furthest block and the new element
              have hfbe6 : s6.dom.isElement fb = true := (hf6.loose (by simp) hfbab).1
              have hfbr : fb ≠ r := by
                rintro rfl
                have := hf6.dis fb hfbab
                rw [hf6.big.root_name, keepName_html] at this; cases this
              have hchg69 : Chg s6.dom s9.dom := (hpost.chg.trans t8.chg).trans t9.chg
              have hfbe9 : s9.dom.isElement fb = true := hchg69.isElement hfbe6
              have hnewr : new ≠ r := fresh_ne (hf9.big.late.st.oe r hf9.big.root_mem) hfresh
              have hnewfb : new ≠ fb := fresh_ne hfbe9 hfresh
              have hold9 : ∀ y ∈ s9.openElems, new ≠ y := fun y hy => fresh_ne (hf9.big.late.st.oe y hy) hfresh
              obtain ⟨u11, s11, e23, e24⟩ := bind_ok.mp e22
              have hnew10 : new ∉ s10.openElems := by rw [t10.oe]; exact fun hm => hold9 new hm rfl
              obtain ⟨a11, hch11new, hch11fb, _, hpo11, _⟩ := reparent_adj hf10.big.adj hf10.big.late.base hkids10
                hnew10 hfl10.1 e23
              have t11 := reparent_stp hf10.big (t10.chg.isElement hfbe9) hfl10.1 hfbr hnewr e23 a11
              have hf11 := hf10.stp t11
              obtain ⟨u12, s12, e25, e26⟩ := bind_ok.mp e24
              have hnk11 : keepName (nm s11.dom new) = false := by
                rw [nm_chg t11.chg hfl10.1, hnm10]; exact keepName_fmt hfn
              obtain ⟨a12, hch12, hpo12, _⟩ := appendNode_adj hf11.big.adj hf11.big.late.base (Ne.symm hnewfb)
                (t11.chg.isElement (t10.chg.isElement hfbe9))
                (by rw [hpo11 new (hnol10 fb)]; exact hpar10)
                (isText_false_of_isElement (hfl10.stp t11).1) (not_table_of_keepName_false hnk11)
                (fun hO _ => absurd (by rw [← t11.oe]; exact hO) hnew10) e25
              have t12 := appendNode_stp hf11.big (t11.chg.isElement (t10.chg.isElement hfbe9)) hfbr (Ne.symm hnewfb)
                (hfl10.stp t11) e25 a12
              have hf12 := hf11.stp t12
              -- the new element is the only child of the furthest block and has taken over its children
              have hfbk12 : s12.dom.childrenOf fb = [new] := by rw [hch12, hch11fb]; simp
              have hnp12 : s12.dom.parentOf new = some fb := by rw [hpo12]; simp
              have hnk12' : s12.dom.childrenOf new = s10.dom.childrenOf fb := by
                rw [hch12, if_neg hnewfb, hch11new]
              have hfl12 : Fl r s12.dom new := (hfl10.stp t11).stp t12
              have hnm12 : nm s12.dom new = ⟨nsHtml, ftag.name⟩ := by
                rw [nm_chg t12.chg (hfl10.stp t11).1, nm_chg t11.chg hfl10.1]; exact hnm10
              have hoe12 : s12.openElems = s9.openElems := by rw [t12.oe, t11.oe, t10.oe]
              have hmode12 : s12.mode = s.mode := by
                rw [t12.mode, t11.mode, t10.mode, t9.mode, t8.mode, hpost.mode]; exact q06.mode
              have horig12 : s12.origMode = s.origMode := by
                rw [t12.orig, t11.orig, t10.orig, t9.orig, t8.orig, hpost.orig, q06.rest]
              have hchg012 : Chg s.dom s12.dom :=
                (((SameSk.of_nodes q06.nodes).chg.trans hchg69).trans t10.chg).trans (t11.chg.trans t12.chg)
              have hxk12 : keepName (nm s12.dom x) = false := by rw [nm_chg hchg012 hfel]; exact hfk
              have hxl : x ∉ below := by
                intro hm
                have h1 := (List.nodup_append.mp hnd6).1
                exact (List.nodup_append.mp h1).2.2 x hm x (by simp) rfl
              -- the end of the iteration, from any state that differs from s12 in the formatting list only
              have fin : ∀ sa : State, AAF m r ph sa (below ++ [x]) high' → sa.dom.nodes = s12.dom.nodes →
                  sa.openElems = s12.openElems → sa.mode = s12.mode → sa.origMode = s12.origMode →
                  jp4 () sa = .ok (b, s') → Big m r ph s' ∧ s'.mode = s.mode ∧ s'.origMode = s.origMode := by
                intro sa hfa hna hoea hma hoa ea
                dsimp -zeta only [jp4] at ea
                obtain ⟨u13, s13, e27, e28⟩ := bind_ok.mp ea
                have hfa' : AAF m r ph sa below (x :: high') :=
                  ⟨hfa.big, by rw [hfa.st]; simp, fun y hy => by
                    simp only [List.mem_cons] at hy
                    rcases hy with rfl | hy
                    · rw [nm_of_nodes hna]; exact hxk12
                    · exact hfa.dis y hy⟩
                obtain ⟨⟨high2, hf13⟩, hm13, ho13, hse13, hsub13⟩ :=
                  hfa'.removeFromStack hxl (by rw [nm_of_nodes hna]; exact hxk12) e27
                rw [getS_bind] at e28
                obtain ⟨pr, s14, e29, e30⟩ := bind_ok.mp e28
                obtain ⟨q14, hpr⟩ := positionSameNode_sem fb _ _ _ _ _ e29
                have hf14 := hf13.qs q14
                cases pr with
                | none => exact absurd e30 panicAt_ok
                | some nfbi =>
                  dsimp only at e30
                  obtain ⟨pre4, post4, hl4, hnf, _⟩ := hpr nfbi rfl
                  obtain ⟨u15, s15, e31, e32⟩ := bind_ok.mp e30
                  obtain ⟨rfl, rfl⟩ := pure_ok.mp e32
                  have hs15 := modS_ok.mp e31
                  -- the furthest block is in the upper part
                  have hfbl' : fb ∉ below := fun hm => hfbl (List.mem_append_left _ hm)
                  have hst14 : s14.openElems = pre4 ++ fb :: post4 := by rw [q14.openElems]; exact hl4
                  obtain ⟨c4, hpre4, hhigh2⟩ : ∃ c4, pre4 = below ++ c4 ∧ high2 = c4 ++ fb :: post4 := by
                    have h1 := hf14.st
                    rw [hst14] at h1
                    rcases List.append_eq_append_iff.mp h1 with ⟨c, hc1, hc2⟩ | ⟨c, hc1, hc2⟩
                    · cases c with
                      | nil => exact ⟨[], by simpa using hc1.symm, by simpa using hc2.symm⟩
                      | cons a t =>
                        simp only [List.cons_append, List.cons.injEq] at hc2
                        exact absurd (by rw [hc1, hc2.1]; simp) hfbl'
                    · exact ⟨c, hc1, hc2⟩
                  have hnf' : nfbi = pre4.length := by rw [hnf]; simp
                  have hins : s14.openElems.insertIdx (nfbi + 1) new = below ++ (c4 ++ fb :: new :: post4) := by
                    rw [hst14, hnf', insertIdx_after, hpre4]; simp
                  have hn14 : s14.dom.nodes = s12.dom.nodes := by rw [q14.nodes, hse13.nodes, hna]
                  have hnew14 : new ∉ s14.openElems := by
                    rw [q14.openElems]
                    intro hm
                    have := hsub13.subset hm
                    rw [hoea, hoe12] at this
                    exact hold9 new this rfl
                  have hb15 : Big m r ph s15 := by
                    have := (hf14.edit (high' := c4 ++ fb :: new :: post4) (af' := s14.activeFormatting)
                      (fun y hy => by
                        have hy' : y ∈ high2 ∨ y = new := by
                          rw [hhigh2]
                          simp only [List.mem_append, List.mem_cons] at hy ⊢
                          rcases hy with h | h | h | h
                          · exact Or.inl (Or.inl h)
                          · exact Or.inl (Or.inr (Or.inl h))
                          · exact Or.inr h
                          · exact Or.inl (Or.inr (Or.inr h))
                        rcases hy' with h | rfl
                        · exact ⟨hf14.dis y h, hf14.loose (by intro h0; rw [h0] at hlen2; simp at hlen2) h⟩
                        · exact ⟨by rw [nm_of_nodes hn14, hnm12]; exact keepName_fmt hfn,
                            (hfl12.of_nodes hn14).loose⟩)
                      (by
                        have hnd := hf14.big.nodup
                        rw [hf14.st, hhigh2] at hnd
                        have h1 : below ++ (c4 ++ fb :: new :: post4) = (below ++ c4 ++ [fb]) ++ new :: post4 := by simp
                        rw [h1]
                        refine nodup_insert_mid (by simpa using hnd) ?_
                        intro hm
                        apply hnew14
                        rw [hf14.st, hhigh2]
                        simpa using hm)
                      hf14.big.afok
                      (by
                        have hO14 : s14.openElems = ((below ++ c4) ++ [fb]) ++ post4 := by
                          rw [hf14.st, hhigh2]; simp
                        have hsub14 : s14.openElems.Sublist s10.openElems := by
                          rw [q14.openElems]
                          refine hsub13.trans ?_
                          rw [hoea, hoe12, ← t10.oe]; exact List.Sublist.refl _
                        have hfb10 : fb ∈ s10.openElems := hsub14.subset (by rw [hO14]; simp)
                        have h3 : below ++ (c4 ++ fb :: new :: post4) = ((below ++ c4) ++ [fb]) ++ new :: post4 := by simp
                        rw [h3]
                        refine AdjD.insertChildAbove (by rw [← hO14]; exact hf14.big.adj)
                          (by rw [← hO14]; exact hf14.big.nodup) hf14.big.late.base
                          (by rw [isElement_of_nodes hn14]; exact (t12.chg.isElement (t11.chg.isElement (t10.chg.isElement hfbe9))))
                          hnewfb (by rw [parentOf_of_nodes hn14]; exact hnp12)
                          (by rw [childrenOf_of_nodes hn14]; exact hfbk12)
                          (by rw [nm_of_nodes hn14, hnm12]; exact keepName_fmt hfn) ?_
                        intro e he heO
                        rw [childrenOf_of_nodes hn14, hnk12'] at he
                        rw [← hO14] at heO ⊢
                        exact (hf10.big.adj.pb fb e he (hsub14.subset heO) hfb10).sub hf10.big.nodup hsub14
                          (by rw [hO14]; simp) heO)).big
                    rw [hs15, hins]; exact this
                  have hm15 : s15.mode = s14.mode := by rw [hs15]
                  have ho15 : s15.origMode = s14.origMode := by rw [hs15]
                  exact ⟨hb15, by rw [hm15, q14.mode, hm13, hma]; exact hmode12,
                    by rw [ho15, q14.rest]; show s13.origMode = _; rw [ho13, hoa]; exact horig12⟩
              have hform : ∀ {st : State}, Big m r ph st →
                  ∀ f, st.formElem = some f → nm st.dom f = hN "form" ∧ st.dom.isElement f = true := by
                intro st hst; obtain ⟨_, hc, _⟩ := hst; exact hc.form
              cases bk with
              | replace toRep =>
                dsimp -zeta only at e26
                obtain ⟨pi, s13, e27, e28⟩ := bind_ok.mp e26
                have q13 : QS s12 s13 := IsQ.q _ _ _ e27
                have hf13 := hf12.qs q13
                cases pi with
                | none =>
                  dsimp -zeta only at e28
                  obtain ⟨_, _, h1, _⟩ := bind_ok.mp e28
                  exact absurd h1 panicAt_ok
                | some index =>
                  dsimp -zeta only at e28
                  obtain ⟨u14, s14, e29, e30⟩ := bind_ok.mp e28
                  have hs14 := modS_ok.mp e29
                  have hb14 : Big m r ph s14 := by
                    rw [hs14]
                    exact hf13.big.upd rfl rfl rfl rfl rfl rfl rfl rfl rfl
                      (hf13.big.afok.set index hfn (by rw [q13.nm]; exact hnm12) (hfl12.of_nodes q13.nodes).1)
                      (hform (st := s13) hf13.big) (fun h => h)
                  exact fin s14 ⟨hb14, by rw [hs14]; exact hf13.st, by rw [hs14]; exact hf13.dis⟩
                    (by rw [hs14]; exact q13.nodes) (by rw [hs14]; exact q13.openElems) (by rw [hs14]; exact q13.mode)
                    (by rw [hs14]; show s13.origMode = _; rw [q13.rest]) e30
              | insertAfter prev =>
                dsimp -zeta only at e26
                obtain ⟨pi, s13, e27, e28⟩ := bind_ok.mp e26
                have q13 : QS s12 s13 := IsQ.q _ _ _ e27
                have hf13 := hf12.qs q13
                cases pi with
                | none =>
                  dsimp -zeta only at e28
                  obtain ⟨_, _, h1, _⟩ := bind_ok.mp e28
                  exact absurd h1 panicAt_ok
                | some index =>
                  dsimp -zeta only at e28
                  obtain ⟨u14, s14, e29, e30⟩ := bind_ok.mp e28
                  have hs14 := modS_ok.mp e29
                  have hb14 : Big m r ph s14 := by
                    rw [hs14]
                    exact hf13.big.upd rfl rfl rfl rfl rfl rfl rfl rfl rfl
                      (hf13.big.afok.insertIdx (index + 1) hfn (by rw [q13.nm]; exact hnm12) (hfl12.of_nodes q13.nodes).1)
                      (hform (st := s13) hf13.big) (fun h => h)
                  have hf14 : AAF m r ph s14 (below ++ [x]) high' :=
                    ⟨hb14, by rw [hs14]; exact hf13.st, by rw [hs14]; exact hf13.dis⟩
                  obtain ⟨po, s15, e31, e32⟩ := bind_ok.mp e30
                  have q15 : QS s14 s15 := IsQ.q _ _ _ e31
                  have hf15 := hf14.qs q15
                  have hn15 : s15.dom.nodes = s12.dom.nodes := by
                    rw [q15.nodes, hs14]; exact q13.nodes
                  have hoe15 : s15.openElems = s12.openElems := by
                    rw [q15.openElems, hs14]; exact q13.openElems
                  have hm15 : s15.mode = s12.mode := by rw [q15.mode, hs14]; exact q13.mode
                  have ho15 : s15.origMode = s12.origMode := by
                    rw [q15.rest, hs14]; show s13.origMode = _; rw [q13.rest]
                  cases po with
                  | none =>
                    dsimp -zeta only at e32
                    obtain ⟨_, _, h1, _⟩ := bind_ok.mp e32
                    exact absurd h1 panicAt_ok
                  | some oldIndex =>
                    dsimp -zeta only at e32
                    obtain ⟨u16, s16, e33, e34⟩ := bind_ok.mp e32
                    obtain ⟨hf16, hm16, ho16, hd16⟩ := hf15.afRm e33
                    have hs16 := afRemove_sem e33
                    exact fin s16 hf16 (by rw [hd16]; exact hn15) (by rw [hs16]; exact hoe15) (hm16.trans hm15)
                      (ho16.trans ho15) e34

theorem aaOuter_big {m : Mode} {r : Id} {ph : Phase} {subject : Str} (hk : keepName ⟨nsHtml, subject⟩ = false) :
    ∀ (n : Nat) (s s' : State) (u : Unit), Big m r ph s → aaOuter subject n s = .ok (u, s') →
      Big m r ph s' ∧ s'.mode = s.mode ∧ s'.origMode = s.origMode
  | 0, s, s', u, hb, e => by
    unfold aaOuter at e
    obtain ⟨_, rfl⟩ := pure_ok.mp e
    exact ⟨hb, rfl, rfl⟩
  | n + 1, s, s', u, hb, e => by
    unfold aaOuter at e
    obtain ⟨b, s1, e1, e2⟩ := bind_ok.mp e
    obtain ⟨hb1, hm1, ho1⟩ := aaOuterStep_big hk hb e1
    rcases ite_run e2 with ⟨_, e2⟩ | ⟨_, e2⟩
    · obtain ⟨_, rfl⟩ := pure_ok.mp e2
      exact ⟨hb1, hm1, ho1⟩
    · obtain ⟨hb2, hm2, ho2⟩ := aaOuter_big hk n s1 s' u hb1 e2
      exact ⟨hb2, hm2.trans hm1, ho2.trans ho1⟩

/-- the adoption agency for a formatting tag name -/
instance (subject : Str) [hk : PlainStr subject] : PB (adoptionAgency subject) :=
  ⟨fun m r ph s a s' hb e => by
    unfold adoptionAgency at e
    obtain ⟨b0, s1, e1, e2⟩ := bind_ok.mp e
    obtain ⟨q1, h, hl, hb0⟩ := currentNodeNamedS_sem e1
    have tail : ∀ (sc : Bool) (s2 : State), QS s s2 → (sc = true → b0 = true) →
        (if sc = true then pop >>= fun _ => pure () else aaOuter subject 8) s2 = .ok (a, s') →
        Big m r ph s' ∧ s'.mode = s.mode ∧ s'.origMode = s.origMode := by
      intro sc s2 q2 hsc e3
      have hb2 := hb.qs q2
      rcases ite_run e3 with ⟨hst, e3⟩ | ⟨_, e3⟩
      · have hbt := hsc hst
        have hn : nm s.dom h = ⟨nsHtml, subject⟩ := by
          rw [hb0] at hbt
          simp only [Bool.and_eq_true, beq_iff_eq] at hbt
          have : nm s.dom h = ⟨(nm s.dom h).ns, (nm s.dom h).loc⟩ := rfl
          rw [this, hbt.1, hbt.2]
        obtain ⟨x, s3, e4, e5⟩ := bind_ok.mp e3
        obtain ⟨_, rfl⟩ := pure_ok.mp e5
        have hp := pop_sem e4
        have hl2 : s2.openElems.getLast? = some h := by rw [q2.openElems]; exact hl
        have hxh : x = h := by
          rw [hp.stack, List.getLast?_append] at hl2
          simpa using hl2
        have hb3 : Big m r ph s3 := hb2.pop hp (fun y hy => by
          simp only [List.mem_singleton] at hy
          subst hy
          rw [hxh, q2.nm, hn]; exact hk.h)
        exact ⟨hb3, by rw [hp.rest]; exact q2.mode, by rw [hp.rest, q2.rest]⟩
      · obtain ⟨h1, h2, h3⟩ := aaOuter_big hk.h 8 s2 s' a hb2 e3
        exact ⟨h1, h2.trans q2.mode, h3.trans (by rw [q2.rest])⟩
    rcases ite_run e2 with ⟨hbt, e2⟩ | ⟨hbf, e2⟩
    · obtain ⟨cur, s2, e5, e6⟩ := bind_ok.mp e2
      obtain ⟨rfl, _⟩ := currentNode_sem e5
      obtain ⟨po, s3, e7, e8⟩ := bind_ok.mp e6
      have q3 : QS s2 s3 := IsQ.q _ _ _ e7
      obtain ⟨sc, s4, e9, e10⟩ := bind_ok.mp e8
      obtain ⟨rfl, rfl⟩ := pure_ok.mp e9
      exact tail _ _ (q1.trans q3) (fun _ => hbt) e10
    · obtain ⟨sc, s2, e9, e10⟩ := bind_ok.mp e2
      obtain ⟨rfl, rfl⟩ := pure_ok.mp e9
      exact tail false _ q1 (by intro h; cases h) e10⟩


instance : PlainStr "a".toList := ⟨by decide⟩
instance : PlainStr "nobr".toList := ⟨by decide⟩

theorem findAInAF_sem : ∀ (l : List (Nat × Id × Tag)) (s s' : State) (res : Option Id),
    findAInAF l s = .ok (res, s') → QS s s' ∧ ∀ n, res = some n → nm s.dom n = hN "a" ∧ s.dom.isElement n = true
  | [], s, s', res, e => by
    unfold findAInAF at e
    obtain ⟨rfl, rfl⟩ := pure_ok.mp e
    exact ⟨QS.refl _, fun n h => by cases h⟩
  | (_, n, _) :: rest, s, s', res, e => by
    unfold findAInAF at e
    obtain ⟨b, s1, e1, e2⟩ := bind_ok.mp e
    obtain ⟨q1, hb, hel⟩ := htmlElemNamed_sem e1
    rcases ite_run e2 with ⟨hbt, e2⟩ | ⟨_, e2⟩
    · obtain ⟨rfl, rfl⟩ := pure_ok.mp e2
      refine ⟨q1, fun n' h => ?_⟩
      cases h
      rw [hb] at hbt
      simp only [Bool.and_eq_true, beq_iff_eq] at hbt
      have : nm s.dom n = ⟨(nm s.dom n).ns, (nm s.dom n).loc⟩ := rfl
      exact ⟨by rw [this, hbt.1, hbt.2]; rfl, hel⟩
    · obtain ⟨q2, h2⟩ := findAInAF_sem rest s1 s' res e2
      exact ⟨q1.trans q2, fun n' h => by
        obtain ⟨h3, h4⟩ := h2 n' h
        exact ⟨by rw [← q1.nm]; exact h3, by rw [← isElement_of_nodes q1.nodes]; exact h4⟩⟩

instance : PB handleMisnestedATags :=
  ⟨fun m r ph s a s' hb e => by
    unfold handleMisnestedATags at e
    rw [getS_bind] at e
    obtain ⟨res, s1, e1, e2⟩ := bind_ok.mp e
    obtain ⟨q1, hres⟩ := findAInAF_sem _ _ _ _ e1
    have hb1 := hb.qs q1
    cases res with
    | none =>
      obtain ⟨_, rfl⟩ := pure_ok.mp e2
      exact ⟨hb1, q1.mode, by rw [q1.rest]⟩
    | some node =>
      dsimp only at e2
      obtain ⟨hn, hel⟩ := hres node rfl
      obtain ⟨u2, s2, e3, e4⟩ := bind_ok.mp e2
      have q2 : QS s1 s2 := IsQ.q _ _ _ e3
      have hb2 := hb1.qs q2
      obtain ⟨u3, s3, e5, e6⟩ := bind_ok.mp e4
      obtain ⟨hb3, hm3, ho3⟩ := (inferInstance : PB (adoptionAgency "a".toList)).p m r ph s2 u3 s3 hb2 e5
      obtain ⟨_, hext3⟩ := (inferInstance : Pres (adoptionAgency "a".toList)).p s2 u3 s3 hb2.late e5
      have q02 := q1.trans q2
      have hel2 : s2.dom.isElement node = true := by rw [isElement_of_nodes q02.nodes]; exact hel
      have hn3 : nm s3.dom node = hN "a" := by rw [nm_chg hext3.chg hel2, q02.nm]; exact hn
      obtain ⟨po, s4, e7, e8⟩ := bind_ok.mp e6
      have q4 : QS s3 s4 := IsQ.q _ _ _ e7
      have hb4 := hb3.qs q4
      have hn4 : nm s4.dom node = hN "a" := by rw [q4.nm]; exact hn3
      cases po with
      | none =>
        dsimp only at e8
        obtain ⟨hb5, hm5, ho5⟩ := removeFromStack_big hb4 (by rw [hn4]; decide) e8
        exact ⟨hb5, by rw [hm5, q4.mode, hm3, q02.mode], by rw [ho5, q4.rest]; show s3.origMode = _; rw [ho3, q02.rest]⟩
      | some idx =>
        dsimp only at e8
        obtain ⟨u5, s5, e9, e10⟩ := bind_ok.mp e8
        obtain ⟨hb5, hm5, ho5⟩ := (inferInstance : PB (afRemove idx "mod.rs:1602")).p m r ph s4 u5 s5 hb4 e9
        have hs := afRemove_sem e9
        have hn5 : nm s5.dom node = hN "a" := by rw [hs]; exact hn4
        obtain ⟨hb6, hm6, ho6⟩ := removeFromStack_big hb5 (by rw [hn5]; decide) e10
        exact ⟨hb6, by rw [hm6, hm5, q4.mode, hm3, q02.mode],
          by rw [ho6, ho5, q4.rest]; show s3.origMode = _; rw [ho3, q02.rest]⟩⟩

end H5V.Props.C06
