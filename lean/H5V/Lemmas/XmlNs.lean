import H5V.Model.XmlTB
import H5V.Spec.XmlNs
import H5V.Lemmas.XmlTB
/-! Lemmas relating `process_namespaces` of the model to the lexical-scope Spec. -/
namespace H5V.Lemmas.XmlNs
open H5V.Model.XmlTB H5V.Spec.XmlNs H5V.Lemmas.XmlTB

/-- a model map and a Spec frame bind the same prefixes to the same things -/
def MapAgree (m : NsMap) (f : NsFrame) : Prop := ∀ p, m.lookup p = f.lookup p

/-- a frame never binds the reserved prefixes -/
def Clean (f : NsFrame) : Prop := f.lookup (some sXml) = none ∧ f.lookup (some sXmlns) = none

/-- attributes with local name `xmlns` are unprefixed or `xmlns:xmlns` (excludes `p:xmlns`) -/
def NoPrefixedXmlns (attrs : List RAttr) : Prop :=
  ∀ a ∈ attrs, a.name.loc = sXmlns → a.name.pfx = none ∨ a.name.pfx = some sXmlns

/-- no prefix is (effectively) declared twice in the tag -/
def NoDupDecl (attrs : List RAttr) : Prop := ((frameOf attrs).map Prod.fst).Nodup

theorem isDeclLike_eq (cfg : TbCfg) (a : RAttr)
    (h : cfg.declNeedsNoPrefix = true ∨ (a.name.loc = sXmlns → a.name.pfx = none ∨ a.name.pfx = some sXmlns)) :
    isDeclLike cfg a = isDecl a.name := by
  unfold isDeclLike isDecl
  by_cases h1 : a.name.pfx = some sXmlns
  · simp [h1]
  · by_cases h2 : a.name.loc = sXmlns
    · rcases h with h | h
      · simp [h, h2, Bool.and_comm]
      · rcases h h2 with h3 | h3
        · simp [h2, h3]
        · exact absurd h3 h1
    · have e2 : (a.name.loc == sXmlns) = false := by simpa using h2
      simp [e2]

theorem frameOf_clean (attrs : List RAttr) : Clean (frameOf attrs) := by
  induction attrs with
  | nil => exact ⟨rfl, rfl⟩
  | cons a rest ih =>
    unfold frameOf at ih ⊢
    simp only [List.filterMap_cons]
    match hd : declOf a with
    | none => exact ih
    | some (k, u) =>
      simp only []
      have hk : k ≠ some sXml ∧ k ≠ some sXmlns := by
        unfold declOf at hd
        split at hd
        · simp at hd
        · split at hd
          · simp at hd
          · split at hd
            · split at hd
              · simp at hd
              · rename_i hne
                simp at hd
                obtain ⟨rfl, _⟩ := hd
                simp at hne ⊢
                exact hne
            · simp at hd
              obtain ⟨rfl, _⟩ := hd
              simp
      refine ⟨?_, ?_⟩
      · rw [List.lookup_cons]
        have : (some sXml == k) = false := beq_false_of_ne (fun h => hk.1 h.symm)
        simp only [this]; exact ih.1
      · rw [List.lookup_cons]
        have : (some sXmlns == k) = false := beq_false_of_ne (fun h => hk.2 h.symm)
        simp only [this]; exact ih.2

/-- `insert_ns` on a genuine declaration attribute -/
theorem insertNs_decl (m : NsMap) (a : RAttr) (hd : isDecl a.name = true) :
    match declOf a with
    | some (k, u) => insertNs m a =
        insertKey m k u
    | none => insertNs m a = .ok m ∨ ∃ e, insertNs m a = .error e := by
  unfold declOf insertNs
  simp only [hd, Bool.not_true, Bool.false_eq_true, ↓reduceIte]
  by_cases h0 : a.value = XMLNS_URI
  · simp [h0]
  · simp only [h0, ↓reduceIte]
    by_cases h1 : a.name.pfx = some sXmlns
    · simp only [h1, true_and, ↓reduceIte]
      by_cases h2 : a.name.loc = sXml
      · simp only [h2, true_or, ↓reduceIte]
        split <;> simp
      · simp only [h2, false_or, ↓reduceIte]
        by_cases h3 : a.name.loc = sXmlns
        · simp [h3]
        · simp [h3]
    · have h4 : a.name.pfx = none ∧ a.name.loc = sXmlns := by
        unfold isDecl at hd
        simp [h1] at hd
        exact hd
      have : sXmlns ≠ sXml := by decide
      simp [h4.1, h4.2, this]

theorem declareAll_lookup (l : List RAttr) (m : NsMap) (errs : List Err)
    (hd : ∀ a ∈ l, isDecl a.name = true)
    (hnd : ((frameOf l).map Prod.fst).Nodup)
    (hdis : ∀ k ∈ (frameOf l).map Prod.fst, m.lookup k = none) :
    ∀ p, (declareAll m errs l).1.lookup p =
      match (frameOf l).lookup p with
      | some u => some u
      | none => m.lookup p := by
  induction l generalizing m errs with
  | nil => intro p; simp [declareAll, frameOf]
  | cons a rest ih =>
    intro p
    have hda := hd a (by simp)
    have hrest : ∀ a ∈ rest, isDecl a.name = true := fun b hb => hd b (by simp [hb])
    have hins := insertNs_decl m a hda
    unfold frameOf at hnd hdis ih ⊢
    simp only [List.filterMap_cons] at hnd hdis ⊢
    match hdo : declOf a with
    | none =>
      simp only [hdo] at hins hnd hdis ⊢
      unfold declareAll
      rcases hins with hins | ⟨e, hins⟩
      · simp only [hins]; exact ih m errs hrest hnd hdis p
      · simp only [hins]; exact ih m (e :: errs) hrest hnd hdis p
    | some (k, u) =>
      simp only [hdo] at hins hnd hdis ⊢
      have hmk : m.lookup k = none := hdis k (by simp)
      simp only [insertKey, NsMap.get, hmk, Option.isSome_none, Bool.false_eq_true, and_false, ↓reduceIte,
        NsMap.insert] at hins
      unfold declareAll
      simp only [hins]
      simp only [List.map_cons, List.nodup_cons] at hnd
      have hdis' : ∀ k' ∈ (List.filterMap declOf rest).map Prod.fst, ((k, u) :: m).lookup k' = none := by
        intro k' hk'
        rw [List.lookup_cons]
        have hne : k' ≠ k := by intro h; subst h; exact hnd.1 hk'
        have : (k' == k) = false := by simpa using hne
        simp only [this]
        exact hdis k' (by simp at hk' ⊢; right; exact hk')
      rw [ih ((k, u) :: m) errs hrest hnd.2 hdis' p]
      by_cases hpk : p = k
      · subst hpk
        have hnone : (List.filterMap declOf rest).lookup p = none := by
          rw [List.lookup_eq_none_iff]
          intro x hx
          simp only [bne_iff_ne, ne_eq]
          intro heq
          exact hnd.1 (List.mem_map.mpr ⟨x, hx, heq.symm⟩)
        simp [hnone, List.lookup_cons]
      · have : (p == k) = false := by simpa using hpk
        simp only [List.lookup_cons, this]

/-- the model's stack mirrors the Spec's environment, with the default map at the bottom -/
def StackAgree : List NsMap → List NsFrame → Prop
  | [m], [] => m = defaultMap
  | m :: ms, f :: fs => MapAgree m f ∧ StackAgree ms fs
  | _, _ => False

theorem StackAgree.length {stack : List NsMap} {frames : List NsFrame} (h : StackAgree stack frames) :
    stack.length = frames.length + 1 := by
  induction frames generalizing stack with
  | nil =>
    match stack with
    | [] => simp [StackAgree] at h
    | [m] => rfl
    | _ :: _ :: _ => simp [StackAgree] at h
  | cons f fs ih =>
    match stack with
    | [] => simp [StackAgree] at h
    | m :: ms =>
      match ms, h with
      | [], h => simp [StackAgree] at h
      | m' :: ms', h =>
        simp [StackAgree] at h
        simp [ih h.2]

theorem stackAgree_cons {m : NsMap} {ms : List NsMap} {f : NsFrame} {fs : List NsFrame} :
    StackAgree (m :: ms) (f :: fs) ↔ MapAgree m f ∧ StackAgree ms fs := by
  match ms with
  | [] => simp [StackAgree]
  | _ :: _ => simp [StackAgree]

theorem StackAgree.drop {stack : List NsMap} {frames : List NsFrame} (h : StackAgree stack frames)
    (k : Nat) (hk : k ≤ frames.length) : StackAgree (stack.drop k) (frames.drop k) := by
  induction k generalizing stack frames with
  | zero => simpa using h
  | succ n ih =>
    match frames, stack with
    | [], _ => simp at hk
    | f :: fs, [] => simp [StackAgree] at h
    | f :: fs, m :: ms =>
      rw [stackAgree_cons] at h
      simp only [List.drop_succ_cons]
      exact ih h.2 (by simpa using hk)

theorem findSome_stack {stack : List NsMap} {frames : List NsFrame} (h : StackAgree stack frames)
    (p : Option Str) :
    stack.findSome? (fun m => m.lookup p) =
      (frames.findSome? (fun f => f.lookup p)).or (defaultMap.lookup p) := by
  induction frames generalizing stack with
  | nil =>
    match stack with
    | [] => simp [StackAgree] at h
    | [m] =>
      simp [StackAgree] at h; subst h
      simp [List.findSome?]
      cases defaultMap.lookup p <;> rfl
    | _ :: _ :: _ => simp [StackAgree] at h
  | cons f fs ih =>
    match stack with
    | [] => simp [StackAgree] at h
    | m :: ms =>
      rw [stackAgree_cons] at h
      simp only [List.findSome?_cons]
      rw [h.1 p]
      cases f.lookup p with
      | some v => simp
      | none => simp [ih h.2]

theorem findSome_clean {frames : List NsFrame} (hc : ∀ f ∈ frames, Clean f) :
    frames.findSome? (fun f => f.lookup (some sXml)) = none ∧
    frames.findSome? (fun f => f.lookup (some sXmlns)) = none := by
  induction frames with
  | nil => simp
  | cons f fs ih =>
    have h1 := hc f (by simp)
    have h2 := ih (fun g hg => hc g (by simp [hg]))
    simp [List.findSome?_cons, h1.1, h1.2, h2.1, h2.2]

/-- `bind_qname` computes the Spec's resolution -/
theorem bindQName_eq {stack : List NsMap} {frames : List NsFrame} {cur : NsMap} {f0 : NsFrame}
    (hs : StackAgree stack frames) (hc : ∀ f ∈ frames, Clean f) (h0 : MapAgree cur f0) (hc0 : Clean f0)
    (n : RName) : (bindQName stack cur n).1 = resolveElemName (f0 :: frames) n := by
  have hfs : StackAgree (cur :: stack) (f0 :: frames) := by
    match stack, hs with
    | [], hs => cases frames <;> simp [StackAgree] at hs
    | _ :: _, hs => exact ⟨h0, hs⟩
  have hfind := findSome_stack hfs n.pfx
  have hcl := findSome_clean (frames := f0 :: frames)
    (by intro f hf; simp at hf; rcases hf with rfl | hf; exact hc0; exact hc f hf)
  unfold bindQName findUri resolveElemName lookupNs
  simp only [NsMap.get]
  rw [hfind]
  by_cases hx : n.pfx = some sXml
  · simp only [hx, hcl.1, ↓reduceIte]
    have : defaultMap.lookup (some sXml) = some (some XML_URI) := by decide
    simp [this]
  · by_cases hy : n.pfx = some sXmlns
    · have hne : some sXmlns ≠ some sXml := by decide
      simp only [hy, hcl.2, hne, ↓reduceIte]
      have : defaultMap.lookup (some sXmlns) = some (some XMLNS_URI) := by decide
      simp [this]
    · simp only [hx, hy, ↓reduceIte]
      generalize List.findSome? (fun f => List.lookup n.pfx f) (f0 :: frames) = g
      match g with
      | some (some u) => simp
      | some none => simp
      | none =>
        simp only [Option.or_none, Option.none_or]
        match hp : n.pfx with
        | none =>
          have : defaultMap.lookup (none : Option Str) = some none := by decide
          simp [this]
        | some q =>
          have : defaultMap.lookup (some q) = none := by
            rw [hp] at hx hy
            simp only [defaultMap, List.lookup_cons]
            have h1 : (some q == (none : Option Str)) = false := by simp
            have h2 : (some q == some sXml) = false := by simpa using hx
            have h3 : (some q == some sXmlns) = false := by simpa using hy
            simp [h1, h2, h3]
          simp [this]

/-- the attribute loop of `process_namespaces` is the Spec's resolve-then-dedupe -/
theorem bindAttrs_eq (stack : List NsMap) (cur : NsMap) (env : List NsFrame)
    (hb : ∀ n, (bindQName stack cur n).1 = resolveElemName env n)
    (l : List RAttr) (present : List (Str × Str)) :
    (bindAttrs stack cur present l).1 =
      dedupPrefixed present (l.map (fun a => ⟨resolveAttrName env a.name, a.value⟩)) := by
  induction l generalizing present with
  | nil => simp [bindAttrs, dedupPrefixed]
  | cons a rest ih =>
    unfold bindAttrs
    match hp : a.name.pfx with
    | none =>
      have hr : resolveAttrName env a.name = ⟨none, [], a.name.loc⟩ := by
        simp [resolveAttrName, hp]
      simp only [List.map_cons, dedupPrefixed, hr]
      simp [ih present]
    | some q =>
      simp only [List.map_cons]
      have hq : (bindQName stack cur a.name).1 = ⟨some q, lookupNs env (some q), a.name.loc⟩ := by
        rw [hb]; simp [resolveElemName, hp]
      have hr : resolveAttrName env a.name = ⟨some q, lookupNs env (some q), a.name.loc⟩ := by
        simp [resolveAttrName, hp]
      rw [hr]
      simp only [dedupPrefixed, Option.isSome_some, ↓reduceIte]
      generalize hbq : bindQName stack cur a.name = bq at hq
      obtain ⟨q', e⟩ := bq
      simp only at hq
      subst hq
      simp only []
      split
      · simp [ih present]
      · simp [ih]

theorem frameOf_filter (l : List RAttr) :
    frameOf (l.filter (fun a => isDecl a.name)) = frameOf l := by
  induction l with
  | nil => rfl
  | cons a rest ih =>
    unfold frameOf at ih ⊢
    by_cases h : isDecl a.name = true
    · simp only [List.filter_cons, h, ↓reduceIte, List.filterMap_cons, ih]
    · have hn : declOf a = none := by unfold declOf; simp [h]
      simp [h, hn, ih]

/-- the tag is outside the two deviations of `process_namespaces` from the Spec -/
def TagOK (cfg : TbCfg) (t : Tag) : Prop :=
  (cfg.declNeedsNoPrefix = true ∨ NoPrefixedXmlns t.attrs) ∧ NoDupDecl t.attrs

/-- `process_namespaces` computes the Spec's resolution of the tag -/
theorem processNamespaces_eq (cfg : TbCfg) (stack : List NsMap) (scopes : List Scope) (t : Tag)
    (hok : TagOK cfg t) (hs : StackAgree stack (envOf scopes)) (hc : ∀ f ∈ envOf scopes, Clean f) :
    (processNamespaces cfg stack t).name = (resolveTag scopes t).name ∧
    (processNamespaces cfg stack t).attrs = (resolveTag scopes t).attrs ∧
    MapAgree (processNamespaces cfg stack t).map (frameOf t.attrs) := by
  have hfilt : ∀ a ∈ t.attrs, isDeclLike cfg a = isDecl a.name := by
    intro a ha
    apply isDeclLike_eq
    rcases hok.1 with h | h
    · exact Or.inl h
    · exact Or.inr (h a ha)
  have hf1 : t.attrs.filter (isDeclLike cfg) = t.attrs.filter (fun a => isDecl a.name) :=
    List.filter_congr hfilt
  have hf2 : t.attrs.filter (fun a => !isDeclLike cfg a) = t.attrs.filter (fun a => !isDecl a.name) :=
    List.filter_congr (fun a ha => by rw [hfilt a ha])
  unfold processNamespaces
  rw [hf1, hf2]
  generalize hda : declareAll [] [] (t.attrs.filter (fun a => isDecl a.name)) = r
  obtain ⟨cur, derrs⟩ := r
  have hcur : MapAgree cur (frameOf t.attrs) := by
    intro p
    have h := declareAll_lookup (t.attrs.filter (fun a => isDecl a.name)) [] []
      (by intro a ha; simpa using (List.mem_filter.mp ha).2)
      (by rw [frameOf_filter]; exact hok.2)
      (by intro k _; rfl) p
    rw [hda, frameOf_filter] at h
    rw [h]
    cases (frameOf t.attrs).lookup p <;> rfl
  have hb := bindQName_eq hs hc hcur (frameOf_clean t.attrs)
  simp only []
  refine ⟨?_, ?_, hcur⟩
  · rw [hb]; rfl
  · rw [bindAttrs_eq stack cur (frameOf t.attrs :: envOf scopes) hb]
    rfl

/-- an attribute as the code resolves it in (`stack`, `cur`) -/
def codeResolveAttr (stack : List NsMap) (cur : NsMap) (a : RAttr) : Attr :=
  ⟨match a.name.pfx with
    | none => ⟨none, [], a.name.loc⟩
    | some _ => (bindQName stack cur a.name).1, a.value⟩

theorem bindQName_pfx (stack : List NsMap) (cur : NsMap) (n : RName) :
    (bindQName stack cur n).1.pfx = n.pfx ∧ (bindQName stack cur n).1.loc = n.loc := by
  unfold bindQName; split <;> simp

/-- the attribute loop = resolve every attribute, then keep the first of equal expanded names among
the prefixed ones (no hypothesis on the tag) -/
theorem bindAttrs_eq_code (stack : List NsMap) (cur : NsMap) (l : List RAttr) (present : List (Str × Str)) :
    (bindAttrs stack cur present l).1 = dedupPrefixed present (l.map (codeResolveAttr stack cur)) := by
  induction l generalizing present with
  | nil => simp [bindAttrs, dedupPrefixed]
  | cons a rest ih =>
    unfold bindAttrs
    match hp : a.name.pfx with
    | none =>
      have hr : codeResolveAttr stack cur a = ⟨⟨none, [], a.name.loc⟩, a.value⟩ := by
        simp [codeResolveAttr, hp]
      simp only [List.map_cons, dedupPrefixed, hr]
      simp [ih present]
    | some q =>
      have hr : codeResolveAttr stack cur a = ⟨(bindQName stack cur a.name).1, a.value⟩ := by
        simp [codeResolveAttr, hp]
      have hq := (bindQName_pfx stack cur a.name).1
      rw [hp] at hq
      simp only [List.map_cons, hr, dedupPrefixed, hq, Option.isSome_some, ↓reduceIte]
      generalize bindQName stack cur a.name = bq
      obtain ⟨q', e⟩ := bq
      simp only []
      split
      · simp [ih present]
      · simp [ih]

theorem dedup_sublist (seen : List (Str × Str)) (l : List Attr) :
    (dedupPrefixed seen l).Sublist l := by
  induction l generalizing seen with
  | nil => simp [dedupPrefixed]
  | cons a rest ih =>
    unfold dedupPrefixed
    split
    · split
      · exact (ih seen).cons a
      · exact (ih _).cons₂ a
    · exact (ih seen).cons₂ a

theorem dedup_only_if (seen : List (Str × Str)) (l1 : List Attr) (a : Attr) (l2 : List Attr) :
    a ∈ dedupPrefixed seen (l1 ++ a :: l2) ∨
    (a.name.pfx.isSome = true ∧ ((a.name.ns, a.name.loc) ∈ seen ∨
      ∃ b ∈ l1, b.name.pfx.isSome = true ∧ b.name.ns = a.name.ns ∧ b.name.loc = a.name.loc)) := by
  induction l1 generalizing seen with
  | nil =>
    simp only [List.nil_append, dedupPrefixed]
    by_cases hp : a.name.pfx.isSome = true
    · by_cases hc : seen.contains (a.name.ns, a.name.loc) = true
      · right; exact ⟨hp, Or.inl (by simpa using hc)⟩
      · left
        have hc' : (a.name.ns, a.name.loc) ∉ seen := by simpa using hc
        simp [hp, hc']
    · left; simp [hp]
  | cons b l1' ih =>
    simp only [List.cons_append, dedupPrefixed]
    by_cases hp : b.name.pfx.isSome = true
    · by_cases hc : seen.contains (b.name.ns, b.name.loc) = true
      · simp only [hp, hc, ↓reduceIte]
        rcases ih seen with h | ⟨ha, h | ⟨b', hb', h⟩⟩
        · left; exact h
        · right; exact ⟨ha, Or.inl h⟩
        · right; exact ⟨ha, Or.inr ⟨b', by simp [hb'], h⟩⟩
      · simp only [hp, hc, ↓reduceIte]
        rcases ih ((b.name.ns, b.name.loc) :: seen) with h | ⟨ha, h | ⟨b', hb', h⟩⟩
        · left; simp [h]
        · right
          refine ⟨ha, ?_⟩
          simp only [List.mem_cons, Prod.mk.injEq] at h
          rcases h with ⟨h1, h2⟩ | h
          · exact Or.inr ⟨b, by simp, hp, h1.symm, h2.symm⟩
          · exact Or.inl h
        · right; exact ⟨ha, Or.inr ⟨b', by simp [hb'], h⟩⟩
    · simp only [hp, ↓reduceIte]
      rcases ih seen with h | ⟨ha, h | ⟨b', hb', h⟩⟩
      · left; simp [h]
      · right; exact ⟨ha, Or.inl h⟩
      · right; exact ⟨ha, Or.inr ⟨b', by simp [hb'], h⟩⟩

end H5V.Lemmas.XmlNs
