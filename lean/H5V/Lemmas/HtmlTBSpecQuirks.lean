import H5V.Lemmas.HtmlTBSpecQuirksTables
/-!
(a) the DOCTYPE → quirks-mode decision: the model's transcription of `data.rs:
doctype_error_and_quirks` equals `Spec.TreeAlgo.quirksMode` for every doctype token.
-/
namespace H5V.Lemmas.HtmlTBSpec
open H5V.Model.HtmlTB
open H5V.Model.Dom (QuirksMode)
open H5V.Lemmas.HtmlTBTables

theorem containsPfx_any (l : List String) (p : Str) : containsPfx l p = l.any (fun x => x.toList.isPrefixOf p) := rfl

/-- no public identifier starts with both an XHTML 1.0 prefix and an HTML 4.01 prefix -/
theorem limited_html4_disjoint (p : Str) :
    ¬ (containsPfx limitedQuirkyPublicPrefixes p = true ∧ containsPfx html4PublicPrefixes p = true) := by
  rintro ⟨h1, h2⟩
  simp only [containsPfx, List.any_eq_true] at h1 h2
  obtain ⟨a, ha, hap⟩ := h1
  obtain ⟨b, hb, hbp⟩ := h2
  have hap' : a.toList <+: p := List.isPrefixOf_iff_prefix.mp hap
  have hbp' : b.toList <+: p := List.isPrefixOf_iff_prefix.mp hbp
  -- both are prefixes of `p`, so the first 12 characters agree; they do not
  have h12a : a.toList.take 13 = p.take 13 := by
    obtain ⟨t, rfl⟩ := hap'
    have : 13 ≤ a.toList.length := by
      simp only [limitedQuirkyPublicPrefixes, List.mem_cons, List.mem_nil_iff, or_false] at ha
      rcases ha with rfl | rfl <;> decide
    rw [List.take_append_of_le_length this]
  have h12b : b.toList.take 13 = p.take 13 := by
    obtain ⟨t, rfl⟩ := hbp'
    have : 13 ≤ b.toList.length := by
      simp only [html4PublicPrefixes, List.mem_cons, List.mem_nil_iff, or_false] at hb
      rcases hb with rfl | rfl <;> decide
    rw [List.take_append_of_le_length this]
  have : a.toList.take 13 = b.toList.take 13 := h12a.trans h12b.symm
  simp only [limitedQuirkyPublicPrefixes, html4PublicPrefixes, List.mem_cons, List.mem_nil_iff, or_false] at ha hb
  rcases ha with rfl | rfl <;> rcases hb with rfl | rfl <;> exact absurd this (by decide)


theorem containsPfx_quirky (p : Str) :
    containsPfx quirkyPublicPrefixes (p.map asciiLower)
      = Spec.TreeTables.quirksPublicPrefixes.any (Spec.TreeAlgo.startsWithCI p) := by
  rw [containsPfx_any, any_of_sameSet quirks_prefixes_sameSet, ← quirks_prefixes_lower, ← containsPfx_any,
    containsPfx_lower]

/-- **(a)** for every DOCTYPE token and both values of the iframe-srcdoc flag, the quirks mode the
model (= `data.rs: doctype_error_and_quirks`) computes is the one the standard prescribes -/
theorem quirks_mode_eq_spec (d : Doctype) (srcdoc : Bool) :
    (doctypeErrorAndQuirks d srcdoc).2
      = toQuirks (Spec.TreeAlgo.quirksMode d.name d.publicId d.systemId d.forceQuirks srcdoc) := by
  obtain ⟨hpm, hsm, hlq, hh4⟩ := quirks_tables_eq
  cases srcdoc with
  | true => simp [doctypeErrorAndQuirks, Spec.TreeAlgo.quirksMode, toQuirks]
  | false =>
    simp only [doctypeErrorAndQuirks, Spec.TreeAlgo.quirksMode, Spec.TreeAlgo.quirksCondition,
      Spec.TreeAlgo.limitedQuirksCondition, Bool.false_eq_true, if_false, Bool.not_false, Bool.true_and]
    cases hfq : d.forceQuirks with
    | true => simp [toQuirks]
    | false =>
      by_cases hname : d.name = some "html".toList
      · have hn1 : (d.name != some "html".toList) = false := by simp [hname]
        simp only [hn1, Bool.false_or, Bool.false_eq_true, if_false]
        cases hpub : d.publicId with
        | none =>
          cases hsys : d.systemId with
          | none => simp [toQuirks]
          | some sy =>
            simp only [Option.map_some, Option.map_none, hsm, listContains_lower, Bool.false_or, Bool.or_false,
              Option.isNone_some, Option.isSome_some, Bool.false_and, Bool.and_false]
            cases Spec.TreeTables.quirksSystemIds.any (Spec.TreeAlgo.eqCI sy) <;> simp [toQuirks]
        | some p =>
          have hdis := limited_html4_disjoint (p.map asciiLower)
          rw [hlq, hh4, containsPfx_lower, containsPfx_lower] at hdis
          simp only [Option.map_some, hpm, hsm, hlq, hh4, listContains_lower, containsPfx_lower, containsPfx_quirky]
          rcases Bool.eq_false_or_eq_true (Spec.TreeTables.quirksPublicIds.any (Spec.TreeAlgo.eqCI p)) with hA | hA <;>
          rcases Bool.eq_false_or_eq_true (Spec.TreeTables.quirksPublicPrefixes.any (Spec.TreeAlgo.startsWithCI p)) with hC | hC <;>
          rcases Bool.eq_false_or_eq_true (Spec.TreeTables.limitedQuirksPublicPrefixes.any (Spec.TreeAlgo.startsWithCI p)) with hL | hL <;>
          rcases Bool.eq_false_or_eq_true (Spec.TreeTables.html401PublicPrefixes.any (Spec.TreeAlgo.startsWithCI p)) with hH | hH <;>
          simp only [hA, hC, hL, hH] at hdis ⊢ <;>
          (cases hsys : d.systemId with
           | none => simp_all [toQuirks]
           | some sy =>
             simp only [Option.map_some, listContains_lower]
             rcases Bool.eq_false_or_eq_true (Spec.TreeTables.quirksSystemIds.any (Spec.TreeAlgo.eqCI sy)) with hB | hB <;>
             simp only [hB] <;> simp_all [toQuirks])
      · have hname' : ¬ d.name = some ['h', 't', 'm', 'l'] := by
          intro h; exact hname (by rw [h]; rfl)
        simp [hname', toQuirks]

/-- non-vacuity: the three outcomes occur, and srcdoc wins over force-quirks -/
example : Spec.TreeAlgo.quirksMode (some "html".toList) none none false false = .noQuirks := by decide +kernel
example : Spec.TreeAlgo.quirksMode (some "html".toList) (some "-//W3C//DTD HTML 4.01 Transitional//EN".toList) none false false
    = .quirks := by decide +kernel
example : Spec.TreeAlgo.quirksMode (some "html".toList) (some "-//w3c//dtd html 4.01 TRANSITIONAL//EN".toList)
    (some []) false false = .limitedQuirks := by decide +kernel
example : Spec.TreeAlgo.quirksMode (some "foo".toList) none none true true = .noQuirks := by decide +kernel

end H5V.Lemmas.HtmlTBSpec
