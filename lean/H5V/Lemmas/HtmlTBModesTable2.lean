import H5V.Lemmas.HtmlTBModesTable
/-!
The table family of insertion modes, part 2: runs of characters that are foster-parented (the model
brackets the whole run with the foster-parenting flag, the specification every single character),
`ModeCharSim` for "in table", "in table body", "in row"; `ModeSim` for "in table body" and "in row".
-/
namespace H5V.Lemmas.HtmlTBModes
open H5V.Model.HtmlTB
open H5V.Model.Dom (Id SinkOp Output Dom QualName Attr NodeOrText ElementFlags NodeData QuirksMode)
open H5V.Lemmas.HtmlTBAlgo
open H5V.Lemmas.TBSafe (TI HInv SInv Rooted)
open H5V.Spec.TreeAlgo2 (Elem Entry PState Ctx Edit Place)
open H5V.Spec.TreeModes (STok ETok IMode Config Out TokSwitch XOp Op Step Edition)

/-! ### what "reconstruct the active formatting elements" does to the flag, the list and the current node -/

section Recon
variable {N T : Type} [DecidableEq N]

/-- `st` arose from `st0` by re-creating entries of the list: the foster-parenting flag is the same, the
tokens of the list are tokens of the old list, the current node is the old one or an HTML element
created for a token of the old list -/
def TblRec (cx : Ctx T) (st0 st : PState N T) : Prop :=
  st.fosterParenting = st0.fosterParenting ∧
  (∀ n t, Entry.element n t ∈ st.list → ∃ n', Entry.element n' t ∈ st0.list) ∧
  (st.stack.getLast? = st0.stack.getLast? ∨
    ∃ e n t, st.stack.getLast? = some e ∧ Entry.element n t ∈ st0.list ∧ e.name = ⟨Spec.TreeAlgo.nsHtml, cx.tokName t⟩)

omit [DecidableEq N] in
theorem TblRec.refl (cx : Ctx T) (st : PState N T) : TblRec cx st st :=
  ⟨rfl, fun n _ h => ⟨n, h⟩, Or.inl rfl⟩

omit [DecidableEq N] in
theorem tbl_reconstructCreate (cx : Ctx T) (st0 : PState N T) : ∀ (n i : Nat) (st st' : PState N T), TblRec cx st0 st →
    Spec.TreeAlgo2.reconstructCreate cx n i st = some st' → TblRec cx st0 st' := by
  intro n
  induction n with
  | zero =>
    intro i st st' hr h
    simp only [Spec.TreeAlgo2.reconstructCreate] at h
    cases h; exact hr
  | succ n ih =>
    intro i st st' hr h
    simp only [Spec.TreeAlgo2.reconstructCreate] at h
    cases hl : st.list[i]? with
    | none => rw [hl] at h; cases h
    | some ent =>
      rw [hl] at h
      cases ent with
      | marker => cases h
      | element m tok =>
        simp only at h
        cases hins : Spec.TreeAlgo2.insertHtmlElement cx st tok with
        | none => rw [hins] at h; cases h
        | some r =>
          obtain ⟨st1, el⟩ := r
          rw [hins] at h
          simp only [Option.bind_some] at h
          obtain ⟨nn, L, hsup, hel, hstack, hlist, hlog, hcr, hne, hfp, hform⟩ := insertForeignElement_some hins
          have hmem : Entry.element m tok ∈ st.list := List.mem_of_getElem? hl
          obtain ⟨m0, hm0⟩ := hr.2.1 m tok hmem
          have hr2 : TblRec cx st0 { st1 with list := st1.list.set i (.element el.id tok) } := by
            refine ⟨hfp.trans hr.1, ?_, Or.inr ⟨el, m0, tok, ?_, hm0, by rw [hel]⟩⟩
            · intro n' t' hmem'
              rcases List.mem_or_eq_of_mem_set hmem' with h1 | h1
              · rw [hlist] at h1; exact hr.2.1 n' t' h1
              · cases h1; exact ⟨m0, hm0⟩
            · show st1.stack.getLast? = some el
              rw [hstack]; simp
          split at h
          · exact ih _ _ _ hr2 h
          · cases h; exact hr2

theorem tbl_reconstruct (cx : Ctx T) (st st' : PState N T)
    (h : Spec.TreeAlgo2.reconstructActiveFormattingElements cx st = some st') : TblRec cx st st' := by
  unfold Spec.TreeAlgo2.reconstructActiveFormattingElements at h
  cases hl : st.list.getLast? with
  | none => rw [hl] at h; cases h; exact TblRec.refl cx st
  | some last =>
    rw [hl] at h
    simp only at h
    split at h
    · cases h; exact TblRec.refl cx st
    · exact tbl_reconstructCreate cx st _ _ _ _ (TblRec.refl cx st) h

end Recon

/-! ### "in body" on a character, in terms of the `PState` -/

/-- the abstract state after "in body" handled the character `c` (not U+0000): `p2` is the `PState` after
"reconstruct" and "insert a character" -/
def tblBodyCharFin (σ : SState) (c : Char) (p2 : PState Id ETok) : SState :=
  if Spec.TreeModes.isWs c then { σ with p := p2 } else { σ with p := p2, framesetOk := false }

theorem tbl_inBody_char (cfg : Config Id) (σ : SState) {c : Char} (hc : c ≠ '\x00') :
    Spec.TreeModes.inBody cfg σ (.character c) = (do
      let p1 ← Spec.TreeModes.req (Spec.TreeAlgo2.reconstructActiveFormattingElements Spec.TreeModes.cx σ.p)
        "reconstruct the active formatting elements"
      let p2 ← Spec.TreeModes.req (Spec.TreeAlgo2.insertCharacters p1 [c]) "insert a character: no place"
      pure (.done (tblBodyCharFin σ c p2))) := by
  have hc' : (c == '\x00') = false := by simpa using hc
  simp only [Spec.TreeModes.inBody, hc', Bool.false_eq_true, if_false, Spec.TreeModes.reconstruct,
    Spec.TreeModes.insertChar, tblBodyCharFin]
  cases h1 : Spec.TreeAlgo2.reconstructActiveFormattingElements Spec.TreeModes.cx σ.p with
  | none => by_cases hw : Spec.TreeModes.isWs c = true <;> simp only [hw] <;> rfl
  | some p1 =>
    cases h2 : Spec.TreeAlgo2.insertCharacters p1 [c] with
    | none =>
      by_cases hw : Spec.TreeModes.isWs c = true <;> simp only [hw, Spec.TreeModes.req] <;>
        simp only [bind, Except.bind, pure, Except.pure, h2, Functor.map, Except.map] <;> rfl
    | some p2 =>
      by_cases hw : Spec.TreeModes.isWs c = true <;> simp only [hw, Spec.TreeModes.req] <;>
        simp only [bind, Except.bind, pure, Except.pure, h2, Functor.map, Except.map] <;> rfl

theorem tbl_inBody_char_ok {cfg : Config Id} {σ σ1 : SState} {c : Char} (hc : c ≠ '\x00')
    (h : Spec.TreeModes.inBody cfg σ (.character c) = .ok (.done σ1)) :
    ∃ p1 p2, Spec.TreeAlgo2.reconstructActiveFormattingElements Spec.TreeModes.cx σ.p = some p1 ∧
      Spec.TreeAlgo2.insertCharacters p1 [c] = some p2 ∧ σ1 = tblBodyCharFin σ c p2 := by
  rw [tbl_inBody_char cfg σ hc] at h
  cases h1 : Spec.TreeAlgo2.reconstructActiveFormattingElements Spec.TreeModes.cx σ.p with
  | none => rw [h1] at h; cases h
  | some p1 =>
    rw [h1] at h
    cases h2 : Spec.TreeAlgo2.insertCharacters p1 [c] with
    | none => simp only [Spec.TreeModes.req, bind, Except.bind, pure, Except.pure, h2] at h; cases h
    | some p2 =>
      simp only [Spec.TreeModes.req, bind, Except.bind, pure, Except.pure, h2] at h
      refine ⟨p1, p2, rfl, h2, ?_⟩
      cases h; rfl

theorem tbl_inBody_char_of {cfg : Config Id} {σ : SState} {c : Char} (hc : c ≠ '\x00') {p1 p2 : PState Id ETok}
    (h1 : Spec.TreeAlgo2.reconstructActiveFormattingElements Spec.TreeModes.cx σ.p = some p1)
    (h2 : Spec.TreeAlgo2.insertCharacters p1 [c] = some p2) :
    Spec.TreeModes.inBody cfg σ (.character c) = .ok (.done (tblBodyCharFin σ c p2)) := by
  rw [tbl_inBody_char cfg σ hc, h1]
  simp only [Spec.TreeModes.req, bind, Except.bind, pure, Except.pure, h2]

theorem tbl_insertCharacters_ok {p1 p2 : PState Id ETok} {t : Str} (h : Spec.TreeAlgo2.insertCharacters p1 t = some p2) :
    p2.stack = p1.stack ∧ p2.list = p1.list ∧ p2.fosterParenting = p1.fosterParenting := by
  unfold Spec.TreeAlgo2.insertCharacters at h
  cases hp : Spec.TreeAlgo2.appropriatePlace p1.stack p1.fosterParenting none with
  | none => rw [hp] at h; cases h
  | some loc => rw [hp] at h; cases h; exact ⟨rfl, rfl, rfl⟩

theorem tblBodyCharFin_p (σ : SState) (c : Char) (p2 : PState Id ETok) : (tblBodyCharFin σ c p2).p = p2 := by
  unfold tblBodyCharFin; split <;> rfl

/-! ### the invariant of a foster-parented run -/

/-- the current node is none of the six elements of the character clause of "in table", and no token of the list of active
formatting elements has one of these names -/
structure TblRunInv (σ : SState) : Prop where
  cur : σ.curIn ["table", "tbody", "template", "tfoot", "thead", "tr"] = false
  list : ∀ n t, Entry.element n t ∈ σ.p.list →
    Spec.TreeAlgo.inHtml ["table", "tbody", "template", "tfoot", "thead", "tr"] ⟨Spec.TreeAlgo.nsHtml, (t : ETok).name⟩ = false

theorem TblRunInv.step {cfg : Config Id} {σ σ1 : SState} {c : Char} (hc : c ≠ '\x00') (hi : TblRunInv σ)
    (h : Spec.TreeModes.inBody cfg σ (.character c) = .ok (.done σ1)) :
    TblRunInv σ1 ∧ σ1.p.fosterParenting = σ.p.fosterParenting := by
  obtain ⟨p1, p2, h1, h2, rfl⟩ := tbl_inBody_char_ok hc h
  obtain ⟨r1, r2, r3⟩ := tbl_reconstruct _ _ _ h1
  obtain ⟨i1, i2, i3⟩ := tbl_insertCharacters_ok h2
  refine ⟨⟨?_, ?_⟩, ?_⟩
  · unfold Spec.TreeModes.State.curIn Spec.TreeModes.State.cur
    rw [tblBodyCharFin_p, i1]
    rcases r3 with r3 | ⟨e, n, t, he, hmem, hname⟩
    · rw [r3]; exact hi.cur
    · rw [he, Option.any_some, hname]
      exact hi.list n t hmem
  · intro n t hmem
    rw [tblBodyCharFin_p, i2] at hmem
    obtain ⟨n', hn'⟩ := r2 n t hmem
    exact hi.list n' t hn'
  · rw [tblBodyCharFin_p, i3, r1]

/-! ### from the run of "in body" inside one flag bracket to the run of "anything else" of "in table" -/

/-- the state of the specification between two foster-parented characters: the flag reset, the parse
errors `E` -/
def tblUnfoster (σ : SState) (E : List String) : SState :=
  { σ with errors := E, p := { σ.p with fosterParenting := false } }

theorem tbl_p_eta (p : PState Id ETok) {b : Bool} (h : p.fosterParenting = b) : { p with fosterParenting := b } = p := by
  cases p; simp only at h; subst h; rfl

def tblThree (m : IMode) : Prop := m = .inTable ∨ m = .inTableBody ∨ m = .inRow

theorem byModeDev_three_char {cfg : Config Id} {σ : SState} (h : tblThree σ.mode) (c : Char) :
    byModeDev cfg σ (.character c) = Spec.TreeModes.inTable cfg σ (.character c) := by
  rcases h with h | h | h
  · exact byModeDev_inTable h _
  · exact byModeDev_inTableBody_char h c
  · exact byModeDev_inRow_char h c

/-- one foster-parented character; `τ` is the state of the specification before, `σ` the state in which
the model runs "in body" (the flag set) -/
theorem tbl_fosterStep' {cfg : Config Id} {τ σ σ1 : SState} {c : Char} (hc : c ≠ '\x00')
    (hτ : τ.setFoster true = { σ with errors := τ.errors })
    (hmode : tblThree σ.mode) (hi : TblRunInv σ) (h : Spec.TreeModes.inBody cfg σ (.character c) = .ok (.done σ1)) :
    byModeDev cfg τ (.character c)
      = .ok (.done (tblUnfoster σ1 (τ.errors ++ ["in table: foster parenting"]))) := by
  obtain ⟨p1, p2, h1, h2, rfl⟩ := tbl_inBody_char_ok hc h
  have hm : τ.mode = σ.mode := congrArg (·.mode) hτ
  have hst : τ.p.stack = σ.p.stack := congrArg (·.p.stack) hτ
  have hcur : τ.curIn ["table", "tbody", "template", "tfoot", "thead", "tr"] = false := by
    have := hi.cur
    unfold Spec.TreeModes.State.curIn Spec.TreeModes.State.cur at this ⊢
    rw [hst]; exact this
  rw [byModeDev_three_char (show tblThree τ.mode by rw [hm]; exact hmode), inTable_char_foster c hcur]
  have e0 : ((τ.err "in table: foster parenting").setFoster true)
      = { σ with errors := τ.errors ++ ["in table: foster parenting"] } := by
    show ({ τ.setFoster true with errors := τ.errors ++ ["in table: foster parenting"] } : SState) = _
    rw [hτ]
  simp only [Spec.TreeModes.inTableAnythingElse]
  rw [e0, tbl_inBody_char_of (σ := { σ with errors := τ.errors ++ ["in table: foster parenting"] }) hc h1 h2]
  unfold tblBodyCharFin tblUnfoster
  by_cases hw : Spec.TreeModes.isWs c = true
  · simp only [hw, if_true]; rfl
  · simp only [hw]; rfl

theorem tbl_fosterStep {cfg : Config Id} {σ σ1 : SState} {c : Char} (hc : c ≠ '\x00') (hfp : σ.p.fosterParenting = true)
    (hmode : tblThree σ.mode) (hi : TblRunInv σ) (h : Spec.TreeModes.inBody cfg σ (.character c) = .ok (.done σ1))
    (E : List String) :
    byModeDev cfg (tblUnfoster σ E) (.character c)
      = .ok (.done (tblUnfoster σ1 (E ++ ["in table: foster parenting"]))) := by
  refine tbl_fosterStep' (τ := tblUnfoster σ E) hc ?_ hmode hi h
  show ({ σ with errors := E, p := { σ.p with fosterParenting := true } } : SState) = _
  rw [tbl_p_eta σ.p hfp]
  rfl

theorem tbl_fosterRun {cfg : Config Id} : ∀ {text : Str} {σ σ' : SState},
    CharsRunK cfg (Spec.TreeModes.inBody cfg) σ text σ' → '\x00' ∉ text → σ.p.fosterParenting = true →
    tblThree σ.mode → TblRunInv σ → ∀ E : List String,
    CharsRunK cfg (byModeDev cfg) (tblUnfoster σ E) text
      (tblUnfoster σ' (E ++ List.replicate text.length "in table: foster parenting")) ∧
    σ'.p.fosterParenting = true := by
  intro text σ σ' h
  induction h with
  | nil σ =>
    intro _ hfp _ _ E
    simp only [List.length_nil, List.replicate_zero, List.append_nil]
    exact ⟨CharsRunK.nil _, hfp⟩
  | @cons σ σ1 σ' c cs e hmode1 hst1 hlf1 hu1 _ ih =>
    intro hnul hfp hmode hi E
    have hc : c ≠ '\x00' := fun h => hnul (h ▸ List.mem_cons_self)
    obtain ⟨hi1, hfp1⟩ := hi.step hc e
    have ih' := ih (fun h => hnul (List.mem_cons_of_mem _ h)) (hfp1.trans hfp) (by rw [hmode1]; exact hmode) hi1
      (E ++ ["in table: foster parenting"])
    refine ⟨CharsRunK.cons (tbl_fosterStep hc hfp hmode hi e E) hmode1 hst1 hlf1 ?_ ?_, ih'.2⟩
    · rw [adjustedCurrentNode_congr (σ := σ1) (σ1 := tblUnfoster σ1 _) rfl rfl]; exact hu1
    · have := ih'.1
      rw [List.append_assoc, List.singleton_append, ← List.replicate_succ] at this
      exact this

/-! ### two triples about the same run -/

theorem tbl_calls_unique {s s' : State} {c1 c2 : List Call} (h1 : Ext2 s c1 s') (h2 : Ext2 s c2 s') : c1 = c2 := by
  have h := h1.trace.symm.trans h2.trace
  exact List.reverse_inj.mp (List.append_cancel_right h)

theorem tbl_pc_and {α : Type} {m : M α} {s : State} {Q1 Q2 : α → State → List Call → Prop} (h1 : PC m s Q1) (h2 : PC m s Q2) :
    PC m s (fun a s' c => Q1 a s' c ∧ Q2 a s' c) := by
  intro a s' hr
  obtain ⟨c1, e1, q1⟩ := h1 a s' hr
  obtain ⟨c2, e2, q2⟩ := h2 a s' hr
  have := tbl_calls_unique e1 e2
  subst this
  exact ⟨c1, e1, q1, q2⟩

/-- `stepInBody` answers `Done` to a run of characters -/
theorem tbl_stepInBody_chars_done {s : State} (hm : MInv s) (st : SplitStatus) (text : Str) :
    PC (stepInBody (.chars st text)) s (fun r _ _ => r = .done) := by
  simp only [stepInBody]
  refine pc_seq (pc_reconstruct hm) ?_
  rintro _ s1 c1 _ ⟨-, -, htr1⟩
  by_cases h : anyNotWhitespace text = true
  · simp only [h, if_true]
    refine pc_seq (pc_setFramesetOk htr1.1 false) ?_
    rintro _ s2 c2 _ ⟨-, htr2⟩
    exact pc_conseq (pc_appendText htr2.1 text) (fun r _ _ _ h => h.1)
  · simp only [h]
    exact pc_conseq (pc_appendText htr1.1 text) (fun r _ _ _ h => h.1)


/-- the run of a non-empty text, started in a state `τ` of the specification with any value of the flag -/
theorem tbl_fosterRun1 {cfg : Config Id} {c : Char} {cs : Str} {τ σ σ' : SState}
    (h : CharsRunK cfg (Spec.TreeModes.inBody cfg) σ (c :: cs) σ') (hnul : '\x00' ∉ c :: cs)
    (hτ : τ.setFoster true = { σ with errors := τ.errors }) (hfp : σ.p.fosterParenting = true)
    (hmode : tblThree σ.mode) (hi : TblRunInv σ) :
    CharsRunK cfg (byModeDev cfg) τ (c :: cs)
      (tblUnfoster σ' (τ.errors ++ List.replicate (c :: cs).length "in table: foster parenting")) := by
  cases h with
  | cons e hmode1 hst1 hlf1 hu1 hrest =>
    rename_i σ1
    have hc : c ≠ '\x00' := fun h => hnul (h ▸ List.mem_cons_self)
    obtain ⟨hi1, hfp1⟩ := hi.step hc e
    have ih' := tbl_fosterRun hrest (fun h => hnul (List.mem_cons_of_mem _ h)) (hfp1.trans hfp)
      (by rw [hmode1]; exact hmode) hi1 (τ.errors ++ ["in table: foster parenting"])
    have hm : τ.mode = σ.mode := congrArg (·.mode) hτ
    refine CharsRunK.cons (tbl_fosterStep' hc hτ hmode hi e) (hmode1.trans hm.symm) hst1 hlf1 ?_ ?_
    · rw [adjustedCurrentNode_congr (σ := σ1) (σ1 := tblUnfoster σ1 _) rfl rfl]; exact hu1
    · have := ih'.1
      rw [List.append_assoc, List.singleton_append, ← List.replicate_succ] at this
      exact this


/-! ### the model side of a foster-parented run -/

theorem tbl_contains_filter {α : Type} [BEq α] [LawfulBEq α] (l : List α) (p : α → Bool) (a : α) :
    (l.filter p).contains a = (l.contains a && p a) := by
  cases hc : l.contains a <;> cases hp : p a <;> simp_all [List.mem_filter]

/-- the dispatcher's choice after a stretch that kept the stack -/
theorem tbl_disp_transfer {s s1 : State} (hm : MInv s) (ho : s1.openElems = s.openElems) (he : TBSafe.Ext s.dom s1.dom)
    (hcfg : cfgOf s1 = cfgOf s)
    (hdisp : ∀ x, AuxOk s x → Spec.TreeAlgo.useHtmlRules (Spec.TreeModes.adjustedCurrentNode (cfgOf s) (absF s x)) .character = true) :
    ∀ x1, AuxOk s1 x1 →
      Spec.TreeAlgo.useHtmlRules (Spec.TreeModes.adjustedCurrentNode (cfgOf s1) (absF s1 x1)) .character = true := by
  intro x1 hx1
  have hx : AuxOk s { x1 with annot := x1.annot.filter (fun a => s.dom.isElement a) } := by
    refine ⟨hx1.live, ?_, ?_, hx1.xlog⟩
    · intro h hh hn
      show (x1.annot.filter (fun a => s.dom.isElement a)).contains h = _
      rw [tbl_contains_filter, hm.elems h hh, Bool.and_true]
      have hn1 : nameOf s1.dom h = annotName := by rw [nameOf_ext he (hm.elems h hh)]; exact hn
      rw [hx1.annot h (by rw [ho]; exact hh) hn1, ipOfDom_ext he (hm.elems h hh)]
    · intro a ha
      exact (List.mem_filter.mp ha).2
  rw [← hdisp _ hx]
  congr 1
  unfold Spec.TreeModes.adjustedCurrentNode
  rw [hcfg, absF_stack hx1, absF_stack hx, ho, absStack_ext hm.elems he]
  congr 1
  apply List.map_congr_left
  intro e hmem
  have hmem' := List.mem_reverse.mp hmem
  obtain ⟨hid, -⟩ := mem_absStack hmem'
  unfold Spec.TreeModes.openElem
  congr 1
  show x1.annot.contains e.id = (x1.annot.filter (fun a => s.dom.isElement a)).contains e.id
  rw [tbl_contains_filter, hm.elems e.id hid, Bool.and_true]

theorem tbl_six_special (name : Spec.TreeAlgo.Str)
    (h : Spec.TreeAlgo.inHtml ["table", "tbody", "template", "tfoot", "thead", "tr"] ⟨Spec.TreeAlgo.nsHtml, name⟩ = true) :
    Spec.TreeAlgo.inTable Spec.TreeTables.special ⟨Spec.TreeAlgo.nsHtml, name⟩ = true := by
  simp only [Spec.TreeAlgo.inHtml, Bool.and_eq_true, List.any_eq_true] at h
  obtain ⟨-, nm, hmem, heq⟩ := h
  have hl : name = nm.toList := by rw [beq_iff_eq] at heq; exact heq.symm
  subst hl
  simp only [List.mem_cons, List.not_mem_nil, or_false] at hmem
  rcases hmem with rfl | rfl | rfl | rfl | rfl | rfl <;> decide +kernel

/-- the invariant of the run holds at its start -/
theorem tbl_runInv_of_minv {s : State} (hm : MInv s) {σ : SState} (hl : σ.p.list = absListE s.activeFormatting)
    (hcur : σ.curIn ["table", "tbody", "template", "tfoot", "thead", "tr"] = false) : TblRunInv σ := by
  refine ⟨hcur, ?_⟩
  intro n t hmem
  rw [hl] at hmem
  obtain ⟨fe, hfe, hee⟩ := List.mem_map.mp hmem
  cases fe with
  | marker => cases hee
  | element h tag =>
    simp only [entryE] at hee
    cases hee
    have hsp := (hm.af _ _ hfe).2.1
    cases hin : Spec.TreeAlgo.inHtml ["table", "tbody", "template", "tfoot", "thead", "tr"] ⟨Spec.TreeAlgo.nsHtml, (etokOf tag).name⟩ with
    | false => rfl
    | true =>
      have := tbl_six_special _ hin
      rw [show (etokOf tag).name = tag.name from rfl] at this
      rw [this] at hsp
      cases hsp


/-- the two branches of `process_chars_in_table`, with the frame of the queries -/
theorem tbl_pc_processChars' {tok : Token} {s : State} {Q : ProcessResult → State → List Call → Prop}
    (htext : ∀ s1 c1, SameTB s s1 → Ext2 s c1 s1 → edits2 c1 = [] →
      (∀ x, AuxOk s x → (absF s x).curIn ["table", "tbody", "template", "tfoot", "thead", "tr"] = true) → s1.pendingTableText = [] →
      Q (.reprocess .inTableText tok) { s1 with origMode := some s1.mode } c1)
    (hfoster : ∀ s1 c1, SameTB s s1 → Ext2 s c1 s1 → edits2 c1 = [] →
      (∀ x, AuxOk s x → (absF s x).curIn ["table", "tbody", "template", "tfoot", "thead", "tr"] = false) →
      PC (fosterParentInBody tok) s1 (fun r s2 c2 => Q r s2 (c1 ++ c2))) :
    PC (processCharsInTable tok) s Q := by
  simp only [processCharsInTable]
  cases hl : s.openElems.getLast? with
  | none =>
    refine pc_bind ?_
    unfold currentNodeIn
    exact pc_bind (pc_currentNode_empty hl)
  | some h0 =>
    refine pc_seq (PC.of_tot (pop_tot_currentNodeIn hl tableOuterChars)) ?_
    rintro b s1 c1 he1 ⟨hb, hs1, hc1⟩
    have hcur : ∀ x, AuxOk s x →
        (absF s x).curIn ["table", "tbody", "template", "tfoot", "thead", "tr"] = tableOuterChars (nameOf s.dom h0) := by
      intro x hx
      unfold Spec.TreeModes.State.curIn
      rw [absF_cur hx, hl]
      rfl
    have hc1' : edits2 c1 = [] := by rw [← edits2_edits, hc1]; rfl
    rw [← hb] at hcur
    cases b with
    | true =>
      simp only [if_true]
      refine pc_getS_bind ?_
      cases hp : s1.pendingTableText with
      | cons a r =>
        simp only [List.isEmpty_cons, Bool.not_false, if_true]
        exact pc_bind pc_panicAt
      | nil =>
        simp only [List.isEmpty_nil, Bool.not_true, Bool.false_eq_true, if_false]
        refine pc_seq (pc_modS (Q := fun _ s2 c => s2 = { s1 with origMode := some s1.mode } ∧ c = []) rfl rfl ⟨rfl, rfl⟩) ?_
        rintro _ s2 c2 _ ⟨rfl, rfl⟩
        refine pc_pure ?_
        rw [List.append_nil, List.append_nil]
        exact htext s1 c1 hs1 he1 hc1' hcur hp
    | false =>
      simp only [Bool.false_eq_true, if_false]
      refine pc_seq (PC.of_tot (tot_parseError s1 _)) ?_
      rintro _ s2 c2 he2 ⟨-, hs2, hc2⟩
      have hc2' : edits2 c2 = [] := by rw [← edits2_edits, hc2]; rfl
      have := hfoster s2 (c1 ++ c2) (hs1.trans hs2) (he1.trans he2) (by rw [edits2_append, hc1', hc2']; rfl) hcur
      simp only [List.append_assoc] at this
      exact this


/-- **foster parenting of a run of characters**: the model runs "in body" on the whole run inside one
bracket of the flag -/
theorem tbl_pc_fosterChars (hbodyc : StepSimChars stepInBody Spec.TreeModes.inBody) {st : SplitStatus} {text : Str}
    (hwf : TokWf (.chars st text)) {s s0 : State} {c0 : List Call} (hm : MInv s) (hs0 : SameTB s s0) (he0 : Ext2 s c0 s0)
    (hc0 : edits2 c0 = []) (hlf : s.ignoreLf = false)
    (hdisp : ∀ x, AuxOk s x → Spec.TreeAlgo.useHtmlRules (Spec.TreeModes.adjustedCurrentNode (cfgOf s) (absF s x)) .character = true)
    (hmode : tblThree (imode s.mode))
    (hcur : ∀ x, AuxOk s x → (absF s x).curIn ["table", "tbody", "template", "tfoot", "thead", "tr"] = false) :
    PC (fosterParentInBody (.chars st text)) s0 (fun res s' c =>
      CharsPost (byModeDev (cfgOf s)) s st text res s' (c0 ++ c)) := by
  have hm0 : MInv s0 := hm.sameTB hs0 he0.ext
  have hcfg0 : cfgOf s0 = cfgOf s := cfgOf_of_same hm hs0 he0.ext
  have htr0 := Tr.of_same hm hs0 he0 hc0
  have f0 := hs0.fields
  unfold fosterParentInBody
  refine pc_seq (pc_modS (Q := fun _ s1 c => s1 = { s0 with fosterParenting := true } ∧ c = []) rfl rfl ⟨rfl, rfl⟩) ?_
  rintro _ s1 c1 _ ⟨rfl, rfl⟩
  have htr1 := tbl_tr_setFoster hm0 true
  have hm1 := htr1.1
  have hdisp1 := tbl_disp_transfer (s1 := { s0 with fosterParenting := true }) hm f0.openElems he0.ext hcfg0 hdisp
  have hdone := tbl_stepInBody_chars_done hm1 st text
  refine pc_seq (tbl_pc_and (hbodyc st text hwf _ hm1 (by show s0.ignoreLf = false; rw [f0.ignoreLf]; exact hlf) hdisp1) hdone) ?_
  rintro res s2 c2 he2 ⟨hp, hres⟩
  subst hres
  obtain ⟨hlf2, htr2⟩ := hp
  refine pc_seq (pc_modS (Q := fun _ s3 c => s3 = { s2 with fosterParenting := false } ∧ c = []) rfl rfl ⟨rfl, rfl⟩) ?_
  rintro _ s3 c3 _ ⟨rfl, rfl⟩
  refine pc_pure ?_
  have htr3 := tbl_tr_setFoster htr2.1 false
  have htr := ((htr0.trans htr1).trans htr2).trans htr3
  simp only [List.append_nil, List.nil_append] at htr ⊢
  refine ⟨?_, htr.reaux
    (fun x x' => { x' with errors := x.errors ++ List.replicate text.length "in table: foster parenting" })
    (fun _ _ => ⟨⟨rfl, rfl, rfl, rfl, rfl⟩, rfl, rfl, rfl⟩) ?_⟩
  · show s2.ignoreLf = s.ignoreLf
    rw [hlf2]; exact f0.ignoreLf
  · rintro x x3 hx hx3 ⟨x2, ⟨x1, ⟨x0, ⟨hx0, e0⟩, hx1, e1⟩, hrun⟩, hx3e, e3⟩
    subst x0
    subst x1
    subst x3
    obtain ⟨c, cs, rfl⟩ : ∃ c cs, text = c :: cs := by
      cases text with
      | nil => exact absurd rfl hwf.1
      | cons c cs => exact ⟨c, cs, rfl⟩
    have hτ : (absF s x).setFoster true
        = { absF { s0 with fosterParenting := true } x with errors := (absF s x).errors } := by
      rw [e1, ← e0]; rfl
    have hrun' : CharsRunK (cfgOf s) (Spec.TreeModes.inBody (cfgOf s)) (absF { s0 with fosterParenting := true } x) (c :: cs)
        (absF s2 x2) := by
      rw [← hcfg0]; exact hrun
    have hmode' : tblThree (absF { s0 with fosterParenting := true } x).mode := by
      show tblThree (imode s0.mode); rw [f0.mode]; exact hmode
    have hinv : TblRunInv (absF { s0 with fosterParenting := true } x) := by
      refine tbl_runInv_of_minv hm1 rfl ?_
      rw [e1, ← e0]
      exact hcur x hx
    exact specChars_of_byModeRun (tbl_fosterRun1 hrun' hwf.2.1 hτ rfl hmode' hinv)


/-- a run of characters in "in table" / "in table body" / "in row" -/
theorem tbl_charSim_three (hbodyc : StepSimChars stepInBody Spec.TreeModes.inBody) {st : SplitStatus} {text : Str}
    (hwf : TokWf (.chars st text)) {s : State} (hm : MInv s) (hmode : tblThree (imode s.mode)) (hlf : s.ignoreLf = false)
    (hdisp : ∀ x, AuxOk s x → Spec.TreeAlgo.useHtmlRules (Spec.TreeModes.adjustedCurrentNode (cfgOf s) (absF s x)) .character = true) :
    PC (processCharsInTable (.chars st text)) s (CharsPost (byModeDev (cfgOf s)) s st text) := by
  refine tbl_pc_processChars' ?_ ?_
  · intro s1 c1 hs1 he1 hc1 hcur hp
    obtain ⟨c, cs, rfl⟩ : ∃ c cs, text = c :: cs := by
      cases text with
      | nil => exact absurd rfl hwf.1
      | cons c cs => exact ⟨c, cs, rfl⟩
    refine ⟨rfl, hs1.fields.ignoreLf, c, cs, rfl, ?_⟩
    have htr1 : Tr s s1 c1 (fun x x' => x' = x ∧ absF s x = absF s1 x ∧
        (absF s x).curIn ["table", "tbody", "template", "tfoot", "thead", "tr"] = true) :=
      (Tr.of_same hm hs1 he1 hc1).conseq fun x x' hx _ ⟨h1, h2⟩ => ⟨h1, h2, hcur x hx⟩
    refine (tbl_tr_withMode (tbl_tr_toText c htr1 hp) .inTableText).conseq ?_
    intro x x' hx _ hr
    rw [byModeDev_three_char (show tblThree (absF s x).mode from hmode)]
    exact hr
  · intro s1 c1 hs1 he1 hc1 hcur
    exact tbl_pc_fosterChars hbodyc hwf hm hs1 he1 hc1 hlf hdisp hmode hcur

theorem modeCharSim_inTable (hbodyc : StepSimChars stepInBody Spec.TreeModes.inBody) : ModeCharSim .inTable := by
  intro st text hwf s _ hm hmode hlf hdisp
  show PC (stepInTable (.chars st text)) s _
  simp only [stepInTable]
  exact tbl_charSim_three hbodyc hwf hm (by rw [hmode]; exact Or.inl rfl) hlf hdisp

theorem modeCharSim_inTableBody (hbodyc : StepSimChars stepInBody Spec.TreeModes.inBody) : ModeCharSim .inTableBody := by
  intro st text hwf s _ hm hmode hlf hdisp
  show PC (stepInTableBody (.chars st text)) s _
  simp only [stepInTableBody, stepInTable]
  exact tbl_charSim_three hbodyc hwf hm (by rw [hmode]; exact Or.inr (Or.inl rfl)) hlf hdisp

theorem modeCharSim_inRow (hbodyc : StepSimChars stepInBody Spec.TreeModes.inBody) : ModeCharSim .inRow := by
  intro st text hwf s _ hm hmode hlf hdisp
  show PC (stepInRow (.chars st text)) s _
  simp only [stepInRow, stepInTable]
  exact tbl_charSim_three hbodyc hwf hm (by rw [hmode]; exact Or.inr (Or.inr rfl)) hlf hdisp


/-! ### ends of arms of "in table body" / "in row" -/

/-- as `tbl_pc_phantomReprocess`, after a stretch that may have changed the `Aux` (a parse error) -/
theorem tbl_pc_phantomReprocessG {s s0 : State} {c0 : List Call} {F : SState → SState}
    (h0 : Tr s s0 c0 (fun x x0 => absF s0 x0 = F (absF s x))) (name : String) (m : Mode)
    (hne : m ≠ .inTableText) (tok : Token) :
    PC (insertPhantom name >>= fun _ => pure (ProcessResult.reprocess m tok)) s0 (fun res s' c =>
      TokPost (fun σ => do
        let σ1 ← Spec.TreeModes.insertHtml' (F σ) (Spec.TreeModes.bareTag name)
        pure (Step.reprocess (σ1.setMode (imode m)))) s tok res s' (c0 ++ c)) := by
  refine pc_seq (pc_insertPhantom' h0.1 name) ?_
  rintro a s1 c1 _ ⟨-, -, -, -, -, htr1⟩
  refine pc_pure ?_
  rw [List.append_nil]
  refine tokPost_of_tr (h0.trans htr1) rfl ?_
  rintro x x1 hx hx1 ⟨x0, e0, e1⟩
  refine ⟨{ x1 with pendingJunk := (absF s1 x1).pendingTableChars }, ?_, ⟨rfl, rfl, rfl, rfl, rfl⟩, Or.inl rfl, rfl, rfl⟩
  rw [← e0, e1]
  simp only [stepOf, applyRes]
  rw [tbl_absF_setMode _ _ _ hne]
  rfl

/-- a computation that pops the current node: `pop`, or `pop` with the assertion of "in row" -/
def TblPops {α : Type} (P : M α) : Prop :=
  ∀ s0, MInv s0 → PC P s0 (fun _ s' c => Tr s0 s' c (fun x x' => x' = x ∧ absF s' x = (absF s0 x).pop))

theorem tblPops_pop : TblPops pop := fun _ hm0 =>
  pc_conseq (pc_pop hm0) fun _ _ _ _ ⟨_, _, _, htr⟩ => htr.conseq fun _ _ _ _ ⟨h1, h2, _⟩ => ⟨h1, h2⟩

theorem tblPops_popTr (site : String) : TblPops (popTr site) := by
  intro s0 hm0
  unfold popTr
  refine pc_seq (pc_pop hm0) ?_
  rintro node s1 c1 _ ⟨-, -, -, htr1⟩
  refine pc_seq (pc_of_query htr1.1 (tot_htmlElemNamed s1 node "tr")) ?_
  rintro b s2 c2 _ ⟨-, htr2⟩
  cases b with
  | false => simp only [Bool.not_false, if_true]; exact pc_panicAt
  | true =>
    simp only [Bool.not_true, Bool.false_eq_true, if_false]
    refine pc_pure ?_
    rw [List.append_nil]
    refine (htr1.trans htr2).conseq ?_
    rintro x x2 _ _ ⟨x1, ⟨hx1, e1, -⟩, hx2, e2⟩
    subst x2
    subst x1
    exact ⟨rfl, by rw [← e2, e1]⟩

/-- "… Pop the current node from the stack of open elements.  Switch the insertion mode to `m`." -/
theorem tbl_pc_popSetMode {α : Type} {P : M α} (hP : TblPops P) {s s0 : State} {c0 : List Call} {R0 : Aux → Aux → Prop}
    {spec : SState → Spec.TreeModes.M (Step Id)}
    (h0 : Tr s s0 c0 R0) (m : Mode) (hne : m ≠ .inTableText) (tok : Token)
    (hspec : ∀ x x0, AuxOk s x → R0 x x0 →
      spec (absF s x) = .ok (.done ((absF s0 x0).pop.setMode (imode m)))) :
    PC (P >>= fun _ => setMode m >>= fun _ => pure ProcessResult.done) s0 (fun res s' c =>
      TokPost spec s tok res s' (c0 ++ c)) := by
  refine pc_seq (hP s0 h0.1) ?_
  rintro _ s1 c1 _ htr1
  refine pc_seq (pc_setMode htr1.1 m) ?_
  rintro _ s2 c2 _ ⟨rfl, htr2⟩
  refine pc_pure ?_
  rw [List.append_nil, ← List.append_assoc]
  refine tokPost_of_tr ((h0.trans htr1).trans htr2) trivial ?_
  rintro x x2 hx hx2 ⟨x1, ⟨x0, r0, hx1, e1⟩, hx2e⟩
  subst x2
  subst x1
  refine ⟨{ x0 with pendingJunk := (absF s1 x0).pendingTableChars }, ?_, ⟨rfl, rfl, rfl, rfl, rfl⟩, Or.inl rfl, rfl, rfl⟩
  simp only [stepOf]
  rw [tbl_absF_setMode _ _ _ hne, e1, hspec x x0 hx r0]

/-- "… Pop the current node from the stack of open elements.  Switch the insertion mode to `m`.
Reprocess the token." -/
theorem tbl_pc_popReprocess {α : Type} {P : M α} (hP : TblPops P) {s s0 : State} {c0 : List Call} {R0 : Aux → Aux → Prop}
    {spec : SState → Spec.TreeModes.M (Step Id)}
    (h0 : Tr s s0 c0 R0) (m : Mode) (hne : m ≠ .inTableText) (tok : Token)
    (hspec : ∀ x x0, AuxOk s x → R0 x x0 →
      spec (absF s x) = .ok (.reprocess ((absF s0 x0).pop.setMode (imode m)))) :
    PC (P >>= fun _ => pure (ProcessResult.reprocess m tok)) s0 (fun res s' c =>
      TokPost spec s tok res s' (c0 ++ c)) := by
  refine pc_seq (hP s0 h0.1) ?_
  rintro _ s1 c1 _ htr1
  refine pc_pure ?_
  rw [List.append_nil]
  refine tokPost_of_tr (h0.trans htr1) rfl ?_
  rintro x x1 hx hx1 ⟨x0, r0, hx1e, e1⟩
  subst x1
  refine ⟨{ x0 with pendingJunk := (absF s1 x0).pendingTableChars }, ?_, ⟨rfl, rfl, rfl, rfl, rfl⟩, Or.inl rfl, rfl, rfl⟩
  simp only [stepOf, applyRes]
  rw [tbl_absF_setMode _ _ _ hne, e1, hspec x x0 hx r0]

/-! ### "in table body" -/

/-- a stretch `x' = x ∧ absF s1 x = F (absF s x)` in the general form -/
theorem tbl_tr_gen {s s1 : State} {c1 : List Call} {F : SState → SState}
    (h : Tr s s1 c1 (fun x x' => x' = x ∧ absF s1 x = F (absF s x))) :
    Tr s s1 c1 (fun x x0 => absF s1 x0 = F (absF s x)) :=
  h.conseq fun x x' _ _ ⟨h1, h2⟩ => by subst x'; exact h2

/-- "If the stack of open elements does not have a tbody, thead, or tfoot element in table scope, this is a
parse error; ignore the token.  Otherwise: clear the stack back to a table body context; act as if an end
tag with the same tag name as the current node had been seen, then reprocess the current token." -/
theorem tbl_pc_closeBody {s : State} (hm : MInv s) (tok : Token) :
    PC (inScope tableScope (fun e => elemIn e tableOuterBody) >>= fun b =>
        if b = true then popUntilCurrent tableBodyContext >>= fun _ => pop >>= fun _ =>
          pure (ProcessResult.reprocess .inTable tok)
        else unexpected) s
      (TokPost (fun σ =>
        if (!Spec.TreeModes.hasAnyInTableScope σ ["tbody", "thead", "tfoot"]) = true then
          pure (Step.done (σ.err "in table body: no tbody/thead/tfoot in table scope"))
        else pure (Step.reprocess ((Spec.TreeModes.clearBackToTableBody σ).pop.setMode .inTable))) s tok) := by
  refine pc_seq (pc_inScope_table_tableOuterBody hm) ?_
  rintro b s1 c1 _ htr1
  cases b with
  | false =>
    simp only [Bool.false_eq_true, if_false]
    refine pc_conseq (pc_unexpected htr1.1) ?_
    rintro _ s2 c2 _ ⟨rfl, htr2⟩
    refine tokPost_of_tr (htr1.trans htr2) trivial ?_
    rintro x x2 hx hx2 ⟨x1, ⟨hx1, e1, hb⟩, hx2e, e2⟩
    subst x2
    subst x1
    refine ⟨{ x with errors := x.errors ++ ["in table body: no tbody/thead/tfoot in table scope"] }, ?_,
      ⟨rfl, rfl, rfl, rfl, rfl⟩, Or.inl rfl, rfl, rfl⟩
    rw [← hb]
    simp only [Bool.not_false, if_true, stepOf]
    rw [e1, e2]
    rfl
  | true =>
    simp only [if_true]
    refine pc_seq (pc_popUntilCurrent_tableBody htr1.1) ?_
    rintro _ s2 c2 _ htr2
    refine pc_conseq (tbl_pc_popReprocess tblPops_pop (spec := fun σ =>
        if (!Spec.TreeModes.hasAnyInTableScope σ ["tbody", "thead", "tfoot"]) = true then
          pure (Step.done (σ.err "in table body: no tbody/thead/tfoot in table scope"))
        else pure (Step.reprocess ((Spec.TreeModes.clearBackToTableBody σ).pop.setMode .inTable)))
      (htr1.trans htr2) .inTable (by decide) tok ?_) ?_
    · rintro x x2 hx ⟨x1, ⟨hx1, e1, hb⟩, hx2, e2⟩
      subst x2
      subst x1
      rw [← hb]
      simp only [Bool.not_true, Bool.false_eq_true, if_false]
      rw [e2, ← e1]
      rfl
    · intro res s' c _ hp
      rw [← List.append_assoc]
      exact hp

theorem sim_inTableBody_start (hhead : StepSimTok stepInHead Spec.TreeModes.inHead)
    (hbody : StepSimTok stepInBody Spec.TreeModes.inBody) (t : Tag) (hwf : TagWf t) (hk : t.kind = .startTag)
    (s : State) (hm : MInv s) :
    PC (stepInTableBody (.tag t)) s
      (TokPost (fun σ => Spec.TreeModes.inTableBody (cfgOf s) σ (stokOf (.tag t))) s (.tag t)) := by
  simp only [stepInTableBody, Tag.isStart, Tag.isEnd, isOneOf_cons, isOneOf_nil, Bool.or_false, hk, tbl_kind_se, tbl_kind_ss,
    Bool.false_and, Bool.true_and, Bool.false_eq_true, if_false, Bool.or_false]
  simp only [stokOf, stokOfTag_start hk, Spec.TreeModes.inTableBody, Spec.TreeModes.Tag.is, Spec.TreeModes.Tag.isOneOf, strIs_eq,
    strIsOneOf_cons, strIsOneOf_nil, Bool.or_false, specTag_name]
  by_cases h1 : t.name = "tr".toList
  · simp +decide only [h1, if_true]
    refine pc_seq (pc_popUntilCurrent_tableBody hm) ?_
    rintro _ s1 c1 _ htr1
    exact tbl_pc_insertSetMode htr1 hwf.plain .inRow (by decide) (.tag t)
  · simp +decide only [h1, if_false]
    cases h2 : (decide (t.name = "th".toList) || decide (t.name = "td".toList)) with
    | true =>
      simp only [if_true]
      refine pc_seq (tbl_pc_unexpected_err hm "in table body: cell without row") ?_
      rintro _ s1 c1 _ ⟨-, htr1⟩
      refine pc_seq (pc_popUntilCurrent_tableBody htr1.1) ?_
      rintro _ s2 c2 _ htr2
      have h0 : Tr s s2 (c1 ++ c2) (fun x x0 => absF s2 x0 =
          (fun σ => Spec.TreeModes.clearBackToTableBody (σ.err "in table body: cell without row")) (absF s x)) :=
        (htr1.trans htr2).conseq (by
          rintro x x2 _ _ ⟨x1, ⟨hx1, e1⟩, hx2, e2⟩
          subst x2
          rw [e2, ← e1])
      have := tbl_pc_phantomReprocessG
        (F := fun σ => Spec.TreeModes.clearBackToTableBody (σ.err "in table body: cell without row")) h0 "tr" .inRow
        (by decide) (.tag t)
      simp only [List.append_assoc] at this
      exact this
    | false =>
      simp only [Bool.false_eq_true, if_false]
      cases h3 : (decide (t.name = "caption".toList) || (decide (t.name = "col".toList) ||
          (decide (t.name = "colgroup".toList) || (decide (t.name = "tbody".toList) ||
          (decide (t.name = "tfoot".toList) || decide (t.name = "thead".toList)))))) with
      | true =>
        simp only [if_true]
        exact tbl_pc_closeBody hm _
      | false =>
        simp only [Bool.false_eq_true, if_false]
        refine pc_tokPost_congr (sim_inTable hhead hbody (.tag t) rfl hwf s hm) ?_
        intro x hx
        simp only [stokOf, stokOfTag_start hk]

theorem sim_inTableBody_end (hhead : StepSimTok stepInHead Spec.TreeModes.inHead)
    (hbody : StepSimTok stepInBody Spec.TreeModes.inBody) (t : Tag) (hwf : TagWf t) (hk : t.kind = .endTag)
    (s : State) (hm : MInv s) :
    PC (stepInTableBody (.tag t)) s
      (TokPost (fun σ => Spec.TreeModes.inTableBody (cfgOf s) σ (stokOf (.tag t))) s (.tag t)) := by
  simp only [stepInTableBody, Tag.isStart, Tag.isEnd, isOneOf_cons, isOneOf_nil, Bool.or_false, hk, tbl_kind_es, tbl_kind_ee,
    Bool.false_and, Bool.true_and, Bool.false_eq_true, if_false, Bool.or_false, Bool.false_or]
  simp only [stokOf, stokOfTag_end hk, Spec.TreeModes.inTableBody, Spec.TreeModes.Tag.is, Spec.TreeModes.Tag.isOneOf, strIs_eq,
    strIsOneOf_cons, strIsOneOf_nil, Bool.or_false, specTag_name]
  cases h1 : (decide (t.name = "tbody".toList) || (decide (t.name = "tfoot".toList) || decide (t.name = "thead".toList))) with
  | true =>
    simp only [if_true]
    refine pc_seq (pc_inScopeNamedS_table hm t.name) ?_
    rintro b s1 c1 _ htr1
    cases b with
    | false =>
      simp only [Bool.false_eq_true, if_false]
      refine pc_seq (pc_unexpected htr1.1) ?_
      rintro _ s2 c2 _ ⟨-, htr2⟩
      refine pc_pure ?_
      rw [List.append_nil]
      refine tokPost_of_tr (htr1.trans htr2) trivial ?_
      rintro x x2 hx hx2 ⟨x1, ⟨hx1, e1, hb⟩, hx2e, e2⟩
      subst x2
      subst x1
      refine ⟨{ x with errors := x.errors ++ ["in table body: end tag without element in table scope"] }, ?_,
        ⟨rfl, rfl, rfl, rfl, rfl⟩, Or.inl rfl, rfl, rfl⟩
      simp only [← hb, Bool.not_false, if_true, stepOf]
      rw [e1, e2]
      rfl
    | true =>
      simp only [if_true]
      refine pc_seq (pc_popUntilCurrent_tableBody htr1.1) ?_
      rintro _ s2 c2 _ htr2
      refine pc_conseq (tbl_pc_popSetMode tblPops_pop (spec := fun σ =>
          if (!Spec.TreeModes.hasStrInTableScope σ t.name) = true then
            pure (Step.done (σ.err "in table body: end tag without element in table scope"))
          else pure (Step.done ((Spec.TreeModes.clearBackToTableBody σ).pop.setMode .inTable)))
        (htr1.trans htr2) .inTable (by decide) (.tag t) ?_) ?_
      · rintro x x2 hx ⟨x1, ⟨hx1, e1, hb⟩, hx2, e2⟩
        subst x2
        subst x1
        simp only [← hb, Bool.not_true, Bool.false_eq_true, if_false]
        rw [e2, ← e1]
        rfl
      · intro res s' c _ hp
        rw [← List.append_assoc]
        exact hp
  | false =>
    simp only [Bool.false_eq_true, if_false]
    by_cases h2 : t.name = "table".toList
    · simp +decide only [h2, if_true]
      exact tbl_pc_closeBody hm _
    · simp +decide only [h2, if_false]
      cases h3 : (decide (t.name = "body".toList) || (decide (t.name = "caption".toList) || (decide (t.name = "col".toList) ||
          (decide (t.name = "colgroup".toList) || (decide (t.name = "html".toList) || (decide (t.name = "td".toList) ||
          (decide (t.name = "th".toList) || decide (t.name = "tr".toList)))))))) with
      | true =>
        simp only [if_true]
        exact pc_unexpected_err hm _ _
      | false =>
        simp only [Bool.false_eq_true, if_false]
        refine pc_tokPost_congr (sim_inTable hhead hbody (.tag t) rfl hwf s hm) ?_
        intro x hx
        simp only [stokOf, stokOfTag_end hk]

theorem modeSim_inTableBody (hhead : StepSimTok stepInHead Spec.TreeModes.inHead)
    (hbody : StepSimTok stepInBody Spec.TreeModes.inBody) : ModeSim .inTableBody := by
  intro tok hch hwf s _ hm hmode _
  have hmσ : ∀ x, (absF s x).mode = .inTableBody := fun x => by show imode s.mode = _; rw [hmode]; rfl
  show PC (stepInTableBody tok) s _
  cases tok with
  | chars st text => cases hch
  | nullChar =>
    simp only [stepInTableBody]
    refine pc_tokPost_congr (sim_inTable hhead hbody .nullChar rfl hwf s hm) ?_
    intro x hx
    exact byModeDev_inTableBody_char (hmσ x) _
  | comment text =>
    simp only [stepInTableBody]
    refine pc_tokPost_congr (sim_inTable hhead hbody (.comment text) rfl hwf s hm) ?_
    intro x hx
    rw [byModeDev_inTableBody (hmσ x)]
    simp only [stokOf, Spec.TreeModes.inTableBody]
  | eof =>
    simp only [stepInTableBody]
    refine pc_tokPost_congr (sim_inTable hhead hbody .eof rfl hwf s hm) ?_
    intro x hx
    rw [byModeDev_inTableBody (hmσ x)]
    simp only [stokOf, Spec.TreeModes.inTableBody]
  | tag t =>
    refine pc_tokPost_congr (spec' := fun σ => Spec.TreeModes.inTableBody (cfgOf s) σ (stokOf (.tag t))) ?_
      (fun x _ => byModeDev_inTableBody (hmσ x) _)
    cases hk : t.kind with
    | startTag => exact sim_inTableBody_start hhead hbody t hwf hk s hm
    | endTag => exact sim_inTableBody_end hhead hbody t hwf hk s hm


/-! ### "in row" -/

/-- "Clear the stack back to a table row context.  Pop the current node (which will be a tr element) from the
stack of open elements.  Switch the insertion mode to "in table body".  Reprocess the token." -/
theorem tbl_pc_clearRowRe {s s0 : State} {c0 : List Call} {R0 : Aux → Aux → Prop} {spec : SState → Spec.TreeModes.M (Step Id)}
    (h0 : Tr s s0 c0 R0) (tok : Token) (site : String)
    (hspec : ∀ x x0, AuxOk s x → R0 x x0 →
      spec (absF s x) = .ok (.reprocess ((Spec.TreeModes.clearBackToTableRow (absF s0 x0)).pop.setMode .inTableBody))) :
    PC (popUntilCurrent tableRowContext >>= fun _ => popTr site >>= fun _ =>
        pure (ProcessResult.reprocess .inTableBody tok)) s0
      (fun res s' c => TokPost spec s tok res s' (c0 ++ c)) := by
  refine pc_seq (pc_popUntilCurrent_tableRow h0.1) ?_
  rintro _ s1 c1 _ htr1
  refine pc_conseq (tbl_pc_popReprocess (tblPops_popTr site) (spec := spec) (h0.trans htr1) .inTableBody (by decide) tok ?_) ?_
  · rintro x x1 hx ⟨x0, r0, hx1, e1⟩
    subst x1
    rw [hspec x x0 hx r0, e1]
    rfl
  · intro res s' c _ hp
    rw [← List.append_assoc]
    exact hp

/-- "… Switch the insertion mode to "in table body"." (the `tr` end tag) -/
theorem tbl_pc_clearRowSet {s s0 : State} {c0 : List Call} {R0 : Aux → Aux → Prop} {spec : SState → Spec.TreeModes.M (Step Id)}
    (h0 : Tr s s0 c0 R0) (tok : Token) (site : String)
    (hspec : ∀ x x0, AuxOk s x → R0 x x0 →
      spec (absF s x) = .ok (.done ((Spec.TreeModes.clearBackToTableRow (absF s0 x0)).pop.setMode .inTableBody))) :
    PC (popUntilCurrent tableRowContext >>= fun _ => popTr site >>= fun _ => setMode .inTableBody >>= fun _ =>
        pure ProcessResult.done) s0
      (fun res s' c => TokPost spec s tok res s' (c0 ++ c)) := by
  refine pc_seq (pc_popUntilCurrent_tableRow h0.1) ?_
  rintro _ s1 c1 _ htr1
  refine pc_conseq (tbl_pc_popSetMode (tblPops_popTr site) (spec := spec) (h0.trans htr1) .inTableBody (by decide) tok ?_) ?_
  · rintro x x1 hx ⟨x0, r0, hx1, e1⟩
    subst x1
    rw [hspec x x0 hx r0, e1]
    rfl
  · intro res s' c _ hp
    rw [← List.append_assoc]
    exact hp

/-- "If the stack of open elements does not have a tr element in table scope, this is a parse error; ignore
the token.  Otherwise: (close the row).  Reprocess the token." -/
theorem tbl_pc_closeRowRe {s : State} (hm : MInv s) (tok : Token) (w : String) :
    PC (inScopeNamed tableScope "tr" >>= fun b =>
        if b = true then popUntilCurrent tableRowContext >>= fun _ => popTr "mod.rs:637" >>= fun _ =>
          pure (ProcessResult.reprocess .inTableBody tok)
        else unexpected) s
      (TokPost (fun σ =>
        if (!Spec.TreeModes.hasInTableScope σ "tr") = true then pure (Step.done (σ.err w))
        else pure (Step.reprocess ((Spec.TreeModes.clearBackToTableRow σ).pop.setMode .inTableBody))) s tok) := by
  refine pc_seq (pc_inScopeNamed_table hm "tr") ?_
  rintro b s1 c1 _ htr1
  cases b with
  | false =>
    simp only [Bool.false_eq_true, if_false]
    refine pc_conseq (pc_unexpected htr1.1) ?_
    rintro _ s2 c2 _ ⟨rfl, htr2⟩
    refine tokPost_of_tr (htr1.trans htr2) trivial ?_
    rintro x x2 hx hx2 ⟨x1, ⟨hx1, e1, hb⟩, hx2e, e2⟩
    subst x2
    subst x1
    refine ⟨{ x with errors := x.errors ++ [w] }, ?_, ⟨rfl, rfl, rfl, rfl, rfl⟩, Or.inl rfl, rfl, rfl⟩
    simp only [← hb, Bool.not_false, if_true, stepOf]
    rw [e1, e2]
    rfl
  | true =>
    simp only [if_true]
    refine tbl_pc_clearRowRe htr1 tok _ ?_
    rintro x x1 hx ⟨hx1, e1, hb⟩
    subst x1
    simp only [← hb, Bool.not_true, Bool.false_eq_true, if_false]
    rw [e1]
    rfl

theorem sim_inRow_start (hhead : StepSimTok stepInHead Spec.TreeModes.inHead)
    (hbody : StepSimTok stepInBody Spec.TreeModes.inBody) (t : Tag) (hwf : TagWf t) (hk : t.kind = .startTag)
    (s : State) (hm : MInv s) :
    PC (stepInRow (.tag t)) s
      (TokPost (fun σ => Spec.TreeModes.inRow (cfgOf s) σ (stokOf (.tag t))) s (.tag t)) := by
  simp only [stepInRow, Tag.isStart, Tag.isEnd, isOneOf_cons, isOneOf_nil, Bool.or_false, hk, tbl_kind_se, tbl_kind_ss,
    Bool.false_and, Bool.true_and, Bool.false_eq_true, if_false, Bool.or_false]
  simp only [stokOf, stokOfTag_start hk, Spec.TreeModes.inRow, Spec.TreeModes.Tag.isOneOf,
    strIsOneOf_cons, strIsOneOf_nil, Bool.or_false, specTag_name]
  cases h1 : (decide (t.name = "th".toList) || decide (t.name = "td".toList)) with
  | true =>
    simp only [if_true]
    refine pc_seq (pc_popUntilCurrent_tableRow hm) ?_
    rintro _ s1 c1 _ htr1
    refine pc_seq (pc_insertElementFor' htr1.1 hwf.plain) ?_
    rintro a s2 c2 _ ⟨-, -, -, -, -, htr2⟩
    refine pc_seq (pc_setMode_junk htr2.1 .inCell (by decide)) ?_
    rintro _ s3 c3 _ ⟨-, htr3⟩
    refine pc_seq (pc_pushMarker htr3.1) ?_
    rintro _ s4 c4 _ ⟨-, htr4⟩
    refine pc_pure ?_
    rw [List.append_nil, ← List.append_assoc, ← List.append_assoc]
    refine tokPost_of_tr (((htr1.trans htr2).trans htr3).trans htr4) trivial ?_
    rintro x x4 hx hx4 ⟨x3, ⟨x2, ⟨x1, ⟨hx1, e1⟩, e2⟩, hx3, e3⟩, hx4e, e4⟩
    subst x4
    subst x1
    refine ⟨x3, ?_, AuxSame.rfl', Or.inl rfl, rfl, rfl⟩
    rw [← e1, e2]
    simp only [stepOf]
    rw [← e4, e3]
    rfl
  | false =>
    simp only [Bool.false_eq_true, if_false]
    cases h2 : (decide (t.name = "caption".toList) || (decide (t.name = "col".toList) ||
        (decide (t.name = "colgroup".toList) || (decide (t.name = "tbody".toList) ||
        (decide (t.name = "tfoot".toList) || (decide (t.name = "thead".toList) || decide (t.name = "tr".toList))))))) with
    | true =>
      simp only [if_true]
      exact tbl_pc_closeRowRe hm _ _
    | false =>
      simp only [Bool.false_eq_true, if_false]
      refine pc_tokPost_congr (sim_inTable hhead hbody (.tag t) rfl hwf s hm) ?_
      intro x hx
      simp only [stokOf, stokOfTag_start hk]

theorem sim_inRow_end (hhead : StepSimTok stepInHead Spec.TreeModes.inHead)
    (hbody : StepSimTok stepInBody Spec.TreeModes.inBody) (t : Tag) (hwf : TagWf t) (hk : t.kind = .endTag)
    (s : State) (hm : MInv s) :
    PC (stepInRow (.tag t)) s
      (TokPost (fun σ => Spec.TreeModes.inRow (cfgOf s) σ (stokOf (.tag t))) s (.tag t)) := by
  simp only [stepInRow, Tag.isStart, Tag.isEnd, isOneOf_cons, isOneOf_nil, Bool.or_false, hk, tbl_kind_es, tbl_kind_ee,
    Bool.false_and, Bool.true_and, Bool.false_eq_true, if_false, Bool.or_false, Bool.false_or]
  simp only [stokOf, stokOfTag_end hk, Spec.TreeModes.inRow, Spec.TreeModes.Tag.is, Spec.TreeModes.Tag.isOneOf, strIs_eq,
    strIsOneOf_cons, strIsOneOf_nil, Bool.or_false, specTag_name]
  by_cases h1 : t.name = "tr".toList
  · simp +decide only [h1, if_true]
    refine pc_seq (pc_inScopeNamed_table hm "tr") ?_
    rintro b s1 c1 _ htr1
    cases b with
    | false =>
      simp only [Bool.false_eq_true, if_false]
      refine pc_seq (pc_unexpected htr1.1) ?_
      rintro _ s2 c2 _ ⟨-, htr2⟩
      refine pc_pure ?_
      rw [List.append_nil]
      refine tokPost_of_tr (htr1.trans htr2) trivial ?_
      rintro x x2 hx hx2 ⟨x1, ⟨hx1, e1, hb⟩, hx2e, e2⟩
      subst x2
      subst x1
      refine ⟨{ x with errors := x.errors ++ ["in row: tr end tag without tr in table scope"] }, ?_,
        ⟨rfl, rfl, rfl, rfl, rfl⟩, Or.inl rfl, rfl, rfl⟩
      simp only [← hb, Bool.not_false, if_true, stepOf]
      rw [e1, e2]
      rfl
    | true =>
      simp only [if_true]
      refine tbl_pc_clearRowSet htr1 _ _ ?_
      rintro x x1 hx ⟨hx1, e1, hb⟩
      subst x1
      simp only [← hb, Bool.not_true, Bool.false_eq_true, if_false]
      rw [e1]
      rfl
  · simp +decide only [h1, if_false]
    by_cases h2 : t.name = "table".toList
    · simp +decide only [h2, if_true]
      exact tbl_pc_closeRowRe hm _ _
    · simp +decide only [h2, if_false]
      cases h3 : (decide (t.name = "tbody".toList) || (decide (t.name = "tfoot".toList) || decide (t.name = "thead".toList))) with
      | true =>
        simp only [if_true]
        refine pc_seq (pc_inScopeNamedS_table hm t.name) ?_
        rintro b s1 c1 _ htr1
        cases b with
        | false =>
          simp only [Bool.false_eq_true, if_false]
          refine pc_conseq (pc_unexpected htr1.1) ?_
          rintro _ s2 c2 _ ⟨rfl, htr2⟩
          refine tokPost_of_tr (htr1.trans htr2) trivial ?_
          rintro x x2 hx hx2 ⟨x1, ⟨hx1, e1, hb⟩, hx2e, e2⟩
          subst x2
          subst x1
          refine ⟨{ x with errors := x.errors ++ ["in row: end tag without element in table scope"] }, ?_,
            ⟨rfl, rfl, rfl, rfl, rfl⟩, Or.inl rfl, rfl, rfl⟩
          simp only [← hb, Bool.not_false, if_true, stepOf]
          rw [e1, e2]
          rfl
        | true =>
          simp only [if_true]
          refine pc_seq (pc_inScopeNamed_table htr1.1 "tr") ?_
          rintro b2 s2 c2 _ htr2
          cases b2 with
          | false =>
            simp only [Bool.false_eq_true, if_false]
            refine pc_pure ?_
            rw [List.append_nil]
            refine tokPost_of_tr (htr1.trans htr2) trivial ?_
            rintro x x2 hx hx2 ⟨x1, ⟨hx1, e1, hb⟩, hx2e, e2, hb2⟩
            subst x2
            subst x1
            refine ⟨x, ?_, AuxSame.rfl', Or.inl rfl, rfl, rfl⟩
            rw [← e1] at hb2
            simp only [← hb, ← hb2, Bool.not_true, Bool.not_false, Bool.false_eq_true, if_false, if_true, stepOf]
            rw [e1, e2]
            rfl
          | true =>
            simp only [if_true]
            have := tbl_pc_clearRowRe (spec := fun σ =>
              if (!Spec.TreeModes.hasStrInTableScope σ t.name) = true then
                pure (Step.done (σ.err "in row: end tag without element in table scope"))
              else if (!Spec.TreeModes.hasInTableScope σ "tr") = true then pure (Step.done σ)
              else pure (Step.reprocess ((Spec.TreeModes.clearBackToTableRow σ).pop.setMode .inTableBody)))
              (htr1.trans htr2) (.tag t) "mod.rs:637" ?_
            · simp only [List.append_assoc] at this
              exact this
            · rintro x x2 hx ⟨x1, ⟨hx1, e1, hb⟩, hx2e, e2, hb2⟩
              subst x2
              subst x1
              rw [← e1] at hb2
              simp only [← hb, ← hb2, Bool.not_true, Bool.false_eq_true, if_false]
              rw [← e2, ← e1]
              rfl
      | false =>
        simp only [Bool.false_eq_true, if_false]
        cases h4 : (decide (t.name = "body".toList) || (decide (t.name = "caption".toList) || (decide (t.name = "col".toList) ||
            (decide (t.name = "colgroup".toList) || (decide (t.name = "html".toList) || (decide (t.name = "td".toList) ||
            decide (t.name = "th".toList))))))) with
        | true =>
          simp only [if_true]
          exact pc_unexpected_err hm _ _
        | false =>
          simp only [Bool.false_eq_true, if_false]
          refine pc_tokPost_congr (sim_inTable hhead hbody (.tag t) rfl hwf s hm) ?_
          intro x hx
          simp only [stokOf, stokOfTag_end hk]

theorem modeSim_inRow (hhead : StepSimTok stepInHead Spec.TreeModes.inHead)
    (hbody : StepSimTok stepInBody Spec.TreeModes.inBody) : ModeSim .inRow := by
  intro tok hch hwf s _ hm hmode _
  have hmσ : ∀ x, (absF s x).mode = .inRow := fun x => by show imode s.mode = _; rw [hmode]; rfl
  show PC (stepInRow tok) s _
  cases tok with
  | chars st text => cases hch
  | nullChar =>
    simp only [stepInRow]
    refine pc_tokPost_congr (sim_inTable hhead hbody .nullChar rfl hwf s hm) ?_
    intro x hx
    exact byModeDev_inRow_char (hmσ x) _
  | comment text =>
    simp only [stepInRow]
    refine pc_tokPost_congr (sim_inTable hhead hbody (.comment text) rfl hwf s hm) ?_
    intro x hx
    rw [byModeDev_inRow (hmσ x)]
    simp only [stokOf, Spec.TreeModes.inRow]
  | eof =>
    simp only [stepInRow]
    refine pc_tokPost_congr (sim_inTable hhead hbody .eof rfl hwf s hm) ?_
    intro x hx
    rw [byModeDev_inRow (hmσ x)]
    simp only [stokOf, Spec.TreeModes.inRow]
  | tag t =>
    refine pc_tokPost_congr (spec' := fun σ => Spec.TreeModes.inRow (cfgOf s) σ (stokOf (.tag t))) ?_
      (fun x _ => byModeDev_inRow (hmσ x) _)
    cases hk : t.kind with
    | startTag => exact sim_inRow_start hhead hbody t hwf hk s hm
    | endTag => exact sim_inRow_end hhead hbody t hwf hk s hm

end H5V.Lemmas.HtmlTBModes
