import H5V.Lemmas.HtmlJointChunkMerge
import H5V.Props.C03Tree
/-!
C03 for the JOINT model, part 3: the joint state after a joint run is the tree builder fed a token list
(`Replays`): every delivery is an `absorb`, and `absorb` is `processTokens` plus counters and the
tokenizer's `process_token_and_continue` assertion.  This is what connects the joint model to the
token-level theorems of `H5V.Props.C03Tree`.
-/
namespace H5V.Lemmas.JointChunk
open H5V.Model.HtmlTok (Mach clr step fuelFor feedBom)
open H5V.Model.HtmlTB (processToken processTokens TokToken SinkResult finishTB)
open H5V.Model.HtmlTB.Joint (JState absorb polOf RunRes conv)

abbrev TokList := List (TokToken × Nat)

/-- `j'` is `j` after the tree builder was fed some token list -/
def Replays (j j' : JState) : Prop :=
  ∃ ts : TokList, processTokens ts j.results j.tb = .ok (j'.results, j'.tb)

theorem Replays.refl (j : JState) : Replays j j := ⟨[], rfl⟩

theorem Replays.trans {a b c : JState} (h1 : Replays a b) (h2 : Replays b c) : Replays a c := by
  obtain ⟨t1, e1⟩ := h1
  obtain ⟨t2, e2⟩ := h2
  refine ⟨t1 ++ t2, ?_⟩
  rw [H5V.Props.C03.processTokens_append, H5V.Lemmas.TBSplit.bind_apply, e1]
  exact e2

/-- is the token a tag? (the tokenizer asserts `Continue` for everything else) -/
def isTagT (tt : TokToken) : Bool := match tt with | .tag _ => true | _ => false

theorem absorb_cons (t : H5V.Model.HtmlTok.Token) (line : Nat) (rest : List (H5V.Model.HtmlTok.Token × Nat)) (j : JState) :
    absorb ((t, line) :: rest) j =
      match conv t with
      | none => absorb rest j
      | some tt =>
        match (processToken tt line).run j.tb with
        | .error e => .error e
        | .ok (r, tb) =>
          if !isTagT tt && r != .continue_ then .error "assert@tokenizer/mod.rs:257: process_token_and_continue"
          else absorb rest { j with tb := tb, results := if r == .continue_ then j.results else r :: j.results,
                                    nTokens := j.nTokens + 1, nEof := j.nEof + (if tt == .eof then 1 else 0),
                                    lastWasEof := tt == .eof } := by
  rw [absorb]
  rfl

theorem absorb_replays : ∀ (toks : List (H5V.Model.HtmlTok.Token × Nat)) (j j' : JState),
    absorb toks j = .ok j' → Replays j j'
  | [], j, j', h => by cases h; exact Replays.refl j
  | (t, line) :: rest, j, j', h => by
    rw [absorb_cons] at h
    cases hc : conv t with
    | none => rw [hc] at h; exact absorb_replays rest j j' h
    | some tt =>
      rw [hc] at h
      simp only at h
      cases hp : (processToken tt line).run j.tb with
      | error e => rw [hp] at h; cases h
      | ok v =>
        obtain ⟨r, tb⟩ := v
        rw [hp] at h
        simp only at h
        by_cases hcnd : (!isTagT tt && r != .continue_) = true
        · rw [if_pos hcnd] at h; cases h
        · rw [if_neg hcnd] at h
          have ih := absorb_replays rest _ j' h
          refine Replays.trans ⟨[(tt, line)], ?_⟩ ih
          simp only [processTokens]
          rw [H5V.Lemmas.TBSplit.bind_apply]
          have : processToken tt line j.tb = .ok (r, tb) := hp
          rw [this]
          rfl

theorem deliver_replays {j : JState} {m : Mach} {k : Mach → JState → RunRes} {P : RunRes → Prop}
    (hk : ∀ j1, Replays j j1 → P (k (clr m) j1)) (hp : ∀ e, P (.panic e)) : P (deliver j m k) := by
  unfold deliver
  cases ha : absorb m.out.reverse j with
  | error e => exact hp e
  | ok j1 => exact hk j1 (absorb_replays _ _ _ ha)

/-- the joint state a run hands back -/
def stateOf : RunRes → Option JState
  | .done _ _ j => some j
  | .script _ _ j => some j
  | .indicator _ _ j => some j
  | .panic _ => none

theorem run_replays (o : TOpts) : ∀ (fuel : Nat) (m : Mach) (inp : Chars) (j j' : JState),
    stateOf (jrun o fuel m inp j) = some j' → Replays j j'
  | 0, _, _, _, _, h => by rw [run_zero] at h; cases h
  | fuel + 1, m, inp, j, j', h => by
    rw [run_succ] at h
    cases hs : step o (polOf j) m inp with
    | panic e => rw [hs] at h; cases h
    | cont m1 i1 =>
      rw [hs] at h
      simp only [deliver] at h
      cases ha : absorb m1.out.reverse j with
      | error e => rw [ha] at h; cases h
      | ok j1 =>
        rw [ha] at h
        exact (absorb_replays _ _ _ ha).trans (run_replays o fuel _ _ _ _ h)
    | suspend m1 i1 =>
      rw [hs] at h
      simp only [deliver] at h
      cases ha : absorb m1.out.reverse j with
      | error e => rw [ha] at h; cases h
      | ok j1 => rw [ha] at h; cases h; exact absorb_replays _ _ _ ha
    | script m1 i1 =>
      rw [hs] at h
      simp only [deliver] at h
      cases ha : absorb m1.out.reverse j with
      | error e => rw [ha] at h; cases h
      | ok j1 => rw [ha] at h; cases h; exact absorb_replays _ _ _ ha
    | indicator m1 i1 =>
      rw [hs] at h
      simp only [deliver] at h
      cases ha : absorb m1.out.reverse j with
      | error e => rw [ha] at h; cases h
      | ok j1 => rw [ha] at h; cases h; exact absorb_replays _ _ _ ha

theorem processChunk_replays (o : TOpts) : ∀ (N : Nat) (m : Mach) (inp chunk : Chars) (j : JState) (m' : Mach)
    (i' : Chars) (j' : JState), jprocessChunk o N m inp chunk j = .ok (m', i', j') → Replays j j'
  | 0, _, _, _, _, _, _, _, h => by rw [processChunk_zero] at h; cases h
  | N + 1, m, inp, chunk, j, m', i', j', h => by
    rw [processChunk_succ] at h
    split at h
    · cases h; exact Replays.refl j
    · have key := run_replays o (fuelFor (feedBom m (inp ++ chunk)).1 (feedBom m (inp ++ chunk)).2)
        (feedBom m (inp ++ chunk)).1 (feedBom m (inp ++ chunk)).2 j
      generalize jrun o (fuelFor (feedBom m (inp ++ chunk)).1 (feedBom m (inp ++ chunk)).2)
        (feedBom m (inp ++ chunk)).1 (feedBom m (inp ++ chunk)).2 j = r at h key
      cases r with
      | done m1 i1 j1 =>
        simp only [afterRun] at h
        cases h
        exact key _ rfl
      | script m1 i1 j1 =>
        simp only [afterRun] at h
        exact (key j1 rfl).trans (processChunk_replays o N _ _ _ _ _ _ _ h)
      | indicator m1 i1 j1 =>
        simp only [afterRun] at h
        exact (key j1 rfl).trans (processChunk_replays o N _ _ _ _ _ _ _ h)
      | panic e => simp only [afterRun] at h; cases h

/-! ### `Joint.finish` -/

/-- the flush of a pending character reference at the start of `Tokenizer::end` -/
def finishPrologue (o : TOpts) (m : Mach) (j : JState) : Except String (Mach × Chars × JState) :=
  match m.charRef with
  | none => .ok (m, [], j)
  | some cr =>
    match H5V.Model.HtmlTok.crEof o m [] cr with
    | .error e => .error ("tokenizer@tokenizer: " ++ e)
    | .ok (m, inp, chars) =>
      match H5V.Model.HtmlTok.processCharRef (m.setCharRef none) chars with
      | (m, .cont) =>
        match absorb m.out.reverse j with
        | .error e => .error e
        | .ok j => .ok (clr m, inp, j)
      | (_, .panic e) => .error ("tokenizer@tokenizer: " ++ e)
      | (_, _) => .error "tokenizer@tokenizer: process_char_ref: unexpected signal"

/-- the rest of `Tokenizer::end` and `TreeBuilder::end` -/
def finishMain (o : TOpts) (m : Mach) (inp : Chars) (j : JState) : Except String JState :=
  match jrun o (fuelFor m inp) m inp j with
  | .done m inp j => finishTail o m inp j
  | .script _ _ _ => .error "assert@tokenizer/mod.rs: matches!(self.run(&input), TokenizerResult::Done)"
  | .indicator _ _ _ => .error "assert@tokenizer/mod.rs: matches!(self.run(&input), TokenizerResult::Done)"
  | .panic e => .error e

theorem finish_eq (o : TOpts) (m : Mach) (j : JState) :
    H5V.Model.HtmlTB.Joint.finish o m j =
      match finishPrologue o m j with
      | .error e => .error e
      | .ok (m1, inp, j1) => finishMain o (m1.setAtEof true) inp j1 := by
  have main : ∀ (m1 : Mach) (inp : Chars) (j1 : JState),
      (match jrun o (fuelFor (m1.setAtEof true) inp) (m1.setAtEof true) inp j1 with
        | .done m inp j =>
          (if !inp.isEmpty then throw "assert@tokenizer/mod.rs: assertion failed: input.is_empty()"
          else
            match H5V.Model.HtmlTok.eofLoop o 8 m with
            | .error e => throw ("tokenizer@tokenizer: " ++ e)
            | .ok m => do
              let j ← absorb m.out.reverse j
              match finishTB.run j.tb with
              | .error e => throw e
              | .ok (_, tb) => pure { j with tb := tb } : Except String JState)
        | .script _ _ _ => throw "assert@tokenizer/mod.rs: matches!(self.run(&input), TokenizerResult::Done)"
        | .indicator _ _ _ => throw "assert@tokenizer/mod.rs: matches!(self.run(&input), TokenizerResult::Done)"
        | .panic e => throw e) = finishMain o (m1.setAtEof true) inp j1 := by
    intro m1 inp j1
    unfold finishMain
    cases jrun o (fuelFor (m1.setAtEof true) inp) (m1.setAtEof true) inp j1 with
    | done m2 i2 j2 =>
      simp only [finishTail]
      split
      · rfl
      · cases H5V.Model.HtmlTok.eofLoop o 8 m2 with
        | error e => rfl
        | ok m3 =>
          simp only
          cases absorb m3.out.reverse j2 with
          | error e => rfl
          | ok j3 => rfl
    | script _ _ _ => rfl
    | indicator _ _ _ => rfl
    | panic e => rfl
  unfold H5V.Model.HtmlTB.Joint.finish finishPrologue
  cases hcr : m.charRef with
  | none => exact main m [] j
  | some cr =>
    simp only
    cases H5V.Model.HtmlTok.crEof o m [] cr with
    | error e => rfl
    | ok v =>
      obtain ⟨m1, inp, chars⟩ := v
      simp only
      cases hp : H5V.Model.HtmlTok.processCharRef (m1.setCharRef none) chars with
      | mk m2 sg =>
        cases sg with
        | cont =>
          simp only
          cases absorb m2.out.reverse j with
          | error e => rfl
          | ok j1 => exact main (clr m2) inp j1
        | script => rfl
        | indicator => rfl
        | panic e => rfl

theorem finishTail_replays {o : TOpts} {m : Mach} {inp : Chars} {j jf : JState} (h : finishTail o m inp j = .ok jf) :
    ∃ j2, Replays j j2 ∧ jf.results = j2.results ∧ finishTB.run j2.tb = .ok ((), jf.tb) := by
  unfold finishTail at h
  split at h
  · cases h
  · cases he : H5V.Model.HtmlTok.eofLoop o 8 m with
    | error e => rw [he] at h; cases h
    | ok m2 =>
      rw [he] at h
      simp only at h
      cases ha : absorb m2.out.reverse j with
      | error e => rw [ha] at h; cases h
      | ok j2 =>
        rw [ha] at h
        simp only at h
        cases hf : finishTB.run j2.tb with
        | error e => rw [hf] at h; cases h
        | ok v =>
          obtain ⟨⟨⟩, tb⟩ := v
          rw [hf] at h
          cases h
          exact ⟨j2, absorb_replays _ _ _ ha, rfl, hf⟩

theorem finish_replays {o : TOpts} {m : Mach} {j jf : JState} (h : H5V.Model.HtmlTB.Joint.finish o m j = .ok jf) :
    ∃ j2, Replays j j2 ∧ jf.results = j2.results ∧ finishTB.run j2.tb = .ok ((), jf.tb) := by
  rw [finish_eq] at h
  cases hp : finishPrologue o m j with
  | error e => rw [hp] at h; cases h
  | ok v =>
    obtain ⟨m1, inp, j1⟩ := v
    rw [hp] at h
    simp only at h
    have h1 : Replays j j1 := by
      unfold finishPrologue at hp
      split at hp
      · cases hp; exact Replays.refl j
      · split at hp
        · cases hp
        · split at hp
          · cases ha : absorb _ j with
            | error e => rw [ha] at hp; cases hp
            | ok j' => rw [ha] at hp; cases hp; exact absorb_replays _ _ _ ha
          · cases hp
          · cases hp
    unfold finishMain at h
    have key := run_replays o (fuelFor (m1.setAtEof true) inp) (m1.setAtEof true) inp j1
    generalize jrun o (fuelFor (m1.setAtEof true) inp) (m1.setAtEof true) inp j1 = r at h key
    cases r with
    | done m2 i2 j2 =>
      simp only at h
      obtain ⟨j3, h3, h4, h5⟩ := finishTail_replays h
      exact ⟨j3, (h1.trans (key j2 rfl)).trans h3, h4, h5⟩
    | script _ _ _ => cases h
    | indicator _ _ _ => cases h
    | panic e => cases h

end H5V.Lemmas.JointChunk
