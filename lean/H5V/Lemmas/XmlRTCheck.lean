import H5V.Lemmas.XmlRTDoc
/-!
C17, tokenizer half, part 12: a decidable form of the lexical side conditions (`nodesLexB`, sound for
`nodesLex`), and a structural equality test on trees (`nodesBeq`, sound for `=`), for the evaluated
examples.
-/
namespace H5V.Lemmas.XmlRT
open H5V.Model.XmlTB H5V.Model.XmlSer

def nmChB (c : Char) : Bool :=
  c != '\t' && c != '\n' && c != ' ' && c != '/' && c != '>' && c != '\r' && c != '\x00'

theorem nmCh_of {c : Char} (h : nmChB c = true) : NmCh c := by
  simp only [nmChB, Bool.and_eq_true, bne_iff_ne, ne_eq] at h
  obtain ⟨⟨⟨⟨⟨⟨h1, h2⟩, h3⟩, h4⟩, h5⟩, h6⟩, h7⟩ := h
  exact ⟨h1, h2, h3, h4, h5, h6, h7⟩

def tagNameLexB : Str → Bool
  | [] => false
  | c :: t => nmChB c && c != '!' && c != '?' && c != ':' && c != '<' && t.all nmChB

theorem tagNameLex_of {s : Str} (h : tagNameLexB s = true) : TagNameLex s := by
  cases s with
  | nil => cases h
  | cons c t =>
    simp only [tagNameLexB, Bool.and_eq_true, bne_iff_ne, ne_eq, List.all_eq_true] at h
    obtain ⟨⟨⟨⟨⟨h1, h2⟩, h3⟩, h4⟩, h5⟩, h6⟩ := h
    exact ⟨c, t, rfl, nmCh_of h1, ⟨h2, h3, h4, h5⟩, fun d hd => nmCh_of (h6 d hd)⟩

def attrNameLexB : Str → Bool
  | [] => false
  | c :: t => nmChB c && c != ':' && t.all (fun d => nmChB d && d != '=')

theorem attrNameLex_of {s : Str} (h : attrNameLexB s = true) : AttrNameLex s := by
  cases s with
  | nil => cases h
  | cons c t =>
    simp only [attrNameLexB, Bool.and_eq_true, bne_iff_ne, ne_eq, List.all_eq_true] at h
    obtain ⟨⟨h1, h2⟩, h3⟩ := h
    exact ⟨c, t, rfl, nmCh_of h1, h2, fun d hd => ⟨nmCh_of (h3 d hd).1, (h3 d hd).2⟩⟩

def pfxLexB : Option Str → Bool
  | none => true
  | some q => q.all (fun d => nmChB d && d != '=')

theorem pfxLex_of {p : Option Str} (h : pfxLexB p = true) : PfxLex p := by
  intro q hq d hd
  subst hq
  simp only [pfxLexB, List.all_eq_true, Bool.and_eq_true, bne_iff_ne, ne_eq] at h
  exact ⟨nmCh_of (h d hd).1, (h d hd).2⟩

def noNulB (s : Str) : Bool := s.all (fun c => c != '\x00')

theorem noNul_of {s : Str} (h : noNulB s = true) : NoNul s := by
  intro c hc
  simp only [noNulB, List.all_eq_true, bne_iff_ne, ne_eq] at h
  exact h c hc

def elemLexB (n : QName) (as : List Attr) : Bool :=
  tagNameLexB (rawName n) && pfxLexB n.pfx && noNulB n.ns &&
    as.all (fun a => attrNameLexB (rawName a.name) && pfxLexB a.name.pfx && noNulB a.name.ns && noNulB a.value)

theorem elemLex_of {n : QName} {as : List Attr} (h : elemLexB n as = true) : ElemLex n as := by
  simp only [elemLexB, Bool.and_eq_true, List.all_eq_true] at h
  obtain ⟨⟨⟨h1, h2⟩, h3⟩, h4⟩ := h
  exact ⟨tagNameLex_of h1, pfxLex_of h2, noNul_of h3, fun a ha =>
    ⟨attrNameLex_of (h4 a ha).1.1.1, pfxLex_of (h4 a ha).1.1.2, noNul_of (h4 a ha).1.2, noNul_of (h4 a ha).2⟩⟩

def plainB (c : Char) : Bool := c != '\r' && c != '\x00'
theorem plain_of {c : Char} (h : plainB c = true) : PlainCh c := by
  simp only [plainB, Bool.and_eq_true, bne_iff_ne, ne_eq] at h
  exact ⟨h.1, h.2⟩

def noWs3B (c : Char) : Bool := c != '\t' && c != '\n' && c != ' '
theorem noWs3_of {c : Char} (h : noWs3B c = true) : NoWs3 c := by
  simp only [noWs3B, Bool.and_eq_true, bne_iff_ne, ne_eq] at h
  exact ⟨h.1.1, h.1.2, h.2⟩

def gtOkB (p : Str) : Bool :=
  p != [] && p != ['-'] && !decide (['-', '-'] <:+ p) && !decide (['-', '-', '!'] <:+ p)

theorem gtOk_of {p : Str} (h : gtOkB p = true) : GtOk p := by
  simp only [gtOkB, Bool.and_eq_true, bne_iff_ne, ne_eq, Bool.not_eq_true', decide_eq_false_iff_not] at h
  exact ⟨h.1.1.1, h.1.1.2, h.1.2, h.2⟩

def gtScan (pre : Str) : Str → Bool
  | [] => true
  | c :: t => (c != '>' || gtOkB pre) && gtScan (pre ++ [c]) t

theorem gtScan_sound : ∀ (s pre : Str), gtScan pre s = true → ∀ p t, s = p ++ '>' :: t → GtOk (pre ++ p) := by
  intro s
  induction s with
  | nil => intro pre _ p t e; cases p <;> cases e
  | cons c s ih =>
    intro pre h p t e
    simp only [gtScan, Bool.and_eq_true, Bool.or_eq_true, bne_iff_ne, ne_eq] at h
    cases p with
    | nil =>
      simp only [List.nil_append, List.cons.injEq] at e
      rcases h.1 with h1 | h1
      · exact absurd e.1 h1
      · simpa using gtOk_of h1
    | cons x p' =>
      simp only [List.cons_append, List.cons.injEq] at e
      have := ih (pre ++ [c]) h.2 p' t e.2
      rw [e.1] at this
      simpa using this

def commentLexB (s : Str) : Bool := s.all plainB && gtScan [] s

theorem commentLex_of {s : Str} (h : commentLexB s = true) : CommentLex s := by
  simp only [commentLexB, Bool.and_eq_true, List.all_eq_true] at h
  exact ⟨fun c hc => plain_of (h.1 c hc), fun p t e => by simpa using gtScan_sound s [] h.2 p t e⟩

def piLexB (t d : Str) : Bool :=
  (match t with
   | [] => false
   | c :: t' => plainB c && noWs3B c && t'.all (fun x => plainB x && noWs3B x && x != '?')) &&
  d.all (fun x => plainB x && x != '?') &&
  (match d with
   | [] => true
   | x :: _ => noWs3B x)

theorem piLex_of {t d : Str} (h : piLexB t d = true) : PiLex t d := by
  simp only [piLexB, Bool.and_eq_true] at h
  obtain ⟨⟨h1, h2⟩, h3⟩ := h
  refine ⟨?_, ?_, ?_⟩
  · cases t with
    | nil => cases h1
    | cons c t' =>
      simp only [Bool.and_eq_true, List.all_eq_true, bne_iff_ne, ne_eq] at h1
      exact ⟨c, t', rfl, plain_of h1.1.1, noWs3_of h1.1.2, fun x hx =>
        ⟨plain_of (h1.2 x hx).1.1, noWs3_of (h1.2 x hx).1.2, (h1.2 x hx).2⟩⟩
  · intro x hx
    simp only [List.all_eq_true, Bool.and_eq_true, bne_iff_ne, ne_eq] at h2
    exact ⟨plain_of (h2 x hx).1, (h2 x hx).2⟩
  · intro x hx
    cases d with
    | nil => cases hx
    | cons y d' => simp at hx; subst hx; exact noWs3_of h3

def dtChB (c : Char) : Bool :=
  c != '\t' && c != '\n' && c != '\x0c' && c != ' ' && c != '>' && c != '\r' && c != '\x00' &&
    Model.XmlTok.toAsciiLower c == c

theorem dtCh_of {c : Char} (h : dtChB c = true) : DtCh c := by
  simp only [dtChB, Bool.and_eq_true, bne_iff_ne, ne_eq, beq_iff_eq] at h
  obtain ⟨⟨⟨⟨⟨⟨⟨h1, h2⟩, h3⟩, h4⟩, h5⟩, h6⟩, h7⟩, h8⟩ := h
  exact ⟨h1, h2, h3, h4, h5, h6, h7, h8⟩

mutual
/-- decidable form of `nodeLex` -/
def nodeLexB : Node → Bool
  | .elem n as ks => elemLexB n as && nodesLexB ks
  | .text s => noNulB s
  | .comment s => commentLexB s
  | .pi t d => piLexB t d
  | .doctype n _ _ => n.all dtChB
def nodesLexB : List Node → Bool
  | [] => true
  | n :: rest => nodeLexB n && nodesLexB rest
end

mutual
theorem nodeLex_of : ∀ (n : Node), nodeLexB n = true → nodeLex n
  | .elem n as ks, h => by
    simp only [nodeLexB, Bool.and_eq_true] at h
    exact ⟨elemLex_of h.1, nodesLex_of ks h.2⟩
  | .text s, h => by simp only [nodeLexB] at h; exact noNul_of h
  | .comment s, h => by simp only [nodeLexB] at h; exact commentLex_of h
  | .pi t d, h => by simp only [nodeLexB] at h; exact piLex_of h
  | .doctype n _ _, h => by
    simp only [nodeLexB, List.all_eq_true] at h
    exact fun x hx => dtCh_of (h x hx)
theorem nodesLex_of : ∀ (ns : List Node), nodesLexB ns = true → nodesLex ns
  | [], _ => trivial
  | n :: rest, h => by
    simp only [nodesLexB, Bool.and_eq_true] at h
    exact ⟨nodeLex_of n h.1, nodesLex_of rest h.2⟩
end

/-! ### structural equality of trees -/

mutual
def nodeBeq : Node → Node → Bool
  | .elem n a k, .elem n' a' k' => n == n' && a == a' && nodesBeq k k'
  | .text s, .text s' => s == s'
  | .comment s, .comment s' => s == s'
  | .pi t d, .pi t' d' => t == t' && d == d'
  | .doctype n p s, .doctype n' p' s' => n == n' && p == p' && s == s'
  | _, _ => false
def nodesBeq : List Node → List Node → Bool
  | [], [] => true
  | x :: xs, y :: ys => nodeBeq x y && nodesBeq xs ys
  | _, _ => false
end

mutual
theorem nodeBeq_eq : ∀ (a b : Node), nodeBeq a b = true → a = b
  | .elem n a k, .elem n' a' k', h => by
    simp only [nodeBeq, Bool.and_eq_true, beq_iff_eq] at h
    rw [h.1.1, h.1.2, nodesBeq_eq k k' h.2]
  | .text s, .text s', h => by simp only [nodeBeq, beq_iff_eq] at h; rw [h]
  | .comment s, .comment s', h => by simp only [nodeBeq, beq_iff_eq] at h; rw [h]
  | .pi t d, .pi t' d', h => by simp only [nodeBeq, Bool.and_eq_true, beq_iff_eq] at h; rw [h.1, h.2]
  | .doctype n p s, .doctype n' p' s', h => by
    simp only [nodeBeq, Bool.and_eq_true, beq_iff_eq] at h; rw [h.1.1, h.1.2, h.2]
  | .elem _ _ _, .text _, h | .elem _ _ _, .comment _, h | .elem _ _ _, .pi _ _, h | .elem _ _ _, .doctype _ _ _, h
  | .text _, .elem _ _ _, h | .text _, .comment _, h | .text _, .pi _ _, h | .text _, .doctype _ _ _, h
  | .comment _, .elem _ _ _, h | .comment _, .text _, h | .comment _, .pi _ _, h | .comment _, .doctype _ _ _, h
  | .pi _ _, .elem _ _ _, h | .pi _ _, .text _, h | .pi _ _, .comment _, h | .pi _ _, .doctype _ _ _, h
  | .doctype _ _ _, .elem _ _ _, h | .doctype _ _ _, .text _, h | .doctype _ _ _, .comment _, h
  | .doctype _ _ _, .pi _ _, h => by simp [nodeBeq] at h
theorem nodesBeq_eq : ∀ (a b : List Node), nodesBeq a b = true → a = b
  | [], [], _ => rfl
  | x :: xs, y :: ys, h => by
    simp only [nodesBeq, Bool.and_eq_true] at h
    rw [nodeBeq_eq x y h.1, nodesBeq_eq xs ys h.2]
  | [], _ :: _, h => by simp [nodesBeq] at h
  | _ :: _, [], h => by simp [nodesBeq] at h
end

end H5V.Lemmas.XmlRT
