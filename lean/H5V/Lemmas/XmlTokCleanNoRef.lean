import H5V.Lemmas.XmlTokCleanRefs
/-!
C15 — inputs without `&`: no character reference is ever started, so the machine stays *completely*
clean (`CInv QC`): no CR and no NUL in any buffer or token, attribute values and character tokens
included.

`NA m inp`: no reference is pending, there is no `&` in the unread input nor in the stashed
look-ahead, and a pending reconsume does not re-deliver `&`.
-/
namespace H5V.Model.XmlTok

/-- no `&` ahead: in the stash, in the unread input, in a pending reconsume -/
def NAe (m : Mach) (inp : Str) : Prop :=
  '&' ∉ m.tempBuf ++ inp ∧ (m.reconsume = true → m.currentChar ≠ '&')

def NA (m : Mach) (inp : Str) : Prop := m.charRef = none ∧ NAe m inp

theorem foldChar_ne_amp (o : Opts) (m : Mach) {c : Char} (h : c ≠ '&') : (foldChar o m c).1 ≠ '&' := by
  rw [foldChar_char]
  split
  · decide
  · split
    · decide
    · exact h

theorem preprocess_na (o : Opts) (m : Mach) {c : Char} {inp : Str} (hc : c ≠ '&') (hi : '&' ∉ inp) :
    (∀ x, (preprocess o m c inp).1 = some x → x ≠ '&') ∧ '&' ∉ (preprocess o m c inp).2.2 := by
  unfold preprocess
  split
  · split
    · cases inp with
      | nil => exact ⟨fun x hx => (by cases hx), hi⟩
      | cons c' rest =>
        simp only [List.mem_cons, not_or] at hi
        refine ⟨fun x hx => ?_, hi.2⟩
        simp only [Option.some.injEq] at hx; subst hx
        exact foldChar_ne_amp _ _ (fun e => hi.1 e.symm)
    · refine ⟨fun x hx => ?_, hi⟩
      simp only [Option.some.injEq] at hx; subst hx
      exact foldChar_ne_amp _ _ hc
  · refine ⟨fun x hx => ?_, hi⟩
    simp only [Option.some.injEq] at hx; subst hx
    exact foldChar_ne_amp _ _ hc

theorem getChar_na (o : Opts) {m : Mach} {inp : Str} (hr : m.reconsume = true → m.currentChar ≠ '&')
    (hi : '&' ∉ inp) :
    (∀ x, (getChar o m inp).1 = some x → x ≠ '&') ∧ '&' ∉ (getChar o m inp).2.2 := by
  unfold getChar
  split
  · rename_i h
    refine ⟨fun x hx => ?_, hi⟩
    simp only [Option.some.injEq] at hx; subst hx
    exact hr h
  · cases inp with
    | nil => exact ⟨fun x hx => (by cases hx), hi⟩
    | cons c rest =>
      simp only [List.mem_cons, not_or] at hi
      exact preprocess_na o m (fun e => hi.1 e.symm) hi.2

theorem getChar_reconsume_false (o : Opts) (m : Mach) (inp : Str) : (getChar o m inp).2.1.reconsume = false := by
  unfold getChar
  split
  · rfl
  · rename_i hr
    cases inp with
    | nil => simpa using hr
    | cons c rest => rw [preprocess_reconsume]; simpa using hr

theorem getChar_tempBuf (o : Opts) (m : Mach) (inp : Str) : (getChar o m inp).2.1.tempBuf = m.tempBuf :=
  (getChar_fields o m _ inp _ _ rfl).1
theorem getChar_charRef (o : Opts) (m : Mach) (inp : Str) : (getChar o m inp).2.1.charRef = m.charRef :=
  (getChar_fields o m _ inp _ _ rfl).2.2.2

theorem not_mem_append {a b : Str} : '&' ∉ a ++ b ↔ '&' ∉ a ∧ '&' ∉ b := by
  simp [List.mem_append, not_or]

theorem getChar_nae (o : Opts) {m : Mach} {inp : Str} (h : NAe m inp) :
    NAe (getChar o m inp).2.1 (getChar o m inp).2.2 ∧ ∀ x, (getChar o m inp).1 = some x → x ≠ '&' := by
  obtain ⟨h1, h2⟩ := h
  rw [not_mem_append] at h1
  obtain ⟨g1, g2⟩ := getChar_na o h2 h1.2
  refine ⟨⟨?_, fun hr => ?_⟩, g1⟩
  · rw [not_mem_append, getChar_tempBuf]; exact ⟨h1.1, g2⟩
  · rw [getChar_reconsume_false] at hr; cases hr

theorem popExceptFrom_na (o : Opts) (S : List Char) {m : Mach} {inp : Str}
    (hr : m.reconsume = true → m.currentChar ≠ '&') (hi : '&' ∉ inp) :
    (∀ r, (popExceptFrom o S m inp).1 = some r → r ≠ .fromSet '&') ∧ '&' ∉ (popExceptFrom o S m inp).2.2 := by
  unfold popExceptFrom
  split
  · obtain ⟨g1, g2⟩ := getChar_na o hr hi
    refine ⟨fun r h => ?_, g2⟩
    dsimp only at h
    cases hg : (getChar o m inp).1 with
    | none => rw [hg] at h; cases h
    | some x =>
      rw [hg] at h
      simp only [Option.map_some, Option.some.injEq] at h
      subst h
      intro e
      simp only [SetRes.fromSet.injEq] at e
      exact g1 x hg e
  · cases inp with
    | nil => exact ⟨fun r h => (by cases h), hi⟩
    | cons c rest =>
      simp only [List.mem_cons, not_or] at hi
      dsimp only
      split
      · obtain ⟨g1, g2⟩ := preprocess_na o m (fun e => hi.1 e.symm) hi.2
        refine ⟨fun r h => ?_, g2⟩
        dsimp only at h
        cases hg : (preprocess o m c rest).1 with
        | none => rw [hg] at h; cases h
        | some x =>
          rw [hg] at h
          simp only [Option.map_some, Option.some.injEq] at h
          subst h
          intro e
          simp only [SetRes.fromSet.injEq] at e
          exact g1 x hg e
      · refine ⟨fun r h => ?_, hi.2⟩
        simp only [Option.some.injEq] at h
        subst h
        intro e; cases e

theorem popExceptFrom_tempBuf (o : Opts) (S : List Char) (m : Mach) (inp : Str) :
    (popExceptFrom o S m inp).2.1.tempBuf = m.tempBuf :=
  (popExceptFrom_fields o S m _ inp _ _ rfl).1
theorem popExceptFrom_charRef (o : Opts) (S : List Char) (m : Mach) (inp : Str) :
    (popExceptFrom o S m inp).2.1.charRef = m.charRef :=
  (popExceptFrom_fields o S m _ inp _ _ rfl).2.2.2

/-! ### look-ahead -/

theorem NAe_setIgnoreLf {m : Mach} {inp : Str} (h : NAe m inp) (b : Bool) : NAe (m.setIgnoreLf b) inp :=
  ⟨by simpa using h.1, by simpa using h.2⟩

theorem eatSkipLf_nae (o : Opts) {m : Mach} {inp : Str} (h : NAe m inp) :
    NAe (eatSkipLf o m inp).1 (eatSkipLf o m inp).2 := by
  unfold eatSkipLf
  split
  · split
    · split
      · exact (getChar_nae o (NAe_setIgnoreLf h false)).1
      · exact NAe_setIgnoreLf h false
    · exact h
  · exact h

theorem eat_nae (o : Opts) {m : Mach} {inp : Str} (h : NAe m inp) (pat : Str) :
    NAe (eat o m inp pat).2.1 (eat o m inp pat).2.2 := by
  have h1 := eatSkipLf_nae o h
  unfold eat
  dsimp only
  generalize eatSkipLf o m inp = mi at h1
  obtain ⟨k1, k2⟩ := h1
  repeat' split
  · exact ⟨by
      simp only [setTempBuf_tempBuf, List.nil_append]
      exact fun hm => k1 (List.mem_of_mem_drop hm), by simpa using k2⟩
  · exact ⟨by simpa using k1, by simpa using k2⟩
  · exact ⟨by simpa using k1, by simpa using k2⟩
  · exact ⟨by simpa using k1, by simpa using k2⟩

/-! ### one step -/

/-- the machine and remaining input of a step result satisfy `NA` -/
def RNA : R → Prop
  | .cont m i => NA m i
  | .suspend m i => NA m i
  | .panic _ => True

theorem ofSig_RNA {ms : Mach × Sig} {inp : Str} (h : NA ms.1 inp) : RNA (ofSig ms inp) := by
  unfold ofSig
  split
  · exact h
  · trivial

theorem contChar_RNA (o : Opts) {m : Mach} {inp : Str} (hc : CInv QC m) (h : NA m inp) :
    RNA (contChar o (getChar o m inp)) := by
  obtain ⟨hcr, hn⟩ := h
  obtain ⟨g1, g2⟩ := getChar_nae o hn
  have g3 := getChar_charRef o m inp
  have g4 := (getChar_clean o hc inp).2.2
  generalize getChar o m inp = r at g1 g2 g3 g4
  obtain ⟨c, m1, i1⟩ := r
  cases c with
  | none => exact ⟨g3.trans hcr, g1⟩
  | some c =>
    refine ofSig_RNA ⟨by rw [transChar_charRef]; exact g3.trans hcr, ?_, fun _ => ?_⟩
    · rw [transChar_tempBuf]; exact g1.1
    · rw [transChar_cc, (g4 c rfl).2]; exact g2 c rfl

/-- a character reference is only ever started on `&` -/
theorem transSet_starts_ref (m : Mach) (r : SetRes) (hcr : m.charRef = none)
    (h : (transSet m r).1.charRef ≠ none) : r = .fromSet '&' := by
  unfold transSet at h
  split at h <;> (repeat' split at h) <;> simp_all

theorem popExceptFrom_reconsume_false (o : Opts) (S : List Char) (m : Mach) (inp : Str) :
    (popExceptFrom o S m inp).2.1.reconsume = false := by
  unfold popExceptFrom
  split
  · exact getChar_reconsume_false o m inp
  · rename_i hcond
    have hrc : m.reconsume = false := by
      cases hh : m.reconsume with
      | false => rfl
      | true => simp [hh] at hcond
    cases inp with
    | nil => exact hrc
    | cons c rest =>
      dsimp only
      split
      · dsimp only; rw [preprocess_reconsume]; exact hrc
      · exact hrc

theorem contSet_RNA (o : Opts) (S : List Char) {m : Mach} {inp : Str} (h : NA m inp) :
    RNA (contSet (popExceptFrom o S m inp)) := by
  obtain ⟨hcr, h1, h2⟩ := h
  rw [not_mem_append] at h1
  obtain ⟨g1, g2⟩ := popExceptFrom_na o S h2 h1.2
  have g3 := popExceptFrom_charRef o S m inp
  have g4 := popExceptFrom_tempBuf o S m inp
  have g5 := popExceptFrom_reconsume_false o S m inp
  generalize popExceptFrom o S m inp = r at g1 g2 g3 g4 g5
  obtain ⟨c, m1, i1⟩ := r
  cases c with
  | none =>
    exact ⟨g3.trans hcr, by rw [not_mem_append, g4]; exact ⟨h1.1, g2⟩, fun hr => by rw [g5] at hr; cases hr⟩
  | some c =>
    refine ofSig_RNA ⟨?_, ?_, ?_⟩
    · cases hx : (transSet m1 c).1.charRef with
      | none => rfl
      | some x =>
        exact absurd (transSet_starts_ref m1 c (g3.trans hcr) (by rw [hx]; simp)) (g1 c rfl)
    · rw [transSet_tempBuf, not_mem_append, g4]; exact ⟨h1.1, g2⟩
    · rw [transSet_rc, g5]; intro hr; cases hr

theorem NAe_to {m : Mach} {inp : Str} (h : NAe m inp) (s : State) : NAe (to s m) inp :=
  ⟨by simpa using h.1, by simpa using h.2⟩
theorem NAe_clearComment {m : Mach} {inp : Str} (h : NAe m inp) : NAe (clearComment m) inp :=
  ⟨by simpa using h.1, by simpa using h.2⟩
theorem NAe_badChar {m : Mach} {inp : Str} (h : NAe m inp) (o : Opts) : NAe (badChar o m) inp :=
  ⟨by simpa using h.1, by simpa using h.2⟩

theorem eat_charRef (o : Opts) (m : Mach) (inp pat : Str) : (eat o m inp pat).2.1.charRef = m.charRef :=
  (eat_fields o m _ inp _ pat _ rfl).2.1

theorem stepMd_RNA (o : Opts) {m : Mach} {inp : Str} (h : NA m inp) : RNA (stepMd o m inp) := by
  obtain ⟨hcr, hn⟩ := h
  unfold stepMd
  have e1 := eat_nae o hn kwDashDash
  have c1 := eat_charRef o m inp kwDashDash
  generalize eat o m inp kwDashDash = r1 at e1 c1
  obtain ⟨b1, m1, i1⟩ := r1
  replace c1 : m1.charRef = none := c1.trans hcr
  rcases b1 with _ | _ | _
  · exact ⟨c1, e1⟩
  · dsimp only
    have e2 := eat_nae o e1 kwCdata
    have c2 := eat_charRef o m1 i1 kwCdata
    generalize eat o m1 i1 kwCdata = r2 at e2 c2
    obtain ⟨b2, m2, i2⟩ := r2
    replace c2 : m2.charRef = none := c2.trans c1
    rcases b2 with _ | _ | _
    · exact ⟨c2, e2⟩
    · dsimp only
      have e3 := eat_nae o e2 kwDoctype
      have c3 := eat_charRef o m2 i2 kwDoctype
      generalize eat o m2 i2 kwDoctype = r3 at e3 c3
      obtain ⟨b3, m3, i3⟩ := r3
      replace c3 : m3.charRef = none := c3.trans c2
      rcases b3 with _ | _ | _
      · exact ⟨c3, e3⟩
      · exact ⟨by simpa using c3, NAe_to (NAe_badChar e3 o) _⟩
      · exact ⟨by simpa using c3, NAe_to e3 _⟩
    · exact ⟨by simpa using c2, NAe_to e2 _⟩
  · exact ⟨by simpa using c1, NAe_to (NAe_clearComment e1) _⟩

theorem stepAdn_RNA (o : Opts) {m : Mach} {inp : Str} (hc : CInv QC m) (h : NA m inp) :
    RNA (stepAdn o m inp) := by
  obtain ⟨hcr, hn⟩ := h
  unfold stepAdn
  have e1 := eat_nae o hn kwPublic
  have c1 := eat_charRef o m inp kwPublic
  have k1 := eat_cinv o hc inp kwPublic
  generalize eat o m inp kwPublic = r1 at e1 c1 k1
  obtain ⟨b1, m1, i1⟩ := r1
  replace c1 : m1.charRef = none := c1.trans hcr
  rcases b1 with _ | _ | _
  · exact ⟨c1, e1⟩
  · dsimp only
    have e2 := eat_nae o e1 kwSystem
    have c2 := eat_charRef o m1 i1 kwSystem
    have k2 := eat_cinv o k1 i1 kwSystem
    generalize eat o m1 i1 kwSystem = r2 at e2 c2 k2
    obtain ⟨b2, m2, i2⟩ := r2
    replace c2 : m2.charRef = none := c2.trans c1
    rcases b2 with _ | _ | _
    · exact ⟨c2, e2⟩
    · exact contChar_RNA o k2 ⟨c2, e2⟩
    · exact ⟨by simpa using c2, NAe_to e2 _⟩
  · exact ⟨by simpa using c1, NAe_to e1 _⟩

/-- **no `&` ahead, no reference pending: it stays so** -/
theorem step_RNA (o : Opts) {m : Mach} {inp : Str} (hc : CInv QC m) (h : NA m inp) : RNA (step o m inp) := by
  have hcr := h.1
  cases hrk : readKind m.state with
  | getChar => rw [step_getChar o m inp hcr hrk]; exact contChar_RNA o hc h
  | popExcept => rw [step_popExcept o m inp hcr hrk]; exact contSet_RNA o _ h
  | eatMd => rw [step_kind_md o m inp hcr hrk]; exact stepMd_RNA o h
  | eatAdn => rw [step_kind_adn o m inp hcr hrk]; exact stepAdn_RNA o hc h

/-- the invariant of a run on an input without `&`: completely clean -/
def FInv (m : Mach) (inp : Str) : Prop := CInv QC m ∧ NA m inp

def RF : R → Prop
  | .cont m i => FInv m i
  | .suspend m i => FInv m i
  | .panic _ => True

theorem step_finv (o : Opts) {m : Mach} {inp : Str} (h : FInv m inp) : RF (step o m inp) := by
  have h1 := step_RInv (P := QC) o h.1 inp (fun cr hcr => by rw [h.2.1] at hcr; cases hcr)
  have h2 := step_RNA o h.1 h.2
  cases hs : step o m inp with
  | cont m' i' => rw [hs] at h1 h2; exact ⟨h1, h2⟩
  | suspend m' i' => rw [hs] at h1 h2; exact ⟨h1, h2⟩
  | panic e => trivial

theorem run_finv (o : Opts) (fuel : Nat) {m : Mach} {inp : Str} (h : FInv m inp) (m' : Mach) (i' : Str)
    (hr : run o fuel m inp = .done m' i') : FInv m' i' := by
  induction fuel generalizing m inp with
  | zero => simp [run] at hr
  | succ f ih =>
    have hs := step_finv o h
    simp only [run] at hr
    cases hst : step o m inp with
    | cont m1 i1 => rw [hst] at hr hs; exact ih hs hr
    | suspend m1 i1 =>
      rw [hst] at hr hs
      simp only [RunRes.done.injEq] at hr
      obtain ⟨e1, e2⟩ := hr; subst e1 e2
      exact hs
    | panic e => rw [hst] at hr; simp at hr

theorem feedBom_finv {m : Mach} {inp : Str} (h : FInv m inp) : FInv (feedBom m inp).1 (feedBom m inp).2 := by
  unfold feedBom
  split
  · exact h
  · rename_i c rest
    split
    · refine ⟨CInv_setDiscardBom h.1 false, by simpa using h.2.1, ?_, by simpa using h.2.2.2⟩
      have := h.2.2.1
      simp only [setDiscardBom_tempBuf]
      split
      · intro hm
        apply this
        rcases List.mem_append.1 hm with h' | h'
        · exact List.mem_append_left _ h'
        · exact List.mem_append_right _ (List.mem_cons_of_mem _ h')
      · exact this
    · exact h

/-- `XmlTokenizer::feed` of a chunk without `&` -/
theorem feed_finv (o : Opts) {m : Mach} {inp : Str} (h : FInv m inp) (chunk : Str) (hc : '&' ∉ chunk)
    (m' : Mach) (i' : Str) (hf : feed o m inp chunk = .done m' i') : FInv m' i' := by
  have h' : FInv m (inp ++ chunk) := by
    refine ⟨h.1, h.2.1, ?_, h.2.2.2⟩
    have := h.2.2.1
    rw [not_mem_append] at this ⊢
    exact ⟨this.1, by rw [not_mem_append]; exact ⟨this.2, hc⟩⟩
  unfold feed at hf
  dsimp only at hf
  split at hf
  · rename_i he
    simp only [RunRes.done.injEq] at hf
    obtain ⟨e1, e2⟩ := hf; subst e1 e2
    refine ⟨h.1, h.2.1, ?_, h.2.2.2⟩
    have := h.2.2.1
    rw [not_mem_append] at this ⊢
    exact ⟨this.1, by simp⟩
  · exact run_finv o _ (feedBom_finv h') m' i' hf

/-- `XmlTokenizer::end` from a completely clean machine without pending reference or `&` ahead -/
theorem finish_clean_norefs (o : Opts) {m : Mach} (h : FInv m []) (mf : Mach) (hf : finish o m = .ok mf) :
    CleanP QC mf := by
  rw [finish_eq] at hf
  have hp : finishPre o m = .ok (m, []) := by unfold finishPre; rw [h.2.1]
  rw [hp] at hf
  simp only at hf
  have h1 : FInv (m.setAtEof true) [] :=
    ⟨CInv_setAtEof h.1 true, by simpa using h.2.1, by simpa using h.2.2.1, by simpa using h.2.2.2⟩
  cases hr : run o (fuelFor (m.setAtEof true) []) (m.setAtEof true) [] with
  | done m2 i2 =>
    rw [hr] at hf
    simp only at hf
    exact eofLoop_clean o 8 (run_finv o _ h1 m2 i2 hr).1.1 mf hf
  | panic e => rw [hr] at hf; simp at hf
  | outOfFuel => rw [hr] at hf; simp at hf

theorem finv_initial (st : State) (b : Bool) : FInv { state := st, discardBom := b } [] :=
  ⟨⟨⟨AllS_nil _, (fun _ h => nomatch h), AllS_nil _, AllS_nil _, AllS_nil _, Doctype_clean_empty, AllS_nil _,
      AllS_nil _, (fun _ h => nomatch h)⟩, fun h => by cases h⟩, rfl, by simp, fun h => by cases h⟩

end H5V.Model.XmlTok
