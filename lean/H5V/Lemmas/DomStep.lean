import H5V.Lemmas.DomText3
import H5V.Lemmas.DomClone
/-!
One sink call (`Dom.applyV v b`, for either behaviour `v` of the option cloning and `b` of
`append_before_sibling`) preserves
`WF`, `Kinds` and — with the stated exceptions — `NoAdjacentText`, for every call within the
TreeSink contract.
-/
namespace H5V.Lemmas.Dom
open H5V.Model.Dom

/-- the contract of `append_before_sibling(s, node c)` survives detaching `c` first -/
theorem contractAppendBeforeSibling_detach {d d1 : Dom} (hw : WF d) {s c : Id}
    (hr : d.removeFromParent c = .ok d1) (hc : d.contractAppendBeforeSibling s (.node c) = true) :
    d1.contractAppendBeforeSibling s (.node c) = true := by
  have hw1 := hw.removeFromParent hr
  have hd := removeFromParent_data hr
  unfold Dom.contractAppendBeforeSibling at hc ⊢
  cases hps : d.parentOf s with
  | none => simp [hps] at hc
  | some P =>
    simp only [hps, Bool.and_eq_true, Dom.childOk, Bool.not_eq_true'] at hc
    have hsc : s ≠ c := by
      intro e; subst e
      have := hc.2.2
      simp at this
    have hps1 : d1.parentOf s = some P := by
      rcases removeFromParent_ok hr with ⟨_, he⟩ | ⟨_, _, _, _, hp, _⟩
      · subst he; exact hps
      · rw [hp]; simp [hsc, hps]
    have hPlt : P < d1.size := by rw [removeFromParent_size hr]; exact lt_of_isContainer hc.2.1.1
    have hanc : d1.isAncOrSelf c P = false := by
      cases hh : d1.isAncOrSelf c P with
      | false => rfl
      | true =>
        have h1 := (isAncOrSelf_iff hw1 hPlt).mp hh
        have h2 := anc_mono (removeFromParent_parent_sub hr) h1
        have h3 := (isAncOrSelf_iff hw (lt_of_isContainer hc.2.1.1)).mpr h2
        rw [hc.2.1.2.2] at h3; cases h3
    have hins : ∀ x, d1.isInsertable x = d.isInsertable x := fun x => by unfold Dom.isInsertable; rw [hd]
    simp only [hps1, Bool.and_eq_true, Dom.childOk, Bool.not_eq_true']
    refine ⟨by rw [hins]; exact hc.1, ⟨by rw [isContainer_congr (hd P)]; exact hc.2.1.1,
      ⟨⟨by rw [hins]; exact hc.2.1.2.1.1, by simp⟩, hanc⟩⟩, hc.2.2⟩

theorem appendBeforeSiblingV_text (b : Dom.BeforeSiblingVariant) (d : Dom) (s : Id) (t : Str) :
    d.appendBeforeSiblingV b s (.text t) = d.appendBeforeSibling s (.text t) := rfl

theorem appendBeforeSiblingV_ok {b : Dom.BeforeSiblingVariant} {d d' : Dom} {s : Id} {ch : NodeOrText}
    (h : d.appendBeforeSiblingV b s ch = .ok d') :
    d.appendBeforeSibling s ch = .ok d' ∨
    (∃ c d1, ch = .node c ∧ d.removeFromParent c = .ok d1 ∧ d1.appendBeforeSibling s ch = .ok d') := by
  unfold Dom.appendBeforeSiblingV at h
  cases ch with
  | text t => simp [Dom.preDetach, bind, Except.bind] at h; exact Or.inl h
  | node c =>
    cases b with
    | asCode => simp [Dom.preDetach, bind, Except.bind] at h; exact Or.inl h
    | detachFirst =>
      simp only [Dom.preDetach, bind, Except.bind] at h
      cases hr : d.removeFromParent c with
      | error e => simp [hr] at h
      | ok d1 => simp [hr] at h; exact Or.inr ⟨c, d1, rfl, hr, h⟩

theorem WF.appendBeforeSiblingV {b : Dom.BeforeSiblingVariant} {d d' : Dom} (hw : WF d) {s : Id} {ch : NodeOrText}
    (hc : d.contractAppendBeforeSibling s ch = true) (h : d.appendBeforeSiblingV b s ch = .ok d') : WF d' := by
  rcases appendBeforeSiblingV_ok h with h1 | ⟨c, d1, he, hr, h2⟩
  · exact hw.appendBeforeSibling hc h1
  · subst he
    exact (hw.removeFromParent hr).appendBeforeSibling (contractAppendBeforeSibling_detach hw hr hc) h2

theorem Kinds.appendBeforeSiblingV {b : Dom.BeforeSiblingVariant} {d d' : Dom} (hw : WF d) (hk : Kinds d) {s : Id}
    {ch : NodeOrText} (hc : d.contractAppendBeforeSibling s ch = true)
    (h : d.appendBeforeSiblingV b s ch = .ok d') : Kinds d' := by
  rcases appendBeforeSiblingV_ok h with h1 | ⟨c, d1, he, hr, h2⟩
  · exact hk.appendBeforeSibling hc h1
  · subst he
    exact (hk.removeFromParent hr).appendBeforeSibling (contractAppendBeforeSibling_detach hw hr hc) h2

theorem NoAdjacentText.appendBeforeSiblingV_node {b : Dom.BeforeSiblingVariant} {d d' : Dom} (hn : NoAdjacentText d)
    {s c : Id} (hc : d.contractAppendBeforeSibling s (.node c) = true) (hpc : d.parentOf c = none)
    (h : d.appendBeforeSiblingV b s (.node c) = .ok d') : NoAdjacentText d' := by
  rcases appendBeforeSiblingV_ok h with h1 | ⟨c', d1, he, hr, h2⟩
  · exact hn.appendBeforeSibling_node hc hpc h1
  · cases he
    rcases removeFromParent_ok hr with ⟨_, hd1⟩ | ⟨_, _, hpar, _⟩
    · subst hd1; exact hn.appendBeforeSibling_node hc hpc h2
    · rw [hpc] at hpar; cases hpar

theorem appendBasedOnParentNodeV_eq {b : Dom.BeforeSiblingVariant} {d : Dom} {e p : Id} {ch : NodeOrText}
    {r : Except String Dom} (h : d.appendBasedOnParentNodeV b e p ch = r) (he : e < d.size) :
    r = if (d.parentOf e).isSome then d.appendBeforeSiblingV b e ch else d.append p ch := by
  obtain ⟨en, hen⟩ := node?_of_lt he
  unfold Dom.appendBasedOnParentNodeV at h
  simp only [bind, Except.bind, get_ok_of hen] at h
  rw [parentOf_of_node hen, ← h]

theorem WF.applyV {v : Dom.CloneVariant} {b : Dom.BeforeSiblingVariant} {d d' : Dom} {op : SinkOp} {out : Output} (hw : WF d) (HK : Kinds d)
    (hc : d.contractOk op = true) (h : d.applyV v b op = .ok (d', out)) : WF d' := by
  cases op with
  | parseError msg =>
    simp [Dom.applyV] at h; obtain ⟨h, _⟩ := h; subst h
    exact hw.congr (fun _ => rfl) (fun _ => rfl)
  | getDocument => simp [Dom.applyV] at h; obtain ⟨h, _⟩ := h; subst h; exact hw
  | elemName t =>
    simp only [Dom.applyV, bind, Except.bind] at h
    cases he : d.elemName t with
    | error e => simp [he] at h
    | ok v => simp [he] at h; obtain ⟨h, _⟩ := h; subst h; exact hw
  | createElement name attrs flags =>
    simp [Dom.applyV] at h; obtain ⟨h, _⟩ := h; subst h
    have := createElement_shape d name attrs flags
    exact hw.congr this.parent this.children
  | createComment text =>
    simp [Dom.applyV, Dom.createComment] at h; obtain ⟨h, _⟩ := h; subst h; exact hw.alloc _
  | createPi t dd =>
    simp [Dom.applyV, Dom.createPi] at h; obtain ⟨h, _⟩ := h; subst h; exact hw.alloc _
  | append p c =>
    simp only [Dom.applyV, bind, Except.bind] at h
    cases ha : d.append p c with
    | error e => simp [ha] at h
    | ok d1 =>
      simp [ha] at h; obtain ⟨h, _⟩ := h; subst h
      exact hw.append (by simpa [Dom.contractOk] using hc) ha
  | appendBasedOnParentNode e p c =>
    simp only [Dom.applyV, bind, Except.bind] at h
    cases ha : d.appendBasedOnParentNodeV b e p c with
    | error err => simp [ha] at h
    | ok d1 =>
      simp [ha] at h; obtain ⟨h, _⟩ := h; subst h
      simp only [Dom.contractOk, Bool.and_eq_true] at hc
      have := appendBasedOnParentNodeV_eq ha (lt_of_isElement hc.1.1)
      by_cases hp : (d.parentOf e).isSome = true
      · simp only [hp, if_true] at this hc
        exact hw.appendBeforeSiblingV hc.2 this.symm
      · simp only [hp] at this hc
        exact hw.append hc.2 this.symm
  | appendDoctypeToDocument n p s =>
    simp only [Dom.applyV, bind, Except.bind, Dom.appendDoctypeToDocument] at h
    cases ha : (d.alloc (NodeData.doctype n p s)).1.appendRaw Dom.document (d.alloc (NodeData.doctype n p s)).2 with
    | error err => simp [ha] at h
    | ok d1 =>
      simp [ha] at h; obtain ⟨h, _⟩ := h; subst h
      rw [alloc_id] at ha
      simp only [Dom.contractOk, Bool.and_eq_true] at hc
      have hdoc : Dom.document < d.size := lt_of_isContainer hc.1
      exact hw.allocAppend hdoc ha
  | markScriptAlreadyStarted n => simp [Dom.applyV] at h; obtain ⟨h, _⟩ := h; subst h; exact hw
  | pop n => simp [Dom.applyV] at h; obtain ⟨h, _⟩ := h; subst h; exact hw
  | getTemplateContents t =>
    simp only [Dom.applyV, bind, Except.bind] at h
    cases he : d.getTemplateContents t with
    | error e => simp [he] at h
    | ok v => simp [he] at h; obtain ⟨h, _⟩ := h; subst h; exact hw
  | sameNode x y => simp [Dom.applyV] at h; obtain ⟨h, _⟩ := h; subst h; exact hw
  | setQuirksMode m =>
    simp [Dom.applyV] at h; obtain ⟨h, _⟩ := h; subst h
    exact hw.congr (fun _ => rfl) (fun _ => rfl)
  | appendBeforeSibling s c =>
    simp only [Dom.applyV, bind, Except.bind] at h
    cases ha : d.appendBeforeSiblingV b s c with
    | error e => simp [ha] at h
    | ok d1 =>
      simp [ha] at h; obtain ⟨h, _⟩ := h; subst h
      exact hw.appendBeforeSiblingV (by simpa [Dom.contractOk] using hc) ha
  | addAttrsIfMissing t a =>
    simp only [Dom.applyV, bind, Except.bind] at h
    cases ha : d.addAttrsIfMissing t a with
    | error e => simp [ha] at h
    | ok d1 =>
      simp [ha] at h; obtain ⟨h, _⟩ := h; subst h
      obtain ⟨_, _, _, _, _, hs, _, _⟩ := addAttrsIfMissing_ok ha
      exact hw.congr hs.parent hs.children
  | associateWithForm _ _ _ _ => simp [Dom.applyV] at h; obtain ⟨h, _⟩ := h; subst h; exact hw
  | removeFromParent t =>
    simp only [Dom.applyV, bind, Except.bind] at h
    cases ha : d.removeFromParent t with
    | error e => simp [ha] at h
    | ok d1 => simp [ha] at h; obtain ⟨h, _⟩ := h; subst h; exact hw.removeFromParent ha
  | reparentChildren n np =>
    simp only [Dom.applyV, bind, Except.bind] at h
    cases ha : d.reparentChildren n np with
    | error e => simp [ha] at h
    | ok d1 =>
      simp [ha] at h; obtain ⟨h, _⟩ := h; subst h
      simp only [Dom.contractOk, Bool.and_eq_true, Bool.not_eq_true'] at hc
      exact hw.reparentChildren (not_anc_of_isAncOrSelf_false hw (lt_of_isContainer hc.1.2) hc.2) ha
  | isMathmlAnnotationXmlIntegrationPoint t =>
    simp only [Dom.applyV, bind, Except.bind] at h
    cases he : d.isMathmlAnnotationXmlIntegrationPoint t with
    | error e => simp [he] at h
    | ok v => simp [he] at h; obtain ⟨h, _⟩ := h; subst h; exact hw
  | setCurrentLine _ => simp [Dom.applyV] at h; obtain ⟨h, _⟩ := h; subst h; exact hw
  | allowDeclarativeShadowRoots _ => simp [Dom.applyV] at h; obtain ⟨h, _⟩ := h; subst h; exact hw
  | attachDeclarativeShadow _ _ _ => simp [Dom.applyV] at h; obtain ⟨h, _⟩ := h; subst h; exact hw
  | maybeCloneAnOptionIntoSelectedcontent o =>
    simp only [Dom.applyV, bind, Except.bind] at h
    cases ha : d.maybeCloneOption v o with
    | error e => simp [ha] at h
    | ok d1 =>
      simp [ha] at h; obtain ⟨h, _⟩ := h; subst h
      cases v with
      | asCode => rw [maybeCloneOption_asCode_eq ha]; exact hw
      | fixed => exact (maybeCloneOption_fixed_inv hw HK ha).1

theorem Kinds.applyV {v : Dom.CloneVariant} {b : Dom.BeforeSiblingVariant} {d d' : Dom} {op : SinkOp} {out : Output} (hw : WF d) (hk : Kinds d)
    (hc : d.contractOk op = true) (h : d.applyV v b op = .ok (d', out)) : Kinds d' := by
  cases op with
  | parseError msg =>
    simp [Dom.applyV] at h; obtain ⟨h, _⟩ := h; subst h
    exact hk.sameData (fun _ => rfl) (fun _ _ => rfl)
  | getDocument => simp [Dom.applyV] at h; obtain ⟨h, _⟩ := h; subst h; exact hk
  | elemName t =>
    simp only [Dom.applyV, bind, Except.bind] at h
    cases he : d.elemName t with
    | error e => simp [he] at h
    | ok v => simp [he] at h; obtain ⟨h, _⟩ := h; subst h; exact hk
  | createElement name attrs flags =>
    simp [Dom.applyV] at h; obtain ⟨h, _⟩ := h; subst h
    unfold Dom.createElement
    split
    · exact (hk.alloc _).alloc _
    · exact hk.alloc _
  | createComment text =>
    simp [Dom.applyV, Dom.createComment] at h; obtain ⟨h, _⟩ := h; subst h; exact hk.alloc _
  | createPi t dd =>
    simp [Dom.applyV, Dom.createPi] at h; obtain ⟨h, _⟩ := h; subst h; exact hk.alloc _
  | append p c =>
    simp only [Dom.applyV, bind, Except.bind] at h
    cases ha : d.append p c with
    | error e => simp [ha] at h
    | ok d1 =>
      simp [ha] at h; obtain ⟨h, _⟩ := h; subst h
      exact hk.append (by simpa [Dom.contractOk] using hc) ha
  | appendBasedOnParentNode e p c =>
    simp only [Dom.applyV, bind, Except.bind] at h
    cases ha : d.appendBasedOnParentNodeV b e p c with
    | error err => simp [ha] at h
    | ok d1 =>
      simp [ha] at h; obtain ⟨h, _⟩ := h; subst h
      simp only [Dom.contractOk, Bool.and_eq_true] at hc
      have := appendBasedOnParentNodeV_eq ha (lt_of_isElement hc.1.1)
      by_cases hp : (d.parentOf e).isSome = true
      · simp only [hp, if_true] at this hc
        exact hk.appendBeforeSiblingV hw hc.2 this.symm
      · simp only [hp] at this hc
        exact hk.append hc.2 this.symm
  | appendDoctypeToDocument n p s =>
    simp only [Dom.applyV, bind, Except.bind, Dom.appendDoctypeToDocument] at h
    cases ha : (d.alloc (NodeData.doctype n p s)).1.appendRaw Dom.document (d.alloc (NodeData.doctype n p s)).2 with
    | error err => simp [ha] at h
    | ok d1 =>
      simp [ha] at h; obtain ⟨h, _⟩ := h; subst h
      rw [alloc_id] at ha
      simp only [Dom.contractOk, Bool.and_eq_true] at hc
      obtain ⟨hp', _, hd, _, _⟩ := allocAppend_ok (lt_of_isContainer hc.1) ha
      exact hk.allocAttach hp' hd hc.1 (by intro e; cases e)
  | markScriptAlreadyStarted n => simp [Dom.applyV] at h; obtain ⟨h, _⟩ := h; subst h; exact hk
  | pop n => simp [Dom.applyV] at h; obtain ⟨h, _⟩ := h; subst h; exact hk
  | getTemplateContents t =>
    simp only [Dom.applyV, bind, Except.bind] at h
    cases he : d.getTemplateContents t with
    | error e => simp [he] at h
    | ok v => simp [he] at h; obtain ⟨h, _⟩ := h; subst h; exact hk
  | sameNode x y => simp [Dom.applyV] at h; obtain ⟨h, _⟩ := h; subst h; exact hk
  | setQuirksMode m =>
    simp [Dom.applyV] at h; obtain ⟨h, _⟩ := h; subst h
    exact hk.sameData (fun _ => rfl) (fun _ _ => rfl)
  | appendBeforeSibling s c =>
    simp only [Dom.applyV, bind, Except.bind] at h
    cases ha : d.appendBeforeSiblingV b s c with
    | error e => simp [ha] at h
    | ok d1 =>
      simp [ha] at h; obtain ⟨h, _⟩ := h; subst h
      exact hk.appendBeforeSiblingV hw (by simpa [Dom.contractOk] using hc) ha
  | addAttrsIfMissing t a =>
    simp only [Dom.applyV, bind, Except.bind] at h
    cases ha : d.addAttrsIfMissing t a with
    | error e => simp [ha] at h
    | ok d1 =>
      simp [ha] at h; obtain ⟨h, _⟩ := h; subst h
      obtain ⟨_, _, _, _, hdt, hs, hd, _⟩ := addAttrsIfMissing_ok ha
      refine hk.dataChange (t := t) hs (fun x hx => by rw [hd]; simp [hx]) ?_ ?_
      · unfold Dom.isContainer; rw [hd, hdt]; simp
      · rw [hd]; simp
  | associateWithForm _ _ _ _ => simp [Dom.applyV] at h; obtain ⟨h, _⟩ := h; subst h; exact hk
  | removeFromParent t =>
    simp only [Dom.applyV, bind, Except.bind] at h
    cases ha : d.removeFromParent t with
    | error e => simp [ha] at h
    | ok d1 => simp [ha] at h; obtain ⟨h, _⟩ := h; subst h; exact hk.removeFromParent ha
  | reparentChildren n np =>
    simp only [Dom.applyV, bind, Except.bind] at h
    cases ha : d.reparentChildren n np with
    | error e => simp [ha] at h
    | ok d1 =>
      simp [ha] at h; obtain ⟨h, _⟩ := h; subst h
      simp only [Dom.contractOk, Bool.and_eq_true, Bool.not_eq_true'] at hc
      obtain ⟨_, _, _, hp, _, hd, _, _⟩ := reparentChildren_ok ha
      refine hk.of_effects ?_ ?_ ?_
      · intro x hx; rw [isContainer_congr (hd x)]; exact hx
      · intro x _ hh; rw [← hd x]; exact hh
      · intro c p' hh
        rw [hp] at hh
        by_cases hcn : c ∈ d.childrenOf n
        · simp [hcn] at hh; subst hh
          refine Or.inr ⟨by rw [isContainer_congr (hd _)]; exact hc.1.2, ?_⟩
          rw [hd]; exact hk.childNotDoc c n ((hw.links c n).mpr hcn)
        · simp [hcn] at hh; exact Or.inl hh
  | isMathmlAnnotationXmlIntegrationPoint t =>
    simp only [Dom.applyV, bind, Except.bind] at h
    cases he : d.isMathmlAnnotationXmlIntegrationPoint t with
    | error e => simp [he] at h
    | ok v => simp [he] at h; obtain ⟨h, _⟩ := h; subst h; exact hk
  | setCurrentLine _ => simp [Dom.applyV] at h; obtain ⟨h, _⟩ := h; subst h; exact hk
  | allowDeclarativeShadowRoots _ => simp [Dom.applyV] at h; obtain ⟨h, _⟩ := h; subst h; exact hk
  | attachDeclarativeShadow _ _ _ => simp [Dom.applyV] at h; obtain ⟨h, _⟩ := h; subst h; exact hk
  | maybeCloneAnOptionIntoSelectedcontent o =>
    simp only [Dom.applyV, bind, Except.bind] at h
    cases ha : d.maybeCloneOption v o with
    | error e => simp [ha] at h
    | ok d1 =>
      simp [ha] at h; obtain ⟨h, _⟩ := h; subst h
      cases v with
      | asCode => rw [maybeCloneOption_asCode_eq ha]; exact hk
      | fixed => exact (maybeCloneOption_fixed_inv hw hk ha).2

/-- the calls that cannot take a node out of a child list: everything except `remove_from_parent`,
`reparent_children`, `append_before_sibling` / `append_based_on_parent_node` of a node that still
has a parent, and the option → selectedcontent mirroring -/
def NeverDetaches (d : Dom) : SinkOp → Prop
  | .removeFromParent _ => False
  | .reparentChildren _ _ => False
  | .appendBeforeSibling _ (.node c) => d.parentOf c = none
  | .appendBasedOnParentNode _ _ (.node c) => d.parentOf c = none
  | .maybeCloneAnOptionIntoSelectedcontent _ => False  -- replaces a whole child list by deep copies
  | _ => True

/-- every sink call other than `remove_from_parent`, `reparent_children` and the re-insertion of an
attached node through `append_before_sibling` keeps "no adjacent text siblings" -/
theorem NoAdjacentText.applyV {v : Dom.CloneVariant} {b : Dom.BeforeSiblingVariant} {d d' : Dom} {op : SinkOp} {out : Output} (hw : WF d) (hn : NoAdjacentText d)
    (hc : d.contractOk op = true) (h : d.applyV v b op = .ok (d', out))
    (hop : NeverDetaches d op) : NoAdjacentText d' := by
  cases op with
  | parseError msg =>
    simp [Dom.applyV] at h; obtain ⟨h, _⟩ := h; subst h
    exact hn.congr (fun _ => rfl) (fun _ _ _ => rfl)
  | getDocument => simp [Dom.applyV] at h; obtain ⟨h, _⟩ := h; subst h; exact hn
  | elemName t =>
    simp only [Dom.applyV, bind, Except.bind] at h
    cases he : d.elemName t with
    | error e => simp [he] at h
    | ok v => simp [he] at h; obtain ⟨h, _⟩ := h; subst h; exact hn
  | createElement name attrs flags =>
    simp [Dom.applyV] at h; obtain ⟨h, _⟩ := h; subst h
    unfold Dom.createElement
    split
    · exact (hn.alloc hw _).alloc (hw.alloc _) _
    · exact hn.alloc hw _
  | createComment text =>
    simp [Dom.applyV, Dom.createComment] at h; obtain ⟨h, _⟩ := h; subst h; exact hn.alloc hw _
  | createPi t dd =>
    simp [Dom.applyV, Dom.createPi] at h; obtain ⟨h, _⟩ := h; subst h; exact hn.alloc hw _
  | append p c =>
    simp only [Dom.applyV, bind, Except.bind] at h
    cases ha : d.append p c with
    | error e => simp [ha] at h
    | ok d1 =>
      simp [ha] at h; obtain ⟨h, _⟩ := h; subst h
      exact hn.append hw (by simpa [Dom.contractOk] using hc) ha
  | appendBasedOnParentNode e p c =>
    simp only [Dom.applyV, bind, Except.bind] at h
    cases ha : d.appendBasedOnParentNodeV b e p c with
    | error err => simp [ha] at h
    | ok d1 =>
      simp [ha] at h; obtain ⟨h, _⟩ := h; subst h
      simp only [Dom.contractOk, Bool.and_eq_true] at hc
      have := appendBasedOnParentNodeV_eq ha (lt_of_isElement hc.1.1)
      by_cases hp : (d.parentOf e).isSome = true
      · simp only [hp, if_true] at this hc
        cases c with
        | text t => exact hn.appendBeforeSibling_text hw hc.2 (by rw [← appendBeforeSiblingV_text b]; exact this.symm)
        | node c => exact hn.appendBeforeSiblingV_node hc.2 hop this.symm
      · simp only [hp] at this hc
        exact hn.append hw hc.2 this.symm
  | appendDoctypeToDocument n p s =>
    simp only [Dom.applyV, bind, Except.bind, Dom.appendDoctypeToDocument] at h
    cases ha : (d.alloc (NodeData.doctype n p s)).1.appendRaw Dom.document (d.alloc (NodeData.doctype n p s)).2 with
    | error err => simp [ha] at h
    | ok d1 =>
      simp [ha] at h; obtain ⟨h, _⟩ := h; subst h
      rw [alloc_id] at ha
      simp only [Dom.contractOk, Bool.and_eq_true] at hc
      obtain ⟨_, hch, hd, _, _⟩ := allocAppend_ok (lt_of_isContainer hc.1) ha
      refine hn.insertFresh hw (p := Dom.document) (i := (d.childrenOf Dom.document).length)
        (data := .doctype n p s) ?_ hd ?_
      · intro x; rw [hch, insertAt_length]
      · have : d1.isText d.size = false := by simp [Dom.isText, hd]
        rw [this]; simp
  | markScriptAlreadyStarted n => simp [Dom.applyV] at h; obtain ⟨h, _⟩ := h; subst h; exact hn
  | pop n => simp [Dom.applyV] at h; obtain ⟨h, _⟩ := h; subst h; exact hn
  | getTemplateContents t =>
    simp only [Dom.applyV, bind, Except.bind] at h
    cases he : d.getTemplateContents t with
    | error e => simp [he] at h
    | ok v => simp [he] at h; obtain ⟨h, _⟩ := h; subst h; exact hn
  | sameNode x y => simp [Dom.applyV] at h; obtain ⟨h, _⟩ := h; subst h; exact hn
  | setQuirksMode m =>
    simp [Dom.applyV] at h; obtain ⟨h, _⟩ := h; subst h
    exact hn.congr (fun _ => rfl) (fun _ _ _ => rfl)
  | appendBeforeSibling s c =>
    simp only [Dom.applyV, bind, Except.bind] at h
    cases ha : d.appendBeforeSiblingV b s c with
    | error e => simp [ha] at h
    | ok d1 =>
      simp [ha] at h; obtain ⟨h, _⟩ := h; subst h
      have hc' : d.contractAppendBeforeSibling s c = true := by simpa [Dom.contractOk] using hc
      cases c with
      | text t => exact hn.appendBeforeSibling_text hw hc' (by rw [← appendBeforeSiblingV_text b]; exact ha)
      | node c => exact hn.appendBeforeSiblingV_node hc' hop ha
  | addAttrsIfMissing t a =>
    simp only [Dom.applyV, bind, Except.bind] at h
    cases ha : d.addAttrsIfMissing t a with
    | error e => simp [ha] at h
    | ok d1 =>
      simp [ha] at h; obtain ⟨h, _⟩ := h; subst h
      obtain ⟨_, _, _, _, hdt, hs, hd, _⟩ := addAttrsIfMissing_ok ha
      refine hn.congr hs.children ?_
      intro p x _
      by_cases hx : x = t
      · subst hx; simp [Dom.isText, hd, hdt]
      · exact isText_congr (by rw [hd]; simp [hx])
  | associateWithForm _ _ _ _ => simp [Dom.applyV] at h; obtain ⟨h, _⟩ := h; subst h; exact hn
  | removeFromParent t => exact hop.elim
  | reparentChildren n np => exact hop.elim
  | isMathmlAnnotationXmlIntegrationPoint t =>
    simp only [Dom.applyV, bind, Except.bind] at h
    cases he : d.isMathmlAnnotationXmlIntegrationPoint t with
    | error e => simp [he] at h
    | ok v => simp [he] at h; obtain ⟨h, _⟩ := h; subst h; exact hn
  | setCurrentLine _ => simp [Dom.applyV] at h; obtain ⟨h, _⟩ := h; subst h; exact hn
  | allowDeclarativeShadowRoots _ => simp [Dom.applyV] at h; obtain ⟨h, _⟩ := h; subst h; exact hn
  | attachDeclarativeShadow _ _ _ => simp [Dom.applyV] at h; obtain ⟨h, _⟩ := h; subst h; exact hn
  | maybeCloneAnOptionIntoSelectedcontent o => exact hop.elim

end H5V.Lemmas.Dom
