import H5V.Lemmas.XmlTBHBase
import H5V.Lemmas.HtmlTBReachBase
/-!
C18 for the handle-level XML tree builder: the provenance judgement `PV` (as `H5V.Props.C18.PV` for
the HTML builder, over the monad of `H5V.Model.XmlTBH`) and its proof for every function of the model.

`opArgs` / `outRets` / `rets` / `ArgsOK` are the definitions of the HTML side
(`H5V.Lemmas.HtmlTBReachBase`); `held` is `H5V.Model.XmlTBH.held` (`doc_handle`, `open_elems`,
`curr_elem` — what `trace_handles` reports).
-/
namespace H5V.Lemmas.XmlTBH
open H5V.Model.Dom (Id SinkOp Output Dom NodeOrText)
open H5V.Model.XmlTB (Tag TbCfg Bound QName Token Phase)
open H5V.Model.XmlTBH
open H5V.Props.C18 (opArgs outRets rets ArgsOK rets_append childIds)

/-- what a successful run of `m` from `s` guarantees relative to the known handles `K` -/
structure Post (K : Id → Prop) (s s' : State) (R : List Id) : Prop where
  ex : ∃ new, s'.traceRev = new ++ s.traceRev ∧ ArgsOK K new ∧
    (∀ h ∈ held s', K h ∨ h ∈ rets new) ∧ (∀ h ∈ R, K h ∨ h ∈ rets new)

/-- the judgement for runs that start in the state `s0` -/
structure PVat {α : Type} (s0 : State) (c : List Id) (m : M α) (R : α → List Id) : Prop where
  h : ∀ (K : Id → Prop) (a : α) (s' : State), m s0 = .ok (a, s') →
    (∀ h ∈ held s0, K h) → (∀ h ∈ c, K h) → Post K s0 s' (R a)

/-- provenance: with the held handles and the handles in flight `c` known, `m` passes only known
handles to the sink; afterwards the held handles and the handles `R a` of the answer are known —
"known" growing with everything the sink returns on the way -/
structure PV {α : Type} (c : List Id) (m : M α) (R : α → List Id) : Prop where
  h : ∀ s, PVat s c m R

/-- no handles in the answer -/
abbrev nil {α : Type} : α → List Id := fun _ => []
/-- the handle that is the answer -/
abbrev one : Id → List Id := fun a => [a]

theorem PVat.bind {α β : Type} {s : State} {c : List Id} {m : M α} {f : α → M β} {R : α → List Id}
    {R' : β → List Id} (h1 : PVat s c m R) (h2 : ∀ a, PV (R a ++ c) (f a) R') : PVat s c (m >>= f) R' := by
  constructor
  intro K b s'' e hh hc
  obtain ⟨a, s', e1, e2⟩ := bind_ok.mp e
  obtain ⟨n1, t1, a1, k1, r1⟩ := (h1.h K a s' e1 hh hc).ex
  have hc' : ∀ h ∈ R a ++ c, K h ∨ h ∈ rets n1 := by
    intro h hm
    rcases List.mem_append.mp hm with hm | hm
    · exact r1 h hm
    · exact Or.inl (hc h hm)
  obtain ⟨n2, t2, a2, k2, r2⟩ := (((h2 a).h s').h (fun h => K h ∨ h ∈ rets n1) b s'' e2 k1 hc').ex
  refine ⟨n2 ++ n1, by rw [t2, t1, List.append_assoc], a1.append a2, ?_, ?_⟩
  · intro h hm
    rw [rets_append]
    rcases k2 h hm with (hk | hr) | hr
    · exact Or.inl hk
    · exact Or.inr (List.mem_append_right _ hr)
    · exact Or.inr (List.mem_append_left _ hr)
  · intro h hm
    rw [rets_append]
    rcases r2 h hm with (hk | hr) | hr
    · exact Or.inl hk
    · exact Or.inr (List.mem_append_right _ hr)
    · exact Or.inr (List.mem_append_left _ hr)

theorem PV.bind {α β : Type} {c : List Id} {m : M α} {f : α → M β} {R : α → List Id} {R' : β → List Id}
    (h1 : PV c m R) (h2 : ∀ a, PV (R a ++ c) (f a) R') : PV c (m >>= f) R' :=
  ⟨fun s => (h1.h s).bind h2⟩

theorem PV.pure {α : Type} {c : List Id} {a : α} {R : α → List Id} (h : ∀ x ∈ R a, x ∈ c) :
    PV c (Pure.pure a : M α) R := by
  constructor
  intro s
  constructor
  intro K b s' e hh hc
  obtain ⟨rfl, rfl⟩ := pure_ok.mp e
  exact ⟨[], rfl, trivial, fun x hx => Or.inl (hh x hx), fun x hx => Or.inl (hc x (h x hx))⟩

theorem PV.throw {α : Type} {c : List Id} {R : α → List Id} (e : String) : PV c (throw e : M α) R :=
  ⟨fun _ => ⟨fun _ _ _ h => absurd h throw_ok⟩⟩

theorem PV.ite {α : Type} {c : List Id} {p : Prop} [Decidable p] {a b : M α} {R : α → List Id}
    (h1 : PV c a R) (h2 : PV c b R) : PV c (if p then a else b) R := by
  by_cases hp : p
  · simp only [hp, if_true]; exact h1
  · simp only [hp, if_false]; exact h2

/-- more handles in flight never hurt -/
theorem PV.weaken {α : Type} {c c' : List Id} {m : M α} {R : α → List Id} (h : PV c m R)
    (hs : ∀ x ∈ c, x ∈ c') : PV c' m R :=
  ⟨fun s => ⟨fun K a s' e hh hc => (h.h s).h K a s' e hh (fun x hx => hc x (hs x hx))⟩⟩

/-- fewer handles claimed for the answer -/
theorem PV.forget {α : Type} {c : List Id} {m : M α} {R R' : α → List Id} (h : PV c m R)
    (hs : ∀ a, ∀ x ∈ R' a, x ∈ R a) : PV c m R' :=
  ⟨fun s => ⟨fun K a s' e hh hc => by
    obtain ⟨n, t, ao, k, r⟩ := ((h.h s).h K a s' e hh hc).ex
    exact ⟨n, t, ao, k, fun x hx => r x (hs a x hx)⟩⟩⟩

/-- reading the state: what follows knows the handles it holds, and that it *is* the current state -/
theorem PV.getS_bind {β : Type} {c : List Id} {f : State → M β} {R : β → List Id}
    (h : ∀ s, PVat s (held s ++ c) (f s) R) : PV c (getS >>= f) R := by
  constructor
  intro s
  constructor
  intro K b s'' e hh hc
  obtain ⟨a, s', e1, e2⟩ := bind_ok.mp e
  obtain ⟨rfl, rfl⟩ := getS_ok.mp e1
  refine (h _).h K b s'' e2 hh ?_
  intro x hx
  rcases List.mem_append.mp hx with hx | hx
  · exact hh x hx
  · exact hc x hx

theorem pv_modS {c : List Id} {f : State → State} (ht : ∀ s, (f s).traceRev = s.traceRev)
    (hf : ∀ s, ∀ x ∈ held (f s), x ∈ held s ∨ x ∈ c) : PV c (modS f) nil :=
  ⟨fun s => ⟨fun K _ s' e hh hc => by
    rw [modS_ok.mp e]
    refine ⟨[], by rw [ht]; rfl, trivial, fun x hx => Or.inl ?_, fun _ hx => nomatch hx⟩
    rcases hf s x hx with h1 | h1
    · exact hh x h1
    · exact hc x h1⟩⟩

/-- one sink call: its arguments must be in flight; what it gives back is known from then on -/
theorem pv_sink {c : List Id} (op : SinkOp) (h : ∀ x ∈ opArgs op, x ∈ c) : PV c (sink op) outRets :=
  ⟨fun s => ⟨fun K out s' e hh hc => by
    obtain ⟨d, _, rfl⟩ := sink_ok.mp e
    refine ⟨[(op, out)], rfl, ⟨fun x hx => Or.inl (hc x (h x hx)), trivial⟩, fun x hx => Or.inl (hh x hx), ?_⟩
    intro x hx
    exact Or.inr (by simpa [rets] using hx)⟩⟩

theorem mem_held {s : State} {x : Id} : x ∈ held s ↔ x = s.docHandle ∨ x ∈ s.opened ∨ s.currElem = some x := by
  simp [held, Option.mem_toList]

/-! ## the functions of the model -/

theorem mem_app_l {x : Id} {a b : List Id} (h : x ∈ a) : x ∈ a ++ b := List.mem_append_left _ h
theorem mem_app_r {x : Id} {a b : List Id} (h : x ∈ b) : x ∈ a ++ b := List.mem_append_right _ h

theorem pv_sinkUnit {c : List Id} (op : SinkOp) (h : ∀ x ∈ opArgs op, x ∈ c) : PV c (sinkUnit op) nil := by
  unfold sinkUnit
  exact (pv_sink op h).bind fun _ => PV.pure (fun _ hx => nomatch hx)

theorem pv_sinkNode {c : List Id} (op : SinkOp) (h : ∀ x ∈ opArgs op, x ∈ c) : PV c (sinkNode op) one := by
  unfold sinkNode
  refine (pv_sink op h).bind fun out => ?_
  cases out with
  | node id => exact PV.pure (fun x hx => by simp [outRets] at hx ⊢; exact Or.inl hx)
  | unit => exact PV.throw _
  | bool b => exact PV.throw _
  | name a b => exact PV.throw _

theorem pv_elemName {c : List Id} (h : Id) (hc : h ∈ c) : PV c (elemName h) nil := by
  unfold elemName
  refine (pv_sink (.elemName h) (fun x hx => by simp [opArgs] at hx; exact hx ▸ hc)).bind fun out => ?_
  cases out with
  | name a b => exact PV.pure (fun _ hx => nomatch hx)
  | unit => exact PV.throw _
  | bool b => exact PV.throw _
  | node id => exact PV.throw _

theorem pv_parseErr {c : List Id} (e : H5V.Model.XmlTB.Err) : PV c (parseErr e) nil :=
  pv_sinkUnit _ (fun _ hx => nomatch hx)

theorem pv_parseErrs {c : List Id} : ∀ (es : List H5V.Model.XmlTB.Err), PV c (parseErrs es) nil
  | [] => PV.pure (fun _ hx => nomatch hx)
  | e :: rest => by
    unfold parseErrs
    exact (pv_parseErr e).bind fun _ => (pv_parseErrs rest).weaken (fun _ hx => mem_app_r hx)

theorem pv_mod_noheld {c : List Id} {f : State → State} (ht : ∀ s, (f s).traceRev = s.traceRev)
    (hf : ∀ s, held (f s) = held s) : PV c (modS f) nil :=
  pv_modS ht (fun s _ hx => Or.inl (hf s ▸ hx))

theorem pv_processNamespaces {c : List Id} (cfg : TbCfg) (t : Tag) : PV c (processNamespaces cfg t) nil := by
  unfold processNamespaces
  refine PV.getS_bind fun s => (PV.h ?_ s)
  refine (pv_parseErrs _).bind fun _ => PV.bind (R := nil) (PV.ite ?_ (PV.pure (fun _ hx => nomatch hx))) fun _ =>
    PV.pure (fun _ hx => nomatch hx)
  exact pv_mod_noheld (fun _ => rfl) (fun _ => rfl)

theorem pv_createElement {c : List Id} (b : Bound) : PV c (createElement b) one :=
  pv_sinkNode _ (fun _ hx => nomatch hx)

theorem pv_currentNode {c : List Id} (site : String) : PV c (currentNode site) one := by
  unfold currentNode
  refine PV.getS_bind fun s => ?_
  cases ho : s.opened with
  | nil => exact (PV.throw _).h s
  | cons h rest =>
    refine (PV.pure (fun x hx => ?_)).h s
    simp only [List.mem_singleton] at hx
    subst hx
    exact mem_app_l (mem_held.mpr (Or.inr (Or.inl (by rw [ho]; exact List.mem_cons_self))))

theorem pv_push {c : List Id} (h : Id) (hc : h ∈ c) : PV c (push h) nil := by
  unfold push
  refine pv_modS (fun _ => rfl) (fun s x hx => ?_)
  rcases mem_held.mp hx with h1 | h1 | h1
  · exact Or.inl (mem_held.mpr (Or.inl h1))
  · rcases List.mem_cons.mp h1 with rfl | h1
    · exact Or.inr hc
    · exact Or.inl (mem_held.mpr (Or.inr (Or.inl h1)))
  · exact Or.inl (mem_held.mpr (Or.inr (Or.inr h1)))

theorem pv_insertAppropriately {c : List Id} (child : NodeOrText) (hc : ∀ x ∈ childIds child, x ∈ c) :
    PV c (insertAppropriately child) nil := by
  unfold insertAppropriately
  refine (pv_currentNode _).bind fun t => pv_sinkUnit _ (fun x hx => ?_)
  simp only [opArgs, List.mem_cons] at hx
  rcases hx with rfl | hx
  · exact mem_app_l List.mem_cons_self
  · exact mem_app_r (hc x hx)

theorem pv_insertTag {c : List Id} (b : Bound) : PV c (insertTag b) nil := by
  unfold insertTag
  refine (pv_createElement b).bind fun child => ?_
  refine (pv_insertAppropriately _ (fun x hx => ?_)).bind fun _ => pv_push _ (mem_app_r (mem_app_l List.mem_cons_self))
  simp only [childIds, List.mem_singleton] at hx
  exact hx ▸ mem_app_l List.mem_cons_self

theorem pv_appendTag {c : List Id} (b : Bound) : PV c (appendTag b) nil := by
  unfold appendTag
  refine (pv_createElement b).bind fun child => ?_
  refine (pv_insertAppropriately _ (fun x hx => ?_)).bind fun _ => pv_sinkUnit _ (fun x hx => ?_)
  · simp only [childIds, List.mem_singleton] at hx
    exact hx ▸ mem_app_l List.mem_cons_self
  · simp only [opArgs, List.mem_singleton] at hx
    exact hx ▸ mem_app_r (mem_app_l List.mem_cons_self)

/-- `sink.append(&self.doc_handle, AppendNode(c))` -/
theorem pv_appendToDoc {c : List Id} (x : Id) (hx : x ∈ c) :
    PV c (getS >>= fun st => sinkUnit (.append st.docHandle (.node x))) nil := by
  refine PV.getS_bind fun s => PV.h (pv_sinkUnit _ (fun y hy => ?_)) s
  simp only [opArgs, childIds, List.mem_cons, List.not_mem_nil, or_false] at hy
  rcases hy with rfl | rfl
  · exact mem_app_l (mem_held.mpr (Or.inl rfl))
  · exact mem_app_r hx

theorem pv_appendTagToDoc {c : List Id} (b : Bound) : PV c (appendTagToDoc b) one := by
  unfold appendTagToDoc
  refine (pv_createElement b).bind fun child => ?_
  refine PV.getS_bind fun s => PV.h ?_ s
  refine (pv_sinkUnit _ (fun y hy => ?_)).bind fun _ => PV.pure (fun y hy => ?_)
  · simp only [opArgs, childIds, List.mem_cons, List.not_mem_nil, or_false] at hy
    rcases hy with rfl | rfl
    · exact mem_app_l (mem_held.mpr (Or.inl rfl))
    · exact mem_app_r (mem_app_l List.mem_cons_self)
  · simp only [List.mem_singleton] at hy
    exact hy ▸ mem_app_r (mem_app_r (mem_app_l List.mem_cons_self))

theorem pv_appendCommentToDoc {c : List Id} (t : List Char) : PV c (appendCommentToDoc t) nil := by
  unfold appendCommentToDoc
  exact (pv_sinkNode (.createComment t) (fun _ hx => nomatch hx)).bind fun x => pv_appendToDoc x (mem_app_l List.mem_cons_self)

theorem pv_appendPiToDoc {c : List Id} (t d : List Char) : PV c (appendPiToDoc t d) nil := by
  unfold appendPiToDoc
  exact (pv_sinkNode (.createPi t d) (fun _ hx => nomatch hx)).bind fun x => pv_appendToDoc x (mem_app_l List.mem_cons_self)

theorem pv_appendLeafToTag {c : List Id} (mk : SinkOp) (hmk : opArgs mk = []) :
    PV c (currentNode "438" >>= fun target => sinkNode mk >>= fun x => sinkUnit (.append target (.node x))) nil := by
  refine (pv_currentNode _).bind fun target => ?_
  refine (pv_sinkNode mk (fun x hx => by rw [hmk] at hx; cases hx)).bind fun x => pv_sinkUnit _ (fun y hy => ?_)
  simp only [opArgs, childIds, List.mem_cons, List.not_mem_nil, or_false] at hy
  rcases hy with rfl | rfl
  · exact mem_app_r (mem_app_l List.mem_cons_self)
  · exact mem_app_l List.mem_cons_self

theorem pv_appendCommentToTag {c : List Id} (t : List Char) : PV c (appendCommentToTag t) nil := by
  unfold appendCommentToTag; exact pv_appendLeafToTag _ rfl

theorem pv_appendPiToTag {c : List Id} (t d : List Char) : PV c (appendPiToTag t d) nil := by
  unfold appendPiToTag; exact pv_appendLeafToTag _ rfl

theorem pv_appendDoctypeToDoc {c : List Id} (n p sy : Option (List Char)) : PV c (appendDoctypeToDoc n p sy) nil :=
  pv_sinkUnit _ (fun _ hx => nomatch hx)

theorem pv_appendText {c : List Id} (t : List Char) : PV c (appendText t) nil :=
  pv_insertAppropriately _ (fun _ hx => nomatch hx)

theorem pv_anyNamed {c : List Id} (name : QName) : ∀ (l : List Id), (∀ x ∈ l, x ∈ c) → PV c (anyNamed name l) nil
  | [], _ => PV.pure (fun _ hx => nomatch hx)
  | a :: rest, hl => by
    unfold anyNamed
    refine (pv_elemName a (hl a List.mem_cons_self)).bind fun p => ?_
    obtain ⟨ns, loc⟩ := p
    exact PV.ite (PV.pure (fun _ hx => nomatch hx))
      ((pv_anyNamed name rest (fun x hx => hl x (List.mem_cons_of_mem _ hx))).weaken (fun _ hx => mem_app_r hx))

theorem pv_tagInOpenElems {c : List Id} (name : QName) : PV c (tagInOpenElems name) nil := by
  unfold tagInOpenElems
  refine PV.getS_bind fun s => PV.h (pv_anyNamed name _ (fun x hx => ?_)) s
  exact mem_app_l (mem_held.mpr (Or.inr (Or.inl (List.mem_reverse.mp hx))))

theorem pv_pop {c : List Id} : PV c pop one := by
  unfold pop
  refine PV.bind (R := nil) ?_ fun _ => PV.getS_bind fun s => ?_
  · exact pv_mod_noheld (fun _ => rfl) (fun _ => rfl)
  cases ho : s.opened with
  | nil => exact (PV.throw _).h s
  | cons node rest =>
    refine PV.h ?_ s
    have hn : node ∈ held s := mem_held.mpr (Or.inr (Or.inl (by rw [ho]; exact List.mem_cons_self)))
    refine PV.bind (R := nil) (pv_modS (fun _ => rfl) (fun s' x hx => ?_)) fun _ => ?_
    · rcases mem_held.mp hx with h1 | h1 | h1
      · exact Or.inl (mem_held.mpr (Or.inl h1))
      · have : x ∈ held s := mem_held.mpr (Or.inr (Or.inl (by rw [ho]; exact List.mem_cons_of_mem _ h1)))
        exact Or.inr (mem_app_l this)
      · exact Or.inl (mem_held.mpr (Or.inr (Or.inr h1)))
    · refine (pv_sinkUnit _ (fun y hy => ?_)).bind fun _ => PV.pure (fun y hy => ?_)
      · simp only [opArgs, List.mem_singleton] at hy
        exact hy ▸ mem_app_r (mem_app_l hn)
      · simp only [List.mem_singleton] at hy
        exact hy ▸ mem_app_r (mem_app_r (mem_app_l hn))

theorem pv_currentNodeIs {c : List Id} (name : QName) : PV c (currentNodeIs name) nil := by
  unfold currentNodeIs
  refine (pv_currentNode _).bind fun cur => (pv_elemName cur (mem_app_l List.mem_cons_self)).bind fun p => ?_
  obtain ⟨ns, loc⟩ := p
  exact PV.pure (fun _ hx => nomatch hx)

theorem pv_popUntil {c : List Id} (name : QName) : ∀ (fuel : Nat), PV c (popUntil name fuel) nil
  | 0 => PV.throw _
  | fuel + 1 => by
    unfold popUntil
    refine (pv_currentNodeIs name).bind fun b => PV.ite (PV.pure (fun _ hx => nomatch hx)) ?_
    exact (pv_pop.forget (R' := nil) (fun _ _ hx => nomatch hx)).bind fun _ => pv_popUntil name fuel

theorem pv_closeTag {c : List Id} (name : QName) : PV c (closeTag name) nil := by
  unfold closeTag
  refine (pv_currentNode _).bind fun cur => (pv_elemName cur (mem_app_l List.mem_cons_self)).bind fun p => ?_
  obtain ⟨ns, loc⟩ := p
  refine PV.bind (R := nil) (PV.ite (pv_parseErr _) (PV.pure (fun _ hx => nomatch hx))) fun _ => ?_
  refine (pv_tagInOpenElems name).bind fun b => PV.ite ?_ (PV.pure (fun _ hx => nomatch hx))
  refine PV.getS_bind fun s => PV.h ?_ s
  exact (pv_popUntil name _).bind fun _ => (pv_pop.forget (R' := nil) (fun _ _ hx => nomatch hx)).bind fun _ =>
    PV.pure (fun _ hx => nomatch hx)

theorem pv_endIfNoOpenElems {c : List Id} : PV c endIfNoOpenElems nil := by
  unfold endIfNoOpenElems
  refine pv_mod_noheld (fun s => ?_) (fun s => ?_) <;> split <;> rfl

theorem pv_setPhase {c : List Id} (p : Phase) : PV c (setPhase p) nil :=
  pv_mod_noheld (fun _ => rfl) (fun _ => rfl)

/-- the handle in a `Script` answer of `step` -/
def stepH : StepResult → List Id
  | .script n => [n]
  | _ => []

/-- the handle in a `Script` answer of `process_token` -/
def resH : PResult → List Id
  | .script n => [n]
  | _ => []

theorem pv_done {c : List Id} : PV c (Pure.pure StepResult.done : M StepResult) stepH :=
  PV.pure (fun _ hx => nomatch hx)

theorem pv_then_done {c : List Id} {m : M Unit} (h : PV c m nil) :
    PV c (m >>= fun _ => Pure.pure StepResult.done) stepH := h.bind fun _ => pv_done

theorem pv_step {c : List Id} (cfg : TbCfg) (mode : Phase) (tok : Token) : PV c (step cfg mode tok) stepH := by
  cases mode with
  | start =>
    cases tok with
    | tag t =>
      obtain ⟨k, n, as⟩ := t
      cases k with
      | start =>
        show PV c (processNamespaces cfg ⟨.start, n, as⟩ >>= _) _
        refine (pv_processNamespaces cfg _).bind fun b => (pv_setPhase _).bind fun _ =>
          (pv_appendTagToDoc b).bind fun h => (pv_push h (mem_app_l List.mem_cons_self)).bind fun _ => pv_done
      | empty =>
        show PV c (processNamespaces cfg ⟨.empty, n, as⟩ >>= _) _
        refine (pv_processNamespaces cfg _).bind fun b => (pv_setPhase _).bind fun _ =>
          (pv_appendTagToDoc b).bind fun h => (pv_sinkUnit _ (fun y hy => ?_)).bind fun _ => pv_done
        simp only [opArgs, List.mem_singleton] at hy
        exact hy ▸ mem_app_l List.mem_cons_self
      | end_ => exact pv_then_done (pv_parseErr _)
      | short => exact pv_then_done (pv_parseErr _)
    | doctype n p sy =>
      show PV c (getS >>= _) _
      refine PV.getS_bind fun s => PV.h ?_ s
      refine PV.bind (R := nil) ?_ fun _ => ?_
      · exact pv_mod_noheld (fun _ => rfl) (fun _ => rfl)
      exact PV.bind (R := nil) (PV.ite (pv_parseErr _) (pv_appendDoctypeToDoc n p sy)) fun _ => pv_done
    | comment t => exact pv_then_done (pv_appendCommentToDoc t)
    | pi t d => exact pv_then_done (pv_appendPiToDoc t d)
    | chars cs => exact PV.ite pv_done (pv_then_done (pv_parseErr _))
    | nullChar => exact pv_then_done (pv_parseErr _)
    | eof => exact (pv_parseErr _).bind fun _ => PV.pure (fun _ hx => nomatch hx)
  | main =>
    cases tok with
    | tag t =>
      obtain ⟨k, n, as⟩ := t
      cases k with
      | start =>
        show PV c (processNamespaces cfg ⟨.start, n, as⟩ >>= _) _
        exact (pv_processNamespaces cfg _).bind fun b => pv_then_done (pv_insertTag b)
      | empty =>
        show PV c (processNamespaces cfg ⟨.empty, n, as⟩ >>= _) _
        refine (pv_processNamespaces cfg _).bind fun b => PV.ite ?_ (pv_then_done (pv_appendTag b))
        refine (pv_insertTag b).bind fun _ => (pv_currentNode _).bind fun script => (pv_closeTag _).bind fun _ =>
          PV.pure (fun y hy => ?_)
        simp only [stepH, List.mem_singleton] at hy
        exact hy ▸ mem_app_r (mem_app_l List.mem_cons_self)
      | end_ =>
        show PV c (processNamespaces cfg ⟨.end_, n, as⟩ >>= _) _
        refine (pv_processNamespaces cfg _).bind fun b => PV.ite ?_ ?_
        · refine (pv_currentNode _).bind fun script => (pv_closeTag _).bind fun _ => pv_endIfNoOpenElems.bind fun _ =>
            PV.pure (fun y hy => ?_)
          simp only [stepH, List.mem_singleton] at hy
          exact hy ▸ mem_app_r (mem_app_r (mem_app_l List.mem_cons_self))
        · exact (pv_closeTag _).bind fun _ => pv_then_done pv_endIfNoOpenElems
      | short =>
        exact (pv_pop.forget (R' := nil) (fun _ _ hx => nomatch hx)).bind fun _ => pv_then_done pv_endIfNoOpenElems
    | doctype n p sy => exact pv_then_done (pv_parseErr _)
    | comment t => exact pv_then_done (pv_appendCommentToTag t)
    | pi t d => exact pv_then_done (pv_appendPiToTag t d)
    | chars cs => exact pv_then_done (pv_appendText cs)
    | nullChar => exact PV.pure (fun _ hx => nomatch hx)
    | eof => exact PV.pure (fun _ hx => nomatch hx)
  | end_ =>
    cases tok with
    | tag t => exact pv_then_done (pv_parseErr _)
    | doctype n p sy => exact pv_then_done (pv_parseErr _)
    | comment t => exact pv_then_done (pv_appendCommentToDoc t)
    | pi t d => exact pv_then_done (pv_appendPiToDoc t d)
    | chars cs => exact PV.ite pv_done (pv_then_done (pv_parseErr _))
    | nullChar => exact pv_then_done (pv_parseErr _)
    | eof => exact pv_done

theorem pv_processToCompletion {c : List Id} (cfg : TbCfg) : ∀ (fuel : Nat) (tok : Token),
    PV c (processToCompletion cfg fuel tok) resH
  | 0, _ => PV.throw _
  | fuel + 1, tok => by
    unfold processToCompletion
    refine PV.getS_bind fun s => PV.h ?_ s
    refine (pv_step cfg s.phase tok).bind fun r => ?_
    cases r with
    | done => exact PV.pure (fun _ hx => nomatch hx)
    | reprocess m t => exact (pv_setPhase m).bind fun _ => pv_processToCompletion cfg fuel t
    | script node => exact PV.pure (fun y hy => by
        simp only [resH, List.mem_singleton] at hy
        exact hy ▸ mem_app_l List.mem_cons_self)

theorem pv_processToken {c : List Id} (cfg : TbCfg) (inp : Input) : PV c (processToken cfg inp) resH := by
  cases inp with
  | parseError msg =>
    exact (pv_sinkUnit (.parseError msg) (fun _ hx => nomatch hx)).bind fun _ => PV.pure (fun _ hx => nomatch hx)
  | token t => exact pv_processToCompletion cfg 2 t

theorem pv_popAll {c : List Id} : ∀ (l : List Id), (∀ x ∈ l, x ∈ c) → PV c (popAll l) nil
  | [], _ => PV.pure (fun _ hx => nomatch hx)
  | a :: rest, hl => by
    unfold popAll
    refine (pv_sinkUnit _ (fun y hy => ?_)).bind fun _ =>
      (pv_popAll rest (fun x hx => hl x (List.mem_cons_of_mem _ hx))).weaken (fun _ hx => mem_app_r hx)
    simp only [opArgs, List.mem_singleton] at hy
    exact hy ▸ hl a List.mem_cons_self

theorem pv_finish {c : List Id} : PV c finish nil := by
  unfold finish
  refine PV.getS_bind fun s => PV.h ?_ s
  refine PV.bind (R := nil) (pv_modS (fun _ => rfl) (fun s' x hx => ?_)) fun _ =>
    pv_popAll _ (fun x hx => mem_app_r (mem_app_l (mem_held.mpr (Or.inr (Or.inl hx)))))
  rcases mem_held.mp hx with h1 | h1 | h1
  · exact Or.inl (mem_held.mpr (Or.inl h1))
  · cases h1
  · exact Or.inl (mem_held.mpr (Or.inr (Or.inr h1)))

theorem pv_processTokens {c : List Id} (cfg : TbCfg) : ∀ (toks : List Input), PV c (processTokens cfg toks) nil
  | [] => PV.pure (fun _ hx => nomatch hx)
  | t :: rest => by
    unfold processTokens
    exact ((pv_processToken cfg t).forget (R' := nil) (fun _ _ hx => nomatch hx)).bind fun _ =>
      pv_processTokens cfg rest

theorem pv_newTB {c : List Id} : PV c newTB nil := by
  unfold newTB
  refine (pv_sinkNode .getDocument (fun _ hx => nomatch hx)).bind fun doc => pv_modS (fun _ => rfl) (fun s x hx => ?_)
  rcases mem_held.mp hx with h1 | h1 | h1
  · exact Or.inr (h1 ▸ mem_app_l List.mem_cons_self)
  · exact Or.inl (mem_held.mpr (Or.inr (Or.inl h1)))
  · exact Or.inl (mem_held.mpr (Or.inr (Or.inr h1)))

end H5V.Lemmas.XmlTBH
